(* AssignValidFacts.v — what a FAILED emplacer leaves behind (C18): for the emplacers of the three
   containers, and of every sized type, the bytes left by a failure are a valid value again —
   unchanged (FromArray, FromStr: the capacity is checked first), a valid prefix of the requested
   content (vec::FromIterator), or the items completed so far with the chain terminated
   (flex::FromIterator); and (C14) assign_in_place touches nothing behind the value's own bytes. *)
From Coq Require Import List NArith Bool Lia ZArith ZifyN ZifyBool ZifyNat.
From Flatty.Model Require Import Base Ty Layout Utf8 Validate View Emplace Portable.
From Flatty.Proofs Require Import ArithFacts LayoutFacts BytesFacts ValidateFacts FramingFacts ChainFacts
  ViewFacts PortableFacts OpsFacts VecOpsFacts EmplaceFacts EmplaceSpec PortableTyFacts EncFacts AssignFacts
  EmplaceUnsizedFacts.
Open Scope N_scope.

(* ---------- small facts ---------- *)

Lemma opt_all_firstn {A} (l : list (option A)) : forall c xs, opt_all l = Some xs ->
  opt_all (firstn c l) = Some (firstn c xs).
Proof.
  induction l as [|x r IH]; intros c xs H.
  - injection H as <-. destruct c; reflexivity.
  - cbn [opt_all] in H. destruct x as [y|]; [|discriminate].
    destruct (opt_all r) as [ys|] eqn:E; [|discriminate]. injection H as <-.
    destruct c as [|c]; [reflexivity|]. cbn [firstn opt_all]. rewrite (IH c ys eq_refl). reflexivity.
Qed.

Lemma opt_map_all_firstn {A B} (f : A -> option B) (l : list A) : forall c ys, opt_map_all f l = Some ys ->
  opt_map_all f (firstn c l) = Some (firstn c ys).
Proof.
  induction l as [|x r IH]; intros c ys H.
  - injection H as <-. destruct c; reflexivity.
  - cbn [opt_map_all] in H. destruct (f x) as [y|] eqn:Ef; [|discriminate].
    destruct (opt_map_all f r) as [yr|] eqn:E; [|discriminate]. injection H as <-.
    destruct c as [|c]; [reflexivity|]. cbn [firstn opt_map_all]. rewrite Ef, (IH c yr eq_refl). reflexivity.
Qed.

Lemma forallb_firstn {A} (f : A -> bool) (l : list A) : forall c, forallb f l = true -> forallb f (firstn c l) = true.
Proof.
  induction l as [|x r IH]; intros c H; [destruct c; reflexivity|].
  destruct c as [|c]; [reflexivity|]. cbn [firstn forallb] in *.
  apply andb_true_iff in H. destruct H as [H1 H2]. rewrite H1, (IH c H2). reflexivity.
Qed.

Lemma ebind_err_inv r f b k p : ebind r f = (b, Err k p) -> is_err (snd r) = false ->
  exists b0, r = (b0, Ok tt) /\ f b0 = (b, Err k p).
Proof.
  destruct r as [b0 [[]|k0 p0|c]]; cbn [ebind snd is_err]; intros H He; try discriminate. eauto.
Qed.

Lemma emplace_u_sized_not_err pv t i a buf : sized t = true -> is_err (snd (emplace_u pv t i a buf)) = false.
Proof.
  intros Hs. rewrite emplace_u_sized by exact Hs.
  destruct (enc_sized t i); [apply write_masked_not_err|reflexivity].
Qed.

(* ---------- vec::FromIterator: a failure leaves what the emplacer of a prefix leaves ---------- *)

Lemma vec_iter_fail_prefix pv et l is a buf b' k p :
  emplace_u pv (TVec et l) (IVecIter is) a buf = (b', Err k p) ->
  exists c, emplace_u pv (TVec et l) (IVecIter (firstn c is)) a buf = (b', Ok tt).
Proof.
  rewrite emplace_u_vec_iter. unfold vec_items. intros H.
  destruct (opt_all (map (enc_sized et) is)) as [encs|] eqn:Ee; [|discriminate H].
  destruct (do slots <- vec_slots et l (blen buf); clamp_cap l slots) as [cap|k0 p0|c0] eqn:Ec; try discriminate H.
  cbv zeta in H. cbn [andb] in H.
  apply ebind_err_inv in H; [|apply write_int_not_err]. destruct H as (b0 & Hb0 & H).
  apply ebind_err_inv in H; [|apply vec_fill_not_err]. destruct H as (b1 & Hb1 & H).
  destruct (N.ltb_spec cap (N.of_nat (length encs))) as [Hlt|Hge]; [|discriminate H].
  unfold fail in H. injection H as <- _ _.
  exists (N.to_nat cap). rewrite emplace_u_vec_iter. unfold vec_items.
  rewrite <- firstn_map, (opt_all_firstn _ _ _ Ee), Ec. cbv zeta. cbn [andb].
  rewrite Hb0. cbn [ebind]. rewrite firstn_firstn, Nat.min_id. rewrite Hb1. cbn [ebind].
  destruct (N.ltb_spec cap (N.of_nat (length (firstn (N.to_nat cap) encs)))) as [H1|H1]; [|reflexivity].
  rewrite firstn_length in H1. lia.
Qed.

Lemma vec_iter_fail_valid et l : wf (TVec et l) = true -> narrow_ty (TVec et l) = true ->
  forall is, init_ok (TVec et l) (IVecIter is) = true -> utf8_init (IVecIter is) = true ->
  forall pv a buf b' k p, aligned a (align (TVec et l)) = true -> min_size (TVec et l) <= blen buf ->
    emplace_u pv (TVec et l) (IVecIter is) a buf = (b', Err k p) ->
    validate_u (TVec et l) a b' = Ok tt.
Proof.
  intros Hw Hn is Hi Hu pv a buf b' k p Ha Hm H.
  destruct (vec_iter_fail_prefix pv et l is a buf b' k p H) as (c & Hc).
  assert (Hi' : init_ok (TVec et l) (IVecIter (firstn c is)) = true).
  { unfold init_ok in *. cbn [spec_value] in *.
    destruct (opt_map_all (spec_value et) is) as [vs|] eqn:Es; [|discriminate].
    rewrite (opt_map_all_firstn _ _ c vs Es). reflexivity. }
  assert (Hu' : utf8_init (IVecIter (firstn c is)) = true) by (cbn [utf8_init] in *; apply forallb_firstn; exact Hu).
  destruct (emplace_u_ok (TVec et l) Hw Hn pv (IVecIter (firstn c is)) a buf Hi' Hu' Ha Hm) as (_ & _ & H3 & _).
  rewrite Hc in H3. cbn [fst snd] in H3. destruct (H3 eq_refl) as (Hv & _). exact Hv.
Qed.

(* ---------- flex::FromIterator: a failure leaves the completed items, the chain terminated ---------- *)

Definition ff_failed (et : ty) (l : intty) (pre : bytes) (prev : option (N * N)) (a : N) (data : bytes) (pos : N)
                     (r : eres) : Prop :=
  exists data', blen data' = blen data /\
    ((fst r = pre ++ data' /\ take (flex_offset_size et l) data' = take (flex_offset_size et l) data) \/
     (exists items q, fst r = seal l prev pre ++ data' /\
        chain l (flex_offset_size et l) (align (TFlex et l)) (int_max l) a data' pos items (EndLast q) /\
        Forall (item_ok et) items)).

Lemma flex_fill_failed pv et l : wf (TFlex et l) = true -> narrow l = true -> EMP et ->
  forall is pre prev a data pos k p,
    Forall (fun i => init_ok et i = true /\ utf8_init i = true) is ->
    a mod align (TFlex et l) = 0 -> blen data mod align (TFlex et l) = 0 -> prev_ok l prev pre ->
    snd (flex_fill et l (flex_item_emp pv et) (size_m et) is pre prev a data pos) = Err k p ->
    ff_failed et l pre prev a data pos (flex_fill et l (flex_item_emp pv et) (size_m et) is pre prev a data pos).
Proof.
  intros Hw Hn IH.
  pose proof (flex_consts et l Hw) as (Hal & Hlos & Hosal & Halia & Hos & Hia & Halet).
  pose proof Hw as Hw0. apply wf_flex_inv in Hw0. destruct Hw0 as [Hwt Hl].
  set (os := flex_offset_size et l) in *. set (al := align (TFlex et l)) in *.
  induction is as [|i r IHr]; intros pre prev a data pos k p Hall Ha Hd Hprev Herr.
  - cbn [flex_fill ok snd] in Herr. discriminate.
  - inversion Hall as [|i0 r0 [Hi Hu] Hallr]; subst i0 r0.
    revert Herr. rewrite flex_fill_cons. unfold ff_step. cbv zeta. fold os al.
    (* the outcomes that leave the head slot as it was *)
    assert (Hleft : forall payload', blen payload' = blen (drop os data) -> os <= blen data -> forall kk pp,
              ff_failed et l pre prev a data pos (pre ++ take os data ++ payload', Err kk pp)).
    { intros payload' Hp' Hc kk pp. exists (take os data ++ payload'). cbn [fst]. split.
      - rewrite blen_app, Hp', blen_take_le, blen_drop by exact Hc. slia.
      - left. split; [reflexivity|]. fold os. apply take_app_len. apply blen_take_le. exact Hc. }
    destruct (N.ltb_spec (blen data) os) as [Hc|Hc].
    { intros _. exists data. split; [reflexivity|]. left. cbn [fail fst]. auto. }
    set (slot := take os data). set (payload := drop os data).
    assert (Hsl : blen slot = os) by (unfold slot; apply blen_take_le; exact Hc).
    assert (Hpl : blen payload = blen data - os) by (unfold payload; apply blen_drop).
    assert (Hpa : (a + os) mod align et = 0).
    { apply mod_trans with (m := al); auto using align_pos. apply mod_add_mult; auto. }
    pose proof (flex_item_post pv et i (a + os) payload Hwt IH Hi Hu Hpa) as (I1 & I2 & I3 & I4 & I5).
    destruct (flex_item_emp pv et i (a + os) payload) as [payload' res] eqn:Eitem. cbn [fst snd] in *.
    destruct res as [[]|k1 p1|c]; cbv beta iota.
    2:{ intros _. apply Hleft; auto. }
    2:{ discriminate I1. }
    destruct (I3 eq_refl) as (Hmin & Hgood). clear I3 I5.
    assert (Hrep : representable et i = true /\ extent et i <= blen payload) by (apply I4; reflexivity).
    destruct Hrep as [Hrep Hext].
    pose proof Hgood as (Hv & (v & Hview & Hsp) & Hsz).
    rewrite Hsz. cbv beta iota. set (psize := ceil_mul (extent et i) al).
    set (off := os + psize) in *.
    assert (Hpsm : psize mod al = 0) by (apply ceil_mul_mod; exact Hal).
    assert (Hplm : blen payload mod al = 0) by (rewrite Hpl; apply mod_sub_mult; auto).
    assert (Hpsle : psize <= blen payload) by (apply ceil_mul_le_mult; auto).
    assert (Hpsge : extent et i <= psize) by (apply ceil_mul_ge; exact Hal).
    assert (Hoffm : off mod al = 0) by (apply mod_add_mult; auto).
    unfold from_usize.
    destruct (N.leb_spec off (int_max l)) as [Hom|Hom].
    2:{ intros _. apply Hleft; auto. }
    destruct (N.ltb_spec off (int_max l)) as [Holt|Holt].
    2:{ intros _. apply Hleft; auto. }
    assert (Haa : aligned a (ialign l) = true).
    { apply aligned_iff. apply mod_trans with (m := al); auto. }
    rewrite (emplace_int_ok l (int_max l) a slot Haa) by slia. cbv beta iota.
    destruct (N.ltb_spec (blen payload') psize); [slia|].
    change (match prev with
            | Some (pp, po) => take pp pre ++ to_bytes (ibe l) (isize l) po ++ drop (pp + isize l) pre
            | None => pre
            end) with (seal l prev pre).
    set (slot' := to_bytes (ibe l) (isize l) (int_max l) ++ drop (isize l) slot).
    assert (Hsl' : blen slot' = os) by (unfold slot'; rewrite blen_set_len; slia).
    pose proof (seal_blen l prev pre Hprev) as Hseal.
    set (pre' := seal l prev pre) in *.
    set (tk := take psize payload'). set (data2 := drop psize payload').
    assert (Htk : blen tk = psize) by (unfold tk; apply blen_take_le; slia).
    assert (Hd2 : blen data2 = blen payload - psize) by (unfold data2; rewrite blen_drop; slia).
    assert (Hprev2 : prev_ok l (Some (blen pre', off)) (pre' ++ slot' ++ tk)).
    { cbn [prev_ok]. rewrite !blen_app. slia. }
    intros Herr.
    pose proof (IHr (pre' ++ slot' ++ tk) (Some (blen pre', off)) (a + off) data2 (pos + off) k p Hallr
                  ltac:(apply mod_add_mult; auto) ltac:(rewrite Hd2; apply mod_sub_mult; auto) Hprev2 Herr)
      as (data2' & Hbl2 & Hcase).
    set (rr := flex_fill et l (flex_item_emp pv et) (size_m et) r (pre' ++ slot' ++ tk)
                 (Some (blen pre', off)) (a + off) data2 (pos + off)) in *.
    destruct Hcase as [(Hfst & _)|(items2 & q & Hfst & Hch & Hoks)].
    + (* the next item did not get in: this one keeps its marker and the rest as its room *)
      exists (slot' ++ tk ++ data2'). split; [rewrite !blen_app; slia|]. right.
      exists [(pos, a + os, tk ++ data2')], pos. split; [|split].
      * rewrite Hfst, <- !app_assoc. reflexivity.
      * rewrite app_assoc. unfold slot'. rewrite <- app_assoc.
        replace (to_bytes (ibe l) (isize l) (int_max l) ++ drop (isize l) slot ++ tk ++ data2')
          with ((to_bytes (ibe l) (isize l) (int_max l) ++ drop (isize l) slot) ++ (tk ++ data2'))
          by (rewrite <- !app_assoc; reflexivity).
        apply chain_build_last; auto; slia.
      * constructor; [|constructor].
        assert (Hgl : good et i (a + os) (tk ++ data2')).
        { apply (good_local et i (a + os) payload'); auto; try slia.
          - rewrite blen_app. slia.
          - rewrite take_app_le by slia. unfold tk. apply take_take. slia. }
        destruct Hgl as (Hv2 & _).
        split; cbn [fst snd]; [|exact Hv2].
        apply check_align_min_intro; auto. rewrite blen_app. pose proof (extent_min et i Hwt Hi). slia.
    + (* the item is sealed by the next one *)
      set (hdr := to_bytes (ibe l) (isize l) off ++ drop (isize l) slot).
      assert (Hhdr : blen hdr = os) by (unfold hdr; rewrite blen_set_len; slia).
      exists ((hdr ++ tk) ++ data2'). split; [rewrite !blen_app; slia|]. right.
      exists ((pos, a + os, tk) :: items2), q. split; [|split].
      * rewrite Hfst. cbn [seal]. rewrite take_app_len by reflexivity.
        rewrite drop_app_ge by slia. replace (blen pre' + isize l - blen pre') with (isize l) by slia.
        rewrite drop_app_le by slia. unfold slot'. rewrite drop_app_len by apply tb_len.
        unfold hdr. rewrite <- !app_assoc. reflexivity.
      * apply chain_build_next; auto; try slia.
      * constructor; [|exact Hoks].
        assert (Hgl : good et i (a + os) tk).
        { apply (good_local et i (a + os) payload'); auto; try slia.
          unfold tk. rewrite take_take by slia. reflexivity. }
        destruct Hgl as (Hv2 & _).
        split; cbn [fst snd]; [|exact Hv2].
        apply check_align_min_intro; auto. pose proof (extent_min et i Hwt Hi). slia.
Qed.

Lemma flex_iter_fail_valid et l : wf (TFlex et l) = true -> narrow_ty (TFlex et l) = true ->
  forall is, init_ok (TFlex et l) (IFlex is) = true -> utf8_init (IFlex is) = true ->
  forall pv a buf k p, aligned a (align (TFlex et l)) = true -> min_size (TFlex et l) <= blen buf ->
    snd (emplace_u pv (TFlex et l) (IFlex is) a buf) = Err k p ->
    validate_u (TFlex et l) a (fst (emplace_u pv (TFlex et l) (IFlex is) a buf)) = Ok tt.
Proof.
  intros Hw Hnt is Hi Hu pv a buf k p Ha Hm.
  pose proof Hnt as Hnt0. apply narrow_flex_inv in Hnt0. destruct Hnt0 as [Hnet Hn].
  pose proof (flex_consts et l Hw) as (Hal & Hlos & Hosal & Halia & Hos & Hia & Halet).
  pose proof Hw as Hw0. apply wf_flex_inv in Hw0. destruct Hw0 as [Hwt Hl].
  pose proof (proj1 emp_mut et Hwt Hnet) as IH.
  unfold init_ok in Hi. cbn [spec_value] in Hi.
  destruct (opt_map_all (spec_value et) is) as [vs|] eqn:Es; [|discriminate]. clear Hi.
  cbn [utf8_init] in Hu. pose proof (flex_inits_ok et is vs Es Hu) as Hall.
  cbn [min_size] in Hm. change (umax (isize l) (align et)) with (flex_offset_size et l) in Hm.
  cbn [align] in Ha. change (umax (ialign l) (align et)) with (align (TFlex et l)) in Ha.
  apply aligned_iff in Ha.
  set (os := flex_offset_size et l) in *. set (al := align (TFlex et l)) in *.
  rewrite emplace_u_flex. cbv zeta. fold al.
  set (n := floor_mul (blen buf) al).
  pose proof (floor_mul_le (blen buf) al Hal) as Hnb. fold n in Hnb.
  assert (Hon : os <= n) by (apply floor_mul_ge_mult; auto).
  assert (Hnm : n mod al = 0) by (apply floor_mul_mod; exact Hal).
  assert (Hdl : blen (take n buf) = n) by (apply blen_take_le; exact Hnb).
  assert (Haa : aligned a (ialign l) = true).
  { apply aligned_iff. apply mod_trans with (m := al); auto. }
  rewrite (emplace_int_ok l 0 a (take n buf) Haa) by slia. cbv beta iota.
  set (data0 := to_bytes (ibe l) (isize l) 0 ++ drop (isize l) (take n buf)).
  assert (Hd0 : blen data0 = n) by (unfold data0; rewrite blen_set_len; slia).
  cbn [fst snd]. intros Herr.
  destruct (flex_fill_failed pv et l Hw Hn IH is [] None a data0 0 k p Hall Ha ltac:(rewrite Hd0; exact Hnm) I Herr)
    as (data' & Hbl & Hcase).
  set (rr := flex_fill et l (flex_item_emp pv et) (size_m et) is [] None a data0 0) in *.
  assert (Hnomax : forall items : list flex_item, nomax l -> items = []).
  { intros items [c Hc]. rewrite (to_usize_max l Hn) in Hc. discriminate. }
  assert (Hfd : fst rr = data' -> flex_data et l (fst rr ++ drop n buf) = data').
  { intros E. unfold flex_data. fold al. rewrite E.
    assert (HBl : blen (data' ++ drop n buf) = blen buf) by (rewrite blen_app, blen_drop; slia).
    rewrite HBl. fold n. apply take_app_len. slia. }
  destruct Hcase as [(Hfst & Htk)|(items & q & Hfst & Hch & Hoks)].
  - cbn [app] in Hfst.
    apply (chain_flex_valid et l a _ [] (EndZero 0) Hw); [|constructor|apply Hnomax].
    rewrite (Hfd Hfst). apply ch_zero; auto; [slia|].
    fold os in Htk.
    assert (Hag : read_len l data' = read_len l data0).
    { rewrite <- (take_drop os data'), Htk.
      rewrite (ext_read_len l (take os data0) _ (ext_app _ _)) by (rewrite blen_take_le; slia).
      symmetry. rewrite <- (take_drop os data0) at 1.
      apply (ext_read_len l (take os data0) _ (ext_app _ _)). rewrite blen_take_le; slia. }
    rewrite Hag. unfold data0. apply read_len_zero.
  - cbn [seal app] in Hfst.
    apply (chain_flex_valid et l a _ items (EndLast q) Hw); [|exact Hoks|apply Hnomax].
    rewrite (Hfd Hfst), (flex_max_narrow l Hn). exact Hch.
Qed.

(* ---------- the containers and the sized types ---------- *)

(* the types whose emplacers are those of the library itself: every sized type and the three
   containers; the generated initialisers of unsized structs / enums are the rest *)
Definition library_emplacer (t : ty) : bool :=
  match t with
  | TStruct false _ | TEnum false _ _ _ => false
  | _ => true
  end.

(* an emplacer of the library that fails on a valid target leaves a valid target *)
Theorem emplace_u_failed_valid t i : wf t = true -> narrow_ty t = true -> library_emplacer t = true ->
  init_ok t i = true -> utf8_init i = true ->
  forall pv a buf k p, aligned a (align t) = true -> min_size t <= blen buf ->
    validate_u t a buf = Ok tt ->
    snd (emplace_u pv t i a buf) = Err k p ->
    validate_u t a (fst (emplace_u pv t i a buf)) = Ok tt.
Proof.
  intros Hw Hn Hlib Hi Hu pv a buf k p Ha Hm Hv Herr.
  assert (Hsized : sized t = true -> False).
  { intros Hs. pose proof (emplace_u_sized_not_err pv t i a buf Hs) as H. rewrite Herr in H. discriminate. }
  destruct t as [|it| |tag n d|t n|et l|l|et l|s fs|s tag d vs];
    try (exfalso; apply Hsized; reflexivity).
  - (* FlatVec *)
    unfold init_ok in Hi.
    destruct i as [v|is0|k0 is0|is0|is0|s0|is0| |]; cbn [spec_value] in Hi; try discriminate.
    + destruct (emplace_u pv (TVec et l) (IVecArr is0) a buf) as [b' r'] eqn:E. cbn [snd] in Herr. subst r'.
      destruct (vec_from_array_err_unchanged pv et l is0 a buf b' k p E) as [-> _]. exact Hv.
    + destruct (emplace_u pv (TVec et l) (IVecIter is0) a buf) as [b' r'] eqn:E. cbn [snd] in Herr. subst r'.
      cbn [fst]. apply (vec_iter_fail_valid et l Hw Hn is0) with (pv := pv) (buf := buf) (k := k) (p := p); auto.
    + pose proof (container_default_not_err pv (TVec et l) a buf (or_introl (ex_intro _ et (ex_intro _ l eq_refl)))
                    IEmpty (or_introl eq_refl)) as H. rewrite Herr in H. discriminate.
    + pose proof (container_default_not_err pv (TVec et l) a buf (or_introl (ex_intro _ et (ex_intro _ l eq_refl)))
                    IDefault (or_intror eq_refl)) as H. rewrite Herr in H. discriminate.
  - (* FlatString *)
    unfold init_ok in Hi.
    destruct i as [v|is0|k0 is0|is0|is0|s0|is0| |]; cbn [spec_value] in Hi; try discriminate.
    + destruct (emplace_u pv (TStr l) (IStr s0) a buf) as [b' r'] eqn:E. cbn [snd] in Herr. subst r'.
      destruct (str_from_str_err_unchanged pv l s0 a buf b' k p E) as [-> _]. exact Hv.
    + pose proof (container_default_not_err pv (TStr l) a buf (or_intror (or_introl (ex_intro _ l eq_refl)))
                    IEmpty (or_introl eq_refl)) as H. rewrite Herr in H. discriminate.
    + pose proof (container_default_not_err pv (TStr l) a buf (or_intror (or_introl (ex_intro _ l eq_refl)))
                    IDefault (or_intror eq_refl)) as H. rewrite Herr in H. discriminate.
  - (* FlexVec *)
    pose proof Hi as Hi0. unfold init_ok in Hi.
    destruct i as [v|is0|k0 is0|is0|is0|s0|is0| |]; cbn [spec_value] in Hi; try discriminate.
    + apply (flex_iter_fail_valid et l Hw Hn is0 Hi0 Hu pv a buf k p Ha Hm Herr).
    + pose proof (container_default_not_err pv (TFlex et l) a buf
                    (or_intror (or_intror (ex_intro _ et (ex_intro _ l eq_refl)))) IEmpty (or_introl eq_refl)) as H.
      rewrite Herr in H. discriminate.
    + pose proof (container_default_not_err pv (TFlex et l) a buf
                    (or_intror (or_intror (ex_intro _ et (ex_intro _ l eq_refl)))) IDefault (or_intror eq_refl)) as H.
      rewrite Herr in H. discriminate.
  - destruct s; [exfalso; apply Hsized; reflexivity|discriminate Hlib].
  - destruct s; [exfalso; apply Hsized; reflexivity|discriminate Hlib].
Qed.

(* ---------- assign_in_place ---------- *)

(* what assign_in_place does, on a valid target: the emplacer runs on the first n bytes (the value's
   own bytes, as_bytes()), which are themselves a valid value; the rest is put back *)
Lemma assign_shape t i pv a bs : wf t = true -> validate t a bs = Ok tt ->
  exists n, bytes_len t (blen bs) = Ok n /\ n <= blen bs /\
    aligned a (align t) = true /\ min_size t <= n /\ validate_u t a (take n bs) = Ok tt /\
    assign_in_place pv t i a bs =
      (fst (emplace_u pv t i a (take n bs)) ++ drop n bs, snd (emplace_u pv t i a (take n bs))).
Proof.
  intros Hw Hv.
  destruct (as_bytes_roundtrip t a bs Hw Hv) as (n & k & Hbl & Hsz & Hnb & Hkn & Hvn & Hszn & _).
  apply validate_inv in Hvn. destruct Hvn as (Hc & Hm & Hvu).
  rewrite blen_take_le in Hm by exact Hnb.
  assert (Ha : aligned a (align t) = true).
  { unfold check_align_min in Hc. destruct (aligned a (align t)); [reflexivity|discriminate]. }
  exists n. repeat split; auto.
  unfold assign_in_place. rewrite Hbl. unfold on_slice. rewrite take_0, drop_0, N.add_0_l. reflexivity.
Qed.

(* a value that validates on a slice validates on every extension of the slice *)
Lemma validate_u_extend t a b s : wf t = true -> aligned a (align t) = true -> min_size t <= blen b ->
  validate_u t a b = Ok tt -> validate t a (b ++ s) = Ok tt.
Proof.
  intros Hw Ha Hm Hv. apply validate_stable_ok; [exact Hw|].
  unfold validate, check_align_min. rewrite Ha. cbn [negb].
  destruct (N.ltb_spec (blen b) (min_size t)); [lia|]. cbn [bind]. exact Hv.
Qed.

(* C18: a FAILED assign_in_place leaves a valid target, for every type whose emplacer is the
   library's own (sized types and the three containers, any item types) *)
Theorem assign_failed_valid t i : wf t = true -> narrow_ty t = true -> library_emplacer t = true ->
  init_ok t i = true -> utf8_init i = true ->
  forall pv a bs k p, validate t a bs = Ok tt ->
    snd (assign_in_place pv t i a bs) = Err k p ->
    blen (fst (assign_in_place pv t i a bs)) = blen bs /\
    validate t a (fst (assign_in_place pv t i a bs)) = Ok tt.
Proof.
  intros Hw Hn Hlib Hi Hu pv a bs k p Hv Herr.
  destruct (assign_shape t i pv a bs Hw Hv) as (n & _ & Hnb & Ha & Hm & Hvn & E).
  rewrite E in Herr |- *. cbn [fst snd] in *.
  assert (Htl : blen (take n bs) = n) by (apply blen_take_le; exact Hnb).
  destruct (emplace_u_ok t Hw Hn pv i a (take n bs) Hi Hu Ha ltac:(lia)) as (_ & H2 & _).
  split; [rewrite blen_app, blen_drop; lia|].
  apply validate_u_extend; auto; [lia|].
  apply (emplace_u_failed_valid t i Hw Hn Hlib Hi Hu pv a (take n bs) k p Ha ltac:(lia) Hvn Herr).
Qed.

(* whatever the outcome *)
Theorem assign_always_valid t i : wf t = true -> narrow_ty t = true -> library_emplacer t = true ->
  init_ok t i = true -> utf8_init i = true ->
  forall pv a bs, validate t a bs = Ok tt ->
    blen (fst (assign_in_place pv t i a bs)) = blen bs /\
    validate t a (fst (assign_in_place pv t i a bs)) = Ok tt.
Proof.
  intros Hw Hn Hlib Hi Hu pv a bs Hv.
  destruct (assign_in_place_ok t i Hw Hn Hi Hu pv a bs Hv) as (H1 & H2 & H3 & _).
  split; [exact H2|].
  destruct (snd (assign_in_place pv t i a bs)) as [[]|k p|c] eqn:E.
  - destruct (H3 eq_refl) as (Hv' & _). exact Hv'.
  - exact (proj2 (assign_failed_valid t i Hw Hn Hlib Hi Hu pv a bs k p Hv E)).
  - discriminate H1.
Qed.

(* ---------- C14: assign_in_place touches nothing behind the value's own bytes ---------- *)

Theorem assign_frame t i : wf t = true -> narrow_ty t = true -> init_ok t i = true -> utf8_init i = true ->
  forall pv a bs, validate t a bs = Ok tt ->
    exists n, bytes_len t (blen bs) = Ok n /\ n <= blen bs /\
      blen (fst (assign_in_place pv t i a bs)) = blen bs /\
      drop n (fst (assign_in_place pv t i a bs)) = drop n bs.
Proof.
  intros Hw Hn Hi Hu pv a bs Hv.
  destruct (assign_shape t i pv a bs Hw Hv) as (n & Hbl & Hnb & Ha & Hm & _ & E).
  exists n. split; [exact Hbl|]. split; [exact Hnb|]. rewrite E. cbn [fst].
  assert (Htl : blen (take n bs) = n) by (apply blen_take_le; exact Hnb).
  destruct (emplace_u_ok t Hw Hn pv i a (take n bs) Hi Hu Ha ltac:(lia)) as (_ & H2 & _).
  split; [rewrite blen_app, blen_drop; lia|]. apply drop_app_len. lia.
Qed.
