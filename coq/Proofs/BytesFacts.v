(* BytesFacts.v — lengths and byte-range facts about take / drop / split, integer codecs. *)
From Coq Require Import List NArith Bool Lia ZArith ZifyN ZifyBool ZifyNat.
From Flatty.Model Require Import Base.
From Flatty.Proofs Require Import ArithFacts.
Open Scope N_scope.

Lemma blen_nil : blen [] = 0.
Proof. reflexivity. Qed.

Lemma blen_cons b bs : blen (b :: bs) = 1 + blen bs.
Proof. unfold blen. cbn [length]. lia. Qed.

Lemma blen_app a b : blen (a ++ b) = blen a + blen b.
Proof. unfold blen. rewrite app_length. lia. Qed.

Lemma blen_take n bs : blen (take n bs) = N.min n (blen bs).
Proof. unfold blen, take. rewrite firstn_length. lia. Qed.

Lemma blen_take_le n bs : n <= blen bs -> blen (take n bs) = n.
Proof. intros H. rewrite blen_take. lia. Qed.

Lemma blen_drop n bs : blen (drop n bs) = blen bs - n.
Proof. unfold blen, drop. rewrite skipn_length. lia. Qed.

Lemma take_drop n bs : take n bs ++ drop n bs = bs.
Proof. unfold take, drop. apply firstn_skipn. Qed.

Lemma take_all n bs : blen bs <= n -> take n bs = bs.
Proof. unfold take, blen. intros H. apply firstn_all2. lia. Qed.

Lemma take_app_exact a b : take (blen a) (a ++ b) = a.
Proof.
  unfold take, blen. rewrite Nat2N.id. rewrite firstn_app, Nat.sub_diag, firstn_O, app_nil_r.
  apply firstn_all.
Qed.

Lemma take_app_le n a b : n <= blen a -> take n (a ++ b) = take n a.
Proof.
  unfold take, blen. intros H. rewrite firstn_app.
  replace (N.to_nat n - length a)%nat with 0%nat by lia. rewrite firstn_O, app_nil_r. reflexivity.
Qed.

Lemma drop_app_exact a b : drop (blen a) (a ++ b) = b.
Proof.
  unfold drop, blen. rewrite Nat2N.id. rewrite skipn_app, Nat.sub_diag, skipn_all. reflexivity.
Qed.

Lemma take_take n m bs : n <= m -> take n (take m bs) = take n bs.
Proof.
  unfold take. intros H. rewrite firstn_firstn. f_equal. lia.
Qed.

Lemma skipn_skipn' (n m : nat) (l : list N) : skipn n (skipn m l) = skipn (m + n) l.
Proof.
  revert l. induction m as [|m IH]; intros l; [reflexivity|].
  destruct l as [|x l]; [cbn; destruct n; reflexivity|]. cbn [skipn Nat.add]. apply IH.
Qed.

Lemma drop_drop n m bs : drop n (drop m bs) = drop (m + n) bs.
Proof.
  unfold drop. rewrite skipn_skipn'. f_equal. lia.
Qed.

Lemma drop_0 bs : drop 0 bs = bs.
Proof. reflexivity. Qed.

Lemma take_drop_comm n m bs : take n (drop m bs) = drop m (take (m + n) bs).
Proof.
  unfold take, drop. rewrite firstn_skipn_comm. f_equal. f_equal. lia.
Qed.

(* ---------- bytes_ok ---------- *)

Lemma bytes_ok_app a b : bytes_ok (a ++ b) = bytes_ok a && bytes_ok b.
Proof. unfold bytes_ok. apply forallb_app. Qed.

Lemma bytes_ok_take n bs : bytes_ok bs = true -> bytes_ok (take n bs) = true.
Proof.
  intros H. rewrite <- (take_drop n bs) in H. rewrite bytes_ok_app, andb_true_iff in H. tauto.
Qed.

Lemma bytes_ok_drop n bs : bytes_ok bs = true -> bytes_ok (drop n bs) = true.
Proof.
  intros H. rewrite <- (take_drop n bs) in H. rewrite bytes_ok_app, andb_true_iff in H. tauto.
Qed.

Lemma bytes_ok_rev bs : bytes_ok (rev bs) = bytes_ok bs.
Proof.
  unfold bytes_ok. induction bs as [|b r IH]; [reflexivity|].
  cbn [rev forallb]. rewrite forallb_app. cbn [forallb]. rewrite IH. rewrite andb_true_r. apply andb_comm.
Qed.

(* ---------- integer codecs ---------- *)

Lemma le_val_bound bs : bytes_ok bs = true -> le_val bs < 256 ^ blen bs.
Proof.
  induction bs as [|b r IH]; intros H.
  - cbn. lia.
  - cbn [bytes_ok forallb] in H. rewrite andb_true_iff in H. destruct H as [Hb Hr].
    unfold byte_ok in Hb. rewrite N.ltb_lt in Hb. specialize (IH Hr).
    cbn [le_val]. rewrite blen_cons. rewrite N.pow_add_r. change (256 ^ 1) with 256. lia.
Qed.

Lemma blen_rev bs : blen (rev bs) = blen bs.
Proof. unfold blen. rewrite rev_length. reflexivity. Qed.

Lemma of_bytes_bound be bs : bytes_ok bs = true -> of_bytes be bs < 256 ^ blen bs.
Proof.
  intros H. unfold of_bytes. destruct be.
  - rewrite <- blen_rev. apply le_val_bound. rewrite bytes_ok_rev. exact H.
  - apply le_val_bound. exact H.
Qed.

Lemma read_int_ok i bs : isize i <= blen bs ->
  exists v, read_int i bs = Ok v /\ (bytes_ok bs = true -> v < 256 ^ isize i).
Proof.
  intros H. unfold read_int. destruct (N.leb_spec (isize i) (blen bs)); [|lia].
  eexists. split; [reflexivity|]. intros Hb.
  pose proof (of_bytes_bound (ibe i) (take (isize i) bs) (bytes_ok_take _ _ Hb)) as Hv.
  rewrite blen_take_le in Hv by lia. exact Hv.
Qed.

Lemma pow256_mono a b : a <= b -> 256 ^ a <= 256 ^ b.
Proof. intros H. apply N.pow_le_mono_r; lia. Qed.

Lemma two64_pow : two64 = 256 ^ 8.
Proof. reflexivity. Qed.
