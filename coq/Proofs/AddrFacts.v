(* AddrFacts.v — validation depends on the address of the slice only through its residue modulo
   the alignment of the type: a buffer may be moved by any multiple of ALIGN (compaction of the
   receive window, re-mapping of a value's own bytes) without changing the verdict. *)
From Coq Require Import List NArith Bool Lia ZArith ZifyN ZifyBool ZifyNat.
From Flatty.Model Require Import Base Ty Layout Utf8 Validate.
From Flatty.Proofs Require Import ArithFacts LayoutFacts BytesFacts ValidateFacts.
Open Scope N_scope.

(* a and a' are congruent modulo m *)
Definition cong (m a a' : N) : Prop := a mod m = a' mod m.

Lemma mod_of_multiple a A m : 0 < m -> 0 < A -> A mod m = 0 -> a mod m = (a mod A) mod m.
Proof.
  intros Hm HA Hd. destruct (mod0_mul A m Hm Hd) as (q & HAq).
  pose proof (N.div_mod a A ltac:(lia)) as Hdm.
  rewrite Hdm at 1. rewrite HAq at 1.
  replace (q * m * (a / A) + a mod A) with (a mod A + (q * (a / A)) * m) by lia.
  apply N.mod_add. lia.
Qed.

Lemma cong_divisor A m a a' : 0 < m -> 0 < A -> A mod m = 0 -> cong A a a' -> cong m a a'.
Proof.
  intros Hm HA Hd H. unfold cong in *. rewrite (mod_of_multiple a A m), (mod_of_multiple a' A m) by auto.
  rewrite H. reflexivity.
Qed.

Lemma cong_add m a a' d : 0 < m -> cong m a a' -> cong m (a + d) (a' + d).
Proof.
  intros Hm H. unfold cong in *. rewrite (N.add_mod a d m), (N.add_mod a' d m) by lia. rewrite H. reflexivity.
Qed.

Lemma cong_aligned m a a' : cong m a a' -> aligned a m = aligned a' m.
Proof. intros H. unfold aligned. rewrite H. reflexivity. Qed.

Lemma cong_refl m a : cong m a a.
Proof. reflexivity. Qed.

Lemma bind_ext {A B} (r : res A) (f g : A -> res B) : (forall x, f x = g x) -> bind r f = bind r g.
Proof. intros H. destruct r; cbn [bind]; auto. Qed.

Lemma arr_loop_fext f g s bs : (forall i el, f i el = g i el) -> forall k i, arr_loop f s bs k i = arr_loop g s bs k i.
Proof.
  intros H. induction k as [|k IH]; intros i; [reflexivity|]. cbn [arr_loop].
  apply bind_ext; intros from. apply bind_ext; intros el. rewrite H. apply bind_ext; intros _. apply IH.
Qed.

(* the FlexVec walk: slot addresses are tested against L's alignment, payload addresses against
   the item callback; both only see the residue modulo al when next offsets are multiples of al *)
Lemma flex_fold_cong {A} l os al (item : A -> N -> N -> bytes -> res A) :
  0 < al -> 0 < ialign l -> al mod ialign l = 0 ->
  (forall acc pos pa pa' payload, cong al pa pa' -> item acc pos pa payload = item acc pos pa' payload) ->
  forall fuel acc a a' rem pos, cong al a a' ->
    flex_fold l os al item fuel acc a rem pos = flex_fold l os al item fuel acc a' rem pos.
Proof.
  intros Hal Hil Hdiv Hitem. induction fuel as [|fuel IH]; intros acc a a' rem pos Hc; [reflexivity|].
  cbn [flex_fold].
  rewrite (cong_aligned (ialign l) a a') by (apply (cong_divisor al); auto).
  destruct (negb (aligned a' (ialign l))); [reflexivity|].
  destruct (blen rem <? isize l); [reflexivity|].
  apply bind_ext; intros raw. apply bind_ext; intros next.
  destruct (next =? 0); [reflexivity|].
  apply bind_ext; intros m.
  destruct (next <? os); [reflexivity|].
  destruct (next =? m) eqn:Elast; cbn [negb andb orb].
  - destruct (blen rem <? os); [reflexivity|].
    apply bind_ext; intros sp. rewrite (Hitem acc pos (a + os) (a' + os)) by (apply cong_add; auto). reflexivity.
  - destruct (N.eqb_spec (next mod al) 0) as [Hn|Hn]; cbn [negb]; [|reflexivity].
    destruct ((blen rem <? next) || (blen rem <? os)); [reflexivity|].
    apply bind_ext; intros sp. apply bind_ext; intros sp2.
    rewrite (Hitem acc pos (a + os) (a' + os)) by (apply cong_add; auto).
    apply bind_ext; intros acc'. apply IH. apply cong_add; auto.
Qed.

Lemma check_align_min_cong t a a' bs : cong (align t) a a' -> check_align_min t a bs = check_align_min t a' bs.
Proof. intros H. unfold check_align_min. rewrite (cong_aligned _ _ _ H). reflexivity. Qed.

Lemma validate_cong_mut :
  (forall t, wf t = true -> forall a a' bs, cong (align t) a a' -> validate_u t a bs = validate_u t a' bs) /\
  (forall fs, wfF fs -> forall a a' data pos, cong (align_fields fs) a a' ->
      validate_fields fs a data pos = validate_fields fs a' data pos) /\
  (forall vs s, wf_variants s vs = true -> forall k a a' data, cong (align_variants vs) a a' ->
      validate_variant vs k s a data = validate_variant vs k s a' data).
Proof.
  apply ty_mutind.
  - reflexivity.
  - reflexivity.
  - reflexivity.
  - reflexivity.
  - (* TArr *) intros t IH n Hw a a' bs Hc. apply wf_arr_inv in Hw. destruct Hw as [Hwt Hs].
    cbn [validate_u]. apply arr_loop_fext. intros i el. apply IH; auto.
    cbn [align] in Hc. apply cong_add; [apply align_pos; auto|exact Hc].
  - (* TVec *) intros t IH l Hw a a' bs Hc. pose proof Hw as Hw0. apply wf_vec_inv in Hw. destruct Hw as (Hwt & Hs & Hl).
    cbn [validate_u]. apply bind_ext; intros slots. apply bind_ext; intros len. apply bind_ext; intros cap.
    destruct (cap <? len); [reflexivity|]. apply bind_ext; intros data.
    apply arr_loop_fext. intros i el. f_equal. apply IH; auto.
    pose proof (align_P16 t Hwt) as Pt. pose proof (wf_int_P16 l Hl) as [_ Pl].
    assert (Hc' : cong (align t) a a').
    { apply (cong_divisor (align (TVec t l))); [apply P16_pos; auto|apply align_pos; auto| |exact Hc].
      cbn [align]. apply P16_umax_mod_r; auto. }
    rewrite <- !N.add_assoc. apply cong_add; [apply P16_pos; auto|exact Hc'].
  - reflexivity.
  - (* TFlex *) intros t IH l Hw a a' bs Hc. pose proof Hw as Hw0. apply wf_flex_inv in Hw. destruct Hw as [Hwt Hl].
    pose proof (align_P16 t Hwt) as Pt. pose proof (wf_int_P16 l Hl) as [_ Pl].
    cbn [validate_u].
    rewrite (flex_fold_cong l _ (align (TFlex t l)) _) with (a' := a'); [reflexivity| | | | |exact Hc].
    + apply align_pos; auto.
    + apply P16_pos; auto.
    + cbn [align]. apply P16_umax_mod_l; auto.
    + intros acc pos pa pa' payload Hp. f_equal.
      assert (Hp' : cong (align t) pa pa').
      { apply (cong_divisor (align (TFlex t l))); [apply P16_pos; auto|apply align_pos; auto| |exact Hp].
        cbn [align]. apply P16_umax_mod_r; auto. }
      rewrite (check_align_min_cong t pa pa') by exact Hp'.
      apply bind_ext; intros _. apply IH; auto.
  - (* TStruct *) intros s fs IH Hw a a' bs Hc. cbn [validate_u]. cbn [align] in Hc.
    destruct (wf_struct_wfF _ _ Hw) as [->|Hf]; [reflexivity|]. apply IH; auto.
  - (* TEnum *) intros s tag d vs IH Hw a a' bs Hc.
    apply wf_enum_inv in Hw. destruct Hw as (Hi & Hnat & Hv1 & Hv2 & Hd & Hv).
    pose proof (wf_int_P16 tag Hi) as [_ Ptag]. pose proof (align_variants_P16 s vs Hv) as Pv.
    cbn [validate_u]. apply bind_ext; intros v. destruct (negb (v <? vlen vs)); [reflexivity|].
    apply bind_ext; intros data0. f_equal. apply (IH s); auto.
    cbn [align] in Hc. set (al := umax (ialign tag) (align_variants vs)) in *.
    assert (Hal : 0 < al) by (apply P16_pos, P16_umax; auto).
    apply cong_add; [apply P16_pos; auto|].
    apply (cong_divisor al); [apply P16_pos; auto|exact Hal| |exact Hc]. apply P16_umax_mod_r; auto.
  - reflexivity.
  - (* FCons *) intros t IHt r IHr Hw a a' data pos Hc.
    pose proof Hw as Hw0. apply wfF_cons in Hw. destruct Hw as [Hwt Hr].
    pose proof (align_P16 t Hwt) as Pt.
    destruct r as [|t' r'].
    + rewrite !validate_fields_single. cbn [align_fields] in Hc.
      rewrite (IHt Hwt a a'); [reflexivity|].
      apply (cong_divisor (umax (align t) 1)); [apply P16_pos; auto|apply P16_pos, P16_umax; [auto|left; reflexivity]| |exact Hc].
      apply P16_umax_mod_l; [auto|left; reflexivity].
    + destruct Hr as [Hr|[Hst Hr]]; [discriminate|].
      pose proof (align_fields_P16 (FCons t' r') (or_intror Hr)) as Pr.
      rewrite !validate_fields_cons2. cbn [align_fields] in Hc. fold (align_fields (FCons t' r')) in Hc.
      set (ar := align_fields (FCons t' r')) in *.
      assert (Ha : 0 < umax (align t) ar) by (apply P16_pos, P16_umax; auto).
      rewrite (IHt Hwt a a') by (apply (cong_divisor (umax (align t) ar)); [apply P16_pos; auto|exact Ha|apply P16_umax_mod_l; auto|exact Hc]).
      apply bind_ext; intros _. cbv zeta. apply bind_ext; intros sp. apply IHr; auto.
      apply cong_add; [apply P16_pos; auto|].
      apply (cong_divisor (umax (align t) ar)); [apply P16_pos; auto|exact Ha|apply P16_umax_mod_r; auto|exact Hc].
  - reflexivity.
  - (* VCons *) intros fs IHf r IHr s Hw k a a' data Hc.
    pose proof Hw as Hw0. apply wf_variants_cons in Hw. destruct Hw as [Hf Hr].
    pose proof (align_variants_P16 s r Hr) as Pr.
    assert (Pf : P16 (align_fields fs)) by (apply align_fields_P16; destruct Hf; auto).
    cbn [align_variants] in Hc.
    assert (Ha : 0 < umax (align_fields fs) (align_variants r)) by (apply P16_pos, P16_umax; auto).
    cbn [validate_variant]. destruct k as [|k'].
    + destruct (negb s && (blen data <? data_min_size fs)); [reflexivity|].
      destruct Hf as [->|Hf]; [reflexivity|]. apply IHf; auto.
      apply (cong_divisor (umax (align_fields fs) (align_variants r))); [apply P16_pos; auto|exact Ha|apply P16_umax_mod_l; auto|exact Hc].
    + apply IHr; auto.
      apply (cong_divisor (umax (align_fields fs) (align_variants r))); [apply P16_pos; auto|exact Ha|apply P16_umax_mod_r; auto|exact Hc].
Qed.

Theorem validate_cong t a a' bs : wf t = true -> a mod align t = a' mod align t ->
  validate t a bs = validate t a' bs.
Proof.
  intros Hw Hc. unfold validate. rewrite (check_align_min_cong t a a' bs Hc).
  apply bind_ext; intros _. apply (proj1 validate_cong_mut); auto.
Qed.

(* in particular an aligned slice may be thought of as sitting at address 0 *)
Theorem validate_at_zero t a bs : wf t = true -> aligned a (align t) = true -> validate t a bs = validate t 0 bs.
Proof.
  intros Hw Ha. apply validate_cong; auto. unfold aligned in Ha. rewrite N.eqb_eq in Ha. rewrite Ha.
  symmetry. apply N.mod_0_l. pose proof (align_pos t Hw). lia.
Qed.
