(* EmplaceUnsizedFacts.v — in-place initialisation of unsized values (C03, C15, C20): for every accepted
   definition, every well-typed emplacer expression, every address and every buffer, the emplacer
   does not crash, keeps the buffer length, fails only with InsufficientSize, succeeds exactly when
   the specified content is representable and fits, and then the result validates, reads back the
   specified content and measures the reference extent. *)
From Coq Require Import List NArith Bool Lia ZArith ZifyN ZifyBool ZifyNat.
From Flatty.Model Require Import Base Ty Layout Utf8 Validate View Emplace Portable.
From Flatty.Proofs Require Import ArithFacts LayoutFacts BytesFacts ValidateFacts FramingFacts ChainFacts
  ViewFacts PortableFacts OpsFacts VecOpsFacts EmplaceFacts EmplaceSpec PortableTyFacts EncFacts.
Open Scope N_scope.

(* lia on a context without boolean facts (ZifyBool makes lia split on every one of them),
   equivalences and divisibility facts *)
Ltac drop_bools := repeat match goal with
  | H : _ = true |- _ => clear H
  | H : _ = false |- _ => clear H
  | H : _ <-> _ |- _ => clear H
  | H : _ mod _ = _ |- _ => clear H
  end.
Ltac slia := drop_bools; lia.

(* ---------- 0. the statement ---------- *)

(* every string literal of the expression is well-formed UTF-8 (a Rust &str always is) *)
Fixpoint utf8_init (i : init) : bool :=
  match i with
  | IStr s => match utf8_err s with None => true | Some _ => false end
  | ISeq is | IVar _ is | IVecArr is | IVecIter is | IFlex is => forallb utf8_init is
  | _ => true
  end.

(* the slice holds a valid value with the specified content and the reference extent *)
Definition good (t : ty) (i : init) (a : N) (b : bytes) : Prop :=
  validate_u t a b = Ok tt /\
  (exists v, view t b = Ok v /\ spec_value t i = Some (strip v)) /\
  size_m t b = Ok (extent t i).

Definition emp_post (t : ty) (i : init) (a : N) (buf : bytes) (r : eres) : Prop :=
  is_crash (snd r) = false /\
  blen (fst r) = blen buf /\
  (snd r = Ok tt -> good t i a (fst r)) /\
  (snd r = Ok tt <-> representable t i = true /\ extent t i <= blen buf) /\
  (forall k p, snd r = Err k p -> k = InsufficientSize).

Definition EMP (t : ty) : Prop := forall pv i a buf,
  init_ok t i = true -> utf8_init i = true -> aligned a (align t) = true -> min_size t <= blen buf ->
  emp_post t i a buf (emplace_u pv t i a buf).

(* a good slice stays good when only the bytes behind the extent differ *)
Lemma good_local t i a b b' : wf t = true -> min_size t <= blen b -> good t i a b ->
  extent t i <= blen b' -> take (extent t i) b' = take (extent t i) b -> good t i a b'.
Proof.
  intros Hw Hm (Hv & (v & Hview & Hspec) & Hsz) Hb' Htk.
  destruct (valid_local_u t a b b' (extent t i) Hw Hm Hv Hsz Hb' Htk) as (Hv' & Hsz' & v1 & v2 & Hv1 & Hv2 & Hst).
  split; [exact Hv'|]. split; [|exact Hsz'].
  exists v2. split; [exact Hv2|]. rewrite Hst. rewrite Hview in Hv1. injection Hv1 as <-. exact Hspec.
Qed.

Lemma good_extent_le t i a b : wf t = true -> min_size t <= blen b -> good t i a b ->
  extent t i <= blen b /\ extent t i mod align t = 0 /\ min_size t <= extent t i.
Proof.
  intros Hw Hm (Hv & _ & Hsz). exact (T1_size t a b (extent t i) Hw Hm Hv Hsz).
Qed.

(* ---------- small facts ---------- *)

Lemma drop_app_ge n (a b : bytes) : blen a <= n -> drop n (a ++ b) = drop (n - blen a) b.
Proof.
  intros H. unfold drop, blen in *. rewrite skipn_app. rewrite skipn_all2 by lia. cbn [app].
  f_equal. lia.
Qed.

Lemma take_0 (bs : bytes) : take 0 bs = [].
Proof. reflexivity. Qed.

Lemma room_iff D x A n : 0 < A -> D mod A = 0 -> D <= n ->
  (x <= floor_mul (n - D) A <-> ceil_mul (D + x) A <= n).
Proof.
  intros HA HD Hn. rewrite ceil_mul_add_mult by auto.
  pose proof (floor_mul_le (n - D) A HA). pose proof (floor_mul_mod (n - D) A HA).
  pose proof (ceil_mul_ge x A HA). pose proof (ceil_mul_mod x A HA). split; intros Hx.
  - assert (ceil_mul x A <= floor_mul (n - D) A) by (apply ceil_mul_le_mult; auto). lia.
  - assert (ceil_mul x A <= floor_mul (n - D) A) by (apply floor_mul_ge_mult; auto; lia). lia.
Qed.

Lemma ceil_le_floor x y m : 0 < m -> (ceil_mul x m <= y <-> x <= floor_mul y m).
Proof.
  intros Hm. pose proof (room_iff 0 x m y Hm (N.mod_0_l m ltac:(lia)) ltac:(lia)) as H.
  rewrite N.sub_0_r, N.add_0_l in H. symmetry. exact H.
Qed.

Lemma to_usize_max l : narrow l = true -> to_usize (int_max l) = Ok (int_max l).
Proof. intros H. apply to_usize_ok. apply int_max_lt_two64. exact H. Qed.

Lemma read_len_written l v rest : narrow l = true -> v <= int_max l ->
  read_len l (to_bytes (ibe l) (isize l) v ++ rest) = Ok v.
Proof.
  intros Hn Hv. unfold read_len. rewrite read_int_written by (apply int_max_lt; exact Hv). cbn [bind].
  apply to_usize_ok. pose proof (int_max_lt_two64 l Hn). lia.
Qed.

Lemma sized_extent t i : sized t = true -> extent t i = ssize t.
Proof.
  destruct t as [|it| |tag n d|t n|t l|l|t l|s fs|s tag d vs]; intros Hs; try reflexivity; try discriminate;
    cbn [sized] in Hs; subst s; reflexivity.
Qed.

Lemma sized_representable t i : sized t = true -> representable t i = true.
Proof.
  destruct t as [|it| |tag n d|t n|t l|l|t l|s fs|s tag d vs]; intros Hs; try reflexivity; try discriminate;
    cbn [sized] in Hs; subst s; reflexivity.
Qed.

Lemma map_strip_VInt s : map strip (map VInt s) = map VInt s.
Proof. induction s as [|b r IH]; [reflexivity|]. cbn [map strip]. rewrite IH. reflexivity. Qed.

Lemma is_crash_ok_false {A} (r : res A) x : r = Ok x -> is_crash r = false.
Proof. intros ->. reflexivity. Qed.

(* ---------- 1. sized types ---------- *)

Lemma emp_sized t : wf t = true -> sized t = true -> EMP t.
Proof.
  intros Hw Hs pv i a buf Hi _ Ha Hm. rewrite (min_size_sized t Hs) in Hm.
  rewrite emplace_u_sized by exact Hs.
  apply (init_ok_enc t i Hw Hs) in Hi. destruct Hi as [m Hm0]. rewrite Hm0.
  destruct (enc_sized_valid t i m Hw Hs Hm0) as [Hl Hbuf].
  unfold write_masked. rewrite Hl. destruct (N.leb_spec (ssize t) (blen buf)); [|lia].
  cbn [ok]. destruct (Hbuf pv a buf Hm) as (Hv & Hview & Hbl & _).
  unfold emp_post. cbn [fst snd]. rewrite (sized_extent t i Hs), (sized_representable t i Hs).
  split; [reflexivity|]. split; [exact Hbl|]. split; [|split].
  - intros _. split; [exact Hv|]. split; [exact Hview|]. rewrite (sized_extent t i Hs). apply size_m_sized. exact Hs.
  - split; [intros _; split; [reflexivity|exact Hm] | reflexivity].
  - intros k p Hk. discriminate.
Qed.

(* ---------- 2. FlatVec ---------- *)

Lemma on_slice_masked pv e pos len buf : mlen e <= len -> pos + len <= blen buf ->
  on_slice pos len (write_masked pv e) buf =
  (take pos buf ++ overlay pv e (take len (drop pos buf)) ++ drop (pos + len) buf, Ok tt).
Proof.
  intros He Hb. unfold on_slice, write_masked.
  rewrite blen_take_le by (rewrite blen_drop; lia).
  destruct (N.leb_spec (mlen e) len); [|lia]. reflexivity.
Qed.

Lemma write_int_app l v (H D : bytes) : isize l <= blen H ->
  write_int l v (H ++ D) = ((to_bytes (ibe l) (isize l) v ++ drop (isize l) H) ++ D, Ok tt).
Proof.
  intros Hh. rewrite write_int_ok by (rewrite blen_app; lia).
  rewrite drop_app_le by exact Hh. rewrite app_assoc. reflexivity.
Qed.

Lemma blen_set_len l v (H : bytes) : isize l <= blen H ->
  blen (to_bytes (ibe l) (isize l) v ++ drop (isize l) H) = blen H.
Proof. intros Hh. rewrite blen_app, tb_len, blen_drop. lia. Qed.

(* the push loop: [H] = the first DATA_OFFSET bytes (length field and padding), [D] = the slots *)
Lemma vec_fill_ok pv t l : isize l <= vec_data_offset t l ->
  forall encs len H D,
    blen H = vec_data_offset t l -> Forall (fun e => mlen e = ssize t) encs ->
    (len + N.of_nat (length encs)) * ssize t <= blen D ->
    vec_fill pv t l encs len (H ++ D) =
    ok ((match encs with
         | [] => H
         | _ => to_bytes (ibe l) (isize l) (len + N.of_nat (length encs)) ++ drop (isize l) H
         end)
        ++ take (len * ssize t) D ++ overlay pv (concat encs) (drop (len * ssize t) D)).
Proof.
  intros Hld. set (d := vec_data_offset t l) in *. set (s := ssize t).
  induction encs as [|e r IH]; intros len H D HH Hall Hroom.
  - cbn [vec_fill concat overlay]. rewrite take_drop. reflexivity.
  - inversion Hall as [|e0 r0 He Hr]; subst e0 r0. cbn [length] in Hroom.
    cbn [vec_fill]. fold d. fold s.
    assert (Hpos : len * s + s <= blen D) by nia.
    rewrite on_slice_masked by (rewrite ?blen_app; lia).
    cbn [ebind].
    rewrite take_app_ge by lia. rewrite HH. replace (d + len * s - d) with (len * s) by lia.
    rewrite drop_app_ge by lia. rewrite HH. replace (d + len * s - d) with (len * s) by lia.
    rewrite drop_app_ge by lia. rewrite HH. replace (d + len * s + s - d) with (len * s + s) by lia.
    rewrite <- app_assoc.
    set (D1 := take (len * s) D ++ overlay pv e (take s (drop (len * s) D)) ++ drop (len * s + s) D).
    assert (HD1 : blen D1 = blen D).
    { unfold D1. rewrite !blen_app, overlay_blen, blen_take_le, blen_take_le, blen_drop; rewrite ?blen_drop; lia. }
    rewrite write_int_app by lia. cbn [ebind].
    set (H1 := to_bytes (ibe l) (isize l) (len + 1) ++ drop (isize l) H).
    assert (HH1 : blen H1 = d) by (unfold H1; rewrite blen_set_len; lia).
    rewrite (IH (len + 1) H1 D1 HH1 Hr) by (rewrite HD1; lia).
    f_equal. f_equal.
    + destruct r as [|e' r'].
      * cbn [length]. reflexivity.
      * unfold H1. rewrite drop_app_len by apply tb_len.
        f_equal. f_equal. cbn [length]. lia.
    + assert (E1 : take ((len + 1) * s) D1 = take (len * s) D ++ overlay pv e (take s (drop (len * s) D))).
      { unfold D1. rewrite app_assoc. replace ((len + 1) * s) with (len * s + s) by lia.
        apply take_app_len. rewrite blen_app, overlay_blen, !blen_take_le; rewrite ?blen_drop; lia. }
      assert (E2 : drop ((len + 1) * s) D1 = drop (len * s + s) D).
      { unfold D1. rewrite app_assoc. replace ((len + 1) * s) with (len * s + s) by lia.
        apply drop_app_len. rewrite blen_app, overlay_blen, !blen_take_le; rewrite ?blen_drop; lia. }
      rewrite E1, E2. rewrite <- app_assoc. f_equal. cbn [concat].
      rewrite overlay_app by (rewrite He, blen_drop; lia). rewrite He. rewrite drop_drop. reflexivity.
Qed.

Lemma elems_encs et : wf et = true -> sized et = true ->
  forall is vs, opt_map_all (spec_value et) is = Some vs ->
  exists encs, opt_all (map (enc_sized et) is) = Some encs /\ length encs = length is /\
    Forall (fun e => mlen e = ssize et) encs /\
    concat_opt (map (enc_sized et) is) = Some (concat encs).
Proof.
  intros Hw Hs. induction is as [|i r IH]; intros vs H.
  - exists []. repeat split; constructor.
  - cbn [opt_map_all] in H. destruct (spec_value et i) as [v|] eqn:Ev; [|discriminate].
    destruct (opt_map_all (spec_value et) r) as [vr|] eqn:Er; [|discriminate].
    destruct (IH vr eq_refl) as (encs & H1 & H2 & H3 & H4).
    assert (Hi : init_ok et i = true) by (unfold init_ok; rewrite Ev; reflexivity).
    apply (init_ok_enc et i Hw Hs) in Hi. destruct Hi as [e He].
    destruct (enc_sized_valid et i e Hw Hs He) as [Hl _].
    exists (e :: encs). cbn [map opt_all concat_opt concat length]. rewrite He, H1, H4, H2.
    repeat split; auto.
Qed.

Lemma arr_loop_shift_ok f s bs d : forall k i,
  arr_loop f s bs k i = Ok tt -> arr_loop (fun j el => shift d (f j el)) s bs k i = Ok tt.
Proof.
  induction k as [|k IH]; intros i H; [reflexivity|].
  cbn [arr_loop] in *.
  apply bind_ok_inv in H. destruct H as (from & Hf & H). rewrite Hf. cbn [bind].
  apply bind_ok_inv in H. destruct H as (el & He & H). rewrite He. cbn [bind].
  apply bind_ok_inv in H. destruct H as (u & Hu & H). apply shift_ok_inv in Hu. rewrite Hu. cbn [shift bind].
  apply IH. exact H.
Qed.

Definition vec_items (pv : option N) (et : ty) (l : intty) (buf : bytes) (is : list init) (chk : bool) : eres :=
  match opt_all (map (enc_sized et) is) with
  | None => bad_init
  | Some encs =>
      match (do slots <- vec_slots et l (blen buf); clamp_cap l slots) with
      | Ok cap =>
          let n := N.of_nat (length encs) in
          if chk && (cap <? n) then fail buf InsufficientSize 0
          else
            dob b0 <- write_int l 0 buf;
            let fit := firstn (N.to_nat cap) encs in
            dob b1 <- vec_fill pv et l fit 0 b0;
            if cap <? n then fail b1 InsufficientSize 0 else ok b1
      | Err k p => crashed PanicUnwrap
      | Crash c => crashed c
      end
  end.

Lemma emplace_u_vec_arr pv et l is a buf :
  emplace_u pv (TVec et l) (IVecArr is) a buf = vec_items pv et l buf is true.
Proof. reflexivity. Qed.
Lemma emplace_u_vec_iter pv et l is a buf :
  emplace_u pv (TVec et l) (IVecIter is) a buf = vec_items pv et l buf is false.
Proof. reflexivity. Qed.

Lemma vec_fill_from0 pv et l buf fit :
  isize l <= vec_data_offset et l -> vec_data_offset et l <= blen buf ->
  Forall (fun e => mlen e = ssize et) fit ->
  N.of_nat (length fit) * ssize et <= blen buf - vec_data_offset et l ->
  vec_fill pv et l fit 0 (to_bytes (ibe l) (isize l) 0 ++ drop (isize l) buf) =
  ok ((to_bytes (ibe l) (isize l) (N.of_nat (length fit)) ++ drop (isize l) (take (vec_data_offset et l) buf))
      ++ overlay pv (concat fit) (drop (vec_data_offset et l) buf)).
Proof.
  intros Hld Hd Hall Hroom. set (d := vec_data_offset et l) in *.
  assert (E : to_bytes (ibe l) (isize l) 0 ++ drop (isize l) buf =
              (to_bytes (ibe l) (isize l) 0 ++ drop (isize l) (take d buf)) ++ drop d buf).
  { rewrite <- app_assoc. f_equal. rewrite <- (take_drop d buf) at 1.
    apply drop_app_le. rewrite blen_take_le; lia. }
  rewrite E.
  rewrite (vec_fill_ok pv et l Hld fit 0 _ (drop d buf)).
  - rewrite N.mul_0_l, take_0, drop_0. cbn [app]. f_equal. f_equal.
    destruct fit as [|e r]; [reflexivity|].
    rewrite drop_app_len by apply tb_len. rewrite N.add_0_l. reflexivity.
  - rewrite blen_set_len; rewrite blen_take_le; lia.
  - exact Hall.
  - rewrite blen_drop. lia.
Qed.

(* capacity versus the reference conditions *)
Lemma vec_cap_iff et l n N0 slots : wf (TVec et l) = true -> vec_slots et l N0 = Ok slots ->
  (n <= umin slots (int_max l) <->
   ((n <=? int_max l) && ((0 <? ssize et) || (n =? 0)) = true /\
    ceil_mul (vec_data_offset et l + ssize et * n) (align (TVec et l)) <= N0)).
Proof.
  intros Hw Hsl. pose proof (vec_consts et l Hw) as (HA & Hld & HdA & Hd0).
  apply vec_slots_inv in Hsl. destruct Hsl as [Hd ->].
  rewrite umin_spec. rewrite <- (room_iff _ _ _ _ HA HdA Hd).
  rewrite andb_true_iff, orb_true_iff, N.leb_le, N.ltb_lt, N.eqb_eq.
  set (room := floor_mul (N0 - vec_data_offset et l) (align (TVec et l))).
  destruct (N.eqb_spec (ssize et) 0) as [E|E].
  - rewrite E. split; [intros H; assert (n = 0) by lia; subst n; lia | intros [[H1 H2] H3]; lia].
  - assert (Hdiv : n <= room / ssize et <-> ssize et * n <= room).
    { split; intros H.
      - pose proof (N.mul_div_le room (ssize et) E). nia.
      - apply N.div_le_lower_bound; auto. }
    split.
    + intros H. split; [split; lia|]. apply Hdiv. lia.
    + intros [[H1 H2] H3]. apply Hdiv in H3. lia.
Qed.

Lemma vec_items_post pv et l a buf is chk vs :
  wf (TVec et l) = true -> narrow l = true ->
  opt_map_all (spec_value et) is = Some vs -> min_size (TVec et l) <= blen buf ->
  let r := vec_items pv et l buf is chk in
  let n := N.of_nat (length is) in
  let ext := ceil_mul (vec_data_offset et l + ssize et * n) (align (TVec et l)) in
  is_crash (snd r) = false /\
  blen (fst r) = blen buf /\
  (snd r = Ok tt ->
     validate_u (TVec et l) a (fst r) = Ok tt /\
     (exists v, view (TVec et l) (fst r) = Ok v /\ Some (VCont 0 vs) = Some (strip v)) /\
     size_m (TVec et l) (fst r) = Ok ext) /\
  (snd r = Ok tt <->
     ((n <=? int_max l) && ((0 <? ssize et) || (n =? 0)) = true /\ ext <= blen buf)) /\
  (forall k p, snd r = Err k p -> k = InsufficientSize).
Proof.
  intros Hw Hn Hspec Hm. cbv zeta.
  set (n := N.of_nat (length is)).
  set (ext := ceil_mul (vec_data_offset et l + ssize et * n) (align (TVec et l))).
  pose proof (vec_consts et l Hw) as (HA & Hld & HdA & Hd0).
  pose proof Hw as Hw0. apply wf_vec_inv in Hw. destruct Hw as (Hwt & Hst & Hl).
  cbn [min_size] in Hm. fold (vec_data_offset et l) in Hm.
  destruct (elems_encs et Hwt Hst is vs Hspec) as (encs & Hencs & Hlen & Hall & Hcat).
  pose proof (vec_slots_ok et l (blen buf) Hm) as Hsl.
  set (slots := if ssize et =? 0 then 0 else floor_mul (blen buf - vec_data_offset et l) (align (TVec et l)) / ssize et) in *.
  pose proof (vec_cap_iff et l n (blen buf) slots Hw0 Hsl) as Hiff.
  pose proof (vec_slots_room et l (blen buf) slots Hsl) as Hroom.
  set (d := vec_data_offset et l) in *. set (s := ssize et) in *.
  pose proof (floor_mul_le (blen buf - d) _ HA) as Hfl.
  unfold vec_items. rewrite Hencs, Hsl. cbn [bind]. rewrite (clamp_cap_ok l slots Hn).
  cbv zeta. rewrite Hlen. fold n.
  set (cap := umin slots (int_max l)) in *.
  assert (Hcs : cap <= slots) by (unfold cap; rewrite umin_spec; slia).
  rewrite write_int_ok by slia. cbn [ebind].
  assert (Hfitall : Forall (fun e => mlen e = s) (firstn (N.to_nat cap) encs)).
  { apply Forall_forall. intros e He. rewrite Forall_forall in Hall. apply Hall.
    rewrite <- (firstn_skipn (N.to_nat cap) encs). apply in_or_app. left. exact He. }
  assert (Hfitlen : N.of_nat (length (firstn (N.to_nat cap) encs)) = N.min cap n).
  { rewrite firstn_length. unfold n. slia. }
  rewrite (vec_fill_from0 pv et l buf _ Hld Hm Hfitall).
  2:{ rewrite Hfitlen. fold s d. assert (N.min cap n * s <= slots * s) by (apply N.mul_le_mono_r; slia). slia. }
  cbn [ebind ok]. rewrite Hfitlen. fold d.
  set (B := (to_bytes (ibe l) (isize l) (N.min cap n) ++ drop (isize l) (take d buf)) ++
            overlay pv (concat (firstn (N.to_nat cap) encs)) (drop d buf)) in *.
  assert (HB : blen B = blen buf).
  { unfold B. rewrite blen_app, overlay_blen, blen_drop, blen_set_len; rewrite blen_take_le; slia. }
  destruct (N.ltb_spec cap n) as [Hc|Hc];
    match goal with |- context [snd ?x] => set (r := x) end.
  - (* does not fit *)
    assert (Hno : ~ ((n <=? int_max l) && ((0 <? s) || (n =? 0)) = true /\ ext <= blen buf)).
    { intros H. apply Hiff in H. slia. }
    assert (Er : exists b, r = (b, Err InsufficientSize 0) /\ blen b = blen buf).
    { unfold r, fail. destruct chk; cbn [andb]; [exists buf|exists B]; split; auto. }
    destruct Er as (b & Er & Hb). clearbody r. subst r. cbn [fst snd].
    split; [reflexivity|]. split; [exact Hb|]. split; [discriminate|]. split.
    + split; [discriminate | intros H; contradiction].
    + intros k p H. injection H as <- _. reflexivity.
  - (* fits *)
    assert (Er : r = (B, Ok tt)).
    { unfold r. destruct chk; reflexivity. }
    clearbody r. subst r. cbn [fst snd].
    assert (Hyes : (n <=? int_max l) && ((0 <? s) || (n =? 0)) = true /\ ext <= blen buf) by (apply Hiff; exact Hc).
    split; [reflexivity|]. split; [exact HB|]. split; [|split].
    + intros _.
      assert (Hfit : firstn (N.to_nat cap) encs = encs) by (apply firstn_all2; unfold n in Hc; slia).
      assert (Hmin : N.min cap n = n) by slia.
      unfold B. rewrite Hfit, Hmin. clear B HB.
      set (B := (to_bytes (ibe l) (isize l) n ++ drop (isize l) (take d buf)) ++ overlay pv (concat encs) (drop d buf)).
      assert (HB : blen B = blen buf).
      { unfold B. rewrite blen_app, overlay_blen, blen_drop, blen_set_len; rewrite blen_take_le; slia. }
      assert (Hnmax : n <= int_max l) by (unfold cap in Hc; rewrite umin_spec in Hc; slia).
      assert (Hrl : read_len l B = Ok n).
      { unfold B. rewrite <- app_assoc. apply read_len_written; auto. }
      assert (Hdrop : drop d B = overlay pv (concat encs) (drop d buf)).
      { unfold B. apply drop_app_len. rewrite blen_set_len; rewrite blen_take_le; slia. }
      destruct (arr_image et (proj1 enc_sized_valid_core et Hwt Hst) is (concat encs) Hcat) as [Hml Himg].
      destruct (Himg pv (a + d) (drop d B) (drop d buf) 0) as (Hloop & vs' & Hview & Hsp).
      { rewrite N.mul_0_l, drop_0. exact Hdrop. }
      { slia. }
      { rewrite Hml, blen_drop. fold n s. assert (n * s <= slots * s) by (apply N.mul_le_mono_r; slia). slia. }
      replace (length is) with (N.to_nat n) in Hloop, Hview by (unfold n; slia).
      assert (Hsl' : vec_slots et l (blen B) = Ok slots) by (rewrite HB; exact Hsl).
      split; [|split].
      * eapply (vec_valid_intro et l a B slots n (int_max l)); auto; try slia.
        { apply to_usize_max; exact Hn. }
        { apply arr_loop_shift_ok. exact Hloop. }
      * exists (VCont (umin slots (int_max l)) vs'). split.
        { eapply view_vec_eval; eauto; try slia. apply to_usize_max; exact Hn. }
        { cbn [strip]. rewrite Hsp in Hspec. injection Hspec as <-. reflexivity. }
      * cbn [size_m]. rewrite Hrl. reflexivity.
    + split; [intros _; exact Hyes | reflexivity].
    + intros k p H. discriminate.
Qed.

Lemma emp_post_ok t i a buf (r : eres) : wf t = true -> min_size t <= blen buf ->
  snd r = Ok tt -> blen (fst r) = blen buf -> good t i a (fst r) -> representable t i = true ->
  emp_post t i a buf r.
Proof.
  intros Hw Hm Hok Hb Hg Hr. unfold emp_post.
  destruct (good_extent_le t i a (fst r) Hw ltac:(lia) Hg) as (He & _ & _).
  rewrite Hok. split; [reflexivity|]. split; [exact Hb|]. split; [intros _; exact Hg|]. split.
  - split; [intros _; split; [exact Hr|lia] | reflexivity].
  - intros k p Hk. discriminate.
Qed.

Lemma emp_post_fail t i a buf (r : eres) p :
  snd r = Err InsufficientSize p -> blen (fst r) = blen buf ->
  ~ (representable t i = true /\ extent t i <= blen buf) ->
  emp_post t i a buf r.
Proof.
  intros Herr Hb Hno. unfold emp_post. rewrite Herr.
  split; [reflexivity|]. split; [exact Hb|]. split; [discriminate|]. split.
  - split; [discriminate | intros H; contradiction].
  - intros k q H. injection H as <- _. reflexivity.
Qed.

Lemma emp_vec et l : wf (TVec et l) = true -> narrow_ty (TVec et l) = true -> EMP (TVec et l).
Proof.
  intros Hw Hnt pv i a buf Hi Hu Ha Hm. apply narrow_vec_inv in Hnt. destruct Hnt as [_ Hn].
  assert (Hdef : emp_post (TVec et l) IDefault a buf (emplace_u pv (TVec et l) IDefault a buf)).
  { pose proof (vec_default_ok pv et l a buf Hw Hn Ha Hm) as H. cbv zeta in H.
    unfold default_in_place in H. rewrite emplace_gate_passed in H by assumption.
    destruct H as (H1 & _ & H3 & H4 & (cap & H5) & H6).
    apply validate_inv in H4. destruct H4 as (_ & _ & H4).
    apply emp_post_ok; auto. split; [exact H4|]. split.
    - exists (VCont cap []). split; [exact H5|reflexivity].
    - rewrite H6. cbn [extent]. rewrite N.mul_0_r, N.add_0_r. reflexivity. }
  unfold init_ok in Hi.
  destruct i as [v|is0|k0 is0|is0|is0|s0|is0| |]; cbn [spec_value] in Hi; try discriminate.
  - destruct (opt_map_all (spec_value et) is0) as [vs|] eqn:Es; [|discriminate].
    rewrite emplace_u_vec_arr.
    pose proof (vec_items_post pv et l a buf is0 true vs Hw Hn Es Hm) as H. cbv zeta in H.
    unfold emp_post, good. cbn [spec_value]. rewrite Es. exact H.
  - destruct (opt_map_all (spec_value et) is0) as [vs|] eqn:Es; [|discriminate].
    rewrite emplace_u_vec_iter.
    pose proof (vec_items_post pv et l a buf is0 false vs Hw Hn Es Hm) as H. cbv zeta in H.
    unfold emp_post, good. cbn [spec_value]. rewrite Es. exact H.
  - exact Hdef.
  - exact Hdef.
Qed.

(* ---------- 3. FlatString ---------- *)

Lemma emp_str l : wf (TStr l) = true -> narrow_ty (TStr l) = true -> EMP (TStr l).
Proof.
  intros Hw Hn pv i a buf Hi Hu Ha Hm. cbn [narrow_ty] in Hn.
  assert (Hdef : emp_post (TStr l) IDefault a buf (emplace_u pv (TStr l) IDefault a buf)).
  { pose proof (str_default_ok pv l a buf Hw Hn Ha Hm) as H. cbv zeta in H.
    unfold default_in_place in H. rewrite emplace_gate_passed in H by assumption.
    destruct H as (H1 & H2 & H4 & (cap & H5) & H6).
    apply validate_inv in H4. destruct H4 as (_ & _ & H4).
    apply emp_post_ok; auto.
    - rewrite H2. rewrite blen_set_len; auto.
    - split; [exact H4|]. split.
      + exists (VCont cap []). split; [exact H5|reflexivity].
      + rewrite H6. cbn [extent]. rewrite N.add_0_r. reflexivity. }
  unfold init_ok in Hi.
  destruct i as [v|is0|k0 is0|is0|is0|s|is0| |]; cbn [spec_value] in Hi; try discriminate;
    [|exact Hdef|exact Hdef].
  clear Hdef Hi. cbn [utf8_init] in Hu. destruct (utf8_err s) eqn:Eu; [discriminate|]. clear Hu.
  cbn [min_size] in Hm. cbn [wf] in Hw.
  pose proof (wf_int_ialign_le _ Hw) as (_ & _ & HA).
  pose proof (wf_int_size_mod_align _ Hw) as Hmod.
  cbn [emplace_u]. rewrite (str_slots_ok l _ Hm). cbn [bind]. rewrite (clamp_cap_ok l _ Hn).
  set (room := floor_mul (blen buf - isize l) (ialign l)).
  pose proof (floor_mul_le (blen buf - isize l) _ HA) as Hfl. fold room in Hfl.
  assert (Hiff : blen s <= umin room (int_max l) <->
                 (representable (TStr l) (IStr s) = true /\ extent (TStr l) (IStr s) <= blen buf)).
  { cbn [representable extent]. rewrite umin_spec, N.leb_le.
    rewrite <- (room_iff (isize l) (blen s) (ialign l) (blen buf) HA Hmod Hm). fold room. slia. }
  destruct (N.ltb_spec (umin room (int_max l)) (blen s)) as [Hc|Hc].
  - apply emp_post_fail with (p := 0); [reflexivity|reflexivity|]. intros H. apply Hiff in H. slia.
  - assert (Hsr : blen s <= room) by (rewrite umin_spec in Hc; slia).
    assert (Hsm : blen s <= int_max l) by (rewrite umin_spec in Hc; slia).
    rewrite write_int_ok by slia. cbn [ebind].
    set (tb0 := to_bytes (ibe l) (isize l) 0).
    assert (Htb0 : blen tb0 = isize l) by apply tb_len.
    unfold write_at. rewrite blen_app, Htb0, blen_drop.
    destruct (N.leb_spec (isize l + blen s) (isize l + (blen buf - isize l))); [|slia].
    cbn [lift ok ebind].
    rewrite take_app_len by exact Htb0.
    rewrite drop_app_ge by slia. rewrite Htb0, drop_drop.
    replace (isize l + (isize l + blen s - isize l)) with (isize l + blen s) by slia.
    rewrite write_int_ok by (rewrite !blen_app, Htb0; slia).
    rewrite drop_app_len by exact Htb0.
    set (B := to_bytes (ibe l) (isize l) (blen s) ++ s ++ drop (isize l + blen s) buf).
    assert (HB : blen B = blen buf).
    { unfold B. rewrite !blen_app, tb_len, blen_drop. slia. }
    apply emp_post_ok; cbn [fst snd min_size]; auto; [|apply Hiff; exact Hc].
    assert (Hrl : read_len l B = Ok (blen s)) by (apply read_len_written; auto).
    assert (Htk : take (blen s) (drop (isize l) B) = s).
    { unfold B. rewrite drop_app_len by apply tb_len. apply take_app_exact. }
    split; [|split].
    + apply (str_valid_intro l a B (blen s) (int_max l)); auto; rewrite ?HB; try slia.
      * apply to_usize_max; exact Hn.
      * rewrite Htk. exact Eu.
    + eexists. split.
      * apply (view_str_eval l B (blen s) (int_max l)); auto; rewrite ?HB; try slia.
        apply to_usize_max; exact Hn.
      * cbn [spec_value strip]. rewrite Htk, map_strip_VInt. reflexivity.
    + cbn [size_m extent]. rewrite Hrl. reflexivity.
Qed.

(* ---------- 4. the reference extent covers MIN_SIZE ---------- *)

Lemma extent_min_mut :
  (forall t, wf t = true -> forall i, init_ok t i = true -> min_size t <= extent t i) /\
  (forall fs, fs <> FNil -> wfF fs -> forall is pos vs, spec_fields fs is = Some vs ->
      end_min fs pos <= extent_fields fs is pos) /\
  (forall vs, wf_variants false vs = true -> forall k is fvs, spec_variant vs k is = Some fvs ->
      min_data_min_size vs <= extent_variant vs k is).
Proof.
  apply ty_mutind.
  - intros _ i _. apply N.le_refl.
  - intros it _ i _. apply N.le_refl.
  - intros _ i _. apply N.le_refl.
  - intros tag n d _ i _. apply N.le_refl.
  - intros t _ n _ i _. apply N.le_refl.
  - intros t _ l Hw i _. pose proof (vec_consts t l Hw) as (HA & _ & _ & _).
    cbn [min_size extent]. change (umax (isize l) (align t)) with (vec_data_offset t l).
    etransitivity; [|apply ceil_mul_ge; exact HA]. apply N.le_add_r.
  - intros l Hw i _. cbn [wf] in Hw. pose proof (wf_int_ialign_le _ Hw) as (_ & _ & HA).
    cbn [min_size extent]. etransitivity; [|apply ceil_mul_ge; exact HA]. apply N.le_add_r.
  - intros t _ l Hw i _. cbn [min_size extent]. change (umax (isize l) (align t)) with (flex_offset_size t l).
    destruct i as [v|is0|k0 is0|is0|is0|s0|is0| |]; try apply N.le_refl.
    destruct is0 as [|x r]; [apply N.le_refl|]. cbn [map sum_list]. lia.
  - intros s fs IH Hw i Hi. destruct s; [apply N.le_refl|].
    destruct (wf_struct_wfF _ _ Hw) as [Hnil|Hf]; [subst fs; discriminate Hw|].
    assert (Hne : fs <> FNil) by (intros ->; discriminate Hw).
    pose proof (P16_pos _ (align_fields_P16 fs (or_intror Hf))) as Hpos.
    unfold init_ok in Hi. cbn [spec_value] in Hi. cbn [min_size extent].
    destruct (field_inits i (flen fs)) as [is|]; [|discriminate].
    destruct (spec_fields fs is) as [vs|] eqn:Es; [|discriminate].
    apply ceil_mul_mono; auto. rewrite fold_min_size_0 by exact Hne. eapply IH; eauto.
  - intros s tag d vs IH Hw i Hi. destruct s; [apply N.le_refl|].
    pose proof (enum_consts _ _ _ _ Hw) as (Hal & _ & _).
    apply wf_enum_inv in Hw. destruct Hw as (_ & _ & _ & _ & _ & Hwv).
    unfold init_ok in Hi. cbn [spec_value] in Hi. cbn [min_size extent].
    change (ceil_mul (isize tag) (umax (ialign tag) (align_variants vs))) with (data_offset tag vs).
    destruct i as [v|is0|k0 is0|is0|is0|s0|is0| |]; try discriminate.
    + destruct (spec_variant vs (N.to_nat k0) is0) as [fvs|] eqn:Es; [|discriminate].
      apply ceil_mul_mono; auto. pose proof (IH Hwv _ _ _ Es). lia.
    + destruct (spec_variant vs (N.to_nat d) []) as [fvs|] eqn:Es; [|discriminate].
      apply ceil_mul_mono; auto. pose proof (IH Hwv _ _ _ Es). lia.
  - intros H. congruence.
  - intros t IHt r IHr _ Hf is pos vs Hs. apply wfF_cons in Hf. destruct Hf as [Hwt Hr].
    destruct is as [|i is']; [discriminate|]. cbn [spec_fields] in Hs.
    destruct (spec_value t i) as [v|] eqn:Ev; [|discriminate].
    destruct (spec_fields r is') as [vr|] eqn:Er; [|discriminate].
    destruct r as [|t' r'].
    + cbn [end_min extent_fields].
      assert (Hi : init_ok t i = true) by (unfold init_ok; rewrite Ev; reflexivity).
      pose proof (IHt Hwt i Hi). lia.
    + destruct Hr as [Hr|[_ Hr]]; [discriminate|].
      rewrite end_min_cons2. cbn [extent_fields]. eapply IHr; eauto. congruence.
  - intros _ k is fvs H. discriminate.
  - intros fs IHf r IHr Hw k is fvs Hs. apply wf_variants_cons in Hw. destruct Hw as [Hf Hr].
    destruct (min_data_min_size_cons fs r) as [H1 H2].
    destruct k as [|k']; cbn [spec_variant extent_variant] in *.
    + destruct Hf as [->|Hf].
      * cbn [fold_min_size] in H1. lia.
      * destruct fs as [|t0 r0]; [cbn [fold_min_size] in H1; lia|].
        rewrite fold_min_size_0 in H1 by congruence.
        pose proof (IHf ltac:(congruence) Hf is 0 fvs Hs). lia.
    + assert (Hne : r <> VNil) by (intros ->; discriminate).
      pose proof (IHr Hr _ _ _ Hs). specialize (H2 Hne). lia.
Qed.

Lemma extent_min t i : wf t = true -> init_ok t i = true -> min_size t <= extent t i.
Proof. intros Hw Hi. exact (proj1 extent_min_mut t Hw i Hi). Qed.

(* ---------- 5. generated Init of an unsized struct / enum variant ---------- *)

Definition fields_post (fs : fields) (is : list init) (a : N) (data : bytes) (pos : N) (r : eres) : Prop :=
  is_crash (snd r) = false /\
  blen (fst r) = blen data /\
  (snd r = Ok tt ->
     validate_fields fs a (fst r) pos = Ok tt /\
     (exists vs, view_fields fs (fst r) pos = Ok vs /\ spec_fields fs is = Some (map strip vs)) /\
     size_last fs (fst r) pos = Ok (extent_fields fs is pos)) /\
  (snd r = Ok tt <-> representable_fields fs is = true /\ extent_fields fs is pos <= pos + blen data) /\
  (forall k p, snd r = Err k p -> k = InsufficientSize).

Definition EMPF (fs : fields) : Prop := forall pv is a data pos a0,
  (exists vs, spec_fields fs is = Some vs) -> forallb utf8_init is = true ->
  a = a0 + pos -> a0 mod align_fields fs = 0 -> pos mod head_align fs = 0 ->
  end_min fs pos <= pos + blen data ->
  fields_post fs is a data pos (emplace_fields pv fs is a data pos).

Definition variant_post (vs : variants) (k : nat) (is : list init) (a : N) (data : bytes)
                        (tag : intty) (kv : N) (tagb : bytes) (r : eres) : Prop :=
  is_crash (snd r) = false /\
  blen (fst r) = blen tagb + blen data /\
  (snd r = Ok tt -> exists data',
     fst r = (to_bytes (ibe tag) (isize tag) kv ++ drop (isize tag) tagb) ++ data' /\
     blen data' = blen data /\
     validate_variant vs k false a data' = Ok tt /\
     (exists fvs, view_variant vs k data' = Ok fvs /\ spec_variant vs k is = Some (map strip fvs)) /\
     size_variant vs k data' = Ok (extent_variant vs k is)) /\
  (snd r = Ok tt <-> representable_variant vs k is = true /\ extent_variant vs k is <= blen data) /\
  (forall kk p, snd r = Err kk p -> kk = InsufficientSize).

Definition EMPV (vs : variants) : Prop := forall pv k is a data tag kv tagb,
  (exists fvs, spec_variant vs k is = Some fvs) -> forallb utf8_init is = true ->
  a mod align_variants vs = 0 -> isize tag <= blen tagb ->
  variant_post vs k is a data tag kv tagb (emplace_variant pv vs k is a data tag kv tagb).

Lemma emplace_fields_single pv t i is' a data pos :
  emplace_fields pv (FCons t FNil) (i :: is') a data pos = emplace_u pv t i a data.
Proof. reflexivity. Qed.

Lemma emplace_fields_cons2 pv t t' r i is' a data pos :
  emplace_fields pv (FCons t (FCons t' r)) (i :: is') a data pos =
  (let np := pos_next pos t t' in
   if blen data <? np - pos then crashed PanicSplit
   else
     match emplace_u pv t i a (take (np - pos) data) with
     | (piece', Ok _) =>
         let rr := emplace_fields pv (FCons t' r) is' (a + (np - pos)) (drop (np - pos) data) np in
         (piece' ++ fst rr, snd rr)
     | (piece', e) => (piece' ++ drop (np - pos) data, e)
     end).
Proof. reflexivity. Qed.

Lemma spec_fields_cons t r i is' :
  spec_fields (FCons t r) (i :: is') =
  match spec_value t i, spec_fields r is' with Some v, Some vs => Some (v :: vs) | _, _ => None end.
Proof. reflexivity. Qed.
Lemma representable_fields_cons t r i is' :
  representable_fields (FCons t r) (i :: is') = representable t i && representable_fields r is'.
Proof. reflexivity. Qed.
Lemma extent_fields_cons2 t t' r i is' pos :
  extent_fields (FCons t (FCons t' r)) (i :: is') pos = extent_fields (FCons t' r) is' (pos_next pos t t').
Proof. reflexivity. Qed.

Lemma aligned_iff a m : aligned a m = true <-> a mod m = 0.
Proof. unfold aligned. apply N.eqb_eq. Qed.

Lemma fields_step_single t : wf t = true -> EMP t -> EMPF (FCons t FNil).
Proof.
  intros Hw IH pv is a data pos a0 [vs Hs] Hu Ea Ha0 Hpos Hend.
  destruct is as [|i is']; [discriminate|]. cbn [spec_fields] in Hs.
  destruct (spec_value t i) as [v|] eqn:Ev; [|discriminate].
  destruct is' as [|i2 is2]; [|discriminate]. clear Hs.
  cbn [forallb] in Hu. rewrite andb_true_r in Hu.
  cbn [end_min] in Hend. cbn [align_fields head_align] in Ha0, Hpos.
  pose proof (align_P16 t Hw) as Hp. pose proof (P16_pos _ Hp) as Hal.
  assert (Haa : aligned a (align t) = true).
  { apply aligned_iff. subst a. apply mod_add_mult; auto.
    apply mod_trans with (m := umax (align t) 1); auto.
    - apply P16_pos, P16_umax; auto. left; reflexivity.
    - apply P16_umax_mod_l; auto. left; reflexivity. }
  assert (Hi : init_ok t i = true) by (unfold init_ok; rewrite Ev; reflexivity).
  rewrite emplace_fields_single.
  destruct (IH pv i a data Hi Hu Haa ltac:(slia)) as (H1 & H2 & H3 & H4 & H5).
  unfold fields_post. split; [exact H1|]. split; [exact H2|]. split; [|split].
  - intros Hok. destruct (H3 Hok) as (Hv & (v' & Hview & Hsp) & Hsz).
    rewrite validate_fields_single, view_fields_single, size_last_single, Hv, Hview, Hsz. cbn [shift bind].
    split; [reflexivity|]. split; [|reflexivity].
    exists [v']. split; [reflexivity|]. cbn [spec_fields map]. rewrite Hsp. reflexivity.
  - cbn [representable_fields extent_fields]. rewrite andb_true_r. rewrite H4. split; intros [Ha Hb]; split; auto; slia.
  - exact H5.
Qed.

Lemma fields_step_cons2 t t' r : wf t = true -> sized t = true -> wfF (FCons t' r) ->
  EMP t -> EMPF (FCons t' r) -> EMPF (FCons t (FCons t' r)).
Proof.
  intros Hw Hst Hfr IHt IHr pv is a data pos a0 [vs Hs] Hu Ea Ha0 Hpos Hend.
  destruct is as [|i is']; [discriminate|]. rewrite spec_fields_cons in Hs.
  destruct (spec_value t i) as [v|] eqn:Ev; [|discriminate].
  destruct (spec_fields (FCons t' r) is') as [vr|] eqn:Er; [|discriminate]. clear Hs.
  cbn [forallb] in Hu. apply andb_true_iff in Hu. destruct Hu as [Hui Hur].
  rewrite end_min_cons2 in Hend.
  pose proof (end_min_ge _ Hfr (pos_next pos t t')) as Hge.
  cbn [head_align] in Hpos.
  pose proof (align_P16 t Hw) as Hp. pose proof (P16_pos _ Hp) as Hal.
  pose proof (align_fields_P16 (FCons t' r) (or_intror Hfr)) as Hpr. pose proof (P16_pos _ Hpr) as Halr.
  destruct (wfF_cons _ _ Hfr) as [Hwt' _].
  pose proof (align_P16 t' Hwt') as Hp'. pose proof (P16_pos _ Hp') as Hal'.
  change (align_fields (FCons t (FCons t' r))) with (umax (align t) (align_fields (FCons t' r))) in Ha0.
  assert (Hum : 0 < umax (align t) (align_fields (FCons t' r))) by (apply P16_pos, P16_umax; auto).
  assert (Haa : aligned a (align t) = true).
  { apply aligned_iff. subst a. apply mod_add_mult; auto.
    apply mod_trans with (m := umax (align t) (align_fields (FCons t' r))); auto.
    apply P16_umax_mod_l; auto. }
  assert (Ha0r : a0 mod align_fields (FCons t' r) = 0).
  { apply mod_trans with (m := umax (align t) (align_fields (FCons t' r))); auto.
    apply P16_umax_mod_r; auto. }
  assert (Hi : init_ok t i = true) by (unfold init_ok; rewrite Ev; reflexivity).
  rewrite emplace_fields_cons2. cbv zeta.
  set (np := pos_next pos t t') in *.
  assert (Hnp : pos + ssize t <= np) by (unfold np, pos_next; apply ceil_mul_ge; exact Hal').
  assert (Hnpm : np mod align t' = 0) by (unfold np, pos_next; apply ceil_mul_mod; exact Hal').
  destruct (N.ltb_spec (blen data) (np - pos)) as [Hc|Hc]; [slia|].
  set (piece := take (np - pos) data). set (rest := drop (np - pos) data).
  assert (Hpl : blen piece = np - pos) by (unfold piece; apply blen_take_le; exact Hc).
  assert (Hrl : blen rest = blen data - (np - pos)) by (unfold rest; apply blen_drop).
  pose proof (min_size_sized t Hst) as Hmin.
  destruct (IHt pv i a piece Hi Hui Haa ltac:(slia)) as (H1 & H2 & H3 & H4 & H5).
  rewrite (sized_extent t i Hst), (sized_representable t i Hst) in H4.
  assert (Hok : snd (emplace_u pv t i a piece) = Ok tt) by (apply H4; split; [reflexivity|slia]).
  destruct (emplace_u pv t i a piece) as [piece' res] eqn:Ee. cbn [fst snd] in *. subst res.
  specialize (H3 eq_refl). clear H1 H4 H5.
  assert (Hrr : fields_post (FCons t' r) is' (a + (np - pos)) rest np
                  (emplace_fields pv (FCons t' r) is' (a + (np - pos)) rest np)).
  { apply (IHr pv is' (a + (np - pos)) rest np a0); eauto; try slia. }
  set (rr := emplace_fields pv (FCons t' r) is' (a + (np - pos)) rest np) in *.
  destruct Hrr as (R1 & R2 & R3 & R4 & R5).
  unfold fields_post. cbn [fst snd].
  split; [exact R1|]. split; [rewrite blen_app; slia|]. split; [|split].
  - intros Hokr. destruct (R3 Hokr) as (Rv & (vs' & Rview & Rsp) & Rsz).
    assert (Hg : good t i a (piece' ++ fst rr)).
    { apply (good_local t i a piece'); auto; try slia.
      - rewrite (sized_extent t i Hst), blen_app. slia.
      - apply take_app_le. rewrite (sized_extent t i Hst). slia. }
    destruct Hg as (Hv & (v' & Hview & Hsp) & _).
    assert (Hsplit : split_at (np - pos) (piece' ++ fst rr) = Ok (piece', fst rr)).
    { rewrite split_at_ok by (rewrite blen_app; slia).
      rewrite take_app_len, drop_app_len by slia. reflexivity. }
    assert (Hdu : drop_unchecked (np - pos) (piece' ++ fst rr) = Ok (fst rr)).
    { rewrite drop_unchecked_ok by (rewrite blen_app; slia). rewrite drop_app_len by slia. reflexivity. }
    rewrite validate_fields_cons2, ViewFacts.view_fields_cons2, size_last_cons2. cbv zeta. fold np.
    rewrite Hv, Hview, Hsplit, Hdu. cbn [shift bind snd]. rewrite Rv, Rview, Rsz. cbn [bind].
    split; [reflexivity|]. split; [|reflexivity].
    exists (v' :: vs'). split; [reflexivity|]. rewrite spec_fields_cons. cbn [map]. rewrite Hsp, Rsp. reflexivity.
  - rewrite representable_fields_cons, extent_fields_cons2. fold np. rewrite (sized_representable t i Hst). cbn [andb].
    rewrite R4. replace (np + blen rest) with (pos + blen data) by slia. reflexivity.
  - exact R5.
Qed.

Lemma emplace_variant_here pv fs r is a data tag kv tagb :
  emplace_variant pv (VCons fs r) O is a data tag kv tagb =
  match field_inits (ISeq is) (flen fs) with
  | None => bad_init
  | Some is' =>
      let chk :=
        match fs with
        | FNil => Ok tt
        | _ =>
            if negb (aligned a (align_fields fs)) then Err BadAlign 0
            else if blen data <? fold_min_size 0 fs then Err InsufficientSize 0
            else Ok tt
        end in
      match chk with
      | Ok _ =>
          match write_int tag kv tagb with
          | (tagb', Ok _) =>
              let rr := emplace_fields pv fs is' a data 0 in
              (tagb' ++ fst rr, snd rr)
          | (_, _) => crashed OobWrite
          end
      | Err kk p => fail (tagb ++ data) kk (p + blen tagb)
      | Crash c => crashed c
      end
  end.
Proof. reflexivity. Qed.

Lemma field_inits_seq_ok fs is vs : spec_fields fs is = Some vs -> field_inits (ISeq is) (flen fs) = Some is.
Proof.
  intros H. apply spec_fields_len in H. cbn [field_inits]. rewrite H, N.eqb_refl. reflexivity.
Qed.

Lemma variants_step_here fs r pv is a data tag kv tagb :
  (fs = FNil \/ (wfF fs /\ EMPF fs)) ->
  (exists fvs, spec_fields fs is = Some fvs) -> forallb utf8_init is = true ->
  a mod align_fields fs = 0 -> isize tag <= blen tagb ->
  variant_post (VCons fs r) O is a data tag kv tagb (emplace_variant pv (VCons fs r) O is a data tag kv tagb).
Proof.
  intros Hfs [fvs Hs] Hu Ha Ht.
  rewrite emplace_variant_here, (field_inits_seq_ok fs is fvs Hs). cbv zeta.
  set (hdr := to_bytes (ibe tag) (isize tag) kv ++ drop (isize tag) tagb).
  assert (Hhdr : blen hdr = blen tagb) by (apply blen_set_len; exact Ht).
  destruct fs as [|t0 r0].
  - (* unit variant *)
    destruct is as [|i0 is0]; [|discriminate]. rewrite write_int_ok by exact Ht.
    cbn [emplace_fields ok fst snd]. fold hdr.
    unfold variant_post. cbn [fst snd]. split; [reflexivity|]. split; [rewrite blen_app; slia|].
    split; [|split].
    + intros _. exists data. split; [reflexivity|]. split; [reflexivity|].
      cbn [validate_variant view_variant size_variant spec_variant extent_variant extent_fields
           validate_fields view_fields spec_fields negb andb]. unfold data_min_size. cbn [fold_min_size].
      destruct (N.ltb_spec (blen data) 0); [slia|].
      split; [reflexivity|]. split; [|reflexivity]. exists []. split; reflexivity.
    + cbn [representable_variant representable_fields extent_variant extent_fields].
      split; [intros _; split; [reflexivity|slia] | reflexivity].
    + intros kk p Hk. discriminate.
  - (* payload *)
    destruct Hfs as [Hnil|[Hf IH]]; [discriminate|].
    assert (Hne : FCons t0 r0 <> FNil) by congruence.
    set (fs := FCons t0 r0) in *.
    apply aligned_iff in Ha. rewrite Ha. cbn [negb].
    pose proof (proj1 (proj2 extent_min_mut) fs Hne Hf is 0 fvs Hs) as Hext.
    rewrite <- fold_min_size_0 in Hext by exact Hne.
    destruct (N.ltb_spec (blen data) (fold_min_size 0 fs)) as [Hc|Hc].
    + unfold variant_post, fail. cbn [fst snd]. split; [reflexivity|]. split; [rewrite blen_app; slia|].
      split; [discriminate|]. split.
      * split; [discriminate|]. cbn [representable_variant extent_variant]. intros [_ H]. slia.
      * intros kk p Hk. injection Hk as <- _. reflexivity.
    + rewrite write_int_ok by exact Ht. fold hdr.
      assert (Hpost : fields_post fs is a data 0 (emplace_fields pv fs is a data 0)).
      { apply (IH pv is a data 0 a); [eauto | exact Hu | slia | | | ].
        - apply aligned_iff. exact Ha.
        - apply N.mod_0_l. unfold fs. cbn [head_align]. destruct (wfF_cons _ _ Hf) as [Hw0 _].
          pose proof (align_pos _ Hw0). slia.
        - rewrite <- fold_min_size_0 by exact Hne. slia. }
      set (rr := emplace_fields pv fs is a data 0) in *.
      destruct Hpost as (R1 & R2 & R3 & R4 & R5).
      unfold variant_post. cbn [fst snd]. split; [exact R1|]. split; [rewrite blen_app; slia|].
      split; [|split].
      * intros Hok. destruct (R3 Hok) as (Rv & Rview & Rsz).
        exists (fst rr). split; [reflexivity|]. split; [exact R2|].
        cbn [validate_variant view_variant spec_variant extent_variant negb andb]. unfold data_min_size.
        destruct (N.ltb_spec (blen (fst rr)) (fold_min_size 0 fs)); [slia|].
        split; [exact Rv|]. split; [exact Rview|].
        change (size_variant (VCons fs r) 0 (fst rr)) with (fold_size_iter fs (fst rr) 0 0).
        apply (fold_size_iter_eq fs (fst rr) 0 0 _ Hne); [|exact Rsz].
        rewrite ceil_mul_0. reflexivity.
      * cbn [representable_variant extent_variant]. rewrite R4. rewrite N.add_0_l. reflexivity.
      * exact R5.
Qed.

Lemma variants_step fs r : (fs = FNil \/ (wfF fs /\ EMPF fs)) -> wf_variants false (VCons fs r) = true ->
  EMPV r -> EMPV (VCons fs r).
Proof.
  intros Hfs Hw IHr pv k is a data tag kv tagb Hs Hu Ha Ht.
  apply wf_variants_cons in Hw. destruct Hw as [Hf Hr].
  pose proof (align_fields_P16 fs Hf) as Hpf. pose proof (align_variants_P16 _ _ Hr) as Hpr.
  cbn [align_variants] in Ha.
  assert (Hum : 0 < umax (align_fields fs) (align_variants r)) by (apply P16_pos, P16_umax; auto).
  destruct k as [|k'].
  - apply variants_step_here; auto.
    apply mod_trans with (m := umax (align_fields fs) (align_variants r)); auto using P16_pos.
    apply P16_umax_mod_l; auto.
  - change (emplace_variant pv (VCons fs r) (S k') is a data tag kv tagb)
      with (emplace_variant pv r k' is a data tag kv tagb).
    cbn [spec_variant] in Hs.
    assert (Har : a mod align_variants r = 0).
    { apply mod_trans with (m := umax (align_fields fs) (align_variants r)); auto using P16_pos.
      apply P16_umax_mod_r; auto. }
    pose proof (IHr pv k' is a data tag kv tagb Hs Hu Har Ht) as H.
    unfold variant_post in *.
    cbn [validate_variant view_variant size_variant spec_variant extent_variant representable_variant].
    exact H.
Qed.

(* ---------- 6. unsized struct ---------- *)

Lemma emplace_u_struct pv fs i a buf :
  emplace_u pv (TStruct false fs) i a buf =
  match field_inits i (flen fs) with
  | None => bad_init
  | Some is =>
      let al := align_fields fs in
      let n := floor_mul (blen buf) al in
      let data := take n buf in
      let tail := drop n buf in
      if negb (aligned a al) then fail buf BadAlign 0
      else if n <? fold_min_size 0 fs then fail buf InsufficientSize 0
      else
        let r := emplace_fields pv fs is a data 0 in
        (fst r ++ tail, snd r)
  end.
Proof. reflexivity. Qed.

Lemma forallb_repeat_default n : forallb utf8_init (repeat IDefault n) = true.
Proof. induction n as [|n IH]; [reflexivity|]. cbn [repeat forallb utf8_init]. exact IH. Qed.

Lemma field_inits_utf8 i n is : field_inits i n = Some is -> utf8_init i = true -> forallb utf8_init is = true.
Proof.
  destruct i as [v|is0|k0 is0|is0|is0|s0|is0| |]; cbn [field_inits]; try discriminate.
  - destruct (N.of_nat (length is0) =? n); [|discriminate]. intros H. injection H as <-. cbn [utf8_init]. auto.
  - intros H _. injection H as <-. apply forallb_repeat_default.
Qed.

Lemma emp_struct fs : wf (TStruct false fs) = true -> EMPF fs -> EMP (TStruct false fs).
Proof.
  intros Hw IH pv i a buf Hi Hu Ha Hm.
  destruct (wf_struct_wfF _ _ Hw) as [Hnil|Hf]; [subst fs; discriminate Hw|].
  assert (Hne : fs <> FNil) by (intros ->; discriminate Hw).
  pose proof (P16_pos _ (align_fields_P16 fs (or_intror Hf))) as Hal.
  unfold init_ok in Hi. cbn [spec_value] in Hi.
  destruct (field_inits i (flen fs)) as [is|] eqn:Ef; [|discriminate].
  destruct (spec_fields fs is) as [vs|] eqn:Es; [|discriminate]. clear Hi.
  pose proof (field_inits_utf8 _ _ _ Ef Hu) as Hui.
  cbn [align] in Ha. cbn [min_size] in Hm.
  rewrite emplace_u_struct, Ef. cbv zeta. rewrite Ha. cbn [negb].
  set (al := align_fields fs) in *. set (n := floor_mul (blen buf) al).
  assert (Hn : fold_min_size 0 fs <= n) by (apply ceil_le_floor; auto).
  pose proof (floor_mul_le (blen buf) al Hal) as Hnb. fold n in Hnb.
  destruct (N.ltb_spec n (fold_min_size 0 fs)); [slia|].
  assert (Hdl : blen (take n buf) = n) by (apply blen_take_le; exact Hnb).
  assert (Hpost : fields_post fs is a (take n buf) 0 (emplace_fields pv fs is a (take n buf) 0)).
  { apply (IH pv is a (take n buf) 0 a); [eauto | exact Hui | slia | | | ].
    - apply aligned_iff. exact Ha.
    - apply N.mod_0_l. destruct fs as [|t0 r0]; [congruence|]. cbn [head_align].
      destruct (wfF_cons _ _ Hf) as [Hw0 _]. pose proof (align_pos _ Hw0). slia.
    - rewrite <- fold_min_size_0 by exact Hne. slia. }
  set (rr := emplace_fields pv fs is a (take n buf) 0) in *.
  destruct Hpost as (R1 & R2 & R3 & R4 & R5).
  assert (HB : blen (fst rr ++ drop n buf) = blen buf) by (rewrite blen_app, blen_drop; slia).
  assert (Hdata : take (floor_mul (blen (fst rr ++ drop n buf)) al) (fst rr ++ drop n buf) = fst rr).
  { rewrite HB. fold n. apply take_app_len. slia. }
  unfold emp_post, good. cbn [fst snd]. split; [exact R1|]. split; [exact HB|]. split; [|split].
  - intros Hok. destruct (R3 Hok) as (Rv & (vs' & Rview & Rsp) & Rsz).
    cbn [validate_u view size_m]. fold al. rewrite Hdata, Rv, Rview, Rsz. cbn [bind].
    split; [reflexivity|]. split.
    + exists (VNode 0 vs'). split; [reflexivity|]. cbn [spec_value strip]. rewrite Ef, Rsp. reflexivity.
    + cbn [extent]. rewrite Ef. reflexivity.
  - cbn [representable extent]. rewrite Ef. fold al. rewrite R4. rewrite N.add_0_l, Hdl.
    rewrite (ceil_le_floor _ (blen buf) al Hal). fold n. reflexivity.
  - exact R5.
Qed.

(* ---------- 7. unsized enum ---------- *)

Definition enum_go (pv : option N) (tag : intty) (vs : variants) (a : N) (buf : bytes) (k : N) (is : list init) : eres :=
  if negb (k <? vlen vs) then bad_init
  else
    let al := umax (ialign tag) (align_variants vs) in
    let dof := data_offset tag vs in
    if blen buf <? dof then crashed PanicSplit
    else
      let tagb := take dof buf in
      let rest := drop dof buf in
      let n := floor_mul (blen rest) al in
      let data := take n rest in
      let tail := drop n rest in
      let r := emplace_variant pv vs (N.to_nat k) is (a + dof) data tag k tagb in
      (fst r ++ tail, snd r).

Lemma emplace_u_enum pv tag d vs i a buf :
  emplace_u pv (TEnum false tag d vs) i a buf =
  match i with
  | IVar k is => enum_go pv tag vs a buf k is
  | IDefault => enum_go pv tag vs a buf d []
  | _ => bad_init
  end.
Proof. destruct i; reflexivity. Qed.

Lemma representable_fields_nil fs : representable_fields fs [] = true.
Proof. destruct fs; reflexivity. Qed.

Lemma representable_variant_nil vs : forall k, representable_variant vs k [] = true.
Proof.
  induction vs as [|fs r IH]; intros k; [reflexivity|].
  destruct k as [|k']; cbn [representable_variant]; [apply representable_fields_nil | apply IH].
Qed.

Lemma enum_go_post pv tag d vs a buf k is fvs :
  wf (TEnum false tag d vs) = true -> EMPV vs ->
  spec_variant vs (N.to_nat k) is = Some fvs -> forallb utf8_init is = true ->
  aligned a (align (TEnum false tag d vs)) = true -> min_size (TEnum false tag d vs) <= blen buf ->
  emp_post (TEnum false tag d vs) (IVar k is) a buf (enum_go pv tag vs a buf k is).
Proof.
  intros Hw IH Hs Hu Ha Hm.
  pose proof (enum_consts _ _ _ _ Hw) as (Hal & Hdo & Hdmod).
  pose proof (min_size_enum_ge _ _ _ Hw) as Hdm.
  apply wf_enum_inv in Hw. destruct Hw as (Hi & Hnat & Hv1 & Hv2 & Hdf & Hwv).
  assert (Hk : k < vlen vs).
  { destruct (N.lt_ge_cases k (vlen vs)) as [H|H]; [exact H|].
    rewrite spec_variant_oob in Hs by slia. discriminate. }
  cbn [align] in Ha. apply aligned_iff in Ha.
  set (al := umax (ialign tag) (align_variants vs)) in *. set (dof := data_offset tag vs) in *.
  pose proof (align_variants_P16 _ _ Hwv) as Hpv. destruct (wf_int_P16 _ Hi) as [_ Hpt].
  unfold enum_go. destruct (N.ltb_spec k (vlen vs)); [|slia]. cbn [negb]. cbv zeta. fold al dof.
  destruct (N.ltb_spec (blen buf) dof); [slia|].
  set (tagb := take dof buf). set (rest := drop dof buf).
  assert (Htl : blen tagb = dof) by (unfold tagb; apply blen_take_le; slia).
  assert (Hrl : blen rest = blen buf - dof) by (unfold rest; apply blen_drop).
  set (n := floor_mul (blen rest) al).
  pose proof (floor_mul_le (blen rest) al Hal) as Hnr. fold n in Hnr.
  assert (Hdl : blen (take n rest) = n) by (apply blen_take_le; exact Hnr).
  assert (Haa : (a + dof) mod align_variants vs = 0).
  { apply mod_trans with (m := al); auto using P16_pos.
    - apply mod_add_mult; auto.
    - unfold al. apply P16_umax_mod_r; auto. }
  pose proof (IH pv (N.to_nat k) is (a + dof) (take n rest) tag k tagb ltac:(eauto) Hu Haa ltac:(slia)) as Hpost.
  set (rr := emplace_variant pv vs (N.to_nat k) is (a + dof) (take n rest) tag k tagb) in *.
  destruct Hpost as (R1 & R2 & R3 & R4 & R5).
  assert (HB : blen (fst rr ++ drop n rest) = blen buf) by (rewrite blen_app, blen_drop; slia).
  unfold emp_post. cbn [fst snd]. split; [exact R1|]. split; [exact HB|]. split; [|split].
  - intros Hok. destruct (R3 Hok) as (data' & Hfst & Hdl' & Rv & (fvs' & Rview & Rsp) & Rsz).
    set (B := fst rr ++ drop n rest) in *.
    set (hdr := to_bytes (ibe tag) (isize tag) k ++ drop (isize tag) tagb) in *.
    assert (Hhdr : blen hdr = dof) by (unfold hdr; rewrite blen_set_len; slia).
    assert (EB : B = hdr ++ (data' ++ drop n rest)) by (unfold B; rewrite Hfst, <- app_assoc; reflexivity).
    assert (Hread : read_int tag B = Ok k).
    { rewrite EB. unfold hdr. rewrite <- app_assoc. apply read_int_written.
      unfold int_max in Hv2. pose proof (pow256_pos (isize tag)). slia. }
    assert (Hed : enum_data false tag vs B = data').
    { unfold enum_data. cbv zeta. fold dof al. rewrite EB. rewrite drop_app_len by exact Hhdr.
      rewrite blen_app, blen_drop, Hdl', Hdl. replace (n + (blen rest - n)) with (blen rest) by slia.
      fold n. apply take_app_len. slia. }
    assert (HdB : data_offset tag vs <= blen B) by (fold dof; slia).
    split; [|split].
    + apply (enum_valid_intro false tag d vs a B k Hread Hk HdB). rewrite Hed. exact Rv.
    + exists (VNode k fvs'). split.
      * apply (view_enum_eval false tag d vs B k fvs' Hread HdB). rewrite Hed. exact Rview.
      * cbn [spec_value strip]. rewrite Rsp. reflexivity.
    + cbn [extent]. apply (size_enum_eval tag d vs B k _ Hread HdB). rewrite Hed. exact Rsz.
  - cbn [representable extent]. fold al dof. rewrite R4, Hdl. unfold n. rewrite Hrl.
    rewrite (room_iff dof _ al (blen buf) Hal Hdmod ltac:(slia)). reflexivity.
  - exact R5.
Qed.

Lemma emp_enum tag d vs : wf (TEnum false tag d vs) = true -> EMPV vs -> EMP (TEnum false tag d vs).
Proof.
  intros Hw IH pv i a buf Hi Hu Ha Hm. rewrite emplace_u_enum.
  unfold init_ok in Hi. cbn [spec_value] in Hi.
  destruct i as [v|is0|k0 is0|is0|is0|s0|is0| |]; try discriminate.
  - destruct (spec_variant vs (N.to_nat k0) is0) as [fvs|] eqn:Es; [|discriminate].
    cbn [utf8_init] in Hu. eapply enum_go_post; eauto.
  - destruct (spec_variant vs (N.to_nat d) []) as [fvs|] eqn:Es; [|discriminate].
    pose proof (enum_go_post pv tag d vs a buf d [] fvs Hw IH Es eq_refl Ha Hm) as H.
    unfold emp_post, good in *.
    change (spec_value (TEnum false tag d vs) IDefault) with (spec_value (TEnum false tag d vs) (IVar d [])).
    change (extent (TEnum false tag d vs) IDefault) with (extent (TEnum false tag d vs) (IVar d [])).
    replace (representable (TEnum false tag d vs) IDefault) with (representable (TEnum false tag d vs) (IVar d [])).
    + exact H.
    + cbn [representable]. apply representable_variant_nil.
Qed.

(* ---------- 8. FlexVec ---------- *)

Definition flex_item_emp (pv : option N) (et : ty) : init -> N -> bytes -> eres :=
  fun i pa payload =>
    match check_align_min et pa payload with
    | Ok _ => emplace_u pv et i pa payload
    | Err k p => fail payload k p
    | Crash c => crashed c
    end.

Lemma emplace_u_flex pv et l is a buf :
  emplace_u pv (TFlex et l) (IFlex is) a buf =
  (let al := align (TFlex et l) in
   let n := floor_mul (blen buf) al in
   let data := take n buf in
   let tail := drop n buf in
   match emplace_int l 0 a data with
   | (data0, Ok _) =>
       let r := flex_fill et l (flex_item_emp pv et) (size_m et) is [] None a data0 0 in
       (fst r ++ tail, snd r)
   | (data0, e) => (data0 ++ tail, e)
   end).
Proof. reflexivity. Qed.

Definition ff_step (et : ty) (l : intty) (item : init -> N -> bytes -> eres) (item_size : bytes -> res N)
    (i : init) (r : list init) (pre : bytes) (prev : option (N * N)) (a : N) (data : bytes) (pos : N) : eres :=
  let os := flex_offset_size et l in
  let al := align (TFlex et l) in
  if blen data <? os then fail (pre ++ data) InsufficientSize pos
  else
    let slot := take os data in
    let payload := drop os data in
    match item i (a + os) payload with
    | (payload', Ok _) =>
        match item_size payload' with
        | Ok sz =>
            let psize := ceil_mul sz al in
            let off := os + psize in
            match from_usize l off with
            | Some o =>
                if o <? int_max l then
                  match emplace_int l (int_max l) a slot with
                  | (slot', Ok _) =>
                      let pre' :=
                        match prev with
                        | Some (pp, po) =>
                            take pp pre ++ to_bytes (ibe l) (isize l) po ++ drop (pp + isize l) pre
                        | None => pre
                        end in
                      if blen payload' <? psize then crashed PanicSplit
                      else
                        flex_fill et l item item_size r (pre' ++ slot' ++ take psize payload')
                                  (Some (blen pre', off)) (a + off) (drop psize payload') (pos + off)
                  | (slot', e) => (pre ++ slot' ++ payload', e)
                  end
                else fail (pre ++ slot ++ payload') InsufficientSize pos
            | None => fail (pre ++ slot ++ payload') InsufficientSize pos
            end
        | Err k p => crashed PanicUnwrap
        | Crash c => crashed c
        end
    | (payload', e) => (pre ++ slot ++ payload', e)
    end.

Lemma flex_fill_cons et l item item_size i r pre prev a data pos :
  flex_fill et l item item_size (i :: r) pre prev a data pos = ff_step et l item item_size i r pre prev a data pos.
Proof. reflexivity. Qed.

Definition seal (l : intty) (prev : option (N * N)) (pre : bytes) : bytes :=
  match prev with
  | Some (pp, po) => take pp pre ++ to_bytes (ibe l) (isize l) po ++ drop (pp + isize l) pre
  | None => pre
  end.

Definition prev_ok (l : intty) (prev : option (N * N)) (pre : bytes) : Prop :=
  match prev with Some (pp, _) => pp + isize l <= blen pre | None => True end.

Lemma seal_blen l prev pre : prev_ok l prev pre -> blen (seal l prev pre) = blen pre.
Proof.
  destruct prev as [[pp po]|]; cbn [prev_ok seal]; [|reflexivity].
  intros H. rewrite !blen_app, tb_len, blen_drop, blen_take_le by lia. lia.
Qed.

Definition offf (et : ty) (l : intty) (i : init) : N :=
  flex_offset_size et l + ceil_mul (extent et i) (align (TFlex et l)).

Definition item_rel (et : ty) (x : flex_item) (i : init) : Prop :=
  item_ok et x /\ exists v, view et (snd x) = Ok v /\ spec_value et i = Some (strip v).

Definition ff_post (et : ty) (l : intty) (is : list init) (pre : bytes) (prev : option (N * N))
                   (a : N) (data : bytes) (pos : N) (r : eres) : Prop :=
  is_crash (snd r) = false /\
  blen (fst r) = blen pre + blen data /\
  (snd r = Ok tt ->
     match is with
     | [] => fst r = pre ++ data
     | _ :: _ =>
         exists data' items p,
           fst r = seal l prev pre ++ data' /\ blen data' = blen data /\
           chain l (flex_offset_size et l) (align (TFlex et l)) (int_max l) a data' pos items (EndLast p) /\
           Forall2 (item_rel et) items is /\
           flex_size_spec et (flex_offset_size et l) (align (TFlex et l)) items (EndLast p)
             = Ok (pos + sum_list (map (offf et l) is))
     end) /\
  (snd r = Ok tt <->
     forallb (fun j => representable et j && (offf et l j <? int_max l)) is = true /\
     sum_list (map (offf et l) is) <= blen data) /\
  (forall k p, snd r = Err k p -> k = InsufficientSize).

Definition item_post (et : ty) (i : init) (pa : N) (payload : bytes) (r : eres) : Prop :=
  is_crash (snd r) = false /\ blen (fst r) = blen payload /\
  (snd r = Ok tt -> min_size et <= blen payload /\ good et i pa (fst r)) /\
  (snd r = Ok tt <-> representable et i = true /\ extent et i <= blen payload) /\
  (forall k p, snd r = Err k p -> k = InsufficientSize).

Lemma flex_item_post pv et i pa payload : wf et = true -> EMP et ->
  init_ok et i = true -> utf8_init i = true -> pa mod align et = 0 ->
  item_post et i pa payload (flex_item_emp pv et i pa payload).
Proof.
  intros Hw IH Hi Hu Hpa. apply aligned_iff in Hpa.
  unfold flex_item_emp, check_align_min. rewrite Hpa. cbn [negb].
  pose proof (extent_min et i Hw Hi) as Hext.
  destruct (N.ltb_spec (blen payload) (min_size et)) as [Hc|Hc].
  - unfold item_post, fail. cbn [fst snd]. split; [reflexivity|]. split; [reflexivity|].
    split; [discriminate|]. split.
    + split; [discriminate|]. intros [_ H]. lia.
    + intros k p Hk. injection Hk as <- _. reflexivity.
  - destruct (IH pv i pa payload Hi Hu Hpa Hc) as (H1 & H2 & H3 & H4 & H5).
    unfold item_post. split; [exact H1|]. split; [exact H2|]. split; [|split; [exact H4|exact H5]].
    intros Hok. split; [exact Hc|]. apply H3. exact Hok.
Qed.

Lemma check_align_min_intro t a bs : a mod align t = 0 -> min_size t <= blen bs -> check_align_min t a bs = Ok tt.
Proof.
  intros Ha Hm. apply aligned_iff in Ha. unfold check_align_min. rewrite Ha. cbn [negb].
  destruct (N.ltb_spec (blen bs) (min_size t)); [lia|reflexivity].
Qed.

Lemma emplace_int_ok l v a slot : aligned a (ialign l) = true -> isize l <= blen slot ->
  emplace_int l v a slot = (to_bytes (ibe l) (isize l) v ++ drop (isize l) slot, Ok tt).
Proof.
  intros Ha Hs. unfold emplace_int. rewrite Ha. cbn [negb].
  destruct (N.ltb_spec (blen slot) (isize l)); [lia|]. apply write_int_ok. exact Hs.
Qed.

Lemma flex_max_narrow l : narrow l = true -> flex_max l = int_max l.
Proof. intros H. unfold flex_max. rewrite (to_usize_max l H). reflexivity. Qed.

(* the chain that ends in the item just written *)
Lemma chain_build_last l os al a slot payload pos :
  narrow l = true -> aligned a (ialign l) = true -> isize l <= os -> blen slot = os ->
  int_max l <> 0 -> os <= int_max l ->
  chain l os al (int_max l) a ((to_bytes (ibe l) (isize l) (int_max l) ++ drop (isize l) slot) ++ payload) pos
        [(pos, a + os, payload)] (EndLast pos).
Proof.
  intros Hn Ha Hlos Hsl Hm0 Hom.
  set (hdr := to_bytes (ibe l) (isize l) (int_max l) ++ drop (isize l) slot).
  assert (Hh : blen hdr = os) by (unfold hdr; rewrite blen_set_len; lia).
  replace payload with (drop os (hdr ++ payload)) at 2 by (apply drop_app_len; exact Hh).
  apply ch_last; auto.
  - rewrite blen_app. lia.
  - unfold hdr. rewrite <- app_assoc. apply read_len_written; auto. lia.
  - rewrite blen_app. lia.
Qed.

(* a sealed item in front of a chain *)
Lemma chain_build_next l os al a slot tk rest pos off items e :
  narrow l = true -> aligned a (ialign l) = true -> isize l <= os -> blen slot = os ->
  off = os + blen tk -> off <> 0 -> off < int_max l -> off mod al = 0 ->
  chain l os al (int_max l) (a + off) rest (pos + off) items e ->
  chain l os al (int_max l) a (((to_bytes (ibe l) (isize l) off ++ drop (isize l) slot) ++ tk) ++ rest) pos
        ((pos, a + os, tk) :: items) e.
Proof.
  intros Hn Ha Hlos Hsl Hoff H0 Hlt Hmod Hc.
  set (hdr := to_bytes (ibe l) (isize l) off ++ drop (isize l) slot).
  assert (Hh : blen hdr = os) by (unfold hdr; rewrite blen_set_len; lia).
  assert (Hht : blen (hdr ++ tk) = off) by (rewrite blen_app; lia).
  set (rem := (hdr ++ tk) ++ rest).
  assert (E1 : drop off rem = rest) by (unfold rem; apply drop_app_len; exact Hht).
  assert (E2 : drop os (take off rem) = tk).
  { unfold rem. rewrite take_app_len by exact Hht. apply drop_app_len. exact Hh. }
  rewrite <- E2. apply ch_next; auto; try lia.
  - unfold rem. rewrite !blen_app. lia.
  - unfold rem, hdr. rewrite <- !app_assoc. apply read_len_written; auto. lia.
  - unfold rem. rewrite blen_app. lia.
  - rewrite E1. exact Hc.
Qed.

Lemma ff_post_fail et l is pre prev a data pos b p :
  blen b = blen pre + blen data ->
  ~ (forallb (fun j => representable et j && (offf et l j <? int_max l)) is = true /\
     sum_list (map (offf et l) is) <= blen data) ->
  ff_post et l is pre prev a data pos (b, Err InsufficientSize p).
Proof.
  intros Hb Hno. unfold ff_post. cbn [fst snd]. split; [reflexivity|]. split; [exact Hb|].
  split; [discriminate|]. split.
  - split; [discriminate | intros H; contradiction].
  - intros k q Hk. injection Hk as <- _. reflexivity.
Qed.

Lemma flex_fill_post pv et l : wf (TFlex et l) = true -> narrow l = true -> EMP et ->
  forall is pre prev a data pos,
    Forall (fun i => init_ok et i = true /\ utf8_init i = true) is ->
    a mod align (TFlex et l) = 0 -> blen data mod align (TFlex et l) = 0 -> prev_ok l prev pre ->
    ff_post et l is pre prev a data pos
      (flex_fill et l (flex_item_emp pv et) (size_m et) is pre prev a data pos).
Proof.
  intros Hw Hn IH.
  pose proof (flex_consts et l Hw) as (Hal & Hlos & Hosal & Halia & Hos & Hia & Halet).
  pose proof Hw as Hw0. apply wf_flex_inv in Hw0. destruct Hw0 as [Hwt Hl].
  set (os := flex_offset_size et l) in *. set (al := align (TFlex et l)) in *.
  induction is as [|i r IHr]; intros pre prev a data pos Hall Ha Hd Hprev.
  - cbn [flex_fill]. unfold ff_post, ok. cbn [fst snd map sum_list forallb].
    split; [reflexivity|]. split; [apply blen_app|]. split; [intros _; reflexivity|]. split.
    + split; [intros _; split; [reflexivity|slia] | reflexivity].
    + intros k p Hk. discriminate.
  - inversion Hall as [|i0 r0 [Hi Hu] Hallr]; subst i0 r0.
    rewrite flex_fill_cons. unfold ff_step. cbv zeta. fold os al.
    assert (Hoffge : os <= offf et l i) by (unfold offf; fold os; slia).
    destruct (N.ltb_spec (blen data) os) as [Hc|Hc].
    { (* no room for the slot *)
      apply ff_post_fail; [apply blen_app|]. cbn [map sum_list]. intros [_ H]. slia. }
    set (slot := take os data). set (payload := drop os data).
    assert (Hsl : blen slot = os) by (unfold slot; apply blen_take_le; exact Hc).
    assert (Hpl : blen payload = blen data - os) by (unfold payload; apply blen_drop).
    assert (Hpa : (a + os) mod align et = 0).
    { apply mod_trans with (m := al); auto using align_pos. apply mod_add_mult; auto. }
    pose proof (flex_item_post pv et i (a + os) payload Hwt IH Hi Hu Hpa) as (I1 & I2 & I3 & I4 & I5).
    destruct (flex_item_emp pv et i (a + os) payload) as [payload' res] eqn:Eitem. cbn [fst snd] in *.
    assert (Hnotok : res <> Ok tt ->
              ~ (forallb (fun j => representable et j && (offf et l j <? int_max l)) (i :: r) = true /\
                 sum_list (map (offf et l) (i :: r)) <= blen data)).
    { intros Hne [Hf Hs]. apply Hne. apply I4. cbn [forallb map sum_list] in Hf, Hs.
      rewrite !andb_true_iff in Hf. destruct Hf as [[Hf1 _] _].
      split; [exact Hf1|]. unfold offf in Hs. fold os al in Hs.
      pose proof (ceil_mul_ge (extent et i) al Hal). slia. }
    destruct res as [[]|k p|c]; cbv beta iota.
    2:{ rewrite (I5 k p eq_refl). apply ff_post_fail; [rewrite !blen_app; slia|].
        apply Hnotok. discriminate. }
    2:{ discriminate I1. }
    destruct (I3 eq_refl) as (Hmin & Hgood). clear I3 I5 Hnotok.
    assert (Hrep : representable et i = true /\ extent et i <= blen payload) by (apply I4; reflexivity).
    destruct Hrep as [Hrep Hext].
    pose proof Hgood as (Hv & (v & Hview & Hsp) & Hsz).
    rewrite Hsz. cbv beta iota. set (psize := ceil_mul (extent et i) al).
    assert (Eoff : offf et l i = os + psize) by reflexivity.
    set (off := os + psize) in *.
    assert (Hoffeq : off = os + psize) by reflexivity.
    assert (Hpsm : psize mod al = 0) by (apply ceil_mul_mod; exact Hal).
    assert (Hplm : blen payload mod al = 0) by (rewrite Hpl; apply mod_sub_mult; auto).
    assert (Hpsle : psize <= blen payload) by (apply ceil_mul_le_mult; auto).
    assert (Hpsge : extent et i <= psize) by (apply ceil_mul_ge; exact Hal).
    assert (Hoffm : off mod al = 0) by (apply mod_add_mult; auto).
    assert (Hnofit : ~ off < int_max l ->
              ~ (forallb (fun j => representable et j && (offf et l j <? int_max l)) (i :: r) = true /\
                 sum_list (map (offf et l) (i :: r)) <= blen data)).
    { intros Hge [Hf _]. cbn [forallb] in Hf. rewrite Eoff in Hf.
      destruct (N.ltb_spec off (int_max l)); [slia|]. rewrite andb_false_r in Hf. discriminate. }
    unfold from_usize.
    destruct (N.leb_spec off (int_max l)) as [Hom|Hom].
    2:{ apply ff_post_fail; [rewrite !blen_app; slia|]. apply Hnofit. slia. }
    destruct (N.ltb_spec off (int_max l)) as [Holt|Holt].
    2:{ apply ff_post_fail; [rewrite !blen_app; slia|]. apply Hnofit. slia. }
    clear Hnofit.
    assert (Haa : aligned a (ialign l) = true).
    { apply aligned_iff. apply mod_trans with (m := al); auto. }
    rewrite (emplace_int_ok l (int_max l) a slot Haa) by slia. cbv beta iota.
    destruct (N.ltb_spec (blen payload') psize); [slia|].
    change (match prev with
            | Some (pp, po) => take pp pre ++ to_bytes (ibe l) (isize l) po ++ drop (pp + isize l) pre
            | None => pre
            end) with (seal l prev pre).
    set (slot' := to_bytes (ibe l) (isize l) (int_max l) ++ drop (isize l) slot).
    assert (Hsl' : blen slot' = os) by (unfold slot'; rewrite blen_set_len; slia).
    pose proof (seal_blen l prev pre Hprev) as Hseal.
    set (pre' := seal l prev pre) in *.
    set (tk := take psize payload'). set (data2 := drop psize payload').
    assert (Htk : blen tk = psize) by (unfold tk; apply blen_take_le; slia).
    assert (Hd2 : blen data2 = blen payload - psize) by (unfold data2; rewrite blen_drop; slia).
    assert (Hprev2 : prev_ok l (Some (blen pre', off)) (pre' ++ slot' ++ tk)).
    { cbn [prev_ok]. rewrite !blen_app. slia. }
    pose proof (IHr (pre' ++ slot' ++ tk) (Some (blen pre', off)) (a + off) data2 (pos + off) Hallr
                  ltac:(apply mod_add_mult; auto) ltac:(rewrite Hd2; apply mod_sub_mult; auto) Hprev2)
      as (R1 & R2 & R3 & R4 & R5).
    set (rr := flex_fill et l (flex_item_emp pv et) (size_m et) r (pre' ++ slot' ++ tk)
                 (Some (blen pre', off)) (a + off) data2 (pos + off)) in *.
    unfold ff_post. split; [exact R1|]. split; [rewrite R2, !blen_app; slia|]. split; [|split; [|exact R5]].
    + (* the result *)
      intros Hok. specialize (R3 Hok).
      assert (Hitem_last : item_rel et (pos, a + os, payload') i).
      { split; [split; cbn [fst snd]|cbn [snd]; eauto].
        - apply check_align_min_intro; auto. slia.
        - exact Hv. }
      destruct r as [|i2 r2]; cbv beta iota in R3.
      * (* the last item keeps its marker *)
        exists (slot' ++ payload'), [(pos, a + os, payload')], pos.
        split; [|split; [|split; [|split]]].
        -- rewrite R3. rewrite <- !app_assoc. f_equal. f_equal. unfold tk, data2. rewrite take_drop. reflexivity.
        -- rewrite blen_app. slia.
        -- apply chain_build_last; auto; slia.
        -- constructor; [exact Hitem_last|constructor].
        -- unfold flex_size_spec. cbn [last snd]. rewrite Hsz. cbn [bind map sum_list].
           fold os al. fold psize. f_equal. rewrite Eoff. slia.
      * (* the item is sealed by the next one *)
        destruct R3 as (data2' & items2 & p & Hfst & Hbl2 & Hch & Hrel & Hspec).
        set (hdr := to_bytes (ibe l) (isize l) off ++ drop (isize l) slot).
        assert (Hhdr : blen hdr = os) by (unfold hdr; rewrite blen_set_len; slia).
        exists ((hdr ++ tk) ++ data2'), ((pos, a + os, tk) :: items2), p.
        split; [|split; [|split; [|split]]].
        -- rewrite Hfst. cbn [seal]. rewrite take_app_len by reflexivity.
           rewrite drop_app_ge by slia. replace (blen pre' + isize l - blen pre') with (isize l) by slia.
           rewrite drop_app_le by slia. unfold slot'. rewrite drop_app_len by apply tb_len.
           unfold hdr. rewrite <- !app_assoc. reflexivity.
        -- rewrite !blen_app. slia.
        -- apply chain_build_next; auto; try slia.
        -- constructor; [|exact Hrel].
           assert (Hgl : good et i (a + os) tk).
           { apply (good_local et i (a + os) payload'); auto; try slia.
             unfold tk. rewrite take_take by slia. reflexivity. }
           destruct Hgl as (Hv2 & (v2 & Hview2 & Hsp2) & _).
           split; [split; cbn [fst snd]|cbn [snd]; eauto].
           ++ apply check_align_min_intro; auto. pose proof (extent_min et i Hwt Hi). slia.
           ++ exact Hv2.
        -- assert (Hne : items2 <> []) by (inversion Hrel; congruence).
           unfold flex_size_spec in *.
           assert (Hlast : forall (x0 : flex_item) xs, xs <> [] -> last (x0 :: xs) no_item = last xs no_item)
             by (intros x0 xs Hx; destruct xs; [congruence|reflexivity]).
           rewrite Hlast by exact Hne.
           rewrite Hspec. cbn [map sum_list]. f_equal. rewrite Eoff. slia.
    + cbn [forallb map sum_list]. rewrite R4. rewrite Hrep, Eoff.
      destruct (N.ltb_spec off (int_max l)); [|slia]. cbn [andb].
      rewrite Hd2. split; intros [Hf Hs]; (split; [exact Hf|slia]).
Qed.

Lemma flex_inits_ok et : forall is vs, opt_map_all (spec_value et) is = Some vs -> forallb utf8_init is = true ->
  Forall (fun i => init_ok et i = true /\ utf8_init i = true) is.
Proof.
  induction is as [|i r IH]; intros vs Hs Hu; [constructor|].
  cbn [opt_map_all] in Hs. destruct (spec_value et i) as [v|] eqn:Ev; [|discriminate].
  destruct (opt_map_all (spec_value et) r) as [vr|] eqn:Er; [|discriminate].
  cbn [forallb] in Hu. apply andb_true_iff in Hu. destruct Hu as [Hu1 Hu2].
  constructor; [|eapply IH; eauto]. split; [|exact Hu1]. unfold init_ok. rewrite Ev. reflexivity.
Qed.

Lemma item_rel_split et items is : Forall2 (item_rel et) items is ->
  Forall (item_ok et) items /\
  exists vs, Forall2 (fun (x : flex_item) v => view et (snd x) = Ok v) items vs /\
             opt_map_all (spec_value et) is = Some (map strip vs).
Proof.
  induction 1 as [|x i items is [Hok (v & Hview & Hsp)] Hr IH].
  - split; [constructor|]. exists []. split; [constructor|reflexivity].
  - destruct IH as (Hall & vs & Hvs & Hspec). split; [constructor; assumption|].
    exists (v :: vs). split; [constructor; assumption|].
    cbn [opt_map_all map]. rewrite Hsp, Hspec. reflexivity.
Qed.

Lemma sum_offf_mod et l : wf (TFlex et l) = true -> forall is,
  sum_list (map (offf et l) is) mod align (TFlex et l) = 0.
Proof.
  intros Hw. pose proof (flex_consts et l Hw) as (Hal & _ & Hosal & _).
  induction is as [|i r IH]; cbn [map sum_list]; [apply N.mod_0_l; lia|].
  apply mod_add_mult; auto. unfold offf. apply mod_add_mult; auto. apply ceil_mul_mod. exact Hal.
Qed.

Lemma emp_flex et l : wf (TFlex et l) = true -> narrow_ty (TFlex et l) = true -> EMP et -> EMP (TFlex et l).
Proof.
  intros Hw Hnt IH pv i a buf Hi Hu Ha Hm. apply narrow_flex_inv in Hnt. destruct Hnt as [_ Hn].
  pose proof (flex_consts et l Hw) as (Hal & Hlos & Hosal & Halia & Hos & Hia & Halet).
  assert (Hdef : emp_post (TFlex et l) IDefault a buf (emplace_u pv (TFlex et l) IDefault a buf)).
  { pose proof (flex_default_ok pv et l a buf Hw Hn Ha Hm) as H. cbv zeta in H.
    unfold default_in_place in H. rewrite emplace_gate_passed in H by assumption.
    destruct H as (H1 & H2 & H4 & H5 & H6).
    apply validate_inv in H4. destruct H4 as (_ & _ & H4).
    cbn [min_size] in Hm. change (umax (isize l) (align et)) with (flex_offset_size et l) in Hm.
    apply emp_post_ok; auto.
    - rewrite H2. rewrite blen_set_len; slia.
    - split; [exact H4|]. split.
      + exists (VNode 0 []). split; [exact H5|reflexivity].
      + rewrite H6. reflexivity. }
  unfold init_ok in Hi.
  destruct i as [v|is0|k0 is0|is0|is0|s0|is0| |]; cbn [spec_value] in Hi; try discriminate;
    [|exact Hdef|exact Hdef].
  destruct (opt_map_all (spec_value et) is0) as [vs|] eqn:Es; [|discriminate]. clear Hi.
  cbn [utf8_init] in Hu. pose proof (flex_inits_ok et is0 vs Es Hu) as Hall.
  cbn [min_size] in Hm. change (umax (isize l) (align et)) with (flex_offset_size et l) in Hm.
  cbn [align] in Ha. change (umax (ialign l) (align et)) with (align (TFlex et l)) in Ha.
  apply aligned_iff in Ha.
  set (os := flex_offset_size et l) in *. set (al := align (TFlex et l)) in *.
  rewrite emplace_u_flex. cbv zeta. fold al.
  set (n := floor_mul (blen buf) al).
  pose proof (floor_mul_le (blen buf) al Hal) as Hnb. fold n in Hnb.
  assert (Hon : os <= n) by (apply floor_mul_ge_mult; auto).
  assert (Hnm : n mod al = 0) by (apply floor_mul_mod; exact Hal).
  assert (Hdl : blen (take n buf) = n) by (apply blen_take_le; exact Hnb).
  assert (Haa : aligned a (ialign l) = true).
  { apply aligned_iff. apply mod_trans with (m := al); auto. }
  rewrite (emplace_int_ok l 0 a (take n buf) Haa) by slia. cbv beta iota.
  set (data0 := to_bytes (ibe l) (isize l) 0 ++ drop (isize l) (take n buf)).
  assert (Hd0 : blen data0 = n) by (unfold data0; rewrite blen_set_len; slia).
  pose proof (flex_fill_post pv et l Hw Hn IH is0 [] None a data0 0 Hall Ha ltac:(rewrite Hd0; exact Hnm) I)
    as (R1 & R2 & R3 & R4 & R5).
  set (rr := flex_fill et l (flex_item_emp pv et) (size_m et) is0 [] None a data0 0) in *.
  rewrite blen_nil, N.add_0_l in R2.
  assert (HB : blen (fst rr ++ drop n buf) = blen buf) by (rewrite blen_app, blen_drop; slia).
  pose proof (sum_offf_mod et l Hw is0) as Hsm. fold al in Hsm.
  unfold emp_post. cbn [fst snd]. split; [exact R1|]. split; [exact HB|]. split; [|split; [|exact R5]].
  - intros Hok. specialize (R3 Hok). destruct is0 as [|x r0].
    + (* no item: the default state *)
      cbn [app] in R3. rewrite R3.
      assert (E : data0 ++ drop n buf = fst (emplace_u pv (TFlex et l) IDefault a buf)).
      { cbn [emplace_u]. rewrite write_int_ok by slia. cbn [fst]. unfold data0. rewrite <- app_assoc. f_equal.
        rewrite <- (take_drop n buf) at 3. symmetry. apply drop_app_le. slia. }
      rewrite E. destruct Hdef as (_ & _ & D3 & D4 & _). apply D3. apply D4.
      split; [reflexivity|]. cbn [extent]. fold os. slia.
    + destruct R3 as (data' & items & p & Hfst & Hbl & Hch & Hrel & Hspec).
      cbn [seal app] in Hfst. rewrite Hfst.
      set (B := data' ++ drop n buf) in *.
      assert (HBl : blen B = blen buf) by (unfold B; rewrite blen_app, blen_drop; slia).
      assert (Hfd : flex_data et l B = data').
      { unfold flex_data. fold al. rewrite HBl. fold n. unfold B. apply take_app_len. slia. }
      destruct (item_rel_split et items (x :: r0) Hrel) as (Hoks & vs' & Hviews & Hsp).
      assert (Hnomax : nomax l -> items = []).
      { intros [c Hc]. rewrite (to_usize_max l Hn) in Hc. discriminate. }
      assert (Hch' : chain l (flex_offset_size et l) (align (TFlex et l)) (flex_max l) a (flex_data et l B) 0 items (EndLast p)).
      { rewrite Hfd, (flex_max_narrow l Hn). exact Hch. }
      split; [|split].
      * apply (chain_flex_valid et l a B items (EndLast p) Hw Hch' Hoks Hnomax).
      * exists (VNode 0 vs'). split.
        -- apply (flex_view_chain et l a B items (EndLast p) vs' Hw Hch' Hnomax Hviews).
        -- cbn [spec_value strip]. rewrite Hsp. reflexivity.
      * rewrite (flex_size_chain et l a B items (EndLast p) Hw Hch' Hnomax).
        etransitivity; [exact Hspec|]. rewrite N.add_0_l. reflexivity.
  - rewrite R4. rewrite Hd0.
    change (representable (TFlex et l) (IFlex is0))
      with (forallb (fun j => representable et j && (offf et l j <? int_max l)) is0).
    destruct is0 as [|x r0].
    + cbn [forallb map sum_list extent]. fold os. split; intros _; (split; [reflexivity|slia]).
    + change (extent (TFlex et l) (IFlex (x :: r0))) with (sum_list (map (offf et l) (x :: r0))).
      split; intros [Hf Hs]; (split; [exact Hf|]); [slia|].
      apply floor_mul_ge_mult; auto.
Qed.

(* ---------- 9. the mutual induction ---------- *)

Theorem emp_mut :
  (forall t, wf t = true -> narrow_ty t = true -> EMP t) /\
  (forall fs, fs <> FNil -> wfF fs -> narrow_fields fs = true -> EMPF fs) /\
  (forall vs, wf_variants false vs = true -> narrow_variants vs = true -> EMPV vs).
Proof.
  apply ty_mutind.
  - intros Hw _. apply emp_sized; auto.
  - intros it Hw _. apply emp_sized; auto.
  - intros Hw _. apply emp_sized; auto.
  - intros tag n d Hw _. apply emp_sized; auto.
  - intros t _ n Hw _. apply emp_sized; auto.
  - intros t _ l Hw Hn. apply emp_vec; auto.
  - intros l Hw Hn. apply emp_str; auto.
  - intros t IH l Hw Hn. apply emp_flex; auto.
    apply wf_flex_inv in Hw. apply narrow_flex_inv in Hn. apply IH; tauto.
  - intros s fs IH Hw Hn. destruct s; [apply emp_sized; auto|].
    apply emp_struct; auto. destruct (wf_struct_wfF _ _ Hw) as [Hnil|Hf]; [subst fs; discriminate Hw|].
    apply IH; auto. intros ->. discriminate Hw.
  - intros s tag d vs IH Hw Hn. destruct s; [apply emp_sized; auto|].
    apply emp_enum; auto. apply narrow_enum_inv in Hn.
    pose proof (wf_enum_inv _ _ _ _ Hw) as (_ & _ & _ & _ & _ & Hwv). apply IH; tauto.
  - intros H. congruence.
  - intros t IHt r IHr _ Hf Hn. cbn [narrow_fields] in Hn. apply andb_true_iff in Hn. destruct Hn as [Hnt Hnr].
    destruct (wfF_cons _ _ Hf) as [Hwt Hr].
    destruct r as [|t' r'].
    + apply fields_step_single; auto.
    + destruct Hr as [Hr|[Hst Hr]]; [discriminate|].
      apply fields_step_cons2; auto. apply IHr; auto. congruence.
  - intros _ _ pv k is a data tag kv tagb [fvs Hs]. discriminate.
  - intros fs IHf r IHr Hw Hn. cbn [narrow_variants] in Hn. apply andb_true_iff in Hn. destruct Hn as [Hnf Hnr].
    pose proof (wf_variants_cons _ _ _ Hw) as [Hf Hr].
    apply variants_step; auto.
    destruct fs as [|t0 r0]; [left; reflexivity|]. right.
    destruct Hf as [Hf|Hf]; [discriminate|]. split; [exact Hf|]. apply IHf; auto. congruence.
Qed.

(* ---------- 10. the unchecked emplacer, every type ---------- *)

Theorem emplace_u_ok t : wf t = true -> narrow_ty t = true ->
  forall pv i a buf, init_ok t i = true -> utf8_init i = true ->
    aligned a (align t) = true -> min_size t <= blen buf ->
    let r := emplace_u pv t i a buf in
    is_crash (snd r) = false /\
    blen (fst r) = blen buf /\
    (snd r = Ok tt ->
       validate_u t a (fst r) = Ok tt /\
       (exists v, view t (fst r) = Ok v /\ spec_value t i = Some (strip v)) /\
       size_m t (fst r) = Ok (extent t i)) /\
    (snd r = Ok tt <-> representable t i = true /\ extent t i <= blen buf) /\
    (forall k p, snd r = Err k p -> k = InsufficientSize).
Proof.
  intros Hw Hn pv i a buf Hi Hu Ha Hm. exact (proj1 emp_mut t Hw Hn pv i a buf Hi Hu Ha Hm).
Qed.

(* ---------- 11. Emplacer::emplace = new_in_place (C15, C03) ---------- *)

Lemma emplace_cases pv t i a buf :
  (aligned a (align t) = false /\ emplace pv t i a buf = (buf, Err BadAlign 0)) \/
  (aligned a (align t) = true /\ blen buf < min_size t /\ emplace pv t i a buf = (buf, Err InsufficientSize 0)) \/
  (aligned a (align t) = true /\ min_size t <= blen buf /\ emplace pv t i a buf = emplace_u pv t i a buf).
Proof.
  destruct (aligned a (align t)) eqn:Ha.
  - destruct (N.lt_ge_cases (blen buf) (min_size t)) as [Hs|Hs].
    + right. left. split; [reflexivity|]. split; [exact Hs|]. apply emplace_too_small; assumption.
    + right. right. split; [reflexivity|]. split; [exact Hs|]. apply emplace_gate_passed; assumption.
  - left. split; [reflexivity|]. apply emplace_badalign. exact Ha.
Qed.

Theorem emplace_never_crashes t i : wf t = true -> narrow_ty t = true ->
  init_ok t i = true -> utf8_init i = true ->
  forall pv a buf, is_crash (snd (emplace pv t i a buf)) = false.
Proof.
  intros Hw Hn Hi Hu pv a buf.
  destruct (emplace_cases pv t i a buf) as [[_ E]|[(_ & _ & E)|(Ha & Hm & E)]]; rewrite E; try reflexivity.
  apply (emplace_u_ok t Hw Hn pv i a buf Hi Hu Ha Hm).
Qed.

Theorem emplace_ok_iff t i : wf t = true -> narrow_ty t = true ->
  init_ok t i = true -> utf8_init i = true ->
  forall pv a buf,
    snd (emplace pv t i a buf) = Ok tt <->
    aligned a (align t) = true /\ representable t i = true /\ extent t i <= blen buf.
Proof.
  intros Hw Hn Hi Hu pv a buf. pose proof (extent_min t i Hw Hi) as Hext.
  destruct (emplace_cases pv t i a buf) as [[Ha E]|[(Ha & Hm & E)|(Ha & Hm & E)]]; rewrite E; cbn [snd].
  - rewrite Ha. split; [discriminate|]. intros [H _]. discriminate.
  - split; [discriminate|]. intros (_ & _ & H). lia.
  - destruct (emplace_u_ok t Hw Hn pv i a buf Hi Hu Ha Hm) as (_ & _ & _ & H4 & _).
    rewrite H4. tauto.
Qed.

Theorem emplace_insufficient t i : wf t = true -> narrow_ty t = true ->
  init_ok t i = true -> utf8_init i = true ->
  forall pv a buf, aligned a (align t) = true ->
    ~ (representable t i = true /\ extent t i <= blen buf) ->
    exists p, snd (emplace pv t i a buf) = Err InsufficientSize p.
Proof.
  intros Hw Hn Hi Hu pv a buf Ha Hno.
  destruct (emplace_cases pv t i a buf) as [[Ha' E]|[(_ & Hm & E)|(_ & Hm & E)]]; rewrite E; cbn [snd].
  - congruence.
  - eauto.
  - destruct (emplace_u_ok t Hw Hn pv i a buf Hi Hu Ha Hm) as (H1 & _ & _ & H4 & H5).
    destruct (snd (emplace_u pv t i a buf)) as [[]|k p|c].
    + exfalso. apply Hno. apply H4. reflexivity.
    + rewrite (H5 k p eq_refl). eauto.
    + discriminate H1.
Qed.

Theorem emplace_errors t i : wf t = true -> narrow_ty t = true ->
  init_ok t i = true -> utf8_init i = true ->
  forall pv a buf k p, snd (emplace pv t i a buf) = Err k p ->
    (k = BadAlign /\ aligned a (align t) = false) \/ (k = InsufficientSize /\ aligned a (align t) = true).
Proof.
  intros Hw Hn Hi Hu pv a buf k p.
  destruct (emplace_cases pv t i a buf) as [[Ha E]|[(Ha & Hm & E)|(Ha & Hm & E)]]; rewrite E; cbn [snd].
  - intros H. injection H as <- _. left. auto.
  - intros H. injection H as <- _. right. auto.
  - intros H. destruct (emplace_u_ok t Hw Hn pv i a buf Hi Hu Ha Hm) as (_ & _ & _ & _ & H5).
    right. split; [exact (H5 k p H)|exact Ha].
Qed.

Theorem emplace_keeps_length t i : wf t = true -> narrow_ty t = true ->
  init_ok t i = true -> utf8_init i = true ->
  forall pv a buf, blen (fst (emplace pv t i a buf)) = blen buf.
Proof.
  intros Hw Hn Hi Hu pv a buf.
  destruct (emplace_cases pv t i a buf) as [[_ E]|[(_ & _ & E)|(Ha & Hm & E)]]; rewrite E; try reflexivity.
  apply (emplace_u_ok t Hw Hn pv i a buf Hi Hu Ha Hm).
Qed.

Theorem emplace_reads_back t i : wf t = true -> narrow_ty t = true ->
  init_ok t i = true -> utf8_init i = true ->
  forall pv a buf buf', emplace pv t i a buf = (buf', Ok tt) ->
    blen buf' = blen buf /\
    validate t a buf' = Ok tt /\
    (exists v, view t buf' = Ok v /\ spec_value t i = Some (strip v)) /\
    size_m t buf' = Ok (extent t i).
Proof.
  intros Hw Hn Hi Hu pv a buf buf' H.
  destruct (emplace_cases pv t i a buf) as [[_ E]|[(_ & _ & E)|(Ha & Hm & E)]]; rewrite E in H; try discriminate.
  destruct (emplace_u_ok t Hw Hn pv i a buf Hi Hu Ha Hm) as (_ & H2 & H3 & _ & _).
  rewrite H in H2, H3. cbn [fst snd] in H2, H3. destruct (H3 eq_refl) as (Hv & Hview & Hsz).
  split; [exact H2|]. split; [|split; [exact Hview|exact Hsz]].
  unfold validate, check_align_min. rewrite Ha, H2. cbn [negb].
  destruct (N.ltb_spec (blen buf) (min_size t)); [lia|]. cbn [bind]. exact Hv.
Qed.

(* ---------- 12. default_in_place (C20) ---------- *)

Lemma representable_default_mut :
  (forall t, representable t IDefault = true) /\
  (forall fs n, representable_fields fs (repeat IDefault n) = true) /\
  (forall vs : variants, True).
Proof.
  apply ty_mutind.
  - reflexivity.
  - intros it. reflexivity.
  - reflexivity.
  - intros tag n d. reflexivity.
  - intros t _ n. reflexivity.
  - intros t _ l. reflexivity.
  - intros l. reflexivity.
  - intros t _ l. reflexivity.
  - intros s fs IH. destruct s; [reflexivity|]. cbn [representable field_inits]. apply IH.
  - intros s tag d vs _. destruct s; reflexivity.
  - intros n. destruct n; reflexivity.
  - intros t IHt r IHr n. destruct n as [|n]; [reflexivity|]. cbn [repeat].
    rewrite representable_fields_cons, IHt, IHr. reflexivity.
  - exact I.
  - intros fs _ r _. exact I.
Qed.

Lemma representable_default t : representable t IDefault = true.
Proof. apply representable_default_mut. Qed.

Theorem default_in_place_ok t : wf t = true -> narrow_ty t = true -> init_ok t IDefault = true ->
  forall pv a buf, aligned a (align t) = true -> extent t IDefault <= blen buf ->
    let r := default_in_place pv t a buf in
    snd r = Ok tt /\
    blen (fst r) = blen buf /\
    validate t a (fst r) = Ok tt /\
    (exists v, view t (fst r) = Ok v /\ spec_value t IDefault = Some (strip v)) /\
    size_m t (fst r) = Ok (extent t IDefault).
Proof.
  intros Hw Hn Hi pv a buf Ha He r.
  assert (Hok : snd r = Ok tt).
  { apply (emplace_ok_iff t IDefault Hw Hn Hi eq_refl pv a buf).
    split; [exact Ha|]. split; [apply representable_default|exact He]. }
  destruct r as [buf' res] eqn:Er. cbn [fst snd] in *. subst res.
  split; [reflexivity|]. exact (emplace_reads_back t IDefault Hw Hn Hi eq_refl pv a buf buf' Er).
Qed.

(* what default_in_place leaves does not depend on what the buffer held (nor on the padding policy) *)
Theorem default_independent_of_buffer t : wf t = true -> narrow_ty t = true -> init_ok t IDefault = true ->
  forall pv1 pv2 a buf1 buf2, aligned a (align t) = true ->
    blen buf1 = blen buf2 -> extent t IDefault <= blen buf1 ->
    let r1 := default_in_place pv1 t a buf1 in
    let r2 := default_in_place pv2 t a buf2 in
    snd r1 = Ok tt /\ snd r2 = Ok tt /\
    size_m t (fst r1) = size_m t (fst r2) /\
    exists v1 v2, view t (fst r1) = Ok v1 /\ view t (fst r2) = Ok v2 /\ strip v1 = strip v2.
Proof.
  intros Hw Hn Hi pv1 pv2 a buf1 buf2 Ha Hb He.
  destruct (default_in_place_ok t Hw Hn Hi pv1 a buf1 Ha He) as (A1 & _ & _ & (v1 & A4 & A5) & A6).
  destruct (default_in_place_ok t Hw Hn Hi pv2 a buf2 Ha ltac:(lia)) as (B1 & _ & _ & (v2 & B4 & B5) & B6).
  cbv zeta. split; [exact A1|]. split; [exact B1|]. split; [rewrite A6, B6; reflexivity|].
  exists v1, v2. split; [exact A4|]. split; [exact B4|]. rewrite A5 in B5. injection B5 as B5. exact B5.
Qed.

(* the default states of the containers, structs and enums *)
Theorem default_states :
  (forall t l, spec_value (TVec t l) IDefault = Some (VCont 0 [])) /\
  (forall l, spec_value (TStr l) IDefault = Some (VCont 0 [])) /\
  (forall t l, spec_value (TFlex t l) IDefault = Some (VNode 0 [])) /\
  (forall s fs, spec_value (TStruct s fs) IDefault =
                spec_value (TStruct s fs) (ISeq (repeat IDefault (N.to_nat (flen fs))))) /\
  (forall s tag d vs, spec_value (TEnum s tag d vs) IDefault = spec_value (TEnum s tag d vs) (IVar d [])).
Proof.
  repeat split; try reflexivity.
  intros s fs. cbn [spec_value]. rewrite field_inits_default. reflexivity.
Qed.

(* the default state has the smallest size() possible for the type *)
Lemma default_extent_min_mut :
  (forall t, wf t = true -> init_ok t IDefault = true -> extent t IDefault = min_size t) /\
  (forall fs, fs <> FNil -> wfF fs -> forall n pos vs, spec_fields fs (repeat IDefault n) = Some vs ->
      extent_fields fs (repeat IDefault n) pos = end_min fs pos) /\
  (forall vs, wf_variants false vs = true -> forall k fvs, spec_variant vs k [] = Some fvs ->
      extent_variant vs k [] = 0 /\ min_data_min_size vs = 0).
Proof.
  apply ty_mutind.
  - reflexivity.
  - intros it _ _. reflexivity.
  - reflexivity.
  - intros tag n d _ _. reflexivity.
  - intros t _ n _ _. reflexivity.
  - intros t _ l Hw _. pose proof (vec_consts t l Hw) as (HA & _ & HdA & _).
    cbn [extent min_size]. change (umax (isize l) (align t)) with (vec_data_offset t l).
    rewrite N.mul_0_r, N.add_0_r. apply ceil_mul_id; auto.
  - intros l Hw _. cbn [wf] in Hw. pose proof (wf_int_ialign_le _ Hw) as (_ & _ & HA).
    cbn [extent min_size]. rewrite N.add_0_r. apply ceil_mul_id; auto. apply wf_int_size_mod_align. exact Hw.
  - intros t _ l _ _. reflexivity.
  - intros s fs IH Hw Hi. destruct s; [reflexivity|].
    destruct (wf_struct_wfF _ _ Hw) as [Hnil|Hf]; [subst fs; discriminate Hw|].
    assert (Hne : fs <> FNil) by (intros ->; discriminate Hw).
    unfold init_ok in Hi. cbn [spec_value field_inits] in Hi. cbn [extent min_size field_inits].
    destruct (spec_fields fs (repeat IDefault (N.to_nat (flen fs)))) as [vs|] eqn:Es; [|discriminate].
    rewrite (IH Hne Hf _ 0 vs Es). rewrite fold_min_size_0 by exact Hne. reflexivity.
  - intros s tag d vs IH Hw Hi. destruct s; [reflexivity|].
    apply wf_enum_inv in Hw. destruct Hw as (_ & _ & _ & _ & _ & Hwv).
    unfold init_ok in Hi. cbn [spec_value] in Hi. cbn [extent min_size].
    destruct (spec_variant vs (N.to_nat d) []) as [fvs|] eqn:Es; [|discriminate].
    destruct (IH Hwv _ _ Es) as [E1 E2]. rewrite E1, E2. reflexivity.
  - intros H. congruence.
  - intros t IHt r IHr _ Hf n pos vs Hs. apply wfF_cons in Hf. destruct Hf as [Hwt Hr].
    destruct n as [|n]; [discriminate|]. cbn [repeat] in *. rewrite spec_fields_cons in Hs.
    destruct (spec_value t IDefault) as [v|] eqn:Ev; [|discriminate].
    destruct (spec_fields r (repeat IDefault n)) as [vr|] eqn:Er; [|discriminate].
    destruct r as [|t' r'].
    + cbn [extent_fields end_min]. rewrite IHt; auto. unfold init_ok. rewrite Ev. reflexivity.
    + destruct Hr as [Hr|[_ Hr]]; [discriminate|].
      rewrite extent_fields_cons2, end_min_cons2. eapply IHr; eauto. congruence.
  - intros _ k fvs H. discriminate.
  - intros fs IHf r IHr Hw k fvs Hs. apply wf_variants_cons in Hw. destruct Hw as [Hf Hr].
    destruct (min_data_min_size_cons fs r) as [H1 H2].
    destruct k as [|k']; cbn [spec_variant extent_variant] in *.
    + destruct fs as [|t0 r0]; [|discriminate]. cbn [extent_fields fold_min_size] in *. split; [reflexivity|lia].
    + assert (Hne : r <> VNil) by (intros ->; discriminate).
      destruct (IHr Hr _ _ Hs) as [E1 E2]. specialize (H2 Hne). split; [exact E1|lia].
Qed.

Theorem default_extent_min t : wf t = true -> init_ok t IDefault = true -> extent t IDefault = min_size t.
Proof. apply default_extent_min_mut. Qed.

(* ---------- 13. assign_in_place ---------- *)

Theorem assign_in_place_ok t i : wf t = true -> narrow_ty t = true ->
  init_ok t i = true -> utf8_init i = true ->
  forall pv a bs, validate t a bs = Ok tt ->
    let r := assign_in_place pv t i a bs in
    is_crash (snd r) = false /\
    blen (fst r) = blen bs /\
    (snd r = Ok tt ->
       validate t a (fst r) = Ok tt /\
       (exists v, view t (fst r) = Ok v /\ spec_value t i = Some (strip v)) /\
       size_m t (fst r) = Ok (extent t i)) /\
    (forall k p, snd r = Err k p -> k = InsufficientSize).
Proof.
  intros Hw Hn Hi Hu pv a bs Hv.
  destruct (as_bytes_roundtrip t a bs Hw Hv) as (n & k & Hbl & Hsz & Hnb & Hkn & _).
  pose proof Hv as Hv0. apply validate_inv in Hv0. destruct Hv0 as (Hc & Hm & Hvu).
  destruct (T1_size t a bs k Hw Hm Hvu Hsz) as (_ & _ & Hmk).
  assert (Ha : aligned a (align t) = true).
  { unfold check_align_min in Hc. destruct (aligned a (align t)); [reflexivity|discriminate]. }
  unfold assign_in_place. rewrite Hbl. unfold on_slice. rewrite take_0, drop_0, N.add_0_l. cbn [app].
  assert (Htl : blen (take n bs) = n) by (apply blen_take_le; exact Hnb).
  destruct (emplace_u_ok t Hw Hn pv i a (take n bs) Hi Hu Ha ltac:(lia)) as (H1 & H2 & H3 & _ & H5).
  set (rr := emplace_u pv t i a (take n bs)) in *. cbv zeta. cbn [fst snd].
  assert (HB : blen (fst rr ++ drop n bs) = blen bs) by (rewrite blen_app, blen_drop; lia).
  split; [exact H1|]. split; [exact HB|]. split; [|exact H5].
  intros Hok. specialize (H3 Hok).
  assert (Hg : good t i a (fst rr ++ drop n bs)).
  { destruct (good_extent_le t i a (fst rr) Hw ltac:(lia) H3) as (He & _ & _).
    apply (good_local t i a (fst rr)); auto; try lia. apply take_app_le. exact He. }
  destruct Hg as (Hv' & Hview & Hsz'). split; [|split; [exact Hview|exact Hsz']].
  unfold validate, check_align_min. rewrite Ha, HB. cbn [negb].
  destruct (N.ltb_spec (blen bs) (min_size t)); [lia|]. cbn [bind]. exact Hv'.
Qed.

(* ---------- 14. why the string literals have to be UTF-8 ---------- *)

(* FromStr copies the bytes it is given; a Rust &str is UTF-8 by construction, the model's byte list
   need not be: without the condition utf8_init the emplacer still succeeds but the result does not
   validate *)
Example utf8_condition_needed :
  let l8 := {| isize := 1; ialign := 1; ibe := false |} in
  let r := emplace None (TStr l8) (IStr [255]) 0 [0; 0; 0] in
  init_ok (TStr l8) (IStr [255]) = true /\ utf8_init (IStr [255]) = false /\
  r = ([1; 255; 0], Ok tt) /\ validate (TStr l8) 0 (fst r) = Err InvalidData 1.
Proof. vm_compute. repeat split; reflexivity. Qed.
