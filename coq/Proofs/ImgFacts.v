(* ImgFacts.v — C03 (image): a successful emplacement leaves exactly the reference image (ImgSpec.img) of
   the specified content in the first extent-many bytes of the buffer: every byte the encoding
   determines is the reference byte whatever the padding policy, and with padding left alone the
   buffer is the old buffer overlaid with the reference image.  The induction mirrors frame_mut
   (EmplaceFrameFacts.v) and uses emp_mut (EmplaceUnsizedFacts.v) as a black box. *)
From Coq Require Import List NArith Bool Lia ZArith ZifyN ZifyBool ZifyNat.
From Flatty.Model Require Import Base Ty Layout RefLayout Utf8 Validate View Emplace Portable.
From Flatty.Proofs Require Import ArithFacts LayoutFacts BytesFacts ValidateFacts FramingFacts ChainFacts
  ViewFacts PortableFacts OpsFacts VecOpsFacts EmplaceFacts EmplaceSpec PortableTyFacts EncFacts
  EmplaceUnsizedFacts EmplaceFrameFacts ImgSpec.
Open Scope N_scope.

(* ---------- 1. the relation "buf' is buf with the image m written over its head" ---------- *)

(* a determined byte of the image is in the result; a padding byte of the image keeps the old byte when
   the padding policy is "leave alone" (and is unconstrained otherwise); everything behind the image
   is the old buffer *)
Inductive irel (pv : option N) : mbytes -> bytes -> bytes -> Prop :=
| irel_nil buf : irel pv [] buf buf
| irel_some x m b buf buf' : irel pv m buf buf' -> irel pv (Some x :: m) (b :: buf) (x :: buf')
| irel_none m b b' buf buf' : (pv = None -> b' = b) -> irel pv m buf buf' ->
    irel pv (None :: m) (b :: buf) (b' :: buf').

Lemma mlen_nil : mlen [] = 0.
Proof. reflexivity. Qed.
Lemma mlen_cons o (m : mbytes) : mlen (o :: m) = 1 + mlen m.
Proof. unfold mlen. cbn [length]. lia. Qed.

Lemma take_mlen_cons o (m : mbytes) (b : N) (buf : bytes) :
  take (mlen (o :: m)) (b :: buf) = b :: take (mlen m) buf.
Proof. unfold take, mlen. rewrite !Nat2N.id. reflexivity. Qed.
Lemma drop_mlen_cons o (m : mbytes) (b : N) (buf : bytes) :
  drop (mlen (o :: m)) (b :: buf) = drop (mlen m) buf.
Proof. unfold drop, mlen. rewrite !Nat2N.id. reflexivity. Qed.

Lemma irel_blen pv m buf buf' : irel pv m buf buf' -> blen buf' = blen buf /\ mlen m <= blen buf.
Proof.
  induction 1 as [buf|x m b buf buf' _ [IH1 IH2]|m b b' buf buf' _ _ [IH1 IH2]].
  - split; [reflexivity|]. rewrite mlen_nil. lia.
  - rewrite !blen_cons, mlen_cons. lia.
  - rewrite !blen_cons, mlen_cons. lia.
Qed.

Lemma irel_drop pv m buf buf' : irel pv m buf buf' -> drop (mlen m) buf' = drop (mlen m) buf.
Proof.
  induction 1 as [buf|x m b buf buf' _ IH|m b b' buf buf' _ _ IH].
  - reflexivity.
  - rewrite !drop_mlen_cons. exact IH.
  - rewrite !drop_mlen_cons. exact IH.
Qed.

Lemma irel_nth pv m buf buf' : irel pv m buf buf' ->
  forall j x, nth_error m j = Some (Some x) -> nth_error buf' j = Some x.
Proof.
  induction 1 as [buf|y m b buf buf' _ IH|m b b' buf buf' _ _ IH]; intros j x Hn.
  - destruct j; discriminate.
  - destruct j as [|j]; cbn [nth_error] in *; [injection Hn as ->; reflexivity | apply IH; exact Hn].
  - destruct j as [|j]; cbn [nth_error] in *; [discriminate | apply IH; exact Hn].
Qed.

Lemma irel_overlay_none m buf buf' : irel None m buf buf' -> buf' = overlay None m buf.
Proof.
  induction 1 as [buf|y m b buf buf' _ IH|m b b' buf buf' Hb _ IH].
  - reflexivity.
  - cbn [overlay]. rewrite <- IH. reflexivity.
  - cbn [overlay]. rewrite <- IH, (Hb eq_refl). reflexivity.
Qed.

Lemma irel_overlay pv m : forall buf, mlen m <= blen buf -> irel pv m buf (overlay pv m buf).
Proof.
  induction m as [|o m IH]; intros buf H.
  - rewrite overlay_nil. constructor.
  - destruct buf as [|b buf]; [rewrite mlen_cons, blen_nil in H; lia|].
    rewrite mlen_cons, blen_cons in H. destruct o as [x|]; cbn [overlay].
    + constructor. apply IH. lia.
    + constructor; [|apply IH; lia]. intros ->. reflexivity.
Qed.

(* sequencing: write m1, then m2 over what lies behind it *)
Lemma irel_seq pv m1 m2 buf b1 d2 : irel pv m1 buf b1 -> irel pv m2 (drop (mlen m1) b1) d2 ->
  irel pv (m1 ++ m2) buf (take (mlen m1) b1 ++ d2).
Proof.
  intros H. revert d2. induction H as [buf|x m b buf buf' _ IH|m b b' buf buf' Hb _ IH]; intros d2 H2.
  - exact H2.
  - rewrite drop_mlen_cons in H2. rewrite take_mlen_cons. cbn [app]. constructor. apply IH. exact H2.
  - rewrite drop_mlen_cons in H2. rewrite take_mlen_cons. cbn [app]. constructor; [exact Hb|]. apply IH. exact H2.
Qed.

(* juxtaposition: m1 over exactly b1, m2 over what follows *)
Lemma irel_app pv m1 m2 b1 b1' b2 b2' : irel pv m1 b1 b1' -> blen b1 = mlen m1 -> irel pv m2 b2 b2' ->
  irel pv (m1 ++ m2) (b1 ++ b2) (b1' ++ b2').
Proof.
  intros H. induction H as [buf|x m b buf buf' _ IH|m b b' buf buf' Hb _ IH]; intros Hl H2.
  - destruct buf; [exact H2|]. rewrite blen_cons, mlen_nil in Hl. lia.
  - rewrite blen_cons, mlen_cons in Hl. cbn [app]. constructor. apply IH; [lia|exact H2].
  - rewrite blen_cons, mlen_cons in Hl. cbn [app]. constructor; [exact Hb|]. apply IH; [lia|exact H2].
Qed.

(* a tail that nobody touches *)
Lemma irel_tail pv m b b' tl : irel pv m b b' -> irel pv m (b ++ tl) (b' ++ tl).
Proof.
  induction 1 as [buf|x m b buf buf' _ IH|m b b' buf buf' Hb _ IH].
  - constructor.
  - cbn [app]. constructor. exact IH.
  - cbn [app]. constructor; [exact Hb|exact IH].
Qed.

Lemma irel_pad_refl pv k : forall buf, N.of_nat k <= blen buf -> irel pv (repeat None k) buf buf.
Proof.
  induction k as [|k IH]; intros buf H.
  - constructor.
  - destruct buf as [|b buf]; [rewrite blen_nil in H; lia|]. rewrite blen_cons in H.
    cbn [repeat]. constructor; [reflexivity|]. apply IH. lia.
Qed.

(* padding behind the image that nobody writes *)
Lemma irel_pad pv m buf buf' n : irel pv m buf buf' -> n <= blen buf -> irel pv (pad n m) buf buf'.
Proof.
  intros H. unfold pad. revert n.
  induction H as [buf|x m b buf buf' _ IH|m b b' buf buf' Hb _ IH]; intros n Hn.
  - cbn [app]. apply irel_pad_refl. rewrite mlen_nil. lia.
  - cbn [app]. rewrite mlen_cons. rewrite blen_cons in Hn.
    replace (n - (1 + mlen m)) with ((n - 1) - mlen m) by lia. constructor. apply IH. lia.
  - cbn [app]. rewrite mlen_cons. rewrite blen_cons in Hn.
    replace (n - (1 + mlen m)) with ((n - 1) - mlen m) by lia. constructor; [exact Hb|]. apply IH. lia.
Qed.

(* a run of determined bytes *)
Lemma irel_known pv s buf : blen s <= blen buf -> irel pv (known s) buf (s ++ drop (blen s) buf).
Proof.
  intros H. unfold known. rewrite <- (overlay_some pv s buf H). apply irel_overlay.
  rewrite mlen_map_some. exact H.
Qed.

Lemma mlen_known s : mlen (known s) = blen s.
Proof. apply mlen_map_some. Qed.
Lemma mlen_int_img l v : mlen (int_img l v) = isize l.
Proof. unfold int_img. rewrite mlen_known. apply tb_len. Qed.

Lemma mlen_pad n m : mlen m <= n -> mlen (pad n m) = n.
Proof. intros H. unfold pad. rewrite mlen_app, mlen_repeat_none. lia. Qed.
Lemma pad_exact n m : n <= mlen m -> pad n m = m.
Proof.
  intros H. unfold pad. replace (N.to_nat (n - mlen m)) with O by lia. cbn [repeat]. apply app_nil_r.
Qed.
Lemma pad_to_pad n m : pad_to n m = pad n m.
Proof. reflexivity. Qed.

(* padding a juxtaposition pads its second part *)
Lemma pad_app p k (a e : mbytes) : mlen a = p -> pad (p + k) (a ++ e) = a ++ pad k e.
Proof.
  intros H. unfold pad. rewrite mlen_app, H, <- app_assoc.
  replace (p + k - (p + mlen e)) with (k - mlen e) by lia. reflexivity.
Qed.

(* an integer written at the head of a slot of n bytes *)
Lemma irel_int_slot pv l v n slot : isize l <= n -> n <= blen slot ->
  irel pv (pad n (int_img l v)) slot (to_bytes (ibe l) (isize l) v ++ drop (isize l) slot).
Proof.
  intros H1 H2. apply irel_pad; [|exact H2]. unfold int_img.
  rewrite <- (tb_len (ibe l) (isize l) v) at 3. apply irel_known. rewrite tb_len. lia.
Qed.

(* ---------- 2. the library's layout arithmetic is the reference layout ---------- *)

Lemma ru_align t off : wf t = true -> round_up off (c_align t) = ceil_mul off (align t).
Proof.
  intros Hw. rewrite <- (proj1 align_c_align_mut t). apply round_up_ceil, align_pos, Hw.
Qed.

Lemma c_align_max l t : N.max (ialign l) (c_align t) = umax (ialign l) (align t).
Proof. rewrite umax_spec, (proj1 align_c_align_mut t). reflexivity. Qed.

Lemma flex_os_c t l : wf (TFlex t l) = true -> round_up (isize l) (c_align t) = flex_offset_size t l.
Proof.
  intros Hw. apply wf_flex_inv in Hw. destruct Hw as [Hwt Hl]. unfold flex_offset_size.
  rewrite ru_align by auto. symmetry.
  apply max_pow2_is_ceil; [apply wf_int_P16 in Hl; tauto | apply align_P16; auto].
Qed.

(* ---------- 3. unfolding lemmas for img ---------- *)

Lemma img_struct_unfold s fs i :
  img (TStruct s fs) i =
  match field_inits i (flen fs) with
  | Some is =>
      match img_fields fs is [] with
      | Some m => Some (pad (if s then c_size (TStruct s fs) else round_up (mlen m) (c_align_fields fs)) m)
      | None => None
      end
  | None => None
  end.
Proof. reflexivity. Qed.

Definition img_enum_mk (s : bool) (tag : intty) (d : N) (vs : variants) (k : N) (is : list init) : option mbytes :=
  match img_variant vs (N.to_nat k) is with
  | Some body =>
      let m := pad (c_union_offset tag vs) (int_img tag k) ++ body in
      Some (pad (if s then c_size (TEnum s tag d vs)
                 else round_up (mlen m) (N.max (ialign tag) (c_align_variants vs))) m)
  | None => None
  end.

Lemma img_enum_unfold s tag d vs i :
  img (TEnum s tag d vs) i =
  match i with
  | IVar k is => img_enum_mk s tag d vs k is
  | IDefault => img_enum_mk s tag d vs d []
  | _ => None
  end.
Proof. destruct i; reflexivity. Qed.

Definition img_vec_mk (et : ty) (l : intty) (is : list init) : option mbytes :=
  match img_all (img et) is with
  | Some body =>
      let m := pad (c_vec_data_offset et l) (int_img l (N.of_nat (length is))) ++ body in
      Some (pad (round_up (mlen m) (N.max (ialign l) (c_align et))) m)
  | None => None
  end.

Lemma img_vec_unfold et l i :
  img (TVec et l) i =
  match i with
  | IEmpty | IDefault => img_vec_mk et l []
  | IVecArr is | IVecIter is => img_vec_mk et l is
  | _ => None
  end.
Proof. destruct i; reflexivity. Qed.

Lemma img_fields_cons t r i is m :
  img_fields (FCons t r) (i :: is) m =
  match img t i with
  | Some e => img_fields r is (pad (round_up (mlen m) (c_align t)) m ++ e)
  | None => None
  end.
Proof. reflexivity. Qed.

Lemma img_chain_cons2 l os A f i j r :
  img_chain l os A f i (j :: r) =
  match f i with
  | None => None
  | Some x =>
      let item := pad (round_up (mlen x) A) x in
      match img_chain l os A f j r with
      | Some y => Some (pad os (int_img l (os + mlen item)) ++ item ++ y)
      | None => None
      end
  end.
Proof. reflexivity. Qed.

Lemma img_chain_last l os A f i :
  img_chain l os A f i [] =
  match f i with
  | None => None
  | Some x => Some (pad os (int_img l (int_max l)) ++ pad (round_up (mlen x) A) x)
  end.
Proof. reflexivity. Qed.

(* ---------- 4. sized types: the model's ptr.write image is the reference image ---------- *)

Lemma img_all_concat t :
  (forall i m, enc_sized t i = Some m -> img t i = Some m) ->
  forall is m, concat_opt (map (enc_sized t) is) = Some m -> img_all (img t) is = Some m.
Proof.
  intros H. induction is as [|i r IH]; intros m Hm.
  - cbn [map concat_opt] in Hm. injection Hm as <-. reflexivity.
  - cbn [map concat_opt] in Hm. destruct (enc_sized t i) as [e|] eqn:Ee; [|discriminate].
    destruct (concat_opt (map (enc_sized t) r)) as [y|] eqn:Ey; [|discriminate].
    injection Hm as <-. cbn [img_all]. rewrite (H i e Ee), (IH y eq_refl). reflexivity.
Qed.

Lemma sized_img_enum_go tag d vs k is m :
  wf (TEnum true tag d vs) = true ->
  (forall k is m0 m, enc_variant vs k is m0 = Some m -> exists e, img_variant vs k is = Some e /\ m = m0 ++ e) ->
  enc_enum_go tag d vs k is = Some m -> img_enum_mk true tag d vs k is = Some m.
Proof.
  intros Hw IH H. unfold enc_enum_go in H. destruct (k <? vlen vs); [|discriminate].
  destruct (enc_variant vs (N.to_nat k) is _) as [m1|] eqn:Ev; [|discriminate]. injection H as <-.
  destruct (IH _ _ _ _ Ev) as (e & He & ->). unfold img_enum_mk. rewrite He. cbv zeta.
  rewrite <- (ssize_c_size _ Hw eq_refl), <- (data_offset_c _ _ _ _ Hw). reflexivity.
Qed.

Lemma sized_img_mut :
  (forall t, wf t = true -> sized t = true -> forall i m, enc_sized t i = Some m -> img t i = Some m) /\
  (forall fs, wf_fields_sized fs = true ->
     forall is m0 m, enc_fields fs is m0 = Some m -> img_fields fs is m0 = Some m) /\
  (forall vs, wf_variants true vs = true ->
     forall k is m0 m, enc_variant vs k is m0 = Some m -> exists e, img_variant vs k is = Some e /\ m = m0 ++ e).
Proof.
  apply ty_mutind.
  - (* TUnit *) intros _ _ i m H. exact H.
  - (* TInt *) intros it _ _ i m H. exact H.
  - (* TBool *) intros _ _ i m H. exact H.
  - (* TCLike *) intros tag n d _ _ i m H. exact H.
  - (* TArr *) intros t IH n Hw _ i m H. apply wf_arr_inv in Hw. destruct Hw as [Hwt Hst].
    cbn [enc_sized] in H. cbn [img]. destruct (field_inits i n) as [is|]; [|discriminate].
    apply (img_all_concat t (IH Hwt Hst) is m H).
  - intros t _ l _ Hs. discriminate.
  - intros l _ Hs. discriminate.
  - intros t _ l _ Hs. discriminate.
  - (* TStruct *) intros s fs IH Hw Hs i m H. cbn [sized] in Hs. subst s.
    rewrite enc_sized_struct in H. rewrite img_struct_unfold.
    destruct (field_inits i (flen fs)) as [is|]; [|discriminate].
    destruct (enc_fields fs is []) as [m1|] eqn:Ee; [|discriminate]. injection H as <-.
    rewrite (IH Hw _ _ _ Ee). rewrite <- (ssize_c_size _ Hw eq_refl). reflexivity.
  - (* TEnum *) intros s tag d vs IH Hw Hs i m H. cbn [sized] in Hs. subst s.
    pose proof (wf_enum_inv _ _ _ _ Hw) as (_ & _ & _ & _ & _ & Hwv).
    rewrite enc_sized_enum in H. rewrite img_enum_unfold.
    destruct i as [v|is0|k0 is0|is0|is0|s0|is0| |]; try discriminate.
    + apply (sized_img_enum_go tag d vs k0 is0 m Hw (IH Hwv) H).
    + apply (sized_img_enum_go tag d vs d [] m Hw (IH Hwv) H).
  - (* FNil *) intros _ is m0 m H. destruct is; [exact H|discriminate].
  - (* FCons *) intros t IHt r IHr Hw is m0 m H. apply wf_fields_sized_cons in Hw.
    destruct Hw as (Hwt & Hst & Hwr). destruct is as [|i is']; [discriminate|].
    rewrite enc_fields_cons in H. rewrite img_fields_cons.
    destruct (enc_sized t i) as [e|] eqn:Ee; [|discriminate].
    rewrite (IHt Hwt Hst _ _ Ee). rewrite (ru_align t _ Hwt). apply (IHr Hwr). exact H.
  - (* VNil *) intros _ k is m0 m H. discriminate.
  - (* VCons *) intros fs IHf r IHr Hw k is m0 m H. apply wf_variants_sized_cons in Hw.
    destruct Hw as [Hwf Hwr]. cbn [enc_variant] in H. destruct k as [|k'].
    + destruct (field_inits (ISeq is) (flen fs)) as [is'|] eqn:Ef; [|discriminate].
      cbn [field_inits] in Ef. destruct (N.of_nat (length is) =? flen fs); [|discriminate].
      injection Ef as <-.
      destruct (enc_fields fs is []) as [e|] eqn:Ee; [|discriminate]. injection H as <-.
      exists e. cbn [img_variant]. split; [apply (IHf Hwf); exact Ee|reflexivity].
    + cbn [img_variant]. apply (IHr Hwr). exact H.
Qed.

Theorem sized_image_is_reference_image t i m : wf t = true -> sized t = true ->
  enc_sized t i = Some m -> img t i = Some m.
Proof. intros Hw Hs. apply (proj1 sized_img_mut t Hw Hs). Qed.

(* ---------- 5. the statement of the induction ---------- *)

Definition IM (t : ty) : Prop := forall pv i a buf buf',
  init_ok t i = true -> utf8_init i = true -> aligned a (align t) = true -> min_size t <= blen buf ->
  emplace_u pv t i a buf = (buf', Ok tt) ->
  exists m, img t i = Some m /\ mlen m = extent t i /\ irel pv m buf buf'.

(* [m0] = the image of the fields before; the head field sits at [pos] = |m0| rounded up to its alignment *)
Definition IMF (fs : fields) : Prop := forall pv is a data pos a0 d' m0,
  (exists vs, spec_fields fs is = Some vs) -> forallb utf8_init is = true ->
  a = a0 + pos -> a0 mod align_fields fs = 0 -> pos mod head_align fs = 0 ->
  end_min fs pos <= pos + blen data ->
  emplace_fields pv fs is a data pos = (d', Ok tt) ->
  ceil_mul (mlen m0) (head_align fs) = pos ->
  exists m1, img_fields fs is m0 = Some (pad pos m0 ++ m1) /\ pos + mlen m1 = extent_fields fs is pos /\
             irel pv m1 data d'.

Definition IMV (vs : variants) : Prop := forall pv k is a data tag kv tagb r',
  (exists fvs, spec_variant vs k is = Some fvs) -> forallb utf8_init is = true ->
  a mod align_variants vs = 0 -> isize tag <= blen tagb ->
  emplace_variant pv vs k is a data tag kv tagb = (r', Ok tt) ->
  exists m1 d', img_variant vs k is = Some m1 /\ mlen m1 = extent_variant vs k is /\
    r' = (to_bytes (ibe tag) (isize tag) kv ++ drop (isize tag) tagb) ++ d' /\ irel pv m1 data d'.

(* ---------- 6. sized types ---------- *)

Lemma im_sized t : wf t = true -> sized t = true -> IM t.
Proof.
  intros Hw Hs pv i a buf buf' _ _ _ _ H. rewrite emplace_u_sized in H by exact Hs.
  destruct (enc_sized t i) as [m|] eqn:Em; [|discriminate H].
  destruct (enc_sized_valid t i m Hw Hs Em) as [Hl _].
  unfold write_masked in H. destruct (N.leb_spec (mlen m) (blen buf)) as [Hle|Hgt]; [|discriminate H].
  cbn [ok] in H. injection H as <-. exists m. split; [apply sized_image_is_reference_image; auto|].
  split; [rewrite (sized_extent t i Hs); exact Hl|]. apply irel_overlay. exact Hle.
Qed.

(* ---------- 7. FlatVec ---------- *)

Lemma vec_items_img pv et l buf is chk vs buf' :
  wf (TVec et l) = true -> narrow l = true -> opt_map_all (spec_value et) is = Some vs ->
  vec_items pv et l buf is chk = (buf', Ok tt) ->
  exists body, img_all (img et) is = Some body /\ mlen body = ssize et * N.of_nat (length is) /\
    irel pv (pad (vec_data_offset et l) (int_img l (N.of_nat (length is))) ++ body) buf buf'.
Proof.
  intros Hw Hn Hspec H.
  pose proof (vec_consts et l Hw) as (HA & Hld & HdA & Hd0).
  pose proof Hw as Hw0. apply wf_vec_inv in Hw0. destruct Hw0 as (Hwt & Hst & Hl).
  destruct (elems_encs et Hwt Hst is vs Hspec) as (encs & Hencs & Hlen & Hall & Hcat).
  pose proof (img_all_concat et (proj1 sized_img_mut et Hwt Hst) is _ Hcat) as Hbody.
  destruct (arr_image et (proj1 enc_sized_valid_core et Hwt Hst) is (concat encs) Hcat) as [Hml _].
  assert (Hm : vec_data_offset et l <= blen buf).
  { destruct (N.le_gt_cases (vec_data_offset et l) (blen buf)) as [Hle|Hgt]; [exact Hle|].
    exfalso. unfold vec_items, vec_slots in H. rewrite Hencs in H.
    destruct (N.ltb_spec (blen buf) (vec_data_offset et l)); [|lia]. cbn [bind] in H. discriminate H. }
  pose proof (vec_slots_ok et l (blen buf) Hm) as Hsl.
  set (slots := if ssize et =? 0 then 0 else floor_mul (blen buf - vec_data_offset et l) (align (TVec et l)) / ssize et) in *.
  pose proof (vec_slots_room et l (blen buf) slots Hsl) as Hroom.
  set (n := N.of_nat (length is)) in *.
  set (d := vec_data_offset et l) in *. set (s := ssize et) in *.
  pose proof (floor_mul_le (blen buf - d) _ HA) as Hfl.
  revert H. unfold vec_items. rewrite Hencs, Hsl. cbn [bind]. rewrite (clamp_cap_ok l slots Hn).
  cbv zeta. rewrite Hlen. fold n.
  set (cap := umin slots (int_max l)) in *.
  assert (Hcs : cap <= slots) by (unfold cap; rewrite umin_spec; slia).
  rewrite write_int_ok by slia. cbn [ebind].
  assert (Hfitall : Forall (fun e => mlen e = s) (firstn (N.to_nat cap) encs)).
  { apply Forall_forall. intros e He. rewrite Forall_forall in Hall. apply Hall.
    rewrite <- (firstn_skipn (N.to_nat cap) encs). apply in_or_app. left. exact He. }
  assert (Hfitlen : N.of_nat (length (firstn (N.to_nat cap) encs)) = N.min cap n).
  { rewrite firstn_length. unfold n. slia. }
  rewrite (vec_fill_from0 pv et l buf _ Hld Hm Hfitall).
  2:{ rewrite Hfitlen. fold s d. assert (N.min cap n * s <= slots * s) by (apply N.mul_le_mono_r; slia). slia. }
  cbn [ebind ok]. rewrite Hfitlen. fold d.
  destruct (N.ltb_spec cap n) as [Hc|Hc].
  { intros H. exfalso. destruct chk; cbn [andb] in H; discriminate H. }
  rewrite andb_false_r. intros H. injection H as <-.
  assert (Hfit : firstn (N.to_nat cap) encs = encs) by (apply firstn_all2; unfold n in Hc; slia).
  assert (Hmin : N.min cap n = n) by slia.
  rewrite Hfit, Hmin.
  assert (Hns : n * s <= blen buf - d).
  { assert (n * s <= slots * s) by (apply N.mul_le_mono_r; slia). slia. }
  exists (concat encs). split; [exact Hbody|]. split; [slia|].
  rewrite <- (take_drop d buf) at 1.
  assert (Htl : blen (take d buf) = d) by (apply blen_take_le; exact Hm).
  apply irel_app.
  - apply irel_int_slot; [exact Hld | slia].
  - rewrite Htl, mlen_pad; [reflexivity | rewrite mlen_int_img; exact Hld].
  - apply irel_overlay. rewrite blen_drop. slia.
Qed.

(* from the image of header and elements to the padded reference image *)
Lemma vec_img_finish pv et l is body buf buf' :
  wf (TVec et l) = true -> img_all (img et) is = Some body ->
  mlen body = ssize et * N.of_nat (length is) ->
  irel pv (pad (vec_data_offset et l) (int_img l (N.of_nat (length is))) ++ body) buf buf' ->
  ceil_mul (vec_data_offset et l + ssize et * N.of_nat (length is)) (align (TVec et l)) <= blen buf ->
  exists m, img_vec_mk et l is = Some m /\
    mlen m = ceil_mul (vec_data_offset et l + ssize et * N.of_nat (length is)) (align (TVec et l)) /\
    irel pv m buf buf'.
Proof.
  intros Hw Hb Hbl Hr Hext.
  pose proof (vec_consts et l Hw) as (HA & Hld & HdA & Hd0).
  unfold img_vec_mk. rewrite Hb. cbv zeta. rewrite <- (vec_data_offset_c et l Hw).
  rewrite c_align_max. change (umax (ialign l) (align et)) with (align (TVec et l)).
  rewrite round_up_ceil by exact HA.
  set (m := pad (vec_data_offset et l) (int_img l (N.of_nat (length is))) ++ body) in *.
  assert (Hm : mlen m = vec_data_offset et l + ssize et * N.of_nat (length is)).
  { unfold m. rewrite mlen_app, mlen_pad, Hbl; [reflexivity | rewrite mlen_int_img; exact Hld]. }
  rewrite Hm. eexists. split; [reflexivity|].
  pose proof (ceil_mul_ge (vec_data_offset et l + ssize et * N.of_nat (length is)) _ HA) as Hge.
  split; [apply mlen_pad; lia|]. apply irel_pad; [exact Hr|exact Hext].
Qed.

Lemma im_vec et l : wf (TVec et l) = true -> narrow_ty (TVec et l) = true -> IM (TVec et l).
Proof.
  intros Hw Hnt pv i a buf buf' Hi Hu Ha Hmin H.
  destruct (emp_ok_facts _ Hw Hnt pv i a buf buf' Hi Hu Ha Hmin H) as (_ & Hext & _).
  apply narrow_vec_inv in Hnt. destruct Hnt as [_ Hn].
  pose proof (vec_consts et l Hw) as (HA & Hld & HdA & Hd0).
  assert (Hdef : write_int l 0 buf = (buf', Ok tt) ->
    ceil_mul (vec_data_offset et l + ssize et * 0) (align (TVec et l)) <= blen buf ->
    exists m, img_vec_mk et l [] = Some m /\
      mlen m = ceil_mul (vec_data_offset et l + ssize et * 0) (align (TVec et l)) /\ irel pv m buf buf').
  { intros Hwr He. apply write_int_inv in Hwr. destruct Hwr as [Hle ->].
    apply (vec_img_finish pv et l [] [] buf _ Hw eq_refl); [cbn [length]; rewrite mlen_nil; lia| |exact He].
    rewrite app_nil_r. cbn [length]. apply irel_int_slot; [exact Hld|].
    pose proof (ceil_mul_ge (vec_data_offset et l + ssize et * 0) _ HA). lia. }
  assert (Hitems : forall is chk, (exists vs, opt_map_all (spec_value et) is = Some vs) ->
    vec_items pv et l buf is chk = (buf', Ok tt) ->
    ceil_mul (vec_data_offset et l + ssize et * N.of_nat (length is)) (align (TVec et l)) <= blen buf ->
    exists m, img_vec_mk et l is = Some m /\
      mlen m = ceil_mul (vec_data_offset et l + ssize et * N.of_nat (length is)) (align (TVec et l)) /\
      irel pv m buf buf').
  { intros is chk [vs Es] Hv He.
    destruct (vec_items_img pv et l buf is chk vs buf' Hw Hn Es Hv) as (body & Hb & Hbl & Hr).
    apply (vec_img_finish pv et l is body buf buf' Hw Hb Hbl Hr He). }
  rewrite img_vec_unfold. unfold init_ok in Hi.
  destruct i as [v|is0|k0 is0|is0|is0|s0|is0| |]; cbn [spec_value] in Hi; try discriminate.
  - destruct (opt_map_all (spec_value et) is0) as [vs|] eqn:Es; [|discriminate].
    rewrite emplace_u_vec_arr in H. cbn [extent] in Hext |- *. apply (Hitems is0 true); eauto.
  - destruct (opt_map_all (spec_value et) is0) as [vs|] eqn:Es; [|discriminate].
    rewrite emplace_u_vec_iter in H. cbn [extent] in Hext |- *. apply (Hitems is0 false); eauto.
  - cbn [emplace_u] in H. cbn [extent] in Hext |- *. apply Hdef; [exact H|exact Hext].
  - cbn [emplace_u] in H. cbn [extent] in Hext |- *. apply Hdef; [exact H|exact Hext].
Qed.

(* ---------- 8. FlatString ---------- *)

Definition img_str_mk (l : intty) (s : bytes) : option mbytes :=
  let m := int_img l (blen s) ++ known s in Some (pad (round_up (mlen m) (ialign l)) m).

Lemma img_str_unfold l i :
  img (TStr l) i =
  match i with
  | IEmpty | IDefault => img_str_mk l []
  | IStr s => img_str_mk l s
  | _ => None
  end.
Proof. destruct i; reflexivity. Qed.

Lemma im_str l : wf (TStr l) = true -> narrow_ty (TStr l) = true -> IM (TStr l).
Proof.
  intros Hw Hnt pv i a buf buf' Hi Hu Ha Hmin H.
  destruct (emp_ok_facts _ Hw Hnt pv i a buf buf' Hi Hu Ha Hmin H) as (_ & Hext & _).
  cbn [wf] in Hw. pose proof (wf_int_ialign_le _ Hw) as (_ & _ & HA).
  assert (Hfin : forall s, isize l + blen s <= blen buf ->
     ceil_mul (isize l + blen s) (ialign l) <= blen buf ->
     buf' = (to_bytes (ibe l) (isize l) (blen s) ++ s) ++ drop (isize l + blen s) buf ->
     exists m, img_str_mk l s = Some m /\ mlen m = ceil_mul (isize l + blen s) (ialign l) /\ irel pv m buf buf').
  { intros s Hs He ->. unfold img_str_mk. cbv zeta. eexists. split; [reflexivity|].
    rewrite mlen_app, mlen_int_img, mlen_known, round_up_ceil by exact HA.
    pose proof (ceil_mul_ge (isize l + blen s) _ HA) as Hge.
    split; [apply mlen_pad; rewrite mlen_app, mlen_int_img, mlen_known; lia|].
    apply irel_pad; [|exact He]. unfold int_img, known. rewrite <- map_app.
    replace (isize l + blen s) with (blen (to_bytes (ibe l) (isize l) (blen s) ++ s))
      by (rewrite blen_app, tb_len; reflexivity).
    apply irel_known. rewrite blen_app, tb_len. exact Hs. }
  assert (Hdef : write_int l 0 buf = (buf', Ok tt) -> ceil_mul (isize l + 0) (ialign l) <= blen buf ->
     exists m, img_str_mk l [] = Some m /\ mlen m = ceil_mul (isize l + 0) (ialign l) /\ irel pv m buf buf').
  { intros Hwr He. apply write_int_inv in Hwr. destruct Hwr as [Hle ->].
    apply (Hfin []); [rewrite blen_nil; lia | exact He |].
    rewrite blen_nil, app_nil_r, N.add_0_r. reflexivity. }
  rewrite img_str_unfold. unfold init_ok in Hi.
  destruct i as [v|is0|k0 is0|is0|is0|s|is0| |]; cbn [spec_value] in Hi; try discriminate Hi;
    [|cbn [emplace_u] in H; cbn [extent] in Hext |- *; apply Hdef; [exact H|exact Hext]
     |cbn [emplace_u] in H; cbn [extent] in Hext |- *; apply Hdef; [exact H|exact Hext]].
  cbn [extent] in Hext |- *. cbn [emplace_u] in H.
  destruct (do slots <- str_slots l (blen buf); clamp_cap l slots) as [cap|k p|c]; try discriminate H.
  destruct (cap <? blen s); [discriminate H|].
  apply ebind_ok_inv in H. destruct H as (b0 & H0 & H).
  apply ebind_ok_inv in H. destruct H as (b1 & H1 & H).
  apply lift_ok_inv in H1.
  apply write_int_inv in H0. destruct H0 as [Hle0 ->].
  apply write_int_inv in H. destruct H as [Hle1 ->].
  set (tb0 := to_bytes (ibe l) (isize l) 0) in *.
  assert (Htb0 : blen tb0 = isize l) by apply tb_len.
  unfold write_at in H1. rewrite blen_app, Htb0, blen_drop in H1.
  destruct (N.leb_spec (isize l + blen s) (isize l + (blen buf - isize l))) as [Hfit|Hfit]; [|discriminate H1].
  injection H1 as <-.
  pose proof (ceil_mul_ge (isize l + blen s) _ HA) as Hge.
  apply Hfin; [lia | exact Hext |].
  rewrite take_app_len by exact Htb0. rewrite drop_app_len by exact Htb0.
  rewrite drop_app_ge by lia. rewrite Htb0, drop_drop. rewrite <- app_assoc. f_equal. f_equal. f_equal. lia.
Qed.

(* ---------- 9. generated Init of an unsized struct / enum variant ---------- *)

Lemma imf_single t : wf t = true -> IM t -> IMF (FCons t FNil).
Proof.
  intros Hw IH pv is a data pos a0 d' m0 [vs Hs] Hu Ea Ha0 Hpos Hend H Hm0.
  destruct is as [|i is']; [discriminate|]. cbn [spec_fields] in Hs.
  destruct (spec_value t i) as [v|] eqn:Ev; [|discriminate].
  destruct is' as [|i2 is2]; [|discriminate]. clear Hs.
  cbn [forallb] in Hu. rewrite andb_true_r in Hu.
  cbn [end_min] in Hend. cbn [align_fields head_align] in Ha0, Hpos, Hm0.
  pose proof (align_P16 t Hw) as Hp. pose proof (P16_pos _ Hp) as Hal.
  assert (Haa : aligned a (align t) = true).
  { apply aligned_iff. subst a. apply mod_add_mult; auto.
    apply mod_trans with (m := umax (align t) 1); auto.
    - apply P16_pos, P16_umax; auto. left; reflexivity.
    - apply P16_umax_mod_l; auto. left; reflexivity. }
  assert (Hi : init_ok t i = true) by (unfold init_ok; rewrite Ev; reflexivity).
  rewrite emplace_fields_single in H.
  destruct (IH pv i a data d' Hi Hu Haa ltac:(slia) H) as (e & He & Hl & Hr).
  exists e. rewrite img_fields_cons, He, (ru_align t _ Hw), Hm0. cbn [img_fields].
  split; [reflexivity|]. split; [cbn [extent_fields]; lia | exact Hr].
Qed.

Lemma imf_cons2 t t' r : wf t = true -> narrow_ty t = true -> sized t = true -> wfF (FCons t' r) ->
  IM t -> IMF (FCons t' r) -> IMF (FCons t (FCons t' r)).
Proof.
  intros Hw Hnt Hst Hfr IHt IHr pv is a data pos a0 d' m0 [vs Hs] Hu Ea Ha0 Hpos Hend H Hm0.
  destruct is as [|i is']; [discriminate|]. rewrite spec_fields_cons in Hs.
  destruct (spec_value t i) as [v|] eqn:Ev; [|discriminate].
  destruct (spec_fields (FCons t' r) is') as [vr|] eqn:Er; [|discriminate]. clear Hs.
  cbn [forallb] in Hu. apply andb_true_iff in Hu. destruct Hu as [Hui Hur].
  rewrite end_min_cons2 in Hend.
  pose proof (end_min_ge _ Hfr (pos_next pos t t')) as Hge.
  cbn [head_align] in Hpos, Hm0.
  pose proof (align_P16 t Hw) as Hp. pose proof (P16_pos _ Hp) as Hal.
  pose proof (align_fields_P16 (FCons t' r) (or_intror Hfr)) as Hpr. pose proof (P16_pos _ Hpr) as Halr.
  destruct (wfF_cons _ _ Hfr) as [Hwt' _].
  pose proof (align_P16 t' Hwt') as Hp'. pose proof (P16_pos _ Hp') as Hal'.
  change (align_fields (FCons t (FCons t' r))) with (umax (align t) (align_fields (FCons t' r))) in Ha0.
  assert (Hum : 0 < umax (align t) (align_fields (FCons t' r))) by (apply P16_pos, P16_umax; auto).
  assert (Haa : aligned a (align t) = true).
  { apply aligned_iff. subst a. apply mod_add_mult; auto.
    apply mod_trans with (m := umax (align t) (align_fields (FCons t' r))); auto.
    apply P16_umax_mod_l; auto. }
  assert (Ha0r : a0 mod align_fields (FCons t' r) = 0).
  { apply mod_trans with (m := umax (align t) (align_fields (FCons t' r))); auto.
    apply P16_umax_mod_r; auto. }
  assert (Hi : init_ok t i = true) by (unfold init_ok; rewrite Ev; reflexivity).
  pose proof (ceil_mul_ge (mlen m0) (align t) Hal) as Hm0le. rewrite Hm0 in Hm0le.
  rewrite emplace_fields_cons2 in H. cbv zeta in H.
  rewrite extent_fields_cons2.
  set (np := pos_next pos t t') in *.
  assert (Hnp : pos + ssize t <= np) by (unfold np, pos_next; apply ceil_mul_ge; exact Hal').
  assert (Hnpm : np mod align t' = 0) by (unfold np, pos_next; apply ceil_mul_mod; exact Hal').
  destruct (N.ltb_spec (blen data) (np - pos)) as [Hc|Hc]; [discriminate H|].
  set (piece := take (np - pos) data) in *. set (rest := drop (np - pos) data) in *.
  assert (Hpl : blen piece = np - pos) by (unfold piece; apply blen_take_le; exact Hc).
  assert (Hrl : blen rest = blen data - (np - pos)) by (unfold rest; apply blen_drop).
  pose proof (min_size_sized t Hst) as Hmin.
  destruct (emplace_u pv t i a piece) as [piece' res] eqn:Ee.
  destruct res as [[]|k p|c]; try discriminate H.
  destruct (IHt pv i a piece piece' Hi Hui Haa ltac:(slia) Ee) as (e & He & Hle & Hre).
  rewrite (sized_extent t i Hst) in Hle.
  destruct (emplace_fields pv (FCons t' r) is' (a + (np - pos)) rest np) as [rd rres] eqn:Err.
  cbn [fst snd] in H. injection H as <- ->.
  set (M := pad pos m0 ++ e).
  assert (HM : mlen M = pos + ssize t) by (unfold M; rewrite mlen_app, mlen_pad, Hle by exact Hm0le; reflexivity).
  assert (HMnp : ceil_mul (mlen M) (head_align (FCons t' r)) = np) by (rewrite HM; reflexivity).
  destruct (IHr pv is' (a + (np - pos)) rest np a0 rd M (ex_intro _ vr Er) Hur ltac:(slia) Ha0r Hnpm
              ltac:(slia) Err HMnp) as (m1' & Hm1 & Hl1 & Hr1).
  exists (pad (np - pos) e ++ m1').
  rewrite img_fields_cons, He, (ru_align t _ Hw), Hm0. fold M. rewrite Hm1. split; [|split].
  - f_equal. unfold M. replace np with (pos + (np - pos)) at 1 by slia.
    rewrite pad_app by (apply mlen_pad; exact Hm0le). rewrite <- app_assoc. reflexivity.
  - rewrite mlen_app, mlen_pad by slia. slia.
  - fold piece rest. rewrite <- (take_drop (np - pos) data). fold piece rest.
    apply irel_app; [apply irel_pad; [exact Hre|slia] | rewrite mlen_pad; slia | exact Hr1].
Qed.

Lemma imv_here fs r pv is a data tag kv tagb r' :
  (fs = FNil \/ (wfF fs /\ IMF fs)) ->
  (exists fvs, spec_fields fs is = Some fvs) -> forallb utf8_init is = true ->
  a mod align_fields fs = 0 -> isize tag <= blen tagb ->
  emplace_variant pv (VCons fs r) O is a data tag kv tagb = (r', Ok tt) ->
  exists m1 d', img_fields fs is [] = Some m1 /\ mlen m1 = extent_fields fs is 0 /\
    r' = (to_bytes (ibe tag) (isize tag) kv ++ drop (isize tag) tagb) ++ d' /\ irel pv m1 data d'.
Proof.
  intros Hfs [fvs Hs] Hu Ha Ht H.
  rewrite emplace_variant_here, (field_inits_seq_ok fs is fvs Hs) in H. cbv zeta in H.
  set (hdr := to_bytes (ibe tag) (isize tag) kv ++ drop (isize tag) tagb) in *.
  destruct fs as [|t0 r0].
  - rewrite write_int_ok in H by exact Ht. cbn [emplace_fields ok fst snd] in H. fold hdr in H.
    injection H as <-. destruct is as [|i0 is0]; [|discriminate Hs].
    exists [], data. cbn [img_fields extent_fields]. split; [reflexivity|]. split; [reflexivity|].
    split; [reflexivity|constructor].
  - destruct Hfs as [Hnil|[Hf IH]]; [discriminate|].
    assert (Hne : FCons t0 r0 <> FNil) by congruence.
    set (fs := FCons t0 r0) in *.
    apply aligned_iff in Ha. rewrite Ha in H. cbn [negb] in H.
    destruct (N.ltb_spec (blen data) (fold_min_size 0 fs)) as [Hc|Hc]; [discriminate H|].
    rewrite write_int_ok in H by exact Ht. fold hdr in H.
    destruct (emplace_fields pv fs is a data 0) as [rd rres] eqn:Er.
    cbn [fst snd] in H. injection H as <- ->.
    assert (P4 : 0 mod head_align fs = 0).
    { apply N.mod_0_l. unfold fs. cbn [head_align]. destruct (wfF_cons _ _ Hf) as [Hw0 _].
      pose proof (align_pos _ Hw0). slia. }
    assert (P5 : end_min fs 0 <= 0 + blen data) by (rewrite <- fold_min_size_0 by exact Hne; slia).
    assert (P3 : a mod align_fields fs = 0) by (apply aligned_iff; exact Ha).
    destruct (IH pv is a data 0 a rd [] (ex_intro _ fvs Hs) Hu ltac:(slia) P3 P4 P5 Er (ceil_mul_0 _))
      as (m1 & Hm1 & Hl1 & Hr1).
    change (pad 0 [] ++ m1) with m1 in Hm1.
    exists m1, rd. split; [exact Hm1|]. split; [slia|]. split; [reflexivity|exact Hr1].
Qed.

Lemma imv_step fs r : (fs = FNil \/ (wfF fs /\ IMF fs)) -> wf_variants false (VCons fs r) = true ->
  IMV r -> IMV (VCons fs r).
Proof.
  intros Hfs Hw IHr pv k is a data tag kv tagb r' Hs Hu Ha Ht H.
  apply wf_variants_cons in Hw. destruct Hw as [Hf Hr].
  pose proof (align_fields_P16 fs Hf) as Hpf. pose proof (align_variants_P16 _ _ Hr) as Hpr.
  cbn [align_variants] in Ha.
  assert (Hum : 0 < umax (align_fields fs) (align_variants r)) by (apply P16_pos, P16_umax; auto).
  destruct k as [|k'].
  - cbn [spec_variant] in Hs. cbn [extent_variant img_variant].
    apply (imv_here fs r pv is a data tag kv tagb r' Hfs Hs Hu); auto.
    apply mod_trans with (m := umax (align_fields fs) (align_variants r)); auto using P16_pos.
    apply P16_umax_mod_l; auto.
  - change (emplace_variant pv (VCons fs r) (S k') is a data tag kv tagb)
      with (emplace_variant pv r k' is a data tag kv tagb) in H.
    cbn [spec_variant] in Hs. cbn [extent_variant img_variant].
    assert (Har : a mod align_variants r = 0).
    { apply mod_trans with (m := umax (align_fields fs) (align_variants r)); auto using P16_pos.
      apply P16_umax_mod_r; auto. }
    exact (IHr pv k' is a data tag kv tagb r' Hs Hu Har Ht H).
Qed.

(* ---------- 10. unsized struct ---------- *)

Lemma im_struct fs : wf (TStruct false fs) = true -> narrow_ty (TStruct false fs) = true ->
  IMF fs -> IM (TStruct false fs).
Proof.
  intros Hw Hnt IH pv i a buf buf' Hi Hu Ha Hm H.
  destruct (emp_ok_facts _ Hw Hnt pv i a buf buf' Hi Hu Ha Hm H) as (Hbl & Hext & Hmod).
  destruct (wf_struct_wfF _ _ Hw) as [Hnil|Hf]; [subst fs; discriminate Hw|].
  assert (Hne : fs <> FNil) by (intros ->; discriminate Hw).
  pose proof (P16_pos _ (align_fields_P16 fs (or_intror Hf))) as Hal.
  unfold init_ok in Hi. cbn [spec_value] in Hi.
  destruct (field_inits i (flen fs)) as [is|] eqn:Ef; [|discriminate].
  destruct (spec_fields fs is) as [vs|] eqn:Es; [|discriminate]. clear Hi.
  pose proof (field_inits_utf8 _ _ _ Ef Hu) as Hui.
  cbn [align] in Ha, Hmod. cbn [min_size] in Hm.
  rewrite emplace_u_struct, Ef in H. cbv zeta in H. rewrite Ha in H. cbn [negb] in H.
  cbn [extent] in Hext |- *. rewrite Ef in Hext |- *.
  set (al := align_fields fs) in *. set (n0 := floor_mul (blen buf) al) in *.
  assert (Hn0 : fold_min_size 0 fs <= n0) by (apply ceil_le_floor; auto).
  pose proof (floor_mul_le (blen buf) al Hal) as Hnb. fold n0 in Hnb.
  destruct (N.ltb_spec n0 (fold_min_size 0 fs)); [discriminate H|].
  assert (Hdl : blen (take n0 buf) = n0) by (apply blen_take_le; exact Hnb).
  assert (P1 : exists vs0, spec_fields fs is = Some vs0) by eauto.
  assert (P2 : a = a + 0) by slia.
  assert (P3 : a mod al = 0) by (apply aligned_iff; exact Ha).
  assert (P4 : 0 mod head_align fs = 0).
  { apply N.mod_0_l. destruct fs as [|t0 r0]; [congruence|]. cbn [head_align].
    destruct (wfF_cons _ _ Hf) as [Hw0 _]. pose proof (align_pos _ Hw0). slia. }
  assert (P5 : end_min fs 0 <= 0 + blen (take n0 buf)) by (rewrite <- fold_min_size_0 by exact Hne; slia).
  destruct (emplace_fields pv fs is a (take n0 buf) 0) as [rd rres] eqn:Er.
  cbn [fst snd] in H. injection H as <- ->.
  destruct (IH pv is a (take n0 buf) 0 a rd [] P1 Hui P2 P3 P4 P5 Er (ceil_mul_0 _)) as (m1 & Hm1 & Hl1 & Hr1).
  change (pad 0 [] ++ m1) with m1 in Hm1.
  rewrite img_struct_unfold, Ef, Hm1.
  rewrite <- (proj1 (proj2 align_c_align_mut) fs). fold al. rewrite round_up_ceil by exact Hal.
  rewrite N.add_0_l in Hl1. rewrite Hl1.
  pose proof (ceil_mul_ge (extent_fields fs is 0) al Hal) as Hge.
  eexists. split; [reflexivity|]. split; [apply mlen_pad; slia|].
  apply irel_pad; [|exact Hext]. rewrite <- (take_drop n0 buf) at 1. apply irel_tail. exact Hr1.
Qed.

(* ---------- 11. unsized enum ---------- *)

Lemma enum_go_img pv tag d vs a buf k is fvs b' :
  wf (TEnum false tag d vs) = true -> narrow_ty (TEnum false tag d vs) = true -> IMV vs ->
  spec_variant vs (N.to_nat k) is = Some fvs -> forallb utf8_init is = true ->
  aligned a (align (TEnum false tag d vs)) = true -> min_size (TEnum false tag d vs) <= blen buf ->
  let ext := ceil_mul (data_offset tag vs + extent_variant vs (N.to_nat k) is)
                      (umax (ialign tag) (align_variants vs)) in
  ext <= blen buf ->
  enum_go pv tag vs a buf k is = (b', Ok tt) ->
  exists m, img_enum_mk false tag d vs k is = Some m /\ mlen m = ext /\ irel pv m buf b'.
Proof.
  intros Hw Hnt IH Hs Hu Ha Hm ext Hext H.
  pose proof (enum_consts _ _ _ _ Hw) as (Hal & Hdo & Hdmod).
  pose proof (min_size_enum_ge _ _ _ Hw) as Hdm.
  pose proof (data_offset_c _ _ _ _ Hw) as Hdoc.
  apply narrow_enum_inv in Hnt. destruct Hnt as [_ Hnv].
  apply wf_enum_inv in Hw. destruct Hw as (Hi & Hnat & Hv1 & Hv2 & Hdf & Hwv).
  cbn [align] in Ha. apply aligned_iff in Ha.
  set (al := umax (ialign tag) (align_variants vs)) in *. set (dof := data_offset tag vs) in *.
  pose proof (align_variants_P16 _ _ Hwv) as Hpv. destruct (wf_int_P16 _ Hi) as [_ Hpt].
  unfold enum_go in H. destruct (N.ltb_spec k (vlen vs)); [|discriminate H]. cbn [negb] in H. cbv zeta in H.
  fold al dof in H.
  destruct (N.ltb_spec (blen buf) dof); [discriminate H|].
  set (tagb := take dof buf) in *. set (rest := drop dof buf) in *.
  assert (Htl : blen tagb = dof) by (unfold tagb; apply blen_take_le; slia).
  assert (Hrl : blen rest = blen buf - dof) by (unfold rest; apply blen_drop).
  set (n0 := floor_mul (blen rest) al) in *.
  pose proof (floor_mul_le (blen rest) al Hal) as Hnr. fold n0 in Hnr.
  assert (Hdl : blen (take n0 rest) = n0) by (apply blen_take_le; exact Hnr).
  assert (Haa : (a + dof) mod align_variants vs = 0).
  { apply mod_trans with (m := al); auto using P16_pos.
    - apply mod_add_mult; auto.
    - unfold al. apply P16_umax_mod_r; auto. }
  assert (Hsp : exists fvs0, spec_variant vs (N.to_nat k) is = Some fvs0) by eauto.
  assert (Htb : isize tag <= blen tagb) by slia.
  destruct (emplace_variant pv vs (N.to_nat k) is (a + dof) (take n0 rest) tag k tagb) as [rv rres] eqn:Er.
  cbn [fst snd] in H. injection H as <- ->.
  destruct (IH pv (N.to_nat k) is (a + dof) (take n0 rest) tag k tagb rv Hsp Hu Haa Htb Er)
    as (m1 & d' & Hm1 & Hl1 & -> & Hr1).
  set (E := extent_variant vs (N.to_nat k) is) in *.
  unfold img_enum_mk. rewrite Hm1. cbv zeta. rewrite <- Hdoc. fold dof.
  rewrite <- (proj2 (proj2 align_c_align_mut) vs), <- umax_spec. fold al.
  rewrite round_up_ceil by exact Hal.
  set (m := pad dof (int_img tag k) ++ m1).
  assert (Hml : mlen m = dof + E).
  { unfold m. rewrite mlen_app, mlen_pad, Hl1; [reflexivity | rewrite mlen_int_img; exact Hdo]. }
  rewrite Hml. fold ext.
  pose proof (ceil_mul_ge (dof + E) al Hal) as Hge. fold ext in Hge.
  eexists. split; [reflexivity|]. split; [apply mlen_pad; slia|].
  apply irel_pad; [|exact Hext].
  assert (Ebuf : tagb ++ take n0 rest ++ drop n0 rest = buf).
  { unfold tagb, rest. rewrite !take_drop. reflexivity. }
  rewrite <- Ebuf at 1. rewrite <- app_assoc. unfold m. apply irel_app.
  - apply irel_int_slot; slia.
  - rewrite Htl, mlen_pad; [reflexivity | rewrite mlen_int_img; exact Hdo].
  - apply irel_tail. exact Hr1.
Qed.

Lemma im_enum tag d vs : wf (TEnum false tag d vs) = true -> narrow_ty (TEnum false tag d vs) = true ->
  IMV vs -> IM (TEnum false tag d vs).
Proof.
  intros Hw Hnt IH pv i a buf buf' Hi Hu Ha Hm H.
  destruct (emp_ok_facts _ Hw Hnt pv i a buf buf' Hi Hu Ha Hm H) as (_ & Hext & _).
  rewrite emplace_u_enum in H. rewrite img_enum_unfold.
  unfold init_ok in Hi. cbn [spec_value] in Hi.
  destruct i as [v|is0|k0 is0|is0|is0|s0|is0| |]; try discriminate Hi.
  - destruct (spec_variant vs (N.to_nat k0) is0) as [fvs|] eqn:Es; [|discriminate].
    cbn [utf8_init] in Hu. cbn [extent] in Hext |- *.
    exact (enum_go_img pv tag d vs a buf k0 is0 fvs buf' Hw Hnt IH Es Hu Ha Hm Hext H).
  - destruct (spec_variant vs (N.to_nat d) []) as [fvs|] eqn:Es; [|discriminate].
    cbn [extent] in Hext |- *.
    exact (enum_go_img pv tag d vs a buf d [] fvs buf' Hw Hnt IH Es eq_refl Ha Hm Hext H).
Qed.

(* ---------- 12. FlexVec ---------- *)

Lemma flex_item_img pv et : IM et -> forall i pa payload payload',
  init_ok et i = true -> utf8_init i = true -> pa mod align et = 0 ->
  flex_item_emp pv et i pa payload = (payload', Ok tt) ->
  exists x, img et i = Some x /\ mlen x = extent et i /\ irel pv x payload payload'.
Proof.
  intros IH i pa payload payload' Hi Hu Hpa H. apply aligned_iff in Hpa.
  unfold flex_item_emp, check_align_min in H. rewrite Hpa in H. cbn [negb] in H.
  destruct (N.ltb_spec (blen payload) (min_size et)) as [Hc|Hc]; [discriminate H|].
  exact (IH pv i pa payload payload' Hi Hu Hpa Hc H).
Qed.

(* one round of the FromIterator loop, inverted *)
Lemma ff_step_img pv et l : wf (TFlex et l) = true -> narrow l = true -> EMP et -> IM et ->
  forall r i pre prev a data pos b',
    init_ok et i = true -> utf8_init i = true ->
    a mod align (TFlex et l) = 0 -> blen data mod align (TFlex et l) = 0 -> prev_ok l prev pre ->
    flex_fill et l (flex_item_emp pv et) (size_m et) (i :: r) pre prev a data pos = (b', Ok tt) ->
    let os := flex_offset_size et l in let al := align (TFlex et l) in
    let psize := ceil_mul (extent et i) al in let off := os + psize in
    let slot' := to_bytes (ibe l) (isize l) (int_max l) ++ drop (isize l) (take os data) in
    exists x payload',
      img et i = Some x /\ mlen x = extent et i /\ irel pv x (drop os data) payload' /\
      os <= blen data /\ psize <= blen data - os /\
      let pre2 := seal l prev pre ++ slot' ++ take psize payload' in
      prev_ok l (Some (blen (seal l prev pre), off)) pre2 /\
      (a + off) mod al = 0 /\ blen (drop psize payload') mod al = 0 /\
      flex_fill et l (flex_item_emp pv et) (size_m et) r pre2 (Some (blen (seal l prev pre), off))
                (a + off) (drop psize payload') (pos + off) = (b', Ok tt).
Proof.
  intros Hw Hn IH IHI.
  pose proof (flex_consts et l Hw) as (Hal & Hlos & Hosal & Halia & Hos & Hia & Halet).
  pose proof Hw as Hw0. apply wf_flex_inv in Hw0. destruct Hw0 as [Hwt Hl].
  intros r i pre prev a data pos b' Hi Hu Ha Hd Hprev H. cbv zeta.
  set (os := flex_offset_size et l) in *. set (al := align (TFlex et l)) in *.
  rewrite flex_fill_cons in H. unfold ff_step in H. cbv zeta in H. fold os al in H.
  destruct (N.ltb_spec (blen data) os) as [Hc|Hc]; [discriminate H|].
  set (slot := take os data) in *. set (payload := drop os data) in *.
  assert (Hsl : blen slot = os) by (unfold slot; apply blen_take_le; exact Hc).
  assert (Hpl : blen payload = blen data - os) by (unfold payload; apply blen_drop).
  assert (Hpa : (a + os) mod align et = 0).
  { apply mod_trans with (m := al); auto using align_pos. apply mod_add_mult; auto. }
  pose proof (flex_item_post pv et i (a + os) payload Hwt IH Hi Hu Hpa) as (I1 & I2 & I3 & I4 & I5).
  pose proof (flex_item_img pv et IHI i (a + os) payload) as II.
  destruct (flex_item_emp pv et i (a + os) payload) as [payload' res] eqn:Eitem. cbn [fst snd] in *.
  destruct res as [[]|k p|c]; cbv beta iota in H; try discriminate H.
  destruct (II payload' Hi Hu Hpa eq_refl) as (x & Hx & Hlx & Hrx). clear II.
  destruct (I3 eq_refl) as (Hmin & Hgood). clear I3 I5.
  assert (Hrep : representable et i = true /\ extent et i <= blen payload) by (apply I4; reflexivity).
  destruct Hrep as [Hrep Hext].
  pose proof Hgood as (Hv & _ & Hsz).
  rewrite Hsz in H. cbv beta iota in H. set (psize := ceil_mul (extent et i) al) in *.
  set (off := os + psize) in *.
  assert (Hpsm : psize mod al = 0) by (apply ceil_mul_mod; exact Hal).
  assert (Hplm : blen payload mod al = 0) by (rewrite Hpl; apply mod_sub_mult; auto).
  assert (Hpsle : psize <= blen payload) by (apply ceil_mul_le_mult; auto).
  assert (Hoffm : off mod al = 0) by (apply mod_add_mult; auto).
  unfold from_usize in H.
  destruct (N.leb_spec off (int_max l)) as [Hom|Hom]; [|discriminate H].
  destruct (N.ltb_spec off (int_max l)) as [Holt|Holt]; [|discriminate H].
  assert (Haa : aligned a (ialign l) = true).
  { apply aligned_iff. apply mod_trans with (m := al); auto. }
  rewrite (emplace_int_ok l (int_max l) a slot Haa) in H by slia. cbv beta iota in H.
  destruct (N.ltb_spec (blen payload') psize); [discriminate H|].
  change (match prev with
          | Some (pp, po) => take pp pre ++ to_bytes (ibe l) (isize l) po ++ drop (pp + isize l) pre
          | None => pre
          end) with (seal l prev pre) in H.
  set (slot' := to_bytes (ibe l) (isize l) (int_max l) ++ drop (isize l) slot) in *.
  assert (Hsl' : blen slot' = os) by (unfold slot'; rewrite blen_set_len; slia).
  exists x, payload'. split; [exact Hx|]. split; [exact Hlx|]. split; [exact Hrx|].
  split; [exact Hc|]. split; [slia|]. split; [|split; [|split]].
  - cbn [prev_ok]. rewrite !blen_app. slia.
  - apply mod_add_mult; auto.
  - rewrite blen_drop, I2, Hpl. apply mod_sub_mult; auto. rewrite <- Hpl. exact Hplm.
  - exact H.
Qed.

Lemma seal_some_app l (pre' slot' tk : bytes) off : isize l <= blen slot' ->
  seal l (Some (blen pre', off)) (pre' ++ slot' ++ tk) =
  pre' ++ (to_bytes (ibe l) (isize l) off ++ drop (isize l) slot') ++ tk.
Proof.
  intros H. cbn [seal]. rewrite take_app_exact, drop_app_plus, drop_app_le by exact H.
  rewrite <- !app_assoc. reflexivity.
Qed.

Lemma flex_fill_img pv et l : wf (TFlex et l) = true -> narrow l = true -> EMP et -> IM et ->
  forall r i pre prev a data pos b',
    Forall (fun i => init_ok et i = true /\ utf8_init i = true) (i :: r) ->
    a mod align (TFlex et l) = 0 -> blen data mod align (TFlex et l) = 0 -> prev_ok l prev pre ->
    flex_fill et l (flex_item_emp pv et) (size_m et) (i :: r) pre prev a data pos = (b', Ok tt) ->
    exists y data', img_chain l (flex_offset_size et l) (align (TFlex et l)) (img et) i r = Some y /\
       mlen y = sum_list (map (offf et l) (i :: r)) /\
       b' = seal l prev pre ++ data' /\ irel pv y data data'.
Proof.
  intros Hw Hn IH IHI.
  pose proof (flex_consts et l Hw) as (Hal & Hlos & Hosal & Halia & Hos & Hia & Halet).
  induction r as [|j r' IHr]; intros i pre prev a data pos b' Hall Ha Hd Hprev H;
    inversion Hall as [|i0 r0 [Hi Hu] Hallr]; subst i0 r0;
    destruct (ff_step_img pv et l Hw Hn IH IHI _ i pre prev a data pos b' Hi Hu Ha Hd Hprev H)
      as (x & payload' & Hx & Hlx & Hrx & Hc & Hps & Hprev2 & Ha2 & Hd2 & H2);
    clear H; cbv zeta in Hprev2, Ha2, Hd2, H2;
    set (os := flex_offset_size et l) in *; set (al := align (TFlex et l)) in *;
    set (psize := ceil_mul (extent et i) al) in *;
    pose proof (ceil_mul_ge (extent et i) al Hal) as Hpsge; fold psize in Hpsge;
    assert (Hsl : blen (take os data) = os) by (apply blen_take_le; exact Hc);
    assert (Hpl : blen (drop os data) = blen data - os) by apply blen_drop;
    assert (Hitem : irel pv (pad psize x) (drop os data) payload')
      by (apply irel_pad; [exact Hrx|rewrite Hpl; exact Hps]);
    assert (Hmi : mlen (pad psize x) = psize) by (apply mlen_pad; rewrite Hlx; exact Hpsge).
  - (* the last item keeps its marker *)
    cbn [flex_fill ok] in H2. injection H2 as <-.
    rewrite img_chain_last, Hx, Hlx, round_up_ceil by exact Hal. fold psize.
    eexists. exists ((to_bytes (ibe l) (isize l) (int_max l) ++ drop (isize l) (take os data)) ++ payload').
    split; [reflexivity|]. split; [|split].
    + rewrite mlen_app, Hmi, mlen_pad by (rewrite mlen_int_img; exact Hlos).
      cbn [map sum_list]. unfold offf. fold os al psize. lia.
    + rewrite <- !app_assoc. rewrite take_drop. reflexivity.
    + rewrite <- (take_drop os data) at 1. apply irel_app.
      * apply irel_int_slot; [exact Hlos|rewrite Hsl; lia].
      * rewrite Hsl, mlen_pad; [reflexivity|rewrite mlen_int_img; exact Hlos].
      * exact Hitem.
  - (* the item is sealed by the next one *)
    destruct (IHr j _ _ _ _ _ b' Hallr Ha2 Hd2 Hprev2 H2) as (y' & data'' & Hy' & Hly' & -> & Hr').
    rewrite img_chain_cons2, Hx, Hlx, round_up_ceil by exact Hal. fold psize. cbv zeta.
    rewrite Hy', Hmi.
    rewrite seal_some_app by (rewrite blen_set_len; rewrite Hsl; lia).
    rewrite drop_app_len by apply tb_len.
    eexists.
    exists ((to_bytes (ibe l) (isize l) (os + psize) ++ drop (isize l) (take os data))
            ++ take psize payload' ++ data'').
    split; [reflexivity|]. split; [|split].
    + rewrite !mlen_app, Hmi, Hly', mlen_pad by (rewrite mlen_int_img; exact Hlos).
      cbn [map sum_list]. unfold offf. fold os al psize. lia.
    + rewrite <- !app_assoc. reflexivity.
    + rewrite <- (take_drop os data) at 1. apply irel_app.
      * apply irel_int_slot; [exact Hlos|rewrite Hsl; lia].
      * rewrite Hsl, mlen_pad; [reflexivity|rewrite mlen_int_img; exact Hlos].
      * rewrite <- Hmi at 2. apply irel_seq; [exact Hitem|]. rewrite Hmi. exact Hr'.
Qed.

Lemma img_flex_unfold et l i :
  img (TFlex et l) i =
  match i with
  | IEmpty | IDefault | IFlex [] => Some (pad (round_up (isize l) (c_align et)) (int_img l 0))
  | IFlex (x :: r) =>
      img_chain l (round_up (isize l) (c_align et)) (N.max (ialign l) (c_align et)) (img et) x r
  | _ => None
  end.
Proof. destruct i; reflexivity. Qed.

(* a chain image starts with a slot *)
Lemma img_chain_head l os A f i r y : img_chain l os A f i r = Some y ->
  exists v rest, y = pad os (int_img l v) ++ rest.
Proof.
  destruct r as [|j r'].
  - rewrite img_chain_last. destruct (f i) as [x|]; [|discriminate]. intros H. injection H as <-. eauto.
  - rewrite img_chain_cons2. destruct (f i) as [x|]; [|discriminate]. cbv zeta.
    destruct (img_chain l os A f j r') as [y'|]; [|discriminate]. intros H. injection H as <-. eauto.
Qed.

(* what lay under determined bytes does not matter *)
Lemma irel_head_indep pv m : forall s s0 s0' rest d', blen s0 = blen s -> blen s0' = blen s ->
  irel pv (known s ++ m) (s0 ++ rest) d' -> irel pv (known s ++ m) (s0' ++ rest) d'.
Proof.
  induction s as [|x s IH]; intros s0 s0' rest d' H0 H0' H.
  - destruct s0; [|rewrite blen_cons, blen_nil in H0; lia].
    destruct s0'; [|rewrite blen_cons, blen_nil in H0'; lia]. exact H.
  - destruct s0 as [|b s0]; [rewrite blen_cons, blen_nil in H0; lia|].
    destruct s0' as [|b' s0']; [rewrite blen_cons, blen_nil in H0'; lia|].
    rewrite !blen_cons in *. cbn [known map app] in *.
    inversion H as [|x1 m1 b1 buf1 buf1' Hr|]; subst. constructor.
    apply (IH s0 s0' rest buf1'); [lia|lia|exact Hr].
Qed.

Lemma im_flex et l : wf (TFlex et l) = true -> narrow_ty (TFlex et l) = true -> IM et -> IM (TFlex et l).
Proof.
  intros Hw Hnt IHI pv i a buf buf' Hi Hu Ha Hm H.
  destruct (emp_ok_facts _ Hw Hnt pv i a buf buf' Hi Hu Ha Hm H) as (_ & Hext & Hmod).
  pose proof Hnt as Hnt0. apply narrow_flex_inv in Hnt0. destruct Hnt0 as [Hnet Hn].
  pose proof (flex_consts et l Hw) as (Hal & Hlos & Hosal & Halia & Hos & Hia & Halet).
  pose proof Hw as Hw0. apply wf_flex_inv in Hw0. destruct Hw0 as [Hwt Hl].
  pose proof (proj1 emp_mut et Hwt Hnet) as IH.
  cbn [min_size] in Hm. change (umax (isize l) (align et)) with (flex_offset_size et l) in Hm.
  rewrite img_flex_unfold, (flex_os_c et l Hw), c_align_max.
  change (umax (ialign l) (align et)) with (align (TFlex et l)).
  assert (Hdef : write_int l 0 buf = (buf', Ok tt) ->
    exists m, Some (pad (flex_offset_size et l) (int_img l 0)) = Some m /\
      mlen m = flex_offset_size et l /\ irel pv m buf buf').
  { intros Hwr. apply write_int_inv in Hwr. destruct Hwr as [Hle ->]. eexists. split; [reflexivity|].
    split; [apply mlen_pad; rewrite mlen_int_img; exact Hlos|]. apply irel_int_slot; [exact Hlos|exact Hm]. }
  unfold init_ok in Hi.
  destruct i as [v|is0|k0 is0|is0|is0|s0|is0| |]; cbn [spec_value] in Hi; try discriminate Hi;
    [|cbn [emplace_u] in H; cbn [extent]; apply Hdef; exact H
     |cbn [emplace_u] in H; cbn [extent]; apply Hdef; exact H].
  destruct (opt_map_all (spec_value et) is0) as [vs|] eqn:Es; [|discriminate]. clear Hi.
  cbn [utf8_init] in Hu. pose proof (flex_inits_ok et is0 vs Es Hu) as Hall.
  cbn [align] in Ha, Hmod. change (umax (ialign l) (align et)) with (align (TFlex et l)) in Ha, Hmod.
  apply aligned_iff in Ha.
  set (os := flex_offset_size et l) in *. set (al := align (TFlex et l)) in *.
  rewrite emplace_u_flex in H. cbv zeta in H. fold al in H.
  set (n0 := floor_mul (blen buf) al) in *.
  pose proof (floor_mul_le (blen buf) al Hal) as Hnb. fold n0 in Hnb.
  assert (Hon : os <= n0) by (apply floor_mul_ge_mult; auto).
  assert (Hnm : n0 mod al = 0) by (apply floor_mul_mod; exact Hal).
  assert (Hdl : blen (take n0 buf) = n0) by (apply blen_take_le; exact Hnb).
  assert (Haa : aligned a (ialign l) = true).
  { apply aligned_iff. apply mod_trans with (m := al); auto. }
  rewrite (emplace_int_ok l 0 a (take n0 buf) Haa) in H by slia. cbv beta iota in H.
  set (data0 := to_bytes (ibe l) (isize l) 0 ++ drop (isize l) (take n0 buf)) in *.
  assert (Hd0 : blen data0 = n0) by (unfold data0; rewrite blen_set_len; slia).
  assert (Hd0m : blen data0 mod al = 0) by (rewrite Hd0; exact Hnm).
  destruct (flex_fill et l (flex_item_emp pv et) (size_m et) is0 [] None a data0 0) as [rd rres] eqn:Er.
  cbn [fst snd] in H. injection H as <- ->.
  destruct is0 as [|x r].
  - cbn [flex_fill ok app] in Er. injection Er as <-. cbn [extent]. fold os.
    eexists. split; [reflexivity|]. split; [apply mlen_pad; rewrite mlen_int_img; exact Hlos|].
    rewrite <- (take_drop n0 buf) at 1. apply irel_tail. unfold data0.
    apply irel_int_slot; [exact Hlos|slia].
  - destruct (flex_fill_img pv et l Hw Hn IH IHI r x [] None a data0 0 rd Hall Ha Hd0m I Er)
      as (y & data' & Hy & Hly & -> & Hry).
    fold os al in Hy. cbn [seal app].
    exists y. split; [exact Hy|]. split; [exact Hly|].
    rewrite <- (take_drop n0 buf) at 1. apply irel_tail.
    destruct (img_chain_head _ _ _ _ _ _ _ Hy) as (v0 & rest0 & ->).
    unfold pad, int_img in Hry |- *. rewrite <- app_assoc in Hry |- *.
    rewrite <- (take_drop (isize l) (take n0 buf)).
    apply (irel_head_indep pv _ _ (to_bytes (ibe l) (isize l) 0)); [rewrite !tb_len; reflexivity| |exact Hry].
    rewrite tb_len. apply blen_take_le. slia.
Qed.

(* ---------- 13. the mutual induction ---------- *)

Theorem img_mut :
  (forall t, wf t = true -> narrow_ty t = true -> IM t) /\
  (forall fs, fs <> FNil -> wfF fs -> narrow_fields fs = true -> IMF fs) /\
  (forall vs, wf_variants false vs = true -> narrow_variants vs = true -> IMV vs).
Proof.
  apply ty_mutind.
  - intros Hw _. apply im_sized; auto.
  - intros it Hw _. apply im_sized; auto.
  - intros Hw _. apply im_sized; auto.
  - intros tag n d Hw _. apply im_sized; auto.
  - intros t _ n Hw _. apply im_sized; auto.
  - intros t _ l Hw Hn. apply im_vec; auto.
  - intros l Hw Hn. apply im_str; auto.
  - intros t IH l Hw Hn. apply im_flex; auto.
    apply wf_flex_inv in Hw. apply narrow_flex_inv in Hn. apply IH; tauto.
  - intros s fs IH Hw Hn. destruct s; [apply im_sized; auto|].
    apply im_struct; auto. destruct (wf_struct_wfF _ _ Hw) as [Hnil|Hf]; [subst fs; discriminate Hw|].
    apply IH; auto. intros ->. discriminate Hw.
  - intros s tag d vs IH Hw Hn. destruct s; [apply im_sized; auto|].
    apply im_enum; auto. apply narrow_enum_inv in Hn.
    pose proof (wf_enum_inv _ _ _ _ Hw) as (_ & _ & _ & _ & _ & Hwv). apply IH; tauto.
  - intros H. congruence.
  - intros t IHt r IHr _ Hf Hn. cbn [narrow_fields] in Hn. apply andb_true_iff in Hn. destruct Hn as [Hnt Hnr].
    destruct (wfF_cons _ _ Hf) as [Hwt Hr].
    destruct r as [|t' r'].
    + apply imf_single; auto.
    + destruct Hr as [Hr|[Hst Hr]]; [discriminate|].
      apply imf_cons2; auto. apply IHr; auto. congruence.
  - intros _ _ pv k is a data tag kv tagb r' [fvs Hs]. discriminate.
  - intros fs IHf r IHr Hw Hn. cbn [narrow_variants] in Hn. apply andb_true_iff in Hn. destruct Hn as [Hnf Hnr].
    pose proof (wf_variants_cons _ _ _ Hw) as [Hf Hr].
    apply imv_step; auto.
    destruct fs as [|t0 r0]; [left; reflexivity|]. right.
    destruct Hf as [Hf|Hf]; [discriminate|]. split; [exact Hf|]. apply IHf; auto. congruence.
Qed.

(* the unchecked emplacer: the result is the old buffer with the reference image written over its head *)
Theorem emplace_u_image t i : wf t = true -> narrow_ty t = true ->
  init_ok t i = true -> utf8_init i = true ->
  forall pv a buf buf', aligned a (align t) = true -> min_size t <= blen buf ->
    emplace_u pv t i a buf = (buf', Ok tt) ->
    exists m, img t i = Some m /\ mlen m = extent t i /\ irel pv m buf buf'.
Proof.
  intros Hw Hn Hi Hu pv a buf buf' Ha Hm H. exact (proj1 img_mut t Hw Hn pv i a buf buf' Hi Hu Ha Hm H).
Qed.

(* ---------- 14. new_in_place (C03) ---------- *)

Theorem image_is_reference_image t i : wf t = true -> narrow_ty t = true ->
  init_ok t i = true -> utf8_init i = true ->
  forall pv a buf buf', new_in_place pv t i a buf = (buf', Ok tt) ->
    exists m, img t i = Some m /\ mlen m = extent t i /\
      (forall j x, nth_error m j = Some (Some x) -> nth_error buf' j = Some x) /\
      (pv = None -> buf' = overlay None m buf).
Proof.
  intros Hw Hn Hi Hu pv a buf buf' H. unfold new_in_place in H.
  destruct (emplace_cases pv t i a buf) as [[_ E]|[(_ & _ & E)|(Ha & Hm & E)]]; rewrite E in H; try discriminate H.
  destruct (emplace_u_image t i Hw Hn Hi Hu pv a buf buf' Ha Hm H) as (m & Hm1 & Hl & Hr).
  exists m. split; [exact Hm1|]. split; [exact Hl|]. split.
  - apply (irel_nth pv m buf buf' Hr).
  - intros ->. apply irel_overlay_none. exact Hr.
Qed.

Theorem determined_bytes_independent t i : wf t = true -> narrow_ty t = true ->
  init_ok t i = true -> utf8_init i = true ->
  forall pv1 pv2 a1 a2 buf1 buf2 b1 b2 m j x,
    new_in_place pv1 t i a1 buf1 = (b1, Ok tt) -> new_in_place pv2 t i a2 buf2 = (b2, Ok tt) ->
    img t i = Some m -> nth_error m j = Some (Some x) ->
    nth_error b1 j = Some x /\ nth_error b2 j = Some x.
Proof.
  intros Hw Hn Hi Hu pv1 pv2 a1 a2 buf1 buf2 b1 b2 m j x H1 H2 Hm Hj.
  destruct (image_is_reference_image t i Hw Hn Hi Hu pv1 a1 buf1 b1 H1) as (m1 & Hm1 & _ & D1 & _).
  destruct (image_is_reference_image t i Hw Hn Hi Hu pv2 a2 buf2 b2 H2) as (m2 & Hm2 & _ & D2 & _).
  rewrite Hm in Hm1, Hm2. injection Hm1 as <-. injection Hm2 as <-.
  split; [apply D1|apply D2]; exact Hj.
Qed.

(* ---------- 15. img is defined exactly for well-typed expressions ---------- *)

Lemma img_all_is_some t : (forall i, is_some (spec_value t i) = is_some (img t i)) ->
  forall is, is_some (opt_map_all (spec_value t) is) = is_some (img_all (img t) is).
Proof.
  intros H. induction is as [|i r IH]; [reflexivity|].
  cbn [opt_map_all img_all]. specialize (H i).
  destruct (spec_value t i), (img t i); cbn [is_some] in H; try discriminate; [|reflexivity].
  destruct (opt_map_all (spec_value t) r), (img_all (img t) r); cbn [is_some] in IH; try discriminate; reflexivity.
Qed.

Lemma opt_map_all_cons {A B} (f : A -> option B) x r :
  opt_map_all f (x :: r) =
  match f x, opt_map_all f r with Some y, Some ys => Some (y :: ys) | _, _ => None end.
Proof. reflexivity. Qed.

Lemma img_chain_is_some t l os A : (forall i, is_some (spec_value t i) = is_some (img t i)) ->
  forall r x, is_some (opt_map_all (spec_value t) (x :: r)) = is_some (img_chain l os A (img t) x r).
Proof.
  intros H. induction r as [|j r' IH]; intros x.
  - rewrite img_chain_last. cbn [opt_map_all]. specialize (H x).
    destruct (spec_value t x), (img t x); cbn [is_some] in H; try discriminate; reflexivity.
  - specialize (IH j). rewrite opt_map_all_cons, img_chain_cons2. specialize (H x).
    destruct (spec_value t x), (img t x); cbn [is_some] in H; try discriminate; [|reflexivity].
    cbv zeta.
    destruct (opt_map_all (spec_value t) (j :: r')), (img_chain l os A (img t) j r'); cbn [is_some] in IH;
      try discriminate; reflexivity.
Qed.

Lemma img_vec_mk_is_some t l : (forall i, is_some (spec_value t i) = is_some (img t i)) ->
  forall is, is_some (opt_map_all (spec_value t) is) = is_some (img_vec_mk t l is).
Proof.
  intros H is. pose proof (img_all_is_some t H is) as E. unfold img_vec_mk.
  destruct (opt_map_all (spec_value t) is), (img_all (img t) is); cbn [is_some] in *; try discriminate; reflexivity.
Qed.

Lemma img_defined_mut :
  (forall t i, is_some (spec_value t i) = is_some (img t i)) /\
  (forall fs is m0, is_some (spec_fields fs is) = is_some (img_fields fs is m0)) /\
  (forall vs k is, is_some (spec_variant vs k is) = is_some (img_variant vs k is)).
Proof.
  apply ty_mutind.
  - intros i. reflexivity.
  - intros it i. cbn [spec_value img].
    destruct i as [v|is0|k0 is0|is0|is0|s0|is0| |]; try reflexivity.
    destruct (v <=? int_max it); reflexivity.
  - intros i. cbn [spec_value img].
    destruct i as [v|is0|k0 is0|is0|is0|s0|is0| |]; try reflexivity.
    destruct (v <=? 1); reflexivity.
  - intros tag n d i. cbn [spec_value img].
    destruct i as [v|is0|k0 is0|is0|is0|s0|is0| |]; try reflexivity.
    destruct (v <? n); reflexivity.
  - intros t IH n i. cbn [spec_value img]. destruct (field_inits i n) as [is|]; [|reflexivity].
    pose proof (img_all_is_some t IH is) as H.
    destruct (opt_map_all (spec_value t) is), (img_all (img t) is); cbn [is_some] in *; try discriminate; reflexivity.
  - intros t IH l i. rewrite img_vec_unfold. cbn [spec_value].
    destruct i as [v|is0|k0 is0|is0|is0|s0|is0| |]; try reflexivity;
      pose proof (img_vec_mk_is_some t l IH is0) as H;
      destruct (opt_map_all (spec_value t) is0), (img_vec_mk t l is0); cbn [is_some] in *;
      try discriminate; reflexivity.
  - intros l i. rewrite img_str_unfold. cbn [spec_value].
    destruct i as [v|is0|k0 is0|is0|is0|s0|is0| |]; reflexivity.
  - intros t IH l i. rewrite img_flex_unfold. cbn [spec_value].
    destruct i as [v|is0|k0 is0|is0|is0|s0|is0| |]; try reflexivity.
    destruct is0 as [|x r]; [reflexivity|].
    pose proof (img_chain_is_some t l (round_up (isize l) (c_align t)) (N.max (ialign l) (c_align t)) IH r x) as H.
    destruct (opt_map_all (spec_value t) (x :: r)), (img_chain l _ _ (img t) x r); cbn [is_some] in *;
      try discriminate; reflexivity.
  - intros s fs IH i. rewrite img_struct_unfold. cbn [spec_value].
    destruct (field_inits i (flen fs)) as [is|]; [|reflexivity].
    specialize (IH is []). destruct (spec_fields fs is), (img_fields fs is []); cbn [is_some] in *;
      try discriminate; reflexivity.
  - intros s tag d vs IH i. rewrite img_enum_unfold. cbn [spec_value]. unfold img_enum_mk.
    destruct i as [v|is0|k0 is0|is0|is0|s0|is0| |]; try reflexivity.
    + specialize (IH (N.to_nat k0) is0).
      destruct (spec_variant vs (N.to_nat k0) is0), (img_variant vs (N.to_nat k0) is0); cbn [is_some] in *;
        try discriminate; reflexivity.
    + specialize (IH (N.to_nat d) []).
      destruct (spec_variant vs (N.to_nat d) []), (img_variant vs (N.to_nat d) []); cbn [is_some] in *;
        try discriminate; reflexivity.
  - intros is m0. destruct is; reflexivity.
  - intros t IHt r IHr is m0. destruct is as [|i is']; [reflexivity|].
    rewrite spec_fields_cons, img_fields_cons. specialize (IHt i).
    destruct (spec_value t i), (img t i) as [e|]; cbn [is_some] in IHt; try discriminate; [|reflexivity].
    specialize (IHr is' (pad (round_up (mlen m0) (c_align t)) m0 ++ e)).
    destruct (spec_fields r is'), (img_fields r is' _); cbn [is_some] in IHr; try discriminate; reflexivity.
  - intros k is. reflexivity.
  - intros fs IHf r IHr k is. destruct k as [|k']; cbn [spec_variant img_variant]; [apply IHf | apply IHr].
Qed.

Theorem img_defined t i : wf t = true -> (init_ok t i = true <-> exists m, img t i = Some m).
Proof.
  intros _. pose proof (proj1 img_defined_mut t i) as H. unfold init_ok.
  destruct (spec_value t i), (img t i); cbn [is_some] in H; try discriminate.
  - split; [intros _; eauto | reflexivity].
  - split; [discriminate | intros [s Hs]; discriminate].
Qed.
