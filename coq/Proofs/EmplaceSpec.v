(* EmplaceSpec.v — the reference side of the emplacement properties (C03, C15, C20): what content an
   emplacer expression specifies, whether it is well-typed for a type, how many bytes that content
   needs, and whether its lengths and offsets are representable.  Definitions only; written from the
   documentation of the emplacers (what they are asked to store), not from emplace_u. *)
From Coq Require Import List NArith Bool.
From Flatty.Model Require Import Base Ty Layout Validate View Emplace.
Open Scope N_scope.

Fixpoint opt_map_all {A B} (f : A -> option B) (l : list A) : option (list B) :=
  match l with
  | [] => Some []
  | x :: r =>
      match f x, opt_map_all f r with
      | Some y, Some ys => Some (y :: ys)
      | _, _ => None
      end
  end.

(* the content (capacities stripped: VCont 0) an emplacer expression specifies for a type;
   None when the expression does not type-check for that type (such programs do not compile) *)
Fixpoint spec_value (t : ty) (i : init) {struct t} : option value :=
  match t with
  | TUnit => Some (VNode 0 [])
  | TInt it =>
      match i with
      | IInt n => if n <=? int_max it then Some (VInt n) else None
      | IDefault => Some (VInt 0)
      | _ => None
      end
  | TBool =>
      match i with
      | IInt n => if n <=? 1 then Some (VInt n) else None
      | IDefault => Some (VInt 0)
      | _ => None
      end
  | TCLike _ n d =>
      match i with
      | IInt k => if k <? n then Some (VInt k) else None
      | IDefault => Some (VInt d)
      | _ => None
      end
  | TArr t n =>
      match field_inits i n with
      | Some is => match opt_map_all (spec_value t) is with Some vs => Some (VNode 0 vs) | None => None end
      | None => None
      end
  | TVec t _ =>
      match i with
      | IEmpty | IDefault => Some (VCont 0 [])
      | IVecArr is | IVecIter is =>
          match opt_map_all (spec_value t) is with Some vs => Some (VCont 0 vs) | None => None end
      | _ => None
      end
  | TStr _ =>
      match i with
      | IEmpty | IDefault => Some (VCont 0 [])
      | IStr s => Some (VCont 0 (map VInt s))
      | _ => None
      end
  | TFlex t _ =>
      match i with
      | IEmpty | IDefault => Some (VNode 0 [])
      | IFlex is =>
          match opt_map_all (spec_value t) is with Some vs => Some (VNode 0 vs) | None => None end
      | _ => None
      end
  | TStruct _ fs =>
      match field_inits i (flen fs) with
      | Some is => match spec_fields fs is with Some vs => Some (VNode 0 vs) | None => None end
      | None => None
      end
  | TEnum _ _ d vs =>
      match i with
      | IVar k is =>
          match spec_variant vs (N.to_nat k) is with Some fvs => Some (VNode k fvs) | None => None end
      | IDefault =>
          match spec_variant vs (N.to_nat d) [] with Some fvs => Some (VNode d fvs) | None => None end
      | _ => None
      end
  end
with spec_fields (fs : fields) (is : list init) {struct fs} : option (list value) :=
  match fs, is with
  | FNil, [] => Some []
  | FCons t r, i :: is' =>
      match spec_value t i, spec_fields r is' with
      | Some v, Some vs => Some (v :: vs)
      | _, _ => None
      end
  | _, _ => None
  end
with spec_variant (vs : variants) (k : nat) (is : list init) {struct vs} : option (list value) :=
  match vs with
  | VNil => None
  | VCons fs r =>
      match k with
      | O => spec_fields fs is
      | S k' => spec_variant r k' is
      end
  end.

Definition init_ok (t : ty) (i : init) : bool :=
  match spec_value t i with Some _ => true | None => false end.

(* bytes the specified content needs (the reference extent, a multiple of the alignment), and
   whether every length and offset it implies fits its length type *)
Fixpoint sum_list (l : list N) : N := match l with [] => 0 | x :: r => x + sum_list r end.

Fixpoint extent (t : ty) (i : init) {struct t} : N :=
  match t with
  | TVec et l =>
      let n := match i with IVecArr is | IVecIter is => N.of_nat (length is) | _ => 0 end in
      ceil_mul (vec_data_offset et l + ssize et * n) (align (TVec et l))
  | TStr l =>
      let n := match i with IStr s => blen s | _ => 0 end in
      ceil_mul (isize l + n) (ialign l)
  | TFlex et l =>
      let os := flex_offset_size et l in
      let al := align (TFlex et l) in
      match i with
      | IFlex (x :: r) => sum_list (map (fun j => os + ceil_mul (extent et j) al) (x :: r))
      | _ => os
      end
  | TStruct false fs =>
      match field_inits i (flen fs) with
      | Some is => ceil_mul (extent_fields fs is 0) (align_fields fs)
      | None => 0
      end
  | TEnum false tag d vs =>
      let al := umax (ialign tag) (align_variants vs) in
      let dof := data_offset tag vs in
      match i with
      | IVar k is => ceil_mul (dof + extent_variant vs (N.to_nat k) is) al
      | _ => ceil_mul (dof + extent_variant vs (N.to_nat d) []) al
      end
  | _ => ssize t
  end
(* end position of the last field's content when the head field sits at [pos] *)
with extent_fields (fs : fields) (is : list init) (pos : N) {struct fs} : N :=
  match fs, is with
  | FCons t FNil, i :: _ => pos + extent t i
  | FCons t ((FCons t' _) as r), _ :: is' => extent_fields r is' (pos_next pos t t')
  | _, _ => pos
  end
with extent_variant (vs : variants) (k : nat) (is : list init) {struct vs} : N :=
  match vs with
  | VNil => 0
  | VCons fs r =>
      match k with
      | O => extent_fields fs is 0
      | S k' => extent_variant r k' is
      end
  end.

Fixpoint representable (t : ty) (i : init) {struct t} : bool :=
  match t with
  | TVec et l =>
      match i with
      | IVecArr is | IVecIter is =>
          (N.of_nat (length is) <=? int_max l) && ((0 <? ssize et) || (N.of_nat (length is) =? 0))
      | _ => true
      end
  | TStr l => match i with IStr s => blen s <=? int_max l | _ => true end
  | TFlex et l =>
      let os := flex_offset_size et l in
      let al := align (TFlex et l) in
      match i with
      | IFlex is => forallb (fun j => representable et j && (os + ceil_mul (extent et j) al <? int_max l)) is
      | _ => true
      end
  | TStruct false fs =>
      match field_inits i (flen fs) with
      | Some is => representable_fields fs is
      | None => true
      end
  | TEnum false _ d vs =>
      match i with
      | IVar k is => representable_variant vs (N.to_nat k) is
      | _ => true
      end
  | _ => true
  end
with representable_fields (fs : fields) (is : list init) {struct fs} : bool :=
  match fs, is with
  | FCons t r, i :: is' => representable t i && representable_fields r is'
  | _, _ => true
  end
with representable_variant (vs : variants) (k : nat) (is : list init) {struct vs} : bool :=
  match vs with
  | VNil => true
  | VCons fs r =>
      match k with
      | O => representable_fields fs is
      | S k' => representable_variant r k' is
      end
  end.
