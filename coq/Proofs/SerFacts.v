(* SerFacts.v — C17: the emplaced image of a portable value is the reference serialisation
   (SerSpec.ser) of the specified content: at every address, whatever the buffer held before,
   exactly extent-many bytes long. *)
From Coq Require Import List NArith Bool Lia ZArith ZifyN ZifyBool ZifyNat.
From Flatty.Model Require Import Base Ty Layout Utf8 Validate View Emplace Portable.
From Flatty.Proofs Require Import ArithFacts LayoutFacts BytesFacts ValidateFacts FramingFacts ChainFacts
  ViewFacts PortableFacts OpsFacts VecOpsFacts EmplaceFacts EmplaceSpec PortableTyFacts EncFacts
  EmplaceUnsizedFacts SerSpec.
Open Scope N_scope.

(* ---------- 0. the slack-freedom predicate ---------- *)

(* every SIZED enum inside has variants of one and the same payload size; an unsized enum has no
   slack of its own (its size follows the active variant), only its fields are constrained *)
Fixpoint tight (t : ty) : bool :=
  match t with
  | TArr t _ | TVec t _ | TFlex t _ => tight t
  | TStruct _ fs => tight_fields fs
  | TEnum s _ _ vs => (if s then no_slack_variants (max_sum_ssize vs) vs else true) && tight_variants vs
  | _ => true
  end
with tight_fields (fs : fields) : bool :=
  match fs with FNil => true | FCons t r => tight t && tight_fields r end
with tight_variants (vs : variants) : bool :=
  match vs with VNil => true | VCons fs r => tight_fields fs && tight_variants r end.

Lemma tight_fields_cons t r : tight_fields (FCons t r) = true -> tight t = true /\ tight_fields r = true.
Proof. cbn [tight_fields]. apply andb_true_iff. Qed.
Lemma tight_variants_cons fs r :
  tight_variants (VCons fs r) = true -> tight_fields fs = true /\ tight_variants r = true.
Proof. cbn [tight_variants]. apply andb_true_iff. Qed.
Lemma tight_enum_inv s tag d vs : tight (TEnum s tag d vs) = true ->
  (s = true -> no_slack_variants (max_sum_ssize vs) vs = true) /\ tight_variants vs = true.
Proof.
  cbn [tight]. rewrite andb_true_iff. intros [H1 H2]. split; [|exact H2]. intros ->. exact H1.
Qed.

(* ---------- 1. small facts ---------- *)

Lemma blen_ser_int l v : blen (ser_int l v) = isize l.
Proof. unfold ser_int. apply tb_len. Qed.

Lemma drop_all n (bs : bytes) : blen bs <= n -> drop n bs = [].
Proof. unfold drop, blen. intros H. apply skipn_all2. lia. Qed.

Lemma take_all_len n (bs : bytes) : blen bs = n -> take n bs = bs.
Proof. intros H. apply take_all. lia. Qed.

Lemma map_some_app (a b : bytes) : map Some (a ++ b) = map (@Some N) a ++ map Some b.
Proof. apply map_app. Qed.

Lemma map_some_inj (a b : bytes) : map (@Some N) a = map Some b -> a = b.
Proof.
  revert b. induction a as [|x a IH]; intros b H; destruct b as [|y b]; try discriminate; [reflexivity|].
  cbn [map] in H. injection H as Hx Hr. subst y. f_equal. apply IH. exact Hr.
Qed.

(* ---------- 2. the sized image is the serialisation ---------- *)

Lemma ser_all_concat t :
  (forall i m, enc_sized t i = Some m -> exists s, ser t i = Some s /\ m = map Some s) ->
  forall is m, concat_opt (map (enc_sized t) is) = Some m ->
    exists s, ser_all (ser t) is = Some s /\ m = map Some s.
Proof.
  intros H. induction is as [|i r IH]; intros m Hm.
  - cbn [map concat_opt] in Hm. injection Hm as <-. exists []. split; reflexivity.
  - cbn [map concat_opt] in Hm. destruct (enc_sized t i) as [e|] eqn:Ee; [|discriminate].
    destruct (concat_opt (map (enc_sized t) r)) as [y|] eqn:Ey; [|discriminate].
    injection Hm as <-. destruct (H i e Ee) as (x & Hx & ->). destruct (IH y eq_refl) as (s & Hs & ->).
    exists (x ++ s). cbn [ser_all]. rewrite Hx, Hs. split; [reflexivity|]. rewrite map_some_app. reflexivity.
Qed.

Lemma ser_enum_unfold s tag d vs i :
  ser (TEnum s tag d vs) i =
  match i with
  | IVar k is =>
      match ser_variant vs (N.to_nat k) is with Some body => Some (ser_int tag k ++ body) | None => None end
  | IDefault =>
      match ser_variant vs (N.to_nat d) [] with Some body => Some (ser_int tag d ++ body) | None => None end
  | _ => None
  end.
Proof. destruct i; reflexivity. Qed.

Lemma ser_struct_unfold s fs i :
  ser (TStruct s fs) i =
  match field_inits i (flen fs) with Some is => ser_fields fs is | None => None end.
Proof. reflexivity. Qed.

Lemma ser_fields_cons t r i is :
  ser_fields (FCons t r) (i :: is) =
  match ser t i, ser_fields r is with Some x, Some y => Some (x ++ y) | _, _ => None end.
Proof. reflexivity. Qed.

Definition ser_variant_image (vs : variants) : Prop :=
  forall k is m0 m, enc_variant vs k is m0 = Some m ->
    exists fs s, vnth k vs = Some fs /\ ser_variant vs k is = Some s /\ m = m0 ++ map Some s /\
                 blen s = sum_ssize fs.

Lemma ser_enum_go tag d vs k is m :
  ialign tag = 1 -> portable_variants vs = true -> no_slack_variants (max_sum_ssize vs) vs = true ->
  ser_variant_image vs ->
  enc_enum_go tag d vs k is = Some m ->
  exists s, ser_variant vs (N.to_nat k) is = Some s /\ m = map Some (ser_int tag k ++ s).
Proof.
  intros Ht Hv Hns Him H. unfold enc_enum_go in H. destruct (k <? vlen vs); [|discriminate].
  rewrite (portable_data_offset tag vs Ht Hv) in H.
  rewrite pad_to_exact in H by (rewrite mlen_scalar; lia).
  destruct (enc_variant vs (N.to_nat k) is (map Some (to_bytes (ibe tag) (isize tag) k))) as [m1|] eqn:Ev;
    [|discriminate].
  injection H as <-. destruct (Him _ _ _ _ Ev) as (fs & s & Hn & Hs & -> & Hl).
  destruct (no_slack_variants_nth _ vs Hns _ _ Hn) as [Heq _].
  exists s. split; [exact Hs|].
  pose proof (portable_enum_size true tag d vs Ht Hv) as Hsz. cbn [ssize] in Hsz. rewrite Hsz.
  rewrite pad_to_exact by (rewrite mlen_app, mlen_scalar, mlen_map_some; lia).
  unfold ser_int. rewrite map_some_app. reflexivity.
Qed.

Lemma ser_sized_mut :
  (forall t, portable t = true -> tight t = true -> forall i m, enc_sized t i = Some m ->
      exists s, ser t i = Some s /\ m = map Some s) /\
  (forall fs, portable_fields fs = true -> tight_fields fs = true ->
      forall is m0 m, enc_fields fs is m0 = Some m ->
      exists s, ser_fields fs is = Some s /\ m = m0 ++ map Some s /\ blen s = sum_ssize fs) /\
  (forall vs, portable_variants vs = true -> tight_variants vs = true -> ser_variant_image vs).
Proof.
  apply ty_mutind.
  - (* TUnit *) intros _ _ i m H. cbn [enc_sized] in H. injection H as <-. exists []. split; reflexivity.
  - (* TInt *) intros it _ _ i m H. cbn [enc_sized] in H. cbn [ser]. unfold ser_int.
    destruct i as [v|is0|k0 is0|is0|is0|s0|is0| |]; try discriminate.
    + destruct (v <=? int_max it); [|discriminate]. injection H as <-. eauto.
    + injection H as <-. eauto.
  - (* TBool *) intros _ _ i m H. cbn [enc_sized] in H. cbn [ser].
    destruct i as [v|is0|k0 is0|is0|is0|s0|is0| |]; try discriminate.
    + destruct (v <=? 1); [|discriminate]. injection H as <-. exists [v]. split; reflexivity.
    + injection H as <-. exists [0]. split; reflexivity.
  - (* TCLike *) intros tag n d _ _ i m H. cbn [enc_sized] in H. cbn [ser]. unfold ser_int.
    destruct i as [v|is0|k0 is0|is0|is0|s0|is0| |]; try discriminate.
    + destruct (v <? n); [|discriminate]. injection H as <-. eauto.
    + injection H as <-. eauto.
  - (* TArr *) intros t IH n Hp Ht i m H. cbn [portable] in Hp. cbn [tight] in Ht. cbn [enc_sized] in H.
    cbn [ser]. destruct (field_inits i n) as [is|]; [|discriminate].
    apply (ser_all_concat t (IH Hp Ht) is m H).
  - (* TVec *) intros t _ l _ _ i m H. cbn [enc_sized] in H. discriminate.
  - (* TStr *) intros l _ _ i m H. cbn [enc_sized] in H. discriminate.
  - (* TFlex *) intros t _ l _ _ i m H. cbn [enc_sized] in H. discriminate.
  - (* TStruct *) intros s fs IH Hp Ht i m H. cbn [portable] in Hp. cbn [tight] in Ht.
    destruct s; [|cbn [enc_sized] in H; discriminate].
    rewrite enc_sized_struct in H. rewrite (portable_struct_size true fs Hp) in H.
    rewrite ser_struct_unfold.
    destruct (field_inits i (flen fs)) as [is|]; [|discriminate].
    destruct (enc_fields fs is []) as [m1|] eqn:Ee; [|discriminate].
    destruct (IH Hp Ht _ _ _ Ee) as (x & Hx & -> & Hl). cbn [app] in H.
    rewrite pad_to_exact in H by (rewrite mlen_map_some; lia). injection H as <-.
    exists x. split; [exact Hx | reflexivity].
  - (* TEnum *) intros s tag d vs IH Hp Ht i m H. apply portable_enum_inv in Hp. destruct Hp as [Hta Hv].
    apply tight_enum_inv in Ht. destruct Ht as [Hns Htv].
    destruct s; [|cbn [enc_sized] in H; discriminate]. specialize (Hns eq_refl).
    rewrite enc_sized_enum in H. rewrite ser_enum_unfold.
    destruct i as [v|is0|k0 is0|is0|is0|s0|is0| |]; try discriminate.
    + destruct (ser_enum_go tag d vs k0 is0 m Hta Hv Hns (IH Hv Htv) H) as (x & Hx & ->).
      rewrite Hx. eauto.
    + destruct (ser_enum_go tag d vs d [] m Hta Hv Hns (IH Hv Htv) H) as (x & Hx & ->).
      rewrite Hx. eauto.
  - (* FNil *) intros _ _ is m0 m H. destruct is as [|i is']; cbn [enc_fields] in H; [|discriminate].
    injection H as <-. exists []. cbn [ser_fields map]. rewrite app_nil_r.
    split; [reflexivity|]. split; reflexivity.
  - (* FCons *) intros t IHt r IHr Hp Ht is m0 m H.
    apply portable_fields_cons in Hp. destruct Hp as [Hpt Hpr].
    apply tight_fields_cons in Ht. destruct Ht as [Htt Htr].
    destruct is as [|i is']; [cbn [enc_fields] in H; discriminate|].
    rewrite (portable_enc_fields_cons t r i is' m0 Hpt) in H.
    destruct (enc_sized t i) as [e|] eqn:Ee; [|discriminate].
    destruct (IHt Hpt Htt _ _ Ee) as (x & Hx & ->).
    destruct (IHr Hpr Htr _ _ _ H) as (y & Hy & -> & Hl).
    pose proof (portable_sized_image_len t Hpt _ _ Ee) as Hlx. rewrite mlen_map_some in Hlx.
    exists (x ++ y). rewrite ser_fields_cons, Hx, Hy. split; [reflexivity|]. split.
    + rewrite map_some_app, <- app_assoc. reflexivity.
    + rewrite blen_app. cbn [sum_ssize]. lia.
  - (* VNil *) intros _ _ k is m0 m H. cbn [enc_variant] in H. discriminate.
  - (* VCons *) intros fs IHf r IHr Hp Ht k is m0 m H.
    apply portable_variants_cons in Hp. destruct Hp as [Hpf Hpr].
    apply tight_variants_cons in Ht. destruct Ht as [Htf Htr].
    cbn [enc_variant] in H. destruct k as [|k'].
    + destruct (field_inits (ISeq is) (flen fs)) as [is'|] eqn:Ef; [|discriminate].
      apply field_inits_seq in Ef. subst is'.
      destruct (enc_fields fs is []) as [e|] eqn:Ee; [|discriminate]. injection H as <-.
      destruct (IHf Hpf Htf _ _ _ Ee) as (x & Hx & He & Hl). cbn [app] in He. subst e.
      exists fs, x. cbn [vnth ser_variant]. split; [reflexivity|]. split; [exact Hx|]. split; [reflexivity|exact Hl].
    + destruct (IHr Hpr Htr _ _ _ _ H) as (fs' & x & Hn & Hx & Hm & Hl).
      exists fs', x. cbn [vnth ser_variant]. split; [exact Hn|]. split; [exact Hx|]. split; [exact Hm|exact Hl].
Qed.

Theorem sized_image_is_ser t i m : wf t = true -> portable t = true -> tight t = true ->
  sized t = true -> enc_sized t i = Some m -> exists s, ser t i = Some s /\ m = map Some s.
Proof. intros _ Hp Ht _ H. exact (proj1 ser_sized_mut t Hp Ht i m H). Qed.

(* ---------- 3. inversion of the primitive writers ---------- *)

Lemma not_ok_crashed c (b : bytes) : crashed c <> (b, Ok tt).
Proof. unfold crashed. discriminate. Qed.
Lemma not_ok_fail b0 k p (b : bytes) : fail b0 k p <> (b, Ok tt).
Proof. unfold fail. discriminate. Qed.
Lemma not_ok_bad_init (b : bytes) : bad_init <> (b, Ok tt).
Proof. unfold bad_init, crashed. discriminate. Qed.

Ltac absurd_eres H :=
  exfalso; first [ exact (not_ok_crashed _ _ H) | exact (not_ok_fail _ _ _ _ H) | exact (not_ok_bad_init _ H)
                 | discriminate H ].

Lemma write_int_inv l v buf b : write_int l v buf = (b, Ok tt) ->
  isize l <= blen buf /\ b = ser_int l v ++ drop (isize l) buf.
Proof.
  intros H. destruct (N.le_gt_cases (isize l) (blen buf)) as [Hle|Hgt].
  - rewrite write_int_ok in H by exact Hle. injection H as <-. split; [exact Hle|reflexivity].
  - exfalso. unfold write_int, write_at in H. rewrite tb_len in H.
    destruct (N.leb_spec (0 + isize l) (blen buf)); [lia|]. cbn [lift] in H. exact (not_ok_crashed _ _ H).
Qed.

Lemma emplace_int_inv l v a slot b : ialign l = 1 -> emplace_int l v a slot = (b, Ok tt) ->
  isize l <= blen slot /\ b = ser_int l v ++ drop (isize l) slot.
Proof.
  intros Hl H. unfold emplace_int in H. rewrite Hl, aligned_1 in H. cbn [negb] in H.
  destruct (N.ltb_spec (blen slot) (isize l)); [absurd_eres H|]. apply write_int_inv. exact H.
Qed.

Lemma eres_split (r : eres) b : (fst r ++ [], snd r) = (b, Ok tt) -> r = (b, Ok tt).
Proof. destruct r as [b0 res]. cbn [fst snd]. rewrite app_nil_r. intros H. exact H. Qed.

(* ---------- 4. the statement of the induction ---------- *)

(* a successful unchecked emplacement writes the serialisation over the head of the buffer and
   leaves everything behind it as it was *)
Definition SERU (t : ty) : Prop := forall pv i a buf buf',
  init_ok t i = true -> utf8_init i = true ->
  emplace_u pv t i a buf = (buf', Ok tt) ->
  exists s, ser t i = Some s /\ blen s = extent t i /\ buf' = s ++ drop (blen s) buf.

Definition SERF (fs : fields) : Prop := forall pv is a data pos b,
  (exists vs, spec_fields fs is = Some vs) -> forallb utf8_init is = true ->
  emplace_fields pv fs is a data pos = (b, Ok tt) ->
  exists s, ser_fields fs is = Some s /\ pos + blen s = extent_fields fs is pos /\
            b = s ++ drop (blen s) data.

Definition SERV (vs : variants) : Prop := forall pv k is a data tag kv tagb b,
  (exists fvs, spec_variant vs k is = Some fvs) -> forallb utf8_init is = true ->
  blen tagb = isize tag ->
  emplace_variant pv vs k is a data tag kv tagb = (b, Ok tt) ->
  exists s, ser_variant vs k is = Some s /\ blen s = extent_variant vs k is /\
            b = ser_int tag kv ++ s ++ drop (blen s) data.

(* ---------- 5. sized types ---------- *)

Lemma seru_sized t : portable t = true -> tight t = true -> sized t = true -> SERU t.
Proof.
  intros Hp Ht Hs pv i a buf buf' _ _ H. rewrite emplace_u_sized in H by exact Hs.
  destruct (enc_sized t i) as [m|] eqn:Em; [|absurd_eres H].
  destruct (proj1 ser_sized_mut t Hp Ht i m Em) as (s & Hser & ->).
  pose proof (portable_sized_image_len t Hp _ _ Em) as Hl. rewrite mlen_map_some in Hl.
  unfold write_masked in H. rewrite mlen_map_some in H.
  destruct (N.leb_spec (blen s) (blen buf)) as [Hle|Hgt]; [|absurd_eres H].
  unfold ok in H. injection H as <-. exists s. split; [exact Hser|].
  split; [rewrite (sized_extent t i Hs); exact Hl|]. apply overlay_some. exact Hle.
Qed.

(* ---------- 6. FlatVec ---------- *)

Lemma vec_items_ser pv et l buf is chk vs buf' :
  wf (TVec et l) = true -> narrow l = true -> portable (TVec et l) = true -> tight et = true ->
  opt_map_all (spec_value et) is = Some vs ->
  vec_items pv et l buf is chk = (buf', Ok tt) ->
  exists body, ser_all (ser et) is = Some body /\ blen body = ssize et * N.of_nat (length is) /\
     buf' = (ser_int l (N.of_nat (length is)) ++ body) ++ drop (isize l + blen body) buf.
Proof.
  intros Hw Hn Hp Htt Hspec H.
  pose proof (vec_consts et l Hw) as (HA & Hld & HdA & Hd0).
  pose proof Hw as Hw0. apply wf_vec_inv in Hw. destruct Hw as (Hwt & Hst & Hl).
  pose proof Hp as Hp0. apply portable_vec_inv in Hp. destruct Hp as [Hpt Hl1].
  pose proof (portable_vec_data_offset et l Hpt Hl) as Hd.
  destruct (elems_encs et Hwt Hst is vs Hspec) as (encs & Hencs & Hlen & Hall & Hcat).
  destruct (ser_all_concat et (proj1 ser_sized_mut et Hpt Htt) is _ Hcat) as (body & Hbody & Hcb).
  destruct (arr_image et (proj1 enc_sized_valid_core et Hwt Hst) is (concat encs) Hcat) as [Hml _].
  rewrite Hcb, mlen_map_some in Hml.
  assert (Hm : vec_data_offset et l <= blen buf).
  { destruct (N.le_gt_cases (vec_data_offset et l) (blen buf)) as [Hle|Hgt]; [exact Hle|].
    exfalso. unfold vec_items, vec_slots in H. rewrite Hencs in H.
    destruct (N.ltb_spec (blen buf) (vec_data_offset et l)); [|lia]. cbn [bind] in H.
    exact (not_ok_crashed _ _ H). }
  pose proof (vec_slots_ok et l (blen buf) Hm) as Hsl.
  set (slots := if ssize et =? 0 then 0 else floor_mul (blen buf - vec_data_offset et l) (align (TVec et l)) / ssize et) in *.
  pose proof (vec_slots_room et l (blen buf) slots Hsl) as Hroom.
  set (n := N.of_nat (length is)) in *.
  set (d := vec_data_offset et l) in *. set (s := ssize et) in *.
  pose proof (floor_mul_le (blen buf - d) _ HA) as Hfl.
  revert H. unfold vec_items. rewrite Hencs, Hsl. cbn [bind]. rewrite (clamp_cap_ok l slots Hn).
  cbv zeta. rewrite Hlen. fold n.
  set (cap := umin slots (int_max l)) in *.
  assert (Hcs : cap <= slots) by (unfold cap; rewrite umin_spec; slia).
  rewrite write_int_ok by slia. cbn [ebind].
  assert (Hfitall : Forall (fun e => mlen e = s) (firstn (N.to_nat cap) encs)).
  { apply Forall_forall. intros e He. rewrite Forall_forall in Hall. apply Hall.
    rewrite <- (firstn_skipn (N.to_nat cap) encs). apply in_or_app. left. exact He. }
  assert (Hfitlen : N.of_nat (length (firstn (N.to_nat cap) encs)) = N.min cap n).
  { rewrite firstn_length. unfold n. slia. }
  rewrite (vec_fill_from0 pv et l buf _ Hld Hm Hfitall).
  2:{ rewrite Hfitlen. fold s d. assert (N.min cap n * s <= slots * s) by (apply N.mul_le_mono_r; slia). slia. }
  cbn [ebind ok]. rewrite Hfitlen. fold d.
  destruct (N.ltb_spec cap n) as [Hc|Hc].
  { intros H. exfalso. destruct chk; cbn [andb] in H; exact (not_ok_fail _ _ _ _ H). }
  rewrite andb_false_r. intros H. injection H as <-.
  assert (Hfit : firstn (N.to_nat cap) encs = encs) by (apply firstn_all2; unfold n in Hc; slia).
  assert (Hmin : N.min cap n = n) by slia.
  rewrite Hfit, Hmin, Hcb.
  assert (Hns : n * s <= blen buf - d).
  { assert (n * s <= slots * s) by (apply N.mul_le_mono_r; slia). slia. }
  exists body. split; [exact Hbody|]. split; [slia|].
  rewrite overlay_some by (rewrite blen_drop; slia).
  rewrite drop_drop. unfold ser_int. rewrite <- !app_assoc. f_equal.
  rewrite (drop_all (isize l) (take d buf)) by (rewrite blen_take; slia).
  cbn [app]. f_equal. f_equal. slia.
Qed.

Lemma seru_vec et l : wf (TVec et l) = true -> narrow_ty (TVec et l) = true ->
  portable (TVec et l) = true -> tight et = true -> SERU (TVec et l).
Proof.
  intros Hw Hnt Hp Htt pv i a buf buf' Hi Hu H. apply narrow_vec_inv in Hnt. destruct Hnt as [_ Hn].
  pose proof (portable_align1 _ Hp) as Hal.
  pose proof Hw as Hw0. apply wf_vec_inv in Hw0. destruct Hw0 as (Hwt & Hst & Hl).
  pose proof Hp as Hp0. apply portable_vec_inv in Hp0. destruct Hp0 as [Hpt Hl1].
  pose proof (portable_vec_data_offset et l Hpt Hl) as Hd.
  assert (Hdef : write_int l 0 buf = (buf', Ok tt) ->
    exists s, Some (ser_int l 0) = Some s /\
      blen s = ceil_mul (vec_data_offset et l + ssize et * 0) (align (TVec et l)) /\
      buf' = s ++ drop (blen s) buf).
  { intros Hwr. apply write_int_inv in Hwr. destruct Hwr as [Hle ->].
    exists (ser_int l 0). split; [reflexivity|]. rewrite blen_ser_int. split; [|reflexivity].
    rewrite Hal, ceil_mul_1, Hd. lia. }
  assert (Hitems : forall is chk, (exists vs, opt_map_all (spec_value et) is = Some vs) ->
    vec_items pv et l buf is chk = (buf', Ok tt) ->
    exists s, match ser_all (ser et) is with
              | Some body => Some (ser_int l (N.of_nat (length is)) ++ body)
              | None => None
              end = Some s /\
      blen s = ceil_mul (vec_data_offset et l + ssize et * N.of_nat (length is)) (align (TVec et l)) /\
      buf' = s ++ drop (blen s) buf).
  { intros is chk [vs Es] Hv.
    destruct (vec_items_ser pv et l buf is chk vs buf' Hw Hn Hp Htt Es Hv) as (body & Hb & Hbl & ->).
    rewrite Hb. eexists. split; [reflexivity|]. rewrite blen_app, blen_ser_int. split.
    - rewrite Hal, ceil_mul_1, Hd. lia.
    - reflexivity. }
  unfold init_ok in Hi.
  destruct i as [v|is0|k0 is0|is0|is0|s0|is0| |]; cbn [spec_value] in Hi; try discriminate.
  - destruct (opt_map_all (spec_value et) is0) as [vs|] eqn:Es; [|discriminate].
    rewrite emplace_u_vec_arr in H. cbn [ser extent]. apply (Hitems is0 true); eauto.
  - destruct (opt_map_all (spec_value et) is0) as [vs|] eqn:Es; [|discriminate].
    rewrite emplace_u_vec_iter in H. cbn [ser extent]. apply (Hitems is0 false); eauto.
  - cbn [emplace_u] in H. cbn [ser extent]. apply Hdef. exact H.
  - cbn [emplace_u] in H. cbn [ser extent]. apply Hdef. exact H.
Qed.

(* ---------- 7. FlatString ---------- *)

Lemma seru_str l : wf (TStr l) = true -> narrow_ty (TStr l) = true -> portable (TStr l) = true ->
  SERU (TStr l).
Proof.
  intros Hw Hn Hp pv i a buf buf' Hi Hu H. cbn [narrow_ty] in Hn. cbn [wf] in Hw.
  cbn [portable] in Hp. apply portable_int_inv in Hp.
  assert (Hdef : write_int l 0 buf = (buf', Ok tt) ->
    exists s, Some (ser_int l 0) = Some s /\ blen s = ceil_mul (isize l + 0) (ialign l) /\
      buf' = s ++ drop (blen s) buf).
  { intros Hwr. apply write_int_inv in Hwr. destruct Hwr as [Hle ->].
    exists (ser_int l 0). split; [reflexivity|]. rewrite blen_ser_int. split; [|reflexivity].
    rewrite Hp, ceil_mul_1. lia. }
  unfold init_ok in Hi.
  destruct i as [v|is0|k0 is0|is0|is0|s|is0| |]; cbn [spec_value] in Hi; try discriminate.
  2:{ cbn [emplace_u] in H. cbn [ser extent]. apply Hdef. exact H. }
  2:{ cbn [emplace_u] in H. cbn [ser extent]. apply Hdef. exact H. }
  clear Hdef Hi Hu. cbn [ser extent]. rewrite Hp, ceil_mul_1.
  assert (Hm : isize l <= blen buf).
  { destruct (N.le_gt_cases (isize l) (blen buf)) as [Hle|Hgt]; [exact Hle|].
    exfalso. cbn [emplace_u] in H. unfold str_slots in H.
    destruct (N.ltb_spec (blen buf) (isize l)); [|lia]. cbn [bind] in H. exact (not_ok_crashed _ _ H). }
  revert H. cbn [emplace_u]. rewrite (str_slots_ok l _ Hm). cbn [bind]. rewrite (clamp_cap_ok l _ Hn).
  rewrite Hp, floor_mul_1.
  destruct (N.ltb_spec (umin (blen buf - isize l) (int_max l)) (blen s)) as [Hc|Hc].
  { intros H. absurd_eres H. }
  assert (Hsr : blen s <= blen buf - isize l) by (rewrite umin_spec in Hc; slia).
  rewrite write_int_ok by slia. cbn [ebind].
  set (tb0 := to_bytes (ibe l) (isize l) 0).
  assert (Htb0 : blen tb0 = isize l) by apply tb_len.
  unfold write_at. rewrite blen_app, Htb0, blen_drop.
  destruct (N.leb_spec (isize l + blen s) (isize l + (blen buf - isize l))) as [Hfit|Hfit]; [|slia].
  cbn [lift ok ebind].
  rewrite take_app_len by exact Htb0.
  rewrite drop_app_ge by slia. rewrite Htb0, drop_drop.
  replace (isize l + (isize l + blen s - isize l)) with (isize l + blen s) by slia.
  rewrite write_int_ok by (rewrite !blen_app, Htb0; slia).
  rewrite drop_app_len by exact Htb0.
  intros H. injection H as <-.
  exists (ser_int l (blen s) ++ s). split; [reflexivity|]. rewrite blen_app, blen_ser_int.
  split; [reflexivity|]. unfold ser_int. rewrite <- app_assoc. reflexivity.
Qed.

(* ---------- 8. generated Init of an unsized struct / enum variant ---------- *)

Lemma serf_nil : SERF FNil.
Proof.
  intros pv is a data pos b [vs Hs] _ H. destruct is as [|i is']; [|discriminate].
  cbn [emplace_fields] in H. unfold ok in H. injection H as <-.
  exists []. cbn [ser_fields extent_fields app]. rewrite blen_nil, drop_0.
  split; [reflexivity|]. split; [lia|reflexivity].
Qed.

Lemma serf_single t : SERU t -> SERF (FCons t FNil).
Proof.
  intros IH pv is a data pos b [vs Hs] Hu H.
  destruct is as [|i is']; [discriminate|]. cbn [spec_fields] in Hs.
  destruct (spec_value t i) as [v|] eqn:Ev; [|discriminate].
  destruct is' as [|i2 is2]; [|discriminate]. clear Hs.
  cbn [forallb] in Hu. rewrite andb_true_r in Hu.
  assert (Hi : init_ok t i = true) by (unfold init_ok; rewrite Ev; reflexivity).
  rewrite emplace_fields_single in H.
  destruct (IH pv i a data b Hi Hu H) as (s & Hs & Hl & ->).
  exists s. cbn [ser_fields extent_fields]. rewrite Hs, app_nil_r.
  split; [reflexivity|]. split; [lia|reflexivity].
Qed.

Lemma serf_cons2 t t' r : sized t = true -> portable t' = true ->
  SERU t -> SERF (FCons t' r) -> SERF (FCons t (FCons t' r)).
Proof.
  intros Hst Hpt' IHt IHr pv is a data pos b [vs Hs] Hu H.
  destruct is as [|i is']; [discriminate|]. rewrite spec_fields_cons in Hs.
  destruct (spec_value t i) as [v|] eqn:Ev; [|discriminate].
  destruct (spec_fields (FCons t' r) is') as [vr|] eqn:Er; [|discriminate]. clear Hs.
  cbn [forallb] in Hu. apply andb_true_iff in Hu. destruct Hu as [Hui Hur].
  assert (Hi : init_ok t i = true) by (unfold init_ok; rewrite Ev; reflexivity).
  rewrite emplace_fields_cons2 in H. cbv zeta in H.
  rewrite extent_fields_cons2.
  rewrite (portable_pos_next pos t t' Hpt') in *.
  replace (pos + ssize t - pos) with (ssize t) in H by lia.
  destruct (N.ltb_spec (blen data) (ssize t)) as [Hc|Hc]; [absurd_eres H|].
  destruct (emplace_u pv t i a (take (ssize t) data)) as [piece' res] eqn:Ee.
  destruct res as [[]|k p|c]; [|discriminate H|discriminate H].
  destruct (IHt pv i a _ piece' Hi Hui Ee) as (x & Hx & Hlx & ->).
  rewrite (sized_extent t i Hst) in Hlx.
  rewrite drop_all in H by (rewrite blen_take; lia). rewrite app_nil_r in H.
  destruct (emplace_fields pv (FCons t' r) is' (a + ssize t) (drop (ssize t) data) (pos + ssize t))
    as [b2 res2] eqn:Er2.
  cbn [fst snd] in H. injection H as <- ->.
  destruct (IHr pv is' _ _ _ b2 ltac:(eauto) Hur Er2) as (y & Hy & Hly & ->).
  exists (x ++ y). rewrite ser_fields_cons, Hx, Hy. split; [reflexivity|]. split.
  - rewrite blen_app. lia.
  - rewrite <- app_assoc. f_equal. f_equal. rewrite drop_drop, blen_app, Hlx. reflexivity.
Qed.

Lemma serv_here fs r : SERF fs -> portable_fields fs = true ->
  forall pv is a data tag kv tagb b,
  (exists fvs, spec_fields fs is = Some fvs) -> forallb utf8_init is = true ->
  blen tagb = isize tag ->
  emplace_variant pv (VCons fs r) O is a data tag kv tagb = (b, Ok tt) ->
  exists s, ser_fields fs is = Some s /\ blen s = extent_fields fs is 0 /\
            b = ser_int tag kv ++ s ++ drop (blen s) data.
Proof.
  intros IH Hpf pv is a data tag kv tagb b [fvs Hs] Hu Ht H.
  rewrite emplace_variant_here, (field_inits_seq_ok fs is fvs Hs) in H. cbv zeta in H.
  rewrite (portable_align_fields1 fs Hpf), aligned_1 in H. cbn [negb] in H.
  assert (H' : match write_int tag kv tagb with
               | (tagb', Ok _) =>
                   let rr := emplace_fields pv fs is a data 0 in (tagb' ++ fst rr, snd rr)
               | (_, _) => crashed OobWrite
               end = (b, Ok tt)).
  { destruct fs as [|t0 r0]; [exact H|].
    destruct (blen data <? fold_min_size 0 (FCons t0 r0)); [absurd_eres H|exact H]. }
  clear H. rewrite write_int_ok in H' by lia. cbv zeta in H'.
  rewrite drop_all in H' by lia. rewrite app_nil_r in H'.
  destruct (emplace_fields pv fs is a data 0) as [b2 res2] eqn:Er2.
  cbn [fst snd] in H'. injection H' as <- ->.
  destruct (IH pv is a data 0 b2 ltac:(eauto) Hu Er2) as (y & Hy & Hly & ->).
  exists y. split; [exact Hy|]. split; [lia|reflexivity].
Qed.

Lemma serv_nil : SERV VNil.
Proof. intros pv k is a data tag kv tagb b [fvs Hs]. discriminate. Qed.

Lemma serv_cons fs r : SERF fs -> portable_fields fs = true -> SERV r -> SERV (VCons fs r).
Proof.
  intros IHf Hpf IHr pv k is a data tag kv tagb b Hs Hu Ht H.
  destruct k as [|k'].
  - cbn [spec_variant] in Hs. cbn [ser_variant extent_variant].
    apply (serv_here fs r IHf Hpf pv is a data tag kv tagb b Hs Hu Ht H).
  - change (emplace_variant pv (VCons fs r) (S k') is a data tag kv tagb)
      with (emplace_variant pv r k' is a data tag kv tagb) in H.
    cbn [spec_variant] in Hs. cbn [ser_variant extent_variant].
    apply (IHr pv k' is a data tag kv tagb b Hs Hu Ht H).
Qed.

(* ---------- 9. unsized struct ---------- *)

Lemma seru_struct fs : portable_fields fs = true -> SERF fs -> SERU (TStruct false fs).
Proof.
  intros Hpf IH pv i a buf buf' Hi Hu H.
  unfold init_ok in Hi. cbn [spec_value] in Hi.
  destruct (field_inits i (flen fs)) as [is|] eqn:Ef; [|discriminate].
  destruct (spec_fields fs is) as [vs|] eqn:Es; [|discriminate]. clear Hi.
  pose proof (field_inits_utf8 _ _ _ Ef Hu) as Hui.
  rewrite emplace_u_struct, Ef in H. cbv zeta in H.
  rewrite (portable_align_fields1 fs Hpf), aligned_1, floor_mul_1 in H. cbn [negb] in H.
  destruct (blen buf <? fold_min_size 0 fs); [absurd_eres H|].
  rewrite (take_all (blen buf) buf), (drop_all (blen buf) buf) in H by lia.
  apply eres_split in H.
  destruct (IH pv is a buf 0 buf' ltac:(eauto) Hui H) as (s & Hs & Hl & ->).
  exists s. rewrite ser_struct_unfold, Ef. split; [exact Hs|]. split; [|reflexivity].
  cbn [extent]. rewrite Ef, (portable_align_fields1 fs Hpf), ceil_mul_1. lia.
Qed.

(* ---------- 10. unsized enum ---------- *)

Lemma enum_go_ser pv tag vs a buf k is fvs buf' :
  ialign tag = 1 -> portable_variants vs = true -> SERV vs ->
  spec_variant vs (N.to_nat k) is = Some fvs -> forallb utf8_init is = true ->
  enum_go pv tag vs a buf k is = (buf', Ok tt) ->
  exists s, ser_variant vs (N.to_nat k) is = Some s /\
    isize tag + blen s = ceil_mul (data_offset tag vs + extent_variant vs (N.to_nat k) is)
                                  (umax (ialign tag) (align_variants vs)) /\
    buf' = (ser_int tag k ++ s) ++ drop (isize tag + blen s) buf.
Proof.
  intros Hta Hpv IH Hs Hu H. unfold enum_go in H.
  destruct (negb (k <? vlen vs)); [absurd_eres H|]. cbv zeta in H.
  rewrite (portable_data_offset tag vs Hta Hpv), Hta, (portable_align_variants1 vs Hpv), umax_1_1 in *.
  rewrite ceil_mul_1.
  destruct (N.ltb_spec (blen buf) (isize tag)) as [Hc|Hc]; [absurd_eres H|].
  rewrite floor_mul_1 in H.
  rewrite (take_all (blen (drop (isize tag) buf))), (drop_all (blen (drop (isize tag) buf))) in H by lia.
  apply eres_split in H.
  assert (Htl : blen (take (isize tag) buf) = isize tag) by (apply blen_take_le; lia).
  destruct (IH pv (N.to_nat k) is _ _ tag k _ buf' ltac:(eauto) Hu Htl H) as (s & Hser & Hl & ->).
  exists s. split; [exact Hser|]. split; [lia|].
  rewrite <- app_assoc, drop_drop. reflexivity.
Qed.

Lemma seru_enum tag d vs : portable (TEnum false tag d vs) = true -> SERV vs -> SERU (TEnum false tag d vs).
Proof.
  intros Hp IH pv i a buf buf' Hi Hu H. apply portable_enum_inv in Hp. destruct Hp as [Hta Hpv].
  rewrite emplace_u_enum in H. rewrite ser_enum_unfold.
  unfold init_ok in Hi. cbn [spec_value] in Hi.
  destruct i as [v|is0|k0 is0|is0|is0|s0|is0| |]; try discriminate.
  - destruct (spec_variant vs (N.to_nat k0) is0) as [fvs|] eqn:Es; [|discriminate].
    cbn [utf8_init] in Hu.
    destruct (enum_go_ser pv tag vs a buf k0 is0 fvs buf' Hta Hpv IH Es Hu H) as (s & Hs & Hl & ->).
    rewrite Hs. eexists. split; [reflexivity|]. rewrite blen_app, blen_ser_int.
    split; [exact Hl | reflexivity].
  - destruct (spec_variant vs (N.to_nat d) []) as [fvs|] eqn:Es; [|discriminate].
    destruct (enum_go_ser pv tag vs a buf d [] fvs buf' Hta Hpv IH Es eq_refl H) as (s & Hs & Hl & ->).
    rewrite Hs. eexists. split; [reflexivity|]. rewrite blen_app, blen_ser_int.
    split; [exact Hl | reflexivity].
Qed.

(* ---------- 11. FlexVec ---------- *)

Definition flex_sum (et : ty) (l : intty) (is : list init) : N :=
  sum_list (map (fun j => isize l + extent et j) is).

Lemma flex_item_ser pv et i pa payload payload' :
  wf et = true -> narrow_ty et = true -> portable et = true -> SERU et ->
  init_ok et i = true -> utf8_init i = true ->
  flex_item_emp pv et i pa payload = (payload', Ok tt) ->
  exists x, ser et i = Some x /\ blen x = extent et i /\ payload' = x ++ drop (blen x) payload /\
            size_m et payload' = Ok (extent et i).
Proof.
  intros Hw Hn Hp IH Hi Hu H. unfold flex_item_emp in H.
  destruct (check_align_min et pa payload) as [[]|k p|c] eqn:Ec; [|absurd_eres H|absurd_eres H].
  unfold check_align_min in Ec. rewrite (portable_align1 et Hp), aligned_1 in Ec. cbn [negb] in Ec.
  destruct (N.ltb_spec (blen payload) (min_size et)) as [Hc|Hc]; [discriminate|].
  assert (Ha : aligned pa (align et) = true) by (rewrite (portable_align1 et Hp); apply aligned_1).
  destruct (proj1 emp_mut et Hw Hn pv i pa payload Hi Hu Ha Hc) as (_ & _ & H3 & _).
  rewrite H in H3. cbn [fst snd] in H3. destruct (H3 eq_refl) as (_ & _ & Hsz).
  destruct (IH pv i pa payload payload' Hi Hu H) as (x & Hx & Hl & E).
  exists x. split; [exact Hx|]. split; [exact Hl|]. split; [exact E|exact Hsz].
Qed.

Lemma flex_fill_ser pv et l : wf (TFlex et l) = true -> narrow_ty (TFlex et l) = true ->
  portable (TFlex et l) = true -> SERU et ->
  forall r i pre prev a data pos b,
    Forall (fun i => init_ok et i = true /\ utf8_init i = true) (i :: r) ->
    flex_fill et l (flex_item_emp pv et) (size_m et) (i :: r) pre prev a data pos = (b, Ok tt) ->
    exists y, ser_chain l (ser et) i r = Some y /\ blen y = flex_sum et l (i :: r) /\
              b = seal l prev pre ++ y ++ drop (blen y) data.
Proof.
  intros Hw Hnt Hp IH.
  pose proof (portable_align1 _ Hp) as Hal.
  apply wf_flex_inv in Hw. destruct Hw as [Hwt Hwl].
  apply narrow_flex_inv in Hnt. destruct Hnt as [Hnet Hn].
  apply portable_flex_inv in Hp. destruct Hp as [Hpt Hl1].
  pose proof (portable_flex_offset_size et l Hpt Hwl) as Hos.
  induction r as [|j r' IHr]; intros i pre prev a data pos b Hall H;
    inversion Hall as [|i0 r0 [Hi Hu] Hallr]; subst i0 r0;
    rewrite flex_fill_cons in H; unfold ff_step in H; cbv zeta in H; rewrite Hos, Hal in H;
    (destruct (N.ltb_spec (blen data) (isize l)) as [Hc|Hc]; [absurd_eres H|]);
    destruct (flex_item_emp pv et i (a + isize l) (drop (isize l) data)) as [payload' res] eqn:Eitem;
    (destruct res as [[]|k p|c]; [|discriminate H|discriminate H]);
    destruct (flex_item_ser pv et i _ _ payload' Hwt Hnet Hpt IH Hi Hu Eitem) as (x & Hx & Hlx & Epl & Hsz);
    rewrite Hsz in H; cbv beta iota in H; rewrite ceil_mul_1 in H; unfold from_usize in H;
    (destruct (N.leb_spec (isize l + extent et i) (int_max l)) as [Hom|Hom]; [|absurd_eres H]);
    (destruct (N.ltb_spec (isize l + extent et i) (int_max l)) as [Holt|Holt]; [|absurd_eres H]);
    destruct (emplace_int l (int_max l) a (take (isize l) data)) as [slot' res2] eqn:Eslot;
    (destruct res2 as [[]|k p|c]; [|discriminate H|discriminate H]);
    apply (emplace_int_inv l _ a _ slot' Hl1) in Eslot; destruct Eslot as [_ Eslot];
    rewrite drop_all, app_nil_r in Eslot by (rewrite blen_take; lia);
    (destruct (N.ltb_spec (blen payload') (extent et i)) as [Hps|Hps]; [absurd_eres H|]);
    change (match prev with
            | Some (pp, po) => take pp pre ++ to_bytes (ibe l) (isize l) po ++ drop (pp + isize l) pre
            | None => pre
            end) with (seal l prev pre) in H;
    rewrite Epl in H; rewrite <- Hlx in H; rewrite take_app_exact, drop_app_exact in H;
    subst slot'.
  - (* the last item keeps its marker *)
    cbn [flex_fill] in H. unfold ok in H. injection H as <-.
    exists (ser_int l (int_max l) ++ x). cbn [ser_chain]. rewrite Hx. split; [reflexivity|].
    rewrite blen_app, blen_ser_int. split.
    + unfold flex_sum. cbn [map sum_list]. lia.
    + rewrite <- !app_assoc. f_equal. f_equal. f_equal. rewrite drop_drop. reflexivity.
  - (* the item is sealed by the next one *)
    destruct (IHr j _ _ _ _ _ b Hallr H) as (y & Hy & Hly & ->).
    exists (ser_int l (isize l + blen x) ++ x ++ y).
    change (ser_chain l (ser et) i (j :: r')) with
      (match ser et i with
       | None => None
       | Some x0 => match ser_chain l (ser et) j r' with
                    | Some y0 => Some (ser_int l (isize l + blen x0) ++ x0 ++ y0)
                    | None => None
                    end
       end).
    rewrite Hx, Hy. split; [reflexivity|]. rewrite !blen_app, blen_ser_int. split.
    + unfold flex_sum in *. cbn [map sum_list] in *. lia.
    + cbn [seal]. rewrite take_app_exact.
      rewrite drop_app_ge by lia.
      replace (blen (seal l prev pre) + isize l - blen (seal l prev pre)) with (isize l) by lia.
      rewrite drop_app_len by apply blen_ser_int.
      unfold ser_int. rewrite <- !app_assoc. f_equal. f_equal. f_equal. f_equal.
      rewrite !drop_drop. f_equal; lia.
Qed.

Lemma seru_flex et l : wf (TFlex et l) = true -> narrow_ty (TFlex et l) = true ->
  portable (TFlex et l) = true -> SERU et -> SERU (TFlex et l).
Proof.
  intros Hw Hnt Hp IH pv i a buf buf' Hi Hu H.
  pose proof (portable_align1 _ Hp) as Hal.
  pose proof Hw as Hw0. apply wf_flex_inv in Hw0. destruct Hw0 as [Hwt Hwl].
  pose proof Hp as Hp0. apply portable_flex_inv in Hp0. destruct Hp0 as [Hpt Hl1].
  pose proof (portable_flex_offset_size et l Hpt Hwl) as Hos.
  assert (Hdef : write_int l 0 buf = (buf', Ok tt) ->
    exists s, Some (ser_int l 0) = Some s /\ blen s = flex_offset_size et l /\
      buf' = s ++ drop (blen s) buf).
  { intros Hwr. apply write_int_inv in Hwr. destruct Hwr as [Hle ->].
    exists (ser_int l 0). split; [reflexivity|]. rewrite blen_ser_int. split; [|reflexivity].
    rewrite Hos. reflexivity. }
  unfold init_ok in Hi.
  destruct i as [v|is0|k0 is0|is0|is0|s0|is0| |]; cbn [spec_value] in Hi; try discriminate.
  2:{ cbn [emplace_u] in H. cbn [ser extent]. apply Hdef. exact H. }
  2:{ cbn [emplace_u] in H. cbn [ser extent]. apply Hdef. exact H. }
  destruct (opt_map_all (spec_value et) is0) as [vs|] eqn:Es; [|discriminate]. clear Hi Hdef.
  cbn [utf8_init] in Hu. pose proof (flex_inits_ok et is0 vs Es Hu) as Hall.
  rewrite emplace_u_flex in H. cbv zeta in H. rewrite Hal, floor_mul_1 in H.
  rewrite (take_all (blen buf) buf), (drop_all (blen buf) buf) in H by lia.
  destruct (emplace_int l 0 a buf) as [data0 res0] eqn:E0.
  destruct res0 as [[]|k p|c]; [|discriminate H|discriminate H].
  apply (emplace_int_inv l 0 a buf data0 Hl1) in E0. destruct E0 as [Hle ->].
  apply eres_split in H.
  destruct is0 as [|x r].
  - cbn [flex_fill] in H. unfold ok in H. injection H as <-. cbn [ser extent app].
    exists (ser_int l 0). split; [reflexivity|]. rewrite blen_ser_int. split; [exact (eq_sym Hos)|reflexivity].
  - destruct (flex_fill_ser pv et l Hw Hnt Hp IH r x [] None a _ 0 buf' Hall H) as (y & Hy & Hly & ->).
    cbn [seal app]. exists y. change (ser (TFlex et l) (IFlex (x :: r))) with (ser_chain l (ser et) x r).
    split; [exact Hy|].
    assert (Hge : isize l <= blen y).
    { rewrite Hly. unfold flex_sum. cbn [map sum_list]. lia. }
    split.
    + rewrite Hly. unfold flex_sum. cbn [extent]. rewrite Hos, Hal.
      apply f_equal. apply map_ext. intros j. rewrite ceil_mul_1. reflexivity.
    + f_equal. rewrite drop_app_ge by (rewrite blen_ser_int; lia). rewrite blen_ser_int, drop_drop.
      f_equal. lia.
Qed.

(* ---------- 12. the mutual induction ---------- *)

Theorem seru_mut :
  (forall t, wf t = true -> narrow_ty t = true -> portable t = true -> tight t = true -> SERU t) /\
  (forall fs, wfF fs -> narrow_fields fs = true -> portable_fields fs = true -> tight_fields fs = true ->
     SERF fs) /\
  (forall vs, wf_variants false vs = true -> narrow_variants vs = true -> portable_variants vs = true ->
     tight_variants vs = true -> SERV vs).
Proof.
  apply ty_mutind.
  - intros _ _ Hp Ht. apply seru_sized; auto.
  - intros it _ _ Hp Ht. apply seru_sized; auto.
  - intros _ _ Hp Ht. apply seru_sized; auto.
  - intros tag n d _ _ Hp Ht. apply seru_sized; auto.
  - intros t _ n _ _ Hp Ht. apply seru_sized; auto.
  - intros t _ l Hw Hn Hp Ht. apply seru_vec; auto.
  - intros l Hw Hn Hp _. apply seru_str; auto.
  - intros t IH l Hw Hn Hp Ht. apply seru_flex; auto.
    apply wf_flex_inv in Hw. apply narrow_flex_inv in Hn. apply portable_flex_inv in Hp.
    cbn [tight] in Ht. apply IH; tauto.
  - intros s fs IH Hw Hn Hp Ht. destruct s; [apply seru_sized; auto|].
    cbn [portable] in Hp. cbn [tight] in Ht. cbn [narrow_ty] in Hn.
    apply seru_struct; auto.
    destruct (wf_struct_wfF _ _ Hw) as [Hnil|Hf]; [subst fs; apply serf_nil|]. apply IH; auto.
  - intros s tag d vs IH Hw Hn Hp Ht. destruct s; [apply seru_sized; auto|].
    apply seru_enum; auto. apply narrow_enum_inv in Hn. apply tight_enum_inv in Ht.
    pose proof (portable_enum_inv _ _ _ _ Hp) as [_ Hpv].
    pose proof (wf_enum_inv _ _ _ _ Hw) as (_ & _ & _ & _ & _ & Hwv). apply IH; tauto.
  - intros _ _ _ _. apply serf_nil.
  - intros t IHt r IHr Hf Hn Hp Ht.
    cbn [narrow_fields] in Hn. apply andb_true_iff in Hn. destruct Hn as [Hnt Hnr].
    apply portable_fields_cons in Hp. destruct Hp as [Hpt Hpr].
    apply tight_fields_cons in Ht. destruct Ht as [Htt Htr].
    destruct (wfF_cons _ _ Hf) as [Hwt Hr].
    destruct r as [|t' r'].
    + apply serf_single. apply IHt; auto.
    + destruct Hr as [Hr|[Hst Hr]]; [discriminate|].
      apply serf_cons2; auto.
      apply portable_fields_cons in Hpr. tauto.
  - intros _ _ _ _. apply serv_nil.
  - intros fs IHf r IHr Hw Hn Hp Ht.
    cbn [narrow_variants] in Hn. apply andb_true_iff in Hn. destruct Hn as [Hnf Hnr].
    apply portable_variants_cons in Hp. destruct Hp as [Hpf Hpr].
    apply tight_variants_cons in Ht. destruct Ht as [Htf Htr].
    pose proof (wf_variants_cons _ _ _ Hw) as [Hf Hr].
    apply serv_cons; auto.
    destruct Hf as [->|Hf]; [apply serf_nil|]. apply IHf; auto.
Qed.

Theorem emplace_u_is_ser t : wf t = true -> narrow_ty t = true -> portable t = true -> tight t = true ->
  forall pv i a buf buf', init_ok t i = true -> utf8_init i = true ->
    emplace_u pv t i a buf = (buf', Ok tt) ->
    exists s, ser t i = Some s /\ blen s = extent t i /\ buf' = s ++ drop (blen s) buf.
Proof. intros Hw Hn Hp Ht. exact (proj1 seru_mut t Hw Hn Hp Ht). Qed.

(* ---------- 13. new_in_place (C17) ---------- *)

Theorem image_is_reference_serialisation t i : wf t = true -> narrow_ty t = true ->
  portable t = true -> tight t = true -> init_ok t i = true -> utf8_init i = true ->
  forall pv a buf buf', new_in_place pv t i a buf = (buf', Ok tt) ->
    exists s, ser t i = Some s /\ blen s = extent t i /\ take (extent t i) buf' = s.
Proof.
  intros Hw Hn Hp Ht Hi Hu pv a buf buf' H. unfold new_in_place, emplace in H.
  destruct (check_align_min t a buf) as [[]|k p|c]; [|absurd_eres H|absurd_eres H].
  destruct (emplace_u_is_ser t Hw Hn Hp Ht pv i a buf buf' Hi Hu H) as (s & Hs & Hl & ->).
  exists s. split; [exact Hs|]. split; [exact Hl|]. apply take_app_len. exact Hl.
Qed.

Theorem image_function_of_content t i : wf t = true -> narrow_ty t = true ->
  portable t = true -> tight t = true -> init_ok t i = true -> utf8_init i = true ->
  forall pv1 pv2 a1 a2 buf1 buf2 b1 b2,
    new_in_place pv1 t i a1 buf1 = (b1, Ok tt) -> new_in_place pv2 t i a2 buf2 = (b2, Ok tt) ->
    take (extent t i) b1 = take (extent t i) b2.
Proof.
  intros Hw Hn Hp Ht Hi Hu pv1 pv2 a1 a2 buf1 buf2 b1 b2 H1 H2.
  destruct (image_is_reference_serialisation t i Hw Hn Hp Ht Hi Hu pv1 a1 buf1 b1 H1) as (s1 & Hs1 & _ & E1).
  destruct (image_is_reference_serialisation t i Hw Hn Hp Ht Hi Hu pv2 a2 buf2 b2 H2) as (s2 & Hs2 & _ & E2).
  rewrite E1, E2. rewrite Hs1 in Hs2. injection Hs2 as ->. reflexivity.
Qed.

(* ---------- 14. ser is defined exactly for well-typed expressions ---------- *)

Lemma ser_all_is_some t : (forall i, is_some (spec_value t i) = is_some (ser t i)) ->
  forall is, is_some (opt_map_all (spec_value t) is) = is_some (ser_all (ser t) is).
Proof.
  intros H. induction is as [|i r IH]; [reflexivity|].
  cbn [opt_map_all ser_all]. specialize (H i).
  destruct (spec_value t i), (ser t i); cbn [is_some] in H; try discriminate; [|reflexivity].
  destruct (opt_map_all (spec_value t) r), (ser_all (ser t) r); cbn [is_some] in IH; try discriminate; reflexivity.
Qed.

Lemma ser_chain_is_some t l : (forall i, is_some (spec_value t i) = is_some (ser t i)) ->
  forall r x, is_some (opt_map_all (spec_value t) (x :: r)) = is_some (ser_chain l (ser t) x r).
Proof.
  intros H. induction r as [|j r' IH]; intros x.
  - cbn [opt_map_all ser_chain]. specialize (H x).
    destruct (spec_value t x), (ser t x); cbn [is_some] in H; try discriminate; reflexivity.
  - specialize (IH j).
    change (opt_map_all (spec_value t) (x :: j :: r')) with
      (match spec_value t x, opt_map_all (spec_value t) (j :: r') with
       | Some y, Some ys => Some (y :: ys)
       | _, _ => None
       end).
    change (ser_chain l (ser t) x (j :: r')) with
      (match ser t x with
       | None => None
       | Some x0 => match ser_chain l (ser t) j r' with
                    | Some y0 => Some (ser_int l (isize l + blen x0) ++ x0 ++ y0)
                    | None => None
                    end
       end).
    specialize (H x).
    destruct (spec_value t x), (ser t x); cbn [is_some] in H; try discriminate; [|reflexivity].
    destruct (opt_map_all (spec_value t) (j :: r')), (ser_chain l (ser t) j r'); cbn [is_some] in IH;
      try discriminate; reflexivity.
Qed.

Lemma ser_defined_mut :
  (forall t i, is_some (spec_value t i) = is_some (ser t i)) /\
  (forall fs is, is_some (spec_fields fs is) = is_some (ser_fields fs is)) /\
  (forall vs k is, is_some (spec_variant vs k is) = is_some (ser_variant vs k is)).
Proof.
  apply ty_mutind.
  - intros i. reflexivity.
  - intros it i. cbn [spec_value ser].
    destruct i as [v|is0|k0 is0|is0|is0|s0|is0| |]; try reflexivity.
    destruct (v <=? int_max it); reflexivity.
  - intros i. cbn [spec_value ser].
    destruct i as [v|is0|k0 is0|is0|is0|s0|is0| |]; try reflexivity.
    destruct (v <=? 1); reflexivity.
  - intros tag n d i. cbn [spec_value ser].
    destruct i as [v|is0|k0 is0|is0|is0|s0|is0| |]; try reflexivity.
    destruct (v <? n); reflexivity.
  - intros t IH n i. cbn [spec_value ser]. destruct (field_inits i n) as [is|]; [|reflexivity].
    pose proof (ser_all_is_some t IH is) as H.
    destruct (opt_map_all (spec_value t) is), (ser_all (ser t) is); cbn [is_some] in *; try discriminate; reflexivity.
  - intros t IH l i. cbn [spec_value ser].
    destruct i as [v|is0|k0 is0|is0|is0|s0|is0| |]; try reflexivity;
      pose proof (ser_all_is_some t IH is0) as H;
      destruct (opt_map_all (spec_value t) is0), (ser_all (ser t) is0); cbn [is_some] in *;
      try discriminate; reflexivity.
  - intros l i. cbn [spec_value ser].
    destruct i as [v|is0|k0 is0|is0|is0|s0|is0| |]; reflexivity.
  - intros t IH l i. cbn [spec_value ser].
    destruct i as [v|is0|k0 is0|is0|is0|s0|is0| |]; try reflexivity.
    destruct is0 as [|x r]; [reflexivity|].
    pose proof (ser_chain_is_some t l IH r x) as H.
    destruct (opt_map_all (spec_value t) (x :: r)), (ser_chain l (ser t) x r); cbn [is_some] in *;
      try discriminate; reflexivity.
  - intros s fs IH i. rewrite ser_struct_unfold. cbn [spec_value].
    destruct (field_inits i (flen fs)) as [is|]; [|reflexivity].
    specialize (IH is). destruct (spec_fields fs is), (ser_fields fs is); cbn [is_some] in *;
      try discriminate; reflexivity.
  - intros s tag d vs IH i. rewrite ser_enum_unfold. cbn [spec_value].
    destruct i as [v|is0|k0 is0|is0|is0|s0|is0| |]; try reflexivity.
    + specialize (IH (N.to_nat k0) is0).
      destruct (spec_variant vs (N.to_nat k0) is0), (ser_variant vs (N.to_nat k0) is0); cbn [is_some] in *;
        try discriminate; reflexivity.
    + specialize (IH (N.to_nat d) []).
      destruct (spec_variant vs (N.to_nat d) []), (ser_variant vs (N.to_nat d) []); cbn [is_some] in *;
        try discriminate; reflexivity.
  - intros is. destruct is; reflexivity.
  - intros t IHt r IHr is. destruct is as [|i is']; [reflexivity|].
    rewrite spec_fields_cons, ser_fields_cons. specialize (IHt i). specialize (IHr is').
    destruct (spec_value t i), (ser t i); cbn [is_some] in IHt; try discriminate; [|reflexivity].
    destruct (spec_fields r is'), (ser_fields r is'); cbn [is_some] in IHr; try discriminate; reflexivity.
  - intros k is. reflexivity.
  - intros fs IHf r IHr k is. destruct k as [|k']; cbn [spec_variant ser_variant]; [apply IHf | apply IHr].
Qed.

Theorem ser_defined t i : wf t = true -> (init_ok t i = true <-> exists s, ser t i = Some s).
Proof.
  intros _. pose proof (proj1 ser_defined_mut t i) as H. unfold init_ok.
  destruct (spec_value t i), (ser t i); cbn [is_some] in H; try discriminate.
  - split; [intros _; eauto | reflexivity].
  - split; [discriminate | intros [s Hs]; discriminate].
Qed.
