(* ErrPosSpec.v — the reference side of C19: which byte of an encoding is "offending".
   Written from the documented format and the reference C layout (RefLayout.v: c_size, c_align,
   round_up, c_union_offset, c_vec_data_offset), not from the validation code: a position p
   (relative to the start of the slice) is offending with kind k when, descending through the
   encoding by the reference offsets, it is
     - a Bool byte greater than 1                                            (InvalidData),
     - the first byte of a tag field whose value is not a variant index      (InvalidEnumTag),
     - the first byte of an ill-formed UTF-8 sequence among the first `len`
       bytes of a string's data                                              (InvalidData),
   inside a struct field, the payload of the stored enum variant, an array element, one of the first
   `len` elements of a vector, or an item of a FlexVec chain. *)
From Coq Require Import List NArith Bool.
From Flatty.Model Require Import Base Ty Utf8 RefLayout.
Open Scope N_scope.

Definition stored (i : intty) (bs : bytes) : N := of_bytes (ibe i) (take (isize i) bs).

(* the items of a FlexVec chain by the documented format: (position of the payload, payload bytes) *)
Fixpoint ref_items (l : intty) (os : N) (fuel : nat) (rem : bytes) (base : N) : list (N * bytes) :=
  match fuel with
  | O => []
  | S f =>
      if blen rem <? isize l then []
      else
        let next := stored l rem in
        if next =? 0 then []
        else if next =? int_max l then [(base + os, drop os rem)]
        else if next <? os then []
        else (base + os, take (next - os) (drop os rem)) :: ref_items l os f (drop next rem) (base + next)
  end.

Fixpoint bad_at (t : ty) (bs : bytes) (p : N) (k : kind) {struct t} : Prop :=
  match t with
  | TUnit | TInt _ => False
  | TBool => p = 0 /\ k = InvalidData /\ exists b r, bs = b :: r /\ 1 < b
  | TCLike tag n _ => p = 0 /\ k = InvalidEnumTag /\ n <= stored tag bs
  | TArr t n =>
      exists i, i < n /\ i * c_size t <= p /\
                bad_at t (take (c_size t) (drop (i * c_size t) bs)) (p - i * c_size t) k
  | TVec t l =>
      let d := c_vec_data_offset t l in
      exists i, i < stored l bs /\ d + i * c_size t <= p /\
                bad_at t (take (c_size t) (drop (d + i * c_size t) bs)) (p - (d + i * c_size t)) k
  | TStr l =>
      k = InvalidData /\
      exists i, utf8_err (take (stored l bs) (drop (isize l) bs)) = Some i /\ p = isize l + i
  | TFlex t l =>
      let os := N.max (isize l) (c_align t) in
      exists pos payload, In (pos, payload) (ref_items l os (S (length bs)) bs 0) /\ pos <= p /\
                          bad_at t payload (p - pos) k
  | TStruct _ fs => bad_fields fs 0 bs p k
  | TEnum _ tag _ vs =>
      let v := stored tag bs in
      (p = 0 /\ k = InvalidEnumTag /\ vlen vs <= v) \/
      (let uo := c_union_offset tag vs in
       uo <= p /\ bad_variant vs (N.to_nat v) (drop uo bs) (p - uo) k)
  end
(* the fields laid out by the C rule starting at offset [off] of [bs] *)
with bad_fields (fs : fields) (off : N) (bs : bytes) (p : N) (k : kind) {struct fs} : Prop :=
  match fs with
  | FNil => False
  | FCons t r =>
      let o := round_up off (c_align t) in
      (o <= p /\ bad_at t (drop o bs) (p - o) k) \/ bad_fields r (o + c_size t) bs p k
  end
with bad_variant (vs : variants) (v : nat) (bs : bytes) (p : N) (k : kind) {struct vs} : Prop :=
  match vs with
  | VNil => False
  | VCons fs r =>
      match v with
      | O => bad_fields fs 0 bs p k
      | S v' => bad_variant r v' bs p k
      end
  end.

Definition content_kind (k : kind) : Prop := k = InvalidData \/ k = InvalidEnumTag.
