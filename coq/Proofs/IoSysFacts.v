(* IoSysFacts.v — the composed async system of Model/Io.v (sys_poll_send, sys_poll_recv, sys_step,
   run_schedule, run_tail): a sender task, a bounded ring pipe and a receiver task polled in an
   arbitrary order, with or without spurious Pending answers.
   Safety: under every interleaving the receiver delivers, in order, a prefix of the sent messages.
   Completion: when both tasks have finished, the sender finished with SOk, the receiver with
   RClosed, and every message was delivered.
   Progress: a variant decreases at every poll of a task that is not blocked; the alternating tail
   finishes both tasks. *)
From Coq Require Import List NArith Bool Lia ZArith ZifyN ZifyBool ZifyNat.
From Flatty.Model Require Import Base Io.
From Flatty.Proofs Require Import ArithFacts BytesFacts IoRecvFacts IoSendFacts.
Import ListNotations.
Open Scope N_scope.

(* ------------------------------------------------------------------ small list facts *)

Lemma firstn_S_skipn {T} : forall (n : nat) (l : list T) x rest, skipn n l = x :: rest ->
  firstn (S n) l = firstn n l ++ [x] /\ skipn (S n) l = rest /\ (n < length l)%nat.
Proof.
  induction n as [|n IH]; intros l x rest H.
  - destruct l as [|y l]; [discriminate|]. cbn [skipn] in H. injection H as -> ->.
    cbn [firstn skipn app length]. repeat split. lia.
  - destruct l as [|y l]; [discriminate|]. cbn [skipn] in H.
    destruct (IH l x rest H) as (H1 & H2 & H3).
    split; [|split].
    + change (firstn (S (S n)) (y :: l)) with (y :: firstn (S n) l). rewrite H1. reflexivity.
    + exact H2.
    + cbn [length]. lia.
Qed.

Lemma skipn_nil_length {T} (n : nat) (l : list T) : skipn n l = [] -> (length l <= n)%nat.
Proof. intros H. pose proof (skipn_length n l) as E. rewrite H in E. cbn [length] in E. lia. Qed.

Lemma skipn_In {T} (n : nat) (l : list T) x rest : skipn n l = x :: rest -> In x l.
Proof.
  intros H. rewrite <- (firstn_skipn n l). apply in_or_app. right. rewrite H. left. reflexivity.
Qed.

Lemma concat_skipn_le (n : nat) (l : list bytes) : blen (concat (skipn n l)) <= blen (concat l).
Proof.
  rewrite <- (firstn_skipn n l) at 2. rewrite concat_app, blen_app. lia.
Qed.

Lemma firstn_exact {T} (a b : list T) : firstn (length a) (a ++ b) = a.
Proof.
  rewrite firstn_app, Nat.sub_diag, firstn_all. cbn [firstn]. apply app_nil_r.
Qed.

Lemma occupied_whole b C : st b = 0 -> en b = C -> blen (data b) = C -> occupied b = data b.
Proof.
  intros Hs He Hc. unfold occupied. rewrite Hs, He, N.sub_0_r, drop_0. apply take_all. lia.
Qed.

Lemma mod_sum_0 A x y : 0 < A -> x mod A = 0 -> y mod A = 0 -> (x + y) mod A = 0.
Proof.
  intros HA Hx Hy. rewrite N.add_mod by lia. rewrite Hx, Hy, N.add_0_l. apply N.mod_0_l. lia.
Qed.

Section Sys.
  (* the message type as the IO layer sees it *)
  Variable A : N.
  Variable validate_f : N -> bytes -> res unit.
  Variable size_f : bytes -> res N.
  Variable I : Type.
  Variable emplace_f : I -> N -> bytes -> bytes * res unit.

  (* C01: validation never crashes;  C05: a validated value has a size within its bytes *)
  Hypothesis H_total : forall a bs, is_crash (validate_f a bs) = false.
  Hypothesis H_size : forall a bs, validate_f a bs = Ok tt ->
    exists n, size_f bs = Ok n /\ 0 < n /\ n <= blen bs.
  Hypothesis H_A : 0 < A.

  (* the run: initialisers, capacities of the two buffers and of the ring, the fill bytes *)
  Variable is0 : list I.
  Variables CAPs CAPr c : N.
  Variable fill_s : N.

  (* the byte strings the sender will transmit (IoSendFacts.msgs) *)
  Definition ms : list bytes := msgs size_f I emplace_f is0 (data (new_buffer CAPs fill_s)).

  Definition sys_init (fill_r : N) : sys I :=
    {| y_send := TIdle I is0;
       y_sd := {| sbuf := new_buffer CAPs fill_s; poisoned := false |};
       y_ring := {| rbytes := []; rcap := c; closed := false |};
       y_recv := None; y_rb := new_buffer CAPr fill_r; y_rpending := false;
       y_delivered := []; y_polls := 0 |}.

  Hypothesis H_good : Forall (emplace_good size_f I emplace_f CAPs) is0.
  Hypothesis H_canon : Forall (canon validate_f size_f A) ms.
  Hypothesis H_fit : forall m, In m ms -> blen m <= CAPr.
  (* nothing to send: the receiver still needs room for one read, and an empty window is "short" *)
  Hypothesis H_nil : ms <> [] \/
    (0 < CAPr /\ forall a, a mod A = 0 -> exists p, validate_f a [] = Err InsufficientSize p).

  Lemma nil_short : forall a, a mod A = 0 -> exists p, validate_f a [] = Err InsufficientSize p.
  Proof.
    destruct H_nil as [Hne|[_ H]]; [|exact H].
    destruct ms as [|m l] eqn:E; [contradiction|].
    inversion H_canon as [|m' l' (H1 & _ & H3 & _) _]; subst.
    intros a Ha. exact (H3 a 0 Ha H1).
  Qed.

  Lemma CAPr_pos : 0 < CAPr.
  Proof.
    destruct H_nil as [Hne|[H _]]; [|exact H].
    destruct ms as [|m l] eqn:E; [contradiction|].
    inversion H_canon as [|m' l' (H1 & _) _]; subst.
    pose proof (H_fit m (or_introl eq_refl)). lia.
  Qed.

  Lemma msgs_length : forall (is : list I) buf, length (msgs size_f I emplace_f is buf) = length is.
  Proof. induction is as [|i r IH]; intros buf; [reflexivity|]. cbn [msgs length]. rewrite IH. reflexivity. Qed.

  Lemma ms_length : length ms = length is0.
  Proof. apply msgs_length. Qed.

  Lemma mbytes_take i buf : emplace_good size_f I emplace_f CAPs i -> blen buf = CAPs ->
    msg_bytes size_f I emplace_f i buf
    = take (blen (msg_bytes size_f I emplace_f i buf)) (msg_buf I emplace_f i buf).
  Proof.
    intros Hg Hc. destruct (Hg buf Hc) as (buf' & n & He1 & Hb & Hsz & Hn0 & Hn).
    unfold msg_bytes, msg_buf. rewrite He1. cbn [fst]. rewrite Hsz.
    rewrite blen_take_le by lia. reflexivity.
  Qed.

  (* ------------------------------------------------------------------ the sender task *)

  (* the bytes the sender has put into the ring so far: the completed messages and the first
     [pos] bytes of the current one *)
  Definition pushed_of (t : stask I) : bytes :=
    match t with
    | TIdle _ is => concat (firstn (length ms - length is) ms)
    | TWriting _ is pos _ =>
        concat (firstn (length ms - S (length is)) ms)
        ++ take pos (nth (length ms - S (length is)) ms [])
    | TDone _ _ => concat ms
    end.
  Definition pushed (y : sys I) : bytes := pushed_of (y_send I y).

  (* the sender between two steps of its poll, having pushed [p] *)
  Definition sinv (t : stask I) (sd : sender) (p : bytes) : Prop :=
    match t with
    | TIdle _ is =>
        sd_ready CAPs sd /\ poisoned sd = false /\ Forall (emplace_good size_f I emplace_f CAPs) is /\
        exists done, ms = done ++ msgs size_f I emplace_f is (data (sbuf sd)) /\ p = concat done
    | TWriting _ is pos count =>
        poisoned sd = false /\ Forall (emplace_good size_f I emplace_f CAPs) is /\
        st (sbuf sd) = 0 /\ en (sbuf sd) = CAPs /\ blen (data (sbuf sd)) = CAPs /\
        pos <= count /\ count <= CAPs /\
        exists done, ms = done ++ take count (data (sbuf sd))
                                :: msgs size_f I emplace_f is (data (sbuf sd)) /\
                     p = concat done ++ take pos (data (sbuf sd))
    | TDone _ o => o = SOk /\ p = concat ms
    end.

  Lemma sinv_pushed t sd p : sinv t sd p -> pushed_of t = p.
  Proof.
    destruct t as [is|is pos count|o]; cbn [sinv pushed_of].
    - intros (_ & _ & _ & done & Hm & ->).
      assert (E : (length ms - length is)%nat = length done).
      { rewrite Hm, app_length, msgs_length. lia. }
      rewrite E. rewrite Hm at 1. rewrite firstn_exact. reflexivity.
    - intros (_ & _ & _ & _ & _ & Hp & _ & done & Hm & ->).
      assert (E : (length ms - S (length is))%nat = length done).
      { rewrite Hm, app_length. cbn [length]. rewrite msgs_length. lia. }
      rewrite E. rewrite Hm at 1. rewrite firstn_exact. rewrite Hm at 1. rewrite nth_middle.
      rewrite take_take by exact Hp. reflexivity.
    - intros (_ & ->). reflexivity.
  Qed.

  (* (a) what was pushed is a prefix of the whole stream *)
  Lemma sinv_prefix t sd p : sinv t sd p -> exists u, p ++ u = concat ms.
  Proof.
    destruct t as [is|is pos count|o]; cbn [sinv].
    - intros (_ & _ & _ & done & Hm & ->). eexists. rewrite Hm, concat_app. reflexivity.
    - intros (_ & _ & _ & _ & _ & Hp & _ & done & Hm & ->).
      exists (drop pos (take count (data (sbuf sd))) ++ concat (msgs size_f I emplace_f is (data (sbuf sd)))).
      rewrite Hm, concat_app. cbn [concat]. rewrite <- !app_assoc. f_equal. rewrite app_assoc. f_equal.
      rewrite <- (take_take pos count (data (sbuf sd)) Hp). apply take_drop.
    - intros (_ & ->). exists []. apply app_nil_r.
  Qed.

  Lemma sinv_done t sd p : sinv t sd p -> sender_done I t = true -> t = TDone I SOk /\ p = concat ms.
  Proof.
    destruct t as [is|is pos count|o]; cbn [sinv sender_done]; try discriminate.
    intros (-> & ->) _. split; reflexivity.
  Qed.

  (* fuel one poll of the sender needs: one turn per byte still to push, two per message, one to stop *)
  Definition sm (t : stask I) (u : bytes) : N :=
    blen u + match t with
             | TIdle _ is => 2 * N.of_nat (length is) + 1
             | TWriting _ is _ _ => 2 * N.of_nat (length is) + 2
             | TDone _ _ => 1
             end.

  Lemma sm_bound t sd p u : sinv t sd p -> p ++ u = concat ms ->
    sm t u <= blen (concat ms) + 2 * N.of_nat (length is0) + 2.
  Proof.
    intros Hs Hu. apply (f_equal blen) in Hu. rewrite blen_app in Hu. rewrite <- ms_length.
    destruct t as [is|is pos count|o]; unfold sm; cbn [sinv] in *.
    - destruct Hs as (_ & _ & _ & done & Hm & _).
      assert (E : length ms = (length done + length is)%nat) by (rewrite Hm, app_length, msgs_length; reflexivity).
      lia.
    - destruct Hs as (_ & _ & _ & _ & _ & _ & _ & done & Hm & _).
      assert (E : length ms = (length done + S (length is))%nat).
      { rewrite Hm, app_length. cbn [length]. rewrite msgs_length. reflexivity. }
      lia.
    - lia.
  Qed.

  Lemma ps_idle_cons fuel spur i rest sd r : sd_ready CAPs sd -> emplace_good size_f I emplace_f CAPs i ->
    sys_poll_send size_f I emplace_f (S fuel) spur (TIdle I (i :: rest)) sd r =
    sys_poll_send size_f I emplace_f fuel spur
      (TWriting I rest 0 (blen (msg_bytes size_f I emplace_f i (data (sbuf sd)))))
      {| sbuf := {| data := msg_buf I emplace_f i (data (sbuf sd)); st := 0; en := CAPs |};
         poisoned := poisoned sd |} r.
  Proof.
    intros (Hs & He & Hc) Hg. cbn [sys_poll_send]. rewrite (alloc_ready CAPs (sbuf sd) Hs He Hc).
    cbn [st en data]. rewrite (occupied_whole {| data := data (sbuf sd); st := 0; en := CAPs |} CAPs)
      by (cbn [st en data]; auto).
    cbn [data].
    destruct (Hg (data (sbuf sd)) Hc) as (buf' & n & He1 & Hb & Hsz & Hn0 & Hn).
    rewrite He1. rewrite IoSendFacts.take_0. cbn [app].
    rewrite (drop_all CAPs (data (sbuf sd))) by lia. rewrite app_nil_r.
    rewrite (occupied_whole {| data := buf'; st := 0; en := CAPs |} CAPs) by (cbn [st en data]; auto).
    cbn [data]. rewrite Hsz.
    assert (E1 : msg_buf I emplace_f i (data (sbuf sd)) = buf') by (unfold msg_buf; rewrite He1; reflexivity).
    assert (E2 : blen (msg_bytes size_f I emplace_f i (data (sbuf sd))) = n).
    { unfold msg_bytes. rewrite E1, Hsz. apply blen_take_le. lia. }
    rewrite E1, E2. reflexivity.
  Qed.

  Lemma ps_writing fuel spur rest pos count sd r :
    sys_poll_send size_f I emplace_f (S fuel) spur (TWriting I rest pos count) sd r =
    if poisoned sd then (TDone I SPanic, sd, r)
    else if pos <? count then
      if spur then (TWriting I rest pos count, sd, r)
      else
        if rcap r - blen (rbytes r) =? 0 then (TWriting I rest pos count, sd, r)
        else
          sys_poll_send size_f I emplace_f fuel false
            (TWriting I rest (pos + umin (blen (offered_of pos count sd)) (rcap r - blen (rbytes r))) count) sd
            {| rbytes := rbytes r ++ take (umin (blen (offered_of pos count sd)) (rcap r - blen (rbytes r)))
                                       (offered_of pos count sd);
               rcap := rcap r; closed := closed r |}
    else sys_poll_send size_f I emplace_f fuel spur (TIdle I rest)
           {| sbuf := clear (sbuf sd); poisoned := poisoned sd |} r.
  Proof. reflexivity. Qed.

  (* what one poll of the sender guarantees *)
  Definition sgood (spur : bool) (t : stask I) (r : ring) (p u : bytes)
      (res : stask I * sender * ring) : Prop :=
    match res with
    | (t', sd', r') =>
      exists add u', rbytes r' = rbytes r ++ add /\ rcap r' = rcap r /\ closed r' = closed r /\
        u = add ++ u' /\ sinv t' sd' (p ++ add) /\ blen (rbytes r') <= rcap r' /\
        (spur = false -> sender_done I t = false -> blen (rbytes r) < rcap r ->
           add <> [] \/ sender_done I t' = true) /\
        (spur = false -> sender_done I t' = true \/ blen (rbytes r') = rcap r')
    end.

  Lemma sgood_intro spur t r p u t' sd' r' add u' :
    rbytes r' = rbytes r ++ add -> rcap r' = rcap r -> closed r' = closed r ->
    u = add ++ u' -> sinv t' sd' (p ++ add) -> blen (rbytes r') <= rcap r' ->
    (spur = false -> sender_done I t = false -> blen (rbytes r) < rcap r ->
       add <> [] \/ sender_done I t' = true) ->
    (spur = false -> sender_done I t' = true \/ blen (rbytes r') = rcap r') ->
    sgood spur t r p u (t', sd', r').
  Proof. intros H1 H2 H3 H4 H5 H6 H7 H8. exists add, u'. tauto. Qed.

  Lemma sgood_stay spur t sd r p u : sinv t sd p -> blen (rbytes r) <= rcap r ->
    (spur = false -> sender_done I t = false -> blen (rbytes r) < rcap r -> False) ->
    (spur = false -> sender_done I t = true \/ blen (rbytes r) = rcap r) ->
    sgood spur t r p u (t, sd, r).
  Proof.
    intros Hs Hr H1 H2. apply sgood_intro with (add := []) (u' := u); rewrite ?app_nil_r; auto;
      intros Ha Hb Hc; exfalso; exact (H1 Ha Hb Hc).
  Qed.

  Lemma sgood_pass spur t1 t2 r p u res : sender_done I t2 = false ->
    sgood spur t2 r p u res -> sgood spur t1 r p u res.
  Proof.
    intros Hd. destruct res as [[t' sd'] r']. unfold sgood.
    intros (add & u' & I1 & I2 & I3 & I4 & I5 & I6 & I7 & I8).
    exists add, u'. repeat (split; [assumption|]). split; [|exact I8].
    intros Ha _ Hc. exact (I7 Ha Hd Hc).
  Qed.

  Lemma poll_send_ok : forall fuel spur t sd r p u,
    sinv t sd p -> p ++ u = concat ms -> sm t u <= N.of_nat fuel -> blen (rbytes r) <= rcap r ->
    sgood spur t r p u (sys_poll_send size_f I emplace_f fuel spur t sd r).
  Proof.
    induction fuel as [|fuel IH]; intros spur t sd r p u Hs Hu Hf Hr.
    { exfalso. destruct t; unfold sm in Hf; lia. }
    destruct t as [is|rest pos count|o].
    - destruct is as [|i rest].
      + (* nothing left: done *)
        cbn [sys_poll_send]. cbn [sinv] in Hs. destruct Hs as (_ & _ & _ & done & Hm & Hp).
        cbn [msgs] in Hm. rewrite app_nil_r in Hm.
        apply sgood_intro with (add := []) (u' := u).
        * symmetry. apply app_nil_r.
        * reflexivity.
        * reflexivity.
        * reflexivity.
        * rewrite app_nil_r. cbn [sinv]. split; [reflexivity|]. rewrite Hp, Hm. reflexivity.
        * exact Hr.
        * intros _ _ _. right. reflexivity.
        * intros _. left. reflexivity.
      + (* alloc, emplacement *)
        cbn [sinv] in Hs. destruct Hs as (Hrd & Hpo & Hall & done & Hm & Hp).
        inversion Hall as [|x l Hg Hall']; subst x l.
        rewrite (ps_idle_cons fuel spur i rest sd r Hrd Hg).
        destruct Hrd as (Hst & Hen & Hcap).
        destruct (blen_msg_bytes size_f I emplace_f CAPs i (data (sbuf sd)) Hg Hcap) as (B1 & B2 & B3 & B4).
        assert (Hs2 : sinv (TWriting I rest 0 (blen (msg_bytes size_f I emplace_f i (data (sbuf sd)))))
                        {| sbuf := {| data := msg_buf I emplace_f i (data (sbuf sd)); st := 0; en := CAPs |};
                           poisoned := poisoned sd |} p).
        { cbn [sinv sbuf poisoned st en data].
          split; [exact Hpo|]. split; [exact Hall'|]. split; [reflexivity|]. split; [reflexivity|].
          split; [exact B3|]. split; [lia|]. split; [exact B2|].
          exists done. split.
          - rewrite Hm. cbn [msgs]. rewrite <- (mbytes_take i (data (sbuf sd)) Hg Hcap). reflexivity.
          - rewrite IoSendFacts.take_0, app_nil_r. exact Hp. }
        apply (sgood_pass spur _ (TWriting I rest 0 (blen (msg_bytes size_f I emplace_f i (data (sbuf sd))))));
          [reflexivity|].
        apply IH; auto. unfold sm in *. cbn [length] in Hf. lia.
    - (* writing *)
      rewrite ps_writing. pose proof Hs as Hs0.
      cbn [sinv] in Hs. destruct Hs as (Hpo & Hall & Hst & Hen & Hcap & Hpc & Hcc & done & Hm & Hp).
      rewrite Hpo.
      destruct (N.ltb_spec pos count) as [Hlt|Hge].
      + destruct spur.
        { apply sgood_stay; auto; intros D; discriminate D. }
        destruct (N.eqb_spec (rcap r - blen (rbytes r)) 0) as [Hfree|Hfree].
        { apply sgood_stay; auto; [intros _ _ Hx; lia|intros _; right; lia]. }
        pose proof (blen_offered pos count sd) as Hbo.
        rewrite (occupied_whole (sbuf sd) CAPs Hst Hen Hcap) in Hbo.
        set (n := umin (blen (offered_of pos count sd)) (rcap r - blen (rbytes r))).
        assert (Hn : n = N.min (count - pos) (rcap r - blen (rbytes r))).
        { unfold n. rewrite umin_spec, Hbo. lia. }
        assert (Hchunk : take n (offered_of pos count sd) = take n (drop pos (data (sbuf sd)))).
        { rewrite take_offered by lia. rewrite (occupied_whole (sbuf sd) CAPs Hst Hen Hcap). reflexivity. }
        rewrite Hchunk.
        set (chunk := take n (drop pos (data (sbuf sd)))).
        assert (Hbc : blen chunk = n).
        { unfold chunk. apply blen_take_le. rewrite blen_drop. lia. }
        assert (Hs2 : sinv (TWriting I rest (pos + n) count) sd (p ++ chunk)).
        { cbn [sinv].
          split; [exact Hpo|]. split; [exact Hall|]. split; [exact Hst|]. split; [exact Hen|].
          split; [exact Hcap|]. split; [lia|]. split; [exact Hcc|].
          exists done. split; [exact Hm|].
          rewrite Hp, <- app_assoc. f_equal. unfold chunk. symmetry. apply take_plus. }
        destruct (sinv_prefix _ _ _ Hs2) as (u1 & Hu1).
        assert (Eu : u = chunk ++ u1).
        { rewrite <- Hu, <- app_assoc in Hu1. apply app_inv_head in Hu1. symmetry. exact Hu1. }
        assert (Hbu : blen u = n + blen u1) by (rewrite Eu, blen_app, Hbc; reflexivity).
        specialize (IH false (TWriting I rest (pos + n) count) sd
                      {| rbytes := rbytes r ++ chunk; rcap := rcap r; closed := closed r |}
                      (p ++ chunk) u1 Hs2 Hu1).
        unfold sm in Hf, IH. cbn [rbytes rcap closed] in IH.
        specialize (IH ltac:(lia) ltac:(rewrite blen_app, Hbc; lia)).
        destruct (sys_poll_send size_f I emplace_f fuel false (TWriting I rest (pos + n) count) sd
                    {| rbytes := rbytes r ++ chunk; rcap := rcap r; closed := closed r |})
          as [[t' sd'] r'].
        unfold sgood in IH. cbn [rbytes rcap closed] in IH.
        destruct IH as (add & u' & I1 & I2 & I3 & I4 & I5 & I6 & I7 & I8).
        apply sgood_intro with (add := chunk ++ add) (u' := u').
        * rewrite I1, app_assoc. reflexivity.
        * exact I2.
        * exact I3.
        * rewrite Eu, I4, app_assoc. reflexivity.
        * rewrite app_assoc. exact I5.
        * exact I6.
        * intros _ _ _. left. intros E. apply (f_equal blen) in E.
          rewrite blen_app, Hbc, blen_nil in E. lia.
        * exact I8.
      + (* flushed: next message *)
        assert (Hs2 : sinv (TIdle I rest) {| sbuf := clear (sbuf sd); poisoned := false |} p).
        { cbn [sinv sbuf poisoned clear data]. split.
          - unfold sd_ready. cbn [sbuf clear st en data]. split; [reflexivity|]. split; [lia|exact Hcap].
          - split; [reflexivity|]. split; [exact Hall|].
            exists (done ++ [take count (data (sbuf sd))]). split.
            + rewrite <- app_assoc. exact Hm.
            + rewrite Hp, concat_app. cbn [concat]. rewrite app_nil_r.
              replace pos with count by lia. reflexivity. }
        apply (sgood_pass spur _ (TIdle I rest)); [reflexivity|].
        apply IH; auto. unfold sm in *. lia.
    - cbn [sys_poll_send]. apply sgood_stay; auto; intros _ D; discriminate D.
  Qed.

  (* ------------------------------------------------------------------ the receiver task *)

  (* the receiver between two steps of its poll; [u]: the bytes the sender has not pushed yet.
     pend = true: the window was found too short for the next message and nothing was added since *)
  Definition rinv (b : buffer) (r : ring) (del : list bytes) (pend : bool) (u : bytes) : Prop :=
    wfb b /\ st b mod A = 0 /\ cap b = CAPr /\
    Forall2 (fun occ m => take (blen m) occ = m) (rev del) (firstn (length del) ms) /\
    (length del <= length ms)%nat /\
    occupied b ++ rbytes r ++ u = concat (skipn (length del) ms) /\
    (pend = true -> forall m rest, skipn (length del) ms = m :: rest -> blen (occupied b) < blen m).

  Lemma rinv_unpend b r del u : rinv b r del true u -> rinv b r del false u.
  Proof.
    intros (H1 & H2 & H3 & H4 & H5 & H6 & _). unfold rinv. split; [exact H1|]. split; [exact H2|]. split; [exact H3|]. split; [exact H4|]. split; [exact H5|]. split; [exact H6|].
    intros D; discriminate D.
  Qed.

  Lemma rinv_ring b r r2 del pend u u2 : rinv b r del pend u -> rbytes r2 ++ u2 = rbytes r ++ u ->
    rinv b r2 del pend u2.
  Proof.
    intros (H1 & H2 & H3 & H4 & H5 & H6 & H7) E. unfold rinv. rewrite E. tauto.
  Qed.

  Definition recv_read (fuel : nat) (spur : bool) (b : buffer) (r : ring) (del : list bytes)
    : option rout * buffer * bool * ring * list bytes :=
    match read_prepare b with
    | None => (Some (RRead OutOfMemory), b, false, r, del)
    | Some b1 =>
        if spur then (None, b1, true, r, del)
        else if blen (rbytes r) =? 0 then
          if closed r then (Some RClosed, b1, false, r, del) else (None, b1, true, r, del)
        else
          match advance (umin (vacant_len b1) (blen (rbytes r)))
                  (fill_vacant (take (umin (vacant_len b1) (blen (rbytes r))) (rbytes r)) b1) with
          | Ok b2 =>
              sys_poll_recv validate_f size_f fuel false false b2
                {| rbytes := drop (umin (vacant_len b1) (blen (rbytes r))) (rbytes r);
                   rcap := rcap r; closed := closed r |} del
          | _ => (Some RPanic, b1, false, r, del)
          end
    end.

  Lemma poll_recv_S fuel spur pend b r del :
    sys_poll_recv validate_f size_f (S fuel) spur pend b r del =
    match (if pend then Err InsufficientSize 0 else validate_f (st b) (occupied b)) with
    | Ok _ =>
        match drop_guard size_f b with
        | Ok b2 => sys_poll_recv validate_f size_f fuel spur false b2 r (occupied b :: del)
        | _ => (Some RPanic, b, false, r, occupied b :: del)
        end
    | Crash _ => (Some RPanic, b, false, r, del)
    | Err InsufficientSize _ => recv_read fuel spur b r del
    | Err k p => (Some (RParse k p), b, false, r, del)
    end.
  Proof. reflexivity. Qed.

  (* what one poll of the receiver guarantees *)
  Definition rgood (spur : bool) (r : ring) (u : bytes)
      (res : option rout * buffer * bool * ring * list bytes) : Prop :=
    match res with
    | (o, b', pend', r', del') =>
      rinv b' r' del' pend' u /\ rcap r' = rcap r /\ closed r' = closed r /\
      (exists tk, rbytes r = tk ++ rbytes r') /\
      (o = None \/ (o = Some RClosed /\ length del' = length ms /\ closed r = true)) /\
      (spur = false -> rbytes r' = [] /\ (o = None -> closed r = false))
    end.

  (* the window against the next message: too short, or a whole message at its head *)
  Lemma window_cases b r del u : rinv b r del false u ->
    ((exists p, validate_f (st b) (occupied b) = Err InsufficientSize p) /\ rinv b r del true u) \/
    (exists m rest, skipn (length del) ms = m :: rest /\ canon validate_f size_f A m /\
       blen m <= blen (occupied b) /\ take (blen m) (occupied b) = m /\
       validate_f (st b) (occupied b) = Ok tt /\ size_f (occupied b) = Ok (blen m)).
  Proof.
    intros (H1 & H2 & H3 & H4 & H5 & H6 & H7).
    destruct (skipn (length del) ms) as [|m rest] eqn:Hsk.
    - left. cbn [concat] in H6. pose proof H6 as H6'. apply app_eq_nil in H6'. destruct H6' as [E _]. split.
      + rewrite E. exact (nil_short (st b) H2).
      + unfold rinv. rewrite Hsk. split; [exact H1|]. split; [exact H2|]. split; [exact H3|]. split; [exact H4|]. split; [exact H5|]. split; [exact H6|].
        intros _ m rest D. discriminate D.
    - assert (Hc : canon validate_f size_f A m).
      { apply (proj1 (Forall_forall _ _) H_canon). exact (skipn_In _ _ _ _ Hsk). }
      cbn [concat] in H6.
      destruct (canon_window validate_f size_f H_total H_size A H_A m (concat rest)
                  (occupied b) (rbytes r ++ u) (st b) Hc H2 H6) as [(Hlt & Hv)|(Hge & Ht & Hv & Hz)].
      + left. split; [exact Hv|]. unfold rinv. rewrite Hsk. split; [exact H1|]. split; [exact H2|]. split; [exact H3|]. split; [exact H4|]. split; [exact H5|]. split; [exact H6|].
        intros _ m' rest' D. injection D as <- _. exact Hlt.
      + right. exists m, rest. auto 10.
  Qed.

  (* delivering the message at the head of the window *)
  Lemma deliver_ok b r del u m rest b2 : rinv b r del false u ->
    skipn (length del) ms = m :: rest -> canon validate_f size_f A m ->
    take (blen m) (occupied b) = m ->
    wfb b2 -> cap b2 = cap b -> occupied b2 = drop (blen m) (occupied b) ->
    (st b2 = 0 \/ st b2 = st b + blen m) ->
    rinv b2 r (occupied b :: del) false u.
  Proof.
    intros (H1 & H2 & H3 & H4 & H5 & H6 & _) Hsk Hc Ht Hw2 Hc2 Ho2 Hs2.
    destruct (firstn_S_skipn _ _ _ _ Hsk) as (F1 & F2 & F3).
    unfold rinv. cbn [length rev]. rewrite F1, F2.
    split; [exact Hw2|]. split.
    { destruct Hs2 as [-> | ->]; [apply N.mod_0_l; lia|]. apply mod_sum_0; [exact H_A|exact H2|apply Hc]. }
    split; [congruence|]. split.
    { apply Forall2_app; [exact H4|]. constructor; [exact Ht|constructor]. }
    split; [lia|]. split.
    { rewrite Ho2. rewrite Hsk in H6. cbn [concat] in H6.
      rewrite <- (take_drop (blen m) (occupied b)), Ht, <- app_assoc in H6.
      apply app_inv_head in H6. exact H6. }
    intros D; discriminate D.
  Qed.

  Lemma rinv_occ_le b r del pend u : rinv b r del pend u -> blen (occupied b) <= CAPr.
  Proof.
    intros (H1 & _ & H3 & _). rewrite (blen_occupied b H1). unfold wfb in H1. lia.
  Qed.

  (* a window known to be short never fills the buffer *)
  Lemma rinv_prep b r del u : rinv b r del true u ->
    exists b1, read_prepare b = Some b1 /\ rinv b1 r del true u /\ 0 < vacant_len b1.
  Proof.
    intros Hi. pose proof Hi as (H1 & H2 & H3 & H4 & H5 & H6 & H7).
    destruct (read_prepare b) as [b1|] eqn:Hp.
    - destruct (read_prepare_some b b1 H1 Hp) as (Hw1 & Hc1 & Ho1 & Hv1 & Hs1 & _).
      exists b1. split; [reflexivity|]. split; [|exact Hv1].
      unfold rinv. rewrite Ho1. split; [exact Hw1|]. split.
      { destruct Hs1 as [-> | ->]; [exact H2|apply N.mod_0_l; lia]. }
      split; [congruence|]. auto.
    - exfalso. destruct (read_prepare_none b H1 Hp) as [E1 E2].
      pose proof (blen_occupied b H1) as Hb. pose proof CAPr_pos as Hpos.
      destruct (skipn (length del) ms) as [|m rest] eqn:Hsk.
      + cbn [concat] in H6. apply app_eq_nil in H6. destruct H6 as [E _].
        rewrite E, blen_nil in Hb. lia.
      + specialize (H7 eq_refl m rest eq_refl).
        pose proof (H_fit m (skipn_In _ _ _ _ Hsk)). lia.
  Qed.

  Lemma rgood_stop spur b r del pend u o :
    rinv b r del pend u ->
    (o = None \/ (o = Some RClosed /\ length del = length ms /\ closed r = true)) ->
    (spur = false -> rbytes r = [] /\ (o = None -> closed r = false)) ->
    rgood spur r u (o, b, pend, r, del).
  Proof.
    intros Hi Ho Hs. unfold rgood. split; [exact Hi|]. split; [reflexivity|]. split; [reflexivity|].
    split; [exists []; reflexivity|]. split; [exact Ho|exact Hs].
  Qed.

  Lemma recv_read_ok fuel spur b r del u :
    (forall b2 r2, rinv b2 r2 del false u -> (closed r2 = true -> u = []) ->
       blen (occupied b2) + 2 * blen (rbytes r2) < N.of_nat fuel ->
       rgood false r2 u (sys_poll_recv validate_f size_f fuel false false b2 r2 del)) ->
    rinv b r del true u -> (closed r = true -> u = []) ->
    blen (occupied b) + 2 * blen (rbytes r) < N.of_nat (S fuel) ->
    rgood spur r u (recv_read fuel spur b r del).
  Proof.
    intros IH Hi Hcl Hf. unfold recv_read.
    destruct (rinv_prep b r del u Hi) as (b1 & Hp & Hi1 & Hv1). rewrite Hp.
    pose proof Hi1 as (H1 & H2 & H3 & H4 & H5 & H6 & H7).
    assert (Hocc : blen (occupied b1) = blen (occupied b)).
    { pose proof Hi as (W & _). destruct (read_prepare_some b b1 W Hp) as (_ & _ & E & _). rewrite E. reflexivity. }
    destruct spur.
    { apply rgood_stop; [exact Hi1|left; reflexivity|intros D; discriminate D]. }
    destruct (N.eqb_spec (blen (rbytes r)) 0) as [Hz|Hnz].
    - apply blen_0_nil in Hz. destruct (closed r) eqn:Hc.
      + apply rgood_stop; [apply rinv_unpend; exact Hi1| |].
        * right. split; [reflexivity|]. split; [|exact Hc].
          destruct (skipn (length del) ms) as [|m rest] eqn:Hsk.
          -- apply skipn_nil_length in Hsk. lia.
          -- exfalso. specialize (H7 eq_refl m rest eq_refl).
             rewrite Hz, (Hcl eq_refl), !app_nil_r in H6. cbn [concat] in H6.
             apply (f_equal blen) in H6. rewrite blen_app in H6. lia.
        * intros _. split; [exact Hz|]. intros D; discriminate D.
      + apply rgood_stop; [exact Hi1|left; reflexivity|].
        intros _. split; [exact Hz|]. intros _. exact Hc.
    - set (n := umin (vacant_len b1) (blen (rbytes r))).
      assert (Hn : n = N.min (vacant_len b1) (blen (rbytes r))) by (unfold n; apply umin_spec).
      assert (Hb : blen (take n (rbytes r)) = n) by (apply blen_take_le; lia).
      destruct (advance_fill (take n (rbytes r)) b1 H1) as (Ha & Hw2 & Hc2 & Hs2 & He2 & Ho2).
      { rewrite Hb. lia. }
      rewrite Hb in Ha. rewrite Ha.
      set (b2 := grow (take n (rbytes r)) b1) in *.
      set (r2 := {| rbytes := drop n (rbytes r); rcap := rcap r; closed := closed r |}).
      assert (Hi2 : rinv b2 r2 del false u).
      { unfold rinv. split; [exact Hw2|]. split; [rewrite Hs2; exact H2|]. split; [congruence|].
        split; [exact H4|]. split; [exact H5|]. split; [|intros D; discriminate D].
        rewrite Ho2. cbn [r2 rbytes]. rewrite <- H6, <- app_assoc. f_equal.
        rewrite app_assoc, take_drop. reflexivity. }
      specialize (IH b2 r2 Hi2 Hcl).
      assert (Hf2 : blen (occupied b2) + 2 * blen (rbytes r2) < N.of_nat fuel).
      { rewrite Ho2, blen_app, Hb. cbn [r2 rbytes]. rewrite blen_drop. lia. }
      specialize (IH Hf2).
      destruct (sys_poll_recv validate_f size_f fuel false false b2 r2 del) as [[[[o b'] pend'] r'] del'].
      unfold rgood in *. cbn [r2 rbytes rcap closed] in IH.
      destruct IH as (I1 & I2 & I3 & (tk & I4) & I5 & I6).
      split; [exact I1|]. split; [exact I2|]. split; [exact I3|]. split.
      { exists (take n (rbytes r) ++ tk). rewrite <- app_assoc, <- I4. symmetry. apply take_drop. }
      split; [exact I5|]. intros _. exact (I6 eq_refl).
  Qed.

  Lemma poll_recv_ok : forall fuel spur pend b r del u,
    rinv b r del pend u -> (closed r = true -> u = []) ->
    blen (occupied b) + 2 * blen (rbytes r) < N.of_nat fuel ->
    rgood spur r u (sys_poll_recv validate_f size_f fuel spur pend b r del).
  Proof.
    induction fuel as [|fuel IH]; intros spur pend b r del u Hi Hcl Hf; [lia|].
    rewrite poll_recv_S.
    destruct pend.
    { apply recv_read_ok; auto. }
    destruct (window_cases b r del u Hi) as [((p & Hv) & Hi')|(m & rest & Hsk & Hc & Hge & Ht & Hv & Hz)].
    - rewrite Hv. apply recv_read_ok; auto.
    - rewrite Hv. pose proof Hi as (H1 & _).
      destruct (skip_ok (blen m) b H1 Hge) as (b2 & Hk & Hw2 & Hc2 & Ho2 & Hs2).
      unfold drop_guard. rewrite Hz, Hk.
      pose proof (deliver_ok b r del u m rest b2 Hi Hsk Hc Ht Hw2 Hc2 Ho2 Hs2) as Hi2.
      assert (Hpos : 0 < blen m) by apply Hc.
      assert (Hf2 : blen (occupied b2) + 2 * blen (rbytes r) < N.of_nat fuel).
      { rewrite Ho2, blen_drop. lia. }
      exact (IH spur false b2 r (occupied b :: del) u Hi2 Hcl Hf2).
  Qed.

  (* ------------------------------------------------------------------ the composed system *)

  (* the bytes the receiver has taken from the ring: the delivered messages and its window *)
  Definition taken (y : sys I) : bytes :=
    concat (firstn (length (y_delivered I y)) ms) ++ occupied (y_rb I y).

  Definition recv_status (y : sys I) : Prop :=
    y_recv I y = None \/
    (y_recv I y = Some RClosed /\ length (y_delivered I y) = length ms /\
     sender_done I (y_send I y) = true).

  (* the invariant of the composed system; [u]: the bytes not yet pushed *)
  Definition sys_inv (y : sys I) : Prop :=
    exists u,
      sinv (y_send I y) (y_sd I y) (pushed y) /\
      pushed y ++ u = concat ms /\
      rinv (y_rb I y) (y_ring I y) (y_delivered I y) (y_rpending I y) u /\
      closed (y_ring I y) = sender_done I (y_send I y) /\
      rcap (y_ring I y) = c /\ blen (rbytes (y_ring I y)) <= c /\
      recv_status y.

  (* enough fuel for one poll of either task *)
  Definition fuel_ok (fuel : nat) : Prop :=
    2 * blen (concat ms) + CAPr + 2 * N.of_nat (length is0) + 3 <= N.of_nat fuel.

  Lemma send_step_spec fuel spur y y' : fuel_ok fuel -> sys_inv y -> sender_done I (y_send I y) = false ->
    y' = sys_step validate_f size_f I emplace_f fuel true spur y ->
    sys_inv y' /\
    exists add,
      pushed y' = pushed y ++ add /\
      rbytes (y_ring I y') = rbytes (y_ring I y) ++ add /\
      y_recv I y' = y_recv I y /\ y_delivered I y' = y_delivered I y /\
      y_polls I y' = y_polls I y + 1 /\
      (spur = false -> blen (rbytes (y_ring I y)) < c ->
         add <> [] \/ sender_done I (y_send I y') = true) /\
      (spur = false -> sender_done I (y_send I y') = true \/ blen (rbytes (y_ring I y')) = c).
  Proof.
    intros Hfu (u & S1 & S2 & S3 & S4 & S5 & S6 & S7) Hnd ->. unfold sys_step. rewrite Hnd.
    assert (Hsm : sm (y_send I y) u <= N.of_nat fuel).
    { pose proof (sm_bound _ _ _ _ S1 S2). unfold fuel_ok in Hfu. lia. }
    assert (Hr : blen (rbytes (y_ring I y)) <= rcap (y_ring I y)) by (rewrite S5; exact S6).
    pose proof (poll_send_ok fuel spur (y_send I y) (y_sd I y) (y_ring I y) (pushed y) u S1 S2 Hsm Hr) as P.
    destruct (sys_poll_send size_f I emplace_f fuel spur (y_send I y) (y_sd I y) (y_ring I y))
      as [[t' sd'] r'].
    unfold sgood in P. destruct P as (add & u' & P1 & P2 & P3 & P4 & P5 & P6 & P7 & P8).
    pose proof (sinv_pushed _ _ _ P5) as Hpu.
    split.
    - exists u'. unfold pushed at 1 2.
      cbn [y_send y_sd y_ring y_recv y_rb y_rpending y_delivered y_polls rbytes rcap closed].
      rewrite Hpu. split; [exact P5|]. split.
      { rewrite <- app_assoc, <- P4. exact S2. }
      split.
      { apply (rinv_ring _ (y_ring I y) _ _ _ u); [exact S3|]. cbn [rbytes].
        rewrite P1, <- app_assoc, <- P4. reflexivity. }
      split; [reflexivity|]. split; [rewrite P2; exact S5|]. split; [rewrite <- S5, <- P2; exact P6|].
      unfold recv_status. cbn [y_recv y_delivered y_send].
      destruct S7 as [S7|(_ & _ & S7)]; [left; exact S7|]. rewrite Hnd in S7. discriminate S7.
    - exists add. unfold pushed at 1.
      cbn [y_send y_sd y_ring y_recv y_rb y_rpending y_delivered y_polls rbytes rcap closed].
      rewrite Hpu. split; [reflexivity|]. split; [exact P1|]. split; [reflexivity|].
      split; [reflexivity|]. split; [reflexivity|]. split.
      + intros Hsp Hlt. apply P7; [exact Hsp|exact Hnd|]. rewrite S5. exact Hlt.
      + intros Hsp. destruct (P8 Hsp) as [D|D]; [left; exact D|right]. rewrite D, P2. exact S5.
  Qed.

  Lemma closed_nothing_left y u : sinv (y_send I y) (y_sd I y) (pushed y) -> pushed y ++ u = concat ms ->
    closed (y_ring I y) = sender_done I (y_send I y) -> closed (y_ring I y) = true -> u = [].
  Proof.
    intros S1 S2 S4 Hc. rewrite S4 in Hc. destruct (sinv_done _ _ _ S1 Hc) as [_ E].
    rewrite E in S2. rewrite <- (app_nil_r (concat ms)) in S2 at 2. apply app_inv_head in S2. exact S2.
  Qed.

  Lemma recv_step_spec fuel spur y y' : fuel_ok fuel -> sys_inv y -> y_recv I y = None ->
    y' = sys_step validate_f size_f I emplace_f fuel false spur y ->
    sys_inv y' /\ y_send I y' = y_send I y /\
    (exists tk, rbytes (y_ring I y) = tk ++ rbytes (y_ring I y')) /\
    y_polls I y' = y_polls I y + 1 /\
    (spur = false -> rbytes (y_ring I y') = [] /\
                     (y_recv I y' = None -> closed (y_ring I y) = false)).
  Proof.
    intros Hfu (u & S1 & S2 & S3 & S4 & S5 & S6 & S7) Hnone ->. unfold sys_step. rewrite Hnone.
    assert (Hcl : closed (y_ring I y) = true -> u = []) by (apply (closed_nothing_left y u S1 S2 S4)).
    assert (Hf : blen (occupied (y_rb I y)) + 2 * blen (rbytes (y_ring I y)) < N.of_nat fuel).
    { pose proof (rinv_occ_le _ _ _ _ _ S3) as H1. pose proof S3 as (_ & _ & _ & _ & _ & E & _).
      apply (f_equal blen) in E. rewrite !blen_app in E.
      pose proof (concat_skipn_le (length (y_delivered I y)) ms). unfold fuel_ok in Hfu. lia. }
    pose proof (poll_recv_ok fuel spur (y_rpending I y) (y_rb I y) (y_ring I y) (y_delivered I y) u S3 Hcl Hf) as P.
    destruct (sys_poll_recv validate_f size_f fuel spur (y_rpending I y) (y_rb I y) (y_ring I y) (y_delivered I y))
      as [[[[o b'] pend'] r'] del'].
    unfold rgood in P. destruct P as (P1 & P2 & P3 & (tk & P4) & P5 & P6).
    cbn [y_send y_sd y_ring y_recv y_rb y_rpending y_delivered y_polls].
    split.
    - exists u. unfold pushed. cbn [y_send y_sd y_ring y_recv y_rb y_rpending y_delivered y_polls].
      split; [exact S1|]. split; [exact S2|]. split; [exact P1|]. split; [rewrite P3; exact S4|].
      split; [rewrite P2; exact S5|]. split.
      { apply (f_equal blen) in P4. rewrite blen_app in P4. lia. }
      unfold recv_status. cbn [y_recv y_delivered y_send].
      destruct P5 as [->|(-> & E1 & E2)]; [left; reflexivity|right].
      split; [reflexivity|]. split; [exact E1|]. rewrite <- S4. exact E2.
    - split; [reflexivity|]. split; [exists tk; exact P4|]. split; [reflexivity|]. exact P6.
  Qed.

  (* the invariant is preserved by every poll of either task, spurious or not *)
  Theorem sys_step_inv fuel who spur y : fuel_ok fuel -> sys_inv y ->
    sys_inv (sys_step validate_f size_f I emplace_f fuel who spur y).
  Proof.
    intros Hfu Hi. destruct who.
    - destruct (sender_done I (y_send I y)) eqn:Hd.
      + unfold sys_step. rewrite Hd. exact Hi.
      + exact (proj1 (send_step_spec fuel spur y _ Hfu Hi Hd eq_refl)).
    - destruct (y_recv I y) as [o|] eqn:Hr.
      + unfold sys_step. rewrite Hr. exact Hi.
      + exact (proj1 (recv_step_spec fuel spur y _ Hfu Hi Hr eq_refl)).
  Qed.

  Theorem sys_init_inv fill_r : sys_inv (sys_init fill_r).
  Proof.
    assert (S1 : sinv (TIdle I is0) {| sbuf := new_buffer CAPs fill_s; poisoned := false |} []).
    { cbn [sinv sbuf poisoned]. split.
      - unfold sd_ready. cbn [sbuf new_buffer st en data]. split; [reflexivity|]. split; [lia|].
        apply (cap_new CAPs fill_s).
      - split; [reflexivity|]. split; [exact H_good|]. exists []. split; reflexivity. }
    exists (concat ms). unfold pushed, sys_init.
    cbn [y_send y_sd y_ring y_recv y_rb y_rpending y_delivered y_polls rbytes rcap closed].
    rewrite (sinv_pushed _ _ _ S1).
    split; [exact S1|]. split; [reflexivity|]. split.
    { unfold rinv. cbn [length rev firstn skipn rbytes]. rewrite occupied_new.
      split; [apply wfb_new|]. split; [cbn [new_buffer st]; apply N.mod_0_l; lia|].
      split; [apply cap_new|]. split; [constructor|]. split; [lia|]. split; [reflexivity|].
      intros D; discriminate D. }
    split; [reflexivity|]. split; [reflexivity|]. split; [rewrite blen_nil; lia|].
    left. reflexivity.
  Qed.

  Theorem run_schedule_inv fuel : fuel_ok fuel -> forall sch y, sys_inv y ->
    sys_inv (run_schedule validate_f size_f I emplace_f fuel sch y).
  Proof.
    intros Hfu. unfold run_schedule. induction sch as [|p sch IH]; intros y Hi; [exact Hi|].
    cbn [fold_left]. apply IH. apply sys_step_inv; assumption.
  Qed.

  (* the invariant in the terms of the property *)
  Theorem sys_inv_spec y : sys_inv y ->
    (* (a) *) (exists u, pushed y ++ u = concat ms) /\
    (* (b) *) (taken y ++ rbytes (y_ring I y) = pushed y /\
               blen (rbytes (y_ring I y)) <= rcap (y_ring I y) /\ rcap (y_ring I y) = c) /\
    (* (c) *) (wfb (y_rb I y) /\ st (y_rb I y) mod A = 0 /\ cap (y_rb I y) = CAPr /\
               (length (y_delivered I y) <= length ms)%nat /\
               Forall2 (fun occ m => take (blen m) occ = m)
                 (rev (y_delivered I y)) (firstn (length (y_delivered I y)) ms)) /\
    (* (d) *) ((forall o, y_send I y = TDone I o -> o = SOk) /\
               (forall o, y_recv I y = Some o -> o = RClosed)).
  Proof.
    intros (u & S1 & S2 & S3 & S4 & S5 & S6 & S7).
    pose proof S3 as (R1 & R2 & R3 & R4 & R5 & R6 & _).
    split; [exists u; exact S2|]. split.
    { split; [|split; [rewrite S5; exact S6|exact S5]].
      apply (app_inv_tail u). rewrite S2. unfold taken. rewrite <- !app_assoc, R6, <- concat_app, firstn_skipn.
      reflexivity. }
    split; [auto 10|]. split.
    - intros o E. rewrite E in S1. cbn [sinv] in S1. exact (proj1 S1).
    - intros o E. destruct S7 as [S7|(S7 & _)]; rewrite E in S7; [discriminate S7|].
      injection S7 as ->. reflexivity.
  Qed.

  (* (d) in the words of the property: no task is in a panic or error state *)
  Corollary sys_inv_no_panic y : sys_inv y ->
    y_send I y <> TDone I SPanic /\ y_send I y <> TDone I SHang /\
    (forall k p, y_send I y <> TDone I (SEmplace k p)) /\ (forall e, y_send I y <> TDone I (SIo e)) /\
    y_recv I y <> Some RPanic /\ y_recv I y <> Some RHang /\
    (forall k p, y_recv I y <> Some (RParse k p)) /\ (forall e, y_recv I y <> Some (RRead e)).
  Proof.
    intros Hi. destruct (sys_inv_spec y Hi) as (_ & _ & _ & Ds & Dr).
    split; [intros E; apply Ds in E; discriminate E|].
    split; [intros E; apply Ds in E; discriminate E|].
    split; [intros k p E; apply Ds in E; discriminate E|].
    split; [intros e E; apply Ds in E; discriminate E|].
    split; [intros E; apply Dr in E; discriminate E|].
    split; [intros E; apply Dr in E; discriminate E|].
    split; [intros k p E; apply Dr in E; discriminate E|].
    intros e E; apply Dr in E; discriminate E.
  Qed.

  (* SAFETY: under every schedule the delivered windows are, in order, the first sent messages *)
  Theorem sys_safety fill_r fuel sch : fuel_ok fuel ->
    let y := run_schedule validate_f size_f I emplace_f fuel sch (sys_init fill_r) in
    (length (y_delivered I y) <= length ms)%nat /\
    Forall2 (fun occ m => take (blen m) occ = m)
      (rev (y_delivered I y)) (firstn (length (y_delivered I y)) ms).
  Proof.
    intros Hfu y.
    destruct (sys_inv_spec y (run_schedule_inv fuel Hfu sch _ (sys_init_inv fill_r))) as (_ & _ & C & _).
    split; apply C.
  Qed.

  (* COMPLETION: both tasks finished = sender Ok, receiver Closed, every message delivered *)
  Theorem sys_inv_completion y : sys_inv y -> sys_done I y = true ->
    y_send I y = TDone I SOk /\ y_recv I y = Some RClosed /\
    length (y_delivered I y) = length ms /\
    Forall2 (fun occ m => take (blen m) occ = m) (rev (y_delivered I y)) ms.
  Proof.
    intros (u & S1 & S2 & S3 & S4 & S5 & S6 & S7) Hd. unfold sys_done in Hd.
    apply andb_prop in Hd. destruct Hd as [Hd1 Hd2].
    destruct (sinv_done _ _ _ S1 Hd1) as [E _].
    destruct S7 as [S7|(S7 & L & _)]; [rewrite S7 in Hd2; discriminate Hd2|].
    split; [exact E|]. split; [exact S7|]. split; [exact L|].
    pose proof S3 as (_ & _ & _ & R4 & _). rewrite L, firstn_all in R4. exact R4.
  Qed.

  Theorem sys_completion fill_r fuel sch : fuel_ok fuel ->
    let y := run_schedule validate_f size_f I emplace_f fuel sch (sys_init fill_r) in
    sys_done I y = true ->
    y_send I y = TDone I SOk /\ y_recv I y = Some RClosed /\
    length (y_delivered I y) = length ms /\
    Forall2 (fun occ m => take (blen m) occ = m) (rev (y_delivered I y)) ms.
  Proof.
    intros Hfu y. apply sys_inv_completion. apply run_schedule_inv; [exact Hfu|apply sys_init_inv].
  Qed.

  (* ------------------------------------------------------------------ progress *)

  (* the variant: twice the bytes not yet pushed, the bytes in the ring, the unfinished tasks *)
  Definition mu (y : sys I) : N :=
    2 * (blen (concat ms) - blen (pushed y)) + blen (rbytes (y_ring I y))
    + (if sender_done I (y_send I y) then 0 else 1)
    + (match y_recv I y with Some _ => 0 | None => 1 end).

  Lemma nonempty_blen (l : bytes) : l <> [] -> 1 <= blen l.
  Proof. destruct l as [|x l]; [contradiction|]. intros _. rewrite blen_cons. lia. Qed.

  (* a poll of the sender: never up; down when not spurious and the ring has room *)
  Lemma mu_send fuel spur y : fuel_ok fuel -> sys_inv y -> sender_done I (y_send I y) = false ->
    mu (sys_step validate_f size_f I emplace_f fuel true spur y) <= mu y /\
    (spur = false -> blen (rbytes (y_ring I y)) < rcap (y_ring I y) ->
     mu (sys_step validate_f size_f I emplace_f fuel true spur y) < mu y).
  Proof.
    intros Hfu Hi Hnd. remember (sys_step validate_f size_f I emplace_f fuel true spur y) as y' eqn:Ey.
    destruct (send_step_spec fuel spur y y' Hfu Hi Hnd Ey) as (Hi' & add & E1 & E2 & E3 & E4 & E5 & E6 & E7).
    destruct Hi' as (u' & _ & U2 & _). apply (f_equal blen) in U2. rewrite E1, !blen_app in U2.
    assert (Hc : rcap (y_ring I y) = c) by (destruct Hi as (u & _ & _ & _ & _ & H & _); exact H).
    unfold mu. rewrite E1, E2, E3, !blen_app, Hnd.
    destruct (sender_done I (y_send I y')) eqn:Hd'.
    - split; [lia|]. intros _ _. lia.
    - split; [lia|]. intros Hsp Hlt. rewrite Hc in Hlt.
      destruct (E6 Hsp Hlt) as [Hne|D]; [|discriminate D].
      pose proof (nonempty_blen add Hne). lia.
  Qed.

  (* a poll of the receiver: never up; down when not spurious and the ring is non-empty or closed *)
  Lemma mu_recv fuel spur y : fuel_ok fuel -> sys_inv y -> y_recv I y = None ->
    mu (sys_step validate_f size_f I emplace_f fuel false spur y) <= mu y /\
    (spur = false -> rbytes (y_ring I y) <> [] \/ closed (y_ring I y) = true ->
     mu (sys_step validate_f size_f I emplace_f fuel false spur y) < mu y).
  Proof.
    intros Hfu Hi Hn. remember (sys_step validate_f size_f I emplace_f fuel false spur y) as y' eqn:Ey.
    destruct (recv_step_spec fuel spur y y' Hfu Hi Hn Ey) as (_ & E1 & (tk & E2) & E3 & E4).
    apply (f_equal blen) in E2. rewrite blen_app in E2.
    unfold mu, pushed. rewrite E1, Hn.
    destruct (y_recv I y') as [o|] eqn:Hr.
    - split; [lia|]. intros _ _. lia.
    - split; [lia|]. intros Hsp Hnb. destruct (E4 Hsp) as [Hz Hcl]. rewrite Hz, blen_nil in *.
      destruct Hnb as [Hne|Hc]; [pose proof (nonempty_blen _ Hne); lia|].
      rewrite (Hcl eq_refl) in Hc. discriminate Hc.
  Qed.

  (* PROGRESS, one step: the variant never increases ... *)
  Theorem mu_step_le fuel who spur y : fuel_ok fuel -> sys_inv y ->
    mu (sys_step validate_f size_f I emplace_f fuel who spur y) <= mu y.
  Proof.
    intros Hfu Hi. destruct who.
    - destruct (sender_done I (y_send I y)) eqn:Hd.
      + unfold sys_step. rewrite Hd. lia.
      + exact (proj1 (mu_send fuel spur y Hfu Hi Hd)).
    - destruct (y_recv I y) as [o|] eqn:Hr.
      + unfold sys_step. rewrite Hr. lia.
      + exact (proj1 (mu_recv fuel spur y Hfu Hi Hr)).
  Qed.

  (* ... and strictly decreases at every non-spurious poll of a task that is not blocked *)
  Theorem mu_step_send_lt fuel y : fuel_ok fuel -> sys_inv y -> sender_done I (y_send I y) = false ->
    blen (rbytes (y_ring I y)) < rcap (y_ring I y) ->
    mu (sys_step validate_f size_f I emplace_f fuel true false y) < mu y.
  Proof. intros Hfu Hi Hd Hlt. exact (proj2 (mu_send fuel false y Hfu Hi Hd) eq_refl Hlt). Qed.

  Theorem mu_step_recv_lt fuel y : fuel_ok fuel -> sys_inv y -> y_recv I y = None ->
    rbytes (y_ring I y) <> [] \/ closed (y_ring I y) = true ->
    mu (sys_step validate_f size_f I emplace_f fuel false false y) < mu y.
  Proof. intros Hfu Hi Hn Hb. exact (proj2 (mu_recv fuel false y Hfu Hi Hn) eq_refl Hb). Qed.

  Lemma mu_bound y : sys_inv y -> mu y <= 2 * blen (concat ms) + 2.
  Proof.
    intros Hi. destruct (sys_inv_spec y Hi) as ((u & Ha) & (Hb & _) & _).
    apply (f_equal blen) in Ha, Hb. rewrite blen_app in Ha, Hb. unfold mu.
    destruct (sender_done I (y_send I y)); destruct (y_recv I y); lia.
  Qed.

  Lemma mu_pos y : sys_done I y = false -> 1 <= mu y.
  Proof.
    unfold sys_done, mu. destruct (sender_done I (y_send I y)); destruct (y_recv I y); cbn [andb]; try lia;
      intros D; discriminate D.
  Qed.

  Lemma step_polls fuel who spur y :
    y_polls I (sys_step validate_f size_f I emplace_f fuel who spur y) <= y_polls I y + 1.
  Proof.
    unfold sys_step. destruct who.
    - destruct (sender_done I (y_send I y)); [lia|].
      destruct (sys_poll_send size_f I emplace_f fuel spur (y_send I y) (y_sd I y) (y_ring I y)) as [[t sd] r].
      cbn [y_polls]. lia.
    - destruct (y_recv I y); [lia|].
      destruct (sys_poll_recv validate_f size_f fuel spur (y_rpending I y) (y_rb I y) (y_ring I y) (y_delivered I y))
        as [[[[o b] pend] r] del].
      cbn [y_polls]. lia.
  Qed.

  (* the task whose turn it is is finished or not blocked *)
  Definition ready (who : bool) (y : sys I) : Prop :=
    if who then sender_done I (y_send I y) = true \/ blen (rbytes (y_ring I y)) < c
    else y_recv I y <> None \/ rbytes (y_ring I y) <> [] \/ closed (y_ring I y) = true.

  (* after a non-spurious poll of one task the other one is not blocked *)
  Lemma step_ready fuel who y : fuel_ok fuel -> 1 <= c -> sys_inv y ->
    ready (negb who) (sys_step validate_f size_f I emplace_f fuel who false y).
  Proof.
    intros Hfu Hc Hi. destruct who; cbn [negb ready].
    - destruct (sender_done I (y_send I y)) eqn:Hd.
      + unfold sys_step. rewrite Hd. right. right.
        destruct Hi as (u & _ & _ & _ & S4 & _). rewrite S4. exact Hd.
      + remember (sys_step validate_f size_f I emplace_f fuel true false y) as y' eqn:Ey.
        destruct (send_step_spec fuel false y y' Hfu Hi Hd Ey) as (Hi' & add & _ & _ & _ & _ & _ & _ & E7).
        destruct (E7 eq_refl) as [D|D].
        * right. right. destruct Hi' as (u & _ & _ & _ & S4 & _). rewrite S4. exact D.
        * right. left. intros E. rewrite E, blen_nil in D. lia.
    - destruct (y_recv I y) as [o|] eqn:Hr.
      + unfold sys_step. rewrite Hr. left.
        destruct Hi as (u & _ & _ & _ & _ & _ & _ & [S7|(_ & _ & S7)]); [rewrite Hr in S7; discriminate S7|exact S7].
      + remember (sys_step validate_f size_f I emplace_f fuel false false y) as y' eqn:Ey.
        destruct (recv_step_spec fuel false y y' Hfu Hi Hr Ey) as (_ & _ & _ & _ & E4).
        destruct (E4 eq_refl) as [Hz _]. right. rewrite Hz, blen_nil. lia.
  Qed.

  Lemma run_tail_done_id n fuel budget start who y : sys_done I y = true ->
    run_tail validate_f size_f I emplace_f n fuel budget start who y = y.
  Proof. intros Hd. destruct n as [|n]; [reflexivity|]. cbn [run_tail]. rewrite Hd. reflexivity. Qed.

  Lemma run_tail_S n fuel budget start who y : sys_done I y = false -> y_polls I y - start < budget ->
    run_tail validate_f size_f I emplace_f (S n) fuel budget start who y =
    run_tail validate_f size_f I emplace_f n fuel budget start (negb who)
      (sys_step validate_f size_f I emplace_f fuel who false y).
  Proof.
    intros Hd Hb. cbn [run_tail]. rewrite Hd.
    destruct (N.leb_spec budget (y_polls I y - start)) as [Hx|_]; [lia|reflexivity].
  Qed.

  (* the alternating tail from a state where the task whose turn it is is not blocked *)
  Lemma tail_ready fuel budget start : fuel_ok fuel -> 1 <= c -> forall n who y,
    sys_inv y -> ready who y -> mu y + 1 <= N.of_nat n -> y_polls I y - start + mu y <= budget ->
    sys_done I (run_tail validate_f size_f I emplace_f n fuel budget start who y) = true.
  Proof.
    intros Hfu Hc. induction n as [|n IH]; intros who y Hi Hrd Hn Hb; [lia|].
    destruct (sys_done I y) eqn:Hd; [rewrite run_tail_done_id; assumption|].
    pose proof (mu_pos y Hd) as Hpos.
    rewrite run_tail_S by (try assumption; lia).
    pose proof (step_ready fuel who y Hfu Hc Hi) as Hrd'.
    pose proof (sys_step_inv fuel who false y Hfu Hi) as Hi'.
    pose proof (step_polls fuel who false y) as Hpl.
    assert (Hgo : mu (sys_step validate_f size_f I emplace_f fuel who false y) < mu y ->
                  sys_done I (run_tail validate_f size_f I emplace_f n fuel budget start (negb who)
                                (sys_step validate_f size_f I emplace_f fuel who false y)) = true).
    { intros Hlt. apply IH; [exact Hi'|exact Hrd'|lia|lia]. }
    destruct who; cbn [ready negb] in *.
    - destruct (sender_done I (y_send I y)) eqn:Hsd.
      + (* the sender is finished: this turn is idle, the next poll of the receiver closes *)
        assert (Hr : y_recv I y = None).
        { unfold sys_done in Hd. rewrite Hsd in Hd. destruct (y_recv I y); [discriminate Hd|reflexivity]. }
        assert (Hsame : sys_step validate_f size_f I emplace_f fuel true false y = y).
        { unfold sys_step. rewrite Hsd. reflexivity. }
        rewrite Hsame. destruct n as [|n]; [lia|].
        rewrite run_tail_S by (try assumption; lia).
        assert (Hd2 : sys_done I (sys_step validate_f size_f I emplace_f fuel false false y) = true).
        { remember (sys_step validate_f size_f I emplace_f fuel false false y) as y' eqn:Ey.
          destruct (recv_step_spec fuel false y y' Hfu Hi Hr Ey) as (_ & E1 & _ & _ & E4).
          destruct (E4 eq_refl) as [_ Hcl]. unfold sys_done. rewrite E1, Hsd.
          destruct (y_recv I y') as [o|]; [reflexivity|]. exfalso.
          destruct Hi as (u & _ & _ & _ & S4 & _). rewrite (Hcl eq_refl) in S4. rewrite Hsd in S4. discriminate S4. }
        rewrite run_tail_done_id by exact Hd2. exact Hd2.
      + apply Hgo. apply mu_step_send_lt; try assumption.
        destruct Hrd as [D|D]; [discriminate D|].
        destruct Hi as (u & _ & _ & _ & _ & S5 & _). rewrite S5. exact D.
    - destruct (y_recv I y) as [o|] eqn:Hr.
      + exfalso. destruct Hi as (u & _ & _ & _ & _ & _ & _ & [S7|(_ & _ & S7)]); [rewrite Hr in S7; discriminate S7|].
        unfold sys_done in Hd. rewrite S7, Hr in Hd. discriminate Hd.
      + apply Hgo. apply mu_step_recv_lt; try assumption.
        destruct Hrd as [D|D]; [contradiction|exact D].
  Qed.

  (* PROGRESS, the tail: from every state of the invariant the alternating tail finishes both tasks
     within mu y + 2 turns (the first turn may meet a blocked task) *)
  Theorem run_tail_reaches_done fuel budget start n who y : fuel_ok fuel -> 1 <= c -> sys_inv y ->
    mu y + 2 <= N.of_nat n -> y_polls I y - start + mu y + 1 <= budget ->
    sys_done I (run_tail validate_f size_f I emplace_f n fuel budget start who y) = true.
  Proof.
    intros Hfu Hc Hi Hn Hb. destruct n as [|n]; [lia|].
    destruct (sys_done I y) eqn:Hd; [rewrite run_tail_done_id; assumption|].
    rewrite run_tail_S by (try assumption; lia).
    pose proof (mu_step_le fuel who false y Hfu Hi). pose proof (step_polls fuel who false y).
    apply (tail_ready fuel budget start Hfu Hc).
    - apply sys_step_inv; assumption.
    - apply step_ready; assumption.
    - lia.
    - lia.
  Qed.

  Lemma run_tail_inv fuel budget start : fuel_ok fuel -> forall n who y, sys_inv y ->
    sys_inv (run_tail validate_f size_f I emplace_f n fuel budget start who y).
  Proof.
    intros Hfu. induction n as [|n IH]; intros who y Hi; [exact Hi|]. cbn [run_tail].
    destruct (sys_done I y); [exact Hi|].
    destruct (budget <=? y_polls I y - start); [exact Hi|].
    apply IH. apply sys_step_inv; assumption.
  Qed.

  (* the whole run: any schedule, then the alternating tail: both tasks finish, every message is
     delivered, in order, unaltered *)
  Theorem sys_progress fill_r fuel sch n budget who : fuel_ok fuel -> 1 <= c ->
    2 * blen (concat ms) + 4 <= N.of_nat n -> 2 * blen (concat ms) + 3 <= budget ->
    let y1 := run_schedule validate_f size_f I emplace_f fuel sch (sys_init fill_r) in
    let y2 := run_tail validate_f size_f I emplace_f n fuel budget (y_polls I y1) who y1 in
    sys_done I y2 = true /\
    y_send I y2 = TDone I SOk /\ y_recv I y2 = Some RClosed /\
    length (y_delivered I y2) = length ms /\
    Forall2 (fun occ m => take (blen m) occ = m) (rev (y_delivered I y2)) ms.
  Proof.
    intros Hfu Hc Hn Hb y1 y2.
    assert (Hi1 : sys_inv y1) by (apply run_schedule_inv; [exact Hfu|apply sys_init_inv]).
    pose proof (mu_bound y1 Hi1) as Hmu.
    assert (Hd : sys_done I y2 = true).
    { apply run_tail_reaches_done; try assumption; lia. }
    split; [exact Hd|]. apply sys_inv_completion; [|exact Hd].
    apply run_tail_inv; assumption.
  Qed.

  (* the numbers the test harness uses (runner/main.ml, case "sys") are large enough *)
  Lemma harness_fuel_ok total :
    blen (concat ms) <= total ->
    fuel_ok (N.to_nat (4 * (total + CAPr) + 8 * N.of_nat (length is0) + 64)).
  Proof using Type. clear H_total H_size H_A H_good H_canon H_fit H_nil. clear validate_f A c. intros H. unfold fuel_ok. lia. Qed.

  Lemma harness_budget_ok total :
    blen (concat ms) <= total ->
    let budget := 4 * (total + N.of_nat (length is0)) + 64 in
    2 * blen (concat ms) + 4 <= N.of_nat (N.to_nat (2 * budget + 8)) /\ 2 * blen (concat ms) + 3 <= budget.
  Proof using Type. clear H_total H_size H_A H_good H_canon H_fit H_nil. clear validate_f A c. intros H budget. unfold budget. lia. Qed.

End Sys.

(* ------------------------------------------------------------------ a toy message type
   for the non-vacuity examples: the receive format of IoRecvFacts (toy_validate / toy_size: the
   first byte is the total length of the message, alignment 1) with an emplacer that writes it:
   the initialiser is the payload *)

Definition sys_toy_emplace (i : bytes) (a : N) (buf : bytes) : bytes * res unit :=
  if 1 + blen i <=? blen buf then ((1 + blen i) :: i ++ drop (1 + blen i) buf, Ok tt)
  else (buf, Err InsufficientSize 0).

Definition sys_toy_msg (i : bytes) : bytes := (1 + blen i) :: i.

Lemma sys_toy_good CAP (i : bytes) : 1 + blen i <= CAP ->
  emplace_good IoRecvFacts.toy_size bytes sys_toy_emplace CAP i.
Proof.
  intros H buf Hb. exists ((1 + blen i) :: i ++ drop (1 + blen i) buf), (1 + blen i).
  unfold sys_toy_emplace. destruct (N.leb_spec (1 + blen i) (blen buf)) as [_|D]; [|lia].
  split; [reflexivity|]. split; [rewrite blen_cons, blen_app, blen_drop; lia|].
  split; [reflexivity|]. lia.
Qed.

Lemma sys_toy_msgs CAP : forall (is : list bytes) buf, blen buf = CAP ->
  Forall (fun i => 1 + blen i <= CAP) is ->
  msgs IoRecvFacts.toy_size bytes sys_toy_emplace is buf = map sys_toy_msg is.
Proof.
  induction is as [|i r IH]; intros buf Hb Hall; [reflexivity|].
  inversion Hall as [|x l Hi Hr]; subst x l. cbn [msgs map].
  assert (E : msg_buf bytes sys_toy_emplace i buf = sys_toy_msg i ++ drop (1 + blen i) buf).
  { unfold msg_buf, sys_toy_emplace. destruct (N.leb_spec (1 + blen i) (blen buf)) as [_|D]; [|lia].
    reflexivity. }
  f_equal.
  - unfold msg_bytes. rewrite E. cbn [sys_toy_msg app IoRecvFacts.toy_size].
    change ((1 + blen i) :: i ++ drop (1 + blen i) buf) with (sys_toy_msg i ++ drop (1 + blen i) buf).
    replace (1 + blen i) with (blen (sys_toy_msg i)) at 1 by (unfold sys_toy_msg; apply blen_cons).
    apply take_app_exact.
  - apply IH; [|exact Hr]. rewrite E, blen_app, blen_drop. unfold sys_toy_msg. rewrite blen_cons. lia.
Qed.

Lemma sys_toy_canon (i : bytes) : canon toy_validate IoRecvFacts.toy_size 1 (sys_toy_msg i).
Proof.
  apply toy_canon; unfold sys_toy_msg; rewrite blen_cons; [reflexivity|lia].
Qed.

(* all the premises of the section can be met: the toy type, any payloads that fit the buffers *)
Theorem sys_toy_run : forall (is : list bytes) CAPs CAPr c fill_s fill_r fuel sch n budget who,
  Forall (fun i => 1 + blen i <= CAPs) is -> Forall (fun i => 1 + blen i <= CAPr) is -> 0 < CAPr ->
  1 <= c ->
  fuel_ok IoRecvFacts.toy_size bytes sys_toy_emplace is CAPs CAPr fill_s fuel ->
  2 * blen (concat (map sys_toy_msg is)) + 4 <= N.of_nat n ->
  2 * blen (concat (map sys_toy_msg is)) + 3 <= budget ->
  let y1 := run_schedule toy_validate IoRecvFacts.toy_size bytes sys_toy_emplace fuel sch
              (sys_init bytes is CAPs CAPr c fill_s fill_r) in
  let y2 := run_tail toy_validate IoRecvFacts.toy_size bytes sys_toy_emplace n fuel budget (y_polls bytes y1) who y1 in
  sys_done bytes y2 = true /\ y_send bytes y2 = TDone bytes SOk /\ y_recv bytes y2 = Some RClosed /\
  Forall2 (fun occ m => take (blen m) occ = m) (rev (y_delivered bytes y2)) (map sys_toy_msg is).
Proof.
  intros is CAPs CAPr c fill_s fill_r fuel sch n budget who Hs Hr Hpos Hc Hfu Hn Hb.
  assert (Em : ms IoRecvFacts.toy_size bytes sys_toy_emplace is CAPs fill_s = map sys_toy_msg is).
  { unfold ms. apply (sys_toy_msgs CAPs); [apply cap_new|exact Hs]. }
  rewrite <- Em in *.
  destruct (sys_progress 1 toy_validate IoRecvFacts.toy_size bytes sys_toy_emplace toy_total toy_sized
              ltac:(lia) is CAPs CAPr c fill_s) with (fill_r := fill_r) (fuel := fuel) (sch := sch)
              (n := n) (budget := budget) (who := who) as (P1 & P2 & P3 & _ & P5); try assumption.
  - apply Forall_forall. intros i Hi. apply sys_toy_good. exact (proj1 (Forall_forall _ _) Hs i Hi).
  - rewrite Em. apply Forall_forall. intros m Hm. apply in_map_iff in Hm. destruct Hm as (i & <- & _).
    apply sys_toy_canon.
  - rewrite Em. intros m Hm. apply in_map_iff in Hm. destruct Hm as (i & <- & Hi).
    unfold sys_toy_msg. rewrite blen_cons. exact (proj1 (Forall_forall _ _) Hr i Hi).
  - right. split; [exact Hpos|]. exact toy_nil.
  - auto.
Qed.
