(* IoRetainFacts.v — RecvGuard::retain (io/src/{blocking,async_}/recv.rs): the guard is forgotten, the buffer is
   not advanced; the next recv() hands out the same message at once, without touching the pipe — blocking and
   async (a poll that finds a complete message never answers Pending). *)
From Coq Require Import List NArith Bool.
From Flatty.Model Require Import Base Io.
Open Scope N_scope.

Lemma recv_loop_retained (validate_f : N -> bytes -> res unit) fuel limit b s :
  validate_f (st b) (occupied b) = Ok tt ->
  recv_loop validate_f (S fuel) limit false b s = (b, s, RMsg (occupied b)).
Proof. intros H. cbn [recv_loop]. rewrite H. reflexivity. Qed.

(* a message handed out by recv_loop validates in the buffer it was handed out from: so retaining it and
   calling recv again returns it again, with the same buffer, the same source (no pipe call), any number of times *)
Lemma recv_loop_msg_validates (validate_f : N -> bytes -> res unit) fuel limit sv b s b' s' occ :
  recv_loop validate_f fuel limit sv b s = (b', s', RMsg occ) ->
  occ = occupied b' /\ validate_f (st b') (occupied b') = Ok tt.
Proof.
  revert sv b s. induction fuel as [|fuel IH]; intros sv b s H; cbn [recv_loop] in H; [discriminate H|].
  destruct sv.
  - (* resumed read: validation skipped *)
    destruct (read_prepare b) as [b1|]; [|discriminate H].
    destruct (limit <? rcalls s + 1); [discriminate H|].
    destruct (pipe_read (vacant_len b1) s) as [[s1 d] got]. destruct d as [k| |e|]; try discriminate H.
    destruct (advance (blen got) (fill_vacant got b1)) as [b2| |]; try discriminate H.
    destruct (blen got =? 0); [discriminate H|]. exact (IH false b2 s1 H).
  - destruct (validate_f (st b) (occupied b)) as [[]|k p|c] eqn:Hv.
    + injection H as <- <- <-. split; [reflexivity | exact Hv].
    + destruct k; try discriminate H.
      destruct (read_prepare b) as [b1|]; [|discriminate H].
      destruct (limit <? rcalls s + 1); [discriminate H|].
      destruct (pipe_read (vacant_len b1) s) as [[s1 d] got]. destruct d as [k| |e|]; try discriminate H.
      destruct (advance (blen got) (fill_vacant got b1)) as [b2| |]; try discriminate H.
      destruct (blen got =? 0); [discriminate H|]. exact (IH false b2 s1 H).
    + discriminate H.
Qed.

Theorem recv_retain_then_recv (validate_f : N -> bytes -> res unit) fuel limit sv b s b' s' occ fuel2 limit2 :
  recv_loop validate_f fuel limit sv b s = (b', s', RMsg occ) ->
  recv_loop validate_f (S fuel2) limit2 false b' s' = (b', s', RMsg occ).
Proof.
  intros H. destruct (recv_loop_msg_validates _ _ _ _ _ _ _ _ _ H) as [-> Hv].
  exact (recv_loop_retained validate_f fuel2 limit2 b' s' Hv).
Qed.
