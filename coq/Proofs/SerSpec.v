(* SerSpec.v — the reference serialisation of portable content (the reference side of C17's
   "its bytes equal the reference serialisation of the same content: the concatenation, in
   declaration order, of tag, fields, length and elements in their fixed byte order").
   Written from that sentence and the type docs, not from the emplacers: no positions, no
   alignment arithmetic, no buffer — only concatenation.

     scalar            its isize bytes in the declared byte order
     Bool / C-like     the value byte / the variant index in the tag's byte order
     [T; N]            the N elements one after another
     FlatVec<T, L>     the length as an L, then the elements
     FlatString<L>     the length as an L, then the UTF-8 bytes
     FlexVec<T, L>     empty: a 0 of type L; otherwise for every item but the last the distance to the
                       next slot as an L (= size of L + size of the item's serialisation) followed by
                       the item, and for the last item L::MAX followed by the item
     struct            the fields one after another
     enum              the variant index as the tag type, then the fields of that variant

   [ser t i] is the serialisation of the content the emplacer expression [i] specifies for [t]
   (None when the expression does not type-check for [t]). *)
From Coq Require Import List NArith Bool.
From Flatty.Model Require Import Base Ty Emplace.
Open Scope N_scope.

Definition ser_int (l : intty) (v : N) : bytes := to_bytes (ibe l) (isize l) v.

Fixpoint ser_all (f : init -> option bytes) (is : list init) : option bytes :=
  match is with
  | [] => Some []
  | i :: r =>
      match f i, ser_all f r with
      | Some x, Some y => Some (x ++ y)
      | _, _ => None
      end
  end.

(* FlexVec chain of a non-empty item list *)
Fixpoint ser_chain (l : intty) (f : init -> option bytes) (i : init) (r : list init) : option bytes :=
  match f i with
  | None => None
  | Some x =>
      match r with
      | [] => Some (ser_int l (int_max l) ++ x)
      | j :: r' =>
          match ser_chain l f j r' with
          | Some y => Some (ser_int l (isize l + blen x) ++ x ++ y)
          | None => None
          end
      end
  end.

Fixpoint ser (t : ty) (i : init) {struct t} : option bytes :=
  match t with
  | TUnit => Some []
  | TInt it =>
      match i with
      | IInt n => if n <=? int_max it then Some (ser_int it n) else None
      | IDefault => Some (ser_int it 0)
      | _ => None
      end
  | TBool =>
      match i with
      | IInt n => if n <=? 1 then Some [n] else None
      | IDefault => Some [0]
      | _ => None
      end
  | TCLike tag n d =>
      match i with
      | IInt k => if k <? n then Some (ser_int tag k) else None
      | IDefault => Some (ser_int tag d)
      | _ => None
      end
  | TArr et n =>
      match field_inits i n with
      | Some is => ser_all (ser et) is
      | None => None
      end
  | TVec et l =>
      match i with
      | IEmpty | IDefault => Some (ser_int l 0)
      | IVecArr is | IVecIter is =>
          match ser_all (ser et) is with
          | Some body => Some (ser_int l (N.of_nat (length is)) ++ body)
          | None => None
          end
      | _ => None
      end
  | TStr l =>
      match i with
      | IEmpty | IDefault => Some (ser_int l 0)
      | IStr s => Some (ser_int l (blen s) ++ s)
      | _ => None
      end
  | TFlex et l =>
      match i with
      | IEmpty | IDefault | IFlex [] => Some (ser_int l 0)
      | IFlex (x :: r) => ser_chain l (ser et) x r
      | _ => None
      end
  | TStruct _ fs =>
      match field_inits i (flen fs) with
      | Some is => ser_fields fs is
      | None => None
      end
  | TEnum _ tag d vs =>
      match i with
      | IVar k is =>
          match ser_variant vs (N.to_nat k) is with Some body => Some (ser_int tag k ++ body) | None => None end
      | IDefault =>
          match ser_variant vs (N.to_nat d) [] with Some body => Some (ser_int tag d ++ body) | None => None end
      | _ => None
      end
  end
with ser_fields (fs : fields) (is : list init) {struct fs} : option bytes :=
  match fs, is with
  | FNil, [] => Some []
  | FCons t r, i :: is' =>
      match ser t i, ser_fields r is' with
      | Some x, Some y => Some (x ++ y)
      | _, _ => None
      end
  | _, _ => None
  end
with ser_variant (vs : variants) (k : nat) (is : list init) {struct vs} : option bytes :=
  match vs with
  | VNil => None
  | VCons fs r =>
      match k with
      | O => ser_fields fs is
      | S k' => ser_variant r k' is
      end
  end.
