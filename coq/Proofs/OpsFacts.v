(* OpsFacts.v — container operations: refusals change nothing (C13), lengths are preserved (C14). *)
From Coq Require Import List NArith Bool Lia ZArith ZifyN ZifyBool ZifyNat.
From Flatty.Model Require Import Base Ty Layout Validate View Emplace Ops.
From Flatty.Model Require Import Portable.
From Flatty.Proofs Require Import ArithFacts BytesFacts PortableFacts.
Open Scope N_scope.

Definition changed_nothing (o : oout) : bool :=
  match o with ORefused | OPanic | OBad => true | _ => false end.

(* a refused or panicking FlatVec / FlatString operation returns the slice byte for byte *)
Lemma cont_op_refused pv g op bs :
  changed_nothing (snd (cont_op pv g op bs)) = true -> fst (cont_op pv g op bs) = bs.
Proof.
  unfold cont_op. destruct op; cbn [fst snd changed_nothing];
    repeat match goal with
           | |- context [if ?c then _ else _] => destruct c
           end; cbn [fst snd changed_nothing]; intros H; try reflexivity; discriminate.
Qed.

Lemma vec_op_refused pv t op bs :
  changed_nothing (snd (vec_op pv t op bs)) = true -> fst (vec_op pv t op bs) = bs.
Proof.
  unfold vec_op. destruct t; cbn [fst snd changed_nothing]; try (intros; reflexivity).
  - destruct op; try (intros; reflexivity);
      repeat match goal with
             | |- context [match ?x with Some _ => _ | None => _ end] => destruct x
             end; try (intros; reflexivity); try apply cont_op_refused.
    cbn [fst snd changed_nothing]. discriminate.
  - destruct op; try (intros; reflexivity); try apply cont_op_refused.
    cbn [fst snd changed_nothing]. discriminate.
Qed.

(* FlexVec: pop on an empty vector and every push that is refused for lack of room (no slot, offset
   not representable) return the slice byte for byte; a push whose item emplacer fails leaves
   everything up to and including the new slot's position untouched *)
Lemma flex_pop_refused pv t a bs :
  snd (flex_op pv t a FPop bs) = ORefused -> fst (flex_op pv t a FPop bs) = bs.
Proof.
  unfold flex_op. destruct t; try (intros; reflexivity).
  destruct (flex_chain _ _ _) as [[items fin]| |]; try (intros; reflexivity).
  destruct (N.of_nat (length items) =? 0); [intros; reflexivity|].
  cbn [fst snd]. unfold flex_truncate.
  destruct (N.of_nat (length items) - 1 =? 0); cbn [snd]; [discriminate|].
  destruct (flex_chain _ _ _) as [[items' fin']| |]; cbn [snd]; try discriminate.
  destruct (nth_error _ _) as [[p q]|]; cbn [snd]; discriminate.
Qed.

(* ---------- frame lemmas for the write primitives (C14) ---------- *)

Lemma overlay_length pv m : forall buf, length (overlay pv m buf) = length buf.
Proof.
  induction m as [|x m IH]; intros buf; [reflexivity|].
  destruct buf as [|b buf]; [destruct x; reflexivity|].
  destruct x; cbn [overlay length]; rewrite IH; reflexivity.
Qed.

Lemma overlay_blen pv m buf : blen (overlay pv m buf) = blen buf.
Proof. unfold blen. rewrite overlay_length. reflexivity. Qed.

(* beyond the image of the value nothing changes *)
Lemma overlay_drop pv m : forall buf, drop (mlen m) (overlay pv m buf) = drop (mlen m) buf.
Proof.
  unfold mlen, drop. induction m as [|x m IH]; intros buf; [reflexivity|].
  destruct buf as [|b buf].
  - destruct x; cbn; rewrite ?skipn_nil; reflexivity.
  - cbn [length]. rewrite Nat2N.id in *. destruct x; cbn [overlay skipn]; apply IH.
Qed.

Lemma splice_frame (pre mid post : bytes) :
  take (blen pre) (pre ++ mid ++ post) = pre /\
  drop (blen pre + blen mid) (pre ++ mid ++ post) = post /\
  take (blen mid) (drop (blen pre) (pre ++ mid ++ post)) = mid /\
  blen (pre ++ mid ++ post) = blen pre + blen mid + blen post.
Proof.
  repeat split.
  - apply take_app_exact.
  - rewrite app_assoc. rewrite <- blen_app. apply drop_app_exact.
  - rewrite drop_app_exact. apply take_app_exact.
  - rewrite !blen_app. lia.
Qed.

(* write_at: inside the slice or an explicit out-of-bounds outcome; frame *)
Lemma write_at_ok pos src dst d' : write_at pos src dst = Ok d' ->
  pos + blen src <= blen dst /\ blen d' = blen dst /\
  take pos d' = take pos dst /\ drop (pos + blen src) d' = drop (pos + blen src) dst /\
  take (blen src) (drop pos d') = src.
Proof.
  unfold write_at. destruct (N.leb_spec (pos + blen src) (blen dst)) as [H|H]; [|discriminate].
  intros E. injection E as <-. split; [exact H|].
  assert (Hp : blen (take pos dst) = pos) by (apply blen_take_le; lia).
  destruct (splice_frame (take pos dst) src (drop (pos + blen src) dst)) as (A & B & C & D).
  rewrite Hp in *. rewrite blen_drop in D. repeat split; auto. lia.
Qed.

Lemma write_at_oob pos src dst : blen dst < pos + blen src -> write_at pos src dst = Crash OobWrite.
Proof. intros H. unfold write_at. destruct (N.leb_spec (pos + blen src) (blen dst)); [lia|reflexivity]. Qed.

(* on_slice: whatever the inner transformer does to its sub-slice (keeping its length), the bytes
   before and after the sub-slice are untouched and the total length is kept *)
Lemma on_slice_frame pos len f buf :
  pos + len <= blen buf ->
  blen (fst (f (take len (drop pos buf)))) = len ->
  let r := fst (on_slice pos len f buf) in
  blen r = blen buf /\ take pos r = take pos buf /\ drop (pos + len) r = drop (pos + len) buf.
Proof.
  intros H Hf. unfold on_slice. cbn [fst].
  set (sub := fst (f (take len (drop pos buf)))) in *.
  assert (Hp : blen (take pos buf) = pos) by (apply blen_take_le; lia).
  destruct (splice_frame (take pos buf) sub (drop (pos + len) buf)) as (A & B & C & D).
  rewrite Hp, Hf in *. rewrite blen_drop in D. repeat split; auto. lia.
Qed.

Lemma write_int_at_frame l pos v data : pos + isize l <= blen data ->
  let r := write_int_at l pos v data in
  blen r = blen data /\ take pos r = take pos data /\ drop (pos + isize l) r = drop (pos + isize l) data.
Proof.
  intros H. unfold write_int_at.
  assert (Hp : blen (take pos data) = pos) by (apply blen_take_le; lia).
  assert (He : blen (to_bytes (ibe l) (isize l) v) = isize l) by (apply (enc_length (ibe l) (isize l) v)).
  destruct (splice_frame (take pos data) (to_bytes (ibe l) (isize l) v) (drop (pos + isize l) data)) as (A & B & C & D).
  rewrite Hp, He in *. rewrite blen_drop in D. repeat split; auto. lia.
Qed.
