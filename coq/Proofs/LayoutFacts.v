(* LayoutFacts.v — facts about Layout.v: alignments are powers of two, the library's formulas
   equal the C rule of RefLayout.v. *)
From Coq Require Import List NArith Bool Lia ZArith ZifyN ZifyBool.
From Flatty.Model Require Import Base Ty Layout RefLayout.
From Flatty.Proofs Require Import ArithFacts.
Open Scope N_scope.

Lemma round_up_ceil x a : 0 < a -> round_up x a = ceil_mul x a.
Proof.
  intros Ha. unfold round_up. destruct (N.eqb_spec (x mod a) 0) as [E|E].
  - symmetry. apply ceil_mul_id; auto.
  - destruct (ceil_mul_spec x a Ha) as (q & -> & H1 & H2).
    pose proof (N.div_mod x a ltac:(lia)) as Hd. pose proof (N.mod_lt x a ltac:(lia)) as Hl.
    set (r := x mod a) in *. set (d := x / a) in *.
    assert (q = d + 1).
    { destruct (N.lt_trichotomy q (d + 1)) as [L|[L|L]]; auto.
      - assert (q * a <= d * a) by (apply N.mul_le_mono_r; lia). lia.
      - assert ((d + 2) * a <= q * a) by (apply N.mul_le_mono_r; lia). lia. }
    subst q. lia.
Qed.

(* ---------- well-formed field lists, whichever flavour ---------- *)

Definition wfF (fs : fields) : Prop :=
  wf_fields_sized fs = true \/ wf_fields_unsized fs = true \/ wf_fields_any fs = true.

Lemma wfF_cons t r : wfF (FCons t r) -> wf t = true /\ (r = FNil \/ (sized t = true /\ wfF r)).
Proof.
  unfold wfF. intros [H|[H|H]]; cbn in H.
  - rewrite !andb_true_iff in H. destruct H as [[Hw Hs] Hr]. split; [exact Hw|]. right. split; [exact Hs|]. left. exact Hr.
  - destruct r as [|t' r'].
    + rewrite andb_true_iff in H. split; [tauto|]. left. reflexivity.
    + rewrite !andb_true_iff in H. destruct H as [[Hw Hs] Hr]. split; [exact Hw|]. right. split; [exact Hs|].
      right. left. exact Hr.
  - destruct r as [|t' r'].
    + split; [exact H|]. left. reflexivity.
    + rewrite !andb_true_iff in H. destruct H as [[Hw Hs] Hr]. split; [exact Hw|]. right. split; [exact Hs|].
      right. right. exact Hr.
Qed.

Lemma wf_struct_wfF s fs : wf (TStruct s fs) = true -> fs = FNil \/ wfF fs.
Proof.
  cbn. destruct s; intros H.
  - right. left. exact H.
  - right. right. left. exact H.
Qed.

Lemma wf_variants_cons s fs r :
  wf_variants s (VCons fs r) = true -> (fs = FNil \/ wfF fs) /\ wf_variants s r = true.
Proof.
  cbn. rewrite andb_true_iff. intros [H Hr]. split; auto.
  destruct s.
  - right. left. exact H.
  - destruct fs; [left; reflexivity|]. right. right. right. exact H.
Qed.

Lemma wf_enum_inv s tag d vs :
  wf (TEnum s tag d vs) = true ->
  wf_int tag = true /\ native tag = true /\ 1 <= vlen vs /\ vlen vs <= int_max tag + 1 /\ d < vlen vs
  /\ wf_variants s vs = true.
Proof.
  cbn. rewrite !andb_true_iff, !N.leb_le, N.ltb_lt. tauto.
Qed.

Lemma wf_vec_inv t l : wf (TVec t l) = true -> wf t = true /\ sized t = true /\ wf_int l = true.
Proof. cbn [wf]. rewrite !andb_true_iff. tauto. Qed.
Lemma wf_flex_inv t l : wf (TFlex t l) = true -> wf t = true /\ wf_int l = true.
Proof. cbn [wf]. rewrite !andb_true_iff. tauto. Qed.
Lemma wf_arr_inv t n : wf (TArr t n) = true -> wf t = true /\ sized t = true.
Proof. cbn [wf]. rewrite !andb_true_iff. tauto. Qed.
Lemma narrow_vec_inv t l : narrow_ty (TVec t l) = true -> narrow_ty t = true /\ narrow l = true.
Proof. cbn [narrow_ty]. rewrite !andb_true_iff. tauto. Qed.
Lemma narrow_flex_inv t l : narrow_ty (TFlex t l) = true -> narrow_ty t = true /\ narrow l = true.
Proof. cbn [narrow_ty]. rewrite !andb_true_iff. tauto. Qed.
Lemma narrow_enum_inv s tag d vs : narrow_ty (TEnum s tag d vs) = true -> narrow tag = true /\ narrow_variants vs = true.
Proof. cbn [narrow_ty]. rewrite !andb_true_iff. tauto. Qed.

Lemma wf_int_P16 i : wf_int i = true -> P16 (isize i) /\ P16 (ialign i).
Proof.
  unfold wf_int. rewrite andb_true_iff, orb_true_iff, !N.eqb_eq. intros [H1 H2].
  apply pow2_le16_P16 in H1. split; auto. destruct H2 as [->| ->]; auto. left; reflexivity.
Qed.

(* ---------- alignments ---------- *)

Lemma align_P16_mut :
  (forall t, wf t = true -> P16 (align t)) /\
  (forall fs, fs = FNil \/ wfF fs -> P16 (align_fields fs)) /\
  (forall vs, (exists s, wf_variants s vs = true) -> P16 (align_variants vs)).
Proof.
  apply ty_mutind.
  - intros _. left; reflexivity.
  - intros i H. cbn in *. apply wf_int_P16 in H. tauto.
  - intros _. left; reflexivity.
  - intros tag n d H. cbn in *. rewrite !andb_true_iff in H. destruct H as [[[[H _] _] _] _].
    apply wf_int_P16 in H. tauto.
  - intros t IH n H. cbn in *. rewrite andb_true_iff in H. apply IH; tauto.
  - intros t IH l H. cbn in *. rewrite !andb_true_iff in H. destruct H as [[Ht _] Hl].
    apply P16_umax; [apply wf_int_P16 in Hl; tauto | auto].
  - intros l H. cbn in *. apply wf_int_P16 in H. tauto.
  - intros t IH l H. cbn in *. rewrite !andb_true_iff in H. destruct H as [Ht Hl].
    apply P16_umax; [apply wf_int_P16 in Hl; tauto | auto].
  - intros s fs IH H. cbn [align]. apply IH. apply wf_struct_wfF in H. exact H.
  - intros s tag d vs IH H. cbn [align]. apply wf_enum_inv in H. destruct H as (Hi & _ & _ & _ & _ & Hv).
    apply P16_umax; [apply wf_int_P16 in Hi; tauto | apply IH; eauto].
  - intros _. left; reflexivity.
  - intros t IHt r IHr [H|H]; [discriminate|]. apply wfF_cons in H. destruct H as [Hw Hr].
    cbn [align_fields]. apply P16_umax; auto. apply IHr. destruct Hr as [->|[_ Hr]]; auto.
  - intros _. left; reflexivity.
  - intros fs IHf r IHr [s H]. apply wf_variants_cons in H. destruct H as [Hf Hr].
    cbn [align_variants]. apply P16_umax; auto. apply IHr. eauto.
Qed.

Lemma align_P16 t : wf t = true -> P16 (align t).
Proof. apply align_P16_mut. Qed.
Lemma align_fields_P16 fs : fs = FNil \/ wfF fs -> P16 (align_fields fs).
Proof. apply align_P16_mut. Qed.
Lemma align_variants_P16 s vs : wf_variants s vs = true -> P16 (align_variants vs).
Proof. intros H. apply align_P16_mut. eauto. Qed.

Lemma align_pos t : wf t = true -> 0 < align t.
Proof. intros H. apply P16_pos, align_P16, H. Qed.

(* the library's ALIGN is the C alignment (no well-formedness needed: umax is max) *)
Lemma align_c_align_mut :
  (forall t, align t = c_align t) /\
  (forall fs, align_fields fs = c_align_fields fs) /\
  (forall vs, align_variants vs = c_align_variants vs).
Proof.
  apply ty_mutind; intros; cbn [align align_fields align_variants c_align c_align_fields c_align_variants];
    rewrite ?umax_spec; congruence.
Qed.

(* ---------- more rounding ---------- *)

Lemma ceil_mul_ceil_mul x b a : 0 < a -> 0 < b -> a mod b = 0 -> ceil_mul (ceil_mul x b) a = ceil_mul x a.
Proof.
  intros Ha Hb Hab. apply N.le_antisymm.
  - apply ceil_mul_le_mult; auto.
    + apply ceil_mul_le_mult; auto.
      * apply ceil_mul_ge; auto.
      * apply mod_trans with (m := a); auto. apply ceil_mul_mod; auto.
    + apply ceil_mul_mod; auto.
  - apply ceil_mul_mono; auto. apply ceil_mul_ge; auto.
Qed.

Lemma ceil_mul_add_mult D x a : 0 < a -> D mod a = 0 -> ceil_mul (D + x) a = D + ceil_mul x a.
Proof.
  intros Ha HD. destruct (mod0_mul D a Ha HD) as (k & ->). unfold ceil_mul.
  replace (k * a + x + a - 1) with (k * a + (x + a - 1)) by lia.
  rewrite N.div_add_l by lia. lia.
Qed.

Lemma ceil_mul_max x y a : 0 < a -> ceil_mul (N.max x y) a = N.max (ceil_mul x a) (ceil_mul y a).
Proof.
  intros Ha. destruct (N.le_ge_cases x y) as [H|H].
  - pose proof (ceil_mul_mono x y a Ha H). rewrite !N.max_r; auto.
  - pose proof (ceil_mul_mono y x a Ha H). rewrite !N.max_l; auto.
Qed.

(* DATA_OFFSET = ceil_mul(tag size, ALIGN) is the C offset of the payload union *)
Lemma tag_offset_eq ts ua : P16 ts -> P16 ua -> ceil_mul ts (umax ts ua) = ceil_mul ts ua.
Proof.
  unfold P16. intros [->|[->|[->|[->| ->]]]] [->|[->|[->|[->| ->]]]]; reflexivity.
Qed.

Lemma native_align tag : native tag = true -> ialign tag = isize tag.
Proof. unfold native. rewrite andb_true_iff, N.eqb_eq. tauto. Qed.

(* ---------- SIZE = the C size ---------- *)

Lemma ssize_c_size_mut :
  (forall t, wf t = true -> sized t = true -> ssize t = c_size t) /\
  (forall fs, wf_fields_sized fs = true -> forall acc, fold_size acc fs = c_end fs acc) /\
  (forall vs, wf_variants true vs = true ->
     forall a, 0 < a -> a mod (align_variants vs) = 0 ->
       ceil_mul (max_fold_size vs) a = ceil_mul (c_union_size vs) a).
Proof.
  destruct align_c_align_mut as (Hal & Half & Halv).
  apply ty_mutind.
  - reflexivity.
  - reflexivity.
  - reflexivity.
  - reflexivity.
  - intros t IH n Hw _. cbn in Hw. rewrite andb_true_iff in Hw. cbn [ssize c_size]. rewrite IH; tauto.
  - intros; discriminate.
  - intros; discriminate.
  - intros; discriminate.
  - intros s fs IH Hw Hs. cbn in Hs. subst s. cbn [ssize c_size].
    assert (Hp : P16 (align_fields fs)) by (apply align_fields_P16; right; left; exact Hw).
    rewrite <- Half. rewrite round_up_ceil by (apply P16_pos; auto).
    cbn in Hw. rewrite (IH Hw 0). reflexivity.
  - intros s tag d vs IH Hw Hs. cbn in Hs. subst s. cbn [ssize c_size].
    apply wf_enum_inv in Hw. destruct Hw as (Hi & Hn & _ & _ & _ & Hv).
    pose proof (align_variants_P16 _ _ Hv) as Hua.
    destruct (wf_int_P16 _ Hi) as [Hts Hta]. rewrite (native_align _ Hn) in *.
    rewrite <- Halv. set (ua := align_variants vs) in *.
    rewrite <- umax_spec. set (a := umax (isize tag) ua).
    assert (Ha : P16 a) by (apply P16_umax; auto).
    rewrite !round_up_ceil by (apply P16_pos; auto).
    unfold a at 1. rewrite tag_offset_eq by auto.
    assert (HD : ceil_mul (isize tag) ua mod a = 0).
    { rewrite <- tag_offset_eq by auto. apply ceil_mul_mod. apply P16_pos; auto. }
    rewrite !ceil_mul_add_mult by (auto using P16_pos).
    f_equal. rewrite ceil_mul_ceil_mul; auto using P16_pos.
    + apply IH; auto using P16_pos. apply P16_umax_mod_r; auto.
    + apply P16_umax_mod_r; auto.
  - intros _ acc. reflexivity.
  - intros t IHt r IHr Hw acc. cbn in Hw. rewrite !andb_true_iff in Hw. destruct Hw as [[Hwt Hst] Hr].
    cbn [fold_size c_end]. rewrite <- Hal. rewrite round_up_ceil by (apply align_pos; auto).
    rewrite IHt by auto. apply IHr; auto.
  - intros _ a _ _. reflexivity.
  - intros fs IHf r IHr Hw a Ha Hmod. cbn in Hw. rewrite andb_true_iff in Hw. destruct Hw as [Hf Hr].
    cbn [max_fold_size c_union_size align_variants] in *.
    assert (Hpf : P16 (align_fields fs)) by (apply align_fields_P16; right; left; exact Hf).
    pose proof (align_variants_P16 _ _ Hr) as Hpr.
    rewrite umax_spec. rewrite !ceil_mul_max by auto.
    rewrite <- Half. rewrite round_up_ceil by (apply P16_pos; auto).
    rewrite ceil_mul_ceil_mul; auto using P16_pos.
    + rewrite (IHf Hf 0). f_equal. apply IHr; auto.
      apply mod_trans with (m := umax (align_fields fs) (align_variants r)); auto using P16_pos.
      * apply P16_pos, P16_umax; auto.
      * apply P16_umax_mod_r; auto.
    + apply mod_trans with (m := umax (align_fields fs) (align_variants r)); auto using P16_pos.
      * apply P16_pos, P16_umax; auto.
      * apply P16_umax_mod_l; auto.
Qed.

Lemma ssize_c_size t : wf t = true -> sized t = true -> ssize t = c_size t.
Proof. apply ssize_c_size_mut. Qed.

(* ---------- field positions ---------- *)

(* the positions PosIter visits: [pos] is the position of the head field *)
Fixpoint lib_pos (fs : fields) (pos : N) (i : nat) : option N :=
  match fs with
  | FNil => None
  | FCons t r =>
      match i with
      | O => Some pos
      | S i' =>
          match r with
          | FNil => None
          | FCons t' _ => lib_pos r (pos_next pos t t') i'
          end
      end
  end.

Definition head_align (fs : fields) : N := match fs with FNil => 1 | FCons t _ => align t end.

Lemma lib_pos_c_offset fs : wfF fs -> forall off i,
  lib_pos fs (ceil_mul off (head_align fs)) i = c_offset fs off i.
Proof.
  destruct align_c_align_mut as (Hal & _ & _).
  induction fs as [|t r IH]; intros Hw off i.
  - reflexivity.
  - apply wfF_cons in Hw. destruct Hw as [Hwt Hr]. cbn [lib_pos c_offset head_align].
    rewrite <- Hal. rewrite round_up_ceil by (apply align_pos; auto).
    destruct i as [|i']; [reflexivity|].
    destruct Hr as [->|[Hst Hr]].
    + reflexivity.
    + destruct r as [|t' r'].
      * reflexivity.
      * unfold pos_next. rewrite <- (ssize_c_size t) by auto.
        rewrite <- (IH Hr). reflexivity.
Qed.

Lemma vec_data_offset_c t l : wf (TVec t l) = true -> vec_data_offset t l = c_vec_data_offset t l.
Proof.
  cbn. rewrite !andb_true_iff. intros [[Ht _] Hl]. unfold vec_data_offset, c_vec_data_offset.
  destruct align_c_align_mut as (Hal & _ & _). rewrite <- Hal.
  rewrite round_up_ceil by (apply align_pos; auto).
  apply max_pow2_is_ceil; [apply wf_int_P16 in Hl; tauto | apply align_P16; auto].
Qed.

Lemma data_offset_c s tag d vs : wf (TEnum s tag d vs) = true -> data_offset tag vs = c_union_offset tag vs.
Proof.
  intros Hw. apply wf_enum_inv in Hw. destruct Hw as (Hi & Hn & _ & _ & _ & Hv).
  unfold data_offset, c_union_offset. destruct align_c_align_mut as (_ & _ & Halv). rewrite <- Halv.
  pose proof (align_variants_P16 _ _ Hv) as Hua. destruct (wf_int_P16 _ Hi) as [Hts _].
  rewrite round_up_ceil by (apply P16_pos; auto). rewrite (native_align _ Hn).
  apply tag_offset_eq; auto.
Qed.
