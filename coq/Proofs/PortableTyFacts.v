(* PortableTyFacts.v — portable composite types (C17): alignment 1, no padding, validation does
   not depend on the address, the sized image is the plain concatenation of the parts. *)
From Coq Require Import List NArith Bool Lia ZArith ZifyN ZifyBool ZifyNat.
From Flatty.Model Require Import Base Ty Layout Utf8 Validate View Emplace Portable.
From Flatty.Proofs Require Import ArithFacts LayoutFacts BytesFacts ValidateFacts PortableFacts.
Open Scope N_scope.

(* ---------- (a) the predicate ---------- *)

(* le:: / be:: scalars and the one-byte natives *)
Definition portable_int (i : intty) : bool := ialign i =? 1.

Fixpoint portable (t : ty) : bool :=
  match t with
  | TUnit => true
  | TInt i => portable_int i
  | TBool => true
  | TCLike tag _ _ => portable_int tag
  | TArr t _ => portable t
  | TVec t l => portable t && portable_int l
  | TStr l => portable_int l
  | TFlex t l => portable t && portable_int l
  | TStruct _ fs => portable_fields fs
  | TEnum _ tag _ vs => portable_int tag && portable_variants vs
  end
with portable_fields (fs : fields) : bool :=
  match fs with
  | FNil => true
  | FCons t r => portable t && portable_fields r
  end
with portable_variants (vs : variants) : bool :=
  match vs with
  | VNil => true
  | VCons fs r => portable_fields fs && portable_variants r
  end.

Lemma portable_int_inv i : portable_int i = true -> ialign i = 1.
Proof. unfold portable_int. apply N.eqb_eq. Qed.

Lemma portable_vec_inv t l : portable (TVec t l) = true -> portable t = true /\ ialign l = 1.
Proof. cbn [portable]. rewrite andb_true_iff. intros [Ht Hl]. split; [exact Ht | apply portable_int_inv, Hl]. Qed.
Lemma portable_flex_inv t l : portable (TFlex t l) = true -> portable t = true /\ ialign l = 1.
Proof. cbn [portable]. rewrite andb_true_iff. intros [Ht Hl]. split; [exact Ht | apply portable_int_inv, Hl]. Qed.
Lemma portable_enum_inv s tag d vs :
  portable (TEnum s tag d vs) = true -> ialign tag = 1 /\ portable_variants vs = true.
Proof. cbn [portable]. rewrite andb_true_iff. intros [Ht Hv]. split; [apply portable_int_inv, Ht | exact Hv]. Qed.
Lemma portable_fields_cons t r :
  portable_fields (FCons t r) = true -> portable t = true /\ portable_fields r = true.
Proof. cbn [portable_fields]. apply andb_true_iff. Qed.
Lemma portable_variants_cons fs r :
  portable_variants (VCons fs r) = true -> portable_fields fs = true /\ portable_variants r = true.
Proof. cbn [portable_variants]. apply andb_true_iff. Qed.

(* ---------- (1) alignment 1 ---------- *)

Lemma umax_1_1 : umax 1 1 = 1.
Proof. reflexivity. Qed.

Lemma portable_align1_mut :
  (forall t, portable t = true -> align t = 1) /\
  (forall fs, portable_fields fs = true -> align_fields fs = 1) /\
  (forall vs, portable_variants vs = true -> align_variants vs = 1).
Proof.
  apply ty_mutind.
  - (* TUnit *) intros _. reflexivity.
  - (* TInt *) intros i Hp. cbn [portable] in Hp. cbn [align]. apply portable_int_inv, Hp.
  - (* TBool *) intros _. reflexivity.
  - (* TCLike *) intros tag n d Hp. cbn [portable] in Hp. cbn [align]. apply portable_int_inv, Hp.
  - (* TArr *) intros t IH n Hp. cbn [portable] in Hp. cbn [align]. apply IH, Hp.
  - (* TVec *) intros t IH l Hp. apply portable_vec_inv in Hp. destruct Hp as [Hpt Hl].
    cbn [align]. rewrite Hl, (IH Hpt). reflexivity.
  - (* TStr *) intros l Hp. cbn [portable] in Hp. cbn [align]. apply portable_int_inv, Hp.
  - (* TFlex *) intros t IH l Hp. apply portable_flex_inv in Hp. destruct Hp as [Hpt Hl].
    cbn [align]. rewrite Hl, (IH Hpt). reflexivity.
  - (* TStruct *) intros s fs IH Hp. cbn [portable] in Hp. cbn [align]. apply IH, Hp.
  - (* TEnum *) intros s tag d vs IH Hp. apply portable_enum_inv in Hp. destruct Hp as [Ht Hv].
    cbn [align]. rewrite Ht, (IH Hv). reflexivity.
  - (* FNil *) intros _. reflexivity.
  - (* FCons *) intros t IHt r IHr Hp. apply portable_fields_cons in Hp. destruct Hp as [Hpt Hpr].
    cbn [align_fields]. rewrite (IHt Hpt), (IHr Hpr). reflexivity.
  - (* VNil *) intros _. reflexivity.
  - (* VCons *) intros fs IHf r IHr Hp. apply portable_variants_cons in Hp. destruct Hp as [Hpf Hpr].
    cbn [align_variants]. rewrite (IHf Hpf), (IHr Hpr). reflexivity.
Qed.

Theorem portable_align1 t : portable t = true -> align t = 1.
Proof. apply portable_align1_mut. Qed.
Theorem portable_align_fields1 fs : portable_fields fs = true -> align_fields fs = 1.
Proof. apply portable_align1_mut. Qed.
Theorem portable_align_variants1 vs : portable_variants vs = true -> align_variants vs = 1.
Proof. apply portable_align1_mut. Qed.

(* ---------- (2) no padding ---------- *)

Lemma ceil_mul_1 x : ceil_mul x 1 = x.
Proof.
  unfold ceil_mul. replace (x + 1 - 1) with x by lia. rewrite N.div_1_r. lia.
Qed.

Lemma floor_mul_1 x : floor_mul x 1 = x.
Proof. unfold floor_mul. rewrite N.div_1_r. lia. Qed.

(* the plain sum of the field sizes *)
Fixpoint sum_ssize (fs : fields) : N :=
  match fs with
  | FNil => 0
  | FCons t r => ssize t + sum_ssize r
  end.

(* the sizes of all fields but the last *)
Fixpoint sum_but_last (fs : fields) : N :=
  match fs with
  | FNil => 0
  | FCons t FNil => 0
  | FCons t r => ssize t + sum_but_last r
  end.

(* the sizes of all fields but the last, plus the minimum size of the last *)
Fixpoint sum_min (fs : fields) : N :=
  match fs with
  | FNil => 0
  | FCons t FNil => min_size t
  | FCons t r => ssize t + sum_min r
  end.

(* the largest / smallest variant payload, as plain sums *)
Fixpoint max_sum_ssize (vs : variants) : N :=
  match vs with
  | VNil => 0
  | VCons fs r => N.max (sum_ssize fs) (max_sum_ssize r)
  end.

Fixpoint min_sum_min (vs : variants) : N :=
  match vs with
  | VNil => 0
  | VCons fs VNil => sum_min fs
  | VCons fs r => N.min (sum_min fs) (min_sum_min r)
  end.

Lemma sum_but_last_cons2 t t' r :
  sum_but_last (FCons t (FCons t' r)) = ssize t + sum_but_last (FCons t' r).
Proof. reflexivity. Qed.
Lemma sum_min_cons2 t t' r : sum_min (FCons t (FCons t' r)) = ssize t + sum_min (FCons t' r).
Proof. reflexivity. Qed.
Lemma last_field_offset_from_cons2 acc t t' r :
  last_field_offset_from acc (FCons t (FCons t' r)) =
  last_field_offset_from (ceil_mul acc (align t) + ssize t) (FCons t' r).
Proof. reflexivity. Qed.
Lemma min_sum_min_cons2 fs fs' r :
  min_sum_min (VCons fs (VCons fs' r)) = N.min (sum_min fs) (min_sum_min (VCons fs' r)).
Proof. reflexivity. Qed.
Lemma min_data_min_size_cons2 fs fs' r :
  min_data_min_size (VCons fs (VCons fs' r)) =
  umin (fold_min_size 0 fs) (min_data_min_size (VCons fs' r)).
Proof. reflexivity. Qed.

(* every field starts where the previous one ends *)
Theorem portable_fold_size fs : portable_fields fs = true ->
  forall acc, fold_size acc fs = acc + sum_ssize fs.
Proof.
  induction fs as [|t r IH]; intros Hp acc.
  - cbn [fold_size sum_ssize]. lia.
  - apply portable_fields_cons in Hp. destruct Hp as [Hpt Hpr].
    cbn [fold_size sum_ssize]. rewrite (portable_align1 t Hpt), ceil_mul_1, (IH Hpr). lia.
Qed.

Theorem portable_pos_next pos t t' : portable t' = true -> pos_next pos t t' = pos + ssize t.
Proof. intros Hp. unfold pos_next. rewrite (portable_align1 t' Hp). apply ceil_mul_1. Qed.

Theorem portable_struct_size s fs : portable_fields fs = true -> ssize (TStruct s fs) = sum_ssize fs.
Proof.
  intros Hp. cbn [ssize]. rewrite (portable_align_fields1 fs Hp), ceil_mul_1.
  rewrite (portable_fold_size fs Hp). lia.
Qed.

Theorem portable_max_fold_size vs : portable_variants vs = true -> max_fold_size vs = max_sum_ssize vs.
Proof.
  induction vs as [|fs r IH]; intros Hp; [reflexivity|].
  apply portable_variants_cons in Hp. destruct Hp as [Hpf Hpr].
  cbn [max_fold_size max_sum_ssize]. rewrite umax_spec, (portable_fold_size fs Hpf), (IH Hpr). lia.
Qed.

(* the enum payload starts right after the tag *)
Theorem portable_data_offset tag vs : ialign tag = 1 -> portable_variants vs = true ->
  data_offset tag vs = isize tag.
Proof.
  intros Ht Hv. unfold data_offset. rewrite Ht, (portable_align_variants1 vs Hv), umax_1_1. apply ceil_mul_1.
Qed.

Theorem portable_enum_size s tag d vs : ialign tag = 1 -> portable_variants vs = true ->
  ssize (TEnum s tag d vs) = isize tag + max_sum_ssize vs.
Proof.
  intros Ht Hv. cbn [ssize]. rewrite Ht, (portable_align_variants1 vs Hv), umax_1_1, !ceil_mul_1.
  rewrite (portable_max_fold_size vs Hv). reflexivity.
Qed.

Lemma umax_x_1 x : 1 <= x -> umax x 1 = x.
Proof. intros H. rewrite umax_spec. lia. Qed.

(* container data right after the length *)
Theorem portable_vec_data_offset t l : portable t = true -> wf_int l = true -> vec_data_offset t l = isize l.
Proof.
  intros Hp Hl. unfold vec_data_offset. rewrite (portable_align1 t Hp). apply umax_x_1.
  apply wf_int_P16 in Hl. destruct Hl as [Hs _]. apply P16_pos in Hs. lia.
Qed.

Theorem portable_flex_offset_size t l : portable t = true -> wf_int l = true -> flex_offset_size t l = isize l.
Proof. apply portable_vec_data_offset. Qed.

Theorem portable_last_field_offset_from fs : portable_fields fs = true ->
  forall acc, last_field_offset_from acc fs = acc + sum_but_last fs.
Proof.
  induction fs as [|t r IH]; intros Hp acc.
  - cbn [last_field_offset_from sum_but_last]. lia.
  - apply portable_fields_cons in Hp. destruct Hp as [Hpt Hpr]. destruct r as [|t' r'].
    + cbn [last_field_offset_from sum_but_last]. rewrite (portable_align1 t Hpt), ceil_mul_1. lia.
    + rewrite last_field_offset_from_cons2, sum_but_last_cons2.
      rewrite (portable_align1 t Hpt), ceil_mul_1, (IH Hpr). lia.
Qed.

Theorem portable_last_field_offset fs : portable_fields fs = true -> last_field_offset fs = sum_but_last fs.
Proof. intros Hp. unfold last_field_offset. rewrite (portable_last_field_offset_from fs Hp). lia. Qed.

Theorem portable_fold_min_size fs : portable_fields fs = true ->
  forall acc, fold_min_size acc fs = acc + sum_min fs.
Proof.
  induction fs as [|t r IH]; intros Hp acc.
  - cbn [fold_min_size sum_min]. lia.
  - apply portable_fields_cons in Hp. destruct Hp as [Hpt Hpr]. destruct r as [|t' r'].
    + cbn [fold_min_size sum_min]. rewrite (portable_align1 t Hpt), ceil_mul_1. reflexivity.
    + rewrite fold_min_size_cons2, sum_min_cons2.
      rewrite (portable_align1 t Hpt), ceil_mul_1, (IH Hpr). lia.
Qed.

Theorem portable_struct_min_size fs : portable_fields fs = true ->
  min_size (TStruct false fs) = fold_min_size 0 fs /\ min_size (TStruct false fs) = sum_min fs.
Proof.
  intros Hp. cbn [min_size]. rewrite (portable_align_fields1 fs Hp), ceil_mul_1.
  split; [reflexivity|]. rewrite (portable_fold_min_size fs Hp). lia.
Qed.

Theorem portable_min_data_min_size vs : portable_variants vs = true -> min_data_min_size vs = min_sum_min vs.
Proof.
  induction vs as [|fs r IH]; intros Hp; [reflexivity|].
  apply portable_variants_cons in Hp. destruct Hp as [Hpf Hpr]. destruct r as [|fs' r'].
  - cbn [min_data_min_size min_sum_min]. rewrite (portable_fold_min_size fs Hpf). lia.
  - rewrite min_data_min_size_cons2, min_sum_min_cons2, umin_spec.
    rewrite (portable_fold_min_size fs Hpf), (IH Hpr). lia.
Qed.

Theorem portable_enum_min_size tag d vs : ialign tag = 1 -> portable_variants vs = true ->
  min_size (TEnum false tag d vs) = isize tag + min_sum_min vs.
Proof.
  intros Ht Hv. cbn [min_size]. rewrite Ht, (portable_align_variants1 vs Hv), umax_1_1, !ceil_mul_1.
  rewrite (portable_min_data_min_size vs Hv). reflexivity.
Qed.

Theorem portable_vec_min_size t l : portable t = true -> wf_int l = true ->
  min_size (TVec t l) = isize l /\ min_size (TFlex t l) = isize l.
Proof.
  intros Hp Hl. cbn [min_size]. pose proof (portable_vec_data_offset t l Hp Hl) as H.
  unfold vec_data_offset in H. rewrite H. split; reflexivity.
Qed.

(* ---------- (3) validation does not depend on the address ---------- *)

Lemma aligned_1 a : aligned a 1 = true.
Proof. unfold aligned. rewrite N.mod_1_r. reflexivity. Qed.

Lemma bind_ext {A B} (r : res A) (f g : A -> res B) : (forall x, f x = g x) -> bind r f = bind r g.
Proof. intros H. destruct r; cbn [bind]; auto. Qed.

Lemma check_align_min_any t a a' bs : align t = 1 -> check_align_min t a bs = check_align_min t a' bs.
Proof. intros H. unfold check_align_min. rewrite H, !aligned_1. reflexivity. Qed.

Lemma arr_loop_ext f g s bs : (forall i el, f i el = g i el) ->
  forall k i, arr_loop f s bs k i = arr_loop g s bs k i.
Proof.
  intros H. induction k as [|k IH]; intros i; [reflexivity|].
  cbn [arr_loop]. apply bind_ext; intros from. apply bind_ext; intros el.
  rewrite (H i el). apply bind_ext; intros _. apply IH.
Qed.

(* the chain walk: the slot alignment test is vacuous, the callback does not look at the address *)
Lemma flex_fold_any_address {A} l os al (item : A -> N -> N -> bytes -> res A) :
  ialign l = 1 ->
  (forall acc pos pa pa' payload, item acc pos pa payload = item acc pos pa' payload) ->
  forall fuel acc a a' rem pos,
    flex_fold l os al item fuel acc a rem pos = flex_fold l os al item fuel acc a' rem pos.
Proof.
  intros Hl Hitem. induction fuel as [|fuel IH]; intros acc a a' rem pos; [reflexivity|].
  cbn [flex_fold]. rewrite Hl, !aligned_1. cbn [negb].
  destruct (blen rem <? isize l); [reflexivity|].
  apply bind_ext; intros raw. apply bind_ext; intros next.
  destruct (next =? 0); [reflexivity|].
  apply bind_ext; intros m.
  destruct (next <? os); [reflexivity|].
  destruct (negb (next =? m) && negb (next mod al =? 0)); [reflexivity|].
  destruct (negb (next =? m) && (blen rem <? next) || (blen rem <? os)); [reflexivity|].
  destruct (next =? m).
  - apply bind_ext; intros sp. rewrite (Hitem acc pos (a + os) (a' + os)). reflexivity.
  - apply bind_ext; intros sp. apply bind_ext; intros sp2.
    rewrite (Hitem acc pos (a + os) (a' + os)). apply bind_ext; intros acc'. apply IH.
Qed.

Lemma validate_any_address_mut :
  (forall t, portable t = true -> forall a a' bs, validate_u t a bs = validate_u t a' bs) /\
  (forall fs, portable_fields fs = true -> forall a a' data pos,
      validate_fields fs a data pos = validate_fields fs a' data pos) /\
  (forall vs, portable_variants vs = true -> forall k s a a' data,
      validate_variant vs k s a data = validate_variant vs k s a' data).
Proof.
  apply ty_mutind.
  - (* TUnit *) reflexivity.
  - (* TInt *) reflexivity.
  - (* TBool *) reflexivity.
  - (* TCLike *) reflexivity.
  - (* TArr *) intros t IH n Hp a a' bs. cbn [portable] in Hp. cbn [validate_u].
    apply arr_loop_ext. intros i el. apply IH, Hp.
  - (* TVec *) intros t IH l Hp a a' bs. apply portable_vec_inv in Hp. destruct Hp as [Hpt Hl].
    cbn [validate_u]. apply bind_ext; intros slots. apply bind_ext; intros len. apply bind_ext; intros cap.
    destruct (cap <? len); [reflexivity|]. apply bind_ext; intros data.
    apply arr_loop_ext. intros i el. f_equal. apply IH, Hpt.
  - (* TStr *) reflexivity.
  - (* TFlex *) intros t IH l Hp a a' bs. apply portable_flex_inv in Hp. destruct Hp as [Hpt Hl].
    cbn [validate_u]. rewrite (flex_fold_any_address l _ _ _ Hl) with (a' := a'); [reflexivity|].
    intros acc pos pa pa' payload. f_equal.
    rewrite (check_align_min_any t pa pa') by (apply portable_align1, Hpt).
    apply bind_ext; intros _. apply IH, Hpt.
  - (* TStruct *) intros s fs IH Hp a a' bs. cbn [portable] in Hp. cbn [validate_u]. apply IH, Hp.
  - (* TEnum *) intros s tag d vs IH Hp a a' bs. apply portable_enum_inv in Hp. destruct Hp as [Ht Hv].
    cbn [validate_u]. apply bind_ext; intros v. destruct (negb (v <? vlen vs)); [reflexivity|].
    apply bind_ext; intros data0. f_equal. apply IH, Hv.
  - (* FNil *) reflexivity.
  - (* FCons *) intros t IHt r IHr Hp a a' data pos. apply portable_fields_cons in Hp. destruct Hp as [Hpt Hpr].
    destruct r as [|t' r'].
    + rewrite !validate_fields_single. rewrite (IHt Hpt a a'). reflexivity.
    + rewrite !validate_fields_cons2. rewrite (IHt Hpt a a'). apply bind_ext; intros _.
      cbv zeta. apply bind_ext; intros sp. apply IHr, Hpr.
  - (* VNil *) reflexivity.
  - (* VCons *) intros fs IHf r IHr Hp k s a a' data. apply portable_variants_cons in Hp. destruct Hp as [Hpf Hpr].
    cbn [validate_variant]. destruct k as [|k'].
    + destruct (negb s && (blen data <? data_min_size fs)); [reflexivity|]. apply IHf, Hpf.
    + apply IHr, Hpr.
Qed.

Theorem portable_validate_u_any_address t : portable t = true ->
  forall a a' bs, validate_u t a bs = validate_u t a' bs.
Proof. apply validate_any_address_mut. Qed.

Theorem portable_any_address t : portable t = true ->
  forall a a' bs, validate t a bs = validate t a' bs.
Proof.
  intros Hp a a' bs. unfold validate.
  rewrite (check_align_min_any t a a') by (apply portable_align1, Hp).
  apply bind_ext; intros _. apply portable_validate_u_any_address, Hp.
Qed.

(* a portable value passes the alignment gate at every address *)
Theorem portable_never_badalign t a bs : portable t = true -> check_align_min t a bs <> Err BadAlign 0.
Proof.
  intros Hp. unfold check_align_min. rewrite (portable_align1 t Hp), aligned_1. cbn [negb].
  destruct (blen bs <? min_size t); discriminate.
Qed.

(* ---------- (5) the image of a sized portable value ---------- *)

(* no padding byte anywhere in the image *)
Definition dense (m : mbytes) : Prop := Forall (fun x => x <> None) m.

(* every enum inside has variants of one and the same payload size (in particular: no enum at all).
   A shorter variant of a sized enum leaves the bytes up to the size of the largest variant
   unused; that slack belongs to no field and exists in portable enums too. *)
Fixpoint no_slack (t : ty) : bool :=
  match t with
  | TArr t _ => no_slack t
  | TVec t _ => no_slack t
  | TFlex t _ => no_slack t
  | TStruct _ fs => no_slack_fields fs
  | TEnum _ _ _ vs => no_slack_variants (max_sum_ssize vs) vs
  | _ => true
  end
with no_slack_fields (fs : fields) : bool :=
  match fs with
  | FNil => true
  | FCons t r => no_slack t && no_slack_fields r
  end
with no_slack_variants (mx : N) (vs : variants) : bool :=
  match vs with
  | VNil => true
  | VCons fs r => (sum_ssize fs =? mx) && no_slack_fields fs && no_slack_variants mx r
  end.

(* the plain concatenation of the field images *)
Fixpoint enc_concat (fs : fields) (is : list init) : option mbytes :=
  match fs, is with
  | FNil, [] => Some []
  | FCons t r, i :: is' =>
      match enc_sized t i, enc_concat r is' with
      | Some e, Some m => Some (e ++ m)
      | _, _ => None
      end
  | _, _ => None
  end.

Lemma mlen_app a b : mlen (a ++ b) = mlen a + mlen b.
Proof. unfold mlen. rewrite app_length. lia. Qed.
Lemma mlen_map_some bs : mlen (map Some bs) = blen bs.
Proof. unfold mlen, blen. rewrite map_length. reflexivity. Qed.
Lemma mlen_repeat_none k : mlen (repeat None k) = N.of_nat k.
Proof. unfold mlen. rewrite repeat_length. reflexivity. Qed.
Lemma mlen_scalar be n v : mlen (map Some (to_bytes be n v)) = n.
Proof. rewrite mlen_map_some. apply (enc_length be n v). Qed.

(* pad_to adds nothing when the image already has the length *)
Lemma pad_to_exact n m : n <= mlen m -> pad_to n m = m.
Proof.
  intros H. unfold pad_to. replace (N.to_nat (n - mlen m)) with O by lia. cbn [repeat]. apply app_nil_r.
Qed.

Lemma dense_nil : dense [].
Proof. constructor. Qed.
Lemma dense_app a b : dense a -> dense b -> dense (a ++ b).
Proof. intros Ha Hb. apply Forall_app. split; assumption. Qed.
Lemma dense_map_some bs : dense (map Some bs).
Proof. unfold dense. induction bs as [|b r IH]; cbn [map]; constructor; [discriminate | exact IH]. Qed.

Lemma field_inits_length i n is : field_inits i n = Some is -> N.of_nat (length is) = n.
Proof.
  destruct i as [v|is0|k0 is0|is0|is0|s0|is0| |]; cbn [field_inits]; try discriminate.
  - destruct (N.eqb_spec (N.of_nat (length is0)) n) as [E|E]; [|discriminate].
    intros H. injection H as <-. exact E.
  - intros H. injection H as <-. rewrite repeat_length. lia.
Qed.

Lemma field_inits_seq is n is' : field_inits (ISeq is) n = Some is' -> is' = is.
Proof.
  cbn [field_inits]. destruct (N.of_nat (length is) =? n); [|discriminate].
  intros H. injection H as <-. reflexivity.
Qed.

Lemma concat_opt_image t s (D : Prop) :
  (forall i e, enc_sized t i = Some e -> mlen e = s /\ (D -> dense e)) ->
  forall is m, concat_opt (map (enc_sized t) is) = Some m ->
    mlen m = N.of_nat (length is) * s /\ (D -> dense m).
Proof.
  intros H. induction is as [|i r IH]; intros m Hm.
  - cbn [map concat_opt] in Hm. injection Hm as <-. split; [reflexivity | intros _; apply dense_nil].
  - cbn [map concat_opt] in Hm. destruct (enc_sized t i) as [e|] eqn:Ee; [|discriminate].
    destruct (concat_opt (map (enc_sized t) r)) as [y|] eqn:Ey; [|discriminate].
    injection Hm as <-. destruct (H i e Ee) as [H1 H2]. destruct (IH y eq_refl) as [H3 H4].
    split.
    + rewrite mlen_app, H1, H3. cbn [length]. lia.
    + intros HD. apply dense_app; auto.
Qed.

Lemma vnth_max_sum_ssize vs : forall k fs, vnth k vs = Some fs -> sum_ssize fs <= max_sum_ssize vs.
Proof.
  induction vs as [|f r IH]; intros k fs H; [destruct k; discriminate|].
  cbn [max_sum_ssize]. destruct k as [|k'].
  - cbn [vnth] in H. injection H as ->. lia.
  - cbn [vnth] in H. specialize (IH _ _ H). lia.
Qed.

Lemma no_slack_variants_nth mx vs : no_slack_variants mx vs = true ->
  forall k fs, vnth k vs = Some fs -> sum_ssize fs = mx /\ no_slack_fields fs = true.
Proof.
  induction vs as [|f r IH]; intros Hn k fs H; [destruct k; discriminate|].
  cbn [no_slack_variants] in Hn. rewrite !andb_true_iff, N.eqb_eq in Hn. destruct Hn as [[H1 H2] H3].
  destruct k as [|k'].
  - cbn [vnth] in H. injection H as <-. split; assumption.
  - cbn [vnth] in H. apply (IH H3 k' fs H).
Qed.

(* unfolding lemmas *)
Lemma enc_sized_struct fs i :
  enc_sized (TStruct true fs) i =
  match field_inits i (flen fs) with
  | Some is =>
      match enc_fields fs is [] with
      | Some m => Some (pad_to (ssize (TStruct true fs)) m)
      | None => None
      end
  | None => None
  end.
Proof. reflexivity. Qed.

Definition enc_enum_go (tag : intty) (d : N) (vs : variants) (k : N) (is : list init) : option mbytes :=
  if k <? vlen vs then
    match enc_variant vs (N.to_nat k) is
            (pad_to (data_offset tag vs) (map Some (to_bytes (ibe tag) (isize tag) k))) with
    | Some m => Some (pad_to (ssize (TEnum true tag d vs)) m)
    | None => None
    end
  else None.

Lemma enc_sized_enum tag d vs i :
  enc_sized (TEnum true tag d vs) i =
  match i with
  | IVar k is => enc_enum_go tag d vs k is
  | IDefault => enc_enum_go tag d vs d []
  | _ => None
  end.
Proof. destruct i; reflexivity. Qed.

Lemma enc_fields_cons t r i is m :
  enc_fields (FCons t r) (i :: is) m =
  match enc_sized t i with
  | Some e => enc_fields r is (pad_to (ceil_mul (mlen m) (align t)) m ++ e)
  | None => None
  end.
Proof. reflexivity. Qed.

(* fields are contiguous: nothing between the image so far and the next field *)
Theorem portable_enc_fields_cons t r i is m : portable t = true ->
  enc_fields (FCons t r) (i :: is) m =
  match enc_sized t i with
  | Some e => enc_fields r is (m ++ e)
  | None => None
  end.
Proof.
  intros Hp. rewrite enc_fields_cons, (portable_align1 t Hp), ceil_mul_1, pad_to_exact by lia. reflexivity.
Qed.

(* the image of a field list is the concatenation of the images of the fields *)
Theorem portable_enc_fields_concat fs : portable_fields fs = true ->
  forall is m0, enc_fields fs is m0 = option_map (app m0) (enc_concat fs is).
Proof.
  induction fs as [|t r IH]; intros Hp is m0.
  - destruct is as [|i is']; cbn [enc_fields enc_concat option_map]; [|reflexivity].
    rewrite app_nil_r. reflexivity.
  - apply portable_fields_cons in Hp. destruct Hp as [Hpt Hpr].
    destruct is as [|i is']; [reflexivity|].
    rewrite (portable_enc_fields_cons t r i is' m0 Hpt). cbn [enc_concat].
    destruct (enc_sized t i) as [e|]; [|reflexivity].
    rewrite (IH Hpr). destruct (enc_concat r is') as [m|]; cbn [option_map]; [|reflexivity].
    rewrite app_assoc. reflexivity.
Qed.

(* what the chosen variant contributes: exactly the images of its fields, appended to the tag *)
Definition variant_image (vs : variants) : Prop :=
  forall k is m0 m, enc_variant vs k is m0 = Some m ->
    exists fs e, vnth k vs = Some fs /\ enc_fields fs is [] = Some e /\ m = m0 ++ e /\
                 mlen e = sum_ssize fs /\ (no_slack_fields fs = true -> dense e).

Lemma enc_enum_go_image tag d vs k is m :
  ialign tag = 1 -> portable_variants vs = true -> variant_image vs ->
  enc_enum_go tag d vs k is = Some m ->
  exists fs e, vnth (N.to_nat k) vs = Some fs /\ enc_fields fs is [] = Some e /\
    mlen e = sum_ssize fs /\
    m = map Some (to_bytes (ibe tag) (isize tag) k) ++ e
        ++ repeat None (N.to_nat (max_sum_ssize vs - sum_ssize fs)) /\
    (no_slack_fields fs = true -> dense e).
Proof.
  intros Ht Hv Him H. unfold enc_enum_go in H. destruct (k <? vlen vs); [|discriminate].
  rewrite (portable_data_offset tag vs Ht Hv) in H.
  rewrite pad_to_exact in H by (rewrite mlen_scalar; lia).
  destruct (enc_variant vs (N.to_nat k) is (map Some (to_bytes (ibe tag) (isize tag) k))) as [m1|] eqn:Ev;
    [|discriminate].
  injection H as <-. destruct (Him _ _ _ _ Ev) as (fs & e & Hn & He & -> & Hl & Hd).
  exists fs, e. split; [exact Hn|]. split; [exact He|]. split; [exact Hl|]. split; [|exact Hd].
  pose proof (portable_enum_size true tag d vs Ht Hv) as Hsz. cbn [ssize] in Hsz. rewrite Hsz. unfold pad_to. rewrite mlen_app, mlen_scalar, Hl.
  rewrite <- app_assoc. f_equal. f_equal. f_equal. lia.
Qed.

Lemma sized_image_mut :
  (forall t, portable t = true -> forall i m, enc_sized t i = Some m ->
      mlen m = ssize t /\ (no_slack t = true -> dense m)) /\
  (forall fs, portable_fields fs = true -> forall is m0 m, enc_fields fs is m0 = Some m ->
      exists e, m = m0 ++ e /\ mlen e = sum_ssize fs /\ (no_slack_fields fs = true -> dense e)) /\
  (forall vs, portable_variants vs = true -> variant_image vs).
Proof.
  apply ty_mutind.
  - (* TUnit *) intros _ i m H. cbn [enc_sized] in H. injection H as <-.
    split; [reflexivity | intros _; apply dense_nil].
  - (* TInt *) intros it _ i m H. cbn [enc_sized] in H.
    destruct i as [v|is0|k0 is0|is0|is0|s0|is0| |]; try discriminate.
    + destruct (v <=? int_max it); [|discriminate]. injection H as <-.
      split; [apply mlen_scalar | intros _; apply dense_map_some].
    + injection H as <-. split; [apply mlen_scalar | intros _; apply dense_map_some].
  - (* TBool *) intros _ i m H. cbn [enc_sized] in H.
    destruct i as [v|is0|k0 is0|is0|is0|s0|is0| |]; try discriminate.
    + destruct (v <=? 1); [|discriminate]. injection H as <-.
      split; [reflexivity | intros _; constructor; [discriminate | constructor]].
    + injection H as <-. split; [reflexivity | intros _; constructor; [discriminate | constructor]].
  - (* TCLike *) intros tag n d _ i m H. cbn [enc_sized] in H.
    destruct i as [v|is0|k0 is0|is0|is0|s0|is0| |]; try discriminate.
    + destruct (v <? n); [|discriminate]. injection H as <-.
      split; [apply mlen_scalar | intros _; apply dense_map_some].
    + injection H as <-. split; [apply mlen_scalar | intros _; apply dense_map_some].
  - (* TArr *) intros t IH n Hp i m H. cbn [portable] in Hp. cbn [enc_sized] in H.
    destruct (field_inits i n) as [is|] eqn:Ef; [|discriminate]. apply field_inits_length in Ef.
    destruct (concat_opt_image t (ssize t) (no_slack t = true) (IH Hp) is m H) as [H1 H2].
    split.
    + cbn [ssize]. rewrite H1, Ef. reflexivity.
    + cbn [no_slack]. exact H2.
  - (* TVec *) intros t _ l _ i m H. cbn [enc_sized] in H. discriminate.
  - (* TStr *) intros l _ i m H. cbn [enc_sized] in H. discriminate.
  - (* TFlex *) intros t _ l _ i m H. cbn [enc_sized] in H. discriminate.
  - (* TStruct *) intros s fs IH Hp i m H. cbn [portable] in Hp.
    destruct s; [|cbn [enc_sized] in H; discriminate].
    rewrite enc_sized_struct in H. rewrite (portable_struct_size true fs Hp) in H.
    destruct (field_inits i (flen fs)) as [is|]; [|discriminate].
    destruct (enc_fields fs is []) as [m1|] eqn:Ee; [|discriminate].
    destruct (IH Hp _ _ _ Ee) as (e & -> & Hl & Hd). cbn [app] in H.
    rewrite pad_to_exact in H by lia. injection H as <-.
    rewrite (portable_struct_size true fs Hp).
    split; [exact Hl | cbn [no_slack]; exact Hd].
  - (* TEnum *) intros s tag d vs IH Hp i m H. apply portable_enum_inv in Hp. destruct Hp as [Ht Hv].
    destruct s; [|cbn [enc_sized] in H; discriminate].
    assert (Hgo : forall k is, enc_enum_go tag d vs k is = Some m ->
              mlen m = ssize (TEnum true tag d vs) /\ (no_slack (TEnum true tag d vs) = true -> dense m)).
    { intros k is Hg.
      destruct (enc_enum_go_image tag d vs k is m Ht Hv (IH Hv) Hg) as (fs & e & Hn & He & Hl & -> & Hd).
      pose proof (vnth_max_sum_ssize vs _ _ Hn) as Hle.
      split.
      - rewrite (portable_enum_size true tag d vs Ht Hv).
        rewrite !mlen_app, mlen_scalar, mlen_repeat_none, Hl. lia.
      - cbn [no_slack]. intros Hns. destruct (no_slack_variants_nth _ vs Hns _ _ Hn) as [Heq Hnf].
        apply dense_app; [apply dense_map_some|]. apply dense_app; [apply Hd, Hnf|].
        rewrite Heq. replace (N.to_nat (max_sum_ssize vs - max_sum_ssize vs)) with O by lia. apply dense_nil. }
    rewrite enc_sized_enum in H.
    destruct i as [v|is0|k0 is0|is0|is0|s0|is0| |]; try discriminate; eapply Hgo; exact H.
  - (* FNil *) intros _ is m0 m H. destruct is as [|i is']; cbn [enc_fields] in H; [|discriminate].
    injection H as <-. exists []. rewrite app_nil_r.
    split; [reflexivity|]. split; [reflexivity | intros _; apply dense_nil].
  - (* FCons *) intros t IHt r IHr Hp is m0 m H. apply portable_fields_cons in Hp. destruct Hp as [Hpt Hpr].
    destruct is as [|i is']; [cbn [enc_fields] in H; discriminate|].
    rewrite (portable_enc_fields_cons t r i is' m0 Hpt) in H.
    destruct (enc_sized t i) as [e|] eqn:Ee; [|discriminate].
    destruct (IHr Hpr _ _ _ H) as (e' & -> & Hl' & Hd'). destruct (IHt Hpt _ _ Ee) as [Hl Hd].
    exists (e ++ e'). split; [rewrite app_assoc; reflexivity|]. split.
    + rewrite mlen_app. cbn [sum_ssize]. lia.
    + cbn [no_slack_fields]. rewrite andb_true_iff. intros [Hn1 Hn2]. apply dense_app; auto.
  - (* VNil *) intros _ k is m0 m H. cbn [enc_variant] in H. discriminate.
  - (* VCons *) intros fs IHf r IHr Hp k is m0 m H. apply portable_variants_cons in Hp. destruct Hp as [Hpf Hpr].
    cbn [enc_variant] in H. destruct k as [|k'].
    + destruct (field_inits (ISeq is) (flen fs)) as [is'|] eqn:Ef; [|discriminate].
      apply field_inits_seq in Ef. subst is'.
      destruct (enc_fields fs is []) as [e|] eqn:Ee; [|discriminate]. injection H as <-.
      destruct (IHf Hpf _ _ _ Ee) as (e0 & He0 & Hl & Hd). cbn [app] in He0. subst e0.
      exists fs, e. cbn [vnth]. split; [reflexivity|]. split; [exact Ee|]. split; [reflexivity|].
      split; assumption.
    + destruct (IHr Hpr _ _ _ _ H) as (fs' & e & Hn & He & Hm & Hl & Hd).
      exists fs', e. cbn [vnth]. split; [exact Hn|]. split; [exact He|]. split; [exact Hm|].
      split; assumption.
Qed.

(* the image has exactly the size of the type: with no alignment gaps, nothing is added at the end *)
Theorem portable_sized_image_len t : portable t = true ->
  forall i m, enc_sized t i = Some m -> mlen m = ssize t.
Proof. intros Hp i m H. apply (proj1 sized_image_mut t Hp i m H). Qed.

(* no padding byte at all: scalars, arrays, structs, and enums whose variants have one size *)
Theorem portable_sized_image t : portable t = true -> no_slack t = true ->
  forall i m, enc_sized t i = Some m -> Forall (fun x => x <> None) m /\ mlen m = ssize t.
Proof.
  intros Hp Hn i m H. destruct (proj1 sized_image_mut t Hp i m H) as [Hl Hd].
  split; [apply Hd, Hn | exact Hl].
Qed.

(* a struct: the concatenation of the field images, nothing in between, nothing after *)
Theorem portable_struct_image fs i m : portable_fields fs = true ->
  enc_sized (TStruct true fs) i = Some m ->
  exists is, field_inits i (flen fs) = Some is /\ enc_concat fs is = Some m /\ mlen m = sum_ssize fs.
Proof.
  intros Hp H. rewrite enc_sized_struct in H. rewrite (portable_struct_size true fs Hp) in H.
  destruct (field_inits i (flen fs)) as [is|]; [|discriminate].
  exists is. split; [reflexivity|].
  destruct (enc_fields fs is []) as [m1|] eqn:Ee; [|discriminate].
  destruct (proj1 (proj2 sized_image_mut) fs Hp _ _ _ Ee) as (e & -> & Hl & _). cbn [app] in *.
  rewrite pad_to_exact in H by lia. injection H as <-.
  rewrite (portable_enc_fields_concat fs Hp) in Ee.
  destruct (enc_concat fs is) as [e0|]; cbn [option_map app] in Ee; [|discriminate].
  injection Ee as ->. split; [reflexivity | exact Hl].
Qed.

(* an enum: the tag, immediately followed by the contiguous fields of the active variant; only the
   bytes after the last field up to the size of the largest variant are unspecified *)
Theorem portable_enum_image tag d vs k is m : portable (TEnum true tag d vs) = true ->
  enc_sized (TEnum true tag d vs) (IVar k is) = Some m ->
  exists fs e, vnth (N.to_nat k) vs = Some fs /\ enc_concat fs is = Some e /\
    mlen e = sum_ssize fs /\ sum_ssize fs <= max_sum_ssize vs /\
    m = map Some (to_bytes (ibe tag) (isize tag) k) ++ e
        ++ repeat None (N.to_nat (max_sum_ssize vs - sum_ssize fs)) /\
    mlen m = isize tag + max_sum_ssize vs /\
    (no_slack_fields fs = true -> Forall (fun x => x <> None) e).
Proof.
  intros Hp H. pose proof (portable_sized_image_len _ Hp _ _ H) as Hlen.
  apply portable_enum_inv in Hp. destruct Hp as [Ht Hv].
  rewrite (portable_enum_size true tag d vs Ht Hv) in Hlen.
  rewrite enc_sized_enum in H.
  destruct (enc_enum_go_image tag d vs k is m Ht Hv (proj2 (proj2 sized_image_mut) vs Hv) H)
    as (fs & e & Hn & He & Hl & Hm & Hd).
  assert (Hpf : portable_fields fs = true).
  { clear - Hv Hn. revert Hv Hn. generalize (N.to_nat k) as j. induction vs as [|f r IH]; intros j Hv Hn.
    - destruct j; discriminate.
    - apply portable_variants_cons in Hv. destruct Hv as [Hf Hr]. destruct j as [|j'].
      + cbn [vnth] in Hn. injection Hn as <-. exact Hf.
      + cbn [vnth] in Hn. apply (IH j' Hr Hn). }
  rewrite (portable_enc_fields_concat fs Hpf) in He.
  destruct (enc_concat fs is) as [e0|] eqn:Ec; cbn [option_map app] in He; [|discriminate]. injection He as ->.
  exists fs, e. split; [exact Hn|]. split; [exact Ec|]. split; [exact Hl|].
  split; [apply (vnth_max_sum_ssize vs _ _ Hn)|]. split; [exact Hm|]. split; [exact Hlen | exact Hd].
Qed.

(* ---------- (6) why the tag must have alignment 1 ---------- *)

(* #[flat(portable = true, tag_type = "u16")] passes the macro; a native u16 tag has alignment 2 *)
Example wide_tag_not_align1 :
  align (TEnum true {| isize := 2; ialign := 2; ibe := false |} 0 (VCons FNil VNil)) = 2.
Proof. reflexivity. Qed.

Example wide_tag_not_portable :
  portable (TEnum true {| isize := 2; ialign := 2; ibe := false |} 0 (VCons FNil VNil)) = false
  /\ wf (TEnum true {| isize := 2; ialign := 2; ibe := false |} 0 (VCons FNil VNil)) = true.
Proof. vm_compute. split; reflexivity. Qed.
