(* KernelGateFacts.v — the entry gates of the model ARE those of the source (Generated/KernelGate.v, translated by
   tools/translate.py from base/src/utils/mem.rs, base/src/utils/iter.rs, base/src/traits.rs and
   base/src/emplacer.rs on every run): alignment first, then the minimum size, each with its error kind and
   position, and only then the unchecked part.  See KernelFacts.v. *)
From Coq Require Import List NArith Bool.
From Flatty.Model Require Import Base Ty Layout Validate View Emplace.
From Flatty.Generated Require Import KernelGate.
Open Scope N_scope.

(* base/src/utils/mem.rs check_align_and_min_size *)
Lemma k_check_align_min t a bs :
  check_align_min t a bs = g_check_align_and_min_size (align t) (min_size t) a (blen bs).
Proof. reflexivity. Qed.

(* FlatValidate::validate = gate?; validate_unchecked *)
Lemma k_validate t a bs : validate t a bs = g_gate_then (check_align_min t a bs) (validate_u t a bs).
Proof. unfold validate, g_gate_then, bind. destruct (check_align_min t a bs) as [[]| |]; reflexivity. Qed.

(* Emplacer::emplace = gate?; emplace_unchecked — a refusal by the gate returns the buffer untouched *)
Lemma k_emplace pv t i a buf :
  snd (emplace pv t i a buf) = g_gate_then (check_align_min t a buf) (snd (emplace_u pv t i a buf)) /\
  (forall k p, check_align_min t a buf = Err k p -> fst (emplace pv t i a buf) = buf).
Proof.
  unfold emplace, g_gate_then. destruct (check_align_min t a buf) as [[]|k p|c]; split; try reflexivity;
    intros k' p' H; try discriminate H; reflexivity.
Qed.

(* the run-time gate of a generated struct Init (BytesMutIter::new -> TypeIter::check_align_and_min_size) *)
Lemma k_struct_init_gate pv fs i a buf is k p :
  field_inits i (flen fs) = Some is ->
  g_type_iter_check (align_fields fs) (fold_min_size 0 fs) a (floor_mul (blen buf) (align_fields fs)) = Err k p ->
  emplace_u pv (TStruct false fs) i a buf = (buf, Err k p).
Proof.
  intros Hi. unfold g_type_iter_check. cbn [emplace_u]. rewrite Hi. unfold aligned.
  destruct (a mod align_fields fs =? 0); cbn [negb].
  - destruct (floor_mul (blen buf) (align_fields fs) <? fold_min_size 0 fs); intros H; [|discriminate H].
    injection H as <- <-. reflexivity.
  - intros H. injection H as <- <-. reflexivity.
Qed.
