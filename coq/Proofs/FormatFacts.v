(* FormatFacts.v — validation accepts exactly the well-formed encodings of the documented format
   (the reference decoder of FormatSpec.v), and the accessors read the reference content (C02). *)
From Coq Require Import List NArith Bool Lia ZArith ZifyN ZifyBool ZifyNat.
From Flatty.Model Require Import Base Ty Layout Utf8 Validate View RefLayout.
From Flatty.Proofs Require Import ArithFacts LayoutFacts BytesFacts ValidateFacts FramingFacts ChainFacts ViewFacts
  FormatSpec.
Open Scope N_scope.

(* ---------- rounding: the reference's formulas are the library's ---------- *)

Lemma round_down_floor x a : 0 < a -> round_down x a = floor_mul x a.
Proof.
  intros Ha. unfold round_down, floor_mul.
  pose proof (N.div_mod x a ltac:(lia)) as H.
  set (q := x / a) in *. set (r := x mod a) in *. nia.
Qed.

Lemma floor_mul_sub n d A : 0 < A -> d mod A = 0 -> d <= n -> floor_mul (n - d) A = floor_mul n A - d.
Proof.
  intros HA Hd Hle. destruct (mod0_mul d A HA Hd) as (q & ->). unfold floor_mul.
  assert (H : n / A = (n - q * A) / A + q).
  { rewrite <- N.div_add by lia. f_equal. lia. }
  rewrite H. set (x := (n - q * A) / A). nia.
Qed.

Lemma floor_mul_ge_iff n d A : 0 < A -> d mod A = 0 -> (d <= floor_mul n A <-> d <= n).
Proof.
  intros HA Hd. pose proof (floor_mul_le n A HA). split; intros H1; [lia|].
  apply floor_mul_ge_mult; auto.
Qed.

Lemma c_round_up_align t off : wf t = true -> round_up off (c_align t) = ceil_mul off (align t).
Proof.
  intros Hw. rewrite <- (proj1 align_c_align_mut t). apply round_up_ceil, align_pos, Hw.
Qed.

Lemma c_align_vec t l : N.max (ialign l) (c_align t) = umax (ialign l) (align t).
Proof. rewrite umax_spec, (proj1 align_c_align_mut t). reflexivity. Qed.

Lemma flex_offset_size_c t l : wf (TFlex t l) = true -> round_up (isize l) (c_align t) = flex_offset_size t l.
Proof.
  intros Hw. apply wf_flex_inv in Hw. destruct Hw as [Hwt Hl]. unfold flex_offset_size.
  rewrite c_round_up_align by auto. symmetry.
  apply max_pow2_is_ceil; [apply wf_int_P16 in Hl; tauto | apply align_P16; auto].
Qed.

(* L::MAX is at least 255, OFFSET_SIZE at most 16 *)
Lemma int_max_ge_255 l : 0 < isize l -> 255 <= int_max l.
Proof.
  intros H. unfold int_max. pose proof (pow256_mono 1 (isize l) ltac:(lia)) as Hp.
  change (256 ^ 1) with 256 in Hp. lia.
Qed.

Lemma P16_le16 a : P16 a -> a <= 16.
Proof. unfold P16. lia. Qed.

Lemma flex_os_le_max t l : wf (TFlex t l) = true -> flex_offset_size t l <= int_max l /\ int_max l <> 0.
Proof.
  intros Hw. apply wf_flex_inv in Hw. destruct Hw as [Hwt Hl].
  pose proof (wf_int_P16 _ Hl) as [Hs _]. pose proof (align_P16 _ Hwt) as Hat.
  pose proof (P16_le16 _ (P16_umax _ _ Hs Hat)) as H16.
  pose proof (int_max_ge_255 l (P16_pos _ Hs)). unfold flex_offset_size. lia.
Qed.

(* ---------- stored integers ---------- *)

Lemma stored_at_some i bs v : stored_at i bs = Some v -> isize i <= blen bs /\ read_int i bs = Ok v.
Proof.
  unfold stored_at, read_int. destruct (N.leb_spec (isize i) (blen bs)) as [H|H]; [|discriminate].
  intros E. injection E as <-. auto.
Qed.

Lemma read_int_stored_at i bs v : read_int i bs = Ok v -> stored_at i bs = Some v.
Proof.
  unfold stored_at, read_int. destruct (N.leb_spec (isize i) (blen bs)) as [H|H]; [|discriminate].
  intros E. injection E as <-. reflexivity.
Qed.

Lemma stored_at_ex i bs : isize i <= blen bs -> exists v, stored_at i bs = Some v.
Proof. intros H. unfold stored_at. destruct (N.leb_spec (isize i) (blen bs)); [eauto|lia]. Qed.

Lemma read_len_stored_at l bs v : read_len l bs = Ok v -> stored_at l bs = Some v.
Proof.
  unfold read_len. intros H. apply bind_ok_inv in H. destruct H as (raw & Hr & Hu).
  apply to_usize_inv in Hu. subst v. apply read_int_stored_at. exact Hr.
Qed.

Lemma stored_at_read_len l bs v : narrow l = true -> bytes_ok bs = true ->
  stored_at l bs = Some v -> read_len l bs = Ok v /\ v <= int_max l.
Proof.
  intros Hn Hb H. apply stored_at_some in H. destruct H as [Hle Hr].
  destruct (read_len_ok l bs Hn Hb Hle) as (v' & Hrl & Hv').
  pose proof (read_len_stored_at _ _ _ Hrl) as Hs. apply stored_at_some in Hs. destruct Hs as [_ Hr'].
  rewrite Hr in Hr'. injection Hr' as <-. auto.
Qed.

Lemma narrow_to_usize_max l : narrow l = true -> to_usize (int_max l) = Ok (int_max l).
Proof. intros H. apply to_usize_ok, int_max_lt_two64, H. Qed.

Lemma narrow_flex_max l : narrow l = true -> flex_max l = int_max l.
Proof. intros H. unfold flex_max. rewrite narrow_to_usize_max by auto. reflexivity. Qed.

Lemma narrow_not_nomax l : narrow l = true -> ~ nomax l.
Proof. intros H [c Hc]. rewrite narrow_to_usize_max in Hc by auto. discriminate. Qed.

(* ---------- sub ---------- *)

Lemma sub_some from len bs : from + len <= blen bs -> sub from len bs = Some (take len (drop from bs)).
Proof. intros H. unfold sub. destruct (N.leb_spec (from + len) (blen bs)); [reflexivity|lia]. Qed.

Lemma sub_inv from len bs el : sub from len bs = Some el -> from + len <= blen bs /\ el = take len (drop from bs).
Proof.
  unfold sub. destruct (N.leb_spec (from + len) (blen bs)) as [H|H]; [|discriminate].
  intros E. injection E as <-. auto.
Qed.

(* ---------- all_some ---------- *)

Lemma all_some_cons_inv {A} (o : option A) r :
  all_some (o :: r) <> None -> exists x, o = Some x /\ all_some r <> None.
Proof.
  cbn [all_some]. destruct o as [x|]; [|congruence]. intros H. exists x. split; [reflexivity|].
  destruct (all_some r); congruence.
Qed.

Lemma all_some_cons_some {A} (x : A) r xs : all_some r = Some xs -> all_some (Some x :: r) = Some (x :: xs).
Proof. intros H. cbn [all_some]. rewrite H. reflexivity. Qed.

Lemma not_none_ex {A} (o : option A) : o <> None -> exists x, o = Some x.
Proof. destruct o as [x|]; [eauto|congruence]. Qed.

(* ---------- element loops ---------- *)

Fixpoint idxs (k : nat) (i : N) : list N :=
  match k with O => [] | S k' => i :: idxs k' (i + 1) end.

Lemma map_of_nat_seq k : forall a, map N.of_nat (seq a k) = idxs k (N.of_nat a).
Proof.
  induction k as [|k IH]; intros a; [reflexivity|].
  cbn [seq map idxs]. f_equal. rewrite IH. f_equal. lia.
Qed.

Lemma indices_idxs n : indices n = idxs (N.to_nat n) 0.
Proof. unfold indices. apply (map_of_nat_seq (N.to_nat n) 0%nat). Qed.

(* the reference's element number j of an array that starts at byte d *)
Definition elem_ref (r : bytes -> option value) (d s : N) (bs : bytes) (j : N) : option value :=
  match sub (d + j * s) s bs with Some el => r el | None => None end.

Lemma arr_A (f : N -> bytes -> res unit) (g : bytes -> res value) (r : bytes -> option value) s d bs :
  d <= blen bs -> bytes_ok bs = true ->
  (forall j el, blen el = s -> bytes_ok el = true -> f j el = Ok tt ->
     exists v, g el = Ok v /\ r el = Some (strip v)) ->
  forall k i,
  (i + N.of_nat k) * s <= blen bs - d ->
  arr_loop f s (drop d bs) k i = Ok tt ->
  exists vs, view_arr (fun _ el => g el) s (drop d bs) k i = Ok vs /\
             all_some (map (elem_ref r d s bs) (idxs k i)) = Some (map strip vs).
Proof.
  intros Hd Hb Hfg. induction k as [|k IH]; intros i Hlen Hv.
  - exists []. split; reflexivity.
  - cbn [arr_loop view_arr idxs map] in *. unfold drop_unchecked, take_unchecked in *.
    rewrite blen_drop in *.
    assert (H1 : i * s <= blen bs - d) by nia.
    destruct (N.leb_spec (i * s) (blen bs - d)); [|lia]. cbn [bind] in *.
    rewrite blen_drop in *. rewrite blen_drop in *.
    assert (H2 : s <= blen bs - d - i * s) by nia.
    destruct (N.leb_spec s (blen bs - d - i * s)); [|lia]. cbn [bind] in *.
    apply bind_ok_inv in Hv. destruct Hv as ([] & Hel & Hrest). apply shift_ok_inv in Hel.
    rewrite drop_drop in *.
    set (el := take s (drop (d + i * s) bs)) in *.
    assert (Hbl : blen el = s) by (unfold el; rewrite blen_take_le; [reflexivity|rewrite blen_drop; lia]).
    assert (Hbe : bytes_ok el = true) by (apply bytes_ok_take, bytes_ok_drop, Hb).
    destruct (Hfg i el Hbl Hbe Hel) as (v & Hg & Hr).
    rewrite Hg. cbn [bind].
    destruct (IH (i + 1) ltac:(nia) Hrest) as (vs & Hvs & Hall).
    rewrite Hvs. cbn [bind]. exists (v :: vs). split; [reflexivity|].
    cbn [map]. unfold elem_ref at 1. rewrite sub_some by lia. fold el. rewrite Hr.
    apply all_some_cons_some. exact Hall.
Qed.

Lemma arr_B (f : N -> bytes -> res unit) (r : bytes -> option value) s d bs :
  d <= blen bs -> bytes_ok bs = true ->
  (forall j el, blen el = s -> bytes_ok el = true -> r el <> None -> f j el = Ok tt) ->
  forall k i,
  all_some (map (elem_ref r d s bs) (idxs k i)) <> None ->
  arr_loop f s (drop d bs) k i = Ok tt /\ (k <> O -> d + (i + N.of_nat k) * s <= blen bs).
Proof.
  intros Hd Hb Hf. induction k as [|k IH]; intros i Hall.
  - split; [reflexivity|congruence].
  - cbn [idxs map] in Hall. apply all_some_cons_inv in Hall. destruct Hall as (x & Hx & Hall).
    unfold elem_ref in Hx. destruct (sub (d + i * s) s bs) as [el|] eqn:Esub; [|discriminate].
    apply sub_inv in Esub. destruct Esub as [Hfit ->].
    destruct (IH (i + 1) Hall) as [Hloop Hk].
    split.
    + cbn [arr_loop]. unfold drop_unchecked, take_unchecked. rewrite blen_drop.
      destruct (N.leb_spec (i * s) (blen bs - d)); [|lia]. cbn [bind].
      rewrite !blen_drop. destruct (N.leb_spec s (blen bs - d - i * s)); [|lia]. cbn [bind].
      rewrite drop_drop. rewrite Hf; [cbn [shift bind]; exact Hloop| | |congruence].
      * rewrite blen_take_le; [reflexivity|rewrite blen_drop; lia].
      * apply bytes_ok_take, bytes_ok_drop, Hb.
    + intros _. destruct k as [|k']; [lia|]. specialize (Hk ltac:(congruence)). lia.
Qed.

(* ---------- the statements, per type ---------- *)

(* soundness and content: an accepted slice reads as its reference decoding *)
Definition TS (t : ty) : Prop := forall a bs, bytes_ok bs = true -> min_size t <= blen bs ->
  validate_u t a bs = Ok tt -> exists v, view t bs = Ok v /\ ref_decode t bs = Some (strip v).

(* completeness: a well-formed slice is large enough and is accepted at every aligned address *)
Definition TC (t : ty) : Prop := forall bs, bytes_ok bs = true -> ref_decode t bs <> None ->
  min_size t <= blen bs /\ forall a, a mod align t = 0 -> validate_u t a bs = Ok tt.

(* ---------- leaves ---------- *)

Lemma unit_S : TS TUnit.
Proof. intros a bs _ _ _. exists (VNode 0 []). split; reflexivity. Qed.

Lemma unit_C : TC TUnit.
Proof. intros bs _ _. split; [cbn; lia|reflexivity]. Qed.

Lemma int_S i : TS (TInt i).
Proof.
  intros a bs _ Hm _. cbn [min_size ssize] in Hm. destruct (read_int_ok i bs Hm) as (v & Hr & _).
  exists (VInt v). cbn [view ref_decode strip]. rewrite Hr, (read_int_stored_at _ _ _ Hr). split; reflexivity.
Qed.

Lemma int_C i : TC (TInt i).
Proof.
  intros bs _ H. cbn [ref_decode] in H. destruct (stored_at i bs) as [v|] eqn:E; [|congruence].
  apply stored_at_some in E. split; [cbn [min_size ssize]; tauto|reflexivity].
Qed.

Lemma bool_S : TS TBool.
Proof.
  intros a bs _ Hm Hv. destruct bs as [|b r]; [cbn in Hm; lia|].
  cbn [validate_u] in Hv. exists (VInt b). cbn [view ref_decode strip].
  destruct (b <=? 1); [split; reflexivity|discriminate].
Qed.

Lemma bool_C : TC TBool.
Proof.
  intros bs _ H. destruct bs as [|b r]; [cbn [ref_decode] in H; congruence|].
  cbn [ref_decode] in H. split; [cbn [min_size ssize]; rewrite blen_cons; lia|].
  intros a _. cbn [validate_u]. destruct (b <=? 1); [reflexivity|congruence].
Qed.

Lemma clike_S tag n d : TS (TCLike tag n d).
Proof.
  intros a bs _ Hm Hv. cbn [min_size ssize] in Hm. destruct (read_int_ok tag bs Hm) as (v & Hr & _).
  cbn [validate_u] in Hv. rewrite Hr in Hv. cbn [bind] in Hv.
  exists (VInt v). cbn [view ref_decode strip]. rewrite Hr, (read_int_stored_at _ _ _ Hr).
  destruct (v <? n); [split; reflexivity|discriminate].
Qed.

Lemma clike_C tag n d : TC (TCLike tag n d).
Proof.
  intros bs _ H. cbn [ref_decode] in H. destruct (stored_at tag bs) as [v|] eqn:E; [|congruence].
  apply stored_at_some in E. destruct E as [Hle Hr]. split; [cbn [min_size ssize]; exact Hle|].
  intros a _. cbn [validate_u]. rewrite Hr. cbn [bind]. destruct (v <? n); [reflexivity|congruence].
Qed.

(* ---------- arrays ---------- *)

Lemma ref_decode_arr t n bs : ref_decode (TArr t n) bs =
  match all_some (map (elem_ref (ref_decode t) 0 (c_size t) bs) (idxs (N.to_nat n) 0)) with
  | Some vs => Some (VNode 0 vs)
  | None => None
  end.
Proof. cbn [ref_decode]. rewrite indices_idxs. reflexivity. Qed.

Lemma arr_S t n : TS t -> wf (TArr t n) = true -> TS (TArr t n).
Proof.
  intros IH Hw a bs Hb Hm Hv. apply wf_arr_inv in Hw. destruct Hw as [Hwt Hst].
  cbn [min_size ssize] in Hm. cbn [validate_u] in Hv.
  destruct (arr_A (fun i el => validate_u t (a + i * ssize t) el) (view t) (ref_decode t) (ssize t) 0 bs
              ltac:(lia) Hb) with (k := N.to_nat n) (i := 0) as (vs & Hvs & Hall).
  - intros j el Hel Hbe Hval. apply (IH (a + j * ssize t) el Hbe); [rewrite min_size_sized by auto; lia|exact Hval].
  - rewrite N2Nat.id. lia.
  - exact Hv.
  - change (drop 0 bs) with bs in Hvs. exists (VNode 0 vs). cbn [view]. rewrite Hvs. cbn [bind strip].
    split; [reflexivity|]. rewrite ref_decode_arr, <- (ssize_c_size t Hwt Hst), Hall. reflexivity.
Qed.

Lemma arr_C t n : TC t -> wf (TArr t n) = true -> TC (TArr t n).
Proof.
  intros IH Hw bs Hb H. apply wf_arr_inv in Hw. destruct Hw as [Hwt Hst].
  rewrite ref_decode_arr, <- (ssize_c_size t Hwt Hst) in H.
  destruct (all_some (map (elem_ref (ref_decode t) 0 (ssize t) bs) (idxs (N.to_nat n) 0))) as [ws|] eqn:Hall; [|congruence].
  assert (Hall' : all_some (map (elem_ref (ref_decode t) 0 (ssize t) bs) (idxs (N.to_nat n) 0)) <> None) by congruence.
  split.
  - cbn [min_size ssize].
    destruct (arr_B (fun _ _ => Ok tt) (ref_decode t) (ssize t) 0 bs ltac:(lia) Hb ltac:(reflexivity) _ _ Hall') as [_ Hk].
    destruct (N.to_nat n) as [|k] eqn:En; [lia|]. specialize (Hk ltac:(congruence)). lia.
  - intros a Ha. cbn [validate_u]. cbn [align] in Ha.
    apply (arr_B (fun i el => validate_u t (a + i * ssize t) el) (ref_decode t) (ssize t) 0 bs ltac:(lia) Hb); [|exact Hall'].
    intros j el Hel Hbe Hr. apply (IH el Hbe Hr).
    pose proof (ssize_mod_align t Hwt Hst) as Hsm. pose proof (align_pos t Hwt) as Hp.
    apply mod_add_mult; auto. destruct (mod0_mul _ _ Hp Hsm) as (q & ->).
    replace (j * (q * align t)) with (j * q * align t) by lia. apply N.mod_mul. lia.
Qed.

(* ---------- FlatVec ---------- *)

Lemma ref_decode_vec_short t l bs : wf (TVec t l) = true -> blen bs < vec_data_offset t l ->
  ref_decode (TVec t l) bs = None.
Proof.
  intros Hw Hlt. pose proof (vec_consts t l Hw) as (HA & _ & HdA & _).
  cbn [ref_decode]. cbv zeta. rewrite c_align_vec, <- (vec_data_offset_c t l Hw).
  change (umax (ialign l) (align t)) with (align (TVec t l)).
  rewrite round_down_floor by exact HA. pose proof (floor_mul_le (blen bs) _ HA).
  destruct (N.ltb_spec (floor_mul (blen bs) (align (TVec t l))) (vec_data_offset t l)); [reflexivity|lia].
Qed.

Lemma ref_decode_vec t l bs : wf (TVec t l) = true -> vec_data_offset t l <= blen bs ->
  ref_decode (TVec t l) bs =
  match stored_at l bs with
  | Some len =>
      if len <=? N.min (if ssize t =? 0 then 0
                        else floor_mul (blen bs - vec_data_offset t l) (align (TVec t l)) / ssize t) (int_max l)
      then match all_some (map (elem_ref (ref_decode t) (vec_data_offset t l) (ssize t) bs) (idxs (N.to_nat len) 0)) with
           | Some vs => Some (VCont 0 vs)
           | None => None
           end
      else None
  | None => None
  end.
Proof.
  intros Hw Hd. pose proof (vec_consts t l Hw) as (HA & _ & HdA & _).
  pose proof Hw as Hw0. apply wf_vec_inv in Hw0. destruct Hw0 as (Hwt & Hst & _).
  cbn [ref_decode]. cbv zeta. rewrite c_align_vec, <- (vec_data_offset_c t l Hw), <- (ssize_c_size t Hwt Hst).
  change (umax (ialign l) (align t)) with (align (TVec t l)).
  rewrite round_down_floor by exact HA.
  pose proof (proj2 (floor_mul_ge_iff (blen bs) _ _ HA HdA) Hd) as Hge.
  destruct (N.ltb_spec (floor_mul (blen bs) (align (TVec t l))) (vec_data_offset t l)); [lia|].
  rewrite <- (floor_mul_sub (blen bs) _ _ HA HdA Hd).
  destruct (stored_at l bs) as [len|]; [|reflexivity]. rewrite indices_idxs. reflexivity.
Qed.

Lemma vec_S t l : TS t -> wf (TVec t l) = true -> TS (TVec t l).
Proof.
  intros IH Hw a bs Hb Hm Hv.
  pose proof (vec_consts t l Hw) as (HA & Hld & HdA & Hd0).
  pose proof Hw as Hw0. apply wf_vec_inv in Hw0. destruct Hw0 as (Hwt & Hst & Hl).
  destruct (vec_valid_inv _ _ _ _ Hv) as (slots & len & m & Hsl & Hrl & Hmx & Hls & Hlm & Hdb & Hloop).
  pose proof (vec_slots_room _ _ _ _ Hsl) as Hroom.
  pose proof (floor_mul_le (blen bs - vec_data_offset t l) _ HA) as Hfl.
  assert (Hfit : (0 + N.of_nat (N.to_nat len)) * ssize t <= blen bs - vec_data_offset t l).
  { rewrite N2Nat.id. assert (ssize t * len <= ssize t * slots) by (apply N.mul_le_mono_l; lia). lia. }
  destruct (arr_A (fun i el => shift (vec_data_offset t l) (validate_u t (a + vec_data_offset t l + i * ssize t) el))
              (view t) (ref_decode t) (ssize t) (vec_data_offset t l) bs Hdb Hb) with (k := N.to_nat len) (i := 0)
    as (vs & Hvs & Hall); [|exact Hfit|exact Hloop|].
  { intros j el Hel Hbe Hval. apply shift_ok_inv in Hval.
    apply (IH (a + vec_data_offset t l + j * ssize t) el Hbe); [rewrite min_size_sized by auto; lia|exact Hval]. }
  exists (VCont (umin slots m) vs). split.
  - eapply view_vec_eval; eauto.
  - rewrite (ref_decode_vec t l bs Hw Hdb). rewrite (read_len_stored_at _ _ _ Hrl).
    apply ViewFacts.vec_slots_inv in Hsl. destruct Hsl as [_ Hsl]. rewrite <- Hsl.
    apply to_usize_inv in Hmx. subst m.
    destruct (N.leb_spec len (N.min slots (int_max l))); [|lia]. rewrite Hall. reflexivity.
Qed.

Lemma vec_C t l : TC t -> wf (TVec t l) = true -> narrow l = true -> TC (TVec t l).
Proof.
  intros IH Hw Hn bs Hb H.
  pose proof (vec_consts t l Hw) as (HA & Hld & HdA & Hd0).
  pose proof Hw as Hw0. apply wf_vec_inv in Hw0. destruct Hw0 as (Hwt & Hst & Hl).
  destruct (N.lt_ge_cases (blen bs) (vec_data_offset t l)) as [Hlt|Hdb].
  { rewrite ref_decode_vec_short in H by auto. congruence. }
  split; [exact Hdb|]. intros a Ha.
  rewrite (ref_decode_vec t l bs Hw Hdb) in H.
  destruct (stored_at l bs) as [len|] eqn:Est; [|congruence].
  destruct (stored_at_read_len l bs len Hn Hb Est) as [Hrl Hlm].
  set (slots := if ssize t =? 0 then 0 else floor_mul (blen bs - vec_data_offset t l) (align (TVec t l)) / ssize t) in *.
  destruct (N.leb_spec len (N.min slots (int_max l))) as [Hcap|Hcap]; [|congruence].
  destruct (all_some (map (elem_ref (ref_decode t) (vec_data_offset t l) (ssize t) bs) (idxs (N.to_nat len) 0)))
    as [ws|] eqn:Hall; [|congruence].
  apply (vec_valid_intro t l a bs slots len (int_max l)); auto.
  - apply vec_slots_ok. exact Hdb.
  - apply narrow_to_usize_max. exact Hn.
  - lia.
  - apply (arr_B _ (ref_decode t) (ssize t) (vec_data_offset t l) bs Hdb Hb); [|congruence].
    intros j el Hel Hbe Hr. destruct (IH el Hbe Hr) as [_ Hval]. rewrite Hval; [reflexivity|].
    pose proof (ssize_mod_align t Hwt Hst) as Hsm. pose proof (align_pos t Hwt) as Hp.
    pose proof (align_P16 t Hwt) as Pt. pose proof (wf_int_P16 l Hl) as [Pls Pl].
    assert (HAt : align (TVec t l) mod align t = 0) by (cbn [align]; apply P16_umax_mod_r; auto).
    apply mod_add_mult; auto; [apply mod_add_mult; auto|].
    + apply mod_trans with (m := align (TVec t l)); auto.
    + apply mod_trans with (m := align (TVec t l)); auto.
    + destruct (mod0_mul _ _ Hp Hsm) as (q & ->).
      replace (j * (q * align t)) with (j * q * align t) by lia. apply N.mod_mul. lia.
Qed.

(* ---------- FlatString ---------- *)

Lemma ref_decode_str_short l bs : wf_int l = true -> blen bs < isize l -> ref_decode (TStr l) bs = None.
Proof.
  intros Hw Hlt. pose proof (wf_int_ialign_le _ Hw) as (_ & _ & HA).
  cbn [ref_decode]. cbv zeta. rewrite round_down_floor by exact HA. pose proof (floor_mul_le (blen bs) _ HA).
  destruct (N.ltb_spec (floor_mul (blen bs) (ialign l)) (isize l)); [reflexivity|lia].
Qed.

Lemma ref_decode_str l bs : wf_int l = true -> isize l <= blen bs ->
  ref_decode (TStr l) bs =
  match stored_at l bs with
  | Some len =>
      if len <=? N.min (floor_mul (blen bs - isize l) (ialign l)) (int_max l)
      then match sub (isize l) len bs with
           | Some s => match utf8_err s with None => Some (VCont 0 (map VInt s)) | Some _ => None end
           | None => None
           end
      else None
  | None => None
  end.
Proof.
  intros Hw Hd. pose proof (wf_int_ialign_le _ Hw) as (_ & _ & HA).
  pose proof (wf_int_size_mod_align _ Hw) as Hmod.
  cbn [ref_decode]. cbv zeta. rewrite round_down_floor by exact HA.
  pose proof (proj2 (floor_mul_ge_iff (blen bs) _ _ HA Hmod) Hd) as Hge.
  destruct (N.ltb_spec (floor_mul (blen bs) (ialign l)) (isize l)); [lia|].
  rewrite <- (floor_mul_sub (blen bs) _ _ HA Hmod Hd). reflexivity.
Qed.

Lemma map_strip_VInt s : map strip (map VInt s) = map VInt s.
Proof. rewrite map_map. apply map_ext. reflexivity. Qed.

Lemma str_S l : wf (TStr l) = true -> TS (TStr l).
Proof.
  intros Hw a bs Hb Hm Hv. cbn [wf] in Hw.
  destruct (str_valid_inv _ _ _ Hv) as (len & m & Hrl & Hmx & Hd & Hls & Hlm & Hlb & Hu).
  eexists. split; [eapply view_str_eval; eauto|].
  rewrite (ref_decode_str l bs Hw Hd), (read_len_stored_at _ _ _ Hrl).
  apply to_usize_inv in Hmx. subst m.
  destruct (N.leb_spec len (N.min (floor_mul (blen bs - isize l) (ialign l)) (int_max l))); [|lia].
  rewrite sub_some by lia. rewrite Hu. cbn [strip]. rewrite map_strip_VInt. reflexivity.
Qed.

Lemma str_C l : wf (TStr l) = true -> narrow l = true -> TC (TStr l).
Proof.
  intros Hw Hn bs Hb H. cbn [wf] in Hw. pose proof (wf_int_ialign_le _ Hw) as (_ & _ & HA).
  destruct (N.lt_ge_cases (blen bs) (isize l)) as [Hlt|Hd].
  { rewrite ref_decode_str_short in H by auto. congruence. }
  split; [exact Hd|]. intros a _.
  rewrite (ref_decode_str l bs Hw Hd) in H.
  destruct (stored_at l bs) as [len|] eqn:Est; [|congruence].
  destruct (stored_at_read_len l bs len Hn Hb Est) as [Hrl Hlm].
  destruct (N.leb_spec len (N.min (floor_mul (blen bs - isize l) (ialign l)) (int_max l))) as [Hcap|Hcap]; [|congruence].
  pose proof (floor_mul_le (blen bs - isize l) _ HA) as Hfl.
  rewrite sub_some in H by lia.
  destruct (utf8_err (take len (drop (isize l) bs))) as [i|] eqn:Eu; [congruence|].
  apply (str_valid_intro l a bs len (int_max l)); auto; try lia.
  apply narrow_to_usize_max. exact Hn.
Qed.

(* ---------- FlexVec: the chain of the library and the chain of the reference ---------- *)

Lemma ref_chain_S l os al item f data p :
  ref_chain l os al item (S f) data p =
  match stored_at l (drop p data) with
  | None => None
  | Some next =>
      if p + isize l <=? blen data then
        if next =? 0 then Some []
        else if next =? int_max l then
          if p + os <=? blen data then
            match item (drop (p + os) data) with Some v => Some [v] | None => None end
          else None
        else if (os <=? next) && (next mod al =? 0) && (p + next <=? blen data) then
          match sub (p + os) (next - os) data with
          | Some payload =>
              match item payload, ref_chain l os al item f data (p + next) with
              | Some v, Some vs => Some (v :: vs)
              | _, _ => None
              end
          | None => None
          end
        else None
      else None
  end.
Proof. reflexivity. Qed.

Lemma payload_eq os next (rem : bytes) : os <= next ->
  drop os (take next rem) = take (next - os) (drop os rem).
Proof.
  intros H. rewrite take_drop_comm. replace (os + (next - os)) with next by lia. reflexivity.
Qed.

(* the payloads of a chain are pieces of the data *)
Lemma chain_bytes_ok l os al m a rem pos items e : chain l os al m a rem pos items e ->
  bytes_ok rem = true -> Forall (fun x => bytes_ok (snd x) = true) items.
Proof.
  induction 1 as [a rem pos Ha Hs Hr|a rem pos Ha Hs Hr Hm0 Hom Hor
                 |a rem pos next items e Ha Hs Hr Hn0 Hnm Hon Hmod Hnr Hc IHc]; intros Hb.
  - constructor.
  - constructor; [|constructor]. cbn [snd]. apply bytes_ok_drop, Hb.
  - constructor; [cbn [snd]; apply bytes_ok_drop, bytes_ok_take, Hb|]. apply IHc. apply bytes_ok_drop, Hb.
Qed.

(* a chain of the library whose items decode is a chain of the reference with the same items *)
Lemma chain_ref_chain l os al (item : bytes -> option value) data : 0 < os ->
  forall a rem pos items e, chain l os al (int_max l) a rem pos items e ->
  rem = drop pos data -> pos <= blen data ->
  forall vs, Forall2 (fun x v => item (snd x) = Some v) items vs ->
  forall fuel, (length rem < fuel)%nat ->
  ref_chain l os al item fuel data pos = Some vs.
Proof.
  intros Hos.
  induction 1 as [a rem pos Ha Hs Hr|a rem pos Ha Hs Hr Hm0 Hom Hor
                 |a rem pos next items e Ha Hs Hr Hn0 Hnm Hon Hmod Hnr Hc IHc];
    intros Hrem Hpos vs Hvs fuel Hf; (destruct fuel as [|fuel]; [lia|]); rewrite ref_chain_S;
    apply read_len_stored_at in Hr; rewrite <- Hrem, Hr; subst rem; rewrite blen_drop in *;
    (destruct (N.leb_spec (pos + isize l) (blen data)); [|lia]).
  - inversion Hvs; subst. reflexivity.
  - destruct (N.eqb_spec (int_max l) 0); [lia|]. rewrite N.eqb_refl.
    destruct (N.leb_spec (pos + os) (blen data)); [|lia].
    inversion Hvs as [|x v r vs' Hv Hrest]; subst. inversion Hrest; subst. cbn [snd] in Hv.
    rewrite drop_drop in Hv. rewrite Hv. reflexivity.
  - destruct (N.eqb_spec next 0); [lia|]. destruct (N.eqb_spec next (int_max l)); [lia|].
    destruct (N.leb_spec os next); [|lia]. destruct (N.eqb_spec (next mod al) 0); [|lia].
    destruct (N.leb_spec (pos + next) (blen data)); [|lia]. cbn [andb].
    rewrite sub_some by lia.
    inversion Hvs as [|x v r vs' Hv Hrest]; subst. cbn [snd] in Hv.
    rewrite payload_eq in Hv by lia. rewrite drop_drop in Hv. rewrite Hv.
    rewrite (IHc ltac:(rewrite drop_drop; reflexivity) ltac:(lia) vs' Hrest fuel).
    + reflexivity.
    + apply length_drop_lt; auto; [lia|rewrite blen_drop; lia].
Qed.

(* a chain of the reference is a chain of the library from every aligned address; the payloads
   sit at multiples of the alignment *)
Lemma ref_chain_chain l os al (item : bytes -> option value) data :
  narrow l = true -> bytes_ok data = true -> 0 < al -> 0 < ialign l -> al mod ialign l = 0 ->
  os <= int_max l -> os mod al = 0 ->
  forall fuel pos ws, ref_chain l os al item fuel data pos = Some ws ->
  forall a, a mod al = 0 ->
  exists items e, chain l os al (int_max l) a (drop pos data) pos items e /\
    Forall2 (fun x w => item (snd x) = Some w /\ bytes_ok (snd x) = true /\ snd (fst x) mod al = 0) items ws.
Proof.
  intros Hn Hb Hal Hil Hdiv Hom Hosm.
  induction fuel as [|fuel IH]; intros pos ws H a Ha; [discriminate|].
  rewrite ref_chain_S in H.
  destruct (stored_at l (drop pos data)) as [next|] eqn:Est; [|discriminate].
  pose proof (stored_at_read_len l _ next Hn (bytes_ok_drop pos data Hb) Est) as [Hrl _].
  apply stored_at_some in Est. destruct Est as [Hs _].
  assert (Haa : aligned a (ialign l) = true).
  { unfold aligned. apply N.eqb_eq. apply mod_trans with (m := al); auto. }
  destruct (N.leb_spec (pos + isize l) (blen data)) as [Hfit|Hfit]; [|discriminate].
  destruct (N.eqb_spec next 0) as [Hz|Hz].
  { injection H as <-. subst next. exists [], (EndZero pos). split; [apply ch_zero; auto|constructor]. }
  destruct (N.eqb_spec next (int_max l)) as [Hl|Hl].
  - destruct (N.leb_spec (pos + os) (blen data)) as [Hfo|Hfo]; [|discriminate].
    destruct (item (drop (pos + os) data)) as [v|] eqn:Ei; [|discriminate]. injection H as <-. subst next.
    exists [(pos, a + os, drop os (drop pos data))], (EndLast pos). split.
    + apply ch_last; auto. rewrite blen_drop. lia.
    + constructor; [|constructor]. cbn [fst snd]. rewrite drop_drop. repeat split; auto.
      * apply bytes_ok_drop, Hb.
      * apply mod_add_mult; auto.
  - destruct (N.leb_spec os next) as [Hon|Hon]; [|discriminate].
    destruct (N.eqb_spec (next mod al) 0) as [Hmod|Hmod]; [|discriminate].
    destruct (N.leb_spec (pos + next) (blen data)) as [Hnr|Hnr]; [|discriminate]. cbn [andb] in H.
    rewrite sub_some in H by lia.
    destruct (item (take (next - os) (drop (pos + os) data))) as [v|] eqn:Ei; [|discriminate].
    destruct (ref_chain l os al item fuel data (pos + next)) as [ws'|] eqn:Er; [|discriminate].
    injection H as <-.
    destruct (IH _ _ Er (a + next) ltac:(apply mod_add_mult; auto)) as (items & e & Hc & Hf).
    exists ((pos, a + os, drop os (take next (drop pos data))) :: items), e. split.
    + apply ch_next; auto; [rewrite blen_drop; lia|]. rewrite drop_drop. exact Hc.
    + constructor; [|exact Hf]. cbn [fst snd]. rewrite payload_eq by lia. rewrite drop_drop.
      repeat split; auto.
      * apply bytes_ok_take, bytes_ok_drop, Hb.
      * apply mod_add_mult; auto.
Qed.

Lemma ref_chain_head l os al item f data ws : ref_chain l os al item (S f) data 0 = Some ws -> isize l <= blen data.
Proof.
  rewrite ref_chain_S. change (drop 0 data) with data.
  destruct (stored_at l data) as [next|] eqn:E; [|discriminate]. apply stored_at_some in E. tauto.
Qed.

Lemma ref_decode_flex t l bs : wf (TFlex t l) = true ->
  ref_decode (TFlex t l) bs =
  match ref_chain l (flex_offset_size t l) (align (TFlex t l)) (ref_decode t)
          (flex_fuel (flex_data t l bs)) (flex_data t l bs) 0 with
  | Some vs => Some (VNode 0 vs)
  | None => None
  end.
Proof.
  intros Hw. pose proof (flex_consts t l Hw) as (Hal & _).
  cbn [ref_decode]. cbv zeta. rewrite c_align_vec, (flex_offset_size_c t l Hw).
  change (umax (ialign l) (align t)) with (align (TFlex t l)).
  rewrite round_down_floor by exact Hal. reflexivity.
Qed.

Lemma Forall2_map_r {A B C} (P : A -> C -> Prop) (f : B -> C) xs ys :
  Forall2 (fun x y => P x (f y)) xs ys -> Forall2 P xs (map f ys).
Proof. induction 1; cbn [map]; constructor; auto. Qed.

Lemma Forall2_impl {A B} (P Q : A -> B -> Prop) xs ys :
  (forall x y, P x y -> Q x y) -> Forall2 P xs ys -> Forall2 Q xs ys.
Proof. intros H. induction 1; constructor; auto. Qed.

Lemma flex_S t l : TS t -> wf (TFlex t l) = true -> narrow l = true -> TS (TFlex t l).
Proof.
  intros IH Hw Hn a bs Hb Hm Hv.
  pose proof (flex_consts t l Hw) as (Hal & Hlos & Hosm & Hdiv & Hos & Hil & _).
  destruct (flex_valid_chain t l a bs Hw Hv) as (items & e & Hc & Hok & Hnm).
  assert (Hbd : bytes_ok (flex_data t l bs) = true) by (apply bytes_ok_take, Hb).
  pose proof (chain_bytes_ok _ _ _ _ _ _ _ _ _ Hc Hbd) as Hbi.
  assert (Hvs : exists vs, Forall2 (fun x v => view t (snd x) = Ok v /\ ref_decode t (snd x) = Some (strip v)) items vs).
  { clear Hc Hnm. induction Hok as [|x r [Hcx Hvx] Hr IHr].
    - exists []. constructor.
    - inversion Hbi as [|x' r' Hbx Hbr]; subst. destruct (IHr Hbr) as (vs & Hvs).
      destruct (IH _ _ Hbx (check_align_min_ok _ _ _ Hcx) Hvx) as (v & Hview & Href).
      exists (v :: vs). constructor; auto. }
  destruct Hvs as (vs & Hvs).
  exists (VNode 0 vs). split.
  - apply (flex_view_chain t l a bs items e vs Hw Hc Hnm).
    eapply Forall2_impl; [|exact Hvs]. cbn beta. tauto.
  - rewrite (ref_decode_flex t l bs Hw). rewrite (narrow_flex_max l Hn) in Hc.
    rewrite (chain_ref_chain l _ _ (ref_decode t) (flex_data t l bs) Hos a _ 0 items e Hc eq_refl ltac:(lia) (map strip vs)).
    + reflexivity.
    + apply Forall2_map_r. eapply Forall2_impl; [|exact Hvs]. cbn beta. tauto.
    + apply flex_fuel_ok.
Qed.

Lemma items_ok_of_ref t al items ws : TC t -> 0 < align t -> 0 < al -> al mod align t = 0 ->
  Forall2 (fun x w => ref_decode t (snd x) = Some w /\ bytes_ok (snd x) = true /\ snd (fst x) mod al = 0) items ws ->
  Forall (item_ok t) items.
Proof.
  intros IH Hat Hal Hdiv. induction 1 as [|x w r ws' (Hx & Hbx & Hax) Hr IHr]; constructor; [|exact IHr].
  assert (Hxa : snd (fst x) mod align t = 0) by (apply mod_trans with (m := al); auto).
  destruct (IH (snd x) Hbx ltac:(congruence)) as [Hmin Hval]. split.
  - unfold check_align_min, aligned. rewrite Hxa. cbn [N.eqb negb].
    destruct (N.ltb_spec (blen (snd x)) (min_size t)); [lia|reflexivity].
  - apply Hval. exact Hxa.
Qed.

Lemma flex_C t l : TC t -> wf (TFlex t l) = true -> narrow l = true -> TC (TFlex t l).
Proof.
  intros IH Hw Hn bs Hb H.
  pose proof (flex_consts t l Hw) as (Hal & Hlos & Hosm & Hdiv & Hos & Hil & Halt).
  destruct (flex_data_blen t l bs Hw) as (HF & HFle & HFmod).
  destruct (flex_os_le_max t l Hw) as [Hom _].
  pose proof Hw as Hw0. apply wf_flex_inv in Hw0. destruct Hw0 as [Hwt Hl].
  rewrite (ref_decode_flex t l bs Hw) in H.
  destruct (ref_chain l (flex_offset_size t l) (align (TFlex t l)) (ref_decode t)
              (flex_fuel (flex_data t l bs)) (flex_data t l bs) 0) as [ws|] eqn:Er; [|congruence].
  assert (Hbd : bytes_ok (flex_data t l bs) = true) by (apply bytes_ok_take, Hb).
  split.
  - cbn [min_size]. fold (flex_offset_size t l).
    pose proof (ref_chain_head _ _ _ _ _ _ _ Er) as Hh.
    pose proof (flex_slot_fits t l 0 _ Hw ltac:(apply N.mod_0_l; lia) HFmod ltac:(lia)). lia.
  - intros a Ha.
    destruct (ref_chain_chain l _ _ (ref_decode t) _ Hn Hbd Hal Hil Hdiv Hom Hosm _ _ _ Er a Ha)
      as (items & e & Hc & Hf).
    change (drop 0 (flex_data t l bs)) with (flex_data t l bs) in Hc.
    rewrite <- (narrow_flex_max l Hn) in Hc.
    apply (chain_flex_valid t l a bs items e Hw Hc).
    + apply (items_ok_of_ref t (align (TFlex t l)) items ws IH); auto. apply align_pos; auto.
    + intros Hx. exfalso. eapply narrow_not_nomax; eauto.
Qed.

(* ---------- field lists: the library's running positions are the reference's C offsets ---------- *)

(* [data0] is the whole data of the struct / variant, the head field sits at
   pos = ceil_mul off (ALIGN of the head) = the C offset round_up off (align of the head) *)
Definition FS (fs : fields) : Prop := forall a data0 off pos, bytes_ok data0 = true ->
  pos = ceil_mul off (head_align fs) -> end_min fs pos <= blen data0 ->
  validate_fields fs a (drop pos data0) pos = Ok tt ->
  exists vs, view_fields fs (drop pos data0) pos = Ok vs /\ ref_fields fs off data0 = Some (map strip vs).

Definition FC (fs : fields) : Prop := forall data0 off, bytes_ok data0 = true ->
  ref_fields fs off data0 <> None ->
  end_min fs (ceil_mul off (head_align fs)) <= blen data0 /\
  forall a0, a0 mod align_fields fs = 0 ->
    validate_fields fs (a0 + ceil_mul off (head_align fs)) (drop (ceil_mul off (head_align fs)) data0)
      (ceil_mul off (head_align fs)) = Ok tt.

Lemma ref_fields_cons t r off data : wf t = true ->
  ref_fields (FCons t r) off data =
  (if ceil_mul off (align t) <=? blen data then
     match ref_decode t (drop (ceil_mul off (align t)) data), ref_fields r (ceil_mul off (align t) + c_size t) data with
     | Some v, Some vs => Some (v :: vs)
     | _, _ => None
     end
   else None).
Proof. intros Hw. cbn [ref_fields]. rewrite c_round_up_align by auto. reflexivity. Qed.

Lemma fields_S_single t : wf t = true -> TS t -> FS (FCons t FNil).
Proof.
  intros Hwt IH a data0 off pos Hb Hpos He Hv. cbn [head_align] in Hpos. cbn [end_min] in He.
  rewrite validate_fields_single in Hv. apply bind_ok_inv in Hv. destruct Hv as ([] & Hv & _).
  apply shift_ok_inv in Hv.
  destruct (IH a (drop pos data0) (bytes_ok_drop _ _ Hb) ltac:(rewrite blen_drop; lia) Hv) as (v & Hview & Href).
  exists [v]. rewrite view_fields_single, Hview. split; [reflexivity|].
  rewrite ref_fields_cons by auto. rewrite <- Hpos.
  destruct (N.leb_spec pos (blen data0)); [|lia]. rewrite Href. reflexivity.
Qed.

Lemma fields_S_cons2 t t' r : wf t = true -> wf t' = true -> sized t = true -> wfF (FCons t' r) ->
  TS t -> FS (FCons t' r) -> FS (FCons t (FCons t' r)).
Proof.
  intros Hwt Hwt' Hst Hr IHt IHr a data0 off pos Hb Hpos He Hv. cbn [head_align] in Hpos.
  rewrite validate_fields_cons2 in Hv. rewrite end_min_cons2 in He.
  pose proof (end_min_ge _ Hr (pos_next pos t t')) as Hge.
  assert (Hnp : pos + ssize t <= pos_next pos t t') by (unfold pos_next; apply ceil_mul_ge, align_pos; auto).
  apply bind_ok_inv in Hv. destruct Hv as ([] & Hv & Hrest). apply shift_ok_inv in Hv. cbv zeta in Hrest.
  apply bind_ok_inv in Hrest. destruct Hrest as (sp & Hsp & Hrest).
  apply split_at_inv in Hsp. destruct Hsp as [Hsple ->]. cbn [snd] in Hrest.
  destruct (IHt a (drop pos data0) (bytes_ok_drop _ _ Hb)
              ltac:(rewrite blen_drop, min_size_sized by auto; lia) Hv) as (v & Hview & Href).
  set (np := pos_next pos t t') in *.
  rewrite drop_drop in Hrest. replace (pos + (np - pos)) with np in Hrest by lia.
  destruct (IHr _ data0 (pos + ssize t) np Hb eq_refl He Hrest) as (vs & Hvs & Hrefs).
  exists (v :: vs). rewrite view_fields_cons2, Hview. cbn [bind]. fold np.
  rewrite (split_at_ok _ _ Hsple). cbn [bind snd].
  rewrite drop_drop. replace (pos + (np - pos)) with np by lia. rewrite Hvs. split; [reflexivity|].
  rewrite ref_fields_cons by auto. rewrite <- Hpos.
  destruct (N.leb_spec pos (blen data0)); [|lia]. rewrite Href.
  rewrite <- (ssize_c_size t Hwt Hst), Hrefs. reflexivity.
Qed.

Lemma fields_C_single t : wf t = true -> TC t -> FC (FCons t FNil).
Proof.
  intros Hwt IH data0 off Hb H. cbn [head_align]. rewrite ref_fields_cons in H by auto.
  pose proof (align_P16 t Hwt) as Pt. pose proof (P16_pos _ Pt) as Hat.
  set (pos := ceil_mul off (align t)) in *.
  destruct (N.leb_spec pos (blen data0)) as [Hle|Hle]; [|congruence].
  destruct (ref_decode t (drop pos data0)) as [v|] eqn:Er; [|congruence].
  destruct (IH (drop pos data0) (bytes_ok_drop _ _ Hb) ltac:(congruence)) as [Hmin Hval].
  rewrite blen_drop in Hmin. split; [cbn [end_min]; lia|].
  intros a0 Ha0. rewrite validate_fields_single. rewrite Hval; [reflexivity|].
  cbn [align_fields] in Ha0. apply mod_add_mult; auto.
  - apply mod_trans with (m := umax (align t) 1); auto.
    + apply P16_pos, P16_umax; [auto|left; reflexivity].
    + apply P16_umax_mod_l; [auto|left; reflexivity].
  - apply ceil_mul_mod; auto.
Qed.

Lemma fields_C_cons2 t t' r : wf t = true -> wf t' = true -> sized t = true -> wfF (FCons t' r) ->
  TC t -> FC (FCons t' r) -> FC (FCons t (FCons t' r)).
Proof.
  intros Hwt Hwt' Hst Hr IHt IHr data0 off Hb H. cbn [head_align]. rewrite ref_fields_cons in H by auto.
  pose proof (align_P16 t Hwt) as Pt. pose proof (P16_pos _ Pt) as Hat.
  pose proof (align_fields_P16 (FCons t' r) (or_intror Hr)) as Pr.
  set (pos := ceil_mul off (align t)) in *.
  destruct (N.leb_spec pos (blen data0)) as [Hle|Hle]; [|congruence].
  destruct (ref_decode t (drop pos data0)) as [v|] eqn:Er; [|congruence].
  rewrite <- (ssize_c_size t Hwt Hst) in H.
  destruct (ref_fields (FCons t' r) (pos + ssize t) data0) as [vs|] eqn:Ers; [|congruence].
  destruct (IHt (drop pos data0) (bytes_ok_drop _ _ Hb) ltac:(congruence)) as [Hmin Hval].
  rewrite blen_drop, min_size_sized in Hmin by auto.
  destruct (IHr data0 (pos + ssize t) Hb ltac:(congruence)) as [He Hvals]. cbn [head_align] in He, Hvals.
  change (ceil_mul (pos + ssize t) (align t')) with (pos_next pos t t') in He, Hvals.
  set (np := pos_next pos t t') in *.
  pose proof (end_min_ge _ Hr np) as Hge.
  assert (Hnp : pos + ssize t <= np) by (unfold np, pos_next; apply ceil_mul_ge, align_pos; auto).
  split; [rewrite end_min_cons2; exact He|].
  intros a0 Ha0. cbn [align_fields] in Ha0. fold (align_fields (FCons t' r)) in Ha0.
  assert (HA : 0 < umax (align t) (align_fields (FCons t' r))) by (apply P16_pos, P16_umax; auto).
  rewrite validate_fields_cons2. rewrite Hval.
  - cbn [shift bind]. fold np. rewrite split_at_ok by (rewrite blen_drop; lia). cbn [bind snd].
    rewrite drop_drop. replace (pos + (np - pos)) with np by lia.
    replace (a0 + pos + (np - pos)) with (a0 + np) by lia. apply Hvals.
    apply mod_trans with (m := umax (align t) (align_fields (FCons t' r))); auto using P16_pos.
    apply P16_umax_mod_r; auto.
  - apply mod_add_mult; auto; [|apply ceil_mul_mod; auto].
    apply mod_trans with (m := umax (align t) (align_fields (FCons t' r))); auto.
    apply P16_umax_mod_l; auto.
Qed.

(* ---------- variants ---------- *)

Definition VS (vs : variants) : Prop := forall s k a data,
  wf_variants s vs = true -> bytes_ok data = true -> N.of_nat k < vlen vs ->
  (s = true -> max_fold_size vs <= blen data) ->
  validate_variant vs k s a data = Ok tt ->
  exists fvs, view_variant vs k data = Ok fvs /\ ref_variant vs k data = Some (map strip fvs).

Definition VC (vs : variants) : Prop := forall s k data,
  wf_variants s vs = true -> bytes_ok data = true -> ref_variant vs k data <> None ->
  N.of_nat k < vlen vs /\ min_data_min_size vs <= blen data /\
  forall a, a mod align_variants vs = 0 -> validate_variant vs k s a data = Ok tt.

Lemma variants_S_cons fs r : (fs <> FNil -> wfF fs -> FS fs) -> VS r -> VS (VCons fs r).
Proof.
  intros IHf IHr s k a data Hw Hb Hk Hs Hv. pose proof Hw as Hw0. apply wf_variants_cons in Hw.
  destruct Hw as [Hf Hr]. destruct k as [|k'].
  - cbn [validate_variant] in Hv. cbn [view_variant ref_variant].
    destruct (negb s && (blen data <? data_min_size fs)) eqn:Echk; [discriminate|].
    destruct Hf as [->|Hf]; [exists []; split; reflexivity|].
    destruct fs as [|t0 r0]; [exists []; split; reflexivity|].
    assert (Hend : end_min (FCons t0 r0) 0 <= blen data).
    { rewrite <- fold_min_size_0 by congruence. destruct s.
      - specialize (Hs eq_refl). cbn [max_fold_size] in Hs.
        cbn [wf_variants] in Hw0. rewrite andb_true_iff in Hw0. destruct Hw0 as [Hfs _].
        rewrite fold_min_size_sized by auto. pose proof (umax_ge_l (fold_size 0 (FCons t0 r0)) (max_fold_size r)). lia.
      - cbn [negb andb] in Echk. unfold data_min_size in Echk. rewrite N.ltb_ge in Echk. exact Echk. }
    apply (IHf ltac:(congruence) Hf a data 0 0 Hb ltac:(symmetry; apply ceil_mul_0) Hend Hv).
  - cbn [validate_variant] in Hv. cbn [view_variant ref_variant].
    apply (IHr s k' a data Hr Hb); auto.
    + cbn [vlen] in Hk. lia.
    + intros Hst. specialize (Hs Hst). cbn [max_fold_size] in Hs.
      pose proof (umax_ge_r (fold_size 0 fs) (max_fold_size r)). lia.
Qed.

Lemma variants_C_cons fs r : (fs <> FNil -> wfF fs -> FC fs) -> VC r -> VC (VCons fs r).
Proof.
  intros IHf IHr s k data Hw Hb H. pose proof Hw as Hw0. apply wf_variants_cons in Hw.
  destruct Hw as [Hf Hr]. pose proof (min_data_min_size_cons fs r) as [Hmin Hmin'].
  pose proof (align_variants_P16 s r Hr) as Pr.
  assert (Pf : P16 (align_fields fs)) by (apply align_fields_P16; destruct Hf; auto).
  assert (HA : 0 < umax (align_fields fs) (align_variants r)) by (apply P16_pos, P16_umax; auto).
  destruct k as [|k'].
  - cbn [ref_variant] in H. split; [cbn [vlen]; lia|].
    assert (Hnil : fs = FNil -> min_data_min_size (VCons fs r) <= blen data /\
                     forall a : N, validate_variant (VCons fs r) 0 s a data = Ok tt).
    { intros ->. cbn [fold_min_size] in Hmin. split; [lia|]. intros a. cbn [validate_variant].
      unfold data_min_size. cbn [fold_min_size]. destruct (N.ltb_spec (blen data) 0); [lia|].
      rewrite andb_false_r. reflexivity. }
    destruct Hf as [Hf|Hf]; [destruct (Hnil Hf) as [H1 H2]; split; auto|].
    destruct fs as [|t0 r0]; [destruct (Hnil eq_refl) as [H1 H2]; split; auto|].
    destruct (IHf ltac:(congruence) Hf data 0 Hb H) as [He Hval]. rewrite ceil_mul_0 in He, Hval.
    rewrite <- fold_min_size_0 in He by congruence. split; [lia|].
    intros a Ha. cbn [validate_variant]. unfold data_min_size.
    destruct (N.ltb_spec (blen data) (fold_min_size 0 (FCons t0 r0))); [lia|]. rewrite andb_false_r.
    specialize (Hval a). rewrite N.add_0_r in Hval. change (drop 0 data) with data in Hval. apply Hval.
    cbn [align_variants] in Ha.
    apply mod_trans with (m := umax (align_fields (FCons t0 r0)) (align_variants r)); auto using P16_pos.
    apply P16_umax_mod_l; auto.
  - cbn [ref_variant] in H. destruct (IHr s k' data Hr Hb H) as (Hk & Hm & Hval).
    assert (Hne : r <> VNil) by (intros ->; cbn [vlen] in Hk; lia).
    split; [cbn [vlen]; lia|]. split; [specialize (Hmin' Hne); lia|].
    intros a Ha. cbn [validate_variant]. apply Hval. cbn [align_variants] in Ha.
    apply mod_trans with (m := umax (align_fields fs) (align_variants r)); auto using P16_pos.
    apply P16_umax_mod_r; auto.
Qed.

(* ---------- structs ---------- *)

Definition struct_data (s : bool) (fs : fields) (bs : bytes) : bytes :=
  if s then bs else take (floor_mul (blen bs) (align_fields fs)) bs.

Lemma ref_decode_struct s fs bs : wf (TStruct s fs) = true ->
  ref_decode (TStruct s fs) bs =
  if s && (blen bs <? min_size (TStruct s fs)) then None
  else match ref_fields fs 0 (struct_data s fs bs) with Some vs => Some (VNode 0 vs) | None => None end.
Proof.
  intros Hw. cbn [ref_decode]. cbv zeta. unfold struct_data. destruct s.
  - rewrite <- (ssize_c_size (TStruct true fs)) by auto. reflexivity.
  - cbn [andb]. rewrite <- (proj1 (proj2 align_c_align_mut) fs).
    rewrite round_down_floor; [reflexivity|]. apply P16_pos, align_fields_P16. apply wf_struct_wfF in Hw. exact Hw.
Qed.

Lemma struct_S s fs : (fs <> FNil -> wfF fs -> FS fs) -> wf (TStruct s fs) = true -> TS (TStruct s fs).
Proof.
  intros IH Hw a bs Hb Hm Hv. rewrite (ref_decode_struct s fs bs Hw).
  assert (Hchk : s && (blen bs <? min_size (TStruct s fs)) = false).
  { destruct (N.ltb_spec (blen bs) (min_size (TStruct s fs))); [lia|]. apply andb_false_r. }
  rewrite Hchk.
  destruct fs as [|t0 r0].
  { destruct s; [|discriminate Hw]. exists (VNode 0 []). split; reflexivity. }
  destruct (wf_struct_wfF _ _ Hw) as [Hnil|Hf]; [discriminate Hnil|].
  pose proof (struct_end_min s t0 r0 bs Hw Hm) as Hend. rewrite N.add_0_l in Hend.
  cbn [validate_u] in Hv. fold (struct_data s (FCons t0 r0) bs) in Hv, Hend.
  assert (Hbd : bytes_ok (struct_data s (FCons t0 r0) bs) = true).
  { unfold struct_data. destruct s; auto. apply bytes_ok_take; auto. }
  destruct (IH ltac:(congruence) Hf a _ 0 0 Hbd ltac:(symmetry; apply ceil_mul_0) Hend Hv) as (vs & Hvs & Hrefs).
  change (drop 0 (struct_data s (FCons t0 r0) bs)) with (struct_data s (FCons t0 r0) bs) in Hvs.
  exists (VNode 0 vs). split.
  - cbn [view]. fold (struct_data s (FCons t0 r0) bs). rewrite Hvs. reflexivity.
  - rewrite Hrefs. reflexivity.
Qed.

Lemma struct_C s fs : (fs <> FNil -> wfF fs -> FC fs) -> wf (TStruct s fs) = true -> TC (TStruct s fs).
Proof.
  intros IH Hw bs Hb H. rewrite (ref_decode_struct s fs bs Hw) in H.
  destruct (s && (blen bs <? min_size (TStruct s fs))) eqn:Echk; [congruence|].
  destruct (ref_fields fs 0 (struct_data s fs bs)) as [ws|] eqn:Er; [|congruence].
  destruct fs as [|t0 r0].
  { destruct s; [|discriminate Hw]. cbn [andb] in Echk. rewrite N.ltb_ge in Echk. split; [exact Echk|reflexivity]. }
  destruct (wf_struct_wfF _ _ Hw) as [Hnil|Hf]; [discriminate Hnil|].
  pose proof (align_fields_P16 (FCons t0 r0) (or_intror Hf)) as Hp. pose proof (P16_pos _ Hp) as Hpos.
  assert (Hbd : bytes_ok (struct_data s (FCons t0 r0) bs) = true).
  { unfold struct_data. destruct s; auto. apply bytes_ok_take; auto. }
  destruct (IH ltac:(congruence) Hf _ 0 Hbd ltac:(congruence)) as [He Hval].
  rewrite ceil_mul_0 in He, Hval. split.
  - destruct s.
    + cbn [andb] in Echk. rewrite N.ltb_ge in Echk. exact Echk.
    + cbn [min_size]. rewrite fold_min_size_0 by congruence. unfold struct_data in He.
      rewrite blen_take_le in He by (apply floor_mul_le; auto).
      pose proof (ceil_mul_le_mult _ _ _ Hpos He (floor_mul_mod _ _ Hpos)).
      pose proof (floor_mul_le (blen bs) _ Hpos). lia.
  - intros a Ha. cbn [validate_u]. fold (struct_data s (FCons t0 r0) bs).
    specialize (Hval a Ha). rewrite N.add_0_r in Hval. exact Hval.
Qed.

(* ---------- enums ---------- *)

Lemma ref_decode_enum s tag d vs bs : wf (TEnum s tag d vs) = true ->
  ref_decode (TEnum s tag d vs) bs =
  match stored_at tag bs with
  | Some v =>
      if (v <? vlen vs) && (data_offset tag vs <=? blen bs) && negb (s && (blen bs <? min_size (TEnum s tag d vs)))
      then match ref_variant vs (N.to_nat v) (enum_data s tag vs bs) with
           | Some fvs => Some (VNode v fvs)
           | None => None
           end
      else None
  | None => None
  end.
Proof.
  intros Hw. pose proof (enum_consts _ _ _ _ Hw) as (Hal & _ & _).
  cbn [ref_decode]. cbv zeta. rewrite <- (data_offset_c _ _ _ _ Hw).
  rewrite <- (proj2 (proj2 align_c_align_mut) vs), <- umax_spec. unfold enum_data. cbv zeta.
  destruct s.
  - rewrite <- (ssize_c_size (TEnum true tag d vs)) by auto. reflexivity.
  - rewrite round_down_floor by exact Hal. reflexivity.
Qed.

Lemma enum_data_ok s tag vs bs : bytes_ok bs = true -> bytes_ok (enum_data s tag vs bs) = true.
Proof.
  intros Hb. unfold enum_data. cbv zeta. destruct s; [apply bytes_ok_drop; auto|].
  apply bytes_ok_take, bytes_ok_drop; auto.
Qed.

Lemma enum_S s tag d vs : VS vs -> wf (TEnum s tag d vs) = true -> TS (TEnum s tag d vs).
Proof.
  intros IH Hw a bs Hb Hm Hv.
  destruct (enum_data_room _ _ _ _ bs Hw Hm) as [Hd Hroom].
  destruct (enum_valid_inv _ _ _ _ _ _ Hv) as (v & Hr & Hlt & _ & Hvv).
  pose proof Hw as Hw0. apply wf_enum_inv in Hw0. destruct Hw0 as (Hi & Hnat & Hv1 & Hv2 & Hdf & Hwv).
  destruct (IH s (N.to_nat v) _ _ Hwv (enum_data_ok s tag vs bs Hb) ltac:(rewrite N2Nat.id; exact Hlt) Hroom Hvv)
    as (fvs & Hvs & Hrefs).
  exists (VNode v fvs). split; [apply (view_enum_eval s tag d vs bs v fvs Hr Hd Hvs)|].
  rewrite (ref_decode_enum s tag d vs bs Hw), (read_int_stored_at _ _ _ Hr).
  destruct (N.ltb_spec v (vlen vs)); [|lia]. destruct (N.leb_spec (data_offset tag vs) (blen bs)); [|lia].
  destruct (N.ltb_spec (blen bs) (min_size (TEnum s tag d vs))); [lia|]. rewrite andb_false_r. cbn [andb negb].
  rewrite Hrefs. reflexivity.
Qed.

Lemma enum_C s tag d vs : VC vs -> wf (TEnum s tag d vs) = true -> TC (TEnum s tag d vs).
Proof.
  intros IH Hw bs Hb H.
  pose proof (enum_consts _ _ _ _ Hw) as (Hal & Hdo & Hdmod).
  pose proof Hw as Hw0. apply wf_enum_inv in Hw0. destruct Hw0 as (Hi & Hnat & Hv1 & Hv2 & Hdf & Hwv).
  pose proof (wf_int_P16 tag Hi) as [_ Ptag]. pose proof (align_variants_P16 s vs Hwv) as Pv.
  rewrite (ref_decode_enum s tag d vs bs Hw) in H.
  destruct (stored_at tag bs) as [v|] eqn:Est; [|congruence].
  apply stored_at_some in Est. destruct Est as [_ Hr].
  destruct (N.ltb_spec v (vlen vs)) as [Hlt|Hlt]; [|cbn [andb] in H; congruence].
  destruct (N.leb_spec (data_offset tag vs) (blen bs)) as [Hd|Hd]; [|cbn [andb] in H; congruence].
  destruct (s && (blen bs <? min_size (TEnum s tag d vs))) eqn:Echk; [cbn [andb negb] in H; congruence|].
  cbn [andb negb] in H.
  destruct (ref_variant vs (N.to_nat v) (enum_data s tag vs bs)) as [fvs|] eqn:Er; [|congruence].
  destruct (IH s (N.to_nat v) _ Hwv (enum_data_ok s tag vs bs Hb) ltac:(congruence)) as (_ & Hmin & Hval).
  split.
  - destruct s.
    + cbn [andb] in Echk. rewrite N.ltb_ge in Echk. exact Echk.
    + cbn [min_size]. fold (data_offset tag vs). unfold enum_data in Hmin. cbv zeta in Hmin.
      set (al := umax (ialign tag) (align_variants vs)) in *.
      rewrite blen_take_le in Hmin by (apply floor_mul_le; auto). rewrite blen_drop in Hmin.
      pose proof (floor_mul_le (blen bs - data_offset tag vs) _ Hal).
      pose proof (floor_mul_mod (blen bs - data_offset tag vs) _ Hal).
      assert (ceil_mul (data_offset tag vs + min_data_min_size vs) al
              <= data_offset tag vs + floor_mul (blen bs - data_offset tag vs) al).
      { apply ceil_mul_le_mult; auto; [lia|]. apply mod_add_mult; auto. }
      lia.
  - intros a Ha. cbn [align] in Ha. apply (enum_valid_intro s tag d vs a bs v Hr Hlt Hd). apply Hval.
    apply mod_trans with (m := umax (ialign tag) (align_variants vs)); auto using P16_pos.
    + apply mod_add_mult; auto.
    + apply P16_umax_mod_r; auto.
Qed.

(* ---------- the mutual induction ---------- *)

Theorem format_mut :
  (forall t, wf t = true -> narrow_ty t = true -> TS t /\ TC t) /\
  (forall fs, fs <> FNil -> wfF fs -> narrow_fields fs = true -> FS fs /\ FC fs) /\
  (forall vs, narrow_variants vs = true -> VS vs /\ VC vs).
Proof.
  apply ty_mutind.
  - (* TUnit *) intros _ _. split; [apply unit_S|apply unit_C].
  - (* TInt *) intros i _ _. split; [apply int_S|apply int_C].
  - (* TBool *) intros _ _. split; [apply bool_S|apply bool_C].
  - (* TCLike *) intros tag n d _ _. split; [apply clike_S|apply clike_C].
  - (* TArr *) intros t IH n Hw Hn. pose proof (wf_arr_inv _ _ Hw) as [Hwt _]. cbn [narrow_ty] in Hn.
    destruct (IH Hwt Hn) as [IS IC]. split; [apply arr_S; auto|apply arr_C; auto].
  - (* TVec *) intros t IH l Hw Hn. pose proof (wf_vec_inv _ _ Hw) as (Hwt & _ & _).
    apply narrow_vec_inv in Hn. destruct Hn as [Hnt Hnl].
    destruct (IH Hwt Hnt) as [IS IC]. split; [apply vec_S; auto|apply vec_C; auto].
  - (* TStr *) intros l Hw Hn. cbn [narrow_ty] in Hn. split; [apply str_S; auto|apply str_C; auto].
  - (* TFlex *) intros t IH l Hw Hn. pose proof (wf_flex_inv _ _ Hw) as [Hwt _].
    apply narrow_flex_inv in Hn. destruct Hn as [Hnt Hnl].
    destruct (IH Hwt Hnt) as [IS IC]. split; [apply flex_S; auto|apply flex_C; auto].
  - (* TStruct *) intros s fs IH Hw Hn. cbn [narrow_ty] in Hn.
    split; [apply struct_S; auto|apply struct_C; auto]; intros Hne Hf; apply IH; auto.
  - (* TEnum *) intros s tag d vs IH Hw Hn. apply narrow_enum_inv in Hn. destruct Hn as [_ Hnv].
    destruct (IH Hnv) as [IS IC]. split; [apply enum_S; auto|apply enum_C; auto].
  - (* FNil *) intros H. congruence.
  - (* FCons *) intros t IHt r IHr _ Hw Hn. apply wfF_cons in Hw. destruct Hw as [Hwt Hr].
    cbn [narrow_fields] in Hn. rewrite andb_true_iff in Hn. destruct Hn as [Hnt Hnr].
    destruct (IHt Hwt Hnt) as [IS IC].
    destruct r as [|t' r'].
    + split; [apply fields_S_single; auto|apply fields_C_single; auto].
    + destruct Hr as [Hr|[Hst Hr]]; [discriminate|].
      pose proof (wfF_cons _ _ Hr) as [Hwt' _].
      destruct (IHr ltac:(congruence) Hr Hnr) as [RS RC].
      split; [apply fields_S_cons2; auto|apply fields_C_cons2; auto].
  - (* VNil *) intros _. split.
    + intros s k a data _ _ Hk. cbn in Hk. lia.
    + intros s k data _ _ H. cbn [ref_variant] in H. congruence.
  - (* VCons *) intros fs IHf r IHr Hn. cbn [narrow_variants] in Hn. rewrite andb_true_iff in Hn.
    destruct Hn as [Hnf Hnr]. destruct (IHr Hnr) as [RS RC].
    split; [apply variants_S_cons; auto|apply variants_C_cons; auto]; intros Hne Hf; apply IHf; auto.
Qed.

(* ---------- C02: the accepted slices are the aligned well-formed encodings ---------- *)

Lemma validate_gate t a bs : validate t a bs = Ok tt ->
  aligned a (align t) = true /\ min_size t <= blen bs /\ validate_u t a bs = Ok tt.
Proof.
  unfold validate, check_align_min. destruct (aligned a (align t)); cbn [negb]; [|discriminate].
  destruct (N.ltb_spec (blen bs) (min_size t)); [discriminate|]. cbn [bind]. auto.
Qed.

(* (A) soundness and content *)
Theorem accept_sound t : wf t = true -> narrow_ty t = true -> forall a bs, bytes_ok bs = true ->
  validate t a bs = Ok tt ->
  aligned a (align t) = true /\ exists v, view t bs = Ok v /\ ref_decode t bs = Some (strip v).
Proof.
  intros Hw Hn a bs Hb H. apply validate_gate in H. destruct H as (Ha & Hm & Hv).
  split; [exact Ha|]. destruct (proj1 format_mut t Hw Hn) as [IS _]. apply (IS a bs Hb Hm Hv).
Qed.

(* (B) completeness *)
Theorem accept_complete t : wf t = true -> narrow_ty t = true -> forall a bs, bytes_ok bs = true ->
  aligned a (align t) = true -> ref_decode t bs <> None -> validate t a bs = Ok tt.
Proof.
  intros Hw Hn a bs Hb Ha Hr. destruct (proj1 format_mut t Hw Hn) as [_ IC].
  destruct (IC bs Hb Hr) as [Hm Hv]. unfold validate, check_align_min. rewrite Ha. cbn [negb].
  destruct (N.ltb_spec (blen bs) (min_size t)); [lia|]. cbn [bind]. apply Hv.
  unfold aligned in Ha. apply N.eqb_eq in Ha. exact Ha.
Qed.

Theorem accept_iff t : wf t = true -> narrow_ty t = true -> forall a bs, bytes_ok bs = true ->
  (validate t a bs = Ok tt <-> aligned a (align t) = true /\ ref_decode t bs <> None).
Proof.
  intros Hw Hn a bs Hb. split.
  - intros H. destruct (accept_sound t Hw Hn a bs Hb H) as (Ha & v & _ & Hr). split; [exact Ha|congruence].
  - intros [Ha Hr]. apply accept_complete; auto.
Qed.
