(* ViewFacts.v — a validated slice can be measured and read (C05, C02), and is determined by its
   first size() bytes (C05, C06). *)
From Coq Require Import List NArith Bool Lia ZArith ZifyN ZifyBool ZifyNat.
From Flatty.Model Require Import Base Ty Layout Utf8 Validate View.
From Flatty.Proofs Require Import ArithFacts LayoutFacts BytesFacts ValidateFacts FramingFacts ChainFacts.
Open Scope N_scope.

(* ---------- arithmetic ---------- *)

Lemma mult_lt_step a b m : 0 < m -> a mod m = 0 -> b mod m = 0 -> a < b -> a + m <= b.
Proof.
  intros Hm Ha Hb Hab. destruct (mod0_mul a m Hm Ha) as (p & ->). destruct (mod0_mul b m Hm Hb) as (q & ->).
  assert (p < q) by nia. nia.
Qed.

Lemma wf_int_size_mod_align i : wf_int i = true -> isize i mod ialign i = 0.
Proof.
  intros H. pose proof (wf_int_P16 _ H) as [Hs Ha]. unfold wf_int in H.
  rewrite andb_true_iff, orb_true_iff, !N.eqb_eq in H. destruct H as [_ [H|H]]; rewrite H.
  - apply N.mod_1_r.
  - apply N.mod_same. pose proof (P16_pos _ Hs). lia.
Qed.

Lemma wf_int_ialign_le i : wf_int i = true -> ialign i <= isize i /\ 0 < isize i /\ 0 < ialign i.
Proof.
  intros H. pose proof (wf_int_P16 _ H) as [Hs Ha]. pose proof (P16_pos _ Hs). pose proof (P16_pos _ Ha).
  unfold wf_int in H. rewrite andb_true_iff, orb_true_iff, !N.eqb_eq in H. destruct H as [_ [H|H]]; lia.
Qed.

(* FlatVec constants: d = DATA_OFFSET, A = ALIGN *)
Lemma vec_consts t l : wf (TVec t l) = true ->
  let d := vec_data_offset t l in let A := align (TVec t l) in
  0 < A /\ isize l <= d /\ d mod A = 0 /\ 0 < d.
Proof.
  intros Hw. apply wf_vec_inv in Hw. destruct Hw as (Hwt & _ & Hl).
  pose proof (wf_int_P16 _ Hl) as [Hs Ha]. pose proof (align_P16 _ Hwt) as Hat.
  pose proof (wf_int_ialign_le _ Hl) as (Hle & Hpos & _).
  cbn [align]. unfold vec_data_offset. cbv zeta.
  assert (P16 (umax (isize l) (align t))) by (apply P16_umax; auto).
  assert (P16 (umax (ialign l) (align t))) by (apply P16_umax; auto).
  repeat split.
  - apply P16_pos; auto.
  - apply umax_ge_l.
  - apply P16_div; auto. rewrite !umax_spec. lia.
  - apply P16_pos; auto.
Qed.

(* FlexVec constants: os = OFFSET_SIZE, al = ALIGN *)
Lemma flex_consts t l : wf (TFlex t l) = true ->
  let os := flex_offset_size t l in let al := align (TFlex t l) in
  0 < al /\ isize l <= os /\ os mod al = 0 /\ al mod ialign l = 0 /\ 0 < os /\ 0 < ialign l /\ al mod align t = 0.
Proof.
  intros Hw. apply wf_flex_inv in Hw. destruct Hw as [Hwt Hl].
  pose proof (wf_int_P16 _ Hl) as [Hs Ha]. pose proof (align_P16 _ Hwt) as Hat.
  pose proof (wf_int_ialign_le _ Hl) as (Hle & Hpos & Hpa).
  cbn [align]. unfold flex_offset_size. cbv zeta.
  assert (P16 (umax (isize l) (align t))) by (apply P16_umax; auto).
  assert (P16 (umax (ialign l) (align t))) by (apply P16_umax; auto).
  repeat split; auto.
  - apply P16_pos; auto.
  - apply umax_ge_l.
  - apply P16_div; auto. rewrite !umax_spec. lia.
  - apply P16_umax_mod_l; auto.
  - apply P16_pos; auto.
  - apply P16_umax_mod_r; auto.
Qed.

(* a zero slot at a multiple of ALIGN inside floored data leaves room for a whole OFFSET_SIZE *)
Lemma flex_slot_fits t l p F : wf (TFlex t l) = true ->
  p mod align (TFlex t l) = 0 -> F mod align (TFlex t l) = 0 -> p + isize l <= F ->
  p + flex_offset_size t l <= F.
Proof.
  intros Hw Hp HF Hle. pose proof (flex_consts t l Hw) as (Hal & _ & _ & _ & _ & _ & _).
  apply wf_flex_inv in Hw. destruct Hw as [Hwt Hl].
  pose proof (wf_int_ialign_le _ Hl) as (Hia & Hpos & _).
  cbn [align] in *. unfold flex_offset_size. rewrite umax_spec in *.
  destruct (N.le_gt_cases (align t) (isize l)) as [H|H].
  - rewrite N.max_l by lia. exact Hle.
  - rewrite N.max_r by lia. rewrite N.max_r in * by lia.
    apply mult_lt_step; auto. lia.
Qed.

(* ---------- sizes of sized types ---------- *)

Lemma size_m_sized t bs : sized t = true -> size_m t bs = Ok (ssize t).
Proof.
  destruct t as [| i | | tag n d | t0 n | t0 l | l | t0 l | s fs | s tag d vs]; cbn [sized]; intros H;
    try discriminate; try reflexivity; subst; reflexivity.
Qed.

Lemma ssize_mod_align t : wf t = true -> sized t = true -> ssize t mod align t = 0.
Proof.
  induction t as [| i | | tag n d | t IH n | t IH l | l | t IH l | s fs | s tag d vs]; intros Hw Hs;
    cbn [sized] in Hs; try discriminate.
  - reflexivity.
  - cbn in *. apply wf_int_size_mod_align. exact Hw.
  - reflexivity.
  - cbn [wf] in Hw. rewrite !andb_true_iff in Hw. destruct Hw as [[[[Hw _] _] _] _].
    cbn [ssize align]. apply wf_int_size_mod_align. exact Hw.
  - apply wf_arr_inv in Hw. destruct Hw as [Hwt Hst]. cbn [ssize align].
    destruct (mod0_mul _ _ (align_pos _ Hwt) (IH Hwt Hst)) as (q & ->).
    replace (n * (q * align t)) with (n * q * align t) by lia. apply N.mod_mul. pose proof (align_pos _ Hwt). lia.
  - subst s. cbn [ssize align]. apply ceil_mul_mod. apply P16_pos, align_fields_P16.
    apply wf_struct_wfF in Hw. exact Hw.
  - subst s. cbn [ssize align]. apply ceil_mul_mod.
    apply wf_enum_inv in Hw. destruct Hw as (Hi & _ & _ & _ & _ & Hv).
    apply P16_pos, P16_umax; [apply wf_int_P16 in Hi; tauto | eapply align_variants_P16; eauto].
Qed.

Lemma min_data_min_size_cons fs r :
  min_data_min_size (VCons fs r) <= fold_min_size 0 fs /\ (r <> VNil -> min_data_min_size (VCons fs r) <= min_data_min_size r).
Proof.
  cbn [min_data_min_size]. destruct r as [|fs' r']; [split; [lia|congruence]|].
  rewrite umin_spec. split; [lia|]. intros _. lia.
Qed.

(* ---------- array loops ---------- *)

Lemma view_arr_of_valid f g s bs : forall k i,
  (i + N.of_nat k) * s <= blen bs ->
  arr_loop f s bs k i = Ok tt ->
  (forall j el, blen el = s -> f j el = Ok tt -> exists v, g j el = Ok v /\ caps_ok v = true) ->
  exists vs, view_arr g s bs k i = Ok vs /\ length vs = k /\ forallb caps_ok vs = true.
Proof.
  induction k as [|k IH]; intros i Hlen Hv Hfg.
  - exists []. repeat split; reflexivity.
  - cbn [arr_loop view_arr] in *. unfold drop_unchecked, take_unchecked in *.
    assert (H1 : i * s <= blen bs) by nia.
    destruct (N.leb_spec (i * s) (blen bs)); [|lia]. cbn [bind] in *.
    rewrite blen_drop in *.
    assert (H2 : s <= blen bs - i * s) by nia.
    destruct (N.leb_spec s (blen bs - i * s)); [|lia]. cbn [bind] in *.
    apply bind_ok_inv in Hv. destruct Hv as ([] & Hel & Hrest). apply shift_ok_inv in Hel.
    assert (Hbl : blen (take s (drop (i * s) bs)) = s) by (rewrite blen_take_le; [reflexivity|rewrite blen_drop; lia]).
    destruct (Hfg i _ Hbl Hel) as (v & Hg & Hc).
    rewrite Hg. cbn [bind].
    destruct (IH (i + 1) ltac:(nia) Hrest Hfg) as (vs & Hvs & Hl & Hcs).
    rewrite Hvs. cbn [bind]. exists (v :: vs). repeat split.
    + cbn [length]. lia.
    + cbn [forallb]. rewrite Hc, Hcs. reflexivity.
Qed.

Lemma arr_loop_agree f s n bs bs' : agree n bs bs' -> forall k i,
  (i + N.of_nat k) * s <= n -> arr_loop f s bs' k i = arr_loop f s bs k i.
Proof.
  intros Hag. pose proof Hag as (Hb & Hb' & _).
  induction k as [|k IH]; intros i Hk; [reflexivity|].
  cbn [arr_loop]. unfold drop_unchecked, take_unchecked.
  assert (H1 : i * s <= n) by nia. assert (H2 : i * s + s <= n) by nia.
  destruct (N.leb_spec (i * s) (blen bs)); [|lia]. destruct (N.leb_spec (i * s) (blen bs')); [|lia].
  cbn [bind]. rewrite !blen_drop.
  destruct (N.leb_spec s (blen bs - i * s)); [|lia]. destruct (N.leb_spec s (blen bs' - i * s)); [|lia].
  cbn [bind]. rewrite (agree_take_drop n (i * s) s bs bs' Hag H2).
  destruct (shift (i * s) (f i (take s (drop (i * s) bs)))); cbn [bind]; try reflexivity.
  apply IH. nia.
Qed.

Lemma view_arr_agree g s n bs bs' : agree n bs bs' -> forall k i,
  (i + N.of_nat k) * s <= n -> view_arr g s bs' k i = view_arr g s bs k i.
Proof.
  intros Hag. pose proof Hag as (Hb & Hb' & _).
  induction k as [|k IH]; intros i Hk; [reflexivity|].
  cbn [view_arr]. unfold drop_unchecked, take_unchecked.
  assert (H1 : i * s <= n) by nia. assert (H2 : i * s + s <= n) by nia.
  destruct (N.leb_spec (i * s) (blen bs)); [|lia]. destruct (N.leb_spec (i * s) (blen bs')); [|lia].
  cbn [bind]. rewrite !blen_drop.
  destruct (N.leb_spec s (blen bs - i * s)); [|lia]. destruct (N.leb_spec s (blen bs' - i * s)); [|lia].
  cbn [bind]. rewrite (agree_take_drop n (i * s) s bs bs' Hag H2).
  destruct (g i (take s (drop (i * s) bs))); cbn [bind]; try reflexivity.
  rewrite IH by nia. reflexivity.
Qed.

(* ---------- what is proved about every type: a valid value can be measured and read ---------- *)

Definition T1 (t : ty) : Prop := forall a bs,
  min_size t <= blen bs -> validate_u t a bs = Ok tt ->
  exists k v, size_m t bs = Ok k /\ k <= blen bs /\ k mod align t = 0 /\ min_size t <= k /\
              view t bs = Ok v /\ caps_ok v = true.

(* ---------- FlatVec ---------- *)

Lemma vec_slots_inv t l n slots : vec_slots t l n = Ok slots ->
  vec_data_offset t l <= n /\
  slots = (if ssize t =? 0 then 0 else floor_mul (n - vec_data_offset t l) (align (TVec t l)) / ssize t).
Proof.
  unfold vec_slots. destruct (N.ltb_spec n (vec_data_offset t l)) as [Hlt|Hge]; [discriminate|].
  destruct (ssize t =? 0); intros H; injection H as <-; auto.
Qed.

Lemma vec_slots_ok t l n : vec_data_offset t l <= n ->
  vec_slots t l n = Ok (if ssize t =? 0 then 0 else floor_mul (n - vec_data_offset t l) (align (TVec t l)) / ssize t).
Proof.
  intros H. unfold vec_slots. destruct (N.ltb_spec n (vec_data_offset t l)); [lia|].
  destruct (ssize t =? 0); reflexivity.
Qed.

Lemma vec_slots_room t l n slots : vec_slots t l n = Ok slots ->
  ssize t * slots <= floor_mul (n - vec_data_offset t l) (align (TVec t l)).
Proof.
  intros H. apply vec_slots_inv in H. destruct H as [_ ->].
  destruct (N.eqb_spec (ssize t) 0) as [Hz|Hz]; [lia|]. apply N.mul_div_le. exact Hz.
Qed.

Lemma vec_slots_ge t l n len : vec_data_offset t l <= n ->
  ssize t * len <= floor_mul (n - vec_data_offset t l) (align (TVec t l)) -> (ssize t = 0 -> len = 0) ->
  exists slots, vec_slots t l n = Ok slots /\ len <= slots.
Proof.
  intros Hd Hroom Hz. rewrite (vec_slots_ok t l n Hd). eexists. split; [reflexivity|].
  destruct (N.eqb_spec (ssize t) 0) as [E|E]; [specialize (Hz E); lia|].
  apply N.div_le_lower_bound; auto.
Qed.

Lemma vec_valid_inv t l a bs : validate_u (TVec t l) a bs = Ok tt ->
  exists slots len m,
    vec_slots t l (blen bs) = Ok slots /\ read_len l bs = Ok len /\ to_usize (int_max l) = Ok m /\
    len <= slots /\ len <= m /\ vec_data_offset t l <= blen bs /\
    arr_loop (fun i el => shift (vec_data_offset t l) (validate_u t (a + vec_data_offset t l + i * ssize t) el))
      (ssize t) (drop (vec_data_offset t l) bs) (N.to_nat len) 0 = Ok tt.
Proof.
  cbn [validate_u]. intros H.
  apply bind_ok_inv in H. destruct H as (slots & Hsl & H).
  apply bind_ok_inv in H. destruct H as (len & Hrl & H).
  apply bind_ok_inv in H. destruct H as (cap & Hcap & H).
  unfold clamp_cap in Hcap. apply bind_ok_inv in Hcap. destruct Hcap as (m & Hm & Hcap). injection Hcap as <-.
  rewrite umin_spec in H. destruct (N.ltb_spec (N.min slots m) len) as [Hc|Hc]; [discriminate|].
  apply bind_ok_inv in H. destruct H as (data & Hdata & H).
  unfold drop_unchecked in Hdata. destruct (N.leb_spec (vec_data_offset t l) (blen bs)) as [Hd|Hd]; [|discriminate].
  injection Hdata as <-. exists slots, len, m. repeat split; auto; lia.
Qed.

Lemma vec_valid_intro t l a bs slots len m :
  vec_slots t l (blen bs) = Ok slots -> read_len l bs = Ok len -> to_usize (int_max l) = Ok m ->
  len <= slots -> len <= m -> vec_data_offset t l <= blen bs ->
  arr_loop (fun i el => shift (vec_data_offset t l) (validate_u t (a + vec_data_offset t l + i * ssize t) el))
      (ssize t) (drop (vec_data_offset t l) bs) (N.to_nat len) 0 = Ok tt ->
  validate_u (TVec t l) a bs = Ok tt.
Proof.
  intros Hsl Hrl Hm Hls Hlm Hd Hloop. cbn [validate_u]. rewrite Hsl. cbn [bind]. rewrite Hrl. cbn [bind].
  unfold clamp_cap. rewrite Hm. cbn [bind]. rewrite umin_spec.
  destruct (N.ltb_spec (N.min slots m) len); [lia|].
  unfold drop_unchecked. destruct (N.leb_spec (vec_data_offset t l) (blen bs)); [|lia]. cbn [bind]. exact Hloop.
Qed.

Lemma view_vec_eval t l bs slots len m vs :
  vec_slots t l (blen bs) = Ok slots -> read_len l bs = Ok len -> to_usize (int_max l) = Ok m ->
  len <= slots -> vec_data_offset t l <= blen bs ->
  view_arr (fun _ el => view t el) (ssize t) (drop (vec_data_offset t l) bs) (N.to_nat len) 0 = Ok vs ->
  view (TVec t l) bs = Ok (VCont (umin slots m) vs).
Proof.
  intros Hsl Hrl Hm Hls Hd Hvs. cbn [view]. rewrite Hsl. cbn [bind]. rewrite Hrl. cbn [bind].
  unfold clamp_cap. rewrite Hm. cbn [bind].
  unfold drop_unchecked. destruct (N.leb_spec (vec_data_offset t l) (blen bs)); [|lia]. cbn [bind].
  destruct (N.ltb_spec slots len); [lia|]. rewrite Hvs. reflexivity.
Qed.

(* size() = ceil_mul(DATA_OFFSET + SIZE * len, ALIGN) stays within whatever covers that many slots *)
Lemma vec_size_le t l n len : wf (TVec t l) = true -> vec_data_offset t l <= n ->
  ssize t * len <= floor_mul (n - vec_data_offset t l) (align (TVec t l)) ->
  ceil_mul (vec_data_offset t l + ssize t * len) (align (TVec t l)) <= n.
Proof.
  intros Hw Hd Hroom. pose proof (vec_consts t l Hw) as (HA & _ & HdA & _).
  pose proof (floor_mul_le (n - vec_data_offset t l) _ HA).
  pose proof (floor_mul_mod (n - vec_data_offset t l) _ HA).
  assert (ceil_mul (vec_data_offset t l + ssize t * len) (align (TVec t l))
          <= vec_data_offset t l + floor_mul (n - vec_data_offset t l) (align (TVec t l))).
  { apply ceil_mul_le_mult; auto; [lia|]. apply mod_add_mult; auto. }
  lia.
Qed.

Lemma vec_part1 t l : T1 t -> wf (TVec t l) = true -> T1 (TVec t l).
Proof.
  intros IH Hw a bs Hm Hv.
  pose proof (vec_consts t l Hw) as (HA & Hld & HdA & Hd0).
  pose proof Hw as Hw0. apply wf_vec_inv in Hw. destruct Hw as (Hwt & Hst & Hl).
  destruct (vec_valid_inv _ _ _ _ Hv) as (slots & len & m & Hsl & Hrl & Hmx & Hls & Hlm & Hdb & Hloop).
  pose proof (vec_slots_room _ _ _ _ Hsl) as Hroom.
  assert (Hsl2 : ssize t * len <= floor_mul (blen bs - vec_data_offset t l) (align (TVec t l))).
  { assert (ssize t * len <= ssize t * slots) by (apply N.mul_le_mono_l; lia). lia. }
  pose proof (floor_mul_le (blen bs - vec_data_offset t l) _ HA) as Hfl.
  assert (Hfit : (0 + N.of_nat (N.to_nat len)) * ssize t <= blen (drop (vec_data_offset t l) bs))
    by (rewrite N2Nat.id, blen_drop; lia).
  destruct (view_arr_of_valid _ (fun _ el => view t el) _ _ _ 0 Hfit Hloop) as (vs & Hvs & Hlen & Hcs).
  { intros j el Hel Hval. apply shift_ok_inv in Hval.
    destruct (IH _ el ltac:(rewrite min_size_sized by auto; lia) Hval) as (k & v & _ & _ & _ & _ & Hview & Hc).
    eauto. }
  exists (ceil_mul (vec_data_offset t l + ssize t * len) (align (TVec t l))), (VCont (umin slots m) vs).
  repeat split.
  - cbn [size_m]. rewrite Hrl. reflexivity.
  - apply vec_size_le; auto.
  - apply ceil_mul_mod; auto.
  - cbn [min_size]. fold (vec_data_offset t l).
    pose proof (ceil_mul_ge (vec_data_offset t l + ssize t * len) _ HA). lia.
  - eapply view_vec_eval; eauto.
  - cbn [caps_ok]. rewrite Hlen, N2Nat.id, Hcs, umin_spec. rewrite andb_true_r. apply N.leb_le. lia.
Qed.

(* ---------- FlatString ---------- *)

Lemma str_slots_inv l n slots : str_slots l n = Ok slots ->
  isize l <= n /\ slots = floor_mul (n - isize l) (ialign l).
Proof.
  unfold str_slots. destruct (N.ltb_spec n (isize l)) as [Hlt|Hge]; [discriminate|]. intros H. injection H as <-. auto.
Qed.

Lemma str_slots_ok l n : isize l <= n -> str_slots l n = Ok (floor_mul (n - isize l) (ialign l)).
Proof. intros H. unfold str_slots. destruct (N.ltb_spec n (isize l)); [lia|]. reflexivity. Qed.

Lemma str_valid_inv l a bs : validate_u (TStr l) a bs = Ok tt ->
  exists len m,
    read_len l bs = Ok len /\ to_usize (int_max l) = Ok m /\ isize l <= blen bs /\
    len <= floor_mul (blen bs - isize l) (ialign l) /\ len <= m /\ len <= blen bs - isize l /\
    utf8_err (take len (drop (isize l) bs)) = None.
Proof.
  cbn [validate_u]. intros H.
  apply bind_ok_inv in H. destruct H as (slots & Hsl & H). apply str_slots_inv in Hsl. destruct Hsl as [Hd ->].
  apply bind_ok_inv in H. destruct H as (len & Hrl & H).
  apply bind_ok_inv in H. destruct H as (cap & Hcap & H).
  unfold clamp_cap in Hcap. apply bind_ok_inv in Hcap. destruct Hcap as (m & Hm & Hcap). injection Hcap as <-.
  rewrite umin_spec in H.
  destruct (N.ltb_spec (N.min (floor_mul (blen bs - isize l) (ialign l)) m) len) as [Hc|Hc]; [discriminate|].
  apply bind_ok_inv in H. destruct H as (data & Hdata & H).
  unfold drop_unchecked in Hdata. destruct (N.leb_spec (isize l) (blen bs)); [|discriminate].
  injection Hdata as <-.
  apply bind_ok_inv in H. destruct H as (s & Hs & H).
  unfold take_unchecked in Hs. rewrite blen_drop in Hs.
  destruct (N.leb_spec len (blen bs - isize l)); [|discriminate]. injection Hs as <-.
  exists len, m. repeat split; auto; try lia.
  destruct (utf8_err (take len (drop (isize l) bs))); [discriminate|reflexivity].
Qed.

Lemma str_valid_intro l a bs len m :
  read_len l bs = Ok len -> to_usize (int_max l) = Ok m -> isize l <= blen bs ->
  len <= floor_mul (blen bs - isize l) (ialign l) -> len <= m -> len <= blen bs - isize l ->
  utf8_err (take len (drop (isize l) bs)) = None ->
  validate_u (TStr l) a bs = Ok tt.
Proof.
  intros Hrl Hm Hd Hls Hlm Hlb Hu. cbn [validate_u]. rewrite (str_slots_ok l _ Hd). cbn [bind]. rewrite Hrl. cbn [bind].
  unfold clamp_cap. rewrite Hm. cbn [bind]. rewrite umin_spec.
  destruct (N.ltb_spec (N.min (floor_mul (blen bs - isize l) (ialign l)) m) len); [lia|].
  unfold drop_unchecked. destruct (N.leb_spec (isize l) (blen bs)); [|lia]. cbn [bind].
  unfold take_unchecked. rewrite blen_drop. destruct (N.leb_spec len (blen bs - isize l)); [|lia]. cbn [bind].
  rewrite Hu. reflexivity.
Qed.

Lemma view_str_eval l bs len m :
  read_len l bs = Ok len -> to_usize (int_max l) = Ok m -> isize l <= blen bs ->
  len <= floor_mul (blen bs - isize l) (ialign l) -> len <= blen bs - isize l ->
  view (TStr l) bs = Ok (VCont (umin (floor_mul (blen bs - isize l) (ialign l)) m) (map VInt (take len (drop (isize l) bs)))).
Proof.
  intros Hrl Hm Hd Hls Hlb. cbn [view]. rewrite (str_slots_ok l _ Hd). cbn [bind]. rewrite Hrl. cbn [bind].
  unfold clamp_cap. rewrite Hm. cbn [bind].
  unfold drop_unchecked. destruct (N.leb_spec (isize l) (blen bs)); [|lia]. cbn [bind].
  destruct (N.ltb_spec (floor_mul (blen bs - isize l) (ialign l)) len); [lia|].
  unfold take_unchecked. rewrite blen_drop. destruct (N.leb_spec len (blen bs - isize l)); [|lia]. reflexivity.
Qed.

Lemma str_size_le l n len : wf_int l = true -> isize l <= n ->
  len <= floor_mul (n - isize l) (ialign l) -> ceil_mul (isize l + len) (ialign l) <= n.
Proof.
  intros Hw Hd Hroom. pose proof (wf_int_ialign_le _ Hw) as (_ & _ & HA).
  pose proof (wf_int_size_mod_align _ Hw) as Hmod.
  pose proof (floor_mul_le (n - isize l) _ HA). pose proof (floor_mul_mod (n - isize l) _ HA).
  assert (ceil_mul (isize l + len) (ialign l) <= isize l + floor_mul (n - isize l) (ialign l)).
  { apply ceil_mul_le_mult; auto; [lia|]. apply mod_add_mult; auto. }
  lia.
Qed.

Lemma forallb_caps_VInt s : forallb caps_ok (map VInt s) = true.
Proof. induction s as [|b r IH]; [reflexivity|]. cbn [map forallb caps_ok]. exact IH. Qed.

Lemma str_part1 l : wf (TStr l) = true -> T1 (TStr l).
Proof.
  intros Hw a bs Hm Hv. cbn [wf] in Hw.
  pose proof (wf_int_ialign_le _ Hw) as (_ & _ & HA).
  destruct (str_valid_inv _ _ _ Hv) as (len & m & Hrl & Hmx & Hd & Hls & Hlm & Hlb & Hu).
  eexists. eexists. repeat split.
  - cbn [size_m]. rewrite Hrl. reflexivity.
  - apply str_size_le; auto.
  - apply ceil_mul_mod; auto.
  - cbn [min_size]. pose proof (ceil_mul_ge (isize l + len) _ HA). lia.
  - eapply view_str_eval; eauto.
  - cbn [caps_ok]. rewrite forallb_caps_VInt, andb_true_r. rewrite map_length. apply N.leb_le.
    fold (blen (take len (drop (isize l) bs))). rewrite blen_take_le by (rewrite blen_drop; lia).
    rewrite umin_spec. lia.
Qed.

(* ---------- FlexVec: the three walks (validate, view, size) in terms of the chain ---------- *)

Definition item_v (t : ty) (os : N) : unit -> N -> N -> bytes -> res unit :=
  fun _ pos pa payload => shift (pos + os) (do _ <- check_align_min t pa payload; validate_u t pa payload).
Definition item_view (t : ty) : list value -> N -> N -> bytes -> res (list value) :=
  fun acc _ _ payload => do v <- view t payload; Ok (v :: acc).
Definition item_size : option (N * bytes) -> N -> N -> bytes -> res (option (N * bytes)) :=
  fun _ _ pa payload => Ok (Some (pa, payload)).

Definition flex_data (t : ty) (l : intty) (bs : bytes) : bytes := take (floor_mul (blen bs) (align (TFlex t l))) bs.

Definition flex_size_res (t : ty) (os al : N) (r : option (N * bytes) * flex_end) : res N :=
  match r with
  | (None, _) => Ok os
  | (Some _, EndZero pos) => Ok (pos + os)
  | (Some (pa, payload), EndLast pos) => do sz <- size_m t payload; Ok (pos + os + ceil_mul sz al)
  end.

Lemma validate_u_flex t l a bs : validate_u (TFlex t l) a bs =
  (do r <- flex_fold l (flex_offset_size t l) (align (TFlex t l)) (item_v t (flex_offset_size t l))
             (flex_fuel (flex_data t l bs)) tt a (flex_data t l bs) 0; Ok tt).
Proof. reflexivity. Qed.

Lemma view_flex t l bs : view (TFlex t l) bs =
  (do r <- unwrap_err (flex_fold l (flex_offset_size t l) (align (TFlex t l)) (item_view t)
             (flex_fuel (flex_data t l bs)) [] 0 (flex_data t l bs) 0);
   Ok (VNode 0 (rev (fst r)))).
Proof. reflexivity. Qed.

Lemma size_m_flex t l bs : size_m (TFlex t l) bs =
  (do r <- unwrap_err (flex_fold l (flex_offset_size t l) (align (TFlex t l)) item_size
             (flex_fuel (flex_data t l bs)) None 0 (flex_data t l bs) 0);
   flex_size_res t (flex_offset_size t l) (align (TFlex t l)) r).
Proof. reflexivity. Qed.

Definition item_ok (t : ty) (x : flex_item) : Prop :=
  check_align_min t (snd (fst x)) (snd x) = Ok tt /\ validate_u t (snd (fst x)) (snd x) = Ok tt.

Lemma fold_item_v t os items : forall u u',
  fold_items (item_v t os) u items = Ok u' <-> Forall (item_ok t) items.
Proof.
  induction items as [|[[p pa] pl] r IH]; intros u u'.
  - split; [constructor|]. intros _. destruct u, u'. reflexivity.
  - cbn [fold_items]. split.
    + intros H. apply bind_ok_inv in H. destruct H as (u1 & Hi & Hr).
      unfold item_v in Hi. apply shift_ok_inv in Hi. apply bind_ok_inv in Hi. destruct Hi as ([] & Hc & Hv).
      destruct u1. constructor; [split; cbn [fst snd]; assumption|]. apply (IH tt u'). exact Hr.
    + intros H. inversion H as [|x r' [Hc Hv] Hr]; subst. cbn [fst snd] in Hc, Hv.
      unfold item_v at 1. rewrite Hc. cbn [bind]. rewrite Hv. cbn [shift bind]. apply IH. exact Hr.
Qed.

Definition nomax (l : intty) : Prop := exists c, to_usize (int_max l) = Crash c.

Lemma flex_fuel_ok (data : bytes) : (length data < flex_fuel data)%nat.
Proof. unfold flex_fuel. lia. Qed.

Lemma flex_valid_chain t l a bs : wf (TFlex t l) = true -> validate_u (TFlex t l) a bs = Ok tt ->
  exists items e,
    chain l (flex_offset_size t l) (align (TFlex t l)) (flex_max l) a (flex_data t l bs) 0 items e /\
    Forall (item_ok t) items /\ (nomax l -> items = []).
Proof.
  intros Hw H. pose proof (flex_consts t l Hw) as (_ & _ & _ & _ & Hos & _).
  rewrite validate_u_flex in H. apply bind_ok_inv in H. destruct H as ([u e] & H & _).
  apply flex_fold_chain in H; [|exact Hos|apply flex_fuel_ok].
  destruct H as (items & Hc & Hf & Hn). exists items, e. repeat split; auto.
  apply (fold_item_v t (flex_offset_size t l) items tt u). exact Hf.
Qed.

Lemma chain_flex_valid t l a bs items e : wf (TFlex t l) = true ->
  chain l (flex_offset_size t l) (align (TFlex t l)) (flex_max l) a (flex_data t l bs) 0 items e ->
  Forall (item_ok t) items -> (nomax l -> items = []) ->
  validate_u (TFlex t l) a bs = Ok tt.
Proof.
  intros Hw Hc Hok Hn. pose proof (flex_consts t l Hw) as (_ & _ & _ & _ & Hos & _).
  rewrite validate_u_flex.
  rewrite (chain_flex_fold l _ _ (item_v t (flex_offset_size t l)) _ tt a _ 0 tt e items Hos (flex_fuel_ok _) Hc Hn).
  - reflexivity.
  - apply (fold_item_v t (flex_offset_size t l) items tt tt). exact Hok.
Qed.

(* the same chain walked from address 0 (the accessors do not know the address) *)
Lemma chain_at_zero t l a data items e : wf (TFlex t l) = true ->
  chain l (flex_offset_size t l) (align (TFlex t l)) (flex_max l) a data 0 items e ->
  exists items0,
    chain l (flex_offset_size t l) (align (TFlex t l)) (flex_max l) 0 data 0 items0 e /\
    Forall2 (same_item) items items0.
Proof.
  intros Hw Hc. pose proof (flex_consts t l Hw) as (Hal & _ & _ & Hdiv & _ & Hil & _).
  apply (chain_readdr l _ _ _ Hal Hil Hdiv a data 0 items e Hc 0). apply N.mod_0_l. lia.
Qed.

Lemma same_item_nil_l items0 : Forall2 same_item [] items0 -> items0 = [].
Proof. intros H. inversion H. reflexivity. Qed.

Definition no_item : flex_item := (0, 0, []).

Lemma same_item_last items items0 : Forall2 same_item items items0 ->
  snd (last items0 no_item) = snd (last items no_item).
Proof.
  induction 1 as [|x y r r' Hxy Hr IH]; [reflexivity|].
  destruct Hr as [|x2 y2 r2 r2' Hxy2 Hr2].
  - cbn [last]. destruct Hxy as [_ H]. symmetry. exact H.
  - exact IH.
Qed.

Lemma fold_item_view t items vs : Forall2 (fun x v => view t (snd x) = Ok v) items vs ->
  forall acc, fold_items (item_view t) acc items = Ok (rev vs ++ acc).
Proof.
  induction 1 as [|[[p pa] pl] v r vs' Hv Hr IH]; intros acc; [reflexivity|].
  cbn [fold_items]. unfold item_view at 1. cbn [snd] in Hv. rewrite Hv. cbn [bind]. rewrite IH.
  cbn [rev]. rewrite <- app_assoc. reflexivity.
Qed.

Lemma flex_view_chain t l a bs items e vs : wf (TFlex t l) = true ->
  chain l (flex_offset_size t l) (align (TFlex t l)) (flex_max l) a (flex_data t l bs) 0 items e ->
  (nomax l -> items = []) ->
  Forall2 (fun x v => view t (snd x) = Ok v) items vs ->
  view (TFlex t l) bs = Ok (VNode 0 vs).
Proof.
  intros Hw Hc Hn Hvs. pose proof (flex_consts t l Hw) as (_ & _ & _ & _ & Hos & _).
  destruct (chain_at_zero t l a _ items e Hw Hc) as (items0 & Hc0 & Hsame).
  assert (Hn0 : nomax l -> items0 = []).
  { intros Hx. rewrite (Hn Hx) in Hsame. apply same_item_nil_l. exact Hsame. }
  assert (Hf : fold_items (item_view t) [] items0 = Ok (rev vs ++ [])).
  { rewrite (fold_items_same (item_view t) ltac:(reflexivity) items items0 Hsame). apply fold_item_view. exact Hvs. }
  rewrite view_flex.
  rewrite (chain_flex_fold l _ _ (item_view t) _ [] 0 _ 0 _ e items0 Hos (flex_fuel_ok _) Hc0 Hn0 Hf).
  cbn [unwrap_err bind fst]. rewrite app_nil_r, rev_involutive. reflexivity.
Qed.

Definition lastp (acc : option (N * bytes)) (items : list flex_item) : option (N * bytes) :=
  match items with
  | [] => acc
  | _ :: _ => Some (snd (fst (last items no_item)), snd (last items no_item))
  end.

Lemma fold_item_size items : forall acc, fold_items item_size acc items = Ok (lastp acc items).
Proof.
  induction items as [|[[p pa] pl] r IH]; intros acc; [reflexivity|].
  cbn [fold_items]. unfold item_size at 1. cbn [bind]. rewrite IH.
  destruct r as [|y r']; reflexivity.
Qed.

(* the accumulator of the size walk is empty iff the chain has no item *)
Lemma lastp_none_iff items : lastp None items = None <-> items = [].
Proof. destruct items as [|x r]; cbn [lastp]; split; intros H; try reflexivity; discriminate. Qed.

(* what size() computes from the chain *)
Definition flex_size_spec (t : ty) (os al : N) (items : list flex_item) (e : flex_end) : res N :=
  match e with
  | EndZero p => Ok (p + os)
  | EndLast p => do sz <- size_m t (snd (last items no_item)); Ok (p + os + ceil_mul sz al)
  end.

Lemma flex_size_chain t l a bs items e : wf (TFlex t l) = true ->
  chain l (flex_offset_size t l) (align (TFlex t l)) (flex_max l) a (flex_data t l bs) 0 items e ->
  (nomax l -> items = []) ->
  size_m (TFlex t l) bs = flex_size_spec t (flex_offset_size t l) (align (TFlex t l)) items e.
Proof.
  intros Hw Hc Hn. pose proof (flex_consts t l Hw) as (_ & _ & _ & _ & Hos & _).
  destruct (chain_at_zero t l a _ items e Hw Hc) as (items0 & Hc0 & Hsame).
  assert (Hn0 : nomax l -> items0 = []).
  { intros Hx. rewrite (Hn Hx) in Hsame. apply same_item_nil_l. exact Hsame. }
  rewrite size_m_flex.
  rewrite (chain_flex_fold l _ _ item_size _ None 0 _ 0 _ e items0 Hos (flex_fuel_ok _) Hc0 Hn0 (fold_item_size items0 None)).
  cbn [unwrap_err bind]. pose proof (same_item_last _ _ Hsame) as Hlast.
  destruct Hsame as [|x y r r' Hxy Hr].
  - apply chain_nil_end in Hc. subst e. reflexivity.
  - unfold lastp, flex_size_res. destruct e as [p|p]; [reflexivity|].
    unfold flex_size_spec. rewrite Hlast. reflexivity.
Qed.

(* every payload of a valid chain can be read *)
Lemma items_views t items : T1 t -> Forall (item_ok t) items ->
  exists vs, Forall2 (fun x v => view t (snd x) = Ok v) items vs /\ forallb caps_ok vs = true.
Proof.
  intros IH. induction 1 as [|x r [Hc Hv] Hr IHr].
  - exists []. split; [constructor|reflexivity].
  - destruct IHr as (vs & Hvs & Hcs).
    destruct (IH _ _ (check_align_min_ok _ _ _ Hc) Hv) as (k & v & _ & _ & _ & _ & Hview & Hcv).
    exists (v :: vs). split; [constructor; assumption|]. cbn [forallb]. rewrite Hcv, Hcs. reflexivity.
Qed.

Lemma flex_data_blen t l bs : wf (TFlex t l) = true ->
  blen (flex_data t l bs) = floor_mul (blen bs) (align (TFlex t l)) /\
  blen (flex_data t l bs) <= blen bs /\ blen (flex_data t l bs) mod align (TFlex t l) = 0.
Proof.
  intros Hw. pose proof (flex_consts t l Hw) as (Hal & _).
  pose proof (floor_mul_le (blen bs) _ Hal) as Hle. unfold flex_data. rewrite blen_take_le by exact Hle.
  repeat split; auto. apply floor_mul_mod; auto.
Qed.

Lemma flex_part1 t l : T1 t -> wf (TFlex t l) = true -> T1 (TFlex t l).
Proof.
  intros IH Hw a bs Hm Hv.
  pose proof (flex_consts t l Hw) as (Hal & Hlos & Hosm & Hdiv & Hos & Hil & _).
  destruct (flex_data_blen t l bs Hw) as (HF & HFle & HFmod).
  destruct (flex_valid_chain t l a bs Hw Hv) as (items & e & Hc & Hok & Hn).
  destruct (items_views t items IH Hok) as (vs & Hvs & Hcs).
  pose proof (flex_view_chain t l a bs items e vs Hw Hc Hn Hvs) as Hview.
  pose proof (flex_size_chain t l a bs items e Hw Hc Hn) as Hsize.
  destruct (chain_ge _ _ _ _ _ _ _ _ _ Hc) as (_ & _ & Hend). rewrite N.add_0_l in Hend.
  destruct (chain_mod _ _ _ _ _ _ _ _ _ Hal Hc ltac:(apply N.mod_0_l; lia)) as (_ & Hpm).
  cbn [min_size] in *. fold (flex_offset_size t l) in *.
  destruct e as [p|p]; cbn [end_pos end_slot] in *.
  - (* the chain ends in a zero slot at p *)
    pose proof (flex_slot_fits t l p _ Hw Hpm HFmod Hend) as Hfit.
    exists (p + flex_offset_size t l), (VNode 0 vs). repeat split; auto.
    + lia.
    + apply mod_add_mult; auto.
    + lia.
  - (* the chain ends in a marked item: its payload is the rest of the data *)
    destruct (chain_last_item _ _ _ _ _ _ _ _ _ Hc) as (pre & pa & Hitems).
    rewrite N.sub_0_r in Hitems.
    assert (Hlast : item_ok t (p, pa, drop (p + flex_offset_size t l) (flex_data t l bs))).
    { rewrite Hitems in Hok. apply Forall_app in Hok. destruct Hok as [_ Hok]. inversion Hok; auto. }
    destruct Hlast as [Hcl Hvl]. cbn [fst snd] in Hcl, Hvl.
    destruct (IH _ _ (check_align_min_ok _ _ _ Hcl) Hvl) as (sz & v & Hsz & Hszle & _ & _ & _ & _).
    rewrite blen_drop in Hszle.
    unfold flex_size_spec in Hsize. rewrite Hitems, last_last in Hsize. cbn [snd] in Hsize.
    rewrite Hsz in Hsize. cbn [bind] in Hsize.
    assert (Hpl : (blen (flex_data t l bs) - (p + flex_offset_size t l)) mod align (TFlex t l) = 0).
    { apply mod_sub_mult; auto. apply mod_add_mult; auto. }
    pose proof (ceil_mul_le_mult _ _ _ Hal Hszle Hpl) as Hceil.
    eexists. exists (VNode 0 vs). repeat split; [exact Hsize| | | |exact Hview|exact Hcs].
    + lia.
    + apply mod_add_mult; auto; [apply mod_add_mult; auto|]. apply ceil_mul_mod; auto.
    + lia.
Qed.

(* ---------- field lists and variants: unfolding ---------- *)

Lemma split_at_inv n (bs : bytes) sp : split_at n bs = Ok sp -> n <= blen bs /\ sp = (take n bs, drop n bs).
Proof.
  unfold split_at. destruct (N.leb_spec n (blen bs)) as [Hle|Hgt]; [|discriminate].
  intros H. injection H as <-. auto.
Qed.

Lemma split_at_ok n (bs : bytes) : n <= blen bs -> split_at n bs = Ok (take n bs, drop n bs).
Proof. intros H. unfold split_at. destruct (N.leb_spec n (blen bs)); [reflexivity|lia]. Qed.

Lemma drop_unchecked_ok n (bs : bytes) : n <= blen bs -> drop_unchecked n bs = Ok (drop n bs).
Proof. intros H. unfold drop_unchecked. destruct (N.leb_spec n (blen bs)); [reflexivity|lia]. Qed.

Lemma drop_unchecked_inv n (bs : bytes) r : drop_unchecked n bs = Ok r -> n <= blen bs /\ r = drop n bs.
Proof.
  unfold drop_unchecked. destruct (N.leb_spec n (blen bs)) as [Hle|Hgt]; [|discriminate].
  intros H. injection H as <-. auto.
Qed.

Lemma size_last_single t data pos :
  size_last (FCons t FNil) data pos = (do s <- size_m t data; Ok (pos + s)).
Proof. reflexivity. Qed.
Lemma size_last_cons2 t t' r data pos :
  size_last (FCons t (FCons t' r)) data pos =
  (do from <- drop_unchecked (pos_next pos t t' - pos) data; size_last (FCons t' r) from (pos_next pos t t')).
Proof. reflexivity. Qed.
Lemma view_fields_single t data pos :
  view_fields (FCons t FNil) data pos = (do v <- view t data; Ok [v]).
Proof. reflexivity. Qed.
Lemma view_fields_cons2 t t' r data pos :
  view_fields (FCons t (FCons t' r)) data pos =
  (do v <- view t data;
   do sp <- split_at (pos_next pos t t' - pos) data;
   do rest <- view_fields (FCons t' r) (snd sp) (pos_next pos t t');
   Ok (v :: rest)).
Proof. reflexivity. Qed.
Lemma fold_size_iter_single t data pos acc :
  fold_size_iter (FCons t FNil) data pos acc = (do s <- size_m t data; Ok (ceil_mul acc (align t) + s)).
Proof. reflexivity. Qed.
Lemma fold_size_iter_cons2 t t' r data pos acc :
  fold_size_iter (FCons t (FCons t' r)) data pos acc =
  (do sp <- split_at (pos_next pos t t' - pos) data;
   fold_size_iter (FCons t' r) (snd sp) (pos_next pos t t') (ceil_mul acc (align t) + ssize t)).
Proof. reflexivity. Qed.

(* the enum's FoldSizeIter computes the same end position as the struct's walk *)
Lemma fold_size_iter_eq fs : forall data pos acc e, fs <> FNil -> pos = ceil_mul acc (head_align fs) ->
  (fold_size_iter fs data pos acc = Ok e <-> size_last fs data pos = Ok e).
Proof.
  induction fs as [|t r IH]; intros data pos acc e Hne Hpos; [congruence|].
  destruct r as [|t' r'].
  - rewrite fold_size_iter_single, size_last_single. cbn [head_align] in Hpos. subst pos. reflexivity.
  - rewrite fold_size_iter_cons2, size_last_cons2. unfold split_at, drop_unchecked.
    destruct (N.leb_spec (pos_next pos t t' - pos) (blen data)); cbn [bind snd].
    + apply IH; [congruence|]. cbn [head_align] in *. unfold pos_next. subst pos. reflexivity.
    + split; discriminate.
Qed.

(* ---------- the statements for field lists and variants ---------- *)

Definition F1 (fs : fields) : Prop := forall a data pos,
  end_min fs pos <= pos + blen data -> validate_fields fs a data pos = Ok tt ->
  exists e vs, size_last fs data pos = Ok e /\ end_min fs pos <= e /\ e <= pos + blen data /\
               view_fields fs data pos = Ok vs /\ forallb caps_ok vs = true.

Definition V1 (vs : variants) : Prop := forall s k a data,
  wf_variants s vs = true -> N.of_nat k < vlen vs -> (s = true -> max_fold_size vs <= blen data) ->
  validate_variant vs k s a data = Ok tt ->
  exists e fvs, size_variant vs k data = Ok e /\ min_data_min_size vs <= e /\ e <= blen data /\
                view_variant vs k data = Ok fvs /\ forallb caps_ok fvs = true.

Lemma fields_part1_single t : T1 t -> F1 (FCons t FNil).
Proof.
  intros IH a data pos He Hv. rewrite validate_fields_single in Hv. cbn [end_min] in He.
  apply bind_ok_inv in Hv. destruct Hv as ([] & Hv & _). apply shift_ok_inv in Hv.
  destruct (IH a data ltac:(lia) Hv) as (k & v & Hk & Hkb & _ & Hkm & Hview & Hc).
  exists (pos + k), [v]. rewrite size_last_single, view_fields_single, Hk, Hview. cbn [bind forallb end_min].
  rewrite Hc. repeat split; auto; lia.
Qed.

Lemma fields_part1_cons2 t t' r : wf t = true -> wf t' = true -> sized t = true -> wfF (FCons t' r) ->
  T1 t -> F1 (FCons t' r) -> F1 (FCons t (FCons t' r)).
Proof.
  intros Hwt Hwt' Hst Hr IHt IHr a data pos He Hv.
  rewrite validate_fields_cons2 in Hv. rewrite end_min_cons2 in He.
  pose proof (end_min_ge _ Hr (pos_next pos t t')) as Hge.
  assert (Hnp : pos + ssize t <= pos_next pos t t') by (unfold pos_next; apply ceil_mul_ge, align_pos; auto).
  apply bind_ok_inv in Hv. destruct Hv as ([] & Hv & Hrest). apply shift_ok_inv in Hv. cbv zeta in Hrest.
  apply bind_ok_inv in Hrest. destruct Hrest as (sp & Hsp & Hrest).
  apply split_at_inv in Hsp. destruct Hsp as [Hsple ->]. cbn [snd] in Hrest.
  destruct (IHt a data ltac:(rewrite min_size_sized by auto; lia) Hv) as (k & v & _ & _ & _ & _ & Hview & Hc).
  assert (Hend' : end_min (FCons t' r) (pos_next pos t t')
                  <= pos_next pos t t' + blen (drop (pos_next pos t t' - pos) data)) by (rewrite blen_drop; lia).
  destruct (IHr _ _ _ Hend' Hrest) as (e & vs & He1 & He2 & He3 & Hvs & Hcs).
  rewrite blen_drop in He3.
  exists e, (v :: vs). rewrite size_last_cons2, view_fields_cons2, end_min_cons2.
  rewrite (drop_unchecked_ok _ _ Hsple), (split_at_ok _ _ Hsple), Hview. cbn [bind snd]. rewrite He1, Hvs. cbn [bind forallb].
  rewrite Hc, Hcs. repeat split; auto; lia.
Qed.

Lemma variants_part1_here fs r : (fs <> FNil -> wfF fs -> F1 fs) -> forall s a data,
  wf_variants s (VCons fs r) = true -> (s = true -> max_fold_size (VCons fs r) <= blen data) ->
  validate_variant (VCons fs r) 0 s a data = Ok tt ->
  exists e fvs, size_variant (VCons fs r) 0 data = Ok e /\ min_data_min_size (VCons fs r) <= e /\ e <= blen data /\
                view_variant (VCons fs r) 0 data = Ok fvs /\ forallb caps_ok fvs = true.
Proof.
  intros IHf s a data Hw Hs Hv. pose proof Hw as Hw0. apply wf_variants_cons in Hw. destruct Hw as [Hf Hr].
  pose proof (min_data_min_size_cons fs r) as [Hmin _].
  cbn [validate_variant] in Hv. cbn [size_variant view_variant].
  destruct (negb s && (blen data <? data_min_size fs)) eqn:Echk; [discriminate|].
  destruct Hf as [->|Hf].
  { exists 0, []. cbn [fold_min_size] in Hmin. repeat split; auto; lia. }
  destruct fs as [|t0 r0]; [exists 0, []; cbn [fold_min_size] in Hmin; repeat split; auto; lia|].
  assert (Hend : end_min (FCons t0 r0) 0 <= 0 + blen data).
  { rewrite N.add_0_l. rewrite <- fold_min_size_0 by congruence. destruct s.
    - specialize (Hs eq_refl). cbn [max_fold_size] in Hs.
      cbn [wf_variants] in Hw0. rewrite andb_true_iff in Hw0. destruct Hw0 as [Hfs _].
      rewrite fold_min_size_sized by auto. pose proof (umax_ge_l (fold_size 0 (FCons t0 r0)) (max_fold_size r)). lia.
    - cbn [negb andb] in Echk. unfold data_min_size in Echk. rewrite N.ltb_ge in Echk. exact Echk. }
  destruct (IHf ltac:(congruence) Hf a data 0 Hend Hv) as (e & vs & He1 & He2 & He3 & Hvs & Hcs).
  exists e, vs. rewrite fold_min_size_0 in Hmin by congruence. repeat split; auto; try lia.
  apply (fold_size_iter_eq (FCons t0 r0) data 0 0 e); [congruence|symmetry; apply ceil_mul_0|exact He1].
Qed.

Lemma variants_part1_cons fs r : (fs <> FNil -> wfF fs -> F1 fs) -> V1 r -> V1 (VCons fs r).
Proof.
  intros IHf IHr s k a data Hw Hk Hs Hv. destruct k as [|k'].
  - eapply variants_part1_here; eauto.
  - pose proof Hw as Hw0. apply wf_variants_cons in Hw. destruct Hw as [Hf Hr].
    cbn [validate_variant] in Hv. cbn [size_variant view_variant].
    assert (Hk' : N.of_nat k' < vlen r) by (cbn [vlen] in Hk; lia).
    destruct (IHr s k' a data Hr Hk') as (e & fvs & He1 & He2 & He3 & Hvs & Hcs); auto.
    { intros Hst. specialize (Hs Hst). cbn [max_fold_size] in Hs.
      pose proof (umax_ge_r (fold_size 0 fs) (max_fold_size r)). lia. }
    exists e, fvs. repeat split; auto.
    pose proof (min_data_min_size_cons fs r) as [_ Hmin].
    assert (r <> VNil) by (intros ->; cbn [vlen] in Hk'; lia). specialize (Hmin H). lia.
Qed.

(* ---------- structs ---------- *)

Lemma struct_end_min s t0 r0 bs : wf (TStruct s (FCons t0 r0)) = true ->
  min_size (TStruct s (FCons t0 r0)) <= blen bs ->
  end_min (FCons t0 r0) 0 <= 0 + blen (if s then bs else take (floor_mul (blen bs) (align_fields (FCons t0 r0))) bs).
Proof.
  intros Hw Hm. destruct (wf_struct_wfF _ _ Hw) as [Hnil|Hf]; [discriminate|].
  rewrite N.add_0_l. rewrite <- fold_min_size_0 by congruence.
  pose proof (align_fields_P16 (FCons t0 r0) (or_intror Hf)) as Hp. pose proof (P16_pos _ Hp) as Hpos.
  destruct s.
  - cbn [wf] in Hw. rewrite fold_min_size_sized by auto. cbn [min_size ssize] in Hm.
    pose proof (ceil_mul_ge (fold_size 0 (FCons t0 r0)) (align_fields (FCons t0 r0)) Hpos). lia.
  - cbn [min_size] in Hm. rewrite blen_take.
    pose proof (ceil_mul_ge (fold_min_size 0 (FCons t0 r0)) _ Hpos).
    pose proof (floor_mul_ge_mult (blen bs) _ _ Hpos Hm (ceil_mul_mod _ _ Hpos)).
    pose proof (floor_mul_le (blen bs) _ Hpos). lia.
Qed.

Lemma struct_part1 s fs : (fs <> FNil -> wfF fs -> F1 fs) -> wf (TStruct s fs) = true -> T1 (TStruct s fs).
Proof.
  intros IH Hw a bs Hm Hv.
  destruct fs as [|t0 r0].
  { destruct s; [|discriminate Hw]. exists 0, (VNode 0 []). cbn [size_m ssize fold_size align_fields align].
    rewrite ceil_mul_0. repeat split; auto; try lia. cbn [min_size ssize fold_size align_fields]. rewrite ceil_mul_0. lia. }
  destruct (wf_struct_wfF _ _ Hw) as [Hnil|Hf]; [discriminate Hnil|].
  pose proof (align_fields_P16 (FCons t0 r0) (or_intror Hf)) as Hp. pose proof (P16_pos _ Hp) as Hpos.
  pose proof (struct_end_min s t0 r0 bs Hw Hm) as Hend.
  cbn [validate_u] in Hv.
  destruct (IH ltac:(congruence) Hf a _ 0 Hend Hv) as (e & vs & He1 & He2 & He3 & Hvs & Hcs).
  destruct s.
  - exists (ssize (TStruct true (FCons t0 r0))), (VNode 0 vs). repeat split; auto.
    + apply (ssize_mod_align (TStruct true (FCons t0 r0))); auto.
    + cbn [min_size]. lia.
    + cbn [view]. rewrite Hvs. reflexivity.
  - rewrite N.add_0_l in He3. rewrite blen_take_le in He3 by (apply floor_mul_le; auto).
    exists (ceil_mul e (align_fields (FCons t0 r0))), (VNode 0 vs). repeat split.
    + cbn [size_m]. rewrite He1. reflexivity.
    + pose proof (ceil_mul_le_mult _ _ _ Hpos He3 (floor_mul_mod _ _ Hpos)).
      pose proof (floor_mul_le (blen bs) _ Hpos). lia.
    + cbn [align]. apply ceil_mul_mod; auto.
    + cbn [min_size]. apply ceil_mul_mono; auto. rewrite fold_min_size_0 by congruence. exact He2.
    + cbn [view]. rewrite Hvs. reflexivity.
    + exact Hcs.
Qed.

(* ---------- enums ---------- *)

Definition enum_data (s : bool) (tag : intty) (vs : variants) (bs : bytes) : bytes :=
  let data0 := drop (data_offset tag vs) bs in
  if s then data0 else take (floor_mul (blen data0) (umax (ialign tag) (align_variants vs))) data0.

Lemma enum_valid_inv s tag dflt vs a bs : validate_u (TEnum s tag dflt vs) a bs = Ok tt ->
  exists v, read_int tag bs = Ok v /\ v < vlen vs /\ data_offset tag vs <= blen bs /\
    validate_variant vs (N.to_nat v) s (a + data_offset tag vs) (enum_data s tag vs bs) = Ok tt.
Proof.
  cbn [validate_u]. intros H. apply bind_ok_inv in H. destruct H as (v & Hr & H).
  destruct (N.ltb_spec v (vlen vs)) as [Hlt|Hge]; cbn [negb] in H; [|discriminate].
  apply bind_ok_inv in H. destruct H as (data0 & Hd & H). apply drop_unchecked_inv in Hd. destruct Hd as [Hd ->].
  apply shift_ok_inv in H. exists v. repeat split; auto.
Qed.

Lemma enum_valid_intro s tag dflt vs a bs v : read_int tag bs = Ok v -> v < vlen vs -> data_offset tag vs <= blen bs ->
  validate_variant vs (N.to_nat v) s (a + data_offset tag vs) (enum_data s tag vs bs) = Ok tt ->
  validate_u (TEnum s tag dflt vs) a bs = Ok tt.
Proof.
  intros Hr Hlt Hd Hv. cbn [validate_u]. rewrite Hr. cbn [bind].
  destruct (N.ltb_spec v (vlen vs)); [|lia]. cbn [negb]. rewrite (drop_unchecked_ok _ _ Hd). cbn [bind].
  unfold enum_data in Hv. cbv zeta in Hv. rewrite Hv. reflexivity.
Qed.

Lemma view_enum_eval s tag dflt vs bs v fvs : read_int tag bs = Ok v -> data_offset tag vs <= blen bs ->
  view_variant vs (N.to_nat v) (enum_data s tag vs bs) = Ok fvs ->
  view (TEnum s tag dflt vs) bs = Ok (VNode v fvs).
Proof.
  intros Hr Hd Hv. cbn [view]. rewrite Hr. cbn [bind]. rewrite (drop_unchecked_ok _ _ Hd). cbn [bind].
  unfold enum_data in Hv. cbv zeta in Hv. rewrite Hv. reflexivity.
Qed.

Lemma size_enum_eval tag dflt vs bs v e : read_int tag bs = Ok v -> data_offset tag vs <= blen bs ->
  size_variant vs (N.to_nat v) (enum_data false tag vs bs) = Ok e ->
  size_m (TEnum false tag dflt vs) bs = Ok (ceil_mul (data_offset tag vs + e) (umax (ialign tag) (align_variants vs))).
Proof.
  intros Hr Hd Hv. cbn [size_m]. rewrite Hr. cbn [bind]. rewrite (drop_unchecked_ok _ _ Hd). cbn [bind].
  unfold enum_data in Hv. cbv zeta in Hv. rewrite Hv. reflexivity.
Qed.

Lemma enum_consts s tag dflt vs : wf (TEnum s tag dflt vs) = true ->
  let al := umax (ialign tag) (align_variants vs) in
  0 < al /\ isize tag <= data_offset tag vs /\ data_offset tag vs mod al = 0.
Proof.
  intros Hw. apply wf_enum_inv in Hw. destruct Hw as (Hi & _ & _ & _ & _ & Hv). cbv zeta.
  assert (Hal : 0 < umax (ialign tag) (align_variants vs)).
  { apply P16_pos, P16_umax; [apply wf_int_P16 in Hi; tauto | eapply align_variants_P16; eauto]. }
  repeat split; auto.
  - apply isize_le_data_offset; auto.
  - unfold data_offset. apply ceil_mul_mod; auto.
Qed.

(* what the slice offers the variant payload *)
Lemma enum_data_room s tag dflt vs bs : wf (TEnum s tag dflt vs) = true ->
  min_size (TEnum s tag dflt vs) <= blen bs ->
  data_offset tag vs <= blen bs /\ (s = true -> max_fold_size vs <= blen (enum_data s tag vs bs)).
Proof.
  intros Hw Hm. pose proof (enum_consts _ _ _ _ Hw) as (Hal & Hdo & _). unfold enum_data. cbv zeta.
  destruct s.
  - cbn [min_size ssize] in Hm. unfold data_offset.
    pose proof (ceil_mul_ge (ceil_mul (isize tag) (umax (ialign tag) (align_variants vs)) + max_fold_size vs) _ Hal).
    split; [lia|]. intros _. rewrite blen_drop. unfold data_offset. lia.
  - pose proof (min_size_enum_ge _ _ _ Hw). split; [lia|]. discriminate.
Qed.

Lemma enum_part1 s tag dflt vs : V1 vs -> wf (TEnum s tag dflt vs) = true -> T1 (TEnum s tag dflt vs).
Proof.
  intros IH Hw a bs Hm Hv.
  pose proof (enum_consts _ _ _ _ Hw) as (Hal & Hdo & Hdmod).
  destruct (enum_data_room _ _ _ _ bs Hw Hm) as [Hd Hroom].
  destruct (enum_valid_inv _ _ _ _ _ _ Hv) as (v & Hr & Hlt & _ & Hvv).
  pose proof Hw as Hw0. apply wf_enum_inv in Hw. destruct Hw as (Hi & Hnat & Hv1 & Hv2 & Hdf & Hwv).
  destruct (IH s (N.to_nat v) _ _ Hwv ltac:(rewrite N2Nat.id; exact Hlt) Hroom Hvv) as (e & fvs & He1 & He2 & He3 & Hvs & Hcs).
  pose proof (view_enum_eval s tag dflt vs bs v fvs Hr Hd Hvs) as Hview.
  destruct s.
  - exists (ssize (TEnum true tag dflt vs)), (VNode v fvs). repeat split; auto.
    + apply (ssize_mod_align (TEnum true tag dflt vs)); auto.
    + cbn [min_size]. lia.
  - exists (ceil_mul (data_offset tag vs + e) (umax (ialign tag) (align_variants vs))), (VNode v fvs).
    unfold enum_data in He3. cbv zeta in He3. rewrite blen_take_le in He3 by (apply floor_mul_le; auto).
    rewrite blen_drop in He3.
    repeat split; auto.
    + apply (size_enum_eval tag dflt vs bs v e Hr Hd He1).
    + pose proof (floor_mul_le (blen bs - data_offset tag vs) _ Hal).
      pose proof (floor_mul_mod (blen bs - data_offset tag vs) _ Hal).
      assert (ceil_mul (data_offset tag vs + e) (umax (ialign tag) (align_variants vs))
              <= data_offset tag vs + floor_mul (blen bs - data_offset tag vs) (umax (ialign tag) (align_variants vs))).
      { apply ceil_mul_le_mult; auto; [lia|]. apply mod_add_mult; auto. }
      lia.
    + cbn [align]. apply ceil_mul_mod; auto.
    + cbn [min_size]. apply ceil_mul_mono; auto. unfold data_offset. lia.
Qed.

(* ---------- sized leaves and arrays ---------- *)

Lemma int_part1 i : wf (TInt i) = true -> T1 (TInt i).
Proof.
  intros Hw a bs Hm _. cbn [min_size ssize] in Hm. destruct (read_int_ok i bs Hm) as (v & Hr & _).
  exists (isize i), (VInt v). cbn [size_m ssize align min_size view]. rewrite Hr. repeat split; auto; try lia.
  apply wf_int_size_mod_align. exact Hw.
Qed.

Lemma bool_part1 : T1 TBool.
Proof.
  intros a bs Hm Hv. cbn [min_size ssize] in Hm. destruct bs as [|b r]; [cbn in Hm; lia|].
  exists 1, (VInt b). cbn [size_m ssize align min_size view]. repeat split; auto; lia.
Qed.

Lemma clike_part1 tag n d : wf (TCLike tag n d) = true -> T1 (TCLike tag n d).
Proof.
  intros Hw a bs Hm _. cbn [min_size ssize] in Hm. destruct (read_int_ok tag bs Hm) as (v & Hr & _).
  cbn [wf] in Hw. rewrite !andb_true_iff in Hw. destruct Hw as [[[[Hw _] _] _] _].
  exists (isize tag), (VInt v). cbn [size_m ssize align min_size view]. rewrite Hr. repeat split; auto; try lia.
  apply wf_int_size_mod_align. exact Hw.
Qed.

Lemma arr_part1 t n : T1 t -> wf (TArr t n) = true -> T1 (TArr t n).
Proof.
  intros IH Hw a bs Hm Hv. pose proof Hw as Hw0. apply wf_arr_inv in Hw. destruct Hw as [Hwt Hst].
  cbn [min_size ssize] in Hm. cbn [validate_u] in Hv.
  assert (Hfit : (0 + N.of_nat (N.to_nat n)) * ssize t <= blen bs) by (rewrite N2Nat.id; lia).
  destruct (view_arr_of_valid _ (fun _ el => view t el) _ _ _ 0 Hfit Hv) as (vs & Hvs & Hlen & Hcs).
  { intros j el Hel Hval.
    destruct (IH _ el ltac:(rewrite min_size_sized by auto; lia) Hval) as (k & v & _ & _ & _ & _ & Hview & Hc).
    eauto. }
  exists (n * ssize t), (VNode 0 vs). cbn [size_m ssize min_size view caps_ok]. rewrite Hvs. repeat split; auto; try lia.
  apply (ssize_mod_align (TArr t n)); auto.
Qed.

(* ---------- PART 1: a valid value can be measured and read ---------- *)

Theorem valid_size_view_mut :
  (forall t, wf t = true -> T1 t) /\
  (forall fs, fs <> FNil -> wfF fs -> F1 fs) /\
  (forall vs, V1 vs).
Proof.
  apply ty_mutind.
  - (* TUnit *) intros _ a bs _ _. exists 0, (VNode 0 []). repeat split; auto; cbn; lia.
  - (* TInt *) intros i Hw. apply int_part1; auto.
  - (* TBool *) intros _. apply bool_part1.
  - (* TCLike *) intros tag n d Hw. apply clike_part1; auto.
  - (* TArr *) intros t IH n Hw. apply arr_part1; auto. apply IH. apply wf_arr_inv in Hw. tauto.
  - (* TVec *) intros t IH l Hw. apply vec_part1; auto. apply IH. apply wf_vec_inv in Hw. tauto.
  - (* TStr *) intros l Hw. apply str_part1; auto.
  - (* TFlex *) intros t IH l Hw. apply flex_part1; auto. apply IH. apply wf_flex_inv in Hw. tauto.
  - (* TStruct *) intros s fs IH Hw. apply struct_part1; auto.
  - (* TEnum *) intros s tag d vs IH Hw. apply enum_part1; auto.
  - (* FNil *) intros H. congruence.
  - (* FCons *) intros t IHt r IHr _ Hw. apply wfF_cons in Hw. destruct Hw as [Hwt Hr].
    destruct r as [|t' r'].
    + apply fields_part1_single. auto.
    + destruct Hr as [Hr|[Hst Hr]]; [discriminate|].
      pose proof (wfF_cons _ _ Hr) as [Hwt' _].
      apply fields_part1_cons2; auto. apply IHr; [congruence|auto].
  - (* VNil *) intros s k a data _ Hk. cbn in Hk. lia.
  - (* VCons *) intros fs IHf r IHr. apply variants_part1_cons; auto.
Qed.

Theorem valid_size_view t a bs : wf t = true -> validate t a bs = Ok tt ->
  exists k v, size_m t bs = Ok k /\ k <= blen bs /\ k mod align t = 0 /\ min_size t <= k /\
              view t bs = Ok v /\ caps_ok v = true.
Proof.
  intros Hw H. unfold validate in H. apply bind_ok_inv in H. destruct H as ([] & Hc & Hv).
  apply (proj1 valid_size_view_mut t Hw a bs); auto. eapply check_align_min_ok; eauto.
Qed.

(* ====================================================================================== *)
(* PART 2 — locality: a valid value is determined by its first size() bytes                *)
(* ====================================================================================== *)

Definition T2 (t : ty) : Prop := forall a bs bs' k,
  min_size t <= blen bs -> validate_u t a bs = Ok tt -> size_m t bs = Ok k -> agree k bs bs' ->
  validate_u t a bs' = Ok tt /\ size_m t bs' = Ok k /\
  exists v v', view t bs = Ok v /\ view t bs' = Ok v' /\ strip v' = strip v.

Definition F2 (fs : fields) : Prop := forall a data data' pos e,
  end_min fs pos <= pos + blen data -> validate_fields fs a data pos = Ok tt ->
  size_last fs data pos = Ok e -> agree (e - pos) data data' ->
  validate_fields fs a data' pos = Ok tt /\ size_last fs data' pos = Ok e /\
  exists vs vs', view_fields fs data pos = Ok vs /\ view_fields fs data' pos = Ok vs' /\
                 map strip vs' = map strip vs.

Definition V2 (vs : variants) : Prop := forall s k a data data' e,
  wf_variants s vs = true -> N.of_nat k < vlen vs -> (s = true -> max_fold_size vs <= blen data) ->
  validate_variant vs k s a data = Ok tt -> size_variant vs k data = Ok e -> agree e data data' ->
  validate_variant vs k s a data' = Ok tt /\ size_variant vs k data' = Ok e /\
  exists fvs fvs', view_variant vs k data = Ok fvs /\ view_variant vs k data' = Ok fvs' /\
                   map strip fvs' = map strip fvs.

Lemma T1_of_wf t : wf t = true -> T1 t.
Proof. apply (proj1 valid_size_view_mut). Qed.

(* the facts of PART 1 about the size already known *)
Lemma T1_size t a bs k : wf t = true -> min_size t <= blen bs -> validate_u t a bs = Ok tt -> size_m t bs = Ok k ->
  k <= blen bs /\ k mod align t = 0 /\ min_size t <= k.
Proof.
  intros Hw Hm Hv Hk. destruct (T1_of_wf t Hw a bs Hm Hv) as (k0 & v & Hk0 & H1 & H2 & H3 & _).
  rewrite Hk in Hk0. injection Hk0 as <-. auto.
Qed.

(* ---------- sized leaves and arrays ---------- *)

Lemma unit_part2 : T2 TUnit.
Proof.
  intros a bs bs' k _ _ Hk _. split; [reflexivity|]. split; [exact Hk|]. exists (VNode 0 []), (VNode 0 []). auto.
Qed.

Lemma int_part2 i : T2 (TInt i).
Proof.
  intros a bs bs' k Hm _ Hk Hag. cbn [size_m ssize] in Hk. injection Hk as <-. cbn [min_size ssize] in Hm.
  destruct (read_int_ok i bs Hm) as (v & Hr & _). repeat split; auto.
  exists (VInt v), (VInt v). cbn [view]. rewrite (agree_read_int i _ bs bs' Hag (N.le_refl _)), Hr. auto.
Qed.

Lemma bool_part2 : T2 TBool.
Proof.
  intros a bs bs' k Hm Hv Hk Hag. cbn [size_m ssize] in Hk. injection Hk as <-.
  destruct Hag as (H1 & H2 & H3).
  destruct bs as [|b r]; [cbn in H1; lia|]. destruct bs' as [|b' r']; [cbn in H2; lia|].
  change (take 1 (b' :: r')) with [b'] in H3. change (take 1 (b :: r)) with [b] in H3. injection H3 as ->.
  repeat split; auto. exists (VInt b), (VInt b). auto.
Qed.

Lemma clike_part2 tag n d : T2 (TCLike tag n d).
Proof.
  intros a bs bs' k Hm Hv Hk Hag. cbn [size_m ssize] in Hk. injection Hk as <-. cbn [min_size ssize] in Hm.
  destruct (read_int_ok tag bs Hm) as (v & Hr & _).
  cbn [validate_u view]. cbn [validate_u] in Hv. rewrite (agree_read_int tag _ bs bs' Hag (N.le_refl _)).
  repeat split; auto. rewrite Hr. exists (VInt v), (VInt v). auto.
Qed.

Lemma arr_part2 t n : wf (TArr t n) = true -> T2 (TArr t n).
Proof.
  intros Hw a bs bs' k Hm Hv Hk Hag. cbn [size_m ssize] in Hk. injection Hk as <-.
  destruct (T1_of_wf _ Hw a bs Hm Hv) as (k0 & v & _ & _ & _ & _ & Hview & _).
  assert (Hfit : (0 + N.of_nat (N.to_nat n)) * ssize t <= n * ssize t) by (rewrite N2Nat.id; lia).
  repeat split; auto.
  - cbn [validate_u] in *. rewrite (arr_loop_agree _ _ _ bs bs' Hag _ 0 Hfit). exact Hv.
  - exists v, v. split; [exact Hview|]. split; [|reflexivity]. cbn [view] in *.
    rewrite (view_arr_agree _ _ _ bs bs' Hag _ 0 Hfit). exact Hview.
Qed.

(* ---------- FlatVec, FlatString ---------- *)

Lemma vec_part2 t l : wf (TVec t l) = true -> T2 (TVec t l).
Proof.
  intros Hw a bs bs' k Hm Hv Hk Hag.
  pose proof (vec_consts t l Hw) as (HA & Hld & HdA & Hd0).
  destruct (T1_size _ a bs k Hw Hm Hv Hk) as (Hkb & Hkmod & Hkmin).
  cbn [min_size] in Hkmin. fold (vec_data_offset t l) in Hkmin.
  pose proof Hw as Hw0. apply wf_vec_inv in Hw. destruct Hw as (Hwt & Hst & Hl).
  destruct (vec_valid_inv _ _ _ _ Hv) as (slots & len & m & Hsl & Hrl & Hmx & Hls & Hlm & Hdb & Hloop).
  cbn [size_m] in Hk. rewrite Hrl in Hk. cbn [bind] in Hk. injection Hk as Hk.
  change (umax (ialign l) (align t)) with (align (TVec t l)) in Hk.
  pose proof (ceil_mul_ge (vec_data_offset t l + ssize t * len) _ HA) as Hkge. rewrite Hk in Hkge.
  pose proof Hag as (_ & Hkb' & _).
  assert (Hrl' : read_len l bs' = Ok len) by (rewrite (agree_read_len l k bs bs' Hag) by lia; exact Hrl).
  assert (Hroom' : ssize t * len <= floor_mul (blen bs' - vec_data_offset t l) (align (TVec t l))).
  { assert (k - vec_data_offset t l <= floor_mul (blen bs' - vec_data_offset t l) (align (TVec t l))).
    { apply floor_mul_ge_mult; auto; [lia|]. apply mod_sub_mult; auto. }
    lia. }
  destruct (vec_slots_ge t l (blen bs') len ltac:(lia) Hroom') as (slots' & Hsl' & Hls').
  { intros Hz. apply vec_slots_inv in Hsl. destruct Hsl as [_ Hsl]. rewrite Hz in Hsl. cbn in Hsl. lia. }
  pose proof (agree_drop k (vec_data_offset t l) bs bs' Hag ltac:(lia)) as Hagd.
  assert (Hfit : (0 + N.of_nat (N.to_nat len)) * ssize t <= k - vec_data_offset t l) by (rewrite N2Nat.id; lia).
  assert (Hfit0 : (0 + N.of_nat (N.to_nat len)) * ssize t <= blen (drop (vec_data_offset t l) bs)).
  { destruct Hagd as (H & _). lia. }
  destruct (view_arr_of_valid _ (fun _ el => view t el) _ _ _ 0 Hfit0 Hloop) as (vs & Hvs & _ & _).
  { intros j el Hel Hval. apply shift_ok_inv in Hval.
    destruct (T1_of_wf t Hwt _ el ltac:(rewrite min_size_sized by auto; lia) Hval) as (k1 & v & _ & _ & _ & _ & Hview & Hc).
    eauto. }
  repeat split.
  - apply (vec_valid_intro t l a bs' slots' len m); auto; try lia.
    rewrite (arr_loop_agree _ _ _ _ _ Hagd _ 0 Hfit). exact Hloop.
  - cbn [size_m]. rewrite Hrl'. cbn [bind]. f_equal. exact Hk.
  - exists (VCont (umin slots m) vs), (VCont (umin slots' m) vs). repeat split.
    + eapply view_vec_eval; eauto.
    + eapply view_vec_eval; eauto; try lia. rewrite (view_arr_agree _ _ _ _ _ Hagd _ 0 Hfit). exact Hvs.
Qed.

Lemma str_part2 l : wf (TStr l) = true -> T2 (TStr l).
Proof.
  intros Hw a bs bs' k Hm Hv Hk Hag.
  destruct (T1_size _ a bs k Hw Hm Hv Hk) as (Hkb & Hkmod & Hkmin). cbn [min_size align] in *.
  cbn [wf] in Hw. pose proof (wf_int_ialign_le _ Hw) as (_ & _ & HA).
  pose proof (wf_int_size_mod_align _ Hw) as Hsmod.
  destruct (str_valid_inv _ _ _ Hv) as (len & m & Hrl & Hmx & Hd & Hls & Hlm & Hlb & Hu).
  cbn [size_m] in Hk. rewrite Hrl in Hk. cbn [bind] in Hk. injection Hk as Hk.
  pose proof (ceil_mul_ge (isize l + len) _ HA) as Hkge. rewrite Hk in Hkge.
  pose proof Hag as (_ & Hkb' & _).
  assert (Hrl' : read_len l bs' = Ok len) by (rewrite (agree_read_len l k bs bs' Hag) by lia; exact Hrl).
  assert (Hroom' : len <= floor_mul (blen bs' - isize l) (ialign l)).
  { assert (k - isize l <= floor_mul (blen bs' - isize l) (ialign l)).
    { apply floor_mul_ge_mult; auto; [lia|]. apply mod_sub_mult; auto. }
    lia. }
  pose proof (agree_take_drop k (isize l) len bs bs' Hag ltac:(lia)) as Htk.
  repeat split.
  - apply (str_valid_intro l a bs' len m); auto; try lia. rewrite Htk. exact Hu.
  - cbn [size_m]. rewrite Hrl'. cbn [bind]. f_equal. exact Hk.
  - exists (VCont (umin (floor_mul (blen bs - isize l) (ialign l)) m) (map VInt (take len (drop (isize l) bs)))),
           (VCont (umin (floor_mul (blen bs' - isize l) (ialign l)) m) (map VInt (take len (drop (isize l) bs')))).
    split; [apply (view_str_eval l bs len m); auto|].
    split; [apply (view_str_eval l bs' len m); auto; lia|].
    cbn [strip]. rewrite Htk. reflexivity.
Qed.

(* ---------- FlexVec ---------- *)

Lemma check_align_min_resize t pa pl pl' : check_align_min t pa pl = Ok tt -> min_size t <= blen pl' ->
  check_align_min t pa pl' = Ok tt.
Proof.
  unfold check_align_min. destruct (negb (aligned pa (align t))); [discriminate|].
  intros _ H. destruct (N.ltb_spec (blen pl') (min_size t)); [lia|reflexivity].
Qed.

Lemma flex_data_agree t l k bs bs' : wf (TFlex t l) = true -> k mod align (TFlex t l) = 0 ->
  agree k bs bs' -> agree k (flex_data t l bs) (flex_data t l bs').
Proof.
  intros Hw Hk Hag. pose proof (flex_consts t l Hw) as (Hal & _). pose proof Hag as (H1 & H2 & _).
  unfold flex_data. apply agree_take_r; [apply agree_take_l; [exact Hag|]|]; apply floor_mul_ge_mult; auto.
Qed.

Lemma Forall2_views_app t (pre : list flex_item) (x : flex_item) vs v :
  Forall2 (fun (x : flex_item) v => view t (snd x) = Ok v) pre vs -> view t (snd x) = Ok v ->
  Forall2 (fun (x : flex_item) v => view t (snd x) = Ok v) (pre ++ [x]) (vs ++ [v]).
Proof. intros H1 H2. apply Forall2_app; [exact H1|]. constructor; [exact H2|constructor]. Qed.

Lemma flex_part2 t l : T2 t -> wf (TFlex t l) = true -> T2 (TFlex t l).
Proof.
  intros IH Hw a bs bs' k Hm Hv Hk Hag.
  pose proof (flex_consts t l Hw) as (Hal & Hlos & Hosm & Hdiv & Hos & Hil & _).
  destruct (T1_size _ a bs k Hw Hm Hv Hk) as (Hkb & Hkmod & Hkmin).
  pose proof (flex_data_agree t l k bs bs' Hw Hkmod Hag) as Hagd.
  pose proof Hw as Hw0. apply wf_flex_inv in Hw. destruct Hw as [Hwt Hl].
  destruct (flex_valid_chain t l a bs Hw0 Hv) as (items & e & Hc & Hok & Hn).
  rewrite (flex_size_chain t l a bs items e Hw0 Hc Hn) in Hk.
  destruct e as [p|p]; unfold flex_size_spec in Hk.
  - (* zero slot at p: the chain lies in the first k bytes *)
    injection Hk as Hk.
    pose proof (chain_local l _ _ _ a _ 0 items (EndZero p) Hlos Hc (flex_data t l bs') k Hagd) as Hc'.
    cbn [end_pos end_slot] in Hc'. specialize (Hc' ltac:(lia)).
    destruct (items_views t items (T1_of_wf t Hwt) Hok) as (vs & Hvs & _).
    split; [|split].
    + apply (chain_flex_valid t l a bs' items (EndZero p)); auto.
    + rewrite (flex_size_chain t l a bs' items (EndZero p) Hw0 Hc' Hn). unfold flex_size_spec. f_equal. exact Hk.
    + exists (VNode 0 vs), (VNode 0 vs). split; [|split; [|reflexivity]].
      * apply (flex_view_chain t l a bs items (EndZero p) vs); auto.
      * apply (flex_view_chain t l a bs' items (EndZero p) vs); auto.
  - (* marked last item: everything before its payload lies in the first k bytes, the payload is
       valid by the induction hypothesis *)
    apply bind_ok_inv in Hk. destruct Hk as (sz & Hsz & Hk). injection Hk as Hk.
    pose proof (chain_local l _ _ _ a _ 0 items (EndLast p) Hlos Hc (flex_data t l bs') k Hagd) as Hc'.
    cbn [end_pos end_slot] in Hc'. specialize (Hc' ltac:(lia)).
    destruct Hc' as (pre & pa & Hitems & Hc'). rewrite N.sub_0_r in *.
    rewrite Hitems in Hsz. rewrite last_last in Hsz. cbn [snd] in Hsz.
    rewrite Hitems in Hok. apply Forall_app in Hok. destruct Hok as [Hokpre Hoklast].
    inversion Hoklast as [|x r' [Hcl Hvl] _]; subst x r'. cbn [fst snd] in Hcl, Hvl.
    pose proof (check_align_min_ok _ _ _ Hcl) as Hml.
    destruct (T1_size t pa _ sz Hwt Hml Hvl Hsz) as (_ & _ & Hszmin).
    assert (Hceil : sz <= ceil_mul sz (align (TFlex t l))) by (apply ceil_mul_ge; exact Hal).
    assert (Hk2 : k = p + flex_offset_size t l + ceil_mul sz (align (TFlex t l))) by (symmetry; exact Hk).
    assert (Hagp : agree sz (drop (p + flex_offset_size t l) (flex_data t l bs))
                            (drop (p + flex_offset_size t l) (flex_data t l bs'))).
    { apply agree_le with (n := k - (p + flex_offset_size t l)); [|lia]. apply agree_drop; [exact Hagd|lia]. }
    destruct (IH pa _ _ sz Hml Hvl Hsz Hagp) as (Hvl' & Hsz' & v & v' & Hview & Hview' & Hstrip).
    pose proof Hagp as (_ & Hszb' & _).
    assert (Hok' : Forall (item_ok t) (pre ++ [(p, pa, drop (p + flex_offset_size t l) (flex_data t l bs'))])).
    { apply Forall_app. split; [exact Hokpre|]. constructor; [|constructor]. split; cbn [fst snd]; [|exact Hvl'].
      apply (check_align_min_resize t pa _ _ Hcl). lia. }
    assert (Hn' : nomax l -> pre ++ [(p, pa, drop (p + flex_offset_size t l) (flex_data t l bs'))] = []).
    { intros Hx. specialize (Hn Hx). rewrite Hitems in Hn. destruct pre; discriminate. }
    destruct (items_views t pre (T1_of_wf t Hwt) Hokpre) as (vs & Hvs & _).
    split; [|split].
    + apply (chain_flex_valid t l a bs' _ (EndLast p) Hw0 Hc' Hok' Hn').
    + rewrite (flex_size_chain t l a bs' _ (EndLast p) Hw0 Hc' Hn'). unfold flex_size_spec.
      rewrite last_last. cbn [snd]. rewrite Hsz'. cbn [bind]. f_equal. exact Hk.
    + exists (VNode 0 (vs ++ [v])), (VNode 0 (vs ++ [v'])). split; [|split].
      * apply (flex_view_chain t l a bs items (EndLast p)); auto. rewrite Hitems.
        apply Forall2_views_app; auto.
      * apply (flex_view_chain t l a bs' _ (EndLast p) _ Hw0 Hc' Hn'). apply Forall2_views_app; auto.
      * cbn [strip]. rewrite !map_app. cbn [map]. rewrite Hstrip. reflexivity.
Qed.

(* ---------- field lists ---------- *)

Lemma F1_of_wf fs : fs <> FNil -> wfF fs -> F1 fs.
Proof. apply (proj1 (proj2 valid_size_view_mut)). Qed.

Lemma fields_part2_single t : T2 t -> F2 (FCons t FNil).
Proof.
  intros IH a data data' pos e He Hv Hs Hag. rewrite validate_fields_single in *. cbn [end_min] in He.
  apply bind_ok_inv in Hv. destruct Hv as ([] & Hv & _). apply shift_ok_inv in Hv.
  rewrite size_last_single in *. apply bind_ok_inv in Hs. destruct Hs as (k & Hk & Hs). injection Hs as <-.
  replace (pos + k - pos) with k in Hag by lia.
  destruct (IH a data data' k ltac:(lia) Hv Hk Hag) as (Hv' & Hk' & v & v' & Hview & Hview' & Hstrip).
  rewrite Hv', Hk'. cbn [shift bind]. repeat split; auto.
  exists [v], [v']. rewrite !view_fields_single, Hview, Hview'. cbn [bind map]. rewrite Hstrip. auto.
Qed.

Lemma fields_part2_cons2 t t' r : wf t = true -> wf t' = true -> sized t = true -> wfF (FCons t' r) ->
  T2 t -> F2 (FCons t' r) -> F2 (FCons t (FCons t' r)).
Proof.
  intros Hwt Hwt' Hst Hr IHt IHr a data data' pos e He Hv Hs Hag.
  rewrite validate_fields_cons2 in *. rewrite end_min_cons2 in He.
  pose proof (end_min_ge _ Hr (pos_next pos t t')) as Hge.
  assert (Hnp : pos + ssize t <= pos_next pos t t') by (unfold pos_next; apply ceil_mul_ge, align_pos; auto).
  apply bind_ok_inv in Hv. destruct Hv as ([] & Hv & Hrest). apply shift_ok_inv in Hv. cbv zeta in Hrest.
  apply bind_ok_inv in Hrest. destruct Hrest as (sp & Hsp & Hrest).
  apply split_at_inv in Hsp. destruct Hsp as [Hsple ->]. cbn [snd] in Hrest.
  rewrite size_last_cons2 in *. rewrite (drop_unchecked_ok _ _ Hsple) in Hs. cbn [bind] in Hs.
  assert (Hend' : end_min (FCons t' r) (pos_next pos t t')
                  <= pos_next pos t t' + blen (drop (pos_next pos t t' - pos) data)) by (rewrite blen_drop; lia).
  destruct (F1_of_wf (FCons t' r) ltac:(congruence) Hr _ _ _ Hend' Hrest) as (e0 & vs0 & He0 & Hemin & _).
  rewrite Hs in He0. injection He0 as <-.
  pose proof Hag as (_ & Hb' & _).
  assert (Hsple' : pos_next pos t t' - pos <= blen data') by lia.
  destruct (IHt a data data' (ssize t) ltac:(rewrite min_size_sized by auto; lia) Hv (size_m_sized _ _ Hst))
    as (Hv' & _ & v & v' & Hview & Hview' & Hstrip).
  { apply agree_le with (n := e - pos); [exact Hag|lia]. }
  assert (Hagr : agree (e - pos_next pos t t') (drop (pos_next pos t t' - pos) data) (drop (pos_next pos t t' - pos) data')).
  { replace (e - pos_next pos t t') with (e - pos - (pos_next pos t t' - pos)) by lia. apply agree_drop; [exact Hag|lia]. }
  destruct (IHr _ _ _ _ _ Hend' Hrest Hs Hagr) as (Hr' & Hs' & vs & vs' & Hvs & Hvs' & Hstrips).
  rewrite Hv'. cbn [shift bind]. cbv zeta. rewrite (split_at_ok _ _ Hsple'), (drop_unchecked_ok _ _ Hsple'). cbn [bind snd].
  repeat split; auto.
  exists (v :: vs), (v' :: vs'). rewrite !view_fields_cons2, Hview, Hview'. cbn [bind].
  rewrite (split_at_ok _ _ Hsple), (split_at_ok _ _ Hsple'). cbn [bind snd]. rewrite Hvs, Hvs'. cbn [bind map].
  rewrite Hstrip, Hstrips. auto.
Qed.

(* for all-sized field lists the walk ends at the static end *)
Lemma size_last_sized fs : wf_fields_sized fs = true -> forall data pos e, fs <> FNil ->
  size_last fs data pos = Ok e -> e = end_min fs pos.
Proof.
  induction fs as [|t r IH]; intros Hw data pos e Hne Hs; [congruence|].
  cbn [wf_fields_sized] in Hw. rewrite !andb_true_iff in Hw. destruct Hw as [[Hwt Hst] Hr].
  destruct r as [|t' r'].
  - rewrite size_last_single, (size_m_sized _ _ Hst) in Hs. cbn [bind] in Hs. injection Hs as <-.
    cbn [end_min]. rewrite min_size_sized by auto. reflexivity.
  - rewrite size_last_cons2 in Hs. apply bind_ok_inv in Hs. destruct Hs as (from & _ & Hs).
    rewrite end_min_cons2. apply (IH Hr from); [congruence|exact Hs].
Qed.

Lemma size_variant_sized vs : wf_variants true vs = true -> forall k data e,
  size_variant vs k data = Ok e -> e <= max_fold_size vs.
Proof.
  induction vs as [|fs r IH]; intros Hw k data e Hs; [discriminate|].
  cbn [wf_variants] in Hw. rewrite andb_true_iff in Hw. destruct Hw as [Hf Hr].
  cbn [size_variant max_fold_size] in *. destruct k as [|k'].
  - destruct fs as [|t0 r0]; [injection Hs as <-; lia|].
    apply (fold_size_iter_eq (FCons t0 r0) data 0 0 e) in Hs; [|congruence|symmetry; apply ceil_mul_0].
    apply (size_last_sized _ Hf) in Hs; [|congruence]. subst e.
    rewrite <- fold_min_size_0 by congruence. rewrite fold_min_size_sized by auto. apply umax_ge_l.
  - specialize (IH Hr k' data e Hs). pose proof (umax_ge_r (fold_size 0 fs) (max_fold_size r)). lia.
Qed.

(* ---------- variants ---------- *)

Lemma variants_part2_here fs r : (fs <> FNil -> wfF fs -> F2 fs) -> forall s a data data' e,
  wf_variants s (VCons fs r) = true -> (s = true -> max_fold_size (VCons fs r) <= blen data) ->
  validate_variant (VCons fs r) 0 s a data = Ok tt -> size_variant (VCons fs r) 0 data = Ok e -> agree e data data' ->
  validate_variant (VCons fs r) 0 s a data' = Ok tt /\ size_variant (VCons fs r) 0 data' = Ok e /\
  exists fvs fvs', view_variant (VCons fs r) 0 data = Ok fvs /\ view_variant (VCons fs r) 0 data' = Ok fvs' /\
                   map strip fvs' = map strip fvs.
Proof.
  intros IHf s a data data' e Hw Hs Hv He Hag. pose proof Hw as Hw0. apply wf_variants_cons in Hw. destruct Hw as [Hf Hr].
  cbn [validate_variant size_variant view_variant] in *.
  destruct (negb s && (blen data <? data_min_size fs)) eqn:Echk; [discriminate|].
  destruct fs as [|t0 r0].
  { injection He as <-. unfold data_min_size. cbn [fold_min_size validate_fields view_fields].
    replace (negb s && (blen data' <? 0)) with false by (destruct s; cbn [negb andb]; auto; symmetry; apply N.ltb_ge; lia).
    repeat split; auto. exists [], []. auto. }
  destruct Hf as [Hf|Hf]; [discriminate|].
  assert (Hend : end_min (FCons t0 r0) 0 <= 0 + blen data).
  { rewrite N.add_0_l. rewrite <- fold_min_size_0 by congruence. destruct s.
    - specialize (Hs eq_refl). cbn [max_fold_size] in Hs.
      cbn [wf_variants] in Hw0. rewrite andb_true_iff in Hw0. destruct Hw0 as [Hfs _].
      rewrite fold_min_size_sized by auto. pose proof (umax_ge_l (fold_size 0 (FCons t0 r0)) (max_fold_size r)). lia.
    - cbn [negb andb] in Echk. unfold data_min_size in Echk. rewrite N.ltb_ge in Echk. exact Echk. }
  apply (fold_size_iter_eq (FCons t0 r0) data 0 0 e) in He; [|congruence|symmetry; apply ceil_mul_0].
  destruct (F1_of_wf (FCons t0 r0) ltac:(congruence) Hf a data 0 Hend Hv) as (e0 & vs0 & He0 & Hemin & _).
  rewrite He in He0. injection He0 as <-.
  replace e with (e - 0) in Hag by lia.
  destruct (IHf ltac:(congruence) Hf a data data' 0 e Hend Hv He Hag) as (Hv' & He' & vs & vs' & Hvs & Hvs' & Hstrips).
  replace (e - 0) with e in Hag by lia. pose proof Hag as (_ & Hb' & _).
  assert (Echk' : negb s && (blen data' <? data_min_size (FCons t0 r0)) = false).
  { destruct s; cbn [negb andb]; auto. apply N.ltb_ge. unfold data_min_size. rewrite fold_min_size_0 by congruence. lia. }
  rewrite Echk'. repeat split; auto.
  - apply (fold_size_iter_eq (FCons t0 r0) data' 0 0 e); [congruence|symmetry; apply ceil_mul_0|exact He'].
  - exists vs, vs'. auto.
Qed.

Lemma variants_part2_cons fs r : (fs <> FNil -> wfF fs -> F2 fs) -> V2 r -> V2 (VCons fs r).
Proof.
  intros IHf IHr s k a data data' e Hw Hk Hs Hv He Hag. destruct k as [|k'].
  - eapply variants_part2_here; eauto.
  - apply wf_variants_cons in Hw. destruct Hw as [Hf Hr].
    cbn [validate_variant size_variant view_variant] in *.
    apply (IHr s k' a data data' e); auto.
    + cbn [vlen] in Hk. lia.
    + intros Hst. specialize (Hs Hst). cbn [max_fold_size] in Hs.
      pose proof (umax_ge_r (fold_size 0 fs) (max_fold_size r)). lia.
Qed.

(* ---------- structs ---------- *)

Lemma struct_part2 s fs : (fs <> FNil -> wfF fs -> F2 fs) -> wf (TStruct s fs) = true -> T2 (TStruct s fs).
Proof.
  intros IH Hw a bs bs' k Hm Hv Hk Hag.
  destruct fs as [|t0 r0].
  { destruct s; [|discriminate Hw]. split; [reflexivity|]. split; [exact Hk|].
    exists (VNode 0 []), (VNode 0 []). auto. }
  destruct (wf_struct_wfF _ _ Hw) as [Hnil|Hf]; [discriminate Hnil|].
  pose proof (align_fields_P16 (FCons t0 r0) (or_intror Hf)) as Hp. pose proof (P16_pos _ Hp) as Hpos.
  destruct (T1_size _ a bs k Hw Hm Hv Hk) as (Hkb & Hkmod & Hkmin). cbn [align] in Hkmod.
  pose proof (struct_end_min s t0 r0 bs Hw Hm) as Hend.
  cbn [validate_u] in Hv. pose proof Hag as (_ & Hkb' & _).
  destruct (F1_of_wf (FCons t0 r0) ltac:(congruence) Hf a _ 0 Hend Hv) as (e & vs0 & He & Hemin & Hemax & _).
  destruct s.
  - (* sized: the field walk ends at the static end, inside SIZE *)
    cbn [size_m] in Hk. injection Hk as <-.
    assert (Hek : e <= ssize (TStruct true (FCons t0 r0))).
    { cbn [wf] in Hw. rewrite (size_last_sized _ Hw bs 0 e ltac:(congruence) He).
      rewrite <- fold_min_size_0 by congruence. rewrite fold_min_size_sized by auto.
      cbn [ssize]. apply ceil_mul_ge; auto. }
    assert (Hage : agree (e - 0) bs bs') by (apply agree_le with (n := ssize (TStruct true (FCons t0 r0))); [exact Hag|lia]).
    destruct (IH ltac:(congruence) Hf a bs bs' 0 e Hend Hv He Hage) as (Hv' & _ & vs & vs' & Hvs & Hvs' & Hstrips).
    split; [exact Hv'|]. split; [reflexivity|].
    exists (VNode 0 vs), (VNode 0 vs'). cbn [view]. rewrite Hvs, Hvs'. cbn [bind strip]. rewrite Hstrips. auto.
  - (* unsized: the floored data of both slices covers the first k bytes *)
    cbn [size_m] in Hk. rewrite He in Hk. cbn [bind] in Hk. injection Hk as Hk.
    assert (Hk2 : k = ceil_mul e (align_fields (FCons t0 r0))) by (symmetry; exact Hk).
    pose proof (ceil_mul_ge e _ Hpos) as Hek. rewrite <- Hk2 in Hek.
    assert (Hagd : agree k (take (floor_mul (blen bs) (align_fields (FCons t0 r0))) bs)
                           (take (floor_mul (blen bs') (align_fields (FCons t0 r0))) bs')).
    { apply agree_take_r; [apply agree_take_l; [exact Hag|]|]; apply floor_mul_ge_mult; auto. }
    assert (Hage : agree (e - 0) (take (floor_mul (blen bs) (align_fields (FCons t0 r0))) bs)
                                 (take (floor_mul (blen bs') (align_fields (FCons t0 r0))) bs'))
      by (apply agree_le with (n := k); [exact Hagd|lia]).
    destruct (IH ltac:(congruence) Hf a _ _ 0 e Hend Hv He Hage) as (Hv' & He' & vs & vs' & Hvs & Hvs' & Hstrips).
    split; [exact Hv'|]. split.
    + cbn [size_m]. rewrite He'. cbn [bind]. f_equal. exact Hk.
    + exists (VNode 0 vs), (VNode 0 vs'). cbn [view]. rewrite Hvs, Hvs'. cbn [bind strip]. rewrite Hstrips. auto.
Qed.

(* ---------- enums ---------- *)

Lemma V1_all vs : V1 vs.
Proof. apply (proj2 (proj2 valid_size_view_mut)). Qed.

Lemma size_enum_inv tag dflt vs bs v k : read_int tag bs = Ok v -> data_offset tag vs <= blen bs ->
  size_m (TEnum false tag dflt vs) bs = Ok k ->
  exists e, size_variant vs (N.to_nat v) (enum_data false tag vs bs) = Ok e /\
            k = ceil_mul (data_offset tag vs + e) (umax (ialign tag) (align_variants vs)).
Proof.
  intros Hr Hd Hk. cbn [size_m] in Hk. rewrite Hr in Hk. cbn [bind] in Hk.
  rewrite (drop_unchecked_ok _ _ Hd) in Hk. cbn [bind] in Hk.
  apply bind_ok_inv in Hk. destruct Hk as (e & He & Hk). injection Hk as <-. exists e. split; auto.
Qed.

Lemma enum_part2 s tag dflt vs : V2 vs -> wf (TEnum s tag dflt vs) = true -> T2 (TEnum s tag dflt vs).
Proof.
  intros IH Hw a bs bs' k Hm Hv Hk Hag.
  pose proof (enum_consts _ _ _ _ Hw) as (Hal & Hdo & Hdmod).
  destruct (T1_size _ a bs k Hw Hm Hv Hk) as (Hkb & Hkmod & Hkmin). cbn [align] in Hkmod.
  destruct (enum_data_room _ _ _ _ bs Hw Hm) as [Hd Hroom].
  destruct (enum_valid_inv _ _ _ _ _ _ Hv) as (v & Hr & Hlt & _ & Hvv).
  pose proof Hag as (_ & Hkb' & _).
  pose proof Hw as Hw0. apply wf_enum_inv in Hw. destruct Hw as (Hi & Hnat & Hv1 & Hv2 & Hdf & Hwv).
  assert (Hvlt : N.of_nat (N.to_nat v) < vlen vs) by (rewrite N2Nat.id; exact Hlt).
  destruct (V1_all vs s (N.to_nat v) _ _ Hwv Hvlt Hroom Hvv) as (e & fvs0 & He & Hemin & Hemax & _).
  assert (Hdk : data_offset tag vs + e <= k /\ (s = false -> k = ceil_mul (data_offset tag vs + e) (umax (ialign tag) (align_variants vs)))).
  { destruct s.
    - cbn [size_m] in Hk. injection Hk as <-. split; [|discriminate].
      pose proof (size_variant_sized vs Hwv _ _ _ He).
      cbn [ssize]. fold (data_offset tag vs).
      pose proof (ceil_mul_ge (data_offset tag vs + max_fold_size vs) _ Hal). lia.
    - destruct (size_enum_inv tag dflt vs bs v k Hr Hd Hk) as (e0 & He0 & Hk0).
      rewrite He in He0. injection He0 as <-. split; [|auto].
      pose proof (ceil_mul_ge (data_offset tag vs + e) _ Hal). lia. }
  destruct Hdk as [Hdk Hkeq].
  assert (Hr' : read_int tag bs' = Ok v) by (rewrite (agree_read_int tag k bs bs' Hag) by lia; exact Hr).
  assert (Hd' : data_offset tag vs <= blen bs') by lia.
  assert (Hagd : agree e (enum_data s tag vs bs) (enum_data s tag vs bs')).
  { pose proof (agree_drop k (data_offset tag vs) bs bs' Hag ltac:(lia)) as Hag0.
    unfold enum_data. cbv zeta. destruct s; [apply agree_le with (n := k - data_offset tag vs); [exact Hag0|lia]|].
    apply agree_le with (n := k - data_offset tag vs); [|lia].
    pose proof Hag0 as (Hb0 & Hb0' & _).
    apply agree_take_r; [apply agree_take_l; [exact Hag0|]|]; apply floor_mul_ge_mult; auto; apply mod_sub_mult; auto. }
  destruct (IH s (N.to_nat v) _ _ _ e Hwv Hvlt Hroom Hvv He Hagd) as (Hvv' & He' & fvs & fvs' & Hfvs & Hfvs' & Hstrips).
  split; [|split].
  - apply (enum_valid_intro s tag dflt vs a bs' v); auto.
  - destruct s.
    + cbn [size_m] in *. exact Hk.
    + rewrite (size_enum_eval tag dflt vs bs' v e Hr' Hd' He'). rewrite (Hkeq eq_refl). reflexivity.
  - exists (VNode v fvs), (VNode v fvs'). split; [|split].
    + apply (view_enum_eval s tag dflt vs bs v fvs); auto.
    + apply (view_enum_eval s tag dflt vs bs' v fvs'); auto.
    + cbn [strip]. rewrite Hstrips. reflexivity.
Qed.

(* ---------- PART 2: the main induction ---------- *)

Theorem valid_local_mut :
  (forall t, wf t = true -> T2 t) /\
  (forall fs, fs <> FNil -> wfF fs -> F2 fs) /\
  (forall vs, V2 vs).
Proof.
  apply ty_mutind.
  - (* TUnit *) intros _. apply unit_part2.
  - (* TInt *) intros i _. apply int_part2.
  - (* TBool *) intros _. apply bool_part2.
  - (* TCLike *) intros tag n d _. apply clike_part2.
  - (* TArr *) intros t _ n Hw. apply arr_part2; auto.
  - (* TVec *) intros t _ l Hw. apply vec_part2; auto.
  - (* TStr *) intros l Hw. apply str_part2; auto.
  - (* TFlex *) intros t IH l Hw. apply flex_part2; auto. apply IH. apply wf_flex_inv in Hw. tauto.
  - (* TStruct *) intros s fs IH Hw. apply struct_part2; auto.
  - (* TEnum *) intros s tag d vs IH Hw. apply enum_part2; auto.
  - (* FNil *) intros H. congruence.
  - (* FCons *) intros t IHt r IHr _ Hw. apply wfF_cons in Hw. destruct Hw as [Hwt Hr].
    destruct r as [|t' r'].
    + apply fields_part2_single. auto.
    + destruct Hr as [Hr|[Hst Hr]]; [discriminate|].
      pose proof (wfF_cons _ _ Hr) as [Hwt' _].
      apply fields_part2_cons2; auto. apply IHr; [congruence|auto].
  - (* VNil *) intros s k a data data' e _ Hk. cbn in Hk. lia.
  - (* VCons *) intros fs IHf r IHr. apply variants_part2_cons; auto.
Qed.

(* the statement for types with the agreement spelled out *)
Corollary valid_local_u t a bs bs' k : wf t = true -> min_size t <= blen bs ->
  validate_u t a bs = Ok tt -> size_m t bs = Ok k -> k <= blen bs' -> take k bs' = take k bs ->
  validate_u t a bs' = Ok tt /\ size_m t bs' = Ok k /\
  exists v v', view t bs = Ok v /\ view t bs' = Ok v' /\ strip v' = strip v.
Proof.
  intros Hw Hm Hv Hk Hb' Htk. apply (proj1 valid_local_mut t Hw a bs bs' k Hm Hv Hk).
  apply agree_of_take; auto.
Qed.

(* a slice that agrees with a valid one on the first size() bytes is valid, has the same size
   and the same content *)
Theorem valid_local t a bs bs' k : wf t = true ->
  validate t a bs = Ok tt -> size_m t bs = Ok k -> k <= blen bs' -> take k bs' = take k bs ->
  validate t a bs' = Ok tt /\ size_m t bs' = Ok k /\
  exists v v', view t bs = Ok v /\ view t bs' = Ok v' /\ strip v' = strip v.
Proof.
  intros Hw H Hk Hb' Htk. unfold validate in *. apply bind_ok_inv in H. destruct H as ([] & Hc & Hv).
  pose proof (check_align_min_ok _ _ _ Hc) as Hm.
  destruct (T1_size t a bs k Hw Hm Hv Hk) as (_ & _ & Hkmin).
  destruct (proj1 valid_local_mut t Hw a bs bs' k Hm Hv Hk (agree_of_take _ _ _ Hb' Htk)) as (Hv' & Hk' & Hviews).
  rewrite (check_align_min_resize t a bs bs' Hc ltac:(lia)). cbn [bind]. auto.
Qed.

(* ---------- corollaries for validate ---------- *)

Lemma validate_inv t a bs : validate t a bs = Ok tt ->
  check_align_min t a bs = Ok tt /\ min_size t <= blen bs /\ validate_u t a bs = Ok tt.
Proof.
  unfold validate. intros H. apply bind_ok_inv in H. destruct H as ([] & Hc & Hv).
  repeat split; auto. eapply check_align_min_ok; eauto.
Qed.

(* the first n >= size() bytes of a valid slice are a valid slice with the same size and content *)
Theorem size_sufficient t a bs k n : wf t = true ->
  validate t a bs = Ok tt -> size_m t bs = Ok k -> k <= n ->
  validate t a (take n bs) = Ok tt /\ size_m t (take n bs) = Ok k /\
  exists v v', view t bs = Ok v /\ view t (take n bs) = Ok v' /\ strip v' = strip v.
Proof.
  intros Hw H Hk Hn. destruct (validate_inv _ _ _ H) as (_ & Hm & Hv).
  destruct (T1_size t a bs k Hw Hm Hv Hk) as (Hkb & _ & _).
  apply (valid_local t a bs (take n bs) k Hw H Hk).
  - rewrite blen_take. lia.
  - apply take_take. exact Hn.
Qed.

(* bytes that follow a valid slice change neither its size nor its content *)
Theorem extension_same t a bs : wf t = true -> validate t a bs = Ok tt -> forall s,
  size_m t (bs ++ s) = size_m t bs /\
  exists v v', view t bs = Ok v /\ view t (bs ++ s) = Ok v' /\ strip v' = strip v.
Proof.
  intros Hw H s. destruct (valid_size_view t a bs Hw H) as (k & v0 & Hk & Hkb & _).
  destruct (valid_local t a bs (bs ++ s) k Hw H Hk) as (_ & Hk' & Hviews).
  - rewrite blen_app. lia.
  - apply take_app_le. exact Hkb.
  - rewrite Hk, Hk'. auto.
Qed.

(* a message that fills its slice exactly: every proper prefix is reported as too short *)
Theorem prefix_strict t a m : wf t = true -> narrow_ty t = true -> bytes_ok m = true ->
  validate t a m = Ok tt -> size_m t m = Ok (blen m) ->
  forall n, n < blen m -> exists p, validate t a (take n m) = Err InsufficientSize p.
Proof.
  intros Hw Hn Hb H Hk n Hlt.
  destruct (validate_prefix t a m n Hw Hn Hb) as [Hp|Hp]; [exact Hp|]. exfalso.
  rewrite H in Hp. destruct (valid_size_view t a (take n m) Hw Hp) as (k' & v0 & Hk' & Hkb' & _).
  rewrite blen_take in Hkb'.
  destruct (valid_local t a (take n m) m k' Hw Hp Hk') as (_ & Hk2 & _).
  - lia.
  - symmetry. apply take_take. lia.
  - rewrite Hk in Hk2. injection Hk2 as Hk2. lia.
Qed.

(* ---------- as_bytes() of the mapped reference covers the value ---------- *)

Lemma bytes_len_sized t n : sized t = true -> bytes_len t n = Ok (ssize t).
Proof.
  destruct t as [| i | | tag n0 d | t0 n0 | t0 l | l | t0 l | s fs | s tag d vs]; cbn [sized]; intros H;
    try discriminate; try reflexivity; subst; reflexivity.
Qed.

Definition TB (t : ty) : Prop := forall a bs k,
  min_size t <= blen bs -> validate_u t a bs = Ok tt -> size_m t bs = Ok k ->
  exists n, bytes_len t (blen bs) = Ok n /\ n <= blen bs /\ k <= n.

Definition FB (fs : fields) : Prop := forall a data pos e acc,
  end_min fs pos <= pos + blen data -> validate_fields fs a data pos = Ok tt ->
  size_last fs data pos = Ok e -> pos = ceil_mul acc (head_align fs) ->
  exists m, last_field_offset_from acc fs <= pos + blen data /\
            bytes_len_last fs (pos + blen data - last_field_offset_from acc fs) = Ok m /\
            last_field_offset_from acc fs + m <= pos + blen data /\ e <= last_field_offset_from acc fs + m.

Lemma sized_TB t : sized t = true -> TB t.
Proof.
  intros Hs a bs k Hm _ Hk. rewrite (size_m_sized _ _ Hs) in Hk. injection Hk as <-.
  rewrite (bytes_len_sized _ _ Hs). rewrite (min_size_sized _ Hs) in Hm. exists (ssize t). repeat split; auto; lia.
Qed.

Lemma vec_TB t l : wf (TVec t l) = true -> TB (TVec t l).
Proof.
  intros Hw a bs k Hm Hv Hk. pose proof (vec_consts t l Hw) as (HA & _ & _ & _).
  destruct (vec_valid_inv _ _ _ _ Hv) as (slots & len & m & Hsl & Hrl & _ & Hls & _ & Hdb & _).
  pose proof (vec_slots_room _ _ _ _ Hsl) as Hroom.
  cbn [size_m] in Hk. rewrite Hrl in Hk. cbn [bind] in Hk. injection Hk as Hk.
  exists (ceil_mul (vec_data_offset t l + ssize t * slots) (align (TVec t l))). repeat split.
  - cbn [bytes_len]. rewrite Hsl. cbn [bind]. rewrite (N.mul_comm slots). reflexivity.
  - apply vec_size_le; auto.
  - assert (Hk2 : k = ceil_mul (vec_data_offset t l + ssize t * len) (align (TVec t l))) by (symmetry; exact Hk).
    rewrite Hk2. apply ceil_mul_mono; auto.
    assert (ssize t * len <= ssize t * slots) by (apply N.mul_le_mono_l; lia). lia.
Qed.

Lemma str_TB l : wf (TStr l) = true -> TB (TStr l).
Proof.
  intros Hw a bs k Hm Hv Hk. cbn [wf] in Hw. pose proof (wf_int_ialign_le _ Hw) as (_ & _ & HA).
  pose proof (wf_int_size_mod_align _ Hw) as Hmod.
  destruct (str_valid_inv _ _ _ Hv) as (len & m & Hrl & _ & Hd & Hls & _ & _ & _).
  cbn [size_m] in Hk. rewrite Hrl in Hk. cbn [bind] in Hk. injection Hk as <-.
  pose proof (floor_mul_le (blen bs - isize l) _ HA). pose proof (floor_mul_mod (blen bs - isize l) _ HA).
  exists (isize l + floor_mul (blen bs - isize l) (ialign l)). repeat split.
  - cbn [bytes_len]. rewrite (str_slots_ok l _ Hd). reflexivity.
  - lia.
  - apply ceil_mul_le_mult; auto; [lia|]. apply mod_add_mult; auto.
Qed.

Lemma flex_TB t l : wf (TFlex t l) = true -> TB (TFlex t l).
Proof.
  intros Hw a bs k Hm Hv Hk. pose proof (flex_consts t l Hw) as (Hal & _).
  destruct (T1_size _ a bs k Hw Hm Hv Hk) as (Hkb & Hkmod & _).
  exists (floor_mul (blen bs) (align (TFlex t l))). repeat split.
  - apply floor_mul_le; auto.
  - apply floor_mul_ge_mult; auto.
Qed.

Lemma enum_TB tag dflt vs : wf (TEnum false tag dflt vs) = true -> TB (TEnum false tag dflt vs).
Proof.
  intros Hw a bs k Hm Hv Hk. pose proof (enum_consts _ _ _ _ Hw) as (Hal & Hdo & Hdmod).
  destruct (T1_size _ a bs k Hw Hm Hv Hk) as (Hkb & Hkmod & _). cbn [align] in Hkmod.
  destruct (enum_data_room _ _ _ _ bs Hw Hm) as [Hd _].
  pose proof (floor_mul_le (blen bs - data_offset tag vs) _ Hal).
  exists (data_offset tag vs + floor_mul (blen bs - data_offset tag vs) (umax (ialign tag) (align_variants vs))).
  repeat split.
  - cbn [bytes_len]. destruct (N.ltb_spec (blen bs) (data_offset tag vs)); [lia|]. reflexivity.
  - lia.
  - destruct (enum_valid_inv _ _ _ _ _ _ Hv) as (v & Hr & _).
    destruct (size_enum_inv tag dflt vs bs v k Hr Hd Hk) as (e & _ & Hke).
    assert (k - data_offset tag vs <= floor_mul (blen bs - data_offset tag vs) (umax (ialign tag) (align_variants vs))).
    { apply floor_mul_ge_mult; auto; [lia|]. apply mod_sub_mult; auto. }
    pose proof (ceil_mul_ge (data_offset tag vs + e) _ Hal). lia.
Qed.

Lemma last_field_offset_cons2 acc t t' r :
  last_field_offset_from acc (FCons t (FCons t' r)) = last_field_offset_from (ceil_mul acc (align t) + ssize t) (FCons t' r).
Proof. reflexivity. Qed.
Lemma bytes_len_last_cons2 t t' r n : bytes_len_last (FCons t (FCons t' r)) n = bytes_len_last (FCons t' r) n.
Proof. reflexivity. Qed.

Lemma fields_TB_single t : TB t -> FB (FCons t FNil).
Proof.
  intros IH a data pos e acc He Hv Hs Hpos. rewrite validate_fields_single in Hv. cbn [end_min] in He.
  apply bind_ok_inv in Hv. destruct Hv as ([] & Hv & _). apply shift_ok_inv in Hv.
  rewrite size_last_single in Hs. apply bind_ok_inv in Hs. destruct Hs as (k & Hk & Hs). injection Hs as <-.
  destruct (IH a data k ltac:(lia) Hv Hk) as (n & Hn & Hnb & Hkn).
  cbn [head_align] in Hpos. cbn [last_field_offset_from bytes_len_last]. rewrite <- Hpos.
  replace (pos + blen data - pos) with (blen data) by lia. exists n. repeat split; auto; lia.
Qed.

Lemma fields_TB_cons2 t t' r : wf t = true -> wf t' = true -> sized t = true -> wfF (FCons t' r) ->
  FB (FCons t' r) -> FB (FCons t (FCons t' r)).
Proof.
  intros Hwt Hwt' Hst Hr IHr a data pos e acc He Hv Hs Hpos.
  rewrite validate_fields_cons2 in Hv. rewrite end_min_cons2 in He.
  pose proof (end_min_ge _ Hr (pos_next pos t t')) as Hge.
  assert (Hnp : pos + ssize t <= pos_next pos t t') by (unfold pos_next; apply ceil_mul_ge, align_pos; auto).
  apply bind_ok_inv in Hv. destruct Hv as ([] & Hv & Hrest). cbv zeta in Hrest.
  apply bind_ok_inv in Hrest. destruct Hrest as (sp & Hsp & Hrest).
  apply split_at_inv in Hsp. destruct Hsp as [Hsple ->]. cbn [snd] in Hrest.
  rewrite size_last_cons2 in Hs. rewrite (drop_unchecked_ok _ _ Hsple) in Hs. cbn [bind] in Hs.
  assert (Hend' : end_min (FCons t' r) (pos_next pos t t')
                  <= pos_next pos t t' + blen (drop (pos_next pos t t' - pos) data)) by (rewrite blen_drop; lia).
  cbn [head_align] in Hpos.
  assert (Hpos' : pos_next pos t t' = ceil_mul (ceil_mul acc (align t) + ssize t) (head_align (FCons t' r))).
  { cbn [head_align]. unfold pos_next. rewrite Hpos. reflexivity. }
  destruct (IHr _ _ _ e _ Hend' Hrest Hs Hpos') as (m & H1 & H2 & H3 & H4).
  rewrite blen_drop in *.
  replace (pos_next pos t t' + (blen data - (pos_next pos t t' - pos))) with (pos + blen data) in * by lia.
  rewrite last_field_offset_cons2, bytes_len_last_cons2. exists m. auto.
Qed.

Theorem size_le_bytes_len_mut :
  (forall t, wf t = true -> TB t) /\
  (forall fs, fs <> FNil -> wfF fs -> FB fs) /\
  (forall vs : variants, True).
Proof.
  apply ty_mutind.
  - intros _. apply sized_TB. reflexivity.
  - intros i _. apply sized_TB. reflexivity.
  - intros _. apply sized_TB. reflexivity.
  - intros tag n d _. apply sized_TB. reflexivity.
  - intros t _ n _. apply sized_TB. reflexivity.
  - intros t _ l Hw. apply vec_TB; auto.
  - intros l Hw. apply str_TB; auto.
  - intros t _ l Hw. apply flex_TB; auto.
  - (* TStruct *) intros s fs IH Hw. destruct s; [apply sized_TB; reflexivity|].
    intros a bs k Hm Hv Hk.
    destruct fs as [|t0 r0]; [discriminate Hw|].
    destruct (wf_struct_wfF _ _ Hw) as [Hnil|Hf]; [discriminate Hnil|].
    pose proof (align_fields_P16 (FCons t0 r0) (or_intror Hf)) as Hp. pose proof (P16_pos _ Hp) as Hpos.
    pose proof (struct_end_min false t0 r0 bs Hw Hm) as Hend.
    cbn [validate_u] in Hv. cbn [size_m] in Hk. apply bind_ok_inv in Hk. destruct Hk as (e & He & Hk). injection Hk as Hk.
    destruct (IH ltac:(congruence) Hf a _ 0 e 0 Hend Hv He) as (m & H1 & H2 & H3 & H4).
    { symmetry. apply ceil_mul_0. }
    rewrite N.add_0_l in *. rewrite blen_take_le in * by (apply floor_mul_le; auto).
    pose proof (floor_mul_le (blen bs) _ Hpos) as Hfl. pose proof (floor_mul_mod (blen bs) _ Hpos) as Hfm.
    fold (last_field_offset (FCons t0 r0)) in *.
    exists (ceil_mul (last_field_offset (FCons t0 r0) + m) (align_fields (FCons t0 r0))). repeat split.
    + cbn [bytes_len].
      destruct (N.ltb_spec (floor_mul (blen bs) (align_fields (FCons t0 r0))) (last_field_offset (FCons t0 r0))); [lia|].
      rewrite H2. reflexivity.
    + pose proof (ceil_mul_le_mult _ _ _ Hpos H3 Hfm). lia.
    + assert (Hk2 : k = ceil_mul e (align_fields (FCons t0 r0))) by (symmetry; exact Hk).
      rewrite Hk2. apply ceil_mul_mono; auto.
  - (* TEnum *) intros s tag d vs _ Hw. destruct s; [apply sized_TB; reflexivity|]. apply enum_TB; auto.
  - intros H. congruence.
  - (* FCons *) intros t IHt r IHr _ Hw. apply wfF_cons in Hw. destruct Hw as [Hwt Hr].
    destruct r as [|t' r'].
    + apply fields_TB_single. auto.
    + destruct Hr as [Hr|[Hst Hr]]; [discriminate|].
      pose proof (wfF_cons _ _ Hr) as [Hwt' _].
      apply fields_TB_cons2; auto. apply IHr; [congruence|auto].
  - exact I.
  - intros; exact I.
Qed.

(* as_bytes() of the reference mapped from a valid slice: its length is defined, lies between
   size() and the slice length, and those bytes alone are a valid slice with the same content *)
Theorem as_bytes_roundtrip t a bs : wf t = true -> validate t a bs = Ok tt ->
  exists n k, bytes_len t (blen bs) = Ok n /\ size_m t bs = Ok k /\ n <= blen bs /\ k <= n /\
    validate t a (take n bs) = Ok tt /\ size_m t (take n bs) = Ok k /\
    exists v v', view t bs = Ok v /\ view t (take n bs) = Ok v' /\ strip v' = strip v.
Proof.
  intros Hw H. destruct (validate_inv _ _ _ H) as (_ & Hm & Hv).
  destruct (valid_size_view t a bs Hw H) as (k & v0 & Hk & _).
  destruct (proj1 size_le_bytes_len_mut t Hw a bs k Hm Hv Hk) as (n & Hn & Hnb & Hkn).
  destruct (size_sufficient t a bs k n Hw H Hk Hkn) as (Hv' & Hk' & Hviews).
  exists n, k. repeat split; auto.
Qed.
