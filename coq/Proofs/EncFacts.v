(* EncFacts.v — the image ptr.write stores for a sized value (C03 for sized types): written over any
   previous buffer contents with any padding policy it validates, reads back exactly the specified
   content, and nothing behind the value changes. *)
From Coq Require Import List NArith Bool Lia ZArith ZifyN ZifyBool ZifyNat.
From Flatty.Model Require Import Base Ty Layout Utf8 Validate View Emplace Portable.
From Flatty.Proofs Require Import ArithFacts LayoutFacts BytesFacts ValidateFacts PortableFacts
  OpsFacts EmplaceFacts EmplaceSpec PortableTyFacts.
Open Scope N_scope.

(* ---------- 1. overlay algebra ---------- *)

Lemma overlay_nil pv buf : overlay pv [] buf = buf.
Proof. reflexivity. Qed.

Lemma overlay_buf_nil pv m : overlay pv m [] = [].
Proof. destruct m as [|x m]; [reflexivity|]. destruct x; reflexivity. Qed.

Lemma overlay_app_nat pv m1 m2 : forall buf, (length m1 <= length buf)%nat ->
  overlay pv (m1 ++ m2) buf =
  overlay pv m1 (firstn (length m1) buf) ++ overlay pv m2 (skipn (length m1) buf).
Proof.
  induction m1 as [|x m1 IH]; intros buf H.
  - reflexivity.
  - destruct buf as [|b buf]; [cbn [length] in H; lia|].
    cbn [length] in H. cbn [length firstn skipn app].
    destruct x as [v|]; cbn [overlay app]; rewrite IH by lia; reflexivity.
Qed.

(* the image of a concatenation is the concatenation of the images on the two pieces of the buffer *)
Lemma overlay_app pv m1 m2 buf : mlen m1 <= blen buf ->
  overlay pv (m1 ++ m2) buf =
  overlay pv m1 (take (mlen m1) buf) ++ overlay pv m2 (drop (mlen m1) buf).
Proof.
  unfold mlen, blen, take, drop. intros H. rewrite Nat2N.id. apply overlay_app_nat. lia.
Qed.

(* bytes of the buffer behind the image are carried along *)
Lemma overlay_app_buf pv m : forall x y, mlen m <= blen x -> overlay pv m (x ++ y) = overlay pv m x ++ y.
Proof.
  induction m as [|o m IH]; intros x y H; [reflexivity|].
  destruct x as [|b x]; [unfold mlen, blen in H; cbn [length] in H; lia|].
  assert (H' : mlen m <= blen x) by (unfold mlen, blen in *; cbn [length] in H; lia).
  destruct o as [v|]; cbn [overlay app]; rewrite (IH x y H'); reflexivity.
Qed.

Lemma overlay_app_nest pv m1 m2 buf : mlen m1 <= blen buf ->
  overlay pv (m1 ++ m2) buf =
  overlay pv m1 (take (mlen m1) buf ++ overlay pv m2 (drop (mlen m1) buf)).
Proof.
  intros H. rewrite overlay_app by exact H. rewrite overlay_app_buf; [reflexivity|].
  rewrite blen_take_le by exact H. lia.
Qed.

Lemma drop_app_len n (a b : bytes) : blen a = n -> drop n (a ++ b) = b.
Proof. intros <-. apply drop_app_exact. Qed.
Lemma take_app_len n (a b : bytes) : blen a = n -> take n (a ++ b) = a.
Proof. intros <-. apply take_app_exact. Qed.

Lemma drop_overlay_app pv m1 m2 buf n : mlen m1 = n -> n <= blen buf ->
  drop n (overlay pv (m1 ++ m2) buf) = overlay pv m2 (drop n buf).
Proof.
  intros <- H. rewrite overlay_app by exact H. apply drop_app_len.
  rewrite overlay_blen. apply blen_take_le. exact H.
Qed.

Lemma take_overlay_app pv m1 m2 buf n : mlen m1 = n -> n <= blen buf ->
  take n (overlay pv (m1 ++ m2) buf) = overlay pv m1 (take n buf).
Proof.
  intros <- H. rewrite overlay_app by exact H. apply take_app_len.
  rewrite overlay_blen. apply blen_take_le. exact H.
Qed.

(* a prefix of the result is the image laid over the same prefix of the buffer *)
Lemma firstn_overlay pv m : forall n buf, firstn n (overlay pv m buf) = overlay pv m (firstn n buf).
Proof.
  induction m as [|o m IH]; intros n buf; [reflexivity|].
  destruct buf as [|b buf].
  - rewrite firstn_nil, !overlay_buf_nil. apply firstn_nil.
  - destruct n as [|n]; [cbn [firstn]; rewrite overlay_buf_nil; reflexivity|].
    destruct o as [v|]; cbn [overlay firstn]; rewrite IH; reflexivity.
Qed.

Lemma take_overlay pv m n buf : take n (overlay pv m buf) = overlay pv m (take n buf).
Proof. unfold take. apply firstn_overlay. Qed.

(* the part of the result covered by the image depends only on the covered part of the buffer *)
Lemma overlay_take_dep pv m buf1 buf2 : take (mlen m) buf1 = take (mlen m) buf2 ->
  take (mlen m) (overlay pv m buf1) = take (mlen m) (overlay pv m buf2).
Proof. intros H. rewrite !take_overlay, H. reflexivity. Qed.

Lemma drop_cons_len (b : N) (bs : bytes) x buf : drop (blen (b :: bs)) (x :: buf) = drop (blen bs) buf.
Proof. unfold drop, blen. rewrite !Nat2N.id. reflexivity. Qed.

(* specified bytes replace the buffer bytes *)
Lemma overlay_some_app pv bs m' : forall buf, blen bs <= blen buf ->
  overlay pv (map Some bs ++ m') buf = bs ++ overlay pv m' (drop (blen bs) buf).
Proof.
  induction bs as [|b bs IH]; intros buf H.
  - reflexivity.
  - destruct buf as [|x buf]; [rewrite blen_cons, blen_nil in H; lia|].
    rewrite !blen_cons in H. cbn [map app overlay]. rewrite IH by lia.
    rewrite drop_cons_len. reflexivity.
Qed.

Lemma overlay_some pv bs buf : blen bs <= blen buf ->
  overlay pv (map Some bs) buf = bs ++ drop (blen bs) buf.
Proof.
  intros H. rewrite <- (app_nil_r (map Some bs)). rewrite overlay_some_app by exact H. reflexivity.
Qed.

(* reading back the specified bytes *)
Lemma overlay_read_back pv bs m' buf : blen bs <= blen buf ->
  take (blen bs) (overlay pv (map Some bs ++ m') buf) = bs.
Proof. intros H. rewrite overlay_some_app by exact H. apply take_app_exact. Qed.

(* padding: the length is kept (overlay_blen); with the keep-old policy so is the content *)
Lemma overlay_pad_blen pv n buf : blen (overlay pv (repeat None n) buf) = blen buf.
Proof. apply overlay_blen. Qed.

Lemma overlay_pad_keep n : forall buf, overlay None (repeat None n) buf = buf.
Proof.
  induction n as [|n IH]; intros buf; [reflexivity|].
  destruct buf as [|b buf]; [reflexivity|]. cbn [repeat overlay]. rewrite IH. reflexivity.
Qed.

(* a specified byte of the image lands in the result whatever the buffer held *)
Lemma overlay_nth_some pv m : forall j buf x, nth_error m j = Some (Some x) -> (j < length buf)%nat ->
  nth_error (overlay pv m buf) j = Some x.
Proof.
  induction m as [|o m IH]; intros j buf x Hn Hj.
  - destruct j; discriminate.
  - destruct buf as [|b buf]; [cbn [length] in Hj; lia|]. cbn [length] in Hj.
    destruct j as [|j].
    + cbn [nth_error] in Hn. injection Hn as ->. reflexivity.
    + cbn [nth_error] in Hn. destruct o as [v|]; cbn [overlay nth_error]; apply IH; auto; lia.
Qed.

Theorem overlay_nonpad_independent pv m buf1 buf2 j x :
  blen buf1 = blen buf2 -> mlen m <= blen buf1 -> nth_error m j = Some (Some x) ->
  nth_error (overlay pv m buf1) j = nth_error (overlay pv m buf2) j.
Proof.
  intros Hb Hm Hn.
  assert (Hj : (j < length m)%nat) by (apply nth_error_Some; rewrite Hn; discriminate).
  unfold mlen, blen in *.
  rewrite (overlay_nth_some pv m j buf1 x Hn) by lia.
  rewrite (overlay_nth_some pv m j buf2 x Hn) by lia. reflexivity.
Qed.

(* ---------- pad_to, positions ---------- *)

Lemma pad_to_mlen n m : mlen m <= n -> mlen (pad_to n m) = n.
Proof. intros H. unfold pad_to. rewrite mlen_app, mlen_repeat_none. lia. Qed.

Lemma tb_len be n v : blen (to_bytes be n v) = n.
Proof. exact (enc_length be n v). Qed.

Lemma int_max_lt it n : n <= int_max it -> n < 256 ^ isize it.
Proof. unfold int_max. pose proof (pow256_pos (isize it)). lia. Qed.

(* the position of the head field when [p] bytes have been emitted *)
Definition fpos (fs : fields) (p : N) : N := ceil_mul p (head_align fs).

Lemma head_align_pos fs : wf_fields_sized fs = true -> 0 < head_align fs.
Proof.
  destruct fs as [|t r]; cbn [head_align wf_fields_sized]; [lia|].
  rewrite !andb_true_iff. intros [[Hw _] _]. apply align_pos. exact Hw.
Qed.

Lemma fpos_ge fs p : wf_fields_sized fs = true -> p <= fpos fs p.
Proof. intros H. unfold fpos. apply ceil_mul_ge. apply head_align_pos. exact H. Qed.

Lemma fpos_0 fs : fpos fs 0 = 0.
Proof. unfold fpos. apply ceil_mul_0. Qed.

Lemma fpos_nil p : fpos FNil p = p.
Proof. unfold fpos. cbn [head_align]. apply ceil_mul_1. Qed.

Lemma wf_fields_sized_cons t r :
  wf_fields_sized (FCons t r) = true -> wf t = true /\ sized t = true /\ wf_fields_sized r = true.
Proof. cbn [wf_fields_sized]. rewrite !andb_true_iff. tauto. Qed.

Lemma wf_variants_sized_cons fs r :
  wf_variants true (VCons fs r) = true -> wf_fields_sized fs = true /\ wf_variants true r = true.
Proof. cbn [wf_variants]. rewrite andb_true_iff. tauto. Qed.

Lemma view_fields_cons2 t t' r data pos :
  view_fields (FCons t (FCons t' r)) data pos =
  (do v <- view t data;
   let np := pos_next pos t t' in
   do sp <- split_at (np - pos) data;
   do rest <- view_fields (FCons t' r) (snd sp) np;
   Ok (v :: rest)).
Proof. reflexivity. Qed.

Lemma view_fields_single t data pos :
  view_fields (FCons t FNil) data pos = (do v <- view t data; Ok [v]).
Proof. reflexivity. Qed.

(* ---------- 2. the image validates and reads back the specified content ---------- *)

(* what is proved of the image [m] of the expression [i] at type [t] *)
Definition img_ok (t : ty) (i : init) (m : mbytes) : Prop :=
  mlen m = ssize t /\
  forall pv a buf, ssize t <= blen buf ->
    validate_u t a (overlay pv m buf) = Ok tt /\
    exists v, view t (overlay pv m buf) = Ok v /\ spec_value t i = Some (strip v).

(* fields: [m0] is the image emitted so far; the head field goes to fpos fs |m0|, which is the
   position the PosIter step computes; [e] is what the fields add from that position on *)
Definition fields_ok (fs : fields) : Prop :=
  forall is m0 m, enc_fields fs is m0 = Some m ->
    exists e, m = pad_to (fpos fs (mlen m0)) m0 ++ e /\
      fpos fs (mlen m0) + mlen e = fold_size (mlen m0) fs /\
      forall pv a data, mlen e <= blen data ->
        validate_fields fs a (overlay pv e data) (fpos fs (mlen m0)) = Ok tt /\
        exists vs, view_fields fs (overlay pv e data) (fpos fs (mlen m0)) = Ok vs /\
                   spec_fields fs is = Some (map strip vs).

(* variants: [m0] is the tag padded to DATA_OFFSET; [e] is the payload image *)
Definition variants_ok (vs : variants) : Prop :=
  forall k is m0 m, enc_variant vs k is m0 = Some m ->
    exists e, m = m0 ++ e /\ mlen e <= max_fold_size vs /\ N.of_nat k < vlen vs /\
      forall pv a data, mlen e <= blen data ->
        validate_variant vs k true a (overlay pv e data) = Ok tt /\
        exists fvs, view_variant vs k (overlay pv e data) = Ok fvs /\
                    spec_variant vs k is = Some (map strip fvs).

(* arrays: the element images back to back; element i is visited at i * SIZE *)
Lemma arr_image t :
  (forall i e, enc_sized t i = Some e -> img_ok t i e) ->
  forall is m, concat_opt (map (enc_sized t) is) = Some m ->
    mlen m = N.of_nat (length is) * ssize t /\
    forall pv a0 bs rest i,
      drop (i * ssize t) bs = overlay pv m rest -> i * ssize t <= blen bs -> mlen m <= blen rest ->
      arr_loop (fun j el => validate_u t (a0 + j * ssize t) el) (ssize t) bs (length is) i = Ok tt /\
      exists vs, view_arr (fun _ el => view t el) (ssize t) bs (length is) i = Ok vs /\
                 opt_map_all (spec_value t) is = Some (map strip vs).
Proof.
  intros H. set (s := ssize t) in *. induction is as [|i0 r IH]; intros m Hm.
  - cbn [map concat_opt] in Hm. injection Hm as <-. split; [reflexivity|].
    intros pv a0 bs rest i _ _ _. split; [reflexivity|]. exists []. split; reflexivity.
  - cbn [map concat_opt] in Hm. destruct (enc_sized t i0) as [e|] eqn:Ee; [|discriminate].
    destruct (concat_opt (map (enc_sized t) r)) as [y|] eqn:Ey; [|discriminate].
    injection Hm as <-. destruct (H i0 e Ee) as [Hle He]. fold s in Hle, He.
    destruct (IH y eq_refl) as [Hly IHy].
    split; [rewrite mlen_app, Hle, Hly; cbn [length]; lia|].
    intros pv a0 bs rest i Hd Hi Hl. rewrite mlen_app, Hle in Hl.
    assert (Hbl : blen bs - i * s = blen rest).
    { rewrite <- blen_drop, Hd. apply overlay_blen. }
    cbn [length arr_loop view_arr]. unfold drop_unchecked, take_unchecked.
    destruct (N.leb_spec (i * s) (blen bs)); [|lia]. cbn [bind].
    rewrite Hd, overlay_blen. destruct (N.leb_spec s (blen rest)); [|lia]. cbn [bind].
    rewrite (take_overlay_app pv e y rest s Hle) by lia.
    assert (Hts : s <= blen (take s rest)) by (rewrite blen_take_le; lia).
    destruct (He pv (a0 + i * s) (take s rest) Hts) as (Hv & v & Hview & Hspec).
    rewrite Hv, Hview. cbn [shift bind].
    destruct (IHy pv a0 bs (drop s rest) (i + 1)) as (Hvr & vs & Hviewr & Hspecr).
    + replace ((i + 1) * s) with (i * s + s) by lia. rewrite <- drop_drop, Hd.
      apply drop_overlay_app; [exact Hle | lia].
    + lia.
    + rewrite blen_drop. lia.
    + rewrite Hvr, Hviewr. cbn [bind]. split; [reflexivity|]. exists (v :: vs). split; [reflexivity|].
      cbn [opt_map_all map]. rewrite Hspec, Hspecr. reflexivity.
Qed.

(* sized enum: tag, padding up to DATA_OFFSET, payload, padding up to SIZE *)
Lemma enum_go_ok tag d vs : wf (TEnum true tag d vs) = true -> variants_ok vs ->
  forall k is m, enc_enum_go tag d vs k is = Some m ->
    mlen m = ssize (TEnum true tag d vs) /\
    forall pv a buf, ssize (TEnum true tag d vs) <= blen buf ->
      validate_u (TEnum true tag d vs) a (overlay pv m buf) = Ok tt /\
      exists fvs, view (TEnum true tag d vs) (overlay pv m buf) = Ok (VNode k fvs) /\
                  spec_variant vs (N.to_nat k) is = Some (map strip fvs).
Proof.
  intros Hw Hvs k is m H.
  apply wf_enum_inv in Hw. destruct Hw as (Hi & Hnat & Hv1 & Hv2 & Hd & Hv).
  assert (Hal : 0 < umax (ialign tag) (align_variants vs)).
  { apply P16_pos, P16_umax; [apply wf_int_P16 in Hi; tauto | eapply align_variants_P16; eauto]. }
  pose proof (isize_le_data_offset tag vs Hal) as Hdo.
  assert (Hssz : ssize (TEnum true tag d vs) =
                 ceil_mul (data_offset tag vs + max_fold_size vs) (umax (ialign tag) (align_variants vs)))
    by reflexivity.
  pose proof (ceil_mul_ge (data_offset tag vs + max_fold_size vs) _ Hal) as Hge. rewrite <- Hssz in Hge.
  unfold enc_enum_go in H.
  set (ssz := ssize (TEnum true tag d vs)) in *. set (dof := data_offset tag vs) in *.
  clearbody ssz. clear Hssz.
  destruct (N.ltb_spec k (vlen vs)) as [Hk|Hk]; [|discriminate].
  set (tb := to_bytes (ibe tag) (isize tag) k) in *.
  assert (Htb : blen tb = isize tag) by apply tb_len.
  set (m0 := pad_to dof (map Some tb)) in *.
  assert (Hm0 : mlen m0 = dof) by (apply pad_to_mlen; rewrite mlen_map_some; lia).
  destruct (enc_variant vs (N.to_nat k) is m0) as [m1|] eqn:Ev; [|discriminate].
  injection H as <-.
  destruct (Hvs _ _ _ _ Ev) as (e & -> & Hle & _ & He).
  assert (Hlen : mlen (pad_to ssz (m0 ++ e)) = ssz) by (apply pad_to_mlen; rewrite mlen_app; lia).
  split; [exact Hlen|].
  intros pv a buf Hb.
  set (m2 := e ++ repeat None (N.to_nat (ssz - mlen (m0 ++ e)))).
  assert (Em : pad_to ssz (m0 ++ e) = m0 ++ m2) by (unfold pad_to, m2; rewrite <- app_assoc; reflexivity).
  rewrite Em. set (buf' := overlay pv (m0 ++ m2) buf).
  assert (Hbl : blen buf' = blen buf) by apply overlay_blen.
  (* the tag *)
  assert (Hread : read_int tag buf' = Ok k).
  { unfold buf', m0, pad_to. rewrite <- app_assoc. rewrite overlay_some_app by lia.
    apply read_int_written. apply int_max_lt. lia. }
  (* the payload *)
  assert (E1 : drop dof buf' = overlay pv m2 (drop dof buf)) by (apply drop_overlay_app; [exact Hm0 | lia]).
  assert (Hdl : mlen e <= blen (drop dof buf)) by (rewrite blen_drop; lia).
  assert (E2 : overlay pv m2 (drop dof buf) =
               overlay pv e (take (mlen e) (drop dof buf)
                             ++ overlay pv (repeat None (N.to_nat (ssz - mlen (m0 ++ e))))
                                        (drop (mlen e) (drop dof buf))))
    by (apply overlay_app_nest; exact Hdl).
  set (D := take (mlen e) (drop dof buf)
            ++ overlay pv (repeat None (N.to_nat (ssz - mlen (m0 ++ e)))) (drop (mlen e) (drop dof buf))) in *.
  assert (HD : mlen e <= blen D).
  { unfold D. rewrite blen_app, blen_take_le by exact Hdl. lia. }
  destruct (He pv (a + dof) D HD) as (Hvv & fvs & Hview & Hspec).
  split.
  - cbn [validate_u]. fold dof. rewrite Hread. cbn [bind].
    destruct (N.ltb_spec k (vlen vs)); [|lia]. cbn [negb].
    unfold drop_unchecked. rewrite Hbl. destruct (N.leb_spec dof (blen buf)); [|lia]. cbn [bind].
    rewrite E1, E2, Hvv. reflexivity.
  - exists fvs. split; [|exact Hspec].
    cbn [view]. fold dof. rewrite Hread. cbn [bind].
    unfold drop_unchecked. rewrite Hbl. destruct (N.leb_spec dof (blen buf)); [|lia]. cbn [bind].
    rewrite E1, E2, Hview. reflexivity.
Qed.

Lemma enc_sized_valid_core :
  (forall t, wf t = true -> sized t = true -> forall i m, enc_sized t i = Some m -> img_ok t i m) /\
  (forall fs, wf_fields_sized fs = true -> fields_ok fs) /\
  (forall vs, wf_variants true vs = true -> variants_ok vs).
Proof.
  apply ty_mutind.
  - (* TUnit *) intros _ _ i m H. cbn [enc_sized] in H. injection H as <-.
    split; [reflexivity|]. intros pv a buf _. split; [reflexivity|].
    exists (VNode 0 []). split; reflexivity.
  - (* TInt *) intros it _ _ i m H. cbn [enc_sized] in H.
    destruct i as [n|is0|k0 is0|is0|is0|s0|is0| |]; try discriminate.
    + destruct (N.leb_spec n (int_max it)) as [Hn|Hn]; [|discriminate]. injection H as <-.
      split; [apply mlen_scalar|]. cbn [ssize]. intros pv a buf Hb.
      rewrite overlay_some by (rewrite tb_len; exact Hb).
      split; [reflexivity|]. exists (VInt n). split.
      * cbn [view]. rewrite read_int_written by (apply int_max_lt; exact Hn). reflexivity.
      * cbn [spec_value strip]. destruct (N.leb_spec n (int_max it)); [reflexivity|lia].
    + injection H as <-. split; [apply mlen_scalar|]. cbn [ssize]. intros pv a buf Hb.
      rewrite overlay_some by (rewrite tb_len; exact Hb).
      split; [reflexivity|]. exists (VInt 0). split.
      * cbn [view]. rewrite read_int_written by apply pow256_pos. reflexivity.
      * reflexivity.
  - (* TBool *) intros _ _ i m H. cbn [enc_sized] in H.
    destruct i as [n|is0|k0 is0|is0|is0|s0|is0| |]; try discriminate.
    + destruct (N.leb_spec n 1) as [Hn|Hn]; [|discriminate]. injection H as <-.
      split; [reflexivity|]. cbn [ssize]. intros pv a buf Hb.
      destruct buf as [|b buf]; [rewrite blen_nil in Hb; lia|].
      cbn [overlay validate_u view]. destruct (N.leb_spec n 1); [|lia].
      split; [reflexivity|]. exists (VInt n). split; [reflexivity|].
      cbn [spec_value strip]. destruct (N.leb_spec n 1); [reflexivity|lia].
    + injection H as <-. split; [reflexivity|]. cbn [ssize]. intros pv a buf Hb.
      destruct buf as [|b buf]; [rewrite blen_nil in Hb; lia|].
      cbn [overlay validate_u view]. split; [reflexivity|]. exists (VInt 0). split; reflexivity.
  - (* TCLike *) intros tag n d Hw _ i m H. cbn [wf] in Hw. rewrite !andb_true_iff in Hw.
    destruct Hw as [[[[Hi Hnat] Hn1] Hn2] Hd]. rewrite N.leb_le in Hn1, Hn2. rewrite N.ltb_lt in Hd.
    assert (Hgo : forall k, k < n ->
              img_ok (TCLike tag n d) (IInt k) (map Some (to_bytes (ibe tag) (isize tag) k))).
    { intros k Hk. split; [apply mlen_scalar|]. cbn [ssize]. intros pv a buf Hb.
      rewrite overlay_some by (rewrite tb_len; exact Hb).
      assert (Hr : read_int tag (to_bytes (ibe tag) (isize tag) k
                                 ++ drop (blen (to_bytes (ibe tag) (isize tag) k)) buf) = Ok k)
        by (apply read_int_written, int_max_lt; lia).
      split.
      - cbn [validate_u]. rewrite Hr. cbn [bind]. destruct (N.ltb_spec k n); [reflexivity|lia].
      - exists (VInt k). split; [cbn [view]; rewrite Hr; reflexivity|].
        cbn [spec_value strip]. destruct (N.ltb_spec k n); [reflexivity|lia]. }
    cbn [enc_sized] in H.
    destruct i as [k|is0|k0 is0|is0|is0|s0|is0| |]; try discriminate.
    + destruct (N.ltb_spec k n) as [Hk|Hk]; [|discriminate]. injection H as <-. apply Hgo. exact Hk.
    + injection H as <-. destruct (Hgo d Hd) as [Hl Hb]. split; [exact Hl|].
      intros pv a buf Hbuf. destruct (Hb pv a buf Hbuf) as (Hv & v & Hview & Hspec).
      split; [exact Hv|]. exists v. split; [exact Hview|].
      cbn [spec_value] in Hspec |- *. destruct (N.ltb_spec d n); [exact Hspec|lia].
  - (* TArr *) intros t IH n Hw _ i m H. apply wf_arr_inv in Hw. destruct Hw as [Hwt Hst].
    cbn [enc_sized] in H. destruct (field_inits i n) as [is|] eqn:Ef; [|discriminate].
    pose proof (field_inits_length _ _ _ Ef) as Hlen.
    destruct (arr_image t (IH Hwt Hst) is m H) as [Hl Hloop].
    split; [cbn [ssize]; rewrite Hl, Hlen; reflexivity|].
    cbn [ssize]. intros pv a buf Hb.
    destruct (Hloop pv a (overlay pv m buf) buf 0) as (Hv & vs & Hview & Hspec).
    + rewrite N.mul_0_l. apply drop_0.
    + lia.
    + lia.
    + replace (length is) with (N.to_nat n) in Hv, Hview by lia. split.
      * cbn [validate_u]. exact Hv.
      * exists (VNode 0 vs). split; [cbn [view]; rewrite Hview; reflexivity|].
        cbn [spec_value strip]. rewrite Ef, Hspec. reflexivity.
  - (* TVec *) intros t _ l _ Hs. discriminate.
  - (* TStr *) intros l _ Hs. discriminate.
  - (* TFlex *) intros t _ l _ Hs. discriminate.
  - (* TStruct *) intros s fs IH Hw Hs i m H. cbn [sized] in Hs. subst s. cbn [wf] in Hw.
    rewrite enc_sized_struct in H.
    destruct (field_inits i (flen fs)) as [is|] eqn:Ef; [|discriminate].
    destruct (enc_fields fs is []) as [m1|] eqn:Ee; [|discriminate]. injection H as <-.
    destruct (IH Hw _ _ _ Ee) as (e & He & Hlen & Hf).
    change (mlen []) with 0 in *. rewrite fpos_0 in *.
    assert (He' : m1 = e) by (rewrite He; reflexivity). clear He. subst m1.
    assert (Hal : 0 < align_fields fs) by (apply P16_pos, align_fields_P16; right; left; exact Hw).
    assert (Hssz : ssize (TStruct true fs) = ceil_mul (fold_size 0 fs) (align_fields fs)) by reflexivity.
    pose proof (ceil_mul_ge (fold_size 0 fs) _ Hal) as Hge.
    unfold img_ok. rewrite Hssz. clear Hssz.
    set (ssz := ceil_mul (fold_size 0 fs) (align_fields fs)) in *. clearbody ssz.
    split; [apply pad_to_mlen; lia|].
    intros pv a buf Hb. unfold pad_to. rewrite overlay_app_nest by lia.
    set (D := take (mlen e) buf ++ overlay pv (repeat None (N.to_nat (ssz - mlen e))) (drop (mlen e) buf)).
    assert (HD : mlen e <= blen D) by (unfold D; rewrite blen_app, blen_take_le by lia; lia).
    destruct (Hf pv a D HD) as (Hv & vs & Hview & Hspec).
    split; [cbn [validate_u]; exact Hv|].
    exists (VNode 0 vs). split; [cbn [view]; rewrite Hview; reflexivity|].
    cbn [spec_value strip]. rewrite Ef, Hspec. reflexivity.
  - (* TEnum *) intros s tag d vs IH Hw Hs i m H. cbn [sized] in Hs. subst s.
    assert (Hvs : variants_ok vs) by (apply IH; apply wf_enum_inv in Hw; tauto).
    rewrite enc_sized_enum in H.
    destruct i as [n|is0|k0 is0|is0|is0|s0|is0| |]; try discriminate.
    + destruct (enum_go_ok tag d vs Hw Hvs _ _ _ H) as [Hl Hb]. split; [exact Hl|].
      intros pv a buf Hbuf. destruct (Hb pv a buf Hbuf) as (Hv & fvs & Hview & Hspec).
      split; [exact Hv|]. exists (VNode k0 fvs). split; [exact Hview|].
      cbn [spec_value strip]. rewrite Hspec. reflexivity.
    + destruct (enum_go_ok tag d vs Hw Hvs _ _ _ H) as [Hl Hb]. split; [exact Hl|].
      intros pv a buf Hbuf. destruct (Hb pv a buf Hbuf) as (Hv & fvs & Hview & Hspec).
      split; [exact Hv|]. exists (VNode d fvs). split; [exact Hview|].
      cbn [spec_value strip]. rewrite Hspec. reflexivity.
  - (* FNil *) intros _ is m0 m H. destruct is as [|i is']; cbn [enc_fields] in H; [|discriminate].
    injection H as <-. exists []. rewrite fpos_nil.
    split; [rewrite pad_to_exact by lia; rewrite app_nil_r; reflexivity|].
    split; [cbn [fold_size]; change (mlen []) with 0; lia|].
    intros pv a data _. split; [reflexivity|]. exists []. split; reflexivity.
  - (* FCons *) intros t IHt r IHr Hw is m0 m H.
    apply wf_fields_sized_cons in Hw. destruct Hw as (Hwt & Hst & Hr).
    destruct is as [|i is']; [cbn [enc_fields] in H; discriminate|].
    rewrite enc_fields_cons in H. destruct (enc_sized t i) as [et|] eqn:Ee; [|discriminate].
    destruct (IHt Hwt Hst i et Ee) as [Hlt Ht].
    unfold fpos at 1 2 3 4. cbn [head_align].
    set (pos := ceil_mul (mlen m0) (align t)) in *.
    assert (Hpos : mlen m0 <= pos) by (apply ceil_mul_ge, align_pos; exact Hwt).
    set (m1 := pad_to pos m0 ++ et) in *.
    assert (Hm1 : mlen m1 = pos + ssize t) by (unfold m1; rewrite mlen_app, pad_to_mlen by exact Hpos; lia).
    destruct (IHr Hr is' m1 m H) as (e' & Hm & Hlen' & Hr').
    pose proof (fpos_ge r (mlen m1) Hr) as Hpos'.
    set (pos' := fpos r (mlen m1)) in *.
    set (gap := repeat (@None N) (N.to_nat (pos' - mlen m1))).
    assert (Hgap : mlen gap = pos' - mlen m1) by (unfold gap; rewrite mlen_repeat_none; lia).
    exists (et ++ gap ++ e').
    split; [|split].
    + rewrite Hm. unfold pad_to at 1. fold gap. unfold m1. rewrite <- !app_assoc. reflexivity.
    + rewrite fold_size_cons. fold pos. rewrite <- Hm1, <- Hlen'. rewrite !mlen_app, Hgap. lia.
    + intros pv a data Hd. rewrite !mlen_app, Hgap in Hd.
      set (data' := overlay pv (et ++ gap ++ e') data).
      assert (E1 : data' = overlay pv et (take (mlen et) data
                                          ++ overlay pv (gap ++ e') (drop (mlen et) data)))
        by (apply overlay_app_nest; lia).
      set (buf2 := take (mlen et) data ++ overlay pv (gap ++ e') (drop (mlen et) data)) in *.
      assert (Hb2 : ssize t <= blen buf2).
      { unfold buf2. rewrite blen_app, blen_take_le by lia. lia. }
      destruct (Ht pv a buf2 Hb2) as (Hv & v & Hview & Hspec). rewrite <- E1 in Hv, Hview.
      assert (E2 : drop (pos' - pos) data' = overlay pv e' (drop (pos' - pos) data)).
      { unfold data'. rewrite (app_assoc et gap e'). apply drop_overlay_app; [|lia].
        rewrite mlen_app, Hgap. lia. }
      assert (Hdr : mlen e' <= blen (drop (pos' - pos) data)) by (rewrite blen_drop; lia).
      destruct (Hr' pv (a + (pos' - pos)) (drop (pos' - pos) data) Hdr) as (Hvr & vs & Hviewr & Hspecr).
      rewrite <- E2 in Hvr, Hviewr.
      assert (Hbl : blen data' = blen data) by apply overlay_blen.
      destruct r as [|t' r'].
      * rewrite validate_fields_single, view_fields_single, Hv, Hview. cbn [shift bind].
        split; [reflexivity|]. exists [v]. split; [reflexivity|].
        cbn [view_fields] in Hviewr. injection Hviewr as <-.
        cbn [spec_fields map] in Hspecr |- *. rewrite Hspec, Hspecr. reflexivity.
      * assert (Enp : pos_next pos t t' = pos').
        { unfold pos_next, pos', fpos. cbn [head_align]. rewrite Hm1. reflexivity. }
        rewrite validate_fields_cons2, view_fields_cons2, Hv, Hview. cbn [shift bind]. cbv zeta.
        rewrite Enp. unfold split_at. rewrite Hbl.
        destruct (N.leb_spec (pos' - pos) (blen data)); [|lia]. cbn [bind snd].
        rewrite Hvr, Hviewr. cbn [bind]. split; [reflexivity|]. exists (v :: vs). split; [reflexivity|].
        cbn [spec_fields map]. cbn [spec_fields] in Hspecr. rewrite Hspec, Hspecr. reflexivity.
  - (* VNil *) intros _ k is m0 m H. cbn [enc_variant] in H. discriminate.
  - (* VCons *) intros fs IHf r IHr Hw k is m0 m H.
    apply wf_variants_sized_cons in Hw. destruct Hw as [Hf Hr].
    cbn [enc_variant] in H. destruct k as [|k'].
    + destruct (field_inits (ISeq is) (flen fs)) as [is'|] eqn:Ef; [|discriminate].
      apply field_inits_seq in Ef. subst is'.
      destruct (enc_fields fs is []) as [e0|] eqn:Ee; [|discriminate]. injection H as <-.
      destruct (IHf Hf _ _ _ Ee) as (e & He & Hlen & Hfe).
      change (mlen []) with 0 in *. rewrite fpos_0 in *.
      assert (He' : e0 = e) by (rewrite He; reflexivity). clear He. subst e0.
      exists e. split; [reflexivity|]. split; [|split].
      * cbn [max_fold_size]. pose proof (umax_ge_l (fold_size 0 fs) (max_fold_size r)). lia.
      * cbn [vlen]. lia.
      * intros pv a data Hd. destruct (Hfe pv a data Hd) as (Hv & vs & Hview & Hspec).
        cbn [validate_variant view_variant spec_variant negb andb].
        split; [exact Hv|]. exists vs. split; [exact Hview | exact Hspec].
    + destruct (IHr Hr _ _ _ _ H) as (e & Hm & Hle & Hk & He).
      exists e. split; [exact Hm|]. split; [|split].
      * cbn [max_fold_size]. pose proof (umax_ge_r (fold_size 0 fs) (max_fold_size r)). lia.
      * cbn [vlen]. lia.
      * intros pv a data Hd. cbn [validate_variant view_variant spec_variant]. apply He. exact Hd.
Qed.

(* the same with the frame: the length is kept and nothing behind the image changes *)
Theorem enc_sized_valid_mut :
  (forall t, wf t = true -> sized t = true -> forall i m, enc_sized t i = Some m ->
     mlen m = ssize t /\
     forall pv a buf, ssize t <= blen buf ->
       let buf' := overlay pv m buf in
       validate_u t a buf' = Ok tt /\
       (exists v, view t buf' = Ok v /\ spec_value t i = Some (strip v)) /\
       blen buf' = blen buf /\ drop (ssize t) buf' = drop (ssize t) buf) /\
  (forall fs, wf_fields_sized fs = true -> forall is m0 m, enc_fields fs is m0 = Some m ->
     exists e, m = pad_to (fpos fs (mlen m0)) m0 ++ e /\
       fpos fs (mlen m0) + mlen e = fold_size (mlen m0) fs /\
       forall pv a data, mlen e <= blen data ->
         let data' := overlay pv e data in
         validate_fields fs a data' (fpos fs (mlen m0)) = Ok tt /\
         (exists vs, view_fields fs data' (fpos fs (mlen m0)) = Ok vs /\
                     spec_fields fs is = Some (map strip vs)) /\
         blen data' = blen data /\ drop (mlen e) data' = drop (mlen e) data) /\
  (forall vs, wf_variants true vs = true -> forall k is m0 m, enc_variant vs k is m0 = Some m ->
     exists e, m = m0 ++ e /\ mlen e <= max_fold_size vs /\ N.of_nat k < vlen vs /\
       forall pv a data, mlen e <= blen data ->
         let data' := overlay pv e data in
         validate_variant vs k true a data' = Ok tt /\
         (exists fvs, view_variant vs k data' = Ok fvs /\
                      spec_variant vs k is = Some (map strip fvs)) /\
         blen data' = blen data /\ drop (mlen e) data' = drop (mlen e) data).
Proof.
  destruct enc_sized_valid_core as (Ht & Hf & Hv). split; [|split].
  - intros t Hw Hs i m H. destruct (Ht t Hw Hs i m H) as [Hl Hb]. split; [exact Hl|].
    intros pv a buf Hbuf buf'. destruct (Hb pv a buf Hbuf) as [H1 H2]. fold buf' in H1, H2.
    split; [exact H1|]. split; [exact H2|]. split; [apply overlay_blen|].
    rewrite <- Hl. apply overlay_drop.
  - intros fs Hw is m0 m H. destruct (Hf fs Hw is m0 m H) as (e & He & Hl & Hb).
    exists e. split; [exact He|]. split; [exact Hl|].
    intros pv a data Hd data'. destruct (Hb pv a data Hd) as [H1 H2]. fold data' in H1, H2.
    split; [exact H1|]. split; [exact H2|]. split; [apply overlay_blen | apply overlay_drop].
  - intros vs Hw k is m0 m H. destruct (Hv vs Hw k is m0 m H) as (e & He & Hl & Hk & Hb).
    exists e. split; [exact He|]. split; [exact Hl|]. split; [exact Hk|].
    intros pv a data Hd data'. destruct (Hb pv a data Hd) as [H1 H2]. fold data' in H1, H2.
    split; [exact H1|]. split; [exact H2|]. split; [apply overlay_blen | apply overlay_drop].
Qed.

Theorem enc_sized_valid t i m : wf t = true -> sized t = true -> enc_sized t i = Some m ->
  mlen m = ssize t /\
  forall pv a buf, ssize t <= blen buf ->
    let buf' := overlay pv m buf in
    validate_u t a buf' = Ok tt /\
    (exists v, view t buf' = Ok v /\ spec_value t i = Some (strip v)) /\
    blen buf' = blen buf /\ drop (ssize t) buf' = drop (ssize t) buf.
Proof. intros Hw Hs H. exact (proj1 enc_sized_valid_mut t Hw Hs i m H). Qed.

(* ---------- 3. the two notions of a well-typed expression coincide on sized types ---------- *)

Definition is_some {A} (o : option A) : bool := match o with Some _ => true | None => false end.

Lemma spec_fields_len fs : forall is vs, spec_fields fs is = Some vs -> N.of_nat (length is) = flen fs.
Proof.
  induction fs as [|t r IH]; intros is vs H.
  - destruct is; [reflexivity | discriminate].
  - destruct is as [|i is']; [discriminate|]. cbn [spec_fields] in H.
    destruct (spec_value t i); [|discriminate].
    destruct (spec_fields r is') as [vs'|] eqn:E; [|discriminate].
    specialize (IH _ _ E). cbn [length flen]. lia.
Qed.

Lemma spec_variant_oob vs : forall k is, vlen vs <= N.of_nat k -> spec_variant vs k is = None.
Proof.
  induction vs as [|fs r IH]; intros k is H; [reflexivity|].
  cbn [vlen] in H. destruct k as [|k']; [lia|]. cbn [spec_variant]. apply IH. lia.
Qed.

Lemma arr_is_some t : (forall i, is_some (spec_value t i) = is_some (enc_sized t i)) ->
  forall is, is_some (opt_map_all (spec_value t) is) = is_some (concat_opt (map (enc_sized t) is)).
Proof.
  intros H. induction is as [|i r IH]; [reflexivity|].
  cbn [opt_map_all map concat_opt]. specialize (H i).
  destruct (spec_value t i), (enc_sized t i); cbn [is_some] in H; try discriminate; [|reflexivity].
  destruct (opt_map_all (spec_value t) r), (concat_opt (map (enc_sized t) r));
    cbn [is_some] in IH |- *; congruence.
Qed.

Lemma init_ok_enc_mut :
  (forall t, wf t = true -> sized t = true -> forall i,
     is_some (spec_value t i) = is_some (enc_sized t i)) /\
  (forall fs, wf_fields_sized fs = true -> forall is m0,
     is_some (spec_fields fs is) = is_some (enc_fields fs is m0)) /\
  (forall vs, wf_variants true vs = true -> forall k is m0,
     is_some (spec_variant vs k is) = is_some (enc_variant vs k is m0)).
Proof.
  apply ty_mutind.
  - (* TUnit *) reflexivity.
  - (* TInt *) intros it _ _ i. cbn [spec_value enc_sized].
    destruct i as [n|is0|k0 is0|is0|is0|s0|is0| |]; try reflexivity. destruct (n <=? int_max it); reflexivity.
  - (* TBool *) intros _ _ i. cbn [spec_value enc_sized].
    destruct i as [n|is0|k0 is0|is0|is0|s0|is0| |]; try reflexivity. destruct (n <=? 1); reflexivity.
  - (* TCLike *) intros tag n d _ _ i. cbn [spec_value enc_sized].
    destruct i as [k|is0|k0 is0|is0|is0|s0|is0| |]; try reflexivity. destruct (k <? n); reflexivity.
  - (* TArr *) intros t IH n Hw _ i. apply wf_arr_inv in Hw. destruct Hw as [Hwt Hst].
    cbn [spec_value enc_sized]. destruct (field_inits i n) as [is|]; [|reflexivity].
    etransitivity; [|exact (arr_is_some t (IH Hwt Hst) is)].
    destruct (opt_map_all (spec_value t) is); reflexivity.
  - (* TVec *) intros t _ l _ Hs. discriminate.
  - (* TStr *) intros l _ Hs. discriminate.
  - (* TFlex *) intros t _ l _ Hs. discriminate.
  - (* TStruct *) intros s fs IH Hw Hs i. cbn [sized] in Hs. subst s. cbn [wf] in Hw.
    rewrite enc_sized_struct. cbn [spec_value].
    destruct (field_inits i (flen fs)) as [is|]; [|reflexivity].
    specialize (IH Hw is []).
    destruct (spec_fields fs is), (enc_fields fs is []); cbn [is_some] in IH |- *; congruence.
  - (* TEnum *) intros s tag d vs IH Hw Hs i. cbn [sized] in Hs. subst s.
    apply wf_enum_inv in Hw. destruct Hw as (_ & _ & _ & _ & Hd & Hv).
    assert (Hgo : forall k is,
              is_some (match spec_variant vs (N.to_nat k) is with
                       | Some fvs => Some (VNode k fvs) | None => None end)
              = is_some (enc_enum_go tag d vs k is)).
    { intros k is. unfold enc_enum_go. destruct (N.ltb_spec k (vlen vs)) as [Hk|Hk].
      - specialize (IH Hv (N.to_nat k) is
                      (pad_to (data_offset tag vs) (map Some (to_bytes (ibe tag) (isize tag) k)))).
        destruct (spec_variant vs (N.to_nat k) is), (enc_variant vs (N.to_nat k) is _);
          cbn [is_some] in IH |- *; congruence.
      - rewrite spec_variant_oob by lia. reflexivity. }
    rewrite enc_sized_enum. cbn [spec_value].
    destruct i as [n|is0|k0 is0|is0|is0|s0|is0| |]; try reflexivity; apply Hgo.
  - (* FNil *) intros _ is m0. destruct is; reflexivity.
  - (* FCons *) intros t IHt r IHr Hw is m0.
    apply wf_fields_sized_cons in Hw. destruct Hw as (Hwt & Hst & Hr).
    destruct is as [|i is']; [reflexivity|]. rewrite enc_fields_cons. cbn [spec_fields].
    specialize (IHt Hwt Hst i).
    destruct (spec_value t i), (enc_sized t i) as [e|]; cbn [is_some] in IHt; try discriminate; [|reflexivity].
    rewrite <- (IHr Hr is' (pad_to (ceil_mul (mlen m0) (align t)) m0 ++ e)).
    destruct (spec_fields r is'); reflexivity.
  - (* VNil *) reflexivity.
  - (* VCons *) intros fs IHf r IHr Hw k is m0.
    apply wf_variants_sized_cons in Hw. destruct Hw as [Hf Hr].
    cbn [spec_variant enc_variant]. destruct k as [|k']; [|apply IHr; exact Hr].
    cbn [field_inits]. destruct (N.eqb_spec (N.of_nat (length is)) (flen fs)) as [E|E].
    + specialize (IHf Hf is []).
      destruct (spec_fields fs is), (enc_fields fs is []); cbn [is_some] in IHf |- *; congruence.
    + destruct (spec_fields fs is) as [vs|] eqn:Es; [|reflexivity].
      apply spec_fields_len in Es. contradiction.
Qed.

Lemma is_some_iff {A B} (o : option A) (p : option B) :
  is_some o = is_some p -> ((exists x, o = Some x) <-> (exists y, p = Some y)).
Proof.
  destruct o, p; cbn [is_some]; intros H; try discriminate; split; intros [z Hz]; eauto; discriminate.
Qed.

Theorem init_ok_enc t i : wf t = true -> sized t = true ->
  (init_ok t i = true <-> exists m, enc_sized t i = Some m).
Proof.
  intros Hw Hs. pose proof (proj1 init_ok_enc_mut t Hw Hs i) as H. unfold init_ok.
  destruct (spec_value t i), (enc_sized t i); cbn [is_some] in H; try discriminate.
  - split; eauto.
  - split; [discriminate|]. intros [m Hm]. discriminate.
Qed.

Theorem init_ok_enc_fields fs is m0 : wf_fields_sized fs = true ->
  ((exists vs, spec_fields fs is = Some vs) <-> exists m, enc_fields fs is m0 = Some m).
Proof. intros Hw. apply is_some_iff. apply (proj1 (proj2 init_ok_enc_mut) fs Hw). Qed.

Theorem init_ok_enc_variant vs k is m0 : wf_variants true vs = true ->
  ((exists fvs, spec_variant vs k is = Some fvs) <-> exists m, enc_variant vs k is m0 = Some m).
Proof. intros Hw. apply is_some_iff. apply (proj2 (proj2 init_ok_enc_mut) vs Hw). Qed.

(* ---------- 4. the sized emplacer ---------- *)

Lemma emplace_u_sized pv t i a buf : sized t = true ->
  emplace_u pv t i a buf =
  match enc_sized t i with Some m => write_masked pv m buf | None => bad_init end.
Proof.
  destruct t as [|it| |tag n d|t n|t l|l|t l|s fs|s tag d vs]; intros Hs; try reflexivity; try discriminate.
  - cbn [sized] in Hs. subst s. reflexivity.
  - cbn [sized] in Hs. subst s. reflexivity.
Qed.

Theorem sized_emplace_ok t i : wf t = true -> sized t = true -> init_ok t i = true ->
  forall pv a buf,
    let r := emplace pv t i a buf in
    (aligned a (align t) = false -> r = (buf, Err BadAlign 0)) /\
    (aligned a (align t) = true -> blen buf < ssize t -> r = (buf, Err InsufficientSize 0)) /\
    (aligned a (align t) = true -> ssize t <= blen buf ->
       snd r = Ok tt /\ validate t a (fst r) = Ok tt /\
       (exists v, view t (fst r) = Ok v /\ spec_value t i = Some (strip v)) /\
       blen (fst r) = blen buf /\ drop (ssize t) (fst r) = drop (ssize t) buf).
Proof.
  intros Hw Hs Hi pv a buf r. pose proof (min_size_sized t Hs) as Hmin. split; [|split].
  - intros Ha. apply emplace_badalign. exact Ha.
  - intros Ha Hb. apply emplace_too_small; [exact Ha | rewrite Hmin; exact Hb].
  - intros Ha Hb. unfold r. rewrite emplace_gate_passed by (try rewrite Hmin; assumption).
    rewrite emplace_u_sized by exact Hs.
    apply (init_ok_enc t i Hw Hs) in Hi. destruct Hi as [m Hm]. rewrite Hm.
    destruct (enc_sized_valid t i m Hw Hs Hm) as [Hl Hbuf].
    unfold write_masked. rewrite Hl. destruct (N.leb_spec (ssize t) (blen buf)); [|lia].
    cbn [ok fst snd]. destruct (Hbuf pv a buf Hb) as (Hv & Hview & Hbl & Hdr).
    split; [reflexivity|]. split; [|split; [exact Hview | split; [exact Hbl | exact Hdr]]].
    unfold validate, check_align_min. rewrite Ha. cbn [negb]. rewrite Hmin, Hbl.
    destruct (N.ltb_spec (blen buf) (ssize t)); [lia|]. cbn [bind]. exact Hv.
Qed.

(* ---------- 5. the specified bytes do not depend on what the buffer held ---------- *)

Theorem default_independent t m : wf t = true -> sized t = true -> enc_sized t IDefault = Some m ->
  forall pv buf1 buf2, blen buf1 = blen buf2 -> ssize t <= blen buf1 ->
    forall j x, nth_error m j = Some (Some x) ->
      nth_error (overlay pv m buf1) j = nth_error (overlay pv m buf2) j.
Proof.
  intros Hw Hs Hm pv buf1 buf2 Hb Hl j x Hn.
  destruct (enc_sized_valid t IDefault m Hw Hs Hm) as [Hlen _].
  apply (overlay_nonpad_independent pv m buf1 buf2 j x Hb); [rewrite Hlen; exact Hl | exact Hn].
Qed.

(* the default expression of an array or a sized struct is the literal made of default expressions *)
Lemma field_inits_default n : field_inits IDefault n = field_inits (ISeq (repeat IDefault (N.to_nat n))) n.
Proof. cbn [field_inits]. rewrite repeat_length, N2Nat.id, N.eqb_refl. reflexivity. Qed.

Theorem default_sized_arr t n :
  enc_sized (TArr t n) IDefault = enc_sized (TArr t n) (ISeq (repeat IDefault (N.to_nat n))) /\
  spec_value (TArr t n) IDefault = spec_value (TArr t n) (ISeq (repeat IDefault (N.to_nat n))).
Proof.
  pose proof (field_inits_default n) as H. split.
  - change (match field_inits IDefault n with
            | Some is => concat_opt (map (enc_sized t) is) | None => None end =
            match field_inits (ISeq (repeat IDefault (N.to_nat n))) n with
            | Some is => concat_opt (map (enc_sized t) is) | None => None end).
    rewrite H. reflexivity.
  - cbn [spec_value]. rewrite H. reflexivity.
Qed.

Theorem default_sized_struct fs :
  enc_sized (TStruct true fs) IDefault =
    enc_sized (TStruct true fs) (ISeq (repeat IDefault (N.to_nat (flen fs)))) /\
  spec_value (TStruct true fs) IDefault =
    spec_value (TStruct true fs) (ISeq (repeat IDefault (N.to_nat (flen fs)))).
Proof.
  pose proof (field_inits_default (flen fs)) as H. split.
  - rewrite !enc_sized_struct, H. reflexivity.
  - cbn [spec_value]. rewrite H. reflexivity.
Qed.
