(* EmplaceFrameFacts.v — the footprint of a successful emplacement (C14): for every accepted definition and
   every well-typed emplacer expression, a successful emplace_u / emplace / assign_in_place leaves every
   byte at index >= extent(content) as it was.  The induction mirrors emp_mut (EmplaceUnsizedFacts.v) and
   uses its results (no crash, length kept, success iff the content fits) as black boxes. *)
From Coq Require Import List NArith Bool Lia ZArith ZifyN ZifyBool ZifyNat.
From Flatty.Model Require Import Base Ty Layout Utf8 Validate View Emplace Portable.
From Flatty.Proofs Require Import ArithFacts LayoutFacts BytesFacts ValidateFacts FramingFacts ChainFacts
  ViewFacts PortableFacts OpsFacts VecOpsFacts EmplaceFacts EmplaceSpec PortableTyFacts EncFacts
  EmplaceUnsizedFacts.
Open Scope N_scope.

(* ---------- 0. the statement ---------- *)

Definition FR (t : ty) : Prop := forall pv i a buf buf',
  init_ok t i = true -> utf8_init i = true -> aligned a (align t) = true -> min_size t <= blen buf ->
  emplace_u pv t i a buf = (buf', Ok tt) ->
  forall n, extent t i <= n -> drop n buf' = drop n buf.

Definition FRF (fs : fields) : Prop := forall pv is a data pos a0 d',
  (exists vs, spec_fields fs is = Some vs) -> forallb utf8_init is = true ->
  a = a0 + pos -> a0 mod align_fields fs = 0 -> pos mod head_align fs = 0 ->
  end_min fs pos <= pos + blen data ->
  emplace_fields pv fs is a data pos = (d', Ok tt) ->
  forall n, extent_fields fs is pos <= pos + n -> drop n d' = drop n data.

Definition FRV (vs : variants) : Prop := forall pv k is a data tag kv tagb r',
  (exists fvs, spec_variant vs k is = Some fvs) -> forallb utf8_init is = true ->
  a mod align_variants vs = 0 -> isize tag <= blen tagb ->
  emplace_variant pv vs k is a data tag kv tagb = (r', Ok tt) ->
  forall n, extent_variant vs k is <= n -> drop (blen tagb + n) r' = drop n data.

(* ---------- 1. take / drop algebra ---------- *)

Lemma drop_eq_mono (x y : bytes) m n : drop m x = drop m y -> m <= n -> drop n x = drop n y.
Proof.
  intros H Hmn. replace n with (m + (n - m)) by lia. rewrite <- !drop_drop. rewrite H. reflexivity.
Qed.

Lemma drop_app_plus (a b : bytes) n : drop (blen a + n) (a ++ b) = drop n b.
Proof. rewrite <- drop_drop. rewrite drop_app_exact. reflexivity. Qed.

Lemma split3 pos len (buf : bytes) : buf = take pos buf ++ take len (drop pos buf) ++ drop (pos + len) buf.
Proof. rewrite <- drop_drop. rewrite take_drop. rewrite take_drop. reflexivity. Qed.

Lemma splice_drop (A S S' C : bytes) n : blen S' = blen S -> blen A + blen S <= n ->
  drop n (A ++ S' ++ C) = drop n (A ++ S ++ C).
Proof.
  intros HS Hn. rewrite !app_assoc. rewrite !drop_app_ge by (rewrite blen_app; lia).
  rewrite !blen_app. rewrite HS. reflexivity.
Qed.

(* the part of a prefix-rewritten buffer behind the rewritten prefix *)
Lemma drop_prefix_tail (x x' tl : bytes) n : blen x' = blen x -> n <= blen x -> drop n x' = drop n x ->
  drop n (x' ++ tl) = drop n (x ++ tl).
Proof.
  intros Hl Hn Hd. rewrite !drop_app_le by lia. rewrite Hd. reflexivity.
Qed.

(* ---------- 2. the write primitives, inverted ---------- *)

Lemma ebind_ok_inv r f b' : ebind r f = (b', Ok tt) -> exists b1, r = (b1, Ok tt) /\ f b1 = (b', Ok tt).
Proof.
  destruct r as [b1 [[]|k p|c]]; cbn [ebind]; intros H; try discriminate. exists b1. split; [reflexivity|exact H].
Qed.

Lemma lift_ok_inv r b' : lift r = (b', Ok tt) -> r = Ok b'.
Proof.
  destruct r as [b|k p|c]; cbn [lift ok crashed]; intros H; try discriminate. injection H as <-. reflexivity.
Qed.

Lemma write_int_inv l v buf b' : write_int l v buf = (b', Ok tt) ->
  isize l <= blen buf /\ b' = to_bytes (ibe l) (isize l) v ++ drop (isize l) buf.
Proof.
  intros H. destruct (N.le_gt_cases (isize l) (blen buf)) as [Hle|Hgt].
  - rewrite write_int_ok in H by exact Hle. injection H as <-. split; [exact Hle|reflexivity].
  - exfalso. unfold write_int in H. rewrite write_at_oob in H by (rewrite tb_len; lia).
    cbn [lift crashed] in H. discriminate.
Qed.

Lemma write_int_frame l v buf b' n : write_int l v buf = (b', Ok tt) -> isize l <= n ->
  blen b' = blen buf /\ drop n b' = drop n buf.
Proof.
  intros H Hn. apply write_int_inv in H. destruct H as [Hle ->]. split.
  - apply blen_set_len. exact Hle.
  - rewrite drop_app_ge by (rewrite tb_len; lia). rewrite tb_len, drop_drop. f_equal. lia.
Qed.

Lemma on_slice_masked_frame pv e pos len buf b' n :
  on_slice pos len (write_masked pv e) buf = (b', Ok tt) -> pos + len <= n ->
  blen b' = blen buf /\ drop n b' = drop n buf.
Proof.
  unfold on_slice. set (sub := take len (drop pos buf)). intros H Hn.
  injection H as Hb Hs. unfold write_masked in Hb, Hs.
  destruct (mlen e <=? blen sub); [|discriminate Hs]. cbn [ok fst] in Hb. subst b'.
  pose proof (split3 pos len buf) as Hsp. fold sub in Hsp.
  assert (Hbl : blen (take pos buf) + blen sub <= pos + len).
  { unfold sub. rewrite !blen_take. lia. }
  split.
  - rewrite !blen_app, overlay_blen. rewrite <- !blen_app. rewrite <- Hsp. reflexivity.
  - transitivity (drop n (take pos buf ++ sub ++ drop (pos + len) buf)).
    + apply splice_drop; [apply overlay_blen|lia].
    + rewrite <- Hsp. reflexivity.
Qed.

Lemma vec_fill_frame pv t l : isize l <= vec_data_offset t l ->
  forall encs len buf b' n, vec_fill pv t l encs len buf = (b', Ok tt) ->
    vec_data_offset t l + (len + N.of_nat (length encs)) * ssize t <= n ->
    blen b' = blen buf /\ drop n b' = drop n buf.
Proof.
  intros Hld. induction encs as [|e r IH]; intros len buf b' n H Hn.
  - cbn [vec_fill ok] in H. injection H as <-. split; reflexivity.
  - cbn [vec_fill] in H.
    apply ebind_ok_inv in H. destruct H as (b1 & H1 & H).
    apply ebind_ok_inv in H. destruct H as (b2 & H2 & H).
    replace (len + N.of_nat (length (e :: r))) with (len + 1 + N.of_nat (length r)) in Hn by (cbn [length]; lia).
    destruct (on_slice_masked_frame pv e _ _ buf b1 n H1 ltac:(nia)) as [L1 D1].
    destruct (write_int_frame l (len + 1) b1 b2 n H2 ltac:(nia)) as [L2 D2].
    destruct (IH (len + 1) b2 b' n H Hn) as [L3 D3].
    split; [congruence|]. rewrite D3, D2, D1. reflexivity.
Qed.

Lemma opt_all_length {A} : forall (l : list (option A)) xs, opt_all l = Some xs -> length xs = length l.
Proof.
  induction l as [|o r IH]; intros xs H.
  - cbn [opt_all] in H. injection H as <-. reflexivity.
  - cbn [opt_all] in H. destruct o as [x|]; [|discriminate].
    destruct (opt_all r) as [y|] eqn:Er; [|discriminate]. injection H as <-.
    cbn [length]. rewrite (IH y eq_refl). reflexivity.
Qed.

(* what a successful emplace_u is already known to satisfy *)
Lemma emp_ok_facts t : wf t = true -> narrow_ty t = true -> forall pv i a buf buf',
  init_ok t i = true -> utf8_init i = true -> aligned a (align t) = true -> min_size t <= blen buf ->
  emplace_u pv t i a buf = (buf', Ok tt) ->
  blen buf' = blen buf /\ extent t i <= blen buf /\ extent t i mod align t = 0.
Proof.
  intros Hw Hn pv i a buf buf' Hi Hu Ha Hm H.
  destruct (emplace_u_ok t Hw Hn pv i a buf Hi Hu Ha Hm) as (_ & H2 & H3 & H4 & _).
  rewrite H in H2, H3, H4. cbn [fst snd] in H2, H3, H4.
  split; [exact H2|]. split; [apply H4; reflexivity|].
  destruct (good_extent_le t i a buf' Hw ltac:(lia) (H3 eq_refl)) as (_ & Hmod & _). exact Hmod.
Qed.

(* ---------- 3. sized types ---------- *)

Lemma fr_sized t : wf t = true -> sized t = true -> FR t.
Proof.
  intros Hw Hs pv i a buf buf' _ _ _ _ H n Hn. rewrite (sized_extent t i Hs) in Hn.
  rewrite emplace_u_sized in H by exact Hs.
  destruct (enc_sized t i) as [m|] eqn:Em; [|discriminate H].
  destruct (enc_sized_valid t i m Hw Hs Em) as [Hl _].
  unfold write_masked in H. destruct (mlen m <=? blen buf); [|discriminate H].
  cbn [ok] in H. injection H as <-.
  apply drop_eq_mono with (m := ssize t); [|exact Hn]. rewrite <- Hl. apply overlay_drop.
Qed.

(* ---------- 4. FlatVec ---------- *)

Lemma vec_items_frame pv et l buf is chk b' n :
  isize l <= vec_data_offset et l ->
  vec_items pv et l buf is chk = (b', Ok tt) ->
  vec_data_offset et l + ssize et * N.of_nat (length is) <= n ->
  drop n b' = drop n buf.
Proof.
  intros Hld H Hn. unfold vec_items in H.
  destruct (opt_all (map (enc_sized et) is)) as [encs|] eqn:Eo; [|discriminate H].
  apply opt_all_length in Eo. rewrite map_length in Eo.
  destruct (do slots <- vec_slots et l (blen buf); clamp_cap l slots) as [cap|k p|c]; try discriminate H.
  cbv zeta in H.
  destruct (chk && (cap <? N.of_nat (length encs))); [discriminate H|].
  apply ebind_ok_inv in H. destruct H as (b0 & H0 & H).
  apply ebind_ok_inv in H. destruct H as (b1 & H1 & H).
  destruct (cap <? N.of_nat (length encs)); [discriminate H|]. cbn [ok] in H. injection H as <-.
  assert (Hfl : N.of_nat (length (firstn (N.to_nat cap) encs)) <= N.of_nat (length is)).
  { rewrite firstn_length. lia. }
  destruct (write_int_frame l 0 buf b0 n H0 ltac:(lia)) as [_ D0].
  destruct (vec_fill_frame pv et l Hld _ 0 b0 b1 n H1 ltac:(nia)) as [_ D1].
  rewrite D1, D0. reflexivity.
Qed.

Lemma fr_vec et l : wf (TVec et l) = true -> FR (TVec et l).
Proof.
  intros Hw pv i a buf buf' Hi _ _ _ H n Hn.
  pose proof (vec_consts et l Hw) as (HA & Hld & _ & _).
  assert (Hext : forall k, vec_data_offset et l + ssize et * k <=
                           ceil_mul (vec_data_offset et l + ssize et * k) (align (TVec et l)))
    by (intros k; apply ceil_mul_ge; exact HA).
  assert (Hdef : write_int l 0 buf = (buf', Ok tt) -> extent (TVec et l) i <= n -> drop n buf' = drop n buf).
  { intros Hwr He. apply (write_int_frame l 0 buf buf' n Hwr).
    cbn [extent] in He. specialize (Hext (match i with IVecArr is | IVecIter is => N.of_nat (length is) | _ => 0 end)).
    lia. }
  unfold init_ok in Hi.
  destruct i as [v|is0|k0 is0|is0|is0|s0|is0| |]; cbn [spec_value] in Hi; try discriminate Hi.
  - rewrite emplace_u_vec_arr in H. cbn [extent] in Hn. specialize (Hext (N.of_nat (length is0))).
    apply (vec_items_frame pv et l buf is0 true buf' n Hld H). lia.
  - rewrite emplace_u_vec_iter in H. cbn [extent] in Hn. specialize (Hext (N.of_nat (length is0))).
    apply (vec_items_frame pv et l buf is0 false buf' n Hld H). lia.
  - apply Hdef; [exact H|exact Hn].
  - apply Hdef; [exact H|exact Hn].
Qed.

(* ---------- 5. FlatString ---------- *)

Lemma fr_str l : wf (TStr l) = true -> FR (TStr l).
Proof.
  intros Hw pv i a buf buf' Hi _ _ _ H n Hn. cbn [wf] in Hw.
  pose proof (wf_int_ialign_le _ Hw) as (_ & _ & HA).
  assert (Hext : forall k, isize l + k <= ceil_mul (isize l + k) (ialign l))
    by (intros k; apply ceil_mul_ge; exact HA).
  assert (Hdef : write_int l 0 buf = (buf', Ok tt) -> extent (TStr l) i <= n -> drop n buf' = drop n buf).
  { intros Hwr He. apply (write_int_frame l 0 buf buf' n Hwr).
    cbn [extent] in He. specialize (Hext (match i with IStr s => blen s | _ => 0 end)). lia. }
  unfold init_ok in Hi.
  destruct i as [v|is0|k0 is0|is0|is0|s|is0| |]; cbn [spec_value] in Hi; try discriminate Hi;
    [|apply Hdef; [exact H|exact Hn]|apply Hdef; [exact H|exact Hn]].
  cbn [extent] in Hn. specialize (Hext (blen s)). cbn [emplace_u] in H.
  destruct (do slots <- str_slots l (blen buf); clamp_cap l slots) as [cap|k p|c]; try discriminate H.
  destruct (cap <? blen s); [discriminate H|].
  apply ebind_ok_inv in H. destruct H as (b0 & H0 & H).
  apply ebind_ok_inv in H. destruct H as (b1 & H1 & H).
  apply lift_ok_inv in H1. apply write_at_ok in H1. destruct H1 as (_ & _ & _ & D1 & _).
  destruct (write_int_frame l 0 buf b0 n H0 ltac:(lia)) as [_ D0].
  destruct (write_int_frame l (blen s) b1 buf' n H ltac:(lia)) as [_ D2].
  rewrite D2. rewrite (drop_eq_mono b1 b0 _ n D1 ltac:(lia)). exact D0.
Qed.

(* ---------- 6. generated Init of an unsized struct / enum variant ---------- *)

Lemma frf_single t : wf t = true -> FR t -> FRF (FCons t FNil).
Proof.
  intros Hw IH pv is a data pos a0 d' [vs Hs] Hu Ea Ha0 Hpos Hend H n Hn.
  destruct is as [|i is']; [discriminate|]. cbn [spec_fields] in Hs.
  destruct (spec_value t i) as [v|] eqn:Ev; [|discriminate].
  destruct is' as [|i2 is2]; [|discriminate]. clear Hs.
  cbn [forallb] in Hu. rewrite andb_true_r in Hu.
  cbn [end_min] in Hend. cbn [align_fields head_align] in Ha0, Hpos.
  pose proof (align_P16 t Hw) as Hp. pose proof (P16_pos _ Hp) as Hal.
  assert (Haa : aligned a (align t) = true).
  { apply aligned_iff. subst a. apply mod_add_mult; auto.
    apply mod_trans with (m := umax (align t) 1); auto.
    - apply P16_pos, P16_umax; auto. left; reflexivity.
    - apply P16_umax_mod_l; auto. left; reflexivity. }
  assert (Hi : init_ok t i = true) by (unfold init_ok; rewrite Ev; reflexivity).
  rewrite emplace_fields_single in H. cbn [extent_fields] in Hn.
  apply (IH pv i a data d' Hi Hu Haa ltac:(slia) H). slia.
Qed.

Lemma frf_cons2 t t' r : wf t = true -> narrow_ty t = true -> sized t = true -> wfF (FCons t' r) ->
  FRF (FCons t' r) -> FRF (FCons t (FCons t' r)).
Proof.
  intros Hw Hnt Hst Hfr IHr pv is a data pos a0 d' [vs Hs] Hu Ea Ha0 Hpos Hend H n Hn.
  destruct is as [|i is']; [discriminate|]. rewrite spec_fields_cons in Hs.
  destruct (spec_value t i) as [v|] eqn:Ev; [|discriminate].
  destruct (spec_fields (FCons t' r) is') as [vr|] eqn:Er; [|discriminate]. clear Hs.
  cbn [forallb] in Hu. apply andb_true_iff in Hu. destruct Hu as [Hui Hur].
  rewrite end_min_cons2 in Hend.
  pose proof (end_min_ge _ Hfr (pos_next pos t t')) as Hge.
  cbn [head_align] in Hpos.
  pose proof (align_P16 t Hw) as Hp. pose proof (P16_pos _ Hp) as Hal.
  pose proof (align_fields_P16 (FCons t' r) (or_intror Hfr)) as Hpr. pose proof (P16_pos _ Hpr) as Halr.
  destruct (wfF_cons _ _ Hfr) as [Hwt' _].
  pose proof (align_P16 t' Hwt') as Hp'. pose proof (P16_pos _ Hp') as Hal'.
  change (align_fields (FCons t (FCons t' r))) with (umax (align t) (align_fields (FCons t' r))) in Ha0.
  assert (Hum : 0 < umax (align t) (align_fields (FCons t' r))) by (apply P16_pos, P16_umax; auto).
  assert (Haa : aligned a (align t) = true).
  { apply aligned_iff. subst a. apply mod_add_mult; auto.
    apply mod_trans with (m := umax (align t) (align_fields (FCons t' r))); auto.
    apply P16_umax_mod_l; auto. }
  assert (Ha0r : a0 mod align_fields (FCons t' r) = 0).
  { apply mod_trans with (m := umax (align t) (align_fields (FCons t' r))); auto.
    apply P16_umax_mod_r; auto. }
  assert (Hi : init_ok t i = true) by (unfold init_ok; rewrite Ev; reflexivity).
  assert (Hne : FCons t' r <> FNil) by congruence.
  pose proof (proj1 (proj2 extent_min_mut) (FCons t' r) Hne Hfr is' (pos_next pos t t') vr Er) as Hexr.
  rewrite emplace_fields_cons2 in H. cbv zeta in H.
  rewrite extent_fields_cons2 in Hn.
  set (np := pos_next pos t t') in *.
  assert (Hnp : pos + ssize t <= np) by (unfold np, pos_next; apply ceil_mul_ge; exact Hal').
  assert (Hnpm : np mod align t' = 0) by (unfold np, pos_next; apply ceil_mul_mod; exact Hal').
  destruct (N.ltb_spec (blen data) (np - pos)) as [Hc|Hc]; [discriminate H|].
  set (piece := take (np - pos) data) in *. set (rest := drop (np - pos) data) in *.
  assert (Hpl : blen piece = np - pos) by (unfold piece; apply blen_take_le; exact Hc).
  assert (Hrl : blen rest = blen data - (np - pos)) by (unfold rest; apply blen_drop).
  pose proof (min_size_sized t Hst) as Hmin.
  destruct (emplace_u pv t i a piece) as [piece' res] eqn:Ee.
  destruct res as [[]|k p|c]; try discriminate H.
  destruct (emp_ok_facts t Hw Hnt pv i a piece piece' Hi Hui Haa ltac:(slia) Ee) as (Hpl' & _ & _).
  destruct (emplace_fields pv (FCons t' r) is' (a + (np - pos)) rest np) as [rd rres] eqn:Err.
  cbn [fst snd] in H. injection H as <- ->.
  assert (Hrd : drop (n - (np - pos)) rd = drop (n - (np - pos)) rest).
  { apply (IHr pv is' (a + (np - pos)) rest np a0 rd); eauto; slia. }
  rewrite drop_app_ge by slia. rewrite Hpl', Hpl, Hrd. unfold rest. rewrite drop_drop. f_equal. slia.
Qed.

Lemma frv_here fs r pv is a data tag kv tagb r' :
  (fs = FNil \/ (wfF fs /\ FRF fs)) ->
  (exists fvs, spec_fields fs is = Some fvs) -> forallb utf8_init is = true ->
  a mod align_fields fs = 0 -> isize tag <= blen tagb ->
  emplace_variant pv (VCons fs r) O is a data tag kv tagb = (r', Ok tt) ->
  forall n, extent_fields fs is 0 <= n -> drop (blen tagb + n) r' = drop n data.
Proof.
  intros Hfs [fvs Hs] Hu Ha Ht H n Hn.
  rewrite emplace_variant_here, (field_inits_seq_ok fs is fvs Hs) in H. cbv zeta in H.
  set (hdr := to_bytes (ibe tag) (isize tag) kv ++ drop (isize tag) tagb) in *.
  assert (Hhdr : blen hdr = blen tagb) by (apply blen_set_len; exact Ht).
  destruct fs as [|t0 r0].
  - rewrite write_int_ok in H by exact Ht. cbn [emplace_fields ok fst snd] in H. fold hdr in H.
    injection H as <-. rewrite <- Hhdr. apply drop_app_plus.
  - destruct Hfs as [Hnil|[Hf IH]]; [discriminate|].
    assert (Hne : FCons t0 r0 <> FNil) by congruence.
    set (fs := FCons t0 r0) in *.
    apply aligned_iff in Ha. rewrite Ha in H. cbn [negb] in H.
    destruct (N.ltb_spec (blen data) (fold_min_size 0 fs)) as [Hc|Hc]; [discriminate H|].
    rewrite write_int_ok in H by exact Ht. fold hdr in H.
    destruct (emplace_fields pv fs is a data 0) as [rd rres] eqn:Er.
    cbn [fst snd] in H. injection H as <- ->.
    rewrite <- Hhdr. rewrite drop_app_plus.
    apply (IH pv is a data 0 a rd); [eauto | exact Hu | slia | | | | exact Er | slia].
    + apply aligned_iff. exact Ha.
    + apply N.mod_0_l. unfold fs. cbn [head_align]. destruct (wfF_cons _ _ Hf) as [Hw0 _].
      pose proof (align_pos _ Hw0). slia.
    + rewrite <- fold_min_size_0 by exact Hne. slia.
Qed.

Lemma frv_step fs r : (fs = FNil \/ (wfF fs /\ FRF fs)) -> wf_variants false (VCons fs r) = true ->
  FRV r -> FRV (VCons fs r).
Proof.
  intros Hfs Hw IHr pv k is a data tag kv tagb r' Hs Hu Ha Ht H n Hn.
  apply wf_variants_cons in Hw. destruct Hw as [Hf Hr].
  pose proof (align_fields_P16 fs Hf) as Hpf. pose proof (align_variants_P16 _ _ Hr) as Hpr.
  cbn [align_variants] in Ha.
  assert (Hum : 0 < umax (align_fields fs) (align_variants r)) by (apply P16_pos, P16_umax; auto).
  destruct k as [|k'].
  - cbn [spec_variant] in Hs. cbn [extent_variant] in Hn.
    apply (frv_here fs r pv is a data tag kv tagb r' Hfs Hs Hu); auto.
    apply mod_trans with (m := umax (align_fields fs) (align_variants r)); auto using P16_pos.
    apply P16_umax_mod_l; auto.
  - change (emplace_variant pv (VCons fs r) (S k') is a data tag kv tagb)
      with (emplace_variant pv r k' is a data tag kv tagb) in H.
    cbn [spec_variant] in Hs. cbn [extent_variant] in Hn.
    assert (Har : a mod align_variants r = 0).
    { apply mod_trans with (m := umax (align_fields fs) (align_variants r)); auto using P16_pos.
      apply P16_umax_mod_r; auto. }
    exact (IHr pv k' is a data tag kv tagb r' Hs Hu Har Ht H n Hn).
Qed.

(* ---------- 7. unsized struct ---------- *)

Lemma fr_struct fs : wf (TStruct false fs) = true -> narrow_ty (TStruct false fs) = true ->
  FRF fs -> FR (TStruct false fs).
Proof.
  intros Hw Hnt IH pv i a buf buf' Hi Hu Ha Hm H n Hn.
  apply drop_eq_mono with (m := extent (TStruct false fs) i); [|exact Hn]. clear n Hn.
  destruct (emp_ok_facts _ Hw Hnt pv i a buf buf' Hi Hu Ha Hm H) as (Hbl & Hext & Hmod).
  destruct (wf_struct_wfF _ _ Hw) as [Hnil|Hf]; [subst fs; discriminate Hw|].
  assert (Hne : fs <> FNil) by (intros ->; discriminate Hw).
  pose proof (P16_pos _ (align_fields_P16 fs (or_intror Hf))) as Hal.
  pose proof (emp_mut) as (_ & EF & _).
  assert (Hnf : narrow_fields fs = true) by exact Hnt.
  specialize (EF fs Hne Hf Hnf).
  unfold init_ok in Hi. cbn [spec_value] in Hi.
  destruct (field_inits i (flen fs)) as [is|] eqn:Ef; [|discriminate].
  destruct (spec_fields fs is) as [vs|] eqn:Es; [|discriminate]. clear Hi.
  pose proof (field_inits_utf8 _ _ _ Ef Hu) as Hui.
  cbn [align] in Ha, Hmod. cbn [min_size] in Hm.
  rewrite emplace_u_struct, Ef in H. cbv zeta in H. rewrite Ha in H. cbn [negb] in H.
  set (al := align_fields fs) in *. set (n0 := floor_mul (blen buf) al) in *.
  assert (Hn0 : fold_min_size 0 fs <= n0) by (apply ceil_le_floor; auto).
  pose proof (floor_mul_le (blen buf) al Hal) as Hnb. fold n0 in Hnb.
  destruct (N.ltb_spec n0 (fold_min_size 0 fs)); [discriminate H|].
  assert (Hdl : blen (take n0 buf) = n0) by (apply blen_take_le; exact Hnb).
  assert (Hpre : (exists vs0, spec_fields fs is = Some vs0) /\ a = a + 0 /\ a mod al = 0 /\
                 0 mod head_align fs = 0 /\ end_min fs 0 <= 0 + blen (take n0 buf)).
  { split; [eauto|]. split; [slia|]. split; [apply aligned_iff; exact Ha|]. split.
    - apply N.mod_0_l. destruct fs as [|t0 r0]; [congruence|]. cbn [head_align].
      destruct (wfF_cons _ _ Hf) as [Hw0 _]. pose proof (align_pos _ Hw0). slia.
    - rewrite <- fold_min_size_0 by exact Hne. slia. }
  destruct Hpre as (P1 & P2 & P3 & P4 & P5).
  destruct (EF pv is a (take n0 buf) 0 a P1 Hui P2 P3 P4 P5) as (_ & R2 & _).
  destruct (emplace_fields pv fs is a (take n0 buf) 0) as [rd rres] eqn:Er.
  cbn [fst snd] in H, R2. injection H as <- ->.
  set (ext := extent (TStruct false fs) i) in *.
  assert (Hen : ext <= n0) by (apply floor_mul_ge_mult; auto).
  assert (HE : extent_fields fs is 0 <= 0 + ext).
  { unfold ext. cbn [extent]. rewrite Ef. fold al. pose proof (ceil_mul_ge (extent_fields fs is 0) al Hal). slia. }
  pose proof (IH pv is a (take n0 buf) 0 a rd P1 Hui P2 P3 P4 P5 Er ext HE) as Hd.
  rewrite (drop_prefix_tail (take n0 buf) rd (drop n0 buf) ext) by (auto; slia).
  rewrite take_drop. reflexivity.
Qed.

(* ---------- 8. unsized enum ---------- *)

Lemma enum_go_frame pv tag d vs a buf k is fvs b' :
  wf (TEnum false tag d vs) = true -> narrow_ty (TEnum false tag d vs) = true -> FRV vs ->
  spec_variant vs (N.to_nat k) is = Some fvs -> forallb utf8_init is = true ->
  aligned a (align (TEnum false tag d vs)) = true -> min_size (TEnum false tag d vs) <= blen buf ->
  let ext := ceil_mul (data_offset tag vs + extent_variant vs (N.to_nat k) is)
                      (umax (ialign tag) (align_variants vs)) in
  ext <= blen buf ->
  enum_go pv tag vs a buf k is = (b', Ok tt) -> drop ext b' = drop ext buf.
Proof.
  intros Hw Hnt IH Hs Hu Ha Hm ext Hext H.
  pose proof (enum_consts _ _ _ _ Hw) as (Hal & Hdo & Hdmod).
  pose proof (min_size_enum_ge _ _ _ Hw) as Hdm.
  apply narrow_enum_inv in Hnt. destruct Hnt as [_ Hnv].
  apply wf_enum_inv in Hw. destruct Hw as (Hi & Hnat & Hv1 & Hv2 & Hdf & Hwv).
  pose proof (proj2 (proj2 emp_mut) vs Hwv Hnv) as EV.
  cbn [align] in Ha. apply aligned_iff in Ha.
  set (al := umax (ialign tag) (align_variants vs)) in *. set (dof := data_offset tag vs) in *.
  pose proof (align_variants_P16 _ _ Hwv) as Hpv. destruct (wf_int_P16 _ Hi) as [_ Hpt].
  unfold enum_go in H. destruct (N.ltb_spec k (vlen vs)); [|discriminate H]. cbn [negb] in H. cbv zeta in H.
  fold al dof in H.
  destruct (N.ltb_spec (blen buf) dof); [discriminate H|].
  set (tagb := take dof buf) in *. set (rest := drop dof buf) in *.
  assert (Htl : blen tagb = dof) by (unfold tagb; apply blen_take_le; slia).
  assert (Hrl : blen rest = blen buf - dof) by (unfold rest; apply blen_drop).
  set (n0 := floor_mul (blen rest) al) in *.
  pose proof (floor_mul_le (blen rest) al Hal) as Hnr. fold n0 in Hnr.
  assert (Hdl : blen (take n0 rest) = n0) by (apply blen_take_le; exact Hnr).
  assert (Haa : (a + dof) mod align_variants vs = 0).
  { apply mod_trans with (m := al); auto using P16_pos.
    - apply mod_add_mult; auto.
    - unfold al. apply P16_umax_mod_r; auto. }
  assert (Hsp : exists fvs0, spec_variant vs (N.to_nat k) is = Some fvs0) by eauto.
  assert (Htb : isize tag <= blen tagb) by slia.
  destruct (EV pv (N.to_nat k) is (a + dof) (take n0 rest) tag k tagb Hsp Hu Haa Htb) as (_ & R2 & _).
  destruct (emplace_variant pv vs (N.to_nat k) is (a + dof) (take n0 rest) tag k tagb) as [rv rres] eqn:Er.
  cbn [fst snd] in H, R2. injection H as <- ->.
  (* ext = dof + x with x a multiple of al that fits the floored data range *)
  set (E := extent_variant vs (N.to_nat k) is) in *.
  assert (Hsplit : ext = dof + ceil_mul E al) by (unfold ext; apply ceil_mul_add_mult; auto).
  pose proof (ceil_mul_ge E al Hal) as HEge. pose proof (ceil_mul_mod E al Hal) as HEmod.
  set (x := ceil_mul E al) in *.
  assert (Hx : x <= n0) by (apply floor_mul_ge_mult; auto; slia).
  pose proof (IH pv (N.to_nat k) is (a + dof) (take n0 rest) tag k tagb rv Hsp Hu Haa Htb Er x HEge) as Hd.
  rewrite Htl in Hd. rewrite <- Hsplit in Hd.
  rewrite drop_app_le by slia. rewrite Hd.
  assert (Ebuf : buf = tagb ++ take n0 rest ++ drop n0 rest).
  { unfold tagb, rest. rewrite !take_drop. reflexivity. }
  assert (Hrhs : drop ext buf = drop x (take n0 rest) ++ drop n0 rest).
  { rewrite Ebuf. rewrite drop_app_ge by slia. rewrite Htl. replace (ext - dof) with x by slia.
    apply drop_app_le. slia. }
  rewrite Hrhs. reflexivity.
Qed.

Lemma fr_enum tag d vs : wf (TEnum false tag d vs) = true -> narrow_ty (TEnum false tag d vs) = true ->
  FRV vs -> FR (TEnum false tag d vs).
Proof.
  intros Hw Hnt IH pv i a buf buf' Hi Hu Ha Hm H n Hn.
  apply drop_eq_mono with (m := extent (TEnum false tag d vs) i); [|exact Hn]. clear n Hn.
  destruct (emp_ok_facts _ Hw Hnt pv i a buf buf' Hi Hu Ha Hm H) as (_ & Hext & _).
  rewrite emplace_u_enum in H.
  unfold init_ok in Hi. cbn [spec_value] in Hi.
  destruct i as [v|is0|k0 is0|is0|is0|s0|is0| |]; try discriminate Hi.
  - destruct (spec_variant vs (N.to_nat k0) is0) as [fvs|] eqn:Es; [|discriminate].
    cbn [utf8_init] in Hu. cbn [extent] in Hext |- *.
    exact (enum_go_frame pv tag d vs a buf k0 is0 fvs buf' Hw Hnt IH Es Hu Ha Hm Hext H).
  - destruct (spec_variant vs (N.to_nat d) []) as [fvs|] eqn:Es; [|discriminate].
    cbn [extent] in Hext |- *.
    exact (enum_go_frame pv tag d vs a buf d [] fvs buf' Hw Hnt IH Es eq_refl Ha Hm Hext H).
Qed.

(* ---------- 9. FlexVec ---------- *)

Lemma flex_item_frame pv et : FR et -> forall i pa payload payload',
  init_ok et i = true -> utf8_init i = true -> pa mod align et = 0 ->
  flex_item_emp pv et i pa payload = (payload', Ok tt) ->
  forall n, extent et i <= n -> drop n payload' = drop n payload.
Proof.
  intros IH i pa payload payload' Hi Hu Hpa H n Hn. apply aligned_iff in Hpa.
  unfold flex_item_emp, check_align_min in H. rewrite Hpa in H. cbn [negb] in H.
  destruct (N.ltb_spec (blen payload) (min_size et)) as [Hc|Hc]; [discriminate H|].
  exact (IH pv i pa payload payload' Hi Hu Hpa Hc H n Hn).
Qed.

Lemma flex_fill_frame pv et l : wf (TFlex et l) = true -> narrow l = true -> EMP et -> FR et ->
  forall is pre prev a data pos b',
    Forall (fun i => init_ok et i = true /\ utf8_init i = true) is ->
    a mod align (TFlex et l) = 0 -> blen data mod align (TFlex et l) = 0 -> prev_ok l prev pre ->
    flex_fill et l (flex_item_emp pv et) (size_m et) is pre prev a data pos = (b', Ok tt) ->
    forall n, sum_list (map (offf et l) is) <= n -> drop (blen pre + n) b' = drop n data.
Proof.
  intros Hw Hn IH IHF.
  pose proof (flex_consts et l Hw) as (Hal & Hlos & Hosal & Halia & Hos & Hia & Halet).
  pose proof Hw as Hw0. apply wf_flex_inv in Hw0. destruct Hw0 as [Hwt Hl].
  set (os := flex_offset_size et l) in *. set (al := align (TFlex et l)) in *.
  induction is as [|i r IHr]; intros pre prev a data pos b' Hall Ha Hd Hprev H n Hsum.
  - cbn [flex_fill ok] in H. injection H as <-. apply drop_app_plus.
  - inversion Hall as [|i0 r0 [Hi Hu] Hallr]; subst i0 r0.
    rewrite flex_fill_cons in H. unfold ff_step in H. cbv zeta in H. fold os al in H.
    cbn [map sum_list] in Hsum.
    destruct (N.ltb_spec (blen data) os) as [Hc|Hc]; [discriminate H|].
    set (slot := take os data) in *. set (payload := drop os data) in *.
    assert (Hsl : blen slot = os) by (unfold slot; apply blen_take_le; exact Hc).
    assert (Hpl : blen payload = blen data - os) by (unfold payload; apply blen_drop).
    assert (Hpa : (a + os) mod align et = 0).
    { apply mod_trans with (m := al); auto using align_pos. apply mod_add_mult; auto. }
    pose proof (flex_item_post pv et i (a + os) payload Hwt IH Hi Hu Hpa) as (I1 & I2 & I3 & I4 & I5).
    pose proof (flex_item_frame pv et IHF i (a + os) payload) as IF.
    destruct (flex_item_emp pv et i (a + os) payload) as [payload' res] eqn:Eitem. cbn [fst snd] in *.
    destruct res as [[]|k p|c]; cbv beta iota in H; try discriminate H.
    specialize (IF payload' Hi Hu Hpa eq_refl).
    destruct (I3 eq_refl) as (Hmin & Hgood). clear I3 I5.
    assert (Hrep : representable et i = true /\ extent et i <= blen payload) by (apply I4; reflexivity).
    destruct Hrep as [Hrep Hext].
    pose proof Hgood as (Hv & _ & Hsz).
    rewrite Hsz in H. cbv beta iota in H. set (psize := ceil_mul (extent et i) al) in *.
    assert (Eoff : offf et l i = os + psize) by reflexivity.
    set (off := os + psize) in *.
    assert (Hpsm : psize mod al = 0) by (apply ceil_mul_mod; exact Hal).
    assert (Hplm : blen payload mod al = 0) by (rewrite Hpl; apply mod_sub_mult; auto).
    assert (Hpsle : psize <= blen payload) by (apply ceil_mul_le_mult; auto).
    assert (Hpsge : extent et i <= psize) by (apply ceil_mul_ge; exact Hal).
    assert (Hoffm : off mod al = 0) by (apply mod_add_mult; auto).
    unfold from_usize in H.
    destruct (N.leb_spec off (int_max l)) as [Hom|Hom]; [|discriminate H].
    destruct (N.ltb_spec off (int_max l)) as [Holt|Holt]; [|discriminate H].
    assert (Haa : aligned a (ialign l) = true).
    { apply aligned_iff. apply mod_trans with (m := al); auto. }
    rewrite (emplace_int_ok l (int_max l) a slot Haa) in H by slia. cbv beta iota in H.
    destruct (N.ltb_spec (blen payload') psize); [discriminate H|].
    change (match prev with
            | Some (pp, po) => take pp pre ++ to_bytes (ibe l) (isize l) po ++ drop (pp + isize l) pre
            | None => pre
            end) with (seal l prev pre) in H.
    set (slot' := to_bytes (ibe l) (isize l) (int_max l) ++ drop (isize l) slot) in *.
    assert (Hsl' : blen slot' = os) by (unfold slot'; rewrite blen_set_len; slia).
    pose proof (seal_blen l prev pre Hprev) as Hseal.
    set (pre' := seal l prev pre) in *.
    set (tk := take psize payload') in *. set (data2 := drop psize payload') in *.
    assert (Htk : blen tk = psize) by (unfold tk; apply blen_take_le; slia).
    assert (Hd2 : blen data2 = blen payload - psize) by (unfold data2; rewrite blen_drop; slia).
    assert (Hprev2 : prev_ok l (Some (blen pre', off)) (pre' ++ slot' ++ tk)).
    { cbn [prev_ok]. rewrite !blen_app. slia. }
    pose proof (sum_offf_mod et l Hw r) as Hsr. fold al in Hsr.
    assert (Hoffn : off <= n) by slia.
    pose proof (IHr (pre' ++ slot' ++ tk) (Some (blen pre', off)) (a + off) data2 (pos + off) b' Hallr
                  ltac:(apply mod_add_mult; auto) ltac:(rewrite Hd2; apply mod_sub_mult; auto) Hprev2 H
                  (n - off) ltac:(slia)) as Hrec.
    replace (blen (pre' ++ slot' ++ tk) + (n - off)) with (blen pre + n) in Hrec
      by (rewrite !blen_app; slia).
    rewrite Hrec. unfold data2. rewrite drop_drop.
    rewrite (IF (psize + (n - off)) ltac:(slia)).
    unfold payload. rewrite drop_drop. f_equal. slia.
Qed.

Lemma fr_flex et l : wf (TFlex et l) = true -> narrow_ty (TFlex et l) = true -> FR et -> FR (TFlex et l).
Proof.
  intros Hw Hnt IHF pv i a buf buf' Hi Hu Ha Hm H n Hn.
  apply drop_eq_mono with (m := extent (TFlex et l) i); [|exact Hn]. clear n Hn.
  destruct (emp_ok_facts _ Hw Hnt pv i a buf buf' Hi Hu Ha Hm H) as (_ & Hext & Hmod).
  pose proof Hnt as Hnt0. apply narrow_flex_inv in Hnt0. destruct Hnt0 as [Hnet Hn].
  pose proof (flex_consts et l Hw) as (Hal & Hlos & Hosal & Halia & Hos & Hia & Halet).
  pose proof Hw as Hw0. apply wf_flex_inv in Hw0. destruct Hw0 as [Hwt Hl].
  pose proof (proj1 emp_mut et Hwt Hnet) as IH.
  assert (Hdef : write_int l 0 buf = (buf', Ok tt) -> flex_offset_size et l <= extent (TFlex et l) i ->
                 drop (extent (TFlex et l) i) buf' = drop (extent (TFlex et l) i) buf).
  { intros Hwr He. apply (write_int_frame l 0 buf buf' _ Hwr). slia. }
  unfold init_ok in Hi.
  destruct i as [v|is0|k0 is0|is0|is0|s0|is0| |]; cbn [spec_value] in Hi; try discriminate Hi;
    [|apply Hdef; [exact H|apply N.le_refl]|apply Hdef; [exact H|apply N.le_refl]].
  destruct (opt_map_all (spec_value et) is0) as [vs|] eqn:Es; [|discriminate]. clear Hi Hdef.
  cbn [utf8_init] in Hu. pose proof (flex_inits_ok et is0 vs Es Hu) as Hall.
  cbn [min_size] in Hm. change (umax (isize l) (align et)) with (flex_offset_size et l) in Hm.
  cbn [align] in Ha, Hmod. change (umax (ialign l) (align et)) with (align (TFlex et l)) in Ha, Hmod.
  apply aligned_iff in Ha.
  set (os := flex_offset_size et l) in *. set (al := align (TFlex et l)) in *.
  rewrite emplace_u_flex in H. cbv zeta in H. fold al in H.
  set (n0 := floor_mul (blen buf) al) in *.
  pose proof (floor_mul_le (blen buf) al Hal) as Hnb. fold n0 in Hnb.
  assert (Hon : os <= n0) by (apply floor_mul_ge_mult; auto).
  assert (Hnm : n0 mod al = 0) by (apply floor_mul_mod; exact Hal).
  assert (Hdl : blen (take n0 buf) = n0) by (apply blen_take_le; exact Hnb).
  assert (Haa : aligned a (ialign l) = true).
  { apply aligned_iff. apply mod_trans with (m := al); auto. }
  rewrite (emplace_int_ok l 0 a (take n0 buf) Haa) in H by slia. cbv beta iota in H.
  set (data0 := to_bytes (ibe l) (isize l) 0 ++ drop (isize l) (take n0 buf)) in *.
  assert (Hd0 : blen data0 = n0) by (unfold data0; rewrite blen_set_len; slia).
  assert (Hd0m : blen data0 mod al = 0) by (rewrite Hd0; exact Hnm).
  pose proof (flex_fill_post pv et l Hw Hn IH is0 [] None a data0 0 Hall Ha Hd0m I) as (_ & R2 & _).
  destruct (flex_fill et l (flex_item_emp pv et) (size_m et) is0 [] None a data0 0) as [rd rres] eqn:Er.
  cbn [fst snd] in H, R2. injection H as <- ->.
  rewrite blen_nil, N.add_0_l in R2.
  set (ext := extent (TFlex et l) (IFlex is0)) in *.
  assert (Hen : ext <= n0) by (apply floor_mul_ge_mult; auto).
  assert (Hge : os <= ext /\ sum_list (map (offf et l) is0) <= ext).
  { unfold ext. destruct is0 as [|x r0].
    - cbn [extent map sum_list]. fold os. slia.
    - change (extent (TFlex et l) (IFlex (x :: r0))) with (sum_list (map (offf et l) (x :: r0))).
      split; [|apply N.le_refl]. cbn [map sum_list]. unfold offf. fold os. slia. }
  destruct Hge as [Hge1 Hge2].
  pose proof (flex_fill_frame pv et l Hw Hn IH IHF is0 [] None a data0 0 rd Hall Ha Hd0m I Er ext Hge2) as Hd.
  rewrite blen_nil, N.add_0_l in Hd.
  assert (Hd1 : drop ext data0 = drop ext (take n0 buf)).
  { unfold data0. rewrite drop_app_ge by (rewrite tb_len; slia). rewrite tb_len, drop_drop. f_equal. slia. }
  rewrite (drop_prefix_tail (take n0 buf) rd (drop n0 buf) ext) by (try slia; congruence).
  rewrite take_drop. reflexivity.
Qed.

(* ---------- 10. the mutual induction ---------- *)

Theorem frame_mut :
  (forall t, wf t = true -> narrow_ty t = true -> FR t) /\
  (forall fs, fs <> FNil -> wfF fs -> narrow_fields fs = true -> FRF fs) /\
  (forall vs, wf_variants false vs = true -> narrow_variants vs = true -> FRV vs).
Proof.
  apply ty_mutind.
  - intros Hw _. apply fr_sized; auto.
  - intros it Hw _. apply fr_sized; auto.
  - intros Hw _. apply fr_sized; auto.
  - intros tag n d Hw _. apply fr_sized; auto.
  - intros t _ n Hw _. apply fr_sized; auto.
  - intros t _ l Hw _. apply fr_vec; auto.
  - intros l Hw _. apply fr_str; auto.
  - intros t IH l Hw Hn. apply fr_flex; auto.
    apply wf_flex_inv in Hw. apply narrow_flex_inv in Hn. apply IH; tauto.
  - intros s fs IH Hw Hn. destruct s; [apply fr_sized; auto|].
    apply fr_struct; auto. destruct (wf_struct_wfF _ _ Hw) as [Hnil|Hf]; [subst fs; discriminate Hw|].
    apply IH; auto. intros ->. discriminate Hw.
  - intros s tag d vs IH Hw Hn. destruct s; [apply fr_sized; auto|].
    apply fr_enum; auto. apply narrow_enum_inv in Hn.
    pose proof (wf_enum_inv _ _ _ _ Hw) as (_ & _ & _ & _ & _ & Hwv). apply IH; tauto.
  - intros H. congruence.
  - intros t IHt r IHr _ Hf Hn. cbn [narrow_fields] in Hn. apply andb_true_iff in Hn. destruct Hn as [Hnt Hnr].
    destruct (wfF_cons _ _ Hf) as [Hwt Hr].
    destruct r as [|t' r'].
    + apply frf_single; auto.
    + destruct Hr as [Hr|[Hst Hr]]; [discriminate|].
      apply frf_cons2; auto. apply IHr; auto. congruence.
  - intros _ _ pv k is a data tag kv tagb r' [fvs Hs]. discriminate.
  - intros fs IHf r IHr Hw Hn. cbn [narrow_variants] in Hn. apply andb_true_iff in Hn. destruct Hn as [Hnf Hnr].
    pose proof (wf_variants_cons _ _ _ Hw) as [Hf Hr].
    apply frv_step; auto.
    destruct fs as [|t0 r0]; [left; reflexivity|]. right.
    destruct Hf as [Hf|Hf]; [discriminate|]. split; [exact Hf|]. apply IHf; auto. congruence.
Qed.

(* ---------- 11. the delivered statements ---------- *)

Theorem emplace_u_success_frame t i : wf t = true -> narrow_ty t = true ->
  init_ok t i = true -> utf8_init i = true ->
  forall pv a buf buf', aligned a (align t) = true -> min_size t <= blen buf ->
    emplace_u pv t i a buf = (buf', Ok tt) ->
    drop (extent t i) buf' = drop (extent t i) buf.
Proof.
  intros Hw Hn Hi Hu pv a buf buf' Ha Hm H.
  exact (proj1 frame_mut t Hw Hn pv i a buf buf' Hi Hu Ha Hm H (extent t i) (N.le_refl _)).
Qed.

Theorem emplace_success_frame t i : wf t = true -> narrow_ty t = true ->
  init_ok t i = true -> utf8_init i = true ->
  forall pv a buf buf', emplace pv t i a buf = (buf', Ok tt) ->
    drop (extent t i) buf' = drop (extent t i) buf.
Proof.
  intros Hw Hn Hi Hu pv a buf buf' H.
  destruct (emplace_cases pv t i a buf) as [[_ E]|[(_ & _ & E)|(Ha & Hm & E)]]; rewrite E in H; try discriminate H.
  exact (emplace_u_success_frame t i Hw Hn Hi Hu pv a buf buf' Ha Hm H).
Qed.

Theorem assign_success_frame t i : wf t = true -> narrow_ty t = true ->
  init_ok t i = true -> utf8_init i = true ->
  forall pv a bs bs', validate t a bs = Ok tt -> assign_in_place pv t i a bs = (bs', Ok tt) ->
    drop (extent t i) bs' = drop (extent t i) bs.
Proof.
  intros Hw Hn Hi Hu pv a bs bs' Hv H.
  destruct (as_bytes_roundtrip t a bs Hw Hv) as (n & k & Hbl & Hsz & Hnb & Hkn & _).
  pose proof Hv as Hv0. apply validate_inv in Hv0. destruct Hv0 as (Hc & Hm & Hvu).
  destruct (T1_size t a bs k Hw Hm Hvu Hsz) as (_ & _ & Hmk).
  assert (Ha : aligned a (align t) = true).
  { unfold check_align_min in Hc. destruct (aligned a (align t)); [reflexivity|discriminate]. }
  unfold assign_in_place in H. rewrite Hbl in H. unfold on_slice in H.
  rewrite take_0, drop_0, N.add_0_l in H. cbn [app] in H.
  assert (Htl : blen (take n bs) = n) by (apply blen_take_le; exact Hnb).
  destruct (emplace_u pv t i a (take n bs)) as [rd rres] eqn:Er.
  cbn [fst snd] in H. injection H as <- ->.
  destruct (emp_ok_facts t Hw Hn pv i a (take n bs) rd Hi Hu Ha ltac:(lia) Er) as (Hrl & Hext & _).
  pose proof (emplace_u_success_frame t i Hw Hn Hi Hu pv a (take n bs) rd Ha ltac:(lia) Er) as Hd.
  rewrite (drop_prefix_tail (take n bs) rd (drop n bs) (extent t i)) by (auto; lia).
  rewrite take_drop. reflexivity.
Qed.

Theorem emplace_refused_by_check_unchanged pv t i a buf k p :
  check_align_min t a buf = Err k p -> emplace pv t i a buf = (buf, Err k p).
Proof. intros H. unfold emplace. rewrite H. reflexivity. Qed.
