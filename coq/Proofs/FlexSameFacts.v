(* FlexSameFacts.v — C13 for FlexVec, every later operation: two valid FlexVec images with the same
   skeleton (slot positions, stored offsets, termination) and equivalent items (valid, same content,
   same size()) report the same outcome for every operation and stay so related.  The state after a
   refused push is so related to the state before it. *)
From Coq Require Import List NArith Bool Lia ZArith ZifyN ZifyBool ZifyNat.
From Flatty.Model Require Import Base Ty Layout Validate View Emplace Ops Portable.
From Flatty.Proofs Require Import ArithFacts LayoutFacts BytesFacts ValidateFacts FramingFacts ChainFacts
  ViewFacts PortableFacts OpsFacts EmplaceFacts EmplaceSpec EncFacts FlexOpsFacts EmplaceUnsizedFacts
  AssignValidFacts AssignSpineFacts FlexAllFacts VecOpsFacts VecTypedFacts.
Open Scope N_scope.

(* ---------- lists ---------- *)

Lemma Forall2_nth_intro {A B} (R : A -> B -> Prop) : forall xs ys, length xs = length ys ->
  (forall j x y, nth_error xs j = Some x -> nth_error ys j = Some y -> R x y) -> Forall2 R xs ys.
Proof.
  induction xs as [|x r IH]; intros [|y s] Hlen Hn; cbn [length] in Hlen; try discriminate; constructor.
  - apply (Hn O); reflexivity.
  - apply IH; [lia|]. intros j x' y' Hx Hy. apply (Hn (S j)); assumption.
Qed.

Lemma Forall2_nth {A B} (R : A -> B -> Prop) xs ys : Forall2 R xs ys -> forall j,
  match nth_error xs j, nth_error ys j with
  | Some x, Some y => R x y
  | None, None => True
  | _, _ => False
  end.
Proof.
  induction 1 as [|x y r s Hxy Hr IH]; intros [|j]; cbn [nth_error]; auto. apply IH.
Qed.

Lemma Forall2_firstn {A B} (R : A -> B -> Prop) xs ys : Forall2 R xs ys -> forall n,
  Forall2 R (firstn n xs) (firstn n ys).
Proof.
  induction 1 as [|x y r s Hxy Hr IH]; intros [|n]; cbn [firstn]; constructor; auto.
Qed.

Lemma Forall2_skipn {A B} (R : A -> B -> Prop) xs ys : Forall2 R xs ys -> forall n,
  Forall2 R (skipn n xs) (skipn n ys).
Proof.
  induction 1 as [|x y r s Hxy Hr IH]; intros [|n]; cbn [skipn]; try constructor; auto.
Qed.

Lemma Forall2_splice {A B} (R : A -> B -> Prop) xs ys j x y : Forall2 R xs ys -> R x y ->
  Forall2 R (FlexOpsFacts.splice j x xs) (FlexOpsFacts.splice j y ys).
Proof.
  intros H Hxy. unfold FlexOpsFacts.splice. apply Forall2_app; [apply Forall2_firstn; exact H|].
  constructor; [exact Hxy|apply Forall2_skipn; exact H].
Qed.

Lemma Forall2_last {A B} (R : A -> B -> Prop) xs ys dx dy : Forall2 R xs ys -> R dx dy ->
  R (last xs dx) (last ys dy).
Proof.
  intros H Hd. induction H as [|x y r s Hxy Hr IH]; [exact Hd|].
  destruct Hr as [|x2 y2 r2 s2 Hxy2 Hr2]; [exact Hxy|exact IH].
Qed.

Lemma Forall2_removelast {A B} (R : A -> B -> Prop) xs ys : Forall2 R xs ys ->
  Forall2 R (removelast xs) (removelast ys).
Proof.
  induction 1 as [|x y r s Hxy Hr IH]; [constructor|].
  destruct Hr as [|x2 y2 r2 s2 Hxy2 Hr2]; [constructor|].
  cbn [removelast] in *. constructor; [exact Hxy|exact IH].
Qed.

Lemma Forall2_sym {A B} (R : A -> B -> Prop) (S : B -> A -> Prop) xs ys :
  (forall x y, R x y -> S y x) -> Forall2 R xs ys -> Forall2 S ys xs.
Proof. intros HRS. induction 1; constructor; auto. Qed.

Lemma Forall_and {A} (P Q : A -> Prop) xs : Forall P xs -> Forall Q xs -> Forall (fun x => P x /\ Q x) xs.
Proof. induction 1 as [|x r Hx Hr IH]; intros HQ; inversion HQ; subst; constructor; auto. Qed.

Lemma Forall2_snoc_inv {A B} (R : A -> B -> Prop) xs x ys y :
  Forall2 R (xs ++ [x]) (ys ++ [y]) -> Forall2 R xs ys /\ R x y.
Proof.
  intros H. apply Forall2_app_inv_l in H. destruct H as (l1 & l2 & H1 & H2 & Heq).
  inversion H2 as [|x0 y0 r r' Hxy Hr]; subst. inversion Hr; subst.
  apply app_inj_tail in Heq. destruct Heq as [-> ->]. auto.
Qed.

Lemma last_app_single {A} (xs : list A) x d : last (xs ++ [x]) d = x.
Proof. apply last_last. Qed.

(* ---------- equivalent payloads ---------- *)

(* two payloads of an item slot that cannot be told apart through the accessors: both are valid
   values of the item type at the payload address, read the same content (capacities aside) and
   report the same size() *)
Definition peq (et : ty) (pa : N) (p1 p2 : bytes) : Prop :=
  validate et pa p1 = Ok tt /\ validate et pa p2 = Ok tt /\
  size_m et p2 = size_m et p1 /\
  exists v1 v2, view et p1 = Ok v1 /\ view et p2 = Ok v2 /\ strip v2 = strip v1.

Lemma peq_sym et pa p1 p2 : peq et pa p1 p2 -> peq et pa p2 p1.
Proof.
  intros (H1 & H2 & H3 & v1 & v2 & H4 & H5 & H6). repeat split; auto. exists v2, v1. auto.
Qed.

Lemma peq_trans et pa p1 p2 p3 : peq et pa p1 p2 -> peq et pa p2 p3 -> peq et pa p1 p3.
Proof.
  intros (H1 & H2 & H3 & v1 & v2 & H4 & H5 & H6) (G1 & G2 & G3 & w2 & w3 & G4 & G5 & G6).
  rewrite H5 in G4. injection G4 as <-.
  repeat split; auto; [congruence|]. exists v1, w3. repeat split; auto. congruence.
Qed.

Lemma peq_refl et pa p : wf et = true -> validate et pa p = Ok tt -> peq et pa p p.
Proof.
  intros Hw Hv. destruct (valid_size_view et pa p Hw Hv) as (k & v & _ & _ & _ & _ & Hview & _).
  repeat split; auto. exists v, v. auto.
Qed.

(* ---------- the relation ---------- *)

(* same skeleton, equivalent items.  The skeleton is what the iterator of the operations sees
   (Model/Ops.v flex_chain): the list of (slot position, payload length) and how the chain ends. *)
Definition srel (et : ty) (l : intty) (a : N) (bs1 bs2 : bytes) : Prop :=
  let t := TFlex et l in
  let os := flex_offset_size et l in
  let al := align (TFlex et l) in
  blen bs2 = blen bs1 /\
  validate t a bs1 = Ok tt /\ validate t a bs2 = Ok tt /\
  size_m t bs2 = size_m t bs1 /\
  exists its e,
    flex_chain l os al (flex_data et l bs1) = Ok (its, e) /\
    flex_chain l os al (flex_data et l bs2) = Ok (its, e) /\
    Forall (fun pl : N * N =>
              peq et (a + fst pl + os)
                (take (snd pl) (drop (fst pl + os) (flex_data et l bs1)))
                (take (snd pl) (drop (fst pl + os) (flex_data et l bs2)))) its.

Lemma srel_sym et l a bs1 bs2 : srel et l a bs1 bs2 -> srel et l a bs2 bs1.
Proof.
  intros (Hb & Hv1 & Hv2 & Hs & its & e & Hc1 & Hc2 & Hf).
  unfold srel. cbv zeta. repeat split; auto. exists its, e. repeat split; auto.
  eapply Forall_impl; [|exact Hf]. cbv beta. intros pl H. apply peq_sym. exact H.
Qed.

Lemma srel_trans et l a bs1 bs2 bs3 : srel et l a bs1 bs2 -> srel et l a bs2 bs3 -> srel et l a bs1 bs3.
Proof.
  intros (Hb & Hv1 & Hv2 & Hs & its & e & Hc1 & Hc2 & Hf) (Gb & Gv1 & Gv2 & Gs & its' & e' & Gc1 & Gc2 & Gf).
  rewrite Hc2 in Gc1. injection Gc1 as <- <-.
  unfold srel. cbv zeta. repeat split; auto; try congruence. exists its, e. repeat split; auto.
  pose proof (Forall_and _ _ _ Hf Gf) as Hfg.
  eapply Forall_impl; [|exact Hfg]. cbv beta. intros pl [H G]. eapply peq_trans; eauto.
Qed.

(* ---------- the working form: the two chains side by side ---------- *)

Section Same.
  Variables (pv : option N) (et : ty) (l : intty) (a : N).
  Hypothesis Hw : wf (TFlex et l) = true.
  Hypothesis Hnt : narrow_ty (TFlex et l) = true.
  Local Notation t := (TFlex et l).
  Local Notation os := (flex_offset_size et l).
  Local Notation al := (align (TFlex et l)).
  Local Notation mx := (flex_max l).
  Local Notation data := (flex_data et l).
  Local Notation views := (Forall2 (fun (x : flex_item) v => view et (snd x) = Ok v)).

  Let Hwt : wf et = true := proj1 (wf_flex_inv et l Hw).
  Let Hnet : narrow_ty et = true := proj1 (narrow_flex_inv et l Hnt).
  Let Hnar : narrow l = true := proj2 (narrow_flex_inv et l Hnt).

  (* corresponding items: same slot, same payload address and length, equivalent payloads *)
  Definition ieq (x y : flex_item) : Prop :=
    item_pos y = item_pos x /\ snd (fst y) = snd (fst x) /\ blen (snd y) = blen (snd x) /\
    peq et (snd (fst x)) (snd x) (snd y).

  Definition wrel (bs1 bs2 : bytes) (items1 items2 : list flex_item) (e : flex_end) (vs1 vs2 : list value) : Prop :=
    fstate et l a bs1 items1 e vs1 /\ fstate et l a bs2 items2 e vs2 /\ blen bs2 = blen bs1 /\
    Forall2 ieq items1 items2.

  (* where an item of a state lies and what it holds *)
  Definition item_at (bs : bytes) (x : flex_item) (v : value) : Prop :=
    snd (fst x) = a + item_pos x + os /\
    snd x = take (blen (snd x)) (drop (item_pos x + os) (data bs)) /\
    view et (snd x) = Ok v /\ validate et (snd (fst x)) (snd x) = Ok tt.

  Lemma fstate_items bs items e vs : fstate et l a bs items e vs -> Forall2 (item_at bs) items vs.
  Proof.
    intros Hst. pose proof Hst as (_ & _ & Hvs & _).
    apply Forall2_nth_intro; [apply (Forall2_len _ _ _ Hvs)|].
    intros j [[p pa] pl] v Hx Hv.
    destruct (edit_state et l a Hw Hnar j bs items e vs p pa pl Hst Hx) as (Hpa & _ & Hpl & (v1 & Hv1 & Hview) & Hval & _).
    rewrite Hv in Hv1. injection Hv1 as <-. unfold item_at, item_pos. cbn [fst snd]. auto.
  Qed.

  Lemma ieq_views items1 items2 : Forall2 ieq items1 items2 -> forall vs1 vs2,
    views items1 vs1 -> views items2 vs2 -> map strip vs2 = map strip vs1.
  Proof.
    induction 1 as [|x y r s Hxy Hr IH]; intros vs1 vs2 H1 H2.
    - inversion H1; inversion H2; subst. reflexivity.
    - inversion H1 as [|x1 v1 r1 vs1' Hv1 Hr1]; subst. inversion H2 as [|y2 v2 r2 vs2' Hv2 Hr2]; subst.
      cbn [map]. f_equal; [|apply IH; assumption].
      destruct Hxy as (_ & _ & _ & (_ & _ & _ & w1 & w2 & A & B & C)). congruence.
  Qed.

  Lemma ieq_pl items1 items2 : Forall2 ieq items1 items2 -> map item_pl items2 = map item_pl items1.
  Proof.
    induction 1 as [|x y r s Hxy Hr IH]; [reflexivity|]. cbn [map]. rewrite IH. f_equal.
    destruct Hxy as (A & _ & B & _). unfold item_pl. rewrite A, B. reflexivity.
  Qed.

  Lemma ieq_pos items1 items2 : Forall2 ieq items1 items2 -> map item_pos items2 = map item_pos items1.
  Proof.
    induction 1 as [|x y r s Hxy Hr IH]; [reflexivity|]. cbn [map]. rewrite IH. f_equal.
    destruct Hxy as (A & _). exact A.
  Qed.

  Lemma ieq_last_size items1 items2 : Forall2 ieq items1 items2 ->
    size_m et (snd (last items2 no_item)) = size_m et (snd (last items1 no_item)).
  Proof.
    induction 1 as [|x y r s Hxy Hr IH]; [reflexivity|].
    destruct Hr as [|x2 y2 r2 s2 Hxy2 Hr2]; [|exact IH].
    cbn [last]. destruct Hxy as (_ & _ & _ & (_ & _ & A & _)). exact A.
  Qed.

  Lemma ieq_refl x : validate et (snd (fst x)) (snd x) = Ok tt -> ieq x x.
  Proof.
    intros H. split; [reflexivity|]. split; [reflexivity|]. split; [reflexivity|]. apply (peq_refl et _ _ Hwt H).
  Qed.

  Lemma ieq_sym x y : ieq x y -> ieq y x.
  Proof.
    intros (A & B & C & D). unfold ieq. rewrite A, B, C.
    split; [reflexivity|]. split; [reflexivity|]. split; [reflexivity|]. apply peq_sym. exact D.
  Qed.

  Definition slot_peq (bs1 bs2 : bytes) (pl : N * N) : Prop :=
    peq et (a + fst pl + os)
      (take (snd pl) (drop (fst pl + os) (data bs1)))
      (take (snd pl) (drop (fst pl + os) (data bs2))).

  Lemma pack_aux bs1 bs2 items1 items2 : Forall2 ieq items1 items2 -> forall vs1 vs2,
    Forall2 (item_at bs1) items1 vs1 -> Forall2 (item_at bs2) items2 vs2 ->
    Forall (slot_peq bs1 bs2) (map item_pl items1).
  Proof.
    induction 1 as [|x y r s Hxy Hr IH]; intros vs1 vs2 H1 H2; cbn [map]; [constructor|].
    inversion H1 as [|x1 v1 r1 vs1' Hx Hr1]; subst. inversion H2 as [|y2 v2 r2 vs2' Hy Hr2]; subst.
    constructor; [|eapply IH; eauto].
    destruct Hxy as (A & B & C & D). destruct Hx as (X1 & X2 & _). destruct Hy as (Y1 & Y2 & _).
    unfold slot_peq, item_pl. cbn [fst snd]. rewrite <- X1.
    rewrite A, C in Y2. rewrite <- X2, <- Y2. exact D.
  Qed.

  Lemma unpack_aux bs1 bs2 : forall items1 items2 vs1 vs2,
    map item_pl items2 = map item_pl items1 ->
    Forall2 (item_at bs1) items1 vs1 -> Forall2 (item_at bs2) items2 vs2 ->
    Forall (slot_peq bs1 bs2) (map item_pl items1) -> Forall2 ieq items1 items2.
  Proof.
    induction items1 as [|x r IH]; intros [|y s] vs1 vs2 Hm H1 H2 HQ; cbn [map] in Hm; try discriminate; [constructor|].
    assert (Hxy : item_pl y = item_pl x) by congruence.
    assert (Hm' : map item_pl s = map item_pl r) by congruence. clear Hm.
    inversion H1 as [|x1 v1 r1 vs1' Hx Hr1]; subst. inversion H2 as [|y2 v2 r2 vs2' Hy Hr2]; subst.
    cbn [map] in HQ. inversion HQ as [|q qs Hq HQ']; subst.
    constructor; [|eapply IH; eauto].
    assert (A : item_pos y = item_pos x) by (unfold item_pl in Hxy; congruence).
    assert (C : blen (snd y) = blen (snd x)) by (unfold item_pl in Hxy; congruence).
    destruct Hx as (X1 & X2 & _). destruct Hy as (Y1 & Y2 & _).
    unfold ieq. split; [exact A|]. split; [rewrite X1, Y1, A; reflexivity|]. split; [exact C|].
    unfold slot_peq, item_pl in Hq. cbn [fst snd] in Hq. rewrite <- X1 in Hq.
    rewrite A, C in Y2. rewrite <- X2, <- Y2 in Hq. exact Hq.
  Qed.

  Lemma wrel_srel bs1 bs2 items1 items2 e vs1 vs2 : wrel bs1 bs2 items1 items2 e vs1 vs2 -> srel et l a bs1 bs2.
  Proof.
    intros (Hst1 & Hst2 & Hb & Hf).
    destruct (fstate_facts et l a Hw Hnar _ _ _ _ Hst1) as (Hv1 & _ & Hs1 & Hc1).
    destruct (fstate_facts et l a Hw Hnar _ _ _ _ Hst2) as (Hv2 & _ & Hs2 & Hc2).
    unfold srel. cbv zeta. split; [exact Hb|]. split; [exact Hv1|]. split; [exact Hv2|]. split.
    - rewrite Hs1, Hs2. unfold flex_size_spec. destruct e as [p|p]; [reflexivity|].
      rewrite (ieq_last_size _ _ Hf). reflexivity.
    - exists (map item_pl items1), e. split; [exact Hc1|]. split; [rewrite Hc2, (ieq_pl _ _ Hf); reflexivity|].
      apply (pack_aux bs1 bs2 items1 items2 Hf vs1 vs2); apply (fstate_items _ _ e); assumption.
  Qed.

  Lemma srel_wrel bs1 bs2 : srel et l a bs1 bs2 ->
    exists items1 items2 e vs1 vs2, wrel bs1 bs2 items1 items2 e vs1 vs2.
  Proof.
    intros (Hb & Hv1 & Hv2 & Hs & its & e & Hc1 & Hc2 & Hf).
    destruct (valid_unpack et l a Hw bs1 Hv1) as (items1 & e1 & vs1 & Hst1).
    destruct (valid_unpack et l a Hw bs2 Hv2) as (items2 & e2 & vs2 & Hst2).
    destruct (fstate_facts et l a Hw Hnar _ _ _ _ Hst1) as (_ & _ & _ & Hc1').
    destruct (fstate_facts et l a Hw Hnar _ _ _ _ Hst2) as (_ & _ & _ & Hc2').
    rewrite Hc1 in Hc1'. injection Hc1' as Hi1 He1. rewrite Hc2 in Hc2'. injection Hc2' as Hi2 He2.
    subst e1 e2 its. exists items1, items2, e, vs1, vs2. split; [exact Hst1|]. split; [exact Hst2|]. split; [exact Hb|].
    apply (unpack_aux bs1 bs2 items1 items2 vs1 vs2); auto.
    - apply (fstate_items _ _ e); assumption.
    - apply (fstate_items _ _ e); assumption.
  Qed.

  (* what is observable is the same *)
  Lemma wrel_observe bs1 bs2 items1 items2 e vs1 vs2 : wrel bs1 bs2 items1 items2 e vs1 vs2 ->
    view t bs1 = Ok (VNode 0 vs1) /\ view t bs2 = Ok (VNode 0 vs2) /\ map strip vs2 = map strip vs1.
  Proof.
    intros (Hst1 & Hst2 & Hb & Hf).
    destruct (fstate_facts et l a Hw Hnar _ _ _ _ Hst1) as (_ & Hview1 & _).
    destruct (fstate_facts et l a Hw Hnar _ _ _ _ Hst2) as (_ & Hview2 & _).
    split; [exact Hview1|]. split; [exact Hview2|].
    destruct Hst1 as (_ & _ & Hvs1 & _). destruct Hst2 as (_ & _ & Hvs2 & _).
    apply (ieq_views _ _ Hf); assumption.
  Qed.

  (* ---------- equal first size() bytes: related ---------- *)

  Lemma item_ok_validate x : item_ok et x -> validate et (snd (fst x)) (snd x) = Ok tt.
  Proof. intros [Hc Hv]. unfold validate. rewrite Hc. cbn [bind]. exact Hv. Qed.

  Lemma ieq_refl_all items : Forall (item_ok et) items -> Forall2 ieq items items.
  Proof.
    induction 1 as [|x r Hx Hr IH]; constructor; [|exact IH]. apply ieq_refl. apply item_ok_validate. exact Hx.
  Qed.

  Lemma data_blen_eq bs1 bs2 : blen bs2 = blen bs1 -> blen (data bs2) = blen (data bs1).
  Proof.
    intros Hb. destruct (flex_data_blen et l bs1 Hw) as (H1 & _). destruct (flex_data_blen et l bs2 Hw) as (H2 & _).
    rewrite H1, H2, Hb. reflexivity.
  Qed.

  Lemma frel_wrel k bs1 bs2 : frel et l a k bs1 bs2 ->
    exists items1 items2 e vs1 vs2, wrel bs1 bs2 items1 items2 e vs1 vs2.
  Proof.
    intros Hrel. destruct (frel_valid et l a Hw Hnar _ _ _ Hrel) as (Hv2 & Hk2 & Hkb & Hkmod & _).
    pose proof Hrel as (Hv1 & Hk1 & Hb & Htk).
    pose proof (flex_consts et l Hw) as (Hal & Hlos & _).
    destruct (valid_unpack et l a Hw bs1 Hv1) as (items1 & e1 & vs1 & Hst1).
    pose proof Hst1 as (Hch1 & Hok1 & Hvs1 & Hc1).
    destruct (fstate_facts et l a Hw Hnar _ _ _ _ Hst1) as (_ & _ & Hsz1 & _). rewrite Hk1 in Hsz1.
    assert (Hag : agree k (data bs1) (data bs2)).
    { apply flex_data_agree; auto. apply agree_of_take_eq; [lia|lia|exact Htk]. }
    destruct (validate_inv _ _ _ Hv2) as (Hc2 & _ & _).
    pose proof (data_blen_eq bs1 bs2 Hb) as Hd.
    pose proof (chain_local l os al mx a _ 0 items1 e1 Hlos Hch1 _ k Hag) as Hloc.
    destruct e1 as [p|p]; cbn [end_pos end_slot] in Hloc; unfold flex_size_spec in Hsz1.
    - injection Hsz1 as Hsz1. specialize (Hloc ltac:(lia)).
      exists items1, items1, (EndZero p), vs1, vs1. split; [exact Hst1|]. split; [|split; [exact Hb|]].
      + split; [exact Hloc|]. split; [exact Hok1|]. split; [exact Hvs1|exact Hc2].
      + apply ieq_refl_all. exact Hok1.
    - symmetry in Hsz1. apply bind_ok_inv in Hsz1. destruct Hsz1 as (sz & Hszp & Hsz1). injection Hsz1 as Hsz1.
      change (umax (ialign l) (align et)) with al in Hsz1.
      specialize (Hloc ltac:(lia)). destruct Hloc as (pre & pa & Hitems1 & Hloc).
      rewrite N.sub_0_r in Hitems1, Hloc.
      set (oldp := drop (p + os) (data bs1)) in *. set (newp := drop (p + os) (data bs2)) in *.
      rewrite Hitems1, last_last in Hszp. cbn [snd] in Hszp.
      rewrite Hitems1 in Hok1, Hvs1.
      apply Forall_app in Hok1. destruct Hok1 as [Hokpre Hoklast].
      inversion Hoklast as [|x r' [Hcl Hvl] _]; subst x r'. cbn [fst snd] in Hcl, Hvl.
      pose proof (check_align_min_ok _ _ _ Hcl) as Hml.
      destruct (T1_size et _ oldp sz Hwt Hml Hvl Hszp) as (Hszb & _ & Hszmin).
      pose proof (ceil_mul_ge sz al Hal) as Hceil.
      assert (Hbn : blen newp = blen oldp) by (unfold newp, oldp; rewrite !blen_drop, Hd; reflexivity).
      destruct (valid_local_u et pa oldp newp sz Hwt Hml Hvl Hszp) as (Hvl' & Hsz' & vo & vo' & Hvo & Hvo' & Hstrip).
      { lia. }
      { unfold newp, oldp. apply (agree_take_drop k (p + os) sz _ _ Hag). lia. }
      assert (Hcl' : check_align_min et pa newp = Ok tt) by (apply (check_align_min_resize et pa oldp newp Hcl); lia).
      apply Forall2_app_inv_l in Hvs1. destruct Hvs1 as (vsa & vsb & Hvsa & Hvsb & Hvseq).
      inversion Hvsb as [|x y r r' Hxy Hr]; subst x r vsb. inversion Hr; subst r'. cbn [snd] in Hxy.
      rewrite Hvo in Hxy. injection Hxy as <-.
      exists items1, (pre ++ [(p, pa, newp)]), (EndLast p), vs1, (vsa ++ [vo']).
      split; [exact Hst1|]. split; [|split; [exact Hb|]].
      + split; [exact Hloc|]. split; [|split; [|exact Hc2]].
        * apply Forall_app. split; [exact Hokpre|]. constructor; [split; assumption|constructor].
        * apply Forall2_views_app; assumption.
      + rewrite Hitems1. apply Forall2_app; [apply ieq_refl_all; exact Hokpre|].
        constructor; [|constructor]. unfold ieq, item_pos. cbn [fst snd].
        split; [reflexivity|]. split; [reflexivity|]. split; [exact Hbn|].
        split; [unfold validate; rewrite Hcl; cbn [bind]; exact Hvl|].
        split; [unfold validate; rewrite Hcl'; cbn [bind]; exact Hvl'|].
        split; [rewrite Hsz', Hszp; reflexivity|]. exists vo, vo'. auto.
  Qed.

  Theorem srel_of_frel k bs1 bs2 : frel et l a k bs1 bs2 -> srel et l a bs1 bs2.
  Proof.
    intros H. destruct (frel_wrel k bs1 bs2 H) as (i1 & i2 & e & v1 & v2 & Hr). exact (wrel_srel _ _ _ _ _ _ _ Hr).
  Qed.

  (* ---------- truncate, clear, pop ---------- *)

  (* truncate on one state, with the end of the new chain spelled out *)
  Lemma truncate_state_e k bs items e vs : fstate et l a bs items e vs ->
    let r := flex_op pv t a (FTruncate k) bs in
    snd r = ODone /\ blen (fst r) = blen bs /\
    fstate et l a (fst r) (firstn (N.to_nat k) items)
      (match nth_error items (N.to_nat k) with Some x => EndZero (item_pos x) | None => e end)
      (firstn (N.to_nat k) vs).
  Proof.
    intros Hst r. pose proof Hst as (Hch & Hok & Hvs & Hc).
    destruct (fstate_facts et l a Hw Hnar _ _ _ _ Hst) as (_ & _ & _ & Hfc).
    pose proof (flex_consts et l Hw) as (Hal & Hlos & _).
    pose proof (Forall2_len _ _ _ Hvs) as Hlen.
    unfold r. rewrite (flex_op_truncate_eq pv et l a k bs _ _ Hfc).
    rewrite (flex_truncate_eval et l a k _ items e Hch Hfc). cbn [fst snd].
    destruct (nth_error items (N.to_nat k)) as [x|] eqn:Hnth.
    - destruct (nth_error_split _ _ Hnth) as (pre & suf & Hitems & Hpre).
      rewrite Hitems in Hch.
      destruct (chain_truncate l os al mx Hlos pre x suf a _ 0 e Hch) as (_ & Hq & Hch').
      rewrite N.sub_0_r in Hq, Hch'.
      set (d' := write_int_at l (item_pos x) 0 (data bs)) in *.
      assert (Hd' : blen d' = blen (data bs)) by (apply write_int_at_blen; exact Hq).
      destruct (back_facts et l a Hw Hnar bs d' Hc Hd') as (Hb & _ & _).
      rewrite Hitems in Hvs. apply Forall2_app_inv_l in Hvs. destruct Hvs as (vs1 & vs2 & Hvs1 & Hvs2 & Hvseq).
      assert (Hf1 : firstn (N.to_nat k) items = pre) by (rewrite Hitems, <- Hpre; apply firstn_app_exact).
      assert (Hf2 : firstn (N.to_nat k) vs = vs1).
      { rewrite Hvseq, <- Hpre, (Forall2_len _ _ _ Hvs1). apply firstn_app_exact. }
      rewrite Hf1, Hf2.
      assert (Hokpre : Forall (item_ok et) pre).
      { rewrite Hitems in Hok. apply Forall_app in Hok. tauto. }
      split; [reflexivity|]. split; [exact Hb|].
      exact (fstate_back et l a Hw Hnar bs d' pre (EndZero (item_pos x)) vs1 Hc Hd' Hch' Hokpre Hvs1).
    - apply nth_error_None in Hnth. rewrite (back_same et l bs).
      rewrite (firstn_all2 items) by exact Hnth. rewrite (firstn_all2 vs) by lia.
      repeat split; auto.
  Qed.

  Lemma truncate_wrel k bs1 bs2 items1 items2 e vs1 vs2 : wrel bs1 bs2 items1 items2 e vs1 vs2 ->
    let r1 := flex_op pv t a (FTruncate k) bs1 in
    let r2 := flex_op pv t a (FTruncate k) bs2 in
    snd r2 = snd r1 /\ srel et l a (fst r1) (fst r2).
  Proof.
    intros (Hst1 & Hst2 & Hb & Hf) r1 r2.
    destruct (truncate_state_e k bs1 items1 e vs1 Hst1) as (Ho1 & Hb1 & Hst1').
    destruct (truncate_state_e k bs2 items2 e vs2 Hst2) as (Ho2 & Hb2 & Hst2').
    fold r1 in Ho1, Hb1, Hst1'. fold r2 in Ho2, Hb2, Hst2'.
    split; [rewrite Ho1, Ho2; reflexivity|].
    pose proof (Forall2_nth _ _ _ Hf (N.to_nat k)) as Hn.
    destruct (nth_error items1 (N.to_nat k)) as [x1|]; destruct (nth_error items2 (N.to_nat k)) as [x2|];
      try contradiction.
    - destruct Hn as (Hp & _). rewrite Hp in Hst2'.
      eapply wrel_srel. split; [exact Hst1'|]. split; [exact Hst2'|]. split; [lia|].
      apply Forall2_firstn. exact Hf.
    - eapply wrel_srel. split; [exact Hst1'|]. split; [exact Hst2'|]. split; [lia|].
      apply Forall2_firstn. exact Hf.
  Qed.

  Lemma shrink_wrel op bs1 bs2 items1 items2 e vs1 vs2 : shrink_op op -> wrel bs1 bs2 items1 items2 e vs1 vs2 ->
    snd (flex_op pv t a op bs2) = snd (flex_op pv t a op bs1) /\
    srel et l a (fst (flex_op pv t a op bs1)) (fst (flex_op pv t a op bs2)).
  Proof.
    intros Hop Hrel. destruct op as [i| |n| |j vo|j x]; cbn [shrink_op] in Hop; try contradiction.
    - pose proof Hrel as (Hst1 & Hst2 & Hb & Hf).
      destruct (fstate_facts et l a Hw Hnar _ _ _ _ Hst1) as (_ & _ & _ & Hfc1).
      destruct (fstate_facts et l a Hw Hnar _ _ _ _ Hst2) as (_ & _ & _ & Hfc2).
      rewrite (flex_op_pop_eq pv et l a bs1 _ _ Hfc1), (flex_op_pop_eq pv et l a bs2 _ _ Hfc2). rewrite !map_length.
      rewrite <- (Forall2_len _ _ _ Hf). destruct (N.of_nat (length items1) =? 0).
      + cbn [fst snd]. split; [reflexivity|]. exact (wrel_srel _ _ _ _ _ _ _ Hrel).
      + exact (truncate_wrel _ _ _ _ _ _ _ _ Hrel).
    - exact (truncate_wrel _ _ _ _ _ _ _ _ Hrel).
    - change (flex_op pv t a FClear bs1) with (flex_op pv t a (FTruncate 0) bs1).
      change (flex_op pv t a FClear bs2) with (flex_op pv t a (FTruncate 0) bs2).
      exact (truncate_wrel _ _ _ _ _ _ _ _ Hrel).
  Qed.

  (* ---------- push ---------- *)

  (* where the slot of a new item goes: into the zero slot the chain ends in, or behind the content
     of the marked last item (size szl) when the offset that seals it is representable *)
  Definition push_tp (e : flex_end) (szl : N) : option N :=
    match e with
    | EndZero p => Some p
    | EndLast p => let lo := os + ceil_mul szl al in if lo <? mx then Some (p + lo) else None
    end.

  Definition push_seal (e : flex_end) (tp : N) (d : bytes) : bytes :=
    match e with EndZero _ => d | EndLast p => write_int_at l p (tp - p) d end.

  (* push on one state, as a function of the end of the chain and the size of the last item *)
  Lemma push_eq i bs items e vs szl : fstate et l a bs items e vs ->
    (forall p, e = EndLast p -> size_m et (snd (last items no_item)) = Ok szl) ->
    flex_op pv t a (FPush i) bs =
    match push_tp e szl with
    | None => (bs, OErr InsufficientSize)
    | Some tp =>
        if floor_mul (blen bs) al - tp <? os then (bs, OErr InsufficientSize)
        else
          match emplace pv et i (a + tp + os) (drop (tp + os) (data bs)) with
          | (payload', Ok _) =>
              (push_seal e tp (write_int_at l tp mx (take (tp + os) (data bs) ++ payload'))
                 ++ drop (floor_mul (blen bs) al) bs, ODone)
          | (payload', Err k _) =>
              ((take (tp + os) (data bs) ++ payload') ++ drop (floor_mul (blen bs) al) bs, OErr k)
          | (_, Crash _) => (bs, OPanic)
          end
    end.
  Proof.
    intros Hst Hszl. pose proof Hst as (Hch & Hok & Hvs & Hc).
    destruct (fstate_facts et l a Hw Hnar _ _ _ _ Hst) as (Hv & _ & Hsz & Hfc).
    pose proof (flex_consts et l Hw) as (Hal & Hlos & Hosm & Hdiv & Hos & Hil & Halt).
    destruct (flex_data_blen et l bs Hw) as (HF & HFle & HFmod).
    destruct (valid_size_view t a bs Hw Hv) as (k & v0 & Hk & Hkb & Hkmod & _).
    assert (Hkn : k <= blen (data bs)) by (rewrite HF; apply floor_mul_ge_mult; auto).
    rewrite Hk in Hsz.
    unfold flex_data in Hfc. unfold flex_op. cbv zeta. rewrite Hfc.
    change (take (floor_mul (blen bs) al) bs) with (data bs).
    rewrite <- (flex_max_eq l Hnar).
    destruct e as [tp|pos]; cbv beta iota; unfold push_tp, push_seal.
    - unfold flex_size_spec in Hsz. injection Hsz as Hsz.
      destruct (N.ltb_spec (floor_mul (blen bs) al) tp) as [Hx|_]; [lia|].
      destruct (floor_mul (blen bs) al - tp <? os); [reflexivity|].
      destruct (emplace pv et i (a + tp + os) (drop (tp + os) (data bs))) as [payload' [[]|kd p|c]]; reflexivity.
    - specialize (Hszl pos eq_refl).
      destruct (chain_last_split l os al mx a _ 0 items pos Hch) as (pre & Hitems & _ & _ & Hroom0).
      rewrite N.sub_0_r in Hitems, Hroom0.
      rewrite Hitems, last_last in Hszl. cbn [snd] in Hszl. rewrite Hszl.
      unfold flex_size_spec in Hsz. rewrite Hitems, last_last in Hsz. cbn [snd] in Hsz.
      rewrite Hszl in Hsz. cbn [bind] in Hsz. injection Hsz as Hsz.
      change (umax (ialign l) (align et)) with al in Hsz.
      cbv zeta. set (lo := os + ceil_mul szl al) in *.
      unfold from_usize. rewrite <- (flex_max_eq l Hnar).
      destruct (N.ltb_spec lo mx) as [Hlt|Hge].
      + destruct (N.leb_spec lo mx) as [_|Hx]; [|lia]. cbv beta iota.
        destruct (N.ltb_spec lo mx) as [_|Hx]; [|lia]. cbv beta iota.
        destruct (N.ltb_spec (floor_mul (blen bs) al) (pos + lo)) as [Hx|_]; [lia|].
        replace (pos + lo - pos) with lo by lia.
        destruct (floor_mul (blen bs) al - (pos + lo) <? os); [reflexivity|].
        destruct (emplace pv et i (a + (pos + lo) + os) (drop (pos + lo + os) (data bs))) as [payload' [[]|kd p|c]];
          reflexivity.
      + destruct (N.leb_spec lo mx) as [Hle|_]; [|reflexivity]. cbv beta iota.
        destruct (N.ltb_spec lo mx) as [Hx|_]; [lia|]. reflexivity.
  Qed.

  Lemma flex_div : al mod ialign l = 0.
  Proof. pose proof (flex_consts et l Hw) as (_ & _ & _ & Hdiv & _). exact Hdiv. Qed.

  Lemma lo_mod szl : (os + ceil_mul szl al) mod al = 0.
  Proof.
    pose proof (flex_consts et l Hw) as (Hal & _ & Hosm & _).
    apply mod_add_mult; auto. apply ceil_mul_mod; auto.
  Qed.

  (* the state after a successful push into the zero slot at tp *)
  Lemma push_done_zero i bs items tp vs payload' : init_ok et i = true -> utf8_init i = true ->
    fstate et l a bs items (EndZero tp) vs ->
    emplace pv et i (a + tp + os) (drop (tp + os) (data bs)) = (payload', Ok tt) ->
    let bs' := write_int_at l tp mx (take (tp + os) (data bs) ++ payload') ++ drop (floor_mul (blen bs) al) bs in
    blen bs' = blen bs /\ blen payload' = blen (data bs) - (tp + os) /\
    validate et (a + tp + os) payload' = Ok tt /\ size_m et payload' = Ok (extent et i) /\
    exists v, view et payload' = Ok v /\ spec_value et i = Some (strip v) /\
      fstate et l a bs' (items ++ [(tp, a + tp + os, payload')]) (EndLast tp) (vs ++ [v]).
  Proof.
    intros Hi Hu Hst Hem bs'. pose proof Hst as (Hch & Hok & Hvs & Hc).
    destruct (fstate_facts et l a Hw Hnar _ _ _ _ Hst) as (Hv & _ & Hsz & Hfc).
    pose proof (flex_consts et l Hw) as (Hal & Hlos & _ & _ & Hos & Hil & _).
    destruct (flex_data_blen et l bs Hw) as (HF & _ & _).
    destruct (mx_facts et l Hw Hnar) as (Hm0 & Hosmx & _ & _ & Henc).
    destruct (valid_size_view t a bs Hw Hv) as (k & v0 & Hk & Hkb & Hkmod & _).
    assert (Hkn : k <= blen (data bs)) by (rewrite HF; apply floor_mul_ge_mult; auto).
    clear Hkmod.
    rewrite Hk in Hsz. unfold flex_size_spec in Hsz. injection Hsz as Hsz.
    assert (Hroom : tp + os <= blen (data bs)) by lia.
    destruct (emplace_reads_back et i Hwt Hnet Hi Hu pv _ _ _ Hem) as (Hplen & Hpv & (v & Hpview & Hspec) & Hpsz).
    rewrite blen_drop in Hplen.
    destruct (chain_push_zero l os al mx Hlos Hm0 Hosmx (fun rest => Henc mx rest (N.le_refl _))
                a (data bs) 0 items tp payload' Hch) as (Hch' & Hb' & Htq & Hfr).
    { rewrite N.sub_0_r. exact Hroom. }
    rewrite N.sub_0_r in Hch', Hb', Htq, Hfr.
    set (d3 := write_int_at l tp mx (take (tp + os) (data bs) ++ payload')) in *.
    assert (Hd3 : blen d3 = blen (data bs)) by lia.
    destruct (validate_inv _ _ _ Hpv) as (Hpc & _ & Hpu).
    assert (Hok' : Forall (item_ok et) (items ++ [(tp, a + tp + os, payload')])).
    { apply Forall_app. split; [exact Hok|]. constructor; [|constructor]. split; assumption. }
    assert (Hvs' : views (items ++ [(tp, a + tp + os, payload')]) (vs ++ [v]))
      by (apply Forall2_views_app; assumption).
    pose proof (fstate_back et l a Hw Hnar bs d3 _ _ _ Hc Hd3 Hch' Hok' Hvs') as Hst'.
    destruct (back_facts et l a Hw Hnar bs d3 Hc Hd3) as (Hbb & _ & _).
    split; [exact Hbb|]. split; [exact Hplen|]. split; [exact Hpv|]. split; [exact Hpsz|].
    exists v. split; [exact Hpview|]. split; [exact Hspec|exact Hst'].
  Qed.

  (* the state after a successful push behind the marked last item at p, whose content has size szl:
     the last item is sealed with the offset lo and keeps lo - os bytes *)
  Lemma push_done_last i bs items p vs szl payload' : init_ok et i = true -> utf8_init i = true ->
    fstate et l a bs items (EndLast p) vs ->
    size_m et (snd (last items no_item)) = Ok szl ->
    let lo := os + ceil_mul szl al in
    let tp := p + lo in
    lo < mx -> floor_mul (blen bs) al - tp <? os = false ->
    emplace pv et i (a + tp + os) (drop (tp + os) (data bs)) = (payload', Ok tt) ->
    let bs' := write_int_at l p lo (write_int_at l tp mx (take (tp + os) (data bs) ++ payload'))
               ++ drop (floor_mul (blen bs) al) bs in
    blen bs' = blen bs /\ blen payload' = blen (data bs) - (tp + os) /\
    validate et (a + tp + os) payload' = Ok tt /\ size_m et payload' = Ok (extent et i) /\
    exists v, view et payload' = Ok v /\ spec_value et i = Some (strip v) /\
    exists pre oldp vsa vo vo',
      items = pre ++ [(p, a + p + os, oldp)] /\ vs = vsa ++ [vo] /\
      lo - os <= blen oldp /\ peq et (a + p + os) oldp (take (lo - os) oldp) /\
      fstate et l a bs' (pre ++ [(p, a + p + os, take (lo - os) oldp); (tp, a + tp + os, payload')])
        (EndLast tp) ((vsa ++ [vo']) ++ [v]).
  Proof.
    intros Hi Hu Hst Hszp lo tp Hlt Hge Hem bs'. pose proof Hst as (Hch & Hok & Hvs & Hc).
    destruct (fstate_facts et l a Hw Hnar _ _ _ _ Hst) as (Hv & _ & Hsz & Hfc).
    pose proof (flex_consts et l Hw) as (Hal & Hlos & _ & _ & Hos & Hil & _).
    destruct (flex_data_blen et l bs Hw) as (HF & _ & _).
    destruct (mx_facts et l Hw Hnar) as (Hm0 & Hosmx & _ & _ & Henc).
    destruct (valid_size_view t a bs Hw Hv) as (k & v0 & Hk & Hkb & Hkmod & _).
    assert (Hkn : k <= blen (data bs)) by (rewrite HF; apply floor_mul_ge_mult; auto).
    clear Hkmod.
    rewrite Hk in Hsz.
    destruct (chain_last_split l os al mx a _ 0 items p Hch) as (pre & Hitems & _ & _ & Hroom0).
    rewrite N.sub_0_r in Hitems, Hroom0.
    set (oldp := drop (p + os) (data bs)) in *.
    rewrite Hitems, last_last in Hszp. cbn [snd] in Hszp.
    unfold flex_size_spec in Hsz. rewrite Hitems, last_last in Hsz. cbn [snd] in Hsz.
    rewrite Hszp in Hsz. cbn [bind] in Hsz. injection Hsz as Hsz.
    change (umax (ialign l) (align et)) with al in Hsz.
    destruct (N.ltb_spec (floor_mul (blen bs) al - tp) os) as [_|Hge']; [discriminate|].
    assert (Hroom : p + lo + os <= blen (data bs)) by (unfold tp in *; lia).
    destruct (emplace_reads_back et i Hwt Hnet Hi Hu pv _ _ _ Hem) as (Hplen & Hpv & (v & Hpview & Hspec) & Hpsz).
    rewrite blen_drop in Hplen.
    replace (a + tp + os) with (a + p + lo + os) in Hpv by (unfold tp; lia).
    assert (Hlo0 : lo <> 0) by (unfold lo; lia).
    assert (Hlom : lo <> mx) by lia.
    assert (Holo : os <= lo) by (unfold lo; lia).
    destruct (chain_push_last l os al mx Hlos Hm0 Hosmx (fun rest => Henc mx rest (N.le_refl _))
                a (data bs) 0 items p lo payload' Hal Hil flex_div Hch Hlo0 Hlom Holo (lo_mod szl)
                (fun rest => Henc lo rest (N.lt_le_incl _ _ Hlt)))
      as ((pre' & Hitems' & Hch') & Hb' & Htq & Hfr).
    { rewrite N.sub_0_r. exact Hroom. }
    rewrite N.sub_0_r in Hitems', Hch', Hb', Htq, Hfr. fold oldp in Hitems', Hch'.
    rewrite Hitems in Hitems'. apply app_inj_tail in Hitems'. destruct Hitems' as [<- _].
    set (d3 := write_int_at l p lo (write_int_at l (p + lo) mx
                 (take (p + lo + os) (data bs) ++ payload'))) in *.
    assert (Hd3 : blen d3 = blen (data bs)) by lia.
    rewrite Hitems in Hok. apply Forall_app in Hok. destruct Hok as [Hokpre Hoklast].
    inversion Hoklast as [|x r' [Hcl Hvl] _]; subst x r'. cbn [fst snd] in Hcl, Hvl.
    pose proof (check_align_min_ok _ _ _ Hcl) as Hml.
    destruct (T1_size et _ oldp szl Hwt Hml Hvl Hszp) as (Hszb & _ & Hszmin).
    pose proof (ceil_mul_ge szl al Hal) as Hceil.
    assert (Hcb : lo - os <= blen oldp) by (unfold oldp; rewrite blen_drop; lia).
    destruct (valid_local_u et (a + p + os) oldp (take (lo - os) oldp) szl Hwt Hml Hvl Hszp)
      as (Hvl' & Hszl' & vo & vo' & Hvo & Hvo' & Hstrip).
    { rewrite blen_take_le by exact Hcb. unfold lo. lia. }
    { apply take_take. unfold lo. lia. }
    destruct (validate_inv _ _ _ Hpv) as (Hpc & _ & Hpu).
    assert (Hcl' : check_align_min et (a + p + os) (take (lo - os) oldp) = Ok tt).
    { apply (check_align_min_resize et _ oldp _ Hcl). rewrite blen_take_le by exact Hcb. unfold lo. lia. }
    assert (Hok' : Forall (item_ok et)
              (pre ++ [(p, a + p + os, take (lo - os) oldp); (p + lo, a + p + lo + os, payload')])).
    { apply Forall_app. split; [exact Hokpre|]. constructor; [|constructor; [|constructor]].
      - split; cbn [fst snd]; [exact Hcl'|exact Hvl'].
      - split; assumption. }
    rewrite Hitems in Hvs. apply Forall2_app_inv_l in Hvs. destruct Hvs as (vs1 & vs2 & Hvs1 & Hvs2 & Hvseq).
    inversion Hvs2 as [|x y r r' Hxy Hr]; subst x r vs2. inversion Hr; subst r'. cbn [snd] in Hxy.
    rewrite Hvo in Hxy. injection Hxy as <-.
    assert (Hvs' : views (pre ++ [(p, a + p + os, take (lo - os) oldp); (p + lo, a + p + lo + os, payload')])
                     ((vs1 ++ [vo']) ++ [v])).
    { rewrite <- app_assoc. cbn [app]. apply Forall2_app; [exact Hvs1|].
      constructor; [exact Hvo'|]. constructor; [exact Hpview|constructor]. }
    pose proof (fstate_back et l a Hw Hnar bs d3 _ _ _ Hc Hd3 Hch' Hok' Hvs') as Hst'.
    destruct (back_facts et l a Hw Hnar bs d3 Hc Hd3) as (Hbb & _ & _).
    split; [exact Hbb|]. split; [unfold tp; exact Hplen|].
    split; [replace (a + tp + os) with (a + p + lo + os) by (unfold tp; lia); exact Hpv|]. split; [exact Hpsz|].
    exists v. split; [exact Hpview|]. split; [exact Hspec|].
    exists pre, oldp, vs1, vo, vo'. split; [exact Hitems|]. split; [exact Hvseq|]. split; [exact Hcb|]. split.
    - split; [unfold validate; rewrite Hcl; cbn [bind]; exact Hvl|].
      split; [unfold validate; rewrite Hcl'; cbn [bind]; exact Hvl'|].
      split; [rewrite Hszl', Hszp; reflexivity|]. exists vo, vo'. auto.
    - unfold bs', tp. replace (a + (p + lo) + os) with (a + p + lo + os) by lia. exact Hst'.
  Qed.

  (* whether the item emplacer succeeds, and with which error kind it fails, does not depend on
     what the buffer holds *)
  Lemma emplace_same i pa b1 b2 : init_ok et i = true -> utf8_init i = true -> blen b2 = blen b1 ->
    match snd (emplace pv et i pa b1), snd (emplace pv et i pa b2) with
    | Ok _, Ok _ => True
    | Err k1 _, Err k2 _ => k1 = k2
    | _, _ => False
    end.
  Proof.
    intros Hi Hu Hb.
    pose proof (emplace_ok_iff et i Hwt Hnet Hi Hu pv pa b1) as Hok1.
    pose proof (emplace_ok_iff et i Hwt Hnet Hi Hu pv pa b2) as Hok2. rewrite Hb in Hok2.
    pose proof (emplace_never_crashes et i Hwt Hnet Hi Hu pv pa b1) as Hnc1.
    pose proof (emplace_never_crashes et i Hwt Hnet Hi Hu pv pa b2) as Hnc2.
    pose proof (emplace_errors et i Hwt Hnet Hi Hu pv pa b1) as He1.
    pose proof (emplace_errors et i Hwt Hnet Hi Hu pv pa b2) as He2.
    destruct (snd (emplace pv et i pa b1)) as [[]|k1 p1|c1]; destruct (snd (emplace pv et i pa b2)) as [[]|k2 p2|c2];
      try discriminate; auto.
    - assert (H : Err k2 p2 = Ok tt) by (apply Hok2; apply Hok1; reflexivity). discriminate.
    - assert (H : Err k1 p1 = Ok tt) by (apply Hok1; apply Hok2; reflexivity). discriminate.
    - destruct (He1 k1 p1 eq_refl) as [[-> A]|[-> A]]; destruct (He2 k2 p2 eq_refl) as [[-> B]|[-> B]];
        congruence.
  Qed.

  (* the state after a refused push is related to the state before *)
  Theorem push_err_srel i bs kd : init_ok et i = true -> utf8_init i = true ->
    validate t a bs = Ok tt -> snd (flex_op pv t a (FPush i) bs) = OErr kd ->
    srel et l a bs (fst (flex_op pv t a (FPush i) bs)).
  Proof.
    intros Hi Hu Hv Ho. destruct (valid_size_view t a bs Hw Hv) as (k & v0 & Hk & _).
    destruct (valid_unpack et l a Hw bs Hv) as (items & e & vs & Hst).
    destruct (fstate_facts et l a Hw Hnar _ _ _ _ Hst) as (_ & Hview & _).
    destruct (flex_push_rejected_g pv et l a Hw Hnar utf8_ok (all_item_ok pv et Hwt Hnet) (all_item_len pv et Hwt Hnet)
                (all_item_nocrash pv et Hwt Hnet) i bs vs k kd Hu Hi Hv Hview Hk Ho) as (Hb & _ & _ & Htk & _).
    apply (srel_of_frel k). repeat split; auto.
  Qed.

  Lemma push_wrel i bs1 bs2 items1 items2 e vs1 vs2 : init_ok et i = true -> utf8_init i = true ->
    wrel bs1 bs2 items1 items2 e vs1 vs2 ->
    snd (flex_op pv t a (FPush i) bs2) = snd (flex_op pv t a (FPush i) bs1) /\
    srel et l a (fst (flex_op pv t a (FPush i) bs1)) (fst (flex_op pv t a (FPush i) bs2)).
  Proof.
    intros Hi Hu Hrel. pose proof Hrel as (Hst1 & Hst2 & Hb & Hf).
    destruct (fstate_facts et l a Hw Hnar _ _ _ _ Hst1) as (Hv1 & _ & Hsz1 & _).
    destruct (fstate_facts et l a Hw Hnar _ _ _ _ Hst2) as (Hv2 & _ & _ & _).
    pose proof (data_blen_eq bs1 bs2 Hb) as Hd.
    assert (Hszl : exists szl, forall p, e = EndLast p ->
              size_m et (snd (last items1 no_item)) = Ok szl /\ size_m et (snd (last items2 no_item)) = Ok szl).
    { destruct e as [p|p]; [exists 0; intros p0 H0; discriminate|].
      destruct (valid_size_view t a bs1 Hw Hv1) as (k & v0 & Hk & _). rewrite Hk in Hsz1.
      unfold flex_size_spec in Hsz1. symmetry in Hsz1. apply bind_ok_inv in Hsz1. destruct Hsz1 as (sz & Hszp & _).
      exists sz. intros p0 _. split; [exact Hszp|]. rewrite (ieq_last_size _ _ Hf). exact Hszp. }
    destruct Hszl as (szl & Hszl).
    pose proof (push_eq i bs1 items1 e vs1 szl Hst1 (fun p H => proj1 (Hszl p H))) as E1.
    pose proof (push_eq i bs2 items2 e vs2 szl Hst2 (fun p H => proj2 (Hszl p H))) as E2.
    rewrite Hb in E2.
    set (r1 := flex_op pv t a (FPush i) bs1) in *. set (r2 := flex_op pv t a (FPush i) bs2) in *.
    pose proof (wrel_srel _ _ _ _ _ _ _ Hrel) as Hsrel.
    destruct (push_tp e szl) as [tp|] eqn:Htp.
    2:{ rewrite E1, E2. cbn [fst snd]. auto. }
    destruct (floor_mul (blen bs1) al - tp <? os) eqn:Hroom.
    { rewrite E1, E2. cbn [fst snd]. auto. }
    assert (Hbd : blen (drop (tp + os) (data bs2)) = blen (drop (tp + os) (data bs1)))
      by (rewrite !blen_drop, Hd; reflexivity).
    pose proof (emplace_same i (a + tp + os) _ _ Hi Hu Hbd) as Hsame.
    destruct (emplace pv et i (a + tp + os) (drop (tp + os) (data bs1))) as [pl1 [[]|k1 p1|c1]] eqn:Hem1;
      destruct (emplace pv et i (a + tp + os) (drop (tp + os) (data bs2))) as [pl2 [[]|k2 p2|c2]] eqn:Hem2;
      cbn [snd] in Hsame; try contradiction.
    - (* both emplaced *)
      rewrite E1, E2. cbn [fst snd]. split; [reflexivity|].
      destruct e as [p|p]; unfold push_tp in Htp; unfold push_seal.
      + injection Htp as <-.
        destruct (push_done_zero i bs1 items1 p vs1 pl1 Hi Hu Hst1 Hem1) as (Hb1 & Hl1 & Hpv1 & Hps1 & v1 & Hw1 & Hsp1 & Hst1').
        destruct (push_done_zero i bs2 items2 p vs2 pl2 Hi Hu Hst2 Hem2) as (Hb2 & Hl2 & Hpv2 & Hps2 & v2 & Hw2 & Hsp2 & Hst2').
        rewrite Hb in Hst2', Hb2.
        eapply wrel_srel. split; [exact Hst1'|]. split; [exact Hst2'|]. split; [lia|].
        apply Forall2_app; [exact Hf|]. constructor; [|constructor].
        unfold ieq, item_pos. cbn [fst snd]. split; [reflexivity|]. split; [reflexivity|].
        split; [rewrite Hl1, Hl2, Hd; reflexivity|].
        split; [exact Hpv1|]. split; [exact Hpv2|]. split; [rewrite Hps1, Hps2; reflexivity|].
        exists v1, v2. split; [exact Hw1|]. split; [exact Hw2|]. congruence.
      + cbv zeta in Htp. destruct (N.ltb_spec (os + ceil_mul szl al) mx) as [Hlt|_]; [|discriminate].
        injection Htp as <-. change (umax (ialign l) (align et)) with al in *.
        destruct (Hszl p eq_refl) as [Hsz1' Hsz2'].
        destruct (push_done_last i bs1 items1 p vs1 szl pl1 Hi Hu Hst1 Hsz1' Hlt Hroom Hem1)
          as (Hb1 & Hl1 & Hpv1 & Hps1 & v1 & Hw1 & Hsp1 & pre1 & old1 & vsa1 & vo1 & vo1' & Hi1 & Hvs1 & Hcb1 & Hpe1 & Hst1').
        assert (Hroom2 : floor_mul (blen bs2) al - (p + (os + ceil_mul szl al)) <? os = false)
          by (rewrite Hb; exact Hroom).
        destruct (push_done_last i bs2 items2 p vs2 szl pl2 Hi Hu Hst2 Hsz2' Hlt Hroom2 Hem2)
          as (Hb2 & Hl2 & Hpv2 & Hps2 & v2 & Hw2 & Hsp2 & pre2 & old2 & vsa2 & vo2 & vo2' & Hi2 & Hvs2 & Hcb2 & Hpe2 & Hst2').
        rewrite Hb in Hst2', Hb2.
        rewrite Hi1, Hi2 in Hf. apply Forall2_snoc_inv in Hf. destruct Hf as [Hfpre Hlast].
        destruct Hlast as (_ & _ & _ & Hpeo). cbn [fst snd] in Hpeo.
        replace (p + (os + ceil_mul szl al) - p) with (os + ceil_mul szl al) by lia.
        eapply wrel_srel. split; [exact Hst1'|]. split; [exact Hst2'|]. split; [lia|].
        apply Forall2_app; [exact Hfpre|]. constructor; [|constructor; [|constructor]].
        * unfold ieq, item_pos. cbn [fst snd]. split; [reflexivity|]. split; [reflexivity|].
          split; [rewrite !blen_take_le by assumption; reflexivity|].
          apply (peq_trans et _ _ old1); [apply peq_sym; exact Hpe1|].
          apply (peq_trans et _ _ old2); [exact Hpeo|exact Hpe2].
        * unfold ieq, item_pos. cbn [fst snd]. split; [reflexivity|]. split; [reflexivity|].
          split; [rewrite Hl1, Hl2, Hd; reflexivity|].
          split; [exact Hpv1|]. split; [exact Hpv2|]. split; [rewrite Hps1, Hps2; reflexivity|].
          exists v1, v2. split; [exact Hw1|]. split; [exact Hw2|]. congruence.
    - (* both refused by the item emplacer, with the same error *)
      subst k2.
      assert (Ho1 : snd r1 = OErr k1) by (rewrite E1; reflexivity).
      assert (Ho2 : snd r2 = OErr k1) by (rewrite E2; reflexivity).
      split; [rewrite Ho1, Ho2; reflexivity|].
      pose proof (push_err_srel i bs1 k1 Hi Hu Hv1 Ho1) as S1.
      pose proof (push_err_srel i bs2 k1 Hi Hu Hv2 Ho2) as S2.
      fold r1 in S1. fold r2 in S2.
      apply (srel_trans et l a _ bs1); [apply srel_sym; exact S1|].
      apply (srel_trans et l a _ bs2); [exact Hsrel|exact S2].
  Qed.

  (* ---------- editing one item in place ---------- *)

  Section EditSame.
    (* the item-level operation and how flex_op runs it on item j (as in Proofs/FlexOpsFacts.v);
       [G] = the outcomes (of the first run) for which the two runs are compared *)
    Variables (f : N -> bytes -> bytes * oout) (op : fop) (j : N) (G : oout -> Prop).
    Hypothesis Hop : forall bs its fin, flex_chain l os al (data bs) = Ok (its, fin) ->
      flex_op pv t a op bs =
      match nth_error its (N.to_nat j) with
      | Some (pos, plen) =>
          let r := f (a + pos + os) (take plen (drop (pos + os) (data bs))) in
          ((take (pos + os) (data bs) ++ fst r ++ drop (pos + os + plen) (data bs))
             ++ drop (floor_mul (blen bs) al) bs, snd r)
      | None => (bs, OPanic)
      end.
    (* on equivalent payloads of the same length it reports the same and leaves equivalent payloads *)
    Hypothesis Hf : forall pa p1 p2, blen p2 = blen p1 -> peq et pa p1 p2 -> G (snd (f pa p1)) ->
      snd (f pa p2) = snd (f pa p1) /\ blen (fst (f pa p1)) = blen p1 /\ blen (fst (f pa p2)) = blen p2 /\
      peq et pa (fst (f pa p1)) (fst (f pa p2)).

    Lemma edit_wrel bs1 bs2 items1 items2 e vs1 vs2 : wrel bs1 bs2 items1 items2 e vs1 vs2 ->
      G (snd (flex_op pv t a op bs1)) ->
      snd (flex_op pv t a op bs2) = snd (flex_op pv t a op bs1) /\
      srel et l a (fst (flex_op pv t a op bs1)) (fst (flex_op pv t a op bs2)).
    Proof.
      intros Hrel HG. pose proof Hrel as (Hst1 & Hst2 & Hb & Hfi).
      destruct (fstate_facts et l a Hw Hnar _ _ _ _ Hst1) as (_ & _ & _ & Hfc1).
      destruct (fstate_facts et l a Hw Hnar _ _ _ _ Hst2) as (_ & _ & _ & Hfc2).
      rewrite (Hop bs1 _ _ Hfc1) in HG |- *. rewrite (Hop bs2 _ _ Hfc2).
      pose proof (Forall2_nth _ _ _ Hfi (N.to_nat j)) as Hn.
      destruct (nth_error items1 (N.to_nat j)) as [[[p1 pa1] pl1]|] eqn:Hn1;
        destruct (nth_error items2 (N.to_nat j)) as [[[p2 pa2] pl2]|] eqn:Hn2; try contradiction.
      - destruct Hn as (Hp & Hpa & Hbl & Hpe). unfold item_pos in Hp. cbn [fst snd] in Hp, Hpa, Hbl, Hpe. subst p2 pa2.
        rewrite (map_nth_error item_pl _ _ Hn1) in HG |- *. rewrite (map_nth_error item_pl _ _ Hn2).
        unfold item_pl, item_pos in HG |- *. cbn [fst snd] in HG |- *. cbv zeta in HG |- *. cbn [fst snd] in HG |- *.
        destruct (edit_state et l a Hw Hnar _ bs1 items1 e vs1 p1 pa1 pl1 Hst1 Hn1) as (Hpa1 & _ & Hpl1 & _ & _ & Hnew1).
        destruct (edit_state et l a Hw Hnar _ bs2 items2 e vs2 p1 pa1 pl2 Hst2 Hn2) as (_ & _ & Hpl2 & _ & _ & Hnew2).
        rewrite <- Hpl1, <- Hpa1 in HG |- *. rewrite <- Hpl2.
        destruct (Hf pa1 pl1 pl2 Hbl Hpe HG) as (Ho & Hl1 & Hl2 & Hpe').
        split; [exact Ho|].
        pose proof Hpe' as (Hv1' & Hv2' & _ & w1 & w2 & Hw1 & Hw2 & _).
        destruct (Hnew1 _ w1 Hl1 Hv1' Hw1) as (Hb1 & Hst1').
        destruct (Hnew2 _ w2 Hl2 Hv2' Hw2) as (Hb2 & Hst2').
        eapply wrel_srel. split; [exact Hst1'|]. split; [exact Hst2'|]. split; [lia|].
        apply Forall2_splice; [exact Hfi|].
        unfold ieq, item_pos. cbn [fst snd]. split; [reflexivity|]. split; [reflexivity|].
        split; [lia|exact Hpe'].
      - assert (H1 : nth_error (map item_pl items1) (N.to_nat j) = None).
        { apply nth_error_None. rewrite map_length. apply nth_error_None. exact Hn1. }
        assert (H2 : nth_error (map item_pl items2) (N.to_nat j) = None).
        { apply nth_error_None. rewrite map_length. apply nth_error_None. exact Hn2. }
        rewrite H1, H2. cbn [fst snd]. split; [reflexivity|]. exact (wrel_srel _ _ _ _ _ _ _ Hrel).
    Qed.
  End EditSame.

  (* the reported outcome alone, for an item-level operation whose outcome on equivalent payloads of
     the same length is always the same *)
  Section EditOut.
    Variables (f : N -> bytes -> bytes * oout) (op : fop) (j : N).
    Hypothesis Hop : forall bs its fin, flex_chain l os al (data bs) = Ok (its, fin) ->
      flex_op pv t a op bs =
      match nth_error its (N.to_nat j) with
      | Some (pos, plen) =>
          let r := f (a + pos + os) (take plen (drop (pos + os) (data bs))) in
          ((take (pos + os) (data bs) ++ fst r ++ drop (pos + os + plen) (data bs))
             ++ drop (floor_mul (blen bs) al) bs, snd r)
      | None => (bs, OPanic)
      end.
    Hypothesis Hfo : forall pa p1 p2, blen p2 = blen p1 -> peq et pa p1 p2 -> snd (f pa p2) = snd (f pa p1).

    Lemma edit_out bs1 bs2 items1 items2 e vs1 vs2 : wrel bs1 bs2 items1 items2 e vs1 vs2 ->
      snd (flex_op pv t a op bs2) = snd (flex_op pv t a op bs1).
    Proof.
      intros Hrel. pose proof Hrel as (Hst1 & Hst2 & Hb & Hfi).
      destruct (fstate_facts et l a Hw Hnar _ _ _ _ Hst1) as (_ & _ & _ & Hfc1).
      destruct (fstate_facts et l a Hw Hnar _ _ _ _ Hst2) as (_ & _ & _ & Hfc2).
      rewrite (Hop bs1 _ _ Hfc1), (Hop bs2 _ _ Hfc2).
      pose proof (Forall2_nth _ _ _ Hfi (N.to_nat j)) as Hn.
      destruct (nth_error items1 (N.to_nat j)) as [[[p1 pa1] pl1]|] eqn:Hn1;
        destruct (nth_error items2 (N.to_nat j)) as [[[p2 pa2] pl2]|] eqn:Hn2; try contradiction.
      - destruct Hn as (Hp & Hpa & Hbl & Hpe). unfold item_pos in Hp. cbn [fst snd] in Hp, Hpa, Hbl, Hpe. subst p2 pa2.
        rewrite (map_nth_error item_pl _ _ Hn1), (map_nth_error item_pl _ _ Hn2).
        unfold item_pl, item_pos. cbn [fst snd]. cbv zeta. cbn [fst snd].
        destruct (edit_state et l a Hw Hnar _ bs1 items1 e vs1 p1 pa1 pl1 Hst1 Hn1) as (Hpa1 & _ & Hpl1 & _).
        destruct (edit_state et l a Hw Hnar _ bs2 items2 e vs2 p1 pa1 pl2 Hst2 Hn2) as (_ & _ & Hpl2 & _).
        rewrite <- Hpl1, <- Hpa1, <- Hpl2. exact (Hfo pa1 pl1 pl2 Hbl Hpe).
      - assert (H1 : nth_error (map item_pl items1) (N.to_nat j) = None).
        { apply nth_error_None. rewrite map_length. apply nth_error_None. exact Hn1. }
        assert (H2 : nth_error (map item_pl items2) (N.to_nat j) = None).
        { apply nth_error_None. rewrite map_length. apply nth_error_None. exact Hn2. }
        rewrite H1, H2. reflexivity.
    Qed.
  End EditOut.
End Same.

(* ---------- the item-level operations on equivalent payloads ---------- *)

Lemma map_VInt_inj s1 s2 : map VInt s2 = map VInt s1 -> s2 = s1.
Proof.
  revert s1. induction s2 as [|b r IH]; intros [|c r'] H; cbn [map] in H; try discriminate; [reflexivity|].
  injection H as Hb Hr. rewrite Hb, (IH _ Hr). reflexivity.
Qed.

(* a FlatVec / FlatString operation on two equivalent payloads of the same length: the same outcome,
   equivalent payloads afterwards *)
Lemma vec_op_same pv it vo pa p1 p2 : wf it = true -> item_vop_ok it vo -> blen p2 = blen p1 -> peq it pa p1 p2 ->
  snd (vec_op pv it vo p2) = snd (vec_op pv it vo p1) /\
  blen (fst (vec_op pv it vo p1)) = blen p1 /\ blen (fst (vec_op pv it vo p2)) = blen p2 /\
  peq it pa (fst (vec_op pv it vo p1)) (fst (vec_op pv it vo p2)).
Proof.
  intros Hw Hok Hb Hpe. pose proof Hpe as (Hv1 & Hv2 & Hsz & v1 & v2 & Hview1 & Hview2 & Hstrip).
  destruct it as [|i| |tag n d|t0 n|t0 l0|l0|t0 l0|s fs|s tag d vs];
    try (cbn [vec_op fst snd]; split; [reflexivity|]; split; [reflexivity|]; split; [reflexivity|exact Hpe]).
  - (* FlatVec *)
    destruct (vec_op_typed pv t0 l0 pa vo p1 Hw Hv1) as (A1 & B1 & (vs1 & vs1' & C1 & D1 & E1 & F1 & _) & S1).
    destruct (vec_op_typed pv t0 l0 pa vo p2 Hw Hv2) as (A2 & B2 & (vs2 & vs2' & C2 & D2 & E2 & F2 & _) & S2).
    rewrite Hb in C2, D2, E2, F2, S2.
    set (g := geom_vec t0 l0 (blen p1)) in *.
    rewrite Hview1 in C1. injection C1 as ->. rewrite Hview2 in C2. injection C2 as ->.
    cbn [strip] in Hstrip. injection Hstrip as Hstrip. rewrite Hstrip in E2. rewrite <- E1 in E2.
    injection E2 as Hvs' Ho.
    assert (Hlen : c_len g (fst (vec_op pv (TVec t0 l0) vo p2)) = c_len g (fst (vec_op pv (TVec t0 l0) vo p1))).
    { rewrite <- F1, <- F2. rewrite <- (map_length strip vs2'), Hvs', map_length. reflexivity. }
    split; [exact Ho|]. split; [exact A1|]. split; [exact A2|].
    split; [exact B1|]. split; [exact B2|]. split; [rewrite S1, S2, Hlen; reflexivity|].
    eexists _, _. split; [exact D1|]. split; [exact D2|]. cbn [strip]. rewrite Hvs'. reflexivity.
  - (* FlatString *)
    cbn [item_vop_ok] in Hok.
    destruct (str_op_typed pv l0 pa vo p1 Hw Hok Hv1) as (A1 & B1 & (s1 & s1' & C1 & D1 & E1 & F1 & _) & S1).
    destruct (str_op_typed pv l0 pa vo p2 Hw Hok Hv2) as (A2 & B2 & (s2 & s2' & C2 & D2 & E2 & F2 & _) & S2).
    rewrite Hb in C2, D2, E2, F2, S2.
    set (g := geom_str l0 (blen p1)) in *.
    rewrite Hview1 in C1. injection C1 as ->. rewrite Hview2 in C2. injection C2 as ->.
    cbn [strip] in Hstrip. injection Hstrip as Hstrip. rewrite !map_strip_VInt in Hstrip.
    apply map_VInt_inj in Hstrip. subst s2. rewrite <- E1 in E2. injection E2 as Hs' Ho. subst s2'.
    assert (Hlen : c_len g (fst (vec_op pv (TStr l0) vo p2)) = c_len g (fst (vec_op pv (TStr l0) vo p1))).
    { rewrite <- F1, <- F2. reflexivity. }
    split; [exact Ho|]. split; [exact A1|]. split; [exact A2|].
    split; [exact B1|]. split; [exact B2|]. split; [rewrite S1, S2, Hlen; reflexivity|].
    eexists _, _. split; [exact D1|]. split; [exact D2|]. reflexivity.
Qed.

(* whether an in-place assignment succeeds depends on the length of the target only *)
Lemma assign_ok_iff pv it x pa p : wf it = true -> narrow_ty it = true ->
  init_ok it x = true -> utf8_init x = true -> validate it pa p = Ok tt ->
  exists n, bytes_len it (blen p) = Ok n /\
    (snd (assign_in_place pv it x pa p) = Ok tt <-> representable it x = true /\ extent it x <= n).
Proof.
  intros Hw Hn Hi Hu Hv.
  destruct (as_bytes_roundtrip it pa p Hw Hv) as (n & k & Hbl & Hsz & Hnb & Hkn & _).
  pose proof Hv as Hv0. apply validate_inv in Hv0. destruct Hv0 as (Hc & Hm & Hvu).
  destruct (T1_size it pa p k Hw Hm Hvu Hsz) as (_ & _ & Hmk).
  assert (Ha : aligned pa (align it) = true).
  { unfold check_align_min in Hc. destruct (aligned pa (align it)); [reflexivity|discriminate]. }
  exists n. split; [exact Hbl|].
  unfold assign_in_place. rewrite Hbl. unfold on_slice. rewrite take_0, drop_0, N.add_0_l. cbn [app snd].
  assert (Htl : blen (take n p) = n) by (apply blen_take_le; exact Hnb).
  destruct (emplace_u_ok it Hw Hn pv x pa (take n p) Hi Hu Ha ltac:(lia)) as (_ & _ & _ & H4 & _).
  rewrite Htl in H4. exact H4.
Qed.

(* an assignment that is not refused on the first of two equivalent payloads of the same length
   succeeds on both and leaves equivalent payloads *)
Lemma assign_same pv it x pa p1 p2 : wf it = true -> narrow_ty it = true ->
  init_ok it x = true -> utf8_init x = true -> blen p2 = blen p1 -> peq it pa p1 p2 ->
  (forall k, assign_out (assign_in_place pv it x pa p1) <> OErr k) ->
  assign_out (assign_in_place pv it x pa p2) = assign_out (assign_in_place pv it x pa p1) /\
  blen (fst (assign_in_place pv it x pa p1)) = blen p1 /\ blen (fst (assign_in_place pv it x pa p2)) = blen p2 /\
  peq it pa (fst (assign_in_place pv it x pa p1)) (fst (assign_in_place pv it x pa p2)).
Proof.
  intros Hw Hn Hi Hu Hb Hpe HG. pose proof Hpe as (Hv1 & Hv2 & _).
  destruct (assign_in_place_ok it x Hw Hn Hi Hu pv pa p1 Hv1) as (N1 & L1 & G1 & _).
  destruct (assign_in_place_ok it x Hw Hn Hi Hu pv pa p2 Hv2) as (N2 & L2 & G2 & _).
  destruct (assign_ok_iff pv it x pa p1 Hw Hn Hi Hu Hv1) as (n1 & Hn1 & I1).
  destruct (assign_ok_iff pv it x pa p2 Hw Hn Hi Hu Hv2) as (n2 & Hn2 & I2).
  rewrite Hb, Hn1 in Hn2. injection Hn2 as <-.
  assert (Hok1 : snd (assign_in_place pv it x pa p1) = Ok tt).
  { unfold assign_out in HG. destruct (snd (assign_in_place pv it x pa p1)) as [[]|k q|c]; [reflexivity| |discriminate].
    exfalso. apply (HG k). reflexivity. }
  assert (Hok2 : snd (assign_in_place pv it x pa p2) = Ok tt) by (apply I2; apply I1; exact Hok1).
  destruct (G1 Hok1) as (V1 & (w1 & W1 & S1) & Z1). destruct (G2 Hok2) as (V2 & (w2 & W2 & S2) & Z2).
  split; [unfold assign_out; rewrite Hok1, Hok2; reflexivity|]. split; [exact L1|]. split; [exact L2|].
  split; [exact V1|]. split; [exact V2|]. split; [rewrite Z1, Z2; reflexivity|].
  exists w1, w2. split; [exact W1|]. split; [exact W2|]. congruence.
Qed.

(* what an in-place assignment reports is the same on equivalent payloads of the same length,
   whether it succeeds or is refused *)
Lemma assign_out_same pv it x pa p1 p2 : wf it = true -> narrow_ty it = true ->
  init_ok it x = true -> utf8_init x = true -> blen p2 = blen p1 -> peq it pa p1 p2 ->
  assign_out (assign_in_place pv it x pa p2) = assign_out (assign_in_place pv it x pa p1).
Proof.
  intros Hw Hn Hi Hu Hb Hpe. pose proof Hpe as (Hv1 & Hv2 & _).
  destruct (assign_in_place_ok it x Hw Hn Hi Hu pv pa p1 Hv1) as (N1 & _ & _ & E1).
  destruct (assign_in_place_ok it x Hw Hn Hi Hu pv pa p2 Hv2) as (N2 & _ & _ & E2).
  destruct (assign_ok_iff pv it x pa p1 Hw Hn Hi Hu Hv1) as (n1 & Hn1 & I1).
  destruct (assign_ok_iff pv it x pa p2 Hw Hn Hi Hu Hv2) as (n2 & Hn2 & I2).
  rewrite Hb, Hn1 in Hn2. injection Hn2 as <-.
  unfold assign_out.
  destruct (snd (assign_in_place pv it x pa p1)) as [[]|k1 q1|c1]; destruct (snd (assign_in_place pv it x pa p2)) as [[]|k2 q2|c2];
    try discriminate; try reflexivity.
  - assert (H : Err k2 q2 = Ok tt) by (apply I2; apply I1; reflexivity). discriminate.
  - assert (H : Err k1 q1 = Ok tt) by (apply I1; apply I2; reflexivity). discriminate.
  - rewrite (E1 k1 q1 eq_refl), (E2 k2 q2 eq_refl). reflexivity.
Qed.

(* ---------- every operation, histories, the refused push ---------- *)

(* the operations covered: push of a well-typed expression with UTF-8 string literals; pop, truncate,
   clear; a FlatVec / FlatString operation on an item (for a FlatString item: push_str of UTF-8,
   push of a scalar value, clear); assign_in_place of a well-typed UTF-8 expression to an item *)
Definition same_op (et : ty) (op : fop) : Prop :=
  match op with
  | FPush i => init_ok et i = true /\ utf8_init i = true
  | FPop | FTruncate _ | FClear => True
  | FEditVec _ vo => item_vop_ok et vo
  | FEditAssign _ x => init_ok et x = true /\ utf8_init x = true
  end.

(* an in-place assignment is compared only when the first run does not report an error from the
   item's emplacer (a refused assignment may leave different stale bytes: Props/C18.v) *)
Definition assign_done (op : fop) (o : oout) : Prop :=
  match op with FEditAssign _ _ => forall k, o <> OErr k | _ => True end.

Fixpoint assigns_done (ops : list fop) (outs : list oout) : Prop :=
  match ops, outs with
  | op :: r, o :: outs' => assign_done op o /\ assigns_done r outs'
  | _, _ => True
  end.

(* the states a history passes through, the first and the last included *)
Fixpoint flex_trace (pv : option N) (et : ty) (l : intty) (a : N) (ops : list fop) (bs : bytes) : list bytes :=
  match ops with
  | [] => [bs]
  | op :: r => bs :: flex_trace pv et l a r (fst (flex_op pv (TFlex et l) a op bs))
  end.

Section SameAll.
  Variables (pv : option N) (et : ty) (l : intty) (a : N).
  Hypothesis Hw : wf (TFlex et l) = true.
  Hypothesis Hnt : narrow_ty (TFlex et l) = true.
  Local Notation t := (TFlex et l).
  Local Notation os := (flex_offset_size et l).
  Local Notation al := (align (TFlex et l)).

  Let Hwt : wf et = true := proj1 (wf_flex_inv et l Hw).
  Let Hnet : narrow_ty et = true := proj1 (narrow_flex_inv et l Hnt).

  (* what is observable is the same in related states *)
  Theorem srel_observe bs1 bs2 : srel et l a bs1 bs2 ->
    blen bs2 = blen bs1 /\ validate t a bs1 = Ok tt /\ validate t a bs2 = Ok tt /\
    size_m t bs2 = size_m t bs1 /\
    exists vs1 vs2, view t bs1 = Ok (VNode 0 vs1) /\ view t bs2 = Ok (VNode 0 vs2) /\
      map strip vs2 = map strip vs1 /\ length vs2 = length vs1.
  Proof.
    intros H. pose proof H as (Hb & Hv1 & Hv2 & Hs & _).
    destruct (srel_wrel et l a Hw Hnt bs1 bs2 H) as (i1 & i2 & e & vs1 & vs2 & Hr).
    destruct (wrel_observe et l a Hw Hnt _ _ _ _ _ _ _ Hr) as (A & B & C).
    repeat split; auto. exists vs1, vs2. repeat split; auto.
    rewrite <- (map_length strip vs2), C. apply map_length.
  Qed.

  Lemma edit_vec_eq j vo : forall bs its fin, flex_chain l os al (flex_data et l bs) = Ok (its, fin) ->
    flex_op pv t a (FEditVec j vo) bs =
    match nth_error its (N.to_nat j) with
    | Some (pos, plen) =>
        let r := (fun (_ : N) pl => vec_op pv et vo pl) (a + pos + os) (take plen (drop (pos + os) (flex_data et l bs))) in
        ((take (pos + os) (flex_data et l bs) ++ fst r ++ drop (pos + os + plen) (flex_data et l bs))
           ++ drop (floor_mul (blen bs) al) bs, snd r)
    | None => (bs, OPanic)
    end.
  Proof.
    intros bs its fin H. unfold flex_data in *. unfold flex_op. cbv zeta. rewrite H.
    destruct (nth_error its (N.to_nat j)) as [[pos plen]|]; reflexivity.
  Qed.

  Lemma edit_assign_eq j x : forall bs its fin, flex_chain l os al (flex_data et l bs) = Ok (its, fin) ->
    flex_op pv t a (FEditAssign j x) bs =
    match nth_error its (N.to_nat j) with
    | Some (pos, plen) =>
        let r := (fun pa pl => (fst (assign_in_place pv et x pa pl), assign_out (assign_in_place pv et x pa pl)))
                   (a + pos + os) (take plen (drop (pos + os) (flex_data et l bs))) in
        ((take (pos + os) (flex_data et l bs) ++ fst r ++ drop (pos + os + plen) (flex_data et l bs))
           ++ drop (floor_mul (blen bs) al) bs, snd r)
    | None => (bs, OPanic)
    end.
  Proof.
    intros bs its fin H. unfold flex_data in *. unfold flex_op. cbv zeta. rewrite H.
    destruct (nth_error its (N.to_nat j)) as [[pos plen]|]; reflexivity.
  Qed.

  (* one operation from two related states: the same outcome, related states *)
  Theorem same_step op bs1 bs2 : same_op et op -> srel et l a bs1 bs2 ->
    assign_done op (snd (flex_op pv t a op bs1)) ->
    snd (flex_op pv t a op bs2) = snd (flex_op pv t a op bs1) /\
    srel et l a (fst (flex_op pv t a op bs1)) (fst (flex_op pv t a op bs2)).
  Proof.
    intros Hop Hrel HG. destruct (srel_wrel et l a Hw Hnt bs1 bs2 Hrel) as (i1 & i2 & e & vs1 & vs2 & Hr).
    destruct op as [i| |n| |j vo|j x]; cbn [same_op assign_done] in Hop, HG.
    - destruct Hop as [Hi Hu]. exact (push_wrel pv et l a Hw Hnt i _ _ _ _ _ _ _ Hi Hu Hr).
    - exact (shrink_wrel pv et l a Hw Hnt FPop _ _ _ _ _ _ _ I Hr).
    - exact (shrink_wrel pv et l a Hw Hnt (FTruncate n) _ _ _ _ _ _ _ I Hr).
    - exact (shrink_wrel pv et l a Hw Hnt FClear _ _ _ _ _ _ _ I Hr).
    - apply (edit_wrel pv et l a Hw Hnt (fun _ pl => vec_op pv et vo pl) (FEditVec j vo) j (fun _ => True)
               (edit_vec_eq j vo)) with (items1 := i1) (items2 := i2) (e := e) (vs1 := vs1) (vs2 := vs2); auto.
      intros pa p1 p2 Hb Hpe _. exact (vec_op_same pv et vo pa p1 p2 Hwt Hop Hb Hpe).
    - destruct Hop as [Hi Hu].
      apply (edit_wrel pv et l a Hw Hnt
               (fun pa pl => (fst (assign_in_place pv et x pa pl), assign_out (assign_in_place pv et x pa pl)))
               (FEditAssign j x) j (fun o => forall k, o <> OErr k)
               (edit_assign_eq j x)) with (items1 := i1) (items2 := i2) (e := e) (vs1 := vs1) (vs2 := vs2); auto.
      intros pa p1 p2 Hb Hpe HG'. cbn [fst snd] in *.
      exact (assign_same pv et x pa p1 p2 Hwt Hnet Hi Hu Hb Hpe HG').
  Qed.

  (* what one operation reports from two related states is the same, for every covered operation:
     an in-place assignment included, refused or not *)
  Theorem same_outcome op bs1 bs2 : same_op et op -> srel et l a bs1 bs2 ->
    snd (flex_op pv t a op bs2) = snd (flex_op pv t a op bs1).
  Proof.
    intros Hop Hrel. destruct op as [i| |n| |j vo|j x]; try (apply same_step; [exact Hop|exact Hrel|exact I]).
    destruct (srel_wrel et l a Hw Hnt bs1 bs2 Hrel) as (i1 & i2 & e & vs1 & vs2 & Hr).
    destruct Hop as [Hi Hu].
    apply (edit_out pv et l a Hw Hnt
             (fun pa pl => (fst (assign_in_place pv et x pa pl), assign_out (assign_in_place pv et x pa pl)))
             (FEditAssign j x) j (edit_assign_eq j x)) with (items1 := i1) (items2 := i2) (e := e) (vs1 := vs1) (vs2 := vs2);
      [|exact Hr].
    intros pa p1 p2 Hb Hpe. cbn [snd]. exact (assign_out_same pv et x pa p1 p2 Hwt Hnet Hi Hu Hb Hpe).
  Qed.

  (* every history of these operations from two related states: the same outcomes, related final
     states, related states at every step *)
  Theorem same_history ops : forall bs1 bs2, Forall (same_op et) ops -> srel et l a bs1 bs2 ->
    assigns_done ops (snd (flex_run pv et l a ops bs1)) ->
    snd (flex_run pv et l a ops bs2) = snd (flex_run pv et l a ops bs1) /\
    srel et l a (fst (flex_run pv et l a ops bs1)) (fst (flex_run pv et l a ops bs2)) /\
    Forall2 (srel et l a) (flex_trace pv et l a ops bs1) (flex_trace pv et l a ops bs2).
  Proof.
    induction ops as [|op ops IH]; intros bs1 bs2 Hops Hrel HG.
    - cbn [flex_run flex_trace fst snd]. split; [reflexivity|]. split; [exact Hrel|]. constructor; [exact Hrel|constructor].
    - inversion Hops as [|x r' Hop Hops']; subst x r'.
      cbn [flex_run] in HG. cbv zeta in HG. cbn [fst snd assigns_done] in HG. destruct HG as [HG1 HG2].
      destruct (same_step op bs1 bs2 Hop Hrel HG1) as (Ho & Hrel1).
      destruct (IH _ _ Hops' Hrel1 HG2) as (Hos & Hrel2 & Htr).
      cbn [flex_run flex_trace]. cbv zeta. cbn [fst snd]. rewrite Ho, Hos.
      split; [reflexivity|]. split; [exact Hrel2|]. constructor; [exact Hrel|exact Htr].
  Qed.

  (* the property: after a refused push every later history reports what it would have reported had
     the push not been attempted, passes through related states and ends in a state with the same
     slice length, validity, size() and contents *)
  Theorem refused_push_then_same i bs kd ops : init_ok et i = true -> utf8_init i = true ->
    validate t a bs = Ok tt -> snd (flex_op pv t a (FPush i) bs) = OErr kd ->
    Forall (same_op et) ops -> assigns_done ops (snd (flex_run pv et l a ops bs)) ->
    let bs' := fst (flex_op pv t a (FPush i) bs) in
    let r := flex_run pv et l a ops bs in
    let r' := flex_run pv et l a ops bs' in
    snd r' = snd r /\ blen (fst r') = blen (fst r) /\
    validate t a (fst r) = Ok tt /\ validate t a (fst r') = Ok tt /\
    size_m t (fst r') = size_m t (fst r) /\
    (exists vs1 vs2, view t (fst r) = Ok (VNode 0 vs1) /\ view t (fst r') = Ok (VNode 0 vs2) /\
       map strip vs2 = map strip vs1 /\ length vs2 = length vs1) /\
    Forall2 (srel et l a) (flex_trace pv et l a ops bs) (flex_trace pv et l a ops bs').
  Proof.
    intros Hi Hu Hv Ho Hops HG bs' r r'.
    pose proof (push_err_srel pv et l a Hw Hnt i bs kd Hi Hu Hv Ho) as Hrel. fold bs' in Hrel.
    destruct (same_history ops bs bs' Hops Hrel HG) as (Hos & Hrel' & Htr). fold r in Hos, Hrel'. fold r' in Hos, Hrel'.
    destruct (srel_observe _ _ Hrel') as (A & B & C & D & E).
    split; [exact Hos|]. split; [exact A|]. split; [exact B|]. split; [exact C|]. split; [exact D|]. split; [exact E|exact Htr].
  Qed.
End SameAll.
