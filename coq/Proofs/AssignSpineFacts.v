(* AssignSpineFacts.v — C18 for the GENERATED initialisers of unsized structs and enums: a failed
   emplacer leaves a valid value whenever the emplacer that fails — it can only be the one of the
   last field, recursively (the "spine") — leaves a valid value.  A generated struct initialiser
   inherits the property from its last field; a generated enum initialiser rewrites the tag before
   it runs the field emplacers, so there the last field's emplacer must leave a valid value whatever
   the bytes held before ("fresh": vec::FromIterator, flex::FromIterator, Empty / Default, sized
   fields — not FromArray / FromStr, which leave the old bytes, and not a nested enum). *)
From Coq Require Import List NArith Bool Lia ZArith ZifyN ZifyBool ZifyNat.
From Flatty.Model Require Import Base Ty Layout Utf8 Validate View Emplace Portable.
From Flatty.Proofs Require Import ArithFacts LayoutFacts BytesFacts ValidateFacts FramingFacts ChainFacts
  ViewFacts PortableFacts OpsFacts VecOpsFacts EmplaceFacts EmplaceSpec PortableTyFacts EncFacts AssignFacts
  EmplaceUnsizedFacts AssignValidFacts.
Open Scope N_scope.

(* ---------- the class ---------- *)

(* fv_ok fresh t i: a failure of the emplacer i of t leaves a valid t — provided the bytes held a
   valid t before (fresh = false), or whatever they held (fresh = true) *)
Fixpoint fv_ok (fresh : bool) (t : ty) (i : init) {struct t} : bool :=
  match t with
  | TVec _ _ => match i with IVecArr _ => negb fresh | _ => true end
  | TStr _ => match i with IStr _ => negb fresh | _ => true end
  | TStruct false fs =>
      match field_inits i (flen fs) with Some is => fv_last fresh fs is | None => true end
  | TEnum false _ _ vs =>
      match i with IVar k is => negb fresh && fv_variant vs (N.to_nat k) is | _ => true end
  | _ => true
  end
with fv_last (fresh : bool) (fs : fields) (is : list init) {struct fs} : bool :=
  match fs, is with
  | FCons t FNil, i :: _ => fv_ok fresh t i
  | FCons _ ((FCons _ _) as r), _ :: is' => fv_last fresh r is'
  | _, _ => true
  end
with fv_variant (vs : variants) (k : nat) (is : list init) {struct vs} : bool :=
  match vs with
  | VNil => true
  | VCons fs r => match k with O => fv_last true fs is | S k' => fv_variant r k' is end
  end.

Lemma fv_ok_library fresh t i : library_emplacer t = true ->
  fv_ok fresh t i = match t, i with
                    | TVec _ _, IVecArr _ | TStr _, IStr _ => negb fresh
                    | _, _ => true
                    end.
Proof.
  destruct t as [|it| |tag n d|t n|et l|l|et l|s fs|s tag d vs]; intros H; try reflexivity;
    destruct s; try discriminate H; destruct i; reflexivity.
Qed.

Lemma fv_ok_false_library t i : library_emplacer t = true -> fv_ok false t i = true.
Proof. intros H. rewrite (fv_ok_library false t i H). destruct t; try reflexivity; destruct i; reflexivity. Qed.

(* ---------- the statements ---------- *)

Definition SPT (t : ty) : Prop := forall fresh pv i a buf k p,
  init_ok t i = true -> utf8_init i = true -> fv_ok fresh t i = true ->
  aligned a (align t) = true -> min_size t <= blen buf ->
  (fresh = false -> validate_u t a buf = Ok tt) ->
  snd (emplace_u pv t i a buf) = Err k p ->
  validate_u t a (fst (emplace_u pv t i a buf)) = Ok tt.

Definition SPF (fs : fields) : Prop := forall fresh pv is a data pos a0 k p,
  (exists vs, spec_fields fs is = Some vs) -> forallb utf8_init is = true -> fv_last fresh fs is = true ->
  a = a0 + pos -> a0 mod align_fields fs = 0 -> pos mod head_align fs = 0 ->
  end_min fs pos <= pos + blen data ->
  (fresh = false -> validate_fields fs a data pos = Ok tt) ->
  snd (emplace_fields pv fs is a data pos) = Err k p ->
  validate_fields fs a (fst (emplace_fields pv fs is a data pos)) pos = Ok tt.

Definition SPV (vs : variants) : Prop := forall pv k is a data tag kv tagb kk p,
  (exists fvs, spec_variant vs k is = Some fvs) -> forallb utf8_init is = true -> fv_variant vs k is = true ->
  a mod align_variants vs = 0 -> isize tag <= blen tagb ->
  snd (emplace_variant pv vs k is a data tag kv tagb) = Err kk p ->
  fst (emplace_variant pv vs k is a data tag kv tagb) = tagb ++ data \/
  exists data',
    fst (emplace_variant pv vs k is a data tag kv tagb)
      = (to_bytes (ibe tag) (isize tag) kv ++ drop (isize tag) tagb) ++ data' /\
    blen data' = blen data /\ validate_variant vs k false a data' = Ok tt.

(* ---------- Default never fails where there is room for MIN_SIZE ---------- *)

Lemma default_not_err t : wf t = true -> narrow_ty t = true -> init_ok t IDefault = true ->
  forall pv a buf k p, aligned a (align t) = true -> min_size t <= blen buf ->
    snd (emplace_u pv t IDefault a buf) = Err k p -> False.
Proof.
  intros Hw Hn Hi pv a buf k p Ha Hm Herr.
  destruct (emplace_u_ok t Hw Hn pv IDefault a buf Hi eq_refl Ha Hm) as (_ & _ & _ & H4 & _).
  assert (Hok : snd (emplace_u pv t IDefault a buf) = Ok tt).
  { apply H4. split; [apply representable_default|]. rewrite (default_extent_min t Hw Hi). exact Hm. }
  rewrite Herr in Hok. discriminate.
Qed.

(* ---------- the library's own emplacers ---------- *)

Lemma sp_library t : wf t = true -> narrow_ty t = true -> library_emplacer t = true -> SPT t.
Proof.
  intros Hw Hn Hlib fresh pv i a buf k p Hi Hu Hfv Ha Hm Hprior Herr.
  destruct fresh; [|apply (emplace_u_failed_valid t i Hw Hn Hlib Hi Hu pv a buf k p Ha Hm (Hprior eq_refl) Herr)].
  assert (Hsized : sized t = true -> False).
  { intros Hs. pose proof (emplace_u_sized_not_err pv t i a buf Hs) as H. rewrite Herr in H. discriminate. }
  assert (Hnoterr : is_err (snd (emplace_u pv t i a buf)) = false -> False).
  { intros H. rewrite Herr in H. discriminate. }
  destruct t as [|it| |tag n d|t n|et l|l|et l|s fs|s tag d vs];
    try (exfalso; apply Hsized; reflexivity).
  - pose proof Hi as Hi0. unfold init_ok in Hi.
    destruct i as [v|is0|k0 is0|is0|is0|s0|is0| |]; cbn [spec_value] in Hi; try discriminate.
    + destruct (emplace_u pv (TVec et l) (IVecIter is0) a buf) as [b' r'] eqn:E. cbn [snd] in Herr. subst r'.
      cbn [fst]. apply (vec_iter_fail_valid et l Hw Hn is0 Hi0 Hu pv a buf b' k p Ha Hm E).
    + exfalso. apply Hnoterr. apply container_default_not_err; [left; eauto|left; reflexivity].
    + exfalso. apply Hnoterr. apply container_default_not_err; [left; eauto|right; reflexivity].
  - unfold init_ok in Hi.
    destruct i as [v|is0|k0 is0|is0|is0|s0|is0| |]; cbn [spec_value] in Hi; try discriminate.
    + exfalso. apply Hnoterr. apply container_default_not_err; [right; left; eauto|left; reflexivity].
    + exfalso. apply Hnoterr. apply container_default_not_err; [right; left; eauto|right; reflexivity].
  - pose proof Hi as Hi0. unfold init_ok in Hi.
    destruct i as [v|is0|k0 is0|is0|is0|s0|is0| |]; cbn [spec_value] in Hi; try discriminate.
    + apply (flex_iter_fail_valid et l Hw Hn is0 Hi0 Hu pv a buf k p Ha Hm Herr).
    + exfalso. apply Hnoterr. apply container_default_not_err; [right; right; eauto|left; reflexivity].
    + exfalso. apply Hnoterr. apply container_default_not_err; [right; right; eauto|right; reflexivity].
  - destruct s; [exfalso; apply Hsized; reflexivity|discriminate Hlib].
  - destruct s; [exfalso; apply Hsized; reflexivity|discriminate Hlib].
Qed.

(* ---------- generated struct initialiser ---------- *)

Lemma validate_fields_single_inv t a data pos :
  validate_fields (FCons t FNil) a data pos = Ok tt -> validate_u t a data = Ok tt.
Proof.
  rewrite validate_fields_single. intros H. apply bind_ok_inv in H. destruct H as ([] & H & _).
  apply shift_ok_inv in H. exact H.
Qed.

Lemma sp_fields_single t : wf t = true -> SPT t -> SPF (FCons t FNil).
Proof.
  intros Hw IH fresh pv is a data pos a0 k p [vs Hs] Hu Hfv Ea Ha0 Hpos Hend Hprior Herr.
  destruct is as [|i is']; [discriminate|]. cbn [spec_fields] in Hs.
  destruct (spec_value t i) as [v|] eqn:Ev; [|discriminate].
  cbn [forallb] in Hu. apply andb_true_iff in Hu. destruct Hu as [Hui _].
  cbn [fv_last] in Hfv.
  cbn [end_min] in Hend. cbn [align_fields head_align] in Ha0, Hpos.
  pose proof (align_P16 t Hw) as Hp. pose proof (P16_pos _ Hp) as Hal.
  assert (Haa : aligned a (align t) = true).
  { apply aligned_iff. subst a. apply mod_add_mult; auto.
    apply mod_trans with (m := umax (align t) 1); auto.
    - apply P16_pos, P16_umax; auto. left; reflexivity.
    - apply P16_umax_mod_l; auto. left; reflexivity. }
  assert (Hi : init_ok t i = true) by (unfold init_ok; rewrite Ev; reflexivity).
  rewrite emplace_fields_single in Herr |- *.
  rewrite validate_fields_single.
  rewrite (IH fresh pv i a data k p Hi Hui Hfv Haa ltac:(slia)
              (fun E => validate_fields_single_inv t a data pos (Hprior E)) Herr).
  reflexivity.
Qed.

Lemma sp_fields_cons2 t t' r : wf t = true -> narrow_ty t = true -> sized t = true ->
  wfF (FCons t' r) -> narrow_fields (FCons t' r) = true ->
  SPF (FCons t' r) -> SPF (FCons t (FCons t' r)).
Proof.
  intros Hw Hnt Hst Hfr Hnr IHr fresh pv is a data pos a0 k p [vs Hs] Hu Hfv Ea Ha0 Hpos Hend Hprior.
  pose proof (proj1 emp_mut t Hw Hnt) as IHt.
  pose proof (proj1 (proj2 emp_mut) (FCons t' r) ltac:(congruence) Hfr Hnr) as EMPr.
  destruct is as [|i is']; [discriminate|]. rewrite spec_fields_cons in Hs.
  destruct (spec_value t i) as [v|] eqn:Ev; [|discriminate].
  destruct (spec_fields (FCons t' r) is') as [vr|] eqn:Er; [|discriminate]. clear Hs.
  cbn [forallb] in Hu. apply andb_true_iff in Hu. destruct Hu as [Hui Hur].
  change (fv_last fresh (FCons t (FCons t' r)) (i :: is')) with (fv_last fresh (FCons t' r) is') in Hfv.
  rewrite end_min_cons2 in Hend.
  pose proof (end_min_ge _ Hfr (pos_next pos t t')) as Hge.
  cbn [head_align] in Hpos.
  pose proof (align_P16 t Hw) as Hp. pose proof (P16_pos _ Hp) as Hal.
  pose proof (align_fields_P16 (FCons t' r) (or_intror Hfr)) as Hpr. pose proof (P16_pos _ Hpr) as Halr.
  destruct (wfF_cons _ _ Hfr) as [Hwt' _].
  pose proof (align_P16 t' Hwt') as Hp'. pose proof (P16_pos _ Hp') as Hal'.
  change (align_fields (FCons t (FCons t' r))) with (umax (align t) (align_fields (FCons t' r))) in Ha0.
  assert (Hum : 0 < umax (align t) (align_fields (FCons t' r))) by (apply P16_pos, P16_umax; auto).
  assert (Haa : aligned a (align t) = true).
  { apply aligned_iff. subst a. apply mod_add_mult; auto.
    apply mod_trans with (m := umax (align t) (align_fields (FCons t' r))); auto.
    apply P16_umax_mod_l; auto. }
  assert (Ha0r : a0 mod align_fields (FCons t' r) = 0).
  { apply mod_trans with (m := umax (align t) (align_fields (FCons t' r))); auto.
    apply P16_umax_mod_r; auto. }
  assert (Hi : init_ok t i = true) by (unfold init_ok; rewrite Ev; reflexivity).
  rewrite emplace_fields_cons2. cbv zeta.
  set (np := pos_next pos t t') in *.
  assert (Hnp : pos + ssize t <= np) by (unfold np, pos_next; apply ceil_mul_ge; exact Hal').
  assert (Hnpm : np mod align t' = 0) by (unfold np, pos_next; apply ceil_mul_mod; exact Hal').
  destruct (N.ltb_spec (blen data) (np - pos)) as [Hc|Hc]; [slia|].
  set (piece := take (np - pos) data). set (rest := drop (np - pos) data).
  assert (Hpl : blen piece = np - pos) by (unfold piece; apply blen_take_le; exact Hc).
  assert (Hrl : blen rest = blen data - (np - pos)) by (unfold rest; apply blen_drop).
  pose proof (min_size_sized t Hst) as Hmin.
  destruct (IHt pv i a piece Hi Hui Haa ltac:(slia)) as (H1 & H2 & H3 & H4 & H5).
  rewrite (sized_extent t i Hst), (sized_representable t i Hst) in H4.
  assert (Hok : snd (emplace_u pv t i a piece) = Ok tt) by (apply H4; split; [reflexivity|slia]).
  destruct (emplace_u pv t i a piece) as [piece' res] eqn:Ee. cbn [fst snd] in *. subst res.
  specialize (H3 eq_refl). clear H1 H4 H5.
  assert (Hex : exists vs0, spec_fields (FCons t' r) is' = Some vs0) by eauto.
  assert (Hrr : fields_post (FCons t' r) is' (a + (np - pos)) rest np
                  (emplace_fields pv (FCons t' r) is' (a + (np - pos)) rest np)).
  { apply (EMPr pv is' (a + (np - pos)) rest np a0); auto; try slia. }
  destruct Hrr as (_ & R2 & _).
  intros Herr.
  assert (Hpriorr : fresh = false -> validate_fields (FCons t' r) (a + (np - pos)) rest np = Ok tt).
  { intros E. specialize (Hprior E). rewrite validate_fields_cons2 in Hprior. cbv zeta in Hprior. fold np in Hprior.
    apply bind_ok_inv in Hprior. destruct Hprior as ([] & _ & Hprior).
    rewrite split_at_ok in Hprior by exact Hc. cbn [bind snd] in Hprior. exact Hprior. }
  pose proof (IHr fresh pv is' (a + (np - pos)) rest np a0 k p Hex Hur Hfv ltac:(slia) Ha0r Hnpm ltac:(slia)
                Hpriorr Herr) as Rv.
  set (rr := emplace_fields pv (FCons t' r) is' (a + (np - pos)) rest np) in *.
  assert (Hg : good t i a (piece' ++ fst rr)).
  { apply (good_local t i a piece'); auto; try slia.
    - rewrite (sized_extent t i Hst), blen_app. slia.
    - apply take_app_le. rewrite (sized_extent t i Hst). slia. }
  destruct Hg as (Hv & _).
  assert (Hsplit : split_at (np - pos) (piece' ++ fst rr) = Ok (piece', fst rr)).
  { rewrite split_at_ok by (rewrite blen_app; slia).
    rewrite take_app_len, drop_app_len by slia. reflexivity. }
  cbn [fst]. rewrite validate_fields_cons2. cbv zeta. fold np.
  rewrite Hv, Hsplit. cbn [shift bind snd]. exact Rv.
Qed.

Lemma sp_struct fs : wf (TStruct false fs) = true -> narrow_ty (TStruct false fs) = true ->
  SPF fs -> SPT (TStruct false fs).
Proof.
  intros Hw Hnt IH fresh pv i a buf k p Hi Hu Hfv Ha Hm Hprior.
  destruct (wf_struct_wfF _ _ Hw) as [Hnil|Hf]; [subst fs; discriminate Hw|].
  assert (Hne : fs <> FNil) by (intros ->; discriminate Hw).
  pose proof (proj1 (proj2 emp_mut) fs Hne Hf Hnt) as EMPfs.
  pose proof (P16_pos _ (align_fields_P16 fs (or_intror Hf))) as Hal.
  unfold init_ok in Hi. cbn [spec_value] in Hi.
  destruct (field_inits i (flen fs)) as [is|] eqn:Ef; [|discriminate].
  destruct (spec_fields fs is) as [vs|] eqn:Es; [|discriminate]. clear Hi.
  pose proof (field_inits_utf8 _ _ _ Ef Hu) as Hui.
  cbn [fv_ok] in Hfv. rewrite Ef in Hfv.
  cbn [align] in Ha. cbn [min_size] in Hm.
  rewrite emplace_u_struct, Ef. cbv zeta. rewrite Ha. cbn [negb].
  set (al := align_fields fs) in *. set (n := floor_mul (blen buf) al).
  assert (Hn : fold_min_size 0 fs <= n) by (apply ceil_le_floor; auto).
  pose proof (floor_mul_le (blen buf) al Hal) as Hnb. fold n in Hnb.
  destruct (N.ltb_spec n (fold_min_size 0 fs)); [slia|].
  assert (Hdl : blen (take n buf) = n) by (apply blen_take_le; exact Hnb).
  assert (Hex : exists vs0, spec_fields fs is = Some vs0) by eauto.
  assert (Hhd : 0 mod head_align fs = 0).
  { apply N.mod_0_l. destruct fs as [|t0 r0]; [congruence|]. cbn [head_align].
    destruct (wfF_cons _ _ Hf) as [Hw0 _]. pose proof (align_pos _ Hw0). slia. }
  assert (Hem : end_min fs 0 <= 0 + blen (take n buf)) by (rewrite <- fold_min_size_0 by exact Hne; slia).
  assert (Hpost : fields_post fs is a (take n buf) 0 (emplace_fields pv fs is a (take n buf) 0)).
  { apply (EMPfs pv is a (take n buf) 0 a); auto; [slia|]. apply aligned_iff. exact Ha. }
  destruct Hpost as (_ & R2 & _).
  cbn [fst snd]. intros Herr.
  assert (Hpf : fresh = false -> validate_fields fs a (take n buf) 0 = Ok tt).
  { intros E. specialize (Hprior E). cbn [validate_u] in Hprior. exact Hprior. }
  pose proof (IH fresh pv is a (take n buf) 0 a k p Hex Hui Hfv ltac:(slia) ltac:(apply aligned_iff; exact Ha)
                Hhd Hem Hpf Herr) as Rv.
  set (rr := emplace_fields pv fs is a (take n buf) 0) in *.
  assert (HB : blen (fst rr ++ drop n buf) = blen buf) by (rewrite blen_app, blen_drop; slia).
  assert (Hdata : take (floor_mul (blen (fst rr ++ drop n buf)) al) (fst rr ++ drop n buf) = fst rr).
  { rewrite HB. fold n. apply take_app_len. slia. }
  cbn [validate_u]. fold al. rewrite Hdata. exact Rv.
Qed.

(* ---------- generated enum initialiser ---------- *)

Lemma fv_last_nil fresh fs : fv_last fresh fs [] = true.
Proof. destruct fs as [|t [|t' r]]; reflexivity. Qed.

Lemma fv_variant_nil vs : forall k, fv_variant vs k [] = true.
Proof.
  induction vs as [|fs r IH]; intros k; [reflexivity|].
  destruct k as [|k']; cbn [fv_variant]; [apply fv_last_nil|apply IH].
Qed.

Lemma sp_variants_here fs r : (fs = FNil \/ (wfF fs /\ narrow_fields fs = true /\ SPF fs)) ->
  forall pv is a data tag kv tagb kk p,
  (exists fvs, spec_fields fs is = Some fvs) -> forallb utf8_init is = true -> fv_last true fs is = true ->
  a mod align_fields fs = 0 -> isize tag <= blen tagb ->
  snd (emplace_variant pv (VCons fs r) O is a data tag kv tagb) = Err kk p ->
  fst (emplace_variant pv (VCons fs r) O is a data tag kv tagb) = tagb ++ data \/
  exists data',
    fst (emplace_variant pv (VCons fs r) O is a data tag kv tagb)
      = (to_bytes (ibe tag) (isize tag) kv ++ drop (isize tag) tagb) ++ data' /\
    blen data' = blen data /\ validate_variant (VCons fs r) O false a data' = Ok tt.
Proof.
  intros Hfs pv is a data tag kv tagb kk p [fvs Hs] Hu Hfv Ha Ht.
  rewrite emplace_variant_here, (field_inits_seq_ok fs is fvs Hs). cbv zeta.
  destruct fs as [|t0 r0].
  - destruct is as [|i0 is0]; [|discriminate]. rewrite write_int_ok by exact Ht.
    cbn [emplace_fields ok fst snd]. discriminate.
  - destruct Hfs as [Hnil|(Hf & Hnf & IH)]; [discriminate|].
    assert (Hne : FCons t0 r0 <> FNil) by congruence.
    pose proof (proj1 (proj2 emp_mut) (FCons t0 r0) Hne Hf Hnf) as EMPfs.
    set (fs := FCons t0 r0) in *.
    apply aligned_iff in Ha. rewrite Ha. cbn [negb].
    destruct (N.ltb_spec (blen data) (fold_min_size 0 fs)) as [Hc|Hc].
    + intros _. left. reflexivity.
    + rewrite write_int_ok by exact Ht.
      assert (Hex : exists vs0, spec_fields fs is = Some vs0) by eauto.
      assert (Hhd : 0 mod head_align fs = 0).
      { apply N.mod_0_l. unfold fs. cbn [head_align]. destruct (wfF_cons _ _ Hf) as [Hw0 _].
        pose proof (align_pos _ Hw0). slia. }
      assert (Hem : end_min fs 0 <= 0 + blen data) by (rewrite <- fold_min_size_0 by exact Hne; slia).
      assert (Hpost : fields_post fs is a data 0 (emplace_fields pv fs is a data 0)).
      { apply (EMPfs pv is a data 0 a); auto; [slia|]. apply aligned_iff. exact Ha. }
      destruct Hpost as (_ & R2 & _).
      cbn [fst snd]. intros Herr. right.
      pose proof (IH true pv is a data 0 a kk p Hex Hu Hfv ltac:(slia) ltac:(apply aligned_iff; exact Ha) Hhd Hem
                    ltac:(discriminate) Herr) as Rv.
      exists (fst (emplace_fields pv fs is a data 0)). split; [reflexivity|]. split; [exact R2|].
      cbn [validate_variant negb andb]. unfold data_min_size.
      destruct (N.ltb_spec (blen (fst (emplace_fields pv fs is a data 0))) (fold_min_size 0 fs)); [slia|].
      exact Rv.
Qed.

Lemma sp_variants fs r : (fs = FNil \/ (wfF fs /\ narrow_fields fs = true /\ SPF fs)) ->
  wf_variants false (VCons fs r) = true -> SPV r -> SPV (VCons fs r).
Proof.
  intros Hfs Hw IHr pv k is a data tag kv tagb kk p Hs Hu Hfv Ha Ht.
  apply wf_variants_cons in Hw. destruct Hw as [Hf Hr].
  pose proof (align_fields_P16 fs Hf) as Hpf. pose proof (align_variants_P16 _ _ Hr) as Hpr.
  cbn [align_variants] in Ha.
  assert (Hum : 0 < umax (align_fields fs) (align_variants r)) by (apply P16_pos, P16_umax; auto).
  destruct k as [|k'].
  - apply sp_variants_here; auto.
    apply mod_trans with (m := umax (align_fields fs) (align_variants r)); auto using P16_pos.
    apply P16_umax_mod_l; auto.
  - change (emplace_variant pv (VCons fs r) (S k') is a data tag kv tagb)
      with (emplace_variant pv r k' is a data tag kv tagb).
    cbn [spec_variant] in Hs. cbn [fv_variant] in Hfv.
    assert (Har : a mod align_variants r = 0).
    { apply mod_trans with (m := umax (align_fields fs) (align_variants r)); auto using P16_pos.
      apply P16_umax_mod_r; auto. }
    intros Herr.
    pose proof (IHr pv k' is a data tag kv tagb kk p Hs Hu Hfv Har Ht Herr) as H.
    cbn [validate_variant]. exact H.
Qed.

Lemma sp_enum_go pv tag d vs a buf k is fvs kk p :
  wf (TEnum false tag d vs) = true -> narrow_ty (TEnum false tag d vs) = true -> SPV vs ->
  spec_variant vs (N.to_nat k) is = Some fvs -> forallb utf8_init is = true ->
  fv_variant vs (N.to_nat k) is = true ->
  aligned a (align (TEnum false tag d vs)) = true -> min_size (TEnum false tag d vs) <= blen buf ->
  validate_u (TEnum false tag d vs) a buf = Ok tt ->
  snd (enum_go pv tag vs a buf k is) = Err kk p ->
  validate_u (TEnum false tag d vs) a (fst (enum_go pv tag vs a buf k is)) = Ok tt.
Proof.
  intros Hw Hnt IH Hs Hu Hfv Ha Hm Hprior.
  pose proof (enum_consts _ _ _ _ Hw) as (Hal & Hdo & Hdmod).
  pose proof (min_size_enum_ge _ _ _ Hw) as Hdm.
  pose proof (narrow_enum_inv _ _ _ _ Hnt) as [_ Hnv].
  pose proof Hw as Hw0.
  apply wf_enum_inv in Hw. destruct Hw as (Hi & Hnat & Hv1 & Hv2 & Hdf & Hwv).
  pose proof (proj2 (proj2 emp_mut) vs Hwv Hnv) as EMPvs.
  assert (Hk : k < vlen vs).
  { destruct (N.lt_ge_cases k (vlen vs)) as [H|H]; [exact H|].
    rewrite spec_variant_oob in Hs by slia. discriminate. }
  cbn [align] in Ha. apply aligned_iff in Ha.
  set (al := umax (ialign tag) (align_variants vs)) in *. set (dof := data_offset tag vs) in *.
  pose proof (align_variants_P16 _ _ Hwv) as Hpv. destruct (wf_int_P16 _ Hi) as [_ Hpt].
  unfold enum_go. destruct (N.ltb_spec k (vlen vs)); [|slia]. cbn [negb]. cbv zeta. fold al dof.
  destruct (N.ltb_spec (blen buf) dof); [slia|].
  set (tagb := take dof buf). set (rest := drop dof buf).
  assert (Htl : blen tagb = dof) by (unfold tagb; apply blen_take_le; slia).
  assert (Hrl : blen rest = blen buf - dof) by (unfold rest; apply blen_drop).
  set (n := floor_mul (blen rest) al).
  pose proof (floor_mul_le (blen rest) al Hal) as Hnr. fold n in Hnr.
  assert (Hdl : blen (take n rest) = n) by (apply blen_take_le; exact Hnr).
  assert (Haa : (a + dof) mod align_variants vs = 0).
  { apply mod_trans with (m := al); auto using P16_pos.
    - apply mod_add_mult; auto.
    - unfold al. apply P16_umax_mod_r; auto. }
  cbn [fst snd]. intros Herr.
  destruct (IH pv (N.to_nat k) is (a + dof) (take n rest) tag k tagb kk p ltac:(eauto) Hu Hfv Haa ltac:(slia) Herr)
    as [Hfst|(data' & Hfst & Hdl' & Rv)].
  - (* the variant did not fit: nothing was written *)
    rewrite Hfst, <- app_assoc, (take_drop n rest). unfold tagb, rest. rewrite take_drop. exact Hprior.
  - set (B := fst (emplace_variant pv vs (N.to_nat k) is (a + dof) (take n rest) tag k tagb) ++ drop n rest) in *.
    set (hdr := to_bytes (ibe tag) (isize tag) k ++ drop (isize tag) tagb) in *.
    assert (Hhdr : blen hdr = dof) by (unfold hdr; rewrite blen_set_len; slia).
    assert (EB : B = hdr ++ (data' ++ drop n rest)) by (unfold B; rewrite Hfst, <- app_assoc; reflexivity).
    assert (HBl : blen B = blen buf).
    { rewrite EB, !blen_app, blen_drop. slia. }
    assert (Hread : read_int tag B = Ok k).
    { rewrite EB. unfold hdr. rewrite <- app_assoc. apply read_int_written.
      unfold int_max in Hv2. pose proof (pow256_pos (isize tag)). slia. }
    assert (Hed : enum_data false tag vs B = data').
    { unfold enum_data. cbv zeta. fold dof al. rewrite EB. rewrite drop_app_len by exact Hhdr.
      rewrite blen_app, blen_drop, Hdl', Hdl. replace (n + (blen rest - n)) with (blen rest) by slia.
      fold n. apply take_app_len. slia. }
    assert (HdB : data_offset tag vs <= blen B) by (fold dof; slia).
    apply (enum_valid_intro false tag d vs a B k Hread Hk HdB). rewrite Hed. exact Rv.
Qed.

Lemma sp_enum tag d vs : wf (TEnum false tag d vs) = true -> narrow_ty (TEnum false tag d vs) = true ->
  SPV vs -> SPT (TEnum false tag d vs).
Proof.
  intros Hw Hnt IH fresh pv i a buf k p Hi Hu Hfv Ha Hm Hprior Herr.
  pose proof Hi as Hi0. unfold init_ok in Hi. cbn [spec_value] in Hi.
  destruct i as [v|is0|k0 is0|is0|is0|s0|is0| |]; try discriminate.
  - destruct (spec_variant vs (N.to_nat k0) is0) as [fvs|] eqn:Es; [|discriminate].
    cbn [fv_ok] in Hfv. apply andb_true_iff in Hfv. destruct Hfv as [Hfr Hfv].
    destruct fresh; [discriminate Hfr|].
    cbn [utf8_init] in Hu. rewrite emplace_u_enum in Herr |- *.
    apply (sp_enum_go pv tag d vs a buf k0 is0 fvs k p Hw Hnt IH Es Hu Hfv Ha Hm (Hprior eq_refl) Herr).
  - exfalso. exact (default_not_err _ Hw Hnt Hi0 pv a buf k p Ha Hm Herr).
Qed.

(* ---------- the mutual induction ---------- *)

Theorem sp_mut :
  (forall t, wf t = true -> narrow_ty t = true -> SPT t) /\
  (forall fs, fs <> FNil -> wfF fs -> narrow_fields fs = true -> SPF fs) /\
  (forall vs, wf_variants false vs = true -> narrow_variants vs = true -> SPV vs).
Proof.
  apply ty_mutind.
  - intros Hw Hn. apply sp_library; auto.
  - intros it Hw Hn. apply sp_library; auto.
  - intros Hw Hn. apply sp_library; auto.
  - intros tag n d Hw Hn. apply sp_library; auto.
  - intros t _ n Hw Hn. apply sp_library; auto.
  - intros t _ l Hw Hn. apply sp_library; auto.
  - intros l Hw Hn. apply sp_library; auto.
  - intros t _ l Hw Hn. apply sp_library; auto.
  - intros s fs IH Hw Hn. destruct s; [apply sp_library; auto|].
    apply sp_struct; auto. destruct (wf_struct_wfF _ _ Hw) as [Hnil|Hf]; [subst fs; discriminate Hw|].
    apply IH; auto. intros ->. discriminate Hw.
  - intros s tag d vs IH Hw Hn. destruct s; [apply sp_library; auto|].
    apply sp_enum; auto. apply narrow_enum_inv in Hn.
    pose proof (wf_enum_inv _ _ _ _ Hw) as (_ & _ & _ & _ & _ & Hwv). apply IH; tauto.
  - intros H. congruence.
  - intros t IHt r IHr _ Hf Hn. cbn [narrow_fields] in Hn. apply andb_true_iff in Hn. destruct Hn as [Hnt Hnr].
    destruct (wfF_cons _ _ Hf) as [Hwt Hr].
    destruct r as [|t' r'].
    + apply sp_fields_single; auto.
    + destruct Hr as [Hr|[Hst Hr]]; [discriminate|].
      apply sp_fields_cons2; auto. apply IHr; auto. congruence.
  - intros _ _ pv k is a data tag kv tagb kk p [fvs Hs]. discriminate.
  - intros fs IHf r IHr Hw Hn. cbn [narrow_variants] in Hn. apply andb_true_iff in Hn. destruct Hn as [Hnf Hnr].
    pose proof (wf_variants_cons _ _ _ Hw) as [Hf Hr].
    apply sp_variants; auto.
    destruct fs as [|t0 r0]; [left; reflexivity|]. right.
    destruct Hf as [Hf|Hf]; [discriminate|]. split; [exact Hf|]. split; [exact Hnf|]. apply IHf; auto. congruence.
Qed.

(* ---------- the theorems ---------- *)

(* a failed emplacer of the class leaves a valid value: on a valid target (fresh = false), on any
   bytes (fresh = true) *)
Theorem emplace_u_failed_valid_spine t i fresh : wf t = true -> narrow_ty t = true ->
  init_ok t i = true -> utf8_init i = true -> fv_ok fresh t i = true ->
  forall pv a buf k p, aligned a (align t) = true -> min_size t <= blen buf ->
    (fresh = false -> validate_u t a buf = Ok tt) ->
    snd (emplace_u pv t i a buf) = Err k p ->
    validate_u t a (fst (emplace_u pv t i a buf)) = Ok tt.
Proof.
  intros Hw Hn Hi Hu Hfv pv a buf k p Ha Hm Hprior Herr.
  exact (proj1 sp_mut t Hw Hn fresh pv i a buf k p Hi Hu Hfv Ha Hm Hprior Herr).
Qed.

(* C18: a FAILED assign_in_place leaves a valid target *)
Theorem assign_failed_valid_spine t i : wf t = true -> narrow_ty t = true ->
  init_ok t i = true -> utf8_init i = true -> fv_ok false t i = true ->
  forall pv a bs k p, validate t a bs = Ok tt ->
    snd (assign_in_place pv t i a bs) = Err k p ->
    blen (fst (assign_in_place pv t i a bs)) = blen bs /\
    validate t a (fst (assign_in_place pv t i a bs)) = Ok tt.
Proof.
  intros Hw Hn Hi Hu Hfv pv a bs k p Hv Herr.
  destruct (assign_shape t i pv a bs Hw Hv) as (n & _ & Hnb & Ha & Hm & Hvn & E).
  rewrite E in Herr |- *. cbn [fst snd] in *.
  assert (Htl : blen (take n bs) = n) by (apply blen_take_le; exact Hnb).
  destruct (emplace_u_ok t Hw Hn pv i a (take n bs) Hi Hu Ha ltac:(lia)) as (_ & H2 & _).
  split; [rewrite blen_app, blen_drop; lia|].
  apply validate_u_extend; auto; [lia|].
  apply (emplace_u_failed_valid_spine t i false Hw Hn Hi Hu Hfv pv a (take n bs) k p Ha ltac:(lia)
           (fun _ => Hvn) Herr).
Qed.

(* whatever the outcome *)
Theorem assign_always_valid_spine t i : wf t = true -> narrow_ty t = true ->
  init_ok t i = true -> utf8_init i = true -> fv_ok false t i = true ->
  forall pv a bs, validate t a bs = Ok tt ->
    blen (fst (assign_in_place pv t i a bs)) = blen bs /\
    validate t a (fst (assign_in_place pv t i a bs)) = Ok tt.
Proof.
  intros Hw Hn Hi Hu Hfv pv a bs Hv.
  destruct (assign_in_place_ok t i Hw Hn Hi Hu pv a bs Hv) as (H1 & H2 & H3 & _).
  split; [exact H2|].
  destruct (snd (assign_in_place pv t i a bs)) as [[]|k p|c] eqn:E.
  - destruct (H3 eq_refl) as (Hv' & _). exact Hv'.
  - exact (proj2 (assign_failed_valid_spine t i Hw Hn Hi Hu Hfv pv a bs k p Hv E)).
  - discriminate H1.
Qed.
