(* valid_up_to is exact (C19 for text): when the str validation reports index i, the first i bytes are
   well-formed UTF-8 (hence the text of a sequence of scalar values), and EVERY longer prefix of the
   string is rejected at the same index i — the reported byte starts the first ill-formed or
   incomplete sequence, not a later and not an earlier one. *)
From Coq Require Import List NArith Bool Lia ZArith ZifyN ZifyBool ZifyNat.
From Flatty.Model Require Import Base Ty Layout Utf8 Validate View Emplace Ops.
From Flatty.Proofs Require Import BytesFacts ErrPosFacts EmplaceSpec VecOpsFacts VecTypedFacts Utf8DecFacts Utf8AcceptFacts.
Import ListNotations.
Open Scope N_scope.

Lemma utf8_go_prefix : forall n bs pos i, (length bs <= n)%nat -> utf8_go bs pos = Some i ->
  utf8_go (firstn (N.to_nat (i - pos)) bs) pos = None /\
  forall j, (N.to_nat (i - pos) < j)%nat -> utf8_go (firstn j bs) pos = Some i.
Proof.
  induction n as [|n IH]; intros bs pos i Hn H.
  { destruct bs; [discriminate|cbn in Hn; lia]. }
  destruct bs as [|b0 r0]; [discriminate|]. cbn [length] in Hn.
  (* the failing-here shape *)
  assert (Hzero : Some pos = Some i -> N.to_nat (i - pos) = 0%nat).
  { intros E. injection E as <-. rewrite N.sub_diag. reflexivity. }
  (* the recursive shape: m bytes consumed *)
  assert (Hrec : forall r m, (length r <= n)%nat -> utf8_go r (pos + N.of_nat m) = Some i ->
            (0 < m)%nat ->
            N.to_nat (i - pos) = (m + N.to_nat (i - (pos + N.of_nat m)))%nat /\
            utf8_go (firstn (N.to_nat (i - (pos + N.of_nat m))) r) (pos + N.of_nat m) = None /\
            forall j, (N.to_nat (i - (pos + N.of_nat m)) < j)%nat ->
                      utf8_go (firstn j r) (pos + N.of_nat m) = Some i).
  { intros r m Hr E Hm. pose proof (utf8_go_bound _ _ _ _ Hr E) as [Hb _].
    destruct (IH r _ i Hr E) as [A B]. split; [lia|split; assumption]. }
  cbn [utf8_go] in H.
  destruct (b0 <=? 127) eqn:E0.
  { destruct (Hrec r0 1%nat ltac:(lia) H ltac:(lia)) as (Hk & A & B). rewrite Hk. split.
    - cbn [Nat.add firstn utf8_go]. rewrite E0. exact A.
    - intros j Hj. destruct j as [|j]; [lia|]. cbn [firstn utf8_go]. rewrite E0. apply B. lia. }
  destruct (in_range 194 223 b0) eqn:E2.
  { destruct r0 as [|b1 r1].
    { rewrite (Hzero H). injection H as <-. split; [reflexivity|]. intros j Hj.
      destruct j as [|j]; [lia|]. cbn [firstn utf8_go]. rewrite E0, E2. destruct j; reflexivity. }
    destruct (cont b1) eqn:C1.
    - cbn [length] in Hn. destruct (Hrec r1 2%nat ltac:(lia) H ltac:(lia)) as (Hk & A & B). rewrite Hk. split.
      + cbn [Nat.add firstn utf8_go]. rewrite E0, E2, C1. exact A.
      + intros j Hj. destruct j as [|[|j]]; [lia|lia|]. cbn [firstn utf8_go]. rewrite E0, E2, C1. apply B. lia.
    - rewrite (Hzero H). injection H as <-. split; [reflexivity|]. intros j Hj.
      destruct j as [|[|j]]; [lia| |]; cbn [firstn utf8_go]; rewrite E0, E2; [reflexivity|rewrite C1; reflexivity]. }
  destruct (in_range 224 239 b0) eqn:E3.
  { destruct r0 as [|b1 [|b2 r2]].
    { rewrite (Hzero H). injection H as <-. split; [reflexivity|]. intros j Hj.
      destruct j as [|j]; [lia|]. cbn [firstn utf8_go]. rewrite E0, E2, E3. destruct j; reflexivity. }
    { rewrite (Hzero H). injection H as <-. split; [reflexivity|]. intros j Hj.
      destruct j as [|[|j]]; [lia| |]; cbn [firstn utf8_go]; rewrite E0, E2, E3; [reflexivity|destruct j; reflexivity]. }
    cbv zeta in H.
    match type of H with (if ?c then _ else _) = _ => destruct c eqn:C end.
    - cbn [length] in Hn. destruct (Hrec r2 3%nat ltac:(lia) H ltac:(lia)) as (Hk & A & B). rewrite Hk. split.
      + cbn [Nat.add firstn utf8_go]. rewrite E0, E2, E3. cbv zeta. rewrite C. exact A.
      + intros j Hj. destruct j as [|[|[|j]]]; [lia|lia|lia|]. cbn [firstn utf8_go]. rewrite E0, E2, E3.
        cbv zeta. rewrite C. apply B. lia.
    - rewrite (Hzero H). injection H as <-. split; [reflexivity|]. intros j Hj.
      destruct j as [|[|[|j]]]; [lia| | |]; cbn [firstn utf8_go]; rewrite E0, E2, E3;
        [reflexivity|reflexivity|cbv zeta; rewrite C; reflexivity]. }
  destruct (in_range 240 244 b0) eqn:E4.
  2:{ rewrite (Hzero H). injection H as <-. split; [reflexivity|]. intros j Hj.
      destruct j as [|j]; [lia|]. cbn [firstn utf8_go]. rewrite E0, E2, E3, E4. reflexivity. }
  destruct r0 as [|b1 [|b2 [|b3 r3]]].
  { rewrite (Hzero H). injection H as <-. split; [reflexivity|]. intros j Hj.
    destruct j as [|j]; [lia|]. cbn [firstn utf8_go]. rewrite E0, E2, E3, E4. destruct j; reflexivity. }
  { rewrite (Hzero H). injection H as <-. split; [reflexivity|]. intros j Hj.
    destruct j as [|[|j]]; [lia| |]; cbn [firstn utf8_go]; rewrite E0, E2, E3, E4; [reflexivity|destruct j; reflexivity]. }
  { rewrite (Hzero H). injection H as <-. split; [reflexivity|]. intros j Hj.
    destruct j as [|[|[|j]]]; [lia| | |]; cbn [firstn utf8_go]; rewrite E0, E2, E3, E4;
      [reflexivity|reflexivity|destruct j; reflexivity]. }
  cbv zeta in H.
  match type of H with (if ?c then _ else _) = _ => destruct c eqn:C end.
  - cbn [length] in Hn. destruct (Hrec r3 4%nat ltac:(lia) H ltac:(lia)) as (Hk & A & B). rewrite Hk. split.
    + cbn [Nat.add firstn utf8_go]. rewrite E0, E2, E3, E4. cbv zeta. rewrite C. exact A.
    + intros j Hj. destruct j as [|[|[|[|j]]]]; [lia|lia|lia|lia|]. cbn [firstn utf8_go]. rewrite E0, E2, E3, E4.
      cbv zeta. rewrite C. apply B. lia.
  - rewrite (Hzero H). injection H as <-. split; [reflexivity|]. intros j Hj.
    destruct j as [|[|[|[|j]]]]; [lia| | | |]; cbn [firstn utf8_go]; rewrite E0, E2, E3, E4;
      [reflexivity|reflexivity|reflexivity|cbv zeta; rewrite C; reflexivity].
Qed.

Theorem utf8_valid_up_to bs i : utf8_err bs = Some i ->
  i < blen bs /\ utf8_err (take i bs) = None /\
  forall j, i < j -> utf8_err (take j bs) = Some i.
Proof.
  unfold utf8_err. intros H. split; [exact (utf8_err_bound bs i H)|].
  destruct (utf8_go_prefix (length bs) bs 0 i (le_n _) H) as [A B]. rewrite N.sub_0_r in A, B.
  split; [exact A|]. intros j Hj. unfold take. apply B. lia.
Qed.

(* the accepted prefix is the text of scalar values *)
Theorem utf8_valid_prefix_is_text bs i : utf8_err bs = Some i ->
  exists cs, Forall scalar cs /\ text_of cs = take i bs.
Proof.
  intros H. destruct (utf8_valid_up_to bs i H) as (_ & A & _).
  apply utf8_accept_iff. exact A.
Qed.
