(* FlexNestedSpecFacts.v — histories on a FlexVec of FlexVecs refine the list-of-lists model:
   the contents read at the end of a history (operations of the outer vector interleaved with
   in-place edits of inner vectors, Proofs/FlexNestedHistFacts.v flex2_run) are what the list
   model computes from the contents at the start and the outcomes reported step by step.
   Contents are stated up to strip (Model/View.v: the capacities nested FlatVec / FlatString values
   report are removed), as in Proofs/FlexOpsFacts.v flex_op_history.
   Built from flex_op_step_g (Proofs/FlexOpsFacts.v) at the outer type (every item type, UTF-8
   literals: Proofs/FlexAllFacts.v) and at the inner type (sized items), and flex_edit_flex_ok
   (Proofs/FlexNestedFacts.v).  Pinned in Props/C12_nested_spec.v. *)
From Coq Require Import List NArith Bool Lia ZArith ZifyN ZifyBool ZifyNat.
From Flatty.Model Require Import Base Ty Layout Validate View Emplace Ops.
From Flatty.Proofs Require Import ArithFacts LayoutFacts BytesFacts ValidateFacts ChainFacts ViewFacts
  EmplaceSpec FlexOpsFacts EmplaceUnsizedFacts AssignValidFacts AssignSpineFacts FlexAllFacts FlexNestedFacts
  FlexNestedHistFacts.
Import ListNotations.
Open Scope N_scope.

(* ---------- the specification-level definitions ---------- *)

(* one step of the list-of-lists model on the stripped contents: xs is the list of the inner
   vectors, each one VNode 0 ws with ws its items.  An outer step is the step of the list model
   of the outer vector (items of type TFlex it il); an inner step replaces inner vector j by the
   step of the list model of the inner vector (items of type it) and changes nothing when there is
   no inner vector j *)
Definition spec2_step (it : ty) (il : intty) (xs : list value) (o : fop2) (out : oout) : list value :=
  match o with
  | Outer fo => flex_spec_step (TFlex it il) xs fo out
  | Inner j fo =>
      match nth_error xs (N.to_nat j) with
      | Some (VNode g ws) => splice (N.to_nat j) (VNode g (flex_spec_step it ws fo out)) xs
      | _ => xs
      end
  end.

(* the run of the model along a history, fed with the outcomes reported step by step *)
Fixpoint spec2_run (it : ty) (il : intty) (ops : list fop2) (outs : list oout) (xs : list value) : list value :=
  match ops, outs with
  | o :: r, out :: outs' => spec2_run it il r outs' (spec2_step it il xs o out)
  | _, _ => xs
  end.

(* ---------- lists ---------- *)

Lemma spec_skipn_map {A B} (f : A -> B) : forall n xs, skipn n (map f xs) = map f (skipn n xs).
Proof.
  induction n as [|n IH]; intros xs; [reflexivity|].
  destruct xs as [|x r]; [reflexivity|]. cbn [map skipn]. apply IH.
Qed.

Lemma map_splice {A B} (f : A -> B) j x xs : map f (splice j x xs) = splice j (f x) (map f xs).
Proof.
  unfold splice. rewrite map_app. cbn [map]. rewrite firstn_map, spec_skipn_map. reflexivity.
Qed.

Lemma nth_error_map_none {A B} (f : A -> B) xs j : nth_error xs j = None -> nth_error (map f xs) j = None.
Proof.
  intros H. apply nth_error_None. rewrite map_length. apply nth_error_None. exact H.
Qed.

(* the covered inner operations are the simple operations of the inner vector *)
Lemma inner_ok_simple it fo : inner_ok it fo -> simple_op_g it (fun _ => True) fo.
Proof.
  intros H. split.
  - destruct fo as [i| |n| |j vo|j x]; exact H.
  - destruct fo as [i| |n| |j vo|j x]; exact I.
Qed.

(* ---------- one step ---------- *)

Section Spec.
  Variables (pv : option N) (it : ty) (il l : intty) (a : N).
  Local Notation et := (TFlex it il).
  Local Notation t := (TFlex (TFlex it il) l).
  Hypothesis Hw : wf t = true.
  Hypothesis Hnar : narrow l = true.
  Hypothesis Hnari : narrow il = true.
  Hypothesis Hwi : wf it = true.
  Hypothesis Hsi : sized it = true.

  Let Hwe : wf et = true := proj1 (wf_flex_inv et l Hw).

  (* the inner operation on a valid payload: the contents of the result are the step of the list
     model of the inner vector *)
  Lemma inner_op_contents pa fo pl ws : inner_ok it fo ->
    validate et pa pl = Ok tt -> view et pl = Ok (VNode 0 ws) ->
    exists ws', view et (fst (flex_op pv et pa fo pl)) = Ok (VNode 0 ws') /\
      map strip ws' = flex_spec_step it (map strip ws) fo (snd (flex_op pv et pa fo pl)).
  Proof.
    intros Hfo Hvpl Hviewpl.
    destruct (flex_op_step_g pv it il pa Hwe Hnari (fun _ => True)
                (fun i pa0 p p' _ => sized_item_ok pv it Hwi Hsi i pa0 p p')
                (fun i pa0 p _ => sized_item_len pv it Hwi Hsi i pa0 p)
                (fun i pa0 p _ => sized_item_nocrash pv it Hwi Hsi i pa0 p)
                fo pl ws (inner_ok_simple it fo Hfo) Hvpl Hviewpl) as (_ & _ & ws' & Hview' & Hstrip & _).
    exists ws'. auto.
  Qed.

  (* an inner step: the contents after it *)
  Lemma inner_step_contents j fo bs vs : inner_ok it fo ->
    validate t a bs = Ok tt -> view t bs = Ok (VNode 0 vs) ->
    let r := flex_edit_flex pv t a j fo bs in
    exists vs', view t (fst r) = Ok (VNode 0 vs') /\
      map strip vs' = spec2_step it il (map strip vs) (Inner j fo) (snd r).
  Proof.
    intros Hfo Hv Hview r.
    assert (Hf : forall pa pl, validate et pa pl = Ok tt ->
              blen (fst (flex_op pv et pa fo pl)) = blen pl /\
              validate et pa (fst (flex_op pv et pa fo pl)) = Ok tt).
    { intros pa pl Hvpl. destruct (inner_step pv it il pa fo pl Hwe Hnari Hwi Hsi Hfo Hvpl) as (H1 & H2 & _). auto. }
    destruct (flex_edit_flex_ok pv it il l a Hw Hnar j fo bs vs Hf Hv Hview) as [Hnone Hsome].
    fold r in Hnone, Hsome. cbn [spec2_step].
    destruct (nth_error vs (N.to_nat j)) as [v|] eqn:Hj.
    - destruct (Hsome v eq_refl) as (pa & pl & v' & Hvpl & Hviewpl & Hout & Hview' & _ & _ & Hview2).
      destruct (flex_view_node it il pa pl v Hwe Hnari Hvpl Hviewpl) as (ws & ->).
      destruct (inner_op_contents pa fo pl ws Hfo Hvpl Hviewpl) as (ws' & Hvw & Hstrip).
      rewrite Hview' in Hvw. injection Hvw as ->.
      exists (splice (N.to_nat j) (VNode 0 ws') vs). split; [exact Hview2|].
      rewrite (map_nth_error strip _ _ Hj). cbn [strip].
      rewrite map_splice. cbn [strip]. rewrite Hstrip, Hout. reflexivity.
    - rewrite (Hnone eq_refl). cbn [fst snd]. exists vs. split; [exact Hview|].
      rewrite (nth_error_map_none strip vs _ Hj). reflexivity.
  Qed.

  Hypothesis Hnit : narrow_ty it = true.

  (* an outer step: the contents after it *)
  Lemma outer_step_contents fo bs vs : simple_op_u et fo ->
    validate t a bs = Ok tt -> view t bs = Ok (VNode 0 vs) ->
    let r := flex_op pv t a fo bs in
    exists vs', view t (fst r) = Ok (VNode 0 vs') /\
      map strip vs' = spec2_step it il (map strip vs) (Outer fo) (snd r).
  Proof.
    intros Hfo Hv Hview r.
    assert (Hne : narrow_ty et = true) by (cbn [narrow_ty]; rewrite Hnit, Hnari; reflexivity).
    destruct (flex_op_step_g pv et l a Hw Hnar utf8_ok (all_item_ok pv et Hwe Hne) (all_item_len pv et Hwe Hne)
                (all_item_nocrash pv et Hwe Hne) fo bs vs Hfo Hv Hview) as (_ & _ & vs' & Hview' & Hstrip & _).
    exists vs'. cbn [spec2_step]. auto.
  Qed.

  (* every covered step: the contents after it are the step of the list-of-lists model *)
  Lemma step_contents o bs vs : step_ok it il o ->
    validate t a bs = Ok tt -> view t bs = Ok (VNode 0 vs) ->
    let r := flex2_step pv it il l a o bs in
    exists vs', view t (fst r) = Ok (VNode 0 vs') /\
      map strip vs' = spec2_step it il (map strip vs) o (snd r).
  Proof.
    intros Hop Hv Hview. destruct o as [fo|j fo]; cbn [step_ok] in Hop; cbn [flex2_step].
    - exact (outer_step_contents fo bs vs Hop Hv Hview).
    - exact (inner_step_contents j fo bs vs Hop Hv Hview).
  Qed.

  (* every history: the contents at the end are the run of the list-of-lists model *)
  Theorem history_contents ops : forall bs vs, Forall (step_ok it il) ops ->
    validate t a bs = Ok tt -> view t bs = Ok (VNode 0 vs) ->
    exists vs', view t (fst (flex2_run pv it il l a ops bs)) = Ok (VNode 0 vs') /\
      map strip vs' = spec2_run it il ops (snd (flex2_run pv it il l a ops bs)) (map strip vs).
  Proof.
    induction ops as [|o ops IH]; intros bs vs Hops Hv Hview.
    - cbn [flex2_run spec2_run fst snd]. exists vs. auto.
    - inversion Hops as [|x r' Hop Hops']; subst x r'.
      destruct (step_valid pv it il l a Hw Hnar Hnari Hwi Hsi Hnit o bs Hop Hv) as (_ & Hv' & _).
      destruct (step_contents o bs vs Hop Hv Hview) as (vs1 & Hview1 & Hstrip1).
      destruct (IH _ vs1 Hops' Hv' Hview1) as (vs2 & Hview2 & Hstrip2).
      cbn [flex2_run]. cbv zeta. cbn [fst snd spec2_run].
      exists vs2. split; [exact Hview2|]. rewrite <- Hstrip1. exact Hstrip2.
  Qed.
End Spec.

(* the statements in the shape pinned in Props/C12_nested_spec.v *)
Theorem nested_step_contents pv it il l a :
  wf (TFlex (TFlex it il) l) = true -> narrow_ty (TFlex (TFlex it il) l) = true ->
  wf it = true -> sized it = true ->
  forall o bs vs, step_ok it il o ->
  validate (TFlex (TFlex it il) l) a bs = Ok tt -> view (TFlex (TFlex it il) l) bs = Ok (VNode 0 vs) ->
  let r := flex2_step pv it il l a o bs in
  exists vs', view (TFlex (TFlex it il) l) (fst r) = Ok (VNode 0 vs') /\
    map strip vs' = spec2_step it il (map strip vs) o (snd r).
Proof.
  intros Hw Hn Hwi Hsi o bs vs. destruct (narrow_flex2_inv it il l Hn) as (H1 & H2 & H3).
  exact (step_contents pv it il l a Hw H3 H2 Hwi Hsi H1 o bs vs).
Qed.

Theorem nested_history_contents pv it il l a :
  wf (TFlex (TFlex it il) l) = true -> narrow_ty (TFlex (TFlex it il) l) = true ->
  wf it = true -> sized it = true ->
  forall ops bs vs, Forall (step_ok it il) ops ->
  validate (TFlex (TFlex it il) l) a bs = Ok tt -> view (TFlex (TFlex it il) l) bs = Ok (VNode 0 vs) ->
  exists vs', view (TFlex (TFlex it il) l) (fst (flex2_run pv it il l a ops bs)) = Ok (VNode 0 vs') /\
    map strip vs' = spec2_run it il ops (snd (flex2_run pv it il l a ops bs)) (map strip vs).
Proof.
  intros Hw Hn Hwi Hsi ops bs vs. destruct (narrow_flex2_inv it il l Hn) as (H1 & H2 & H3).
  exact (history_contents pv it il l a Hw H3 H2 Hwi Hsi H1 ops bs vs).
Qed.

(* an inner edit alone needs only the two offset types to be narrow *)
Theorem nested_inner_step_contents pv it il l a :
  wf (TFlex (TFlex it il) l) = true -> narrow l = true -> narrow il = true ->
  wf it = true -> sized it = true ->
  forall j fo bs vs, inner_ok it fo ->
  validate (TFlex (TFlex it il) l) a bs = Ok tt -> view (TFlex (TFlex it il) l) bs = Ok (VNode 0 vs) ->
  let r := flex_edit_flex pv (TFlex (TFlex it il) l) a j fo bs in
  exists vs', view (TFlex (TFlex it il) l) (fst r) = Ok (VNode 0 vs') /\
    map strip vs' = spec2_step it il (map strip vs) (Inner j fo) (snd r).
Proof.
  intros Hw Hn Hni Hwi Hsi j fo bs vs. exact (inner_step_contents pv it il l a Hw Hn Hni Hwi Hsi j fo bs vs).
Qed.
