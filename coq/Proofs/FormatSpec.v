(* FormatSpec.v — the documented encoding as a reference decoder (the reference side of C02).
   Written from the documentation (README "Validation", the type docs of FlatVec / FlatString /
   FlexVec, the module docs) and the reference C layout of RefLayout.v (c_size, c_align, round_up,
   c_union_offset, c_vec_data_offset) — not from the validation code and sharing no function with it
   except the UTF-8 table.  [ref_decode t bs] is [Some content] exactly when [bs], mapped as a value
   of type [t] at a suitably aligned address, holds a well-formed encoding:

     - a reference to an unsized value covers the slice rounded DOWN to the type's alignment;
     - FlatVec<T, L> is struct { len: L, data: [T] }: as many element slots as fit behind the C
       offset of data, at most L::MAX; well formed iff len <= that capacity and the first len
       elements are; FlatString<L> likewise with bytes and UTF-8;
     - FlexVec<T, L> is a chain of [offset slot][item]: a slot of 0 terminates, a slot of L::MAX
       marks the last item (which owns the rest), any other slot value is the distance to the next
       slot and must be at least the slot size, a multiple of the alignment and inside the data;
       every item must be well formed in its own bytes;
     - a struct is its fields at their C offsets; an enum is its tag (a variant index) followed at
       the C offset of the payload union by the fields of that variant at their C offsets;
     - Bool is 0 or 1; a C-like enum is a variant index.

   Content is a [value] without capacities (VCont 0 ..), as produced by [strip]. *)
From Coq Require Import List NArith Bool.
From Flatty.Model Require Import Base Ty Utf8 RefLayout View.
Open Scope N_scope.

Definition round_down (x a : N) : N := x - x mod a.

Definition stored_at (i : intty) (bs : bytes) : option N :=
  if isize i <=? blen bs then Some (of_bytes (ibe i) (take (isize i) bs)) else None.

(* bytes [from, from+len) of bs, if present *)
Definition sub (from len : N) (bs : bytes) : option bytes :=
  if from + len <=? blen bs then Some (take len (drop from bs)) else None.

Fixpoint all_some {A} (l : list (option A)) : option (list A) :=
  match l with
  | [] => Some []
  | Some x :: r => match all_some r with Some xs => Some (x :: xs) | None => None end
  | None :: _ => None
  end.

Definition indices (n : N) : list N := map N.of_nat (seq 0 (N.to_nat n)).

Section FlexRef.
  Variables (l : intty) (os al : N) (item : bytes -> option value).
  (* [data] = the bytes the FlexVec covers; [p] = position of the next offset slot *)
  Fixpoint ref_chain (fuel : nat) (data : bytes) (p : N) : option (list value) :=
    match fuel with
    | O => None
    | S f =>
        match stored_at l (drop p data) with
        | None => None
        | Some next =>
            if p + isize l <=? blen data then
              if next =? 0 then Some []
              else if next =? int_max l then
                if p + os <=? blen data then
                  match item (drop (p + os) data) with Some v => Some [v] | None => None end
                else None
              else if (os <=? next) && (next mod al =? 0) && (p + next <=? blen data) then
                match sub (p + os) (next - os) data with
                | Some payload =>
                    match item payload, ref_chain f data (p + next) with
                    | Some v, Some vs => Some (v :: vs)
                    | _, _ => None
                    end
                | None => None
                end
              else None
            else None
        end
    end.
End FlexRef.

Fixpoint ref_decode (t : ty) (bs : bytes) {struct t} : option value :=
  match t with
  | TUnit => Some (VNode 0 [])
  | TInt i => match stored_at i bs with Some v => Some (VInt v) | None => None end
  | TBool => match bs with b :: _ => if b <=? 1 then Some (VInt b) else None | [] => None end
  | TCLike tag n _ =>
      match stored_at tag bs with Some v => if v <? n then Some (VInt v) else None | None => None end
  | TArr t n =>
      let cs := c_size t in
      match all_some (map (fun i => match sub (i * cs) cs bs with Some el => ref_decode t el | None => None end)
                          (indices n)) with
      | Some vs => Some (VNode 0 vs)
      | None => None
      end
  | TVec t l =>
      let A := N.max (ialign l) (c_align t) in
      let d := c_vec_data_offset t l in
      let cs := c_size t in
      let m := round_down (blen bs) A in
      if m <? d then None
      else
        let cap := N.min (if cs =? 0 then 0 else (m - d) / cs) (int_max l) in
        match stored_at l bs with
        | Some len =>
            if len <=? cap then
              match all_some (map (fun i => match sub (d + i * cs) cs bs with Some el => ref_decode t el | None => None end)
                                  (indices len)) with
              | Some vs => Some (VCont 0 vs)
              | None => None
              end
            else None
        | None => None
        end
  | TStr l =>
      let m := round_down (blen bs) (ialign l) in
      if m <? isize l then None
      else
        let cap := N.min (m - isize l) (int_max l) in
        match stored_at l bs with
        | Some len =>
            if len <=? cap then
              match sub (isize l) len bs with
              | Some s => match utf8_err s with None => Some (VCont 0 (map VInt s)) | Some _ => None end
              | None => None
              end
            else None
        | None => None
        end
  | TFlex t l =>
      let A := N.max (ialign l) (c_align t) in
      let os := round_up (isize l) (c_align t) in
      let data := take (round_down (blen bs) A) bs in
      (* an item must also be large enough for its type: ref_decode of the item type says so *)
      match ref_chain l os A (ref_decode t) (S (length data)) data 0 with
      | Some vs => Some (VNode 0 vs)
      | None => None
      end
  | TStruct s fs =>
      let data := if s then bs else take (round_down (blen bs) (c_align_fields fs)) bs in
      (* a sized value needs all of its SIZE bytes, trailing padding included *)
      if s && (blen bs <? c_size (TStruct s fs)) then None
      else match ref_fields fs 0 data with Some vs => Some (VNode 0 vs) | None => None end
  | TEnum s tag dflt vs =>
      let A := N.max (ialign tag) (c_align_variants vs) in
      let uo := c_union_offset tag vs in
      match stored_at tag bs with
      | Some v =>
          if (v <? vlen vs) && (uo <=? blen bs) && negb (s && (blen bs <? c_size (TEnum s tag dflt vs))) then
            let data0 := drop uo bs in
            let data := if s then data0 else take (round_down (blen data0) A) data0 in
            match ref_variant vs (N.to_nat v) data with Some fvs => Some (VNode v fvs) | None => None end
          else None
      | None => None
      end
  end
(* the fields at their C offsets, laid out from offset [off] of [data] *)
with ref_fields (fs : fields) (off : N) (data : bytes) {struct fs} : option (list value) :=
  match fs with
  | FNil => Some []
  | FCons t r =>
      let o := round_up off (c_align t) in
      if o <=? blen data then
        match ref_decode t (drop o data), ref_fields r (o + c_size t) data with
        | Some v, Some vs => Some (v :: vs)
        | _, _ => None
        end
      else None
  end
with ref_variant (vs : variants) (k : nat) (data : bytes) {struct vs} : option (list value) :=
  match vs with
  | VNil => None
  | VCons fs r =>
      match k with
      | O => ref_fields fs 0 data
      | S k' => ref_variant r k' data
      end
  end.

Definition well_formed (t : ty) (bs : bytes) : Prop := ref_decode t bs <> None.
