(* AssignClassFacts.v — C18, the complement of the two known finding classes.  The checking harness
   recognises exactly two classes of (type, emplacer expression) pairs on which a failed
   assign_in_place may have changed the target (tools/oracles.py classify):
     late_field_refusal : the type involves a generated <T>Init and the expression contains a struct
                          or variant literal;
     iter_emplacer      : the expression contains vec::FromIterator or flex::FromIterator.
   Here: outside these classes a failed assign_in_place on a valid target leaves it byte for byte
   unchanged, and the error is InsufficientSize. *)
From Coq Require Import List NArith Bool Lia ZArith ZifyN ZifyBool ZifyNat.
From Flatty.Model Require Import Base Ty Layout Utf8 Validate View Emplace.
From Flatty.Proofs Require Import ArithFacts LayoutFacts BytesFacts ValidateFacts EmplaceFacts EmplaceSpec
  AssignFacts EmplaceUnsizedFacts AssignValidFacts AssignSpineFacts.
Import ListNotations.
Open Scope N_scope.

(* ---------- the two classes, as the harness matches them ---------- *)

(* the type involves a generated <T>Init: an unsized struct / enum, or a FlexVec of one *)
Fixpoint has_init_type (t : ty) : bool :=
  match t with
  | TStruct false _ | TEnum false _ _ _ => true
  | TFlex et _ => has_init_type et
  | _ => false
  end.

(* a struct literal (ISeq) or a variant literal (IVar) anywhere in the expression *)
Fixpoint uses_literal (i : init) : bool :=
  match i with
  | ISeq _ | IVar _ _ => true
  | IVecArr is | IVecIter is | IFlex is => existsb uses_literal is
  | _ => false
  end.

(* vec::FromIterator (IVecIter) or flex::FromIterator (IFlex) anywhere in the expression *)
Fixpoint uses_iter (i : init) : bool :=
  match i with
  | IVecIter _ | IFlex _ => true
  | ISeq is | IVar _ is | IVecArr is => existsb uses_iter is
  | _ => false
  end.

Definition in_known_class (t : ty) (i : init) : bool := (has_init_type t && uses_literal i) || uses_iter i.

(* ---------- the emplacer, one level below assign_in_place ---------- *)

(* outside the classes an emplacer that returns Err has written nothing *)
Lemma emplace_u_err_unchanged_outside t i : wf t = true -> narrow_ty t = true ->
  init_ok t i = true -> in_known_class t i = false ->
  forall pv a buf b' k p, aligned a (align t) = true -> min_size t <= blen buf ->
    emplace_u pv t i a buf = (b', Err k p) -> b' = buf.
Proof.
  intros Hw Hn Hi Hc pv a buf b' k p Ha Hm E.
  assert (Herr : snd (emplace_u pv t i a buf) = Err k p) by (rewrite E; reflexivity).
  assert (Hsized : sized t = true -> False).
  { intros Hs. pose proof (emplace_u_sized_not_err pv t i a buf Hs) as H. rewrite Herr in H. discriminate. }
  assert (Hnoterr : is_err (snd (emplace_u pv t i a buf)) = false -> False).
  { intros H. rewrite Herr in H. discriminate. }
  assert (Hdef : i = IDefault -> False).
  { intros ->. exact (default_not_err t Hw Hn Hi pv a buf k p Ha Hm Herr). }
  unfold in_known_class in Hc. apply orb_false_iff in Hc. destruct Hc as [Hlit Hit].
  (* below, [try discriminate] dismisses the ill-typed expressions (Hi) and the ones inside a class:
     IVecIter / IFlex by Hit, ISeq / IVar on a generated Init by Hlit *)
  destruct t as [|it| |tag n d|t n|et l|l|et l|s fs|s tag d vs];
    try (exfalso; apply Hsized; reflexivity).
  - (* FlatVec *)
    unfold init_ok in Hi.
    destruct i as [v|is0|k0 is0|is0|is0|s0|is0| |]; cbn [spec_value] in Hi; try discriminate.
    + exact (proj1 (vec_from_array_err_unchanged pv et l is0 a buf b' k p E)).
    + exfalso. apply Hnoterr. apply container_default_not_err; [left; eauto|left; reflexivity].
    + exfalso. apply Hdef. reflexivity.
  - (* FlatString *)
    unfold init_ok in Hi.
    destruct i as [v|is0|k0 is0|is0|is0|s0|is0| |]; cbn [spec_value] in Hi; try discriminate.
    + exact (proj1 (str_from_str_err_unchanged pv l s0 a buf b' k p E)).
    + exfalso. apply Hnoterr. apply container_default_not_err; [right; left; eauto|left; reflexivity].
    + exfalso. apply Hdef. reflexivity.
  - (* FlexVec *)
    unfold init_ok in Hi.
    destruct i as [v|is0|k0 is0|is0|is0|s0|is0| |]; cbn [spec_value] in Hi; try discriminate.
    + exfalso. apply Hnoterr. apply container_default_not_err; [right; right; eauto|left; reflexivity].
    + exfalso. apply Hdef. reflexivity.
  - (* struct *)
    destruct s; [exfalso; apply Hsized; reflexivity|].
    cbn [has_init_type andb] in Hlit. unfold init_ok in Hi.
    destruct i as [v|is0|k0 is0|is0|is0|s0|is0| |]; cbn [spec_value field_inits] in Hi; try discriminate;
      try (cbn [uses_literal] in Hlit; discriminate).
    exfalso. apply Hdef. reflexivity.
  - (* enum *)
    destruct s; [exfalso; apply Hsized; reflexivity|].
    cbn [has_init_type andb] in Hlit. unfold init_ok in Hi.
    destruct i as [v|is0|k0 is0|is0|is0|s0|is0| |]; cbn [spec_value] in Hi; try discriminate;
      try (cbn [uses_literal] in Hlit; discriminate).
    exfalso. apply Hdef. reflexivity.
Qed.

(* ---------- assign_in_place ---------- *)

Theorem assign_failed_unchanged_outside t i : wf t = true -> narrow_ty t = true ->
  init_ok t i = true -> utf8_init i = true -> in_known_class t i = false ->
  forall pv a bs bs' k p, validate t a bs = Ok tt ->
    assign_in_place pv t i a bs = (bs', Err k p) -> bs' = bs.
Proof.
  intros Hw Hn Hi Hu Hc pv a bs bs' k p Hv E.
  destruct (assign_shape t i pv a bs Hw Hv) as (n & _ & Hnb & Ha & Hm & _ & Es).
  rewrite Es in E.
  destruct (emplace_u pv t i a (take n bs)) as [b1 r1] eqn:Ee. cbn [fst snd] in E.
  injection E as <- Hr. subst r1.
  assert (Htl : blen (take n bs) = n) by (apply blen_take_le; exact Hnb).
  rewrite (emplace_u_err_unchanged_outside t i Hw Hn Hi Hc pv a (take n bs) b1 k p Ha ltac:(lia) Ee).
  apply take_drop.
Qed.

(* the kind of the error: InsufficientSize — inside the classes as well *)
Theorem assign_failed_kind t i : wf t = true -> narrow_ty t = true ->
  init_ok t i = true -> utf8_init i = true ->
  forall pv a bs bs' k p, validate t a bs = Ok tt ->
    assign_in_place pv t i a bs = (bs', Err k p) -> k = InsufficientSize.
Proof.
  intros Hw Hn Hi Hu pv a bs bs' k p Hv E.
  destruct (assign_shape t i pv a bs Hw Hv) as (n & _ & Hnb & Ha & Hm & _ & Es).
  rewrite Es in E. injection E as _ Hr.
  assert (Htl : blen (take n bs) = n) by (apply blen_take_le; exact Hnb).
  destruct (emplace_u_ok t Hw Hn pv i a (take n bs) Hi Hu Ha ltac:(lia)) as (_ & _ & _ & _ & H5).
  exact (H5 k p Hr).
Qed.

Theorem assign_failed_outside_kind t i : wf t = true -> narrow_ty t = true ->
  init_ok t i = true -> utf8_init i = true -> in_known_class t i = false ->
  forall pv a bs bs' k p, validate t a bs = Ok tt ->
    assign_in_place pv t i a bs = (bs', Err k p) -> k = InsufficientSize.
Proof.
  intros Hw Hn Hi Hu _ pv a bs bs' k p Hv E.
  exact (assign_failed_kind t i Hw Hn Hi Hu pv a bs bs' k p Hv E).
Qed.
