(* IoRecvFacts.v — the receive side of the framed IO layer (Model/Io.v, Section Msg):
   buffer window facts, the receiver loop fed arbitrary bytes (C10), read faults (C09),
   a sequence of canonical messages under every chunking (C07), Pending polls (C08). *)
From Coq Require Import List NArith Bool Lia ZArith ZifyN ZifyBool ZifyNat.
From Flatty.Model Require Import Base Io.
From Flatty.Proofs Require Import ArithFacts BytesFacts.
Open Scope N_scope.

(* ------------------------------------------------------------------ byte list helpers *)

Lemma drop_app_le n a b : n <= blen a -> drop n (a ++ b) = drop n a ++ b.
Proof.
  unfold drop, blen. intros H. rewrite skipn_app.
  replace (N.to_nat n - length a)%nat with 0%nat by lia. reflexivity.
Qed.

Lemma firstn_add_skipn (n j : nat) (l : list N) : firstn (n + j) l = firstn n l ++ firstn j (skipn n l).
Proof.
  revert l. induction n as [|n IH]; intros l; [reflexivity|].
  destruct l as [|x l]; [cbn; rewrite firstn_nil; reflexivity|].
  cbn [Nat.add firstn skipn app]. f_equal. apply IH.
Qed.

Lemma take_add n j l : take (n + j) l = take n l ++ take j (drop n l).
Proof. unfold take, drop. rewrite N2Nat.inj_add. apply firstn_add_skipn. Qed.

Lemma take_0 l : take 0 l = [].
Proof. reflexivity. Qed.

Lemma blen_0_nil l : blen l = 0 -> l = [].
Proof. destruct l; [reflexivity|]. rewrite blen_cons. lia. Qed.

Lemma skipn_S_tl {T} (k : nat) (l : list T) : skipn k (tl l) = skipn (S k) l.
Proof. destruct l; [cbn; apply skipn_nil|reflexivity]. Qed.

Lemma In_tl {T} (x : T) l : In x (tl l) -> In x l.
Proof. destruct l; [intros []|intros H; right; exact H]. Qed.

(* two ways of splitting the same list: the shorter head is a prefix of the longer *)
Lemma app_eq_take_l (w str m rest : bytes) : w ++ str = m ++ rest -> blen w <= blen m -> w = take (blen w) m.
Proof.
  intros E H. rewrite <- (take_app_exact w str) at 1. rewrite E. apply take_app_le. exact H.
Qed.

(* ------------------------------------------------------------------ the buffer window *)

Definition wfb (b : buffer) : Prop := st b <= en b /\ en b <= cap b.

Lemma wfb_new c fill : wfb (new_buffer c fill).
Proof. unfold wfb, new_buffer; cbn [st en]. lia. Qed.

Lemma cap_new c fill : cap (new_buffer c fill) = c.
Proof. unfold cap, new_buffer, blen; cbn [data]. rewrite repeat_length. lia. Qed.

Lemma occupied_new c fill : occupied (new_buffer c fill) = [].
Proof. reflexivity. Qed.

Lemma blen_occupied b : wfb b -> blen (occupied b) = en b - st b.
Proof.
  unfold wfb, cap, occupied. intros [H1 H2]. rewrite blen_take, blen_drop. lia.
Qed.

Lemma st_mc b : st (make_contiguous b) = 0.
Proof. reflexivity. Qed.
Lemma en_mc b : en (make_contiguous b) = en b - st b.
Proof. reflexivity. Qed.
Lemma data_mc b : data (make_contiguous b) = occupied b ++ drop (blen (occupied b)) (data b).
Proof. reflexivity. Qed.

Lemma cap_mc b : wfb b -> cap (make_contiguous b) = cap b.
Proof.
  intros H. unfold cap. rewrite data_mc, blen_app, blen_drop, (blen_occupied b H).
  unfold wfb, cap in H. lia.
Qed.

Lemma wfb_mc b : wfb b -> wfb (make_contiguous b).
Proof.
  intros H. unfold wfb. rewrite (cap_mc b H), st_mc, en_mc. unfold wfb in H. lia.
Qed.

Lemma occupied_mc b : wfb b -> occupied (make_contiguous b) = occupied b.
Proof.
  intros H. unfold occupied at 1. rewrite st_mc, en_mc, data_mc, N.sub_0_r, drop_0.
  rewrite <- (blen_occupied b H). apply take_app_exact.
Qed.

Lemma st_fv got b : st (fill_vacant got b) = st b.
Proof. reflexivity. Qed.
Lemma en_fv got b : en (fill_vacant got b) = en b.
Proof. reflexivity. Qed.
Lemma data_fv got b :
  data (fill_vacant got b) = take (en b) (data b) ++ got ++ drop (en b + blen got) (data b).
Proof. reflexivity. Qed.

Lemma cap_fv got b : wfb b -> blen got <= vacant_len b -> cap (fill_vacant got b) = cap b.
Proof.
  unfold wfb, vacant_len, cap. intros [H1 H2] Hg.
  rewrite data_fv, !blen_app, blen_take, blen_drop. lia.
Qed.

(* storing the received bytes and moving `end`: never the assertion, the window grows by exactly
   those bytes *)
Definition grow (got : bytes) (b : buffer) : buffer :=
  {| data := data (fill_vacant got b); st := st b; en := en b + blen got |}.

Lemma advance_fill got b : wfb b -> blen got <= vacant_len b ->
  advance (blen got) (fill_vacant got b) = Ok (grow got b) /\ wfb (grow got b) /\
  cap (grow got b) = cap b /\ st (grow got b) = st b /\ en (grow got b) = en b + blen got /\
  occupied (grow got b) = occupied b ++ got.
Proof.
  intros Hw Hg. pose proof (cap_fv got b Hw Hg) as Hc.
  unfold advance. rewrite Hc, en_fv.
  assert (Hv : en b + blen got <= cap b) by (unfold vacant_len, wfb in *; lia).
  destruct (N.ltb_spec (cap b) (en b + blen got)) as [Hlt|_]; [lia|].
  split; [reflexivity|].
  assert (Hc2 : cap (grow got b) = cap b) by exact Hc.
  destruct Hw as [H1 H2].
  split; [unfold wfb; rewrite Hc2; unfold grow; cbn [st en]; lia|].
  split; [exact Hc2|]. split; [reflexivity|]. split; [reflexivity|].
  unfold occupied, grow; cbn [st en data]. rewrite data_fv.
  rewrite drop_app_le by (rewrite blen_take; unfold cap in H2; lia).
  assert (E : drop (st b) (take (en b) (data b)) = take (en b - st b) (drop (st b) (data b))).
  { rewrite take_drop_comm. replace (st b + (en b - st b)) with (en b) by lia. reflexivity. }
  rewrite E, app_assoc.
  replace (en b + blen got - st b)
    with (blen (take (en b - st b) (drop (st b) (data b)) ++ got)).
  - apply take_app_exact.
  - rewrite blen_app, blen_take, blen_drop. unfold cap in H2. lia.
Qed.

Lemma read_prepare_some b b1 : wfb b -> read_prepare b = Some b1 ->
  wfb b1 /\ cap b1 = cap b /\ occupied b1 = occupied b /\ 0 < vacant_len b1 /\
  (st b1 = st b \/ st b1 = 0) /\ read_prepare b1 = Some b1.
Proof.
  intros Hw. unfold read_prepare.
  destruct (N.eqb_spec (vacant_len b) 0) as [Hv|Hv].
  - destruct (N.ltb_spec 0 (st b)) as [Hs|Hs]; [|discriminate].
    intros E. injection E as <-.
    pose proof (wfb_mc b Hw) as Hw1. pose proof (cap_mc b Hw) as Hc1.
    assert (Hvac : 0 < vacant_len (make_contiguous b)).
    { unfold vacant_len in *. rewrite Hc1, en_mc. unfold wfb in Hw. lia. }
    split; [exact Hw1|]. split; [exact Hc1|]. split; [apply occupied_mc; exact Hw|].
    split; [exact Hvac|]. split; [right; reflexivity|].
    destruct (N.eqb_spec (vacant_len (make_contiguous b)) 0) as [Hz|_]; [lia|reflexivity].
  - intros E. injection E as <-.
    split; [exact Hw|]. split; [reflexivity|]. split; [reflexivity|].
    split; [lia|]. split; [left; reflexivity|].
    destruct (N.eqb_spec (vacant_len b) 0) as [Hz|_]; [contradiction|reflexivity].
Qed.

Lemma read_prepare_none b : wfb b -> read_prepare b = None -> st b = 0 /\ en b = cap b.
Proof.
  intros [H1 H2]. unfold read_prepare, vacant_len.
  destruct (N.eqb_spec (cap b - en b) 0) as [Hv|Hv]; [|discriminate].
  destruct (N.ltb_spec 0 (st b)) as [Hs|Hs]; [discriminate|]. intros _. lia.
Qed.

(* Buffer::skip within the window: never the assertion, the window loses exactly its first bytes *)
Lemma skip_ok n b : wfb b -> n <= blen (occupied b) ->
  exists b2, skip n b = Ok b2 /\ wfb b2 /\ cap b2 = cap b /\ occupied b2 = drop n (occupied b) /\
             (st b2 = 0 \/ st b2 = st b + n).
Proof.
  intros Hw Hn. rewrite (blen_occupied b Hw) in Hn. destruct Hw as [H1 H2].
  unfold skip. destruct (N.ltb_spec (en b) (st b + n)) as [Hlt|_]; [lia|].
  destruct (N.eqb_spec (st b + n) (en b)) as [He|Hne].
  - eexists. split; [reflexivity|]. unfold wfb, cap, occupied; cbn [st en data].
    split; [lia|]. split; [reflexivity|]. split; [|left; reflexivity].
    rewrite N.sub_0_r, take_0. symmetry. apply blen_0_nil.
    rewrite blen_drop, blen_take, blen_drop. lia.
  - eexists. split; [reflexivity|]. unfold wfb, cap, occupied; cbn [st en data].
    fold (cap b). split; [lia|]. split; [reflexivity|]. split; [|right; reflexivity].
    rewrite <- (drop_drop n (st b) (data b)).
    rewrite (take_drop_comm (en b - (st b + n)) n (drop (st b) (data b))).
    replace (n + (en b - (st b + n))) with (en b - st b) by lia. reflexivity.
Qed.

(* ------------------------------------------------------------------ the pipe *)

Definition rdir_of (room : N) (str : bytes) (sc : list rdir) : rdir :=
  match sc with [] => RD (blen str + room + 1) | d :: _ => d end.
Definition rd_n (room : N) (str : bytes) (d : rdir) : N :=
  match d with RD k => umin k (umin room (blen str)) | _ => 0 end.

Lemma pipe_read_eq room s :
  pipe_read room s =
  ({| stream := drop (rd_n room (stream s) (rdir_of room (stream s) (rscript s))) (stream s);
      rscript := tl (rscript s); rcalls := rcalls s + 1 |},
   rdir_of room (stream s) (rscript s),
   take (rd_n room (stream s) (rdir_of room (stream s) (rscript s))) (stream s)).
Proof.
  unfold pipe_read, rdir_of. destruct (rscript s) as [|[k| |e|] r]; reflexivity.
Qed.

Lemma rd_n_le room str d : rd_n room str d <= room /\ rd_n room str d <= blen str.
Proof. destruct d; cbn [rd_n]; rewrite ?umin_spec; lia. Qed.

Lemma rdir_of_in room str sc d : (forall k, d <> RD k) -> rdir_of room str sc = d -> In d sc.
Proof.
  intros Hd. destruct sc as [|d0 r]; cbn [rdir_of].
  - intros E. exfalso. exact (Hd _ (eq_sym E)).
  - intros ->. left. reflexivity.
Qed.

(* ------------------------------------------------------------------ the receiver loop *)

Section Recv.
  Variable validate_f : N -> bytes -> res unit.
  Variable size_f : bytes -> res N.

  (* C01: validation never crashes;  C05: a validated value has a size within its bytes *)
  Hypothesis H_total : forall a bs, is_crash (validate_f a bs) = false.
  Hypothesis H_size : forall a bs, validate_f a bs = Ok tt ->
    exists n, size_f bs = Ok n /\ 0 < n /\ n <= blen bs.

  (* the part of one loop turn after read_prepare *)
  Definition recv_after (fuel : nat) (limit : N) (b1 : buffer) (s : source) : buffer * source * rout :=
    if limit <? rcalls s + 1
    then (b1, {| stream := stream s; rscript := rscript s; rcalls := rcalls s + 1 |}, RHang)
    else
      match pipe_read (vacant_len b1) s with
      | (s', RD _, got) =>
          match advance (blen got) (fill_vacant got b1) with
          | Ok b2 => if blen got =? 0 then (b2, s', RClosed) else recv_loop validate_f fuel limit false b2 s'
          | _ => (b1, s', RPanic)
          end
      | (s', RZ, _) => (b1, s', RClosed)
      | (s', RE e, _) => (b1, s', RRead e)
      | (s', RP, _) => (b1, s', RPending)
      end.

  Lemma recv_loop_S fuel limit sv b s :
    recv_loop validate_f (S fuel) limit sv b s =
    match (if sv then Err InsufficientSize 0 else validate_f (st b) (occupied b)) with
    | Ok _ => (b, s, RMsg (occupied b))
    | Crash _ => (b, s, RPanic)
    | Err InsufficientSize _ =>
        match read_prepare b with
        | None => (b, s, RRead OutOfMemory)
        | Some b1 => recv_after fuel limit b1 s
        end
    | Err k p => (b, s, RParse k p)
    end.
  Proof. reflexivity. Qed.

  Lemma recv_after_eq fuel limit b1 s : wfb b1 ->
    recv_after fuel limit b1 s =
    if limit <? rcalls s + 1
    then (b1, {| stream := stream s; rscript := rscript s; rcalls := rcalls s + 1 |}, RHang)
    else
      let d := rdir_of (vacant_len b1) (stream s) (rscript s) in
      let n := rd_n (vacant_len b1) (stream s) d in
      let s' := {| stream := drop n (stream s); rscript := tl (rscript s); rcalls := rcalls s + 1 |} in
      match d with
      | RD _ => if n =? 0 then (grow (take n (stream s)) b1, s', RClosed)
                else recv_loop validate_f fuel limit false (grow (take n (stream s)) b1) s'
      | RZ => (b1, s', RClosed)
      | RE e => (b1, s', RRead e)
      | RP => (b1, s', RPending)
      end.
  Proof.
    intros Hw. unfold recv_after. destruct (limit <? rcalls s + 1); [reflexivity|].
    rewrite pipe_read_eq. cbv zeta.
    destruct (rdir_of (vacant_len b1) (stream s) (rscript s)) as [k| |e|] eqn:Hd; try reflexivity.
    destruct (rd_n_le (vacant_len b1) (stream s) (RD k)) as [Hn1 Hn2].
    assert (Hb : blen (take (rd_n (vacant_len b1) (stream s) (RD k)) (stream s))
                 = rd_n (vacant_len b1) (stream s) (RD k)) by (apply blen_take_le; exact Hn2).
    destruct (advance_fill (take (rd_n (vacant_len b1) (stream s) (RD k)) (stream s)) b1 Hw) as [Ha _].
    { rewrite Hb. exact Hn1. }
    rewrite Ha, Hb. reflexivity.
  Qed.

  (* everything one call of recv() guarantees, whatever the bytes, the script and the watchdog *)
  Definition rpost (fuel : nat) (limit : N) (b : buffer) (s : source) (r : buffer * source * rout) : Prop :=
    match r with
    | (b', s', o) =>
      wfb b' /\ cap b' = cap b /\ (st b' = st b \/ st b' = 0) /\ o <> RPanic /\
      (exists j k, j <= blen (stream s) /\ stream s' = drop j (stream s) /\
          occupied b' = occupied b ++ take j (stream s) /\ rscript s' = skipn k (rscript s) /\
          rcalls s <= rcalls s' /\ rcalls s' <= rcalls s + j + 1) /\
      (forall occ, o = RMsg occ -> occ = occupied b' /\ validate_f (st b') occ = Ok tt) /\
      (o = RRead OutOfMemory -> (st b' = 0 /\ en b' = cap b') \/ In (RE OutOfMemory) (rscript s)) /\
      (blen (stream s) < N.of_nat fuel -> rcalls s + blen (stream s) + 1 <= limit -> o <> RHang)
    end.

  Lemma rpost_same fuel limit b s o : wfb b -> o <> RPanic -> (o <> RHang \/ fuel = O) ->
    (forall occ, o = RMsg occ -> occ = occupied b /\ validate_f (st b) occ = Ok tt) ->
    (o = RRead OutOfMemory -> st b = 0 /\ en b = cap b) -> rpost fuel limit b s (b, s, o).
  Proof.
    intros Hw Hp Hh Hm Ho. unfold rpost.
    split; [exact Hw|]. split; [reflexivity|]. split; [left; reflexivity|]. split; [exact Hp|].
    split.
    { exists 0, 0%nat. rewrite take_0, app_nil_r, drop_0. cbn [skipn].
      repeat (split; [first [reflexivity|lia]|]). lia. }
    split; [exact Hm|]. split; [intros E; left; exact (Ho E)|].
    intros Hf _. destruct Hh as [Hh| ->]; [exact Hh|]. cbn in Hf. lia.
  Qed.

  Lemma rpost_prep fuel limit b s b1 s1 o : wfb b -> read_prepare b = Some b1 ->
    stream s1 = stream s -> (rscript s1 = rscript s \/ rscript s1 = tl (rscript s)) ->
    rcalls s1 = rcalls s + 1 ->
    o <> RPanic -> (forall occ, o <> RMsg occ) ->
    (o = RRead OutOfMemory -> In (RE OutOfMemory) (rscript s)) ->
    (rcalls s + blen (stream s) + 1 <= limit -> o <> RHang) -> rpost fuel limit b s (b1, s1, o).
  Proof.
    intros Hw Hp Hs Hsc Hr Hpn Hm Ho Hh.
    destruct (read_prepare_some b b1 Hw Hp) as (Hw1 & Hc1 & Ho1 & Hv1 & Hs1 & _).
    unfold rpost.
    split; [exact Hw1|]. split; [exact Hc1|]. split; [exact Hs1|]. split; [exact Hpn|].
    split.
    { exists 0. destruct Hsc as [Hsc|Hsc].
      - exists 0%nat. rewrite take_0, app_nil_r, drop_0. cbn [skipn].
        repeat (split; [first [assumption|lia]|]). lia.
      - exists 1%nat. rewrite take_0, app_nil_r, drop_0.
        replace (skipn 1 (rscript s)) with (tl (rscript s)) by (destruct (rscript s); reflexivity).
        repeat (split; [first [assumption|lia]|]). lia. }
    split; [intros occ E; exfalso; exact (Hm occ E)|].
    split; [intros E; right; exact (Ho E)|].
    intros _ Hl. exact (Hh Hl).
  Qed.

  Lemma recv_loop_post : forall fuel limit sv b s, wfb b ->
    rpost fuel limit b s (recv_loop validate_f fuel limit sv b s).
  Proof.
    induction fuel as [|fuel IH]; intros limit sv b s Hw.
    - cbn [recv_loop]. apply rpost_same; auto; discriminate.
    - rewrite recv_loop_S.
      destruct (if sv then Err InsufficientSize 0 else validate_f (st b) (occupied b)) as [u|k p|c] eqn:Hv.
      + apply rpost_same; auto; try discriminate.
        * left; discriminate.
        * intros occ E. injection E as <-. split; [reflexivity|].
          destruct sv; [discriminate|]. destruct u. exact Hv.
      + destruct k; try (apply rpost_same; auto; try discriminate; left; discriminate).
        destruct (read_prepare b) as [b1|] eqn:Hp.
        2:{ apply rpost_same; auto; try discriminate.
            - left; discriminate.
            - intros _. apply read_prepare_none; assumption. }
        destruct (read_prepare_some b b1 Hw Hp) as (Hw1 & Hc1 & Ho1 & Hv1 & Hs1 & _).
        rewrite (recv_after_eq fuel limit b1 s Hw1).
        destruct (N.ltb_spec limit (rcalls s + 1)) as [Hl|Hl].
        { apply (rpost_prep _ _ b s b1 _ RHang Hw Hp); cbn [stream rscript rcalls]; auto;
            try discriminate. intros H. lia. }
        cbv zeta.
        destruct (rdir_of (vacant_len b1) (stream s) (rscript s)) as [k| |e|] eqn:Hd.
        * destruct (rd_n_le (vacant_len b1) (stream s) (RD k)) as [Hn1 Hn2].
          set (n := rd_n (vacant_len b1) (stream s) (RD k)) in *.
          assert (Hb : blen (take n (stream s)) = n) by (apply blen_take_le; exact Hn2).
          destruct (advance_fill (take n (stream s)) b1 Hw1) as (_ & Hw2 & Hc2 & Hs2 & He2 & Ho2).
          { rewrite Hb. exact Hn1. }
          destruct (N.eqb_spec n 0) as [Hz|Hnz].
          -- unfold rpost. cbn [stream rscript rcalls].
             split; [exact Hw2|]. split; [congruence|]. split; [rewrite Hs2; exact Hs1|].
             split; [discriminate|]. split.
             { exists n, 1%nat.
               replace (skipn 1 (rscript s)) with (tl (rscript s)) by (destruct (rscript s); reflexivity).
               rewrite Ho2, Ho1. repeat (split; [first [reflexivity|lia]|]). lia. }
             split; [intros occ E; discriminate|]. split; [intros E; discriminate|].
             intros _ _. discriminate.
          -- specialize (IH limit false (grow (take n (stream s)) b1)
                           {| stream := drop n (stream s); rscript := tl (rscript s); rcalls := rcalls s + 1 |} Hw2).
             destruct (recv_loop validate_f fuel limit false (grow (take n (stream s)) b1)
                         {| stream := drop n (stream s); rscript := tl (rscript s); rcalls := rcalls s + 1 |})
               as [[b' s''] o].
             unfold rpost in *. cbn [stream rscript rcalls] in IH.
             destruct IH as (Ha & Hb' & Hc' & Hd' & (j & k' & Hj1 & Hj2 & Hj3 & Hj4 & Hj5 & Hj6) & Hm & Hoom & Hh).
             rewrite blen_drop in Hj1.
             split; [exact Ha|]. split; [congruence|].
             split; [rewrite Hs2 in Hc'; destruct Hc' as [Hc'|Hc']; [rewrite Hc'; exact Hs1|right; exact Hc']|].
             split; [exact Hd'|]. split.
             { exists (n + j), (S k'). rewrite drop_drop in Hj2. rewrite <- skipn_S_tl, take_add.
               rewrite Hj3, Ho2, Ho1, <- app_assoc.
               repeat (split; [first [reflexivity|assumption|lia]|]). lia. }
             split; [exact Hm|].
             split; [intros E; destruct (Hoom E) as [Hx|Hx]; [left; exact Hx|right; apply In_tl; exact Hx]|].
             intros Hf Hl2. apply Hh; rewrite ?blen_drop; lia.
        * apply (rpost_prep _ _ b s b1 _ RClosed Hw Hp); cbn [stream rscript rcalls]; auto;
            discriminate.
        * apply (rpost_prep _ _ b s b1 _ (RRead e) Hw Hp); cbn [stream rscript rcalls]; auto;
            try discriminate.
          intros E. injection E as ->. refine (rdir_of_in _ _ _ (RE OutOfMemory) _ Hd). intros k0; discriminate.
        * apply (rpost_prep _ _ b s b1 _ RPending Hw Hp); cbn [stream rscript rcalls]; auto;
            discriminate.
      + destruct sv; [discriminate|]. pose proof (H_total (st b) (occupied b)) as Ht.
        rewrite Hv in Ht. discriminate.
  Qed.

  (* ---------------- C10: the receiver fed arbitrary bytes ---------------- *)

  Theorem recv_loop_wfb : forall fuel limit sv b s b' s' o, wfb b ->
    recv_loop validate_f fuel limit sv b s = (b', s', o) -> wfb b' /\ o <> RPanic.
  Proof.
    intros fuel limit sv b s b' s' o Hw E.
    pose proof (recv_loop_post fuel limit sv b s Hw) as P. rewrite E in P. unfold rpost in P. tauto.
  Qed.

  Theorem recv_loop_calls : forall fuel limit sv b s b' s' o, wfb b ->
    recv_loop validate_f fuel limit sv b s = (b', s', o) ->
    rcalls s <= rcalls s' /\ rcalls s' - rcalls s <= blen (stream s) + 1.
  Proof.
    intros fuel limit sv b s b' s' o Hw E.
    pose proof (recv_loop_post fuel limit sv b s Hw) as P. rewrite E in P. unfold rpost in P.
    destruct P as (_ & _ & _ & _ & (j & k & Hj & _ & _ & _ & H1 & H2) & _). lia.
  Qed.

  Theorem recv_loop_no_hang : forall fuel limit sv b s b' s' o, wfb b ->
    recv_loop validate_f fuel limit sv b s = (b', s', o) ->
    (length (stream s) < fuel)%nat -> rcalls s + blen (stream s) + 1 <= limit ->
    o <> RHang /\ rcalls s' - rcalls s <= blen (stream s) + 1.
  Proof.
    intros fuel limit sv b s b' s' o Hw E Hf Hl.
    split; [|exact (proj2 (recv_loop_calls _ _ _ _ _ _ _ _ Hw E))].
    pose proof (recv_loop_post fuel limit sv b s Hw) as P. rewrite E in P. unfold rpost in P.
    destruct P as (_ & _ & _ & _ & _ & _ & _ & Hh). apply Hh; [unfold blen; lia|exact Hl].
  Qed.

  Lemma recv_fuel_enough b s : (length (stream s) + 1 < recv_fuel b s)%nat.
  Proof. unfold recv_fuel. lia. Qed.

  Theorem recv_loop_received_only : forall fuel limit sv b s b' s' o, wfb b ->
    recv_loop validate_f fuel limit sv b s = (b', s', o) ->
    exists j, j <= blen (stream s) /\ stream s' = drop j (stream s) /\
              occupied b' = occupied b ++ take j (stream s).
  Proof.
    intros fuel limit sv b s b' s' o Hw E.
    pose proof (recv_loop_post fuel limit sv b s Hw) as P. rewrite E in P. unfold rpost in P.
    destruct P as (_ & _ & _ & _ & (j & k & Hj & H1 & H2 & _) & _). exists j. auto.
  Qed.

  (* nothing invented, nothing lost: window followed by stream is the same byte string before and after *)
  Theorem recv_loop_conserves : forall fuel limit sv b s b' s' o, wfb b ->
    recv_loop validate_f fuel limit sv b s = (b', s', o) ->
    occupied b' ++ stream s' = occupied b ++ stream s.
  Proof.
    intros fuel limit sv b s b' s' o Hw E.
    destruct (recv_loop_received_only _ _ _ _ _ _ _ _ Hw E) as (j & _ & -> & ->).
    rewrite <- app_assoc, take_drop. reflexivity.
  Qed.

  Lemma drop_guard_ok b : wfb b -> validate_f (st b) (occupied b) = Ok tt ->
    exists n b2, size_f (occupied b) = Ok n /\ 0 < n /\ n <= blen (occupied b) /\
      drop_guard size_f b = Ok b2 /\ wfb b2 /\ cap b2 = cap b /\
      occupied b2 = drop n (occupied b) /\ (st b2 = 0 \/ st b2 = st b + n).
  Proof.
    intros Hw Hv. destruct (H_size _ _ Hv) as (n & Hs & Hn0 & Hn).
    destruct (skip_ok n b Hw Hn) as (b2 & Hk & Hw2 & Hc2 & Ho2 & Hs2).
    exists n, b2. unfold drop_guard. rewrite Hs. auto 10.
  Qed.

  Theorem recv_loop_msg_valid : forall fuel limit sv b s b' s' occ, wfb b ->
    recv_loop validate_f fuel limit sv b s = (b', s', RMsg occ) ->
    occ = occupied b' /\ validate_f (st b') occ = Ok tt /\
    exists n b'', size_f occ = Ok n /\ 0 < n /\ n <= blen occ /\
      drop_guard size_f b' = Ok b'' /\ wfb b'' /\ occupied b'' = drop n (occupied b').
  Proof.
    intros fuel limit sv b s b' s' occ Hw E.
    pose proof (recv_loop_post fuel limit sv b s Hw) as P. rewrite E in P. unfold rpost in P.
    destruct P as (Hw' & _ & _ & _ & _ & Hm & _). destruct (Hm occ eq_refl) as [-> Hv].
    split; [reflexivity|]. split; [exact Hv|].
    destruct (drop_guard_ok b' Hw' Hv) as (n & b2 & H1 & H2 & H3 & H4 & H5 & _ & H6 & _).
    exists n, b2. auto 10.
  Qed.

  Theorem recv_loop_malformed_is_parse : forall fuel limit b s k p,
    validate_f (st b) (occupied b) = Err k p -> k <> InsufficientSize ->
    recv_loop validate_f (S fuel) limit false b s = (b, s, RParse k p).
  Proof.
    intros fuel limit b s k p Hv Hk. rewrite recv_loop_S. rewrite Hv.
    destruct k; [contradiction|reflexivity..].
  Qed.

  Theorem recv_loop_oom : forall fuel limit sv b s b' s', wfb b ->
    ~ In (RE OutOfMemory) (rscript s) ->
    recv_loop validate_f fuel limit sv b s = (b', s', RRead OutOfMemory) ->
    st b' = 0 /\ en b' = cap b' /\ blen (occupied b') = cap b.
  Proof.
    intros fuel limit sv b s b' s' Hw Hn E.
    pose proof (recv_loop_post fuel limit sv b s Hw) as P. rewrite E in P. unfold rpost in P.
    destruct P as (Hw' & Hc & _ & _ & _ & _ & Ho & _).
    destruct (Ho eq_refl) as [[H1 H2]|H]; [|contradiction].
    rewrite (blen_occupied b' Hw'). split; [exact H1|]. split; [exact H2|]. lia.
  Qed.

  (* ---------------- C09: read faults ---------------- *)

  Theorem recv_loop_fault_keeps_window : forall fuel limit sv b s b' s' o, wfb b ->
    recv_loop validate_f fuel limit sv b s = (b', s', o) ->
    (exists e, o = RRead e) \/ o = RPending ->
    wfb b' /\ occupied b' ++ stream s' = occupied b ++ stream s /\
    exists j, j <= blen (stream s) /\ stream s' = drop j (stream s) /\
              occupied b' = occupied b ++ take j (stream s).
  Proof.
    intros fuel limit sv b s b' s' o Hw E _.
    split; [exact (proj1 (recv_loop_wfb _ _ _ _ _ _ _ _ Hw E))|].
    split; [exact (recv_loop_conserves _ _ _ _ _ _ _ _ Hw E)|].
    exact (recv_loop_received_only _ _ _ _ _ _ _ _ Hw E).
  Qed.

  Lemma recv_many_S n limit b s :
    recv_many validate_f size_f (S n) limit b s =
    match recv_loop validate_f (recv_fuel b s) limit false b s with
    | (b1, s1, RMsg occ) =>
        match drop_guard size_f b1 with
        | Ok b2 => let r := recv_many validate_f size_f n limit b2 s1 in (RMsg occ :: fst r, snd r)
        | _ => ([RMsg occ; RPanic], s1)
        end
    | (b1, s1, RPanic) => ([RPanic], s1)
    | (b1, s1, RHang) => ([RHang], s1)
    | (b1, s1, o) => let r := recv_many validate_f size_f n limit b1 s1 in (o :: fst r, snd r)
    end.
  Proof. reflexivity. Qed.

  (* ---------------- the loop without watchdog and call counter ---------------- *)

  Definition rres : Type := (buffer * bytes * list rdir * rout)%type.

  Definition rl_after (rec : buffer -> bytes -> list rdir -> rres) (b1 : buffer) (str : bytes)
    (sc : list rdir) : rres :=
    let d := rdir_of (vacant_len b1) str sc in
    let n := rd_n (vacant_len b1) str d in
    match d with
    | RD _ => if n =? 0 then (grow (take n str) b1, drop n str, tl sc, RClosed)
              else rec (grow (take n str) b1) (drop n str) (tl sc)
    | RZ => (b1, str, tl sc, RClosed)
    | RE e => (b1, str, tl sc, RRead e)
    | RP => (b1, str, tl sc, RPending)
    end.

  Definition rl_turn (rec : buffer -> bytes -> list rdir -> rres) (sv : bool) (b : buffer)
    (str : bytes) (sc : list rdir) : rres :=
    match (if sv then Err InsufficientSize 0 else validate_f (st b) (occupied b)) with
    | Ok _ => (b, str, sc, RMsg (occupied b))
    | Crash _ => (b, str, sc, RPanic)
    | Err InsufficientSize _ =>
        match read_prepare b with
        | None => (b, str, sc, RRead OutOfMemory)
        | Some b1 => rl_after rec b1 str sc
        end
    | Err k p => (b, str, sc, RParse k p)
    end.

  Fixpoint rl (fuel : nat) (sv : bool) (b : buffer) (str : bytes) (sc : list rdir) : rres :=
    match fuel with
    | O => (b, str, sc, RHang)
    | S f => rl_turn (rl f false) sv b str sc
    end.

  Definition rlx (sv : bool) (b : buffer) (str : bytes) (sc : list rdir) : rres :=
    rl (S (length str)) sv b str sc.

  Definition proj_r (r : buffer * source * rout) : rres :=
    (fst (fst r), stream (snd (fst r)), rscript (snd (fst r)), snd r).

  Lemma rl_turn_ext rec1 rec2 sv b str sc : wfb b ->
    (forall b2 n, wfb b2 -> 1 <= n -> n <= blen str ->
       rec1 b2 (drop n str) (tl sc) = rec2 b2 (drop n str) (tl sc)) ->
    rl_turn rec1 sv b str sc = rl_turn rec2 sv b str sc.
  Proof.
    intros Hw H. unfold rl_turn.
    destruct (if sv then Err InsufficientSize 0 else validate_f (st b) (occupied b)) as [u|k p|c];
      try reflexivity.
    destruct k; try reflexivity.
    destruct (read_prepare b) as [b1|] eqn:Hp; [|reflexivity].
    destruct (read_prepare_some b b1 Hw Hp) as (Hw1 & _).
    unfold rl_after. cbv zeta.
    destruct (rdir_of (vacant_len b1) str sc) as [k| |e|] eqn:Hd; try reflexivity.
    destruct (rd_n_le (vacant_len b1) str (RD k)) as [Hn1 Hn2].
    destruct (N.eqb_spec (rd_n (vacant_len b1) str (RD k)) 0) as [Hz|Hnz]; [reflexivity|].
    apply H; [|lia|exact Hn2].
    apply advance_fill; [exact Hw1|]. rewrite blen_take_le by exact Hn2. exact Hn1.
  Qed.

  Lemma rl_fuel_indep : forall f1 f2 sv b str sc, wfb b ->
    blen str < N.of_nat f1 -> blen str < N.of_nat f2 -> rl f1 sv b str sc = rl f2 sv b str sc.
  Proof.
    induction f1 as [|f1 IH]; intros f2 sv b str sc Hw H1 H2; [cbn in H1; lia|].
    destruct f2 as [|f2]; [cbn in H2; lia|]. cbn [rl].
    apply rl_turn_ext; [exact Hw|]. intros b2 n Hw2 Hn1 Hn2.
    apply IH; [exact Hw2|rewrite blen_drop; lia..].
  Qed.

  Lemma rlx_eq sv b str sc : wfb b -> rlx sv b str sc = rl_turn (rlx false) sv b str sc.
  Proof.
    intros Hw. unfold rlx at 1. cbn [rl]. apply rl_turn_ext; [exact Hw|].
    intros b2 n Hw2 Hn1 Hn2. unfold rlx. apply rl_fuel_indep; [exact Hw2| |].
    - rewrite blen_drop. unfold blen in *. lia.
    - unfold blen. lia.
  Qed.

  Lemma recv_loop_rl : forall fuel limit sv b s, wfb b -> rcalls s + blen (stream s) + 1 <= limit ->
    proj_r (recv_loop validate_f fuel limit sv b s) = rl fuel sv b (stream s) (rscript s).
  Proof.
    induction fuel as [|fuel IH]; intros limit sv b s Hw Hl; [reflexivity|].
    rewrite recv_loop_S. cbn [rl]. unfold rl_turn.
    destruct (if sv then Err InsufficientSize 0 else validate_f (st b) (occupied b)) as [u|k p|c];
      try reflexivity.
    destruct k; try reflexivity.
    destruct (read_prepare b) as [b1|] eqn:Hp; [|reflexivity].
    destruct (read_prepare_some b b1 Hw Hp) as (Hw1 & _).
    rewrite (recv_after_eq fuel limit b1 s Hw1).
    destruct (N.ltb_spec limit (rcalls s + 1)) as [Hx|_]; [lia|].
    unfold rl_after. cbv zeta.
    destruct (rdir_of (vacant_len b1) (stream s) (rscript s)) as [k| |e|] eqn:Hd; try reflexivity.
    destruct (rd_n_le (vacant_len b1) (stream s) (RD k)) as [Hn1 Hn2].
    destruct (N.eqb_spec (rd_n (vacant_len b1) (stream s) (RD k)) 0) as [Hz|Hnz]; [reflexivity|].
    rewrite IH; cbn [stream rscript rcalls]; [reflexivity| |rewrite blen_drop; lia].
    apply advance_fill; [exact Hw1|]. rewrite blen_take_le by exact Hn2. exact Hn1.
  Qed.

  Lemma recv_loop_rlx limit sv b s : wfb b -> rcalls s + blen (stream s) + 1 <= limit ->
    proj_r (recv_loop validate_f (recv_fuel b s) limit sv b s) = rlx sv b (stream s) (rscript s).
  Proof.
    intros Hw Hl. rewrite (recv_loop_rl _ limit sv b s Hw Hl). unfold rlx.
    apply rl_fuel_indep; [exact Hw|unfold recv_fuel, blen; lia..].
  Qed.

  Lemma recv_loop_budget : forall fuel limit sv b s b' s' o, wfb b ->
    recv_loop validate_f fuel limit sv b s = (b', s', o) ->
    rcalls s' + blen (stream s') <= rcalls s + blen (stream s) + 1.
  Proof.
    intros fuel limit sv b s b' s' o Hw E.
    pose proof (recv_loop_post fuel limit sv b s Hw) as P. rewrite E in P. unfold rpost in P.
    destruct P as (_ & _ & _ & _ & (j & k & Hj & H0 & _ & _ & H1 & H2) & _).
    rewrite H0, blen_drop. lia.
  Qed.

  (* the receiver driver over the clean loop; [sv]: the first call resumes a pending read *)
  Fixpoint cm (n : nat) (sv : bool) (b : buffer) (str : bytes) (sc : list rdir) : list rout :=
    match n with
    | O => []
    | S n' =>
        match rlx sv b str sc with
        | (b1, str1, sc1, RMsg occ) =>
            match drop_guard size_f b1 with
            | Ok b2 => RMsg occ :: cm n' false b2 str1 sc1
            | _ => [RMsg occ; RPanic]
            end
        | (b1, str1, sc1, RPanic) => [RPanic]
        | (b1, str1, sc1, RHang) => [RHang]
        | (b1, str1, sc1, o) => o :: cm n' false b1 str1 sc1
        end
    end.

  Lemma recv_many_cm : forall n limit b s, wfb b ->
    rcalls s + blen (stream s) + N.of_nat n <= limit ->
    fst (recv_many validate_f size_f n limit b s) = cm n false b (stream s) (rscript s).
  Proof.
    induction n as [|n IH]; intros limit b s Hw Hl; [reflexivity|].
    rewrite recv_many_S. cbn [cm].
    rewrite <- (recv_loop_rlx limit false b s Hw ltac:(lia)).
    destruct (recv_loop validate_f (recv_fuel b s) limit false b s) as [[b1 s1] o] eqn:R.
    unfold proj_r. cbn [fst snd].
    pose proof (recv_loop_budget _ _ _ _ _ _ _ _ Hw R) as Hb.
    destruct (recv_loop_wfb _ _ _ _ _ _ _ _ Hw R) as [Hw1 _].
    assert (Hl1 : rcalls s1 + blen (stream s1) + N.of_nat n <= limit) by lia.
    destruct o as [occ| |k p|e| | |]; try reflexivity;
      try (cbv zeta; cbn [fst]; f_equal; apply IH; assumption).
    destruct (recv_loop_msg_valid _ _ _ _ _ _ _ _ Hw R) as (_ & _ & n0 & b2 & _ & _ & _ & Hd & Hw2 & _).
    rewrite Hd. cbv zeta. cbn [fst]. f_equal. apply IH; assumption.
  Qed.

  (* ---------------- C08: Pending polls are transparent ---------------- *)

  Definition is_rp (d : rdir) : bool := match d with RP => true | _ => false end.
  Definition nrp (sc : list rdir) : list rdir := filter (fun d => negb (is_rp d)) sc.
  Definition countRP (sc : list rdir) : nat := length (filter is_rp sc).

  (* [X]: what the loop does on the script without its RP entries; [r]: what it does with them *)
  Definition rp_post (X : rres) (sc : list rdir) (r : rres) : Prop :=
    match r with
    | (b2, str2, sc2, o) =>
      (countRP sc2 <= countRP sc)%nat /\
      (o = RPending -> (countRP sc2 < countRP sc)%nat /\ wfb b2 /\ X = rlx true b2 str2 (nrp sc2)) /\
      (o <> RPending -> X = (b2, str2, nrp sc2, o))
    end.

  Lemma rp_post_refl b str sc o : o <> RPending -> rp_post (b, str, nrp sc, o) sc (b, str, sc, o).
  Proof.
    intros Ho. unfold rp_post. split; [lia|]. split; [intros E; contradiction|reflexivity].
  Qed.

  Lemma countRP_tl sc : (countRP (tl sc) <= countRP sc)%nat.
  Proof. destruct sc as [|[k| |e|] r]; unfold countRP; cbn [tl filter is_rp length]; lia. Qed.

  Lemma rlx_rp : forall k str, (length str < k)%nat -> forall sv b sc, wfb b ->
    rp_post (rlx sv b str (nrp sc)) sc (rlx sv b str sc).
  Proof.
    induction k as [|k IH]; intros str Hk sv b sc Hw; [lia|].
    rewrite (rlx_eq sv b str sc Hw), (rlx_eq sv b str (nrp sc) Hw). unfold rl_turn.
    destruct (if sv then Err InsufficientSize 0 else validate_f (st b) (occupied b)) as [u|kk p|c];
      try (apply rp_post_refl; discriminate).
    destruct kk; try (apply rp_post_refl; discriminate).
    destruct (read_prepare b) as [b1|] eqn:Hp; [|apply rp_post_refl; discriminate].
    destruct (read_prepare_some b b1 Hw Hp) as (Hw1 & _ & _ & _ & _ & Hp1).
    assert (Hrec : forall n rest, 1 <= n -> n <= blen str -> n <= vacant_len b1 ->
              rp_post (rlx false (grow (take n str) b1) (drop n str) (nrp rest)) rest
                      (rlx false (grow (take n str) b1) (drop n str) rest)).
    { intros n rest Hn1 Hn2 Hn3. apply IH.
      - assert (Hd : blen (drop n str) < blen str) by (rewrite blen_drop; lia). unfold blen in Hd. lia.
      - apply advance_fill; [exact Hw1|]. rewrite blen_take_le by exact Hn2. exact Hn3. }
    destruct sc as [|d rest].
    - unfold rl_after. cbn [nrp filter rdir_of tl]. cbv zeta.
      destruct (rd_n_le (vacant_len b1) str (RD (blen str + vacant_len b1 + 1))) as [Hn1 Hn2].
      destruct (N.eqb_spec (rd_n (vacant_len b1) str (RD (blen str + vacant_len b1 + 1))) 0) as [Hz|Hnz].
      + apply (rp_post_refl _ _ []). discriminate.
      + apply (Hrec _ []); lia.
    - destruct d as [k0| |e|].
      + unfold rl_after. cbn [nrp filter is_rp negb rdir_of tl]. cbv zeta.
        destruct (rd_n_le (vacant_len b1) str (RD k0)) as [Hn1 Hn2].
        destruct (N.eqb_spec (rd_n (vacant_len b1) str (RD k0)) 0) as [Hz|Hnz].
        * unfold rp_post. split; [unfold countRP; cbn [filter is_rp length]; lia|].
          split; [intros E; discriminate|reflexivity].
        * apply (Hrec _ rest); lia.
      + unfold rl_after. cbn [nrp filter is_rp negb rdir_of tl]. cbv zeta.
        unfold rp_post. split; [unfold countRP; cbn [filter is_rp length]; lia|].
        split; [intros E; discriminate|reflexivity].
      + unfold rl_after. cbn [nrp filter is_rp negb rdir_of tl]. cbv zeta.
        unfold rp_post. split; [unfold countRP; cbn [filter is_rp length]; lia|].
        split; [intros E; discriminate|reflexivity].
      + unfold rl_after at 2. cbn [rdir_of tl]. cbv zeta.
        cbn [nrp filter is_rp negb]. fold (nrp rest).
        unfold rp_post. split; [unfold countRP; cbn [filter is_rp length]; lia|].
        split; [|intros E; contradiction].
        intros _. split; [unfold countRP; cbn [filter is_rp length]; lia|]. split; [exact Hw1|].
        rewrite (rlx_eq true b1 str (nrp rest) Hw1). unfold rl_turn. rewrite Hp1. reflexivity.
  Qed.

  Lemma arecv_many_SS n fuel limit polls pending b s :
    arecv_many validate_f size_f (S n) (S fuel) limit polls pending b s =
    if limit <=? polls then ([RHang], s, polls)
    else
      match recv_loop validate_f (recv_fuel b s) limit pending b s with
      | (b1, s1, RPending) => arecv_many validate_f size_f (S n) fuel limit (polls + 1) true b1 s1
      | (b1, s1, RMsg occ) =>
          match drop_guard size_f b1 with
          | Ok b2 => let r := arecv_many validate_f size_f n fuel limit (polls + 1) false b2 s1 in
                     (RMsg occ :: fst (fst r), snd (fst r), snd r)
          | _ => ([RMsg occ; RPanic], s1, polls + 1)
          end
      | (b1, s1, RPanic) => ([RPanic], s1, polls + 1)
      | (b1, s1, RHang) => ([RHang], s1, polls + 1)
      | (b1, s1, o) => let r := arecv_many validate_f size_f n fuel limit (polls + 1) false b1 s1 in
                       (o :: fst (fst r), snd (fst r), snd r)
      end.
  Proof. reflexivity. Qed.

  Lemma arecv_many_cm : forall fuel n limit polls pending b s, wfb b ->
    (n + countRP (rscript s) < fuel)%nat ->
    polls + N.of_nat (n + countRP (rscript s)) <= limit ->
    rcalls s + blen (stream s) + N.of_nat (n + countRP (rscript s)) <= limit ->
    fst (fst (arecv_many validate_f size_f n fuel limit polls pending b s))
      = cm n pending b (stream s) (nrp (rscript s)).
  Proof.
    induction fuel as [|fuel IH]; intros n limit polls pending b s Hw Hf Hp Hl; [lia|].
    destruct n as [|n]; [reflexivity|].
    rewrite arecv_many_SS.
    destruct (N.leb_spec limit polls) as [Hx|_]; [lia|].
    pose proof (recv_loop_rlx limit pending b s Hw ltac:(lia)) as Hr.
    pose proof (rlx_rp (S (length (stream s))) (stream s) ltac:(lia) pending b (rscript s) Hw) as P.
    rewrite <- Hr in P. cbn [cm].
    destruct (recv_loop validate_f (recv_fuel b s) limit pending b s) as [[b1 s1] o] eqn:R.
    unfold proj_r in P. cbn [fst snd] in P. unfold rp_post in P. destruct P as (Hc & Hpend & Hnp).
    pose proof (recv_loop_budget _ _ _ _ _ _ _ _ Hw R) as Hb.
    destruct (recv_loop_wfb _ _ _ _ _ _ _ _ Hw R) as [Hw1 _].
    assert (Hcont : forall b2, wfb b2 ->
              fst (fst (arecv_many validate_f size_f n fuel limit (polls + 1) false b2 s1))
              = cm n false b2 (stream s1) (nrp (rscript s1))).
    { intros b2 Hw2. apply IH; [exact Hw2|lia..]. }
    destruct o as [occ| |k p|e| | |].
    - rewrite (Hnp ltac:(discriminate)).
      destruct (recv_loop_msg_valid _ _ _ _ _ _ _ _ Hw R) as (_ & _ & n0 & b2 & _ & _ & _ & Hd & Hw2 & _).
      rewrite Hd. cbv zeta. cbn [fst]. f_equal. apply Hcont. exact Hw2.
    - rewrite (Hnp ltac:(discriminate)). cbv zeta. cbn [fst]. f_equal. apply Hcont. exact Hw1.
    - rewrite (Hnp ltac:(discriminate)). cbv zeta. cbn [fst]. f_equal. apply Hcont. exact Hw1.
    - rewrite (Hnp ltac:(discriminate)). cbv zeta. cbn [fst]. f_equal. apply Hcont. exact Hw1.
    - rewrite (Hnp ltac:(discriminate)). reflexivity.
    - rewrite (Hnp ltac:(discriminate)). reflexivity.
    - destruct (Hpend eq_refl) as (Hlt & _ & Hx). rewrite Hx.
      rewrite IH; [reflexivity|exact Hw1|lia..].
  Qed.

  (* C08: the async driver on a script with Pending entries yields what the blocking driver yields
     on the script without them *)
  Theorem arecv_pending_transparent : forall n fuel limit limit' b s,
    wfb b -> (n + countRP (rscript s) < fuel)%nat ->
    N.of_nat (n + countRP (rscript s)) <= limit ->
    rcalls s + blen (stream s) + N.of_nat (n + countRP (rscript s)) <= limit ->
    rcalls s + blen (stream s) + N.of_nat n <= limit' ->
    fst (fst (arecv_many validate_f size_f n fuel limit 0 false b s))
      = fst (recv_many validate_f size_f n limit' b
               {| stream := stream s; rscript := nrp (rscript s); rcalls := rcalls s |}).
  Proof.
    intros n fuel limit limit' b s Hw Hf Hp Hl Hl'.
    rewrite (arecv_many_cm fuel n limit 0 false b s Hw Hf ltac:(lia) Hl).
    rewrite (recv_many_cm n limit' b _ Hw); [reflexivity|]. cbn [stream rscript rcalls]. exact Hl'.
  Qed.

  (* one step: a Pending poll changes neither window nor stream, and the resumed call does what the
     original call would have done on the script without that entry *)
  Theorem recv_loop_pending_step : forall fuel limit sv b s b' s', wfb b ->
    recv_loop validate_f fuel limit sv b s = (b', s', RPending) ->
    wfb b' /\ occupied b' ++ stream s' = occupied b ++ stream s /\ read_prepare b' = Some b'.
  Proof.
    intros fuel limit sv b s b' s' Hw E.
    split; [exact (proj1 (recv_loop_wfb _ _ _ _ _ _ _ _ Hw E))|].
    split; [exact (recv_loop_conserves _ _ _ _ _ _ _ _ Hw E)|].
    revert limit sv b s Hw E. induction fuel as [|fuel IH]; intros limit sv b s Hw E;
      [cbn [recv_loop] in E; discriminate|].
    rewrite recv_loop_S in E.
    destruct (if sv then Err InsufficientSize 0 else validate_f (st b) (occupied b)) as [u|k p|c];
      try discriminate.
    destruct k; try discriminate.
    destruct (read_prepare b) as [b1|] eqn:Hp; [|discriminate].
    destruct (read_prepare_some b b1 Hw Hp) as (Hw1 & _ & _ & _ & _ & Hp1).
    rewrite (recv_after_eq fuel limit b1 s Hw1) in E.
    destruct (limit <? rcalls s + 1); [discriminate|]. cbv zeta in E.
    destruct (rdir_of (vacant_len b1) (stream s) (rscript s)) as [k| |e|] eqn:Hd; try discriminate.
    - destruct (rd_n_le (vacant_len b1) (stream s) (RD k)) as [Hn1 Hn2].
      destruct (rd_n (vacant_len b1) (stream s) (RD k) =? 0); [discriminate|].
      apply IH in E; [exact E|].
      apply advance_fill; [exact Hw1|]. rewrite blen_take_le by exact Hn2. exact Hn1.
    - injection E as <- _. exact Hp1.
  Qed.

  (* ---------------- C09: retrying after a read fault ---------------- *)

  (* re-validating the same short window after compaction to address 0 still says "short" *)
  Hypothesis H_addr : forall a bs p, validate_f a bs = Err InsufficientSize p ->
    exists p', validate_f 0 bs = Err InsufficientSize p'.

  Definition is_re (d : rdir) : bool := match d with RE _ => true | _ => false end.
  Definition nre (sc : list rdir) : list rdir := filter (fun d => negb (is_re d)) sc.
  Definition countRE (sc : list rdir) : nat := length (filter is_re sc).
  Definition nrr (l : list rout) : list rout :=
    filter (fun o => match o with RRead _ => false | _ => true end) l.

  Definition re_post (X : rres) (sc : list rdir) (r : rres) : Prop :=
    match r with
    | (b2, str2, sc2, o) =>
      (countRE sc2 <= countRE sc)%nat /\
      (((countRE sc2 < countRE sc)%nat /\ (exists e, o = RRead e) /\ wfb b2 /\
        X = rlx false b2 str2 (nre sc2)) \/
       X = (b2, str2, nre sc2, o))
    end.

  Lemma re_post_refl b str sc o : re_post (b, str, nre sc, o) sc (b, str, sc, o).
  Proof. unfold re_post. split; [lia|]. right. reflexivity. Qed.

  Lemma rlx_re : forall k str, (length str < k)%nat -> forall b sc, wfb b ->
    re_post (rlx false b str (nre sc)) sc (rlx false b str sc).
  Proof.
    induction k as [|k IH]; intros str Hk b sc Hw; [lia|].
    rewrite (rlx_eq false b str sc Hw), (rlx_eq false b str (nre sc) Hw). unfold rl_turn.
    destruct (validate_f (st b) (occupied b)) as [u|kk p|c] eqn:Hv; try apply re_post_refl.
    destruct kk; try apply re_post_refl.
    destruct (read_prepare b) as [b1|] eqn:Hp; [|apply re_post_refl].
    destruct (read_prepare_some b b1 Hw Hp) as (Hw1 & _ & Ho1 & _ & Hs1 & Hp1).
    assert (Hrec : forall n rest, 1 <= n -> n <= blen str -> n <= vacant_len b1 ->
              re_post (rlx false (grow (take n str) b1) (drop n str) (nre rest)) rest
                      (rlx false (grow (take n str) b1) (drop n str) rest)).
    { intros n rest Hn1 Hn2 Hn3. apply IH.
      - assert (Hd : blen (drop n str) < blen str) by (rewrite blen_drop; lia). unfold blen in Hd. lia.
      - apply advance_fill; [exact Hw1|]. rewrite blen_take_le by exact Hn2. exact Hn3. }
    destruct sc as [|d rest].
    - unfold rl_after. cbn [nre filter rdir_of tl]. cbv zeta.
      destruct (rd_n_le (vacant_len b1) str (RD (blen str + vacant_len b1 + 1))) as [Hn1 Hn2].
      destruct (N.eqb_spec (rd_n (vacant_len b1) str (RD (blen str + vacant_len b1 + 1))) 0) as [Hz|Hnz].
      + apply (re_post_refl _ _ []).
      + apply (Hrec _ []); lia.
    - destruct d as [k0| |e|].
      + unfold rl_after. cbn [nre filter is_re negb rdir_of tl]. cbv zeta.
        destruct (rd_n_le (vacant_len b1) str (RD k0)) as [Hn1 Hn2].
        destruct (N.eqb_spec (rd_n (vacant_len b1) str (RD k0)) 0) as [Hz|Hnz].
        * unfold re_post. split; [unfold countRE; cbn [filter is_re length]; lia|]. right. reflexivity.
        * apply (Hrec _ rest); lia.
      + unfold rl_after. cbn [nre filter is_re negb rdir_of tl]. cbv zeta.
        unfold re_post. split; [unfold countRE; cbn [filter is_re length]; lia|]. right. reflexivity.
      + unfold rl_after at 2. cbn [rdir_of tl]. cbv zeta.
        cbn [nre filter is_re negb]. fold (nre rest).
        unfold re_post. split; [unfold countRE; cbn [filter is_re length]; lia|]. left.
        split; [unfold countRE; cbn [filter is_re length]; lia|].
        split; [exists e; reflexivity|]. split; [exact Hw1|].
        rewrite (rlx_eq false b1 str (nre rest) Hw1). unfold rl_turn.
        assert (Hv1 : exists p', validate_f (st b1) (occupied b1) = Err InsufficientSize p').
        { rewrite Ho1. destruct Hs1 as [-> | ->]; [exists p; exact Hv|exact (H_addr _ _ _ Hv)]. }
        destruct Hv1 as (p' & Hv1). rewrite Hv1, Hp1. reflexivity.
      + unfold rl_after. cbn [nre filter is_re negb rdir_of tl]. cbv zeta.
        unfold re_post. split; [unfold countRE; cbn [filter is_re length]; lia|]. right. reflexivity.
  Qed.

  Lemma rlx_wfb sv b str sc b1 str1 sc1 o : wfb b -> rlx sv b str sc = (b1, str1, sc1, o) ->
    wfb b1 /\ (forall occ, o = RMsg occ -> exists b2, drop_guard size_f b1 = Ok b2 /\ wfb b2).
  Proof.
    intros Hw E.
    pose (s := {| stream := str; rscript := sc; rcalls := 0 |}).
    pose proof (recv_loop_rlx (blen str + 1) sv b s Hw ltac:(cbn [s stream rcalls]; lia)) as Hr.
    cbn [s stream rscript] in Hr. rewrite E in Hr.
    destruct (recv_loop validate_f (recv_fuel b s) (blen str + 1) sv b s) as [[b' s'] o'] eqn:R.
    unfold proj_r in Hr. cbn [fst snd] in Hr. injection Hr as -> _ _ ->.
    split; [exact (proj1 (recv_loop_wfb _ _ _ _ _ _ _ _ Hw R))|].
    intros occ ->.
    destruct (recv_loop_msg_valid _ _ _ _ _ _ _ _ Hw R) as (_ & _ & n0 & b2 & _ & _ & _ & Hd & Hw2 & _).
    exists b2. auto.
  Qed.

  Lemma cm_retry : forall m n b str sc, wfb b -> (n + countRE sc <= m)%nat ->
    exists tail, nrr (cm m false b str sc) = nrr (cm n false b str (nre sc)) ++ tail.
  Proof.
    induction m as [|m IH]; intros n b str sc Hw Hle.
    - destruct n; [|lia]. exists []. reflexivity.
    - destruct n as [|n]; [eexists; reflexivity|].
      pose proof (rlx_re (S (length str)) str ltac:(lia) b sc Hw) as P.
      destruct (rlx false b str sc) as [[[b1 str1] sc1] o] eqn:R.
      destruct (rlx_wfb _ _ _ _ _ _ _ _ Hw R) as [Hw1 Hmsg].
      unfold re_post in P. destruct P as (Hc & [(Hlt & (e & ->) & _ & HX)|HX]).
      + destruct (IH (S n) b1 str1 sc1 Hw1 ltac:(lia)) as (tail & Ht).
        exists tail. cbn [cm]. rewrite R, HX. cbn [nrr filter]. exact Ht.
      + cbn [cm]. rewrite R, HX.
        destruct o as [occ| |k p|e| | |].
        * destruct (Hmsg occ eq_refl) as (b2 & Hd & Hw2). rewrite Hd.
          destruct (IH n b2 str1 sc1 Hw2 ltac:(lia)) as (tail & Ht).
          exists tail. cbn [nrr filter app]. f_equal. exact Ht.
        * destruct (IH n b1 str1 sc1 Hw1 ltac:(lia)) as (tail & Ht).
          exists tail. cbn [nrr filter app]. f_equal. exact Ht.
        * destruct (IH n b1 str1 sc1 Hw1 ltac:(lia)) as (tail & Ht).
          exists tail. cbn [nrr filter app]. f_equal. exact Ht.
        * destruct (IH n b1 str1 sc1 Hw1 ltac:(lia)) as (tail & Ht).
          exists tail. cbn [nrr filter app]. exact Ht.
        * exists []. reflexivity.
        * exists []. reflexivity.
        * destruct (IH n b1 str1 sc1 Hw1 ltac:(lia)) as (tail & Ht).
          exists tail. cbn [nrr filter app]. f_equal. exact Ht.
  Qed.

  (* C09: every non-fault outcome of n calls on the script without its RE entries is delivered, in
     the same order, by n + (number of RE entries) calls on the script with them *)
  Theorem recv_retry : forall n limit limit' b s, wfb b ->
    rcalls s + blen (stream s) + N.of_nat (n + countRE (rscript s)) <= limit ->
    rcalls s + blen (stream s) + N.of_nat n <= limit' ->
    exists tail,
      nrr (fst (recv_many validate_f size_f (n + countRE (rscript s)) limit b s))
      = nrr (fst (recv_many validate_f size_f n limit' b
                    {| stream := stream s; rscript := nre (rscript s); rcalls := rcalls s |})) ++ tail.
  Proof.
    intros n limit limit' b s Hw Hl Hl'.
    rewrite (recv_many_cm _ limit b s Hw Hl).
    rewrite (recv_many_cm n limit' b _ Hw); [|cbn [stream rscript rcalls]; exact Hl'].
    cbn [stream rscript]. apply cm_retry; [exact Hw|lia].
  Qed.

  (* ---------------- C07: a sequence of canonical messages under every chunking ---------------- *)

  Variable A : N.
  Hypothesis H_A : 0 < A.

  (* the framing contract (C06) of one message as a byte string *)
  Definition canon (m : bytes) : Prop :=
    0 < blen m /\ blen m mod A = 0 /\
    (forall a k, a mod A = 0 -> k < blen m -> exists p, validate_f a (take k m) = Err InsufficientSize p) /\
    (forall a s, a mod A = 0 -> validate_f a (m ++ s) = Ok tt /\ size_f (m ++ s) = Ok (blen m)).

  (* a read directive that delivers at least one byte when there is one *)
  Definition okd (d : rdir) : Prop := exists k, d = RD k /\ 1 <= k.

  Lemma okd_rdir_of room str sc : Forall okd sc -> okd (rdir_of room str sc).
  Proof.
    clear H_addr.
    intros H. destruct sc as [|d r]; cbn [rdir_of].
    - eexists. split; [reflexivity|lia].
    - inversion H; assumption.
  Qed.

  Lemma Forall_tl {T} (P : T -> Prop) l : Forall P l -> Forall P (tl l).
  Proof. clear H_addr. intros H. destruct l; [exact H|]. inversion H; assumption. Qed.

  Lemma Forall_skipn' {T} (P : T -> Prop) k : forall l, Forall P l -> Forall P (skipn k l).
  Proof.
    clear H_addr.
    induction k as [|k IH]; intros l H; [exact H|]. destruct l as [|x l]; [exact H|].
    cbn [skipn]. apply IH. inversion H; assumption.
  Qed.

  Lemma recv_loop_S_false fuel limit b s :
    recv_loop validate_f (S fuel) limit false b s =
    match validate_f (st b) (occupied b) with
    | Ok _ => (b, s, RMsg (occupied b))
    | Crash _ => (b, s, RPanic)
    | Err InsufficientSize _ =>
        match read_prepare b with
        | None => (b, s, RRead OutOfMemory)
        | Some b1 => recv_after fuel limit b1 s
        end
    | Err k p => (b, s, RParse k p)
    end.
  Proof. clear H_addr. reflexivity. Qed.

  Lemma mod_add_0 x y : x mod A = 0 -> y mod A = 0 -> (x + y) mod A = 0.
  Proof.
    clear H_addr.
    intros Hx Hy. rewrite N.add_mod by lia. rewrite Hx, Hy, N.add_0_l. apply N.mod_0_l. lia.
  Qed.

  (* a window that starts a canonical message: short of it means InsufficientSize, else Ok *)
  Lemma canon_window m rest w str a : canon m -> a mod A = 0 -> w ++ str = m ++ rest ->
    (blen w < blen m /\ exists p, validate_f a w = Err InsufficientSize p) \/
    (blen m <= blen w /\ take (blen m) w = m /\ validate_f a w = Ok tt /\ size_f w = Ok (blen m)).
  Proof.
    clear H_addr.
    intros (Hc1 & Hc2 & Hc3 & Hc4) Ha E.
    destruct (N.le_gt_cases (blen m) (blen w)) as [Hge|Hlt].
    - right. assert (Ht : take (blen m) w = m).
      { rewrite <- (take_app_le (blen m) w str Hge). rewrite E. apply take_app_exact. }
      split; [exact Hge|]. split; [exact Ht|].
      assert (Ew : w = m ++ drop (blen m) w) by (rewrite <- Ht at 1; symmetry; apply take_drop).
      rewrite Ew. exact (Hc4 a _ Ha).
    - left. split; [exact Hlt|].
      rewrite (app_eq_take_l w str m rest E ltac:(lia)). apply Hc3; assumption.
  Qed.

  Lemma recv_loop_gets_msg : forall fuel limit b s m rest, wfb b -> st b mod A = 0 -> canon m ->
    blen m <= cap b -> occupied b ++ stream s = m ++ rest -> Forall okd (rscript s) ->
    blen (stream s) < N.of_nat fuel -> rcalls s + blen (stream s) + 1 <= limit ->
    exists b' s' occ, recv_loop validate_f fuel limit false b s = (b', s', RMsg occ).
  Proof.
    clear H_addr.
    induction fuel as [|fuel IH]; intros limit b s m rest Hw Ha Hc Hcap E Hsc Hf Hl; [cbn in Hf; lia|].
    rewrite recv_loop_S_false.
    destruct (canon_window m rest _ _ (st b) Hc Ha E) as [(Hlt & p & Hv)|(Hge & _ & Hv & _)].
    2:{ rewrite Hv. eexists _, _, _. reflexivity. }
    rewrite Hv. destruct (read_prepare b) as [b1|] eqn:Hp.
    2:{ exfalso. destruct (read_prepare_none b Hw Hp) as [H1 H2].
        rewrite (blen_occupied b Hw) in Hlt. lia. }
    destruct (read_prepare_some b b1 Hw Hp) as (Hw1 & Hc1 & Ho1 & Hv1 & Hs1 & _).
    rewrite (recv_after_eq fuel limit b1 s Hw1).
    destruct (N.ltb_spec limit (rcalls s + 1)) as [Hx|_]; [lia|]. cbv zeta.
    destruct (okd_rdir_of (vacant_len b1) (stream s) (rscript s) Hsc) as (k & Hd & Hk). rewrite Hd.
    assert (Hstr : 0 < blen (stream s)).
    { apply (f_equal blen) in E. rewrite !blen_app in E. lia. }
    destruct (rd_n_le (vacant_len b1) (stream s) (RD k)) as [Hn1 Hn2].
    assert (Hn0 : 1 <= rd_n (vacant_len b1) (stream s) (RD k)).
    { cbn [rd_n]. rewrite !umin_spec. lia. }
    set (n := rd_n (vacant_len b1) (stream s) (RD k)) in *.
    assert (Hb : blen (take n (stream s)) = n) by (apply blen_take_le; exact Hn2).
    destruct (advance_fill (take n (stream s)) b1 Hw1) as (_ & Hw2 & Hc2 & Hs2 & He2 & Ho2).
    { rewrite Hb. exact Hn1. }
    destruct (N.eqb_spec n 0) as [Hz|_]; [lia|].
    apply (IH limit _ _ m rest); cbn [stream rscript rcalls]; auto.
    - rewrite Hs2. destruct Hs1 as [-> | ->]; [exact Ha|apply N.mod_0_l; lia].
    - congruence.
    - rewrite Ho2, Ho1, <- app_assoc, take_drop. exact E.
    - apply Forall_tl. exact Hsc.
    - rewrite blen_drop. lia.
    - rewrite blen_drop. lia.
  Qed.

  (* the state between two recv() calls *)
  Definition rinv (c : N) (b : buffer) (s : source) (pl : bytes) : Prop :=
    wfb b /\ st b mod A = 0 /\ cap b = c /\ occupied b ++ stream s = pl /\ Forall okd (rscript s).

  Lemma recv_one : forall limit c b s m rest, rinv c b s (m ++ rest) -> canon m -> blen m <= c ->
    rcalls s + blen (stream s) + 1 <= limit ->
    exists b1 s1 occ b2,
      recv_loop validate_f (recv_fuel b s) limit false b s = (b1, s1, RMsg occ) /\
      take (blen m) occ = m /\ drop_guard size_f b1 = Ok b2 /\ rinv c b2 s1 rest /\
      rcalls s1 + blen (stream s1) <= rcalls s + blen (stream s) + 1.
  Proof.
    clear H_addr.
    intros limit c b s m rest (Hw & Ha & Hcap & E & Hsc) Hc Hm Hl.
    destruct (recv_loop_gets_msg (recv_fuel b s) limit b s m rest Hw Ha Hc ltac:(lia) E Hsc)
      as (b1 & s1 & occ & R); [unfold recv_fuel, blen; lia|exact Hl|].
    pose proof (recv_loop_post (recv_fuel b s) limit false b s Hw) as P. rewrite R in P.
    unfold rpost in P.
    destruct P as (Hw1 & Hc1 & Hs1 & _ & (j & k & Hj & Hj1 & Hj2 & Hj3 & Hj4 & Hj5) & Hmsg & _).
    destruct (Hmsg occ eq_refl) as [Hocc Hv].
    assert (Ha1 : st b1 mod A = 0).
    { destruct Hs1 as [-> | ->]; [exact Ha|apply N.mod_0_l; lia]. }
    assert (E1 : occ ++ stream s1 = m ++ rest).
    { rewrite Hocc, Hj1, Hj2, <- app_assoc, take_drop. exact E. }
    destruct (canon_window m rest _ _ (st b1) Hc Ha1 E1) as [(_ & p & Hv')|(Hge & Ht & _ & Hsz)];
      [rewrite Hv in Hv'; discriminate|].
    rewrite Hocc in Hge, Hsz.
    destruct (skip_ok (blen m) b1 Hw1 Hge) as (b2 & Hk & Hw2 & Hc2 & Ho2 & Hs2).
    exists b1, s1, occ, b2. split; [exact R|]. split; [exact Ht|].
    split; [unfold drop_guard; rewrite Hsz; exact Hk|]. split.
    - split; [exact Hw2|]. split.
      { destruct Hs2 as [-> | ->]; [apply N.mod_0_l; lia|]. apply mod_add_0; [exact Ha1|apply Hc]. }
      split; [congruence|]. split.
      + rewrite Ho2, <- Hocc. rewrite <- (take_drop (blen m) occ), Ht, <- app_assoc in E1.
        apply app_inv_head in E1. exact E1.
      + rewrite Hj3. apply Forall_skipn'. exact Hsc.
    - rewrite Hj1, blen_drop. lia.
  Qed.

  Lemma take_nil n : take n [] = [].
  Proof. clear H_addr. unfold take. apply firstn_nil. Qed.
  Lemma drop_nil n : drop n [] = [].
  Proof. clear H_addr. unfold drop. apply skipn_nil. Qed.

  Lemma recv_closed : forall limit c b s, rinv c b s [] -> 0 < c ->
    (forall a, a mod A = 0 -> exists p, validate_f a [] = Err InsufficientSize p) ->
    rcalls s + 1 <= limit ->
    exists b1 s1, recv_loop validate_f (recv_fuel b s) limit false b s = (b1, s1, RClosed) /\
      rinv c b1 s1 [] /\ rcalls s1 <= rcalls s + 1.
  Proof.
    clear H_addr.
    intros limit c b s (Hw & Ha & Hcap & E & Hsc) Hc Hnil Hl.
    apply app_eq_nil in E. destruct E as [Eo Es].
    unfold recv_fuel. rewrite recv_loop_S_false. rewrite Eo.
    destruct (Hnil (st b) Ha) as (p & Hv). rewrite Hv.
    destruct (read_prepare b) as [b1|] eqn:Hp.
    2:{ exfalso. destruct (read_prepare_none b Hw Hp) as [H1 H2].
        pose proof (blen_occupied b Hw) as Hb. rewrite Eo, blen_nil in Hb. lia. }
    destruct (read_prepare_some b b1 Hw Hp) as (Hw1 & Hc1 & Ho1 & Hv1 & Hs1 & _).
    rewrite (recv_after_eq _ limit b1 s Hw1).
    destruct (N.ltb_spec limit (rcalls s + 1)) as [Hx|_]; [lia|]. cbv zeta.
    destruct (okd_rdir_of (vacant_len b1) (stream s) (rscript s) Hsc) as (k & Hd & Hk). rewrite Hd.
    destruct (rd_n_le (vacant_len b1) (stream s) (RD k)) as [Hn1 Hn2].
    set (n := rd_n (vacant_len b1) (stream s) (RD k)) in *.
    rewrite Es in *. rewrite blen_nil in Hn2.
    destruct (N.eqb_spec n 0) as [Hz|Hnz]; [|lia].
    rewrite take_nil, drop_nil.
    destruct (advance_fill [] b1 Hw1) as (_ & Hw2 & Hc2 & Hs2 & He2 & Ho2); [rewrite blen_nil; lia|].
    eexists _, _. split; [reflexivity|]. cbn [stream rscript rcalls]. split; [|lia].
    split; [exact Hw2|]. split.
    { rewrite Hs2. destruct Hs1 as [-> | ->]; [exact Ha|apply N.mod_0_l; lia]. }
    split; [congruence|]. split; [rewrite Ho2, Ho1, Eo; reflexivity|].
    apply Forall_tl. exact Hsc.
  Qed.

  Lemma recv_many_closed : forall extra limit c b s, rinv c b s [] -> 0 < c ->
    (forall a, a mod A = 0 -> exists p, validate_f a [] = Err InsufficientSize p) ->
    rcalls s + N.of_nat extra <= limit ->
    fst (recv_many validate_f size_f extra limit b s) = repeat RClosed extra.
  Proof.
    clear H_addr.
    induction extra as [|extra IH]; intros limit c b s Hi Hc Hnil Hl; [reflexivity|].
    destruct (recv_closed limit c b s Hi Hc Hnil ltac:(lia)) as (b1 & s1 & R & Hi1 & Hr).
    rewrite recv_many_S, R. cbv zeta. cbn [fst repeat]. f_equal.
    apply (IH limit c); auto. lia.
  Qed.

  Lemma recv_many_seq_gen : forall ms extra limit c b s, rinv c b s (concat ms) ->
    Forall canon ms -> (forall m, In m ms -> blen m <= c) -> 0 < c ->
    (forall a, a mod A = 0 -> exists p, validate_f a [] = Err InsufficientSize p) ->
    rcalls s + blen (stream s) + N.of_nat (length ms + extra) <= limit ->
    exists occs,
      fst (recv_many validate_f size_f (length ms + extra) limit b s)
        = map RMsg occs ++ repeat RClosed extra /\
      Forall2 (fun occ m => take (blen m) occ = m) occs ms.
  Proof.
    clear H_addr.
    induction ms as [|m ms IH]; intros extra limit c b s Hi Hcan Hlen Hc Hnil Hl.
    - exists []. split; [|constructor]. cbn [length Nat.add map app].
      apply (recv_many_closed extra limit c); auto. cbn [length Nat.add] in Hl. lia.
    - cbn [concat] in Hi. cbn [length Nat.add] in *.
      inversion Hcan as [|m' ms' Hcm Hcms]; subst.
      destruct (recv_one limit c b s m (concat ms) Hi Hcm (Hlen m (or_introl eq_refl)) ltac:(lia))
        as (b1 & s1 & occ & b2 & R & Ht & Hd & Hi2 & Hr).
      destruct (IH extra limit c b2 s1 Hi2 Hcms) as (occs & Ho & Hf); auto.
      { intros m' Hin. apply Hlen. right. exact Hin. }
      { lia. }
      exists (occ :: occs). split; [|constructor; assumption].
      rewrite recv_many_S, R, Hd. cbv zeta. cbn [fst map app]. f_equal. exact Ho.
  Qed.

  (* C07 main theorem: the sent messages, in order, under every chunking, then Closed for ever *)
  Theorem recv_many_sequence : forall ms extra limit c fill sc,
    Forall canon ms -> (forall m, In m ms -> blen m <= c) ->
    (ms <> [] \/ (0 < c /\ forall a, a mod A = 0 -> exists p, validate_f a [] = Err InsufficientSize p)) ->
    Forall okd sc ->
    blen (concat ms) + N.of_nat (length ms + extra) <= limit ->
    exists occs,
      fst (recv_many validate_f size_f (length ms + extra) limit (new_buffer c fill)
             {| stream := concat ms; rscript := sc; rcalls := 0 |})
        = map RMsg occs ++ repeat RClosed extra /\
      Forall2 (fun occ m => take (blen m) occ = m) occs ms.
  Proof.
    clear H_addr.
    intros ms extra limit c fill sc Hcan Hlen Hne Hsc Hl.
    assert (Hc : 0 < c /\ forall a, a mod A = 0 -> exists p, validate_f a [] = Err InsufficientSize p).
    { destruct Hne as [Hne|Hne]; [|exact Hne]. destruct ms as [|m ms]; [contradiction|].
      inversion Hcan as [|m' ms' Hcm Hcms]; subst. destruct Hcm as (H1 & _ & H3 & _).
      pose proof (Hlen m (or_introl eq_refl)) as Hm. split; [lia|].
      intros a Ha. exact (H3 a 0 Ha H1). }
    destruct Hc as [Hc Hnil].
    apply (recv_many_seq_gen ms extra limit c); auto.
    split; [apply wfb_new|]. cbn [st new_buffer stream rscript]. split; [apply N.mod_0_l; lia|].
    split; [apply cap_new|]. split; [reflexivity|exact Hsc].
  Qed.

End Recv.

(* ------------------------------------------------------------------ a toy message format
   for the non-vacuity examples: the first byte is the total length of the message (>= 1);
   alignment 1; the address is ignored *)

Definition toy_validate (a : N) (bs : bytes) : res unit :=
  match bs with
  | [] => Err InsufficientSize 0
  | n :: _ => if n =? 0 then Err InvalidData 0
              else if blen bs <? n then Err InsufficientSize 0 else Ok tt
  end.

Definition toy_size (bs : bytes) : res N :=
  match bs with [] => Crash OobRead | n :: _ => Ok n end.

Lemma toy_total : forall a bs, is_crash (toy_validate a bs) = false.
Proof.
  intros a [|n r]; [reflexivity|]. unfold toy_validate.
  destruct (n =? 0); [reflexivity|]. destruct (blen (n :: r) <? n); reflexivity.
Qed.

Lemma toy_sized : forall a bs, toy_validate a bs = Ok tt ->
  exists n, toy_size bs = Ok n /\ 0 < n /\ n <= blen bs.
Proof.
  intros a [|n r]; [discriminate|]. unfold toy_validate, toy_size.
  destruct (N.eqb_spec n 0) as [Hz|Hz]; [discriminate|].
  destruct (N.ltb_spec (blen (n :: r)) n) as [Hl|Hl]; [discriminate|].
  intros _. exists n. split; [reflexivity|]. lia.
Qed.

Lemma toy_addr : forall a bs p, toy_validate a bs = Err InsufficientSize p ->
  exists p', toy_validate 0 bs = Err InsufficientSize p'.
Proof. intros a bs p H. exists p. exact H. Qed.

Lemma toy_nil : forall a, a mod 1 = 0 -> exists p, toy_validate a [] = Err InsufficientSize p.
Proof. intros a _. exists 0. reflexivity. Qed.

(* every byte string whose first byte is its own length is a canonical toy message *)
Lemma toy_canon m : hd 0 m = blen m -> 0 < blen m -> canon toy_validate toy_size 1 m.
Proof.
  intros Hh Hp. destruct m as [|n r]; [rewrite blen_nil in Hp; lia|]. cbn [hd] in Hh.
  unfold canon. split; [exact Hp|]. split; [apply N.mod_1_r|]. split.
  - intros a k _ Hk. destruct (take k (n :: r)) as [|x l] eqn:Et; [exists 0; reflexivity|].
    pose proof (take_drop k (n :: r)) as E. rewrite Et in E. cbn [app] in E. injection E as -> _.
    assert (Hb : blen (n :: l) = k) by (rewrite <- Et; apply blen_take_le; lia).
    unfold toy_validate.
    destruct (N.eqb_spec n 0) as [Hz|_]; [lia|].
    destruct (N.ltb_spec (blen (n :: l)) n) as [_|Hge]; [exists 0; reflexivity|lia].
  - intros a s _. cbn [app]. unfold toy_validate, toy_size.
    destruct (N.eqb_spec n 0) as [Hz|_]; [lia|].
    destruct (N.ltb_spec (blen (n :: r ++ s)) n) as [Hl|_].
    + rewrite blen_cons, blen_app in Hl. rewrite blen_cons in Hh. lia.
    + rewrite Hh. split; reflexivity.
Qed.
