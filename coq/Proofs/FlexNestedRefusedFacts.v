(* FlexNestedRefusedFacts.v — a refused push into an inner vector of a FlexVec of FlexVecs leaves the contents of the
   whole outer vector as they were (C13 for items that are FlexVecs).  Corollary of the per-step refinement
   FlexNestedSpecFacts.nested_step_contents. *)
From Coq Require Import NArith List Bool Lia.
From Flatty.Model Require Import Base Ty Layout Validate View Emplace Ops.
From Flatty.Proofs Require Import ChainFacts ViewFacts EmplaceSpec FlexOpsFacts FlexAllFacts FlexNestedFacts
  FlexNestedHistFacts FlexNestedSpecFacts.
Import ListNotations.
Open Scope N_scope.

(* replacing element j by itself *)
Lemma splice_same {A} (x : A) : forall j xs, nth_error xs j = Some x -> splice j x xs = xs.
Proof.
  unfold splice. induction j as [|j IH]; intros xs Hn.
  - destruct xs as [|y r]; [discriminate|]. cbn in Hn. injection Hn as ->. reflexivity.
  - destruct xs as [|y r]; [discriminate|]. cbn in Hn. cbn [firstn skipn app]. f_equal.
    exact (IH r Hn).
Qed.

(* the list-of-lists model does nothing on a refused inner push *)
Lemma spec2_step_refused it il xs j i kd :
  spec2_step it il xs (Inner j (FPush i)) (OErr kd) = xs.
Proof.
  unfold spec2_step. destruct (nth_error xs (N.to_nat j)) as [[n|g ws|c ws]|] eqn:Hn; try reflexivity.
  assert (Hs : flex_spec_step it ws (FPush i) (OErr kd) = ws) by reflexivity.
  rewrite Hs. apply splice_same. exact Hn.
Qed.

Lemma nested_inner_push_refused pv it il l a :
  wf (TFlex (TFlex it il) l) = true -> narrow_ty (TFlex (TFlex it il) l) = true ->
  wf it = true -> sized it = true ->
  forall j i bs vs kd, init_ok it i = true ->
  validate (TFlex (TFlex it il) l) a bs = Ok tt -> view (TFlex (TFlex it il) l) bs = Ok (VNode 0 vs) ->
  snd (flex_edit_flex pv (TFlex (TFlex it il) l) a j (FPush i) bs) = OErr kd ->
  exists vs', view (TFlex (TFlex it il) l) (fst (flex_edit_flex pv (TFlex (TFlex it il) l) a j (FPush i) bs)) = Ok (VNode 0 vs') /\
    map strip vs' = map strip vs.
Proof.
  intros Hw Hn Hwi Hs j i bs vs kd Hi Hv Hview Hout.
  assert (Hok : step_ok it il (Inner j (FPush i))) by exact Hi.
  destruct (nested_step_contents pv it il l a Hw Hn Hwi Hs (Inner j (FPush i)) bs vs Hok Hv Hview) as (vs' & Hv' & Hm).
  cbn [flex2_step] in Hv', Hm. rewrite Hout in Hm. rewrite spec2_step_refused in Hm.
  exists vs'. split; assumption.
Qed.
