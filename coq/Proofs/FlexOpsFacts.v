(* FlexOpsFacts.v — the in-place operations of FlexVec on its byte image (C12, FlexVec part of C13):
   on a valid image every operation yields a valid image whose item list is the list operation
   applied to the old item list; a refused push changes nothing observable. *)
From Coq Require Import List NArith Bool Lia ZArith ZifyN ZifyBool ZifyNat.
From Flatty.Model Require Import Base Ty Layout Validate View Emplace Ops Portable.
From Flatty.Proofs Require Import ArithFacts LayoutFacts BytesFacts ValidateFacts FramingFacts ChainFacts
  ViewFacts PortableFacts OpsFacts EmplaceFacts EmplaceSpec EncFacts.
Open Scope N_scope.

(* ---------- bytes: writing one integer into a slice ---------- *)

Lemma tb_blen l v : blen (to_bytes (ibe l) (isize l) v) = isize l.
Proof. apply (enc_length (ibe l) (isize l) v). Qed.

Lemma write_int_at_blen l pos v data : pos + isize l <= blen data -> blen (write_int_at l pos v data) = blen data.
Proof. intros H. apply (write_int_at_frame l pos v data H). Qed.

Lemma write_int_at_before l pos v data k : pos + isize l <= blen data -> k <= pos ->
  take k (write_int_at l pos v data) = take k data.
Proof.
  intros H Hk. destruct (write_int_at_frame l pos v data H) as (_ & Ht & _).
  rewrite <- (take_take k pos (write_int_at l pos v data)) by exact Hk. rewrite Ht. apply take_take. exact Hk.
Qed.

Lemma write_int_at_after l pos v data k : pos + isize l <= blen data -> pos + isize l <= k ->
  drop k (write_int_at l pos v data) = drop k data.
Proof.
  intros H Hk. destruct (write_int_at_frame l pos v data H) as (_ & _ & Hd).
  replace k with (pos + isize l + (k - (pos + isize l))) by lia.
  rewrite <- (drop_drop (k - (pos + isize l)) (pos + isize l) (write_int_at l pos v data)).
  rewrite <- (drop_drop (k - (pos + isize l)) (pos + isize l) data). rewrite Hd. reflexivity.
Qed.

Lemma write_int_at_here l pos v data : pos <= blen data ->
  drop pos (write_int_at l pos v data) = to_bytes (ibe l) (isize l) v ++ drop (pos + isize l) data.
Proof.
  intros H. unfold write_int_at.
  assert (Hp : blen (take pos data) = pos) by (apply blen_take_le; lia).
  rewrite <- Hp at 1. apply drop_app_exact.
Qed.

(* a segment [x, x+n) that lies before the written integer / behind it *)
Lemma write_int_at_seg_before l pos v data x n : pos + isize l <= blen data -> x + n <= pos ->
  take n (drop x (write_int_at l pos v data)) = take n (drop x data).
Proof.
  intros H Hx. rewrite !take_drop_comm. rewrite write_int_at_before by (auto; lia). reflexivity.
Qed.

Lemma write_int_at_app l pos v d tl : pos + isize l <= blen d ->
  write_int_at l pos v d ++ tl = write_int_at l pos v (d ++ tl).
Proof.
  intros H. unfold write_int_at. rewrite take_app_le by lia. rewrite drop_app_le by lia.
  rewrite <- !app_assoc. reflexivity.
Qed.

Lemma agree_of_take_eq n (bs bs' : bytes) : n <= blen bs -> n <= blen bs' -> take n bs' = take n bs -> agree n bs bs'.
Proof. intros H1 H2 H3. repeat split; auto. Qed.

(* a zero read through a length type comes from zero bytes only *)
Lemma le_val_zero bs : le_val bs = 0 -> bs = repeat 0 (length bs).
Proof.
  induction bs as [|b r IH]; intros H; [reflexivity|]. cbn [le_val] in H. cbn [length repeat].
  assert (b = 0) by lia. assert (le_val r = 0) by lia. subst b. rewrite <- IH by assumption. reflexivity.
Qed.

Lemma le_digits_zero n : le_digits n 0 = repeat 0 n.
Proof. induction n as [|n IH]; [reflexivity|]. cbn [le_digits repeat]. rewrite N.div_0_l by lia. rewrite IH. reflexivity. Qed.

Lemma rev_repeat {A} (x : A) n : rev (repeat x n) = repeat x n.
Proof.
  induction n as [|n IH]; [reflexivity|]. cbn [repeat rev]. rewrite IH.
  clear IH. induction n as [|n IH]; [reflexivity|]. cbn [repeat app]. rewrite IH. reflexivity.
Qed.

Lemma of_bytes_zero be bs : of_bytes be bs = 0 -> bs = to_bytes be (blen bs) 0.
Proof.
  unfold of_bytes, to_bytes, blen. rewrite Nat2N.id. rewrite le_digits_zero. intros H. destruct be.
  - apply le_val_zero in H. rewrite rev_length in H. rewrite rev_repeat.
    apply (f_equal (@rev N)) in H. rewrite rev_involutive, rev_repeat in H. exact H.
  - apply le_val_zero in H. exact H.
Qed.

Lemma read_len_zero_inv l data : read_len l data = Ok 0 -> isize l <= blen data ->
  write_int_at l 0 0 data = data.
Proof.
  intros Hr Hs. unfold read_len, read_int in Hr. destruct (N.leb_spec (isize l) (blen data)); [|lia].
  cbn [bind] in Hr. apply to_usize_inv in Hr. symmetry in Hr.
  apply of_bytes_zero in Hr. rewrite blen_take_le in Hr by lia.
  unfold write_int_at. change (take 0 data) with (@nil N). rewrite N.add_0_l. cbn [app].
  rewrite <- Hr. apply take_drop.
Qed.

(* ---------- a partial chain: the non-last items that lead from [pos] to the slot at [p] ---------- *)

Section PChain.
  Variables (l : intty) (os al m : N).

  Inductive pchain : N -> bytes -> N -> list flex_item -> N -> Prop :=
  | pc_nil a rem pos : pchain a rem pos [] pos
  | pc_next a rem pos next items p :
      aligned a (ialign l) = true -> isize l <= blen rem -> read_len l rem = Ok next ->
      next <> 0 -> next <> m -> os <= next -> next mod al = 0 -> next <= blen rem ->
      pchain (a + next) (drop next rem) (pos + next) items p ->
      pchain a rem pos ((pos, a + os, drop os (take next rem)) :: items) p.

  Lemma pchain_ge a rem pos items p : pchain a rem pos items p -> pos <= p /\ p <= pos + blen rem.
  Proof.
    induction 1 as [a rem pos|a rem pos next items p Ha Hs Hr Hn0 Hnm Hon Hmod Hnr Hc IHc]; [lia|].
    rewrite blen_drop in IHc. lia.
  Qed.

  Lemma pchain_mod a rem pos items p : 0 < al -> pchain a rem pos items p -> pos mod al = 0 -> p mod al = 0.
  Proof.
    intros Hal. induction 1 as [a rem pos|a rem pos next items p Ha Hs Hr Hn0 Hnm Hon Hmod Hnr Hc IHc]; intros Hp; [exact Hp|].
    apply IHc. apply mod_add_mult; auto.
  Qed.

  (* composition *)
  Lemma pchain_chain a rem pos pre p : pchain a rem pos pre p ->
    forall suf e, chain l os al m (a + (p - pos)) (drop (p - pos) rem) p suf e ->
    chain l os al m a rem pos (pre ++ suf) e.
  Proof.
    induction 1 as [a rem pos|a rem pos next items p Ha Hs Hr Hn0 Hnm Hon Hmod Hnr Hc IHc]; intros suf e Hsuf.
    - rewrite N.sub_diag, N.add_0_r, drop_0 in Hsuf. exact Hsuf.
    - pose proof (pchain_ge _ _ _ _ _ Hc) as [Hge _].
      cbn [app]. apply ch_next; auto. apply IHc.
      rewrite drop_drop. replace (a + next + (p - (pos + next))) with (a + (p - pos)) by lia.
      replace (next + (p - (pos + next))) with (p - pos) by lia. exact Hsuf.
  Qed.

  Lemma chain_head a rem pos x r e : chain l os al m a rem pos (x :: r) e ->
    item_pos x = pos /\ aligned a (ialign l) = true /\ isize l <= blen rem.
  Proof. intros H. inversion H; subst; repeat split; auto. Qed.

  Lemma chain_nil_head a rem pos e : chain l os al m a rem pos [] e ->
    e = EndZero pos /\ aligned a (ialign l) = true /\ isize l <= blen rem /\ read_len l rem = Ok 0.
  Proof. intros H. inversion H; subst; repeat split; auto. Qed.

  (* decomposition at an item *)
  Lemma chain_split pre x suf : forall a rem pos e,
    chain l os al m a rem pos (pre ++ x :: suf) e ->
    pchain a rem pos pre (item_pos x) /\
    chain l os al m (a + (item_pos x - pos)) (drop (item_pos x - pos) rem) (item_pos x) (x :: suf) e.
  Proof.
    induction pre as [|y pre IH]; intros a rem pos e H.
    - cbn [app] in H. destruct (chain_head _ _ _ _ _ _ H) as (Hp & _). rewrite Hp.
      rewrite N.sub_diag, N.add_0_r, drop_0. split; [constructor|exact H].
    - cbn [app] in H.
      inversion H as [|a0 rem0 pos0 Ha Hs Hr Hm0 Hom Hor Heq
                      |a0 rem0 pos0 next items0 e0 Ha Hs Hr Hn0 Hnm Hon Hmod Hnr Hc]; subst.
      + exfalso. destruct pre; discriminate.
      + destruct (IH _ _ _ _ Hc) as (Hpc & Hsuf).
        pose proof (pchain_ge _ _ _ _ _ Hpc) as [Hge _].
        split; [apply pc_next; auto|].
        rewrite drop_drop in Hsuf.
        replace (a + next + (item_pos x - (pos + next))) with (a + (item_pos x - pos)) in Hsuf by lia.
        replace (next + (item_pos x - (pos + next))) with (item_pos x - pos) in Hsuf by lia. exact Hsuf.
  Qed.

  (* decomposition at the zero slot *)
  Lemma chain_zero_split a rem pos items p : chain l os al m a rem pos items (EndZero p) ->
    pchain a rem pos items p /\
    chain l os al m (a + (p - pos)) (drop (p - pos) rem) p [] (EndZero p).
  Proof.
    intros H. remember (EndZero p) as e eqn:He. revert p He.
    induction H as [a rem pos Ha Hs Hr|a rem pos Ha Hs Hr Hm0 Hom Hor
                   |a rem pos next items e Ha Hs Hr Hn0 Hnm Hon Hmod Hnr Hc IHc]; intros p He.
    - injection He as <-. rewrite N.sub_diag, N.add_0_r, drop_0. split; [constructor|apply ch_zero; auto].
    - discriminate.
    - destruct (IHc p He) as (Hpc & Hz). pose proof (pchain_ge _ _ _ _ _ Hpc) as [Hge _].
      split; [apply pc_next; auto|].
      rewrite drop_drop in Hz.
      replace (a + next + (p - (pos + next))) with (a + (p - pos)) in Hz by lia.
      replace (next + (p - (pos + next))) with (p - pos) in Hz by lia. exact Hz.
  Qed.

  (* decomposition at the marked last item *)
  Lemma chain_last_split a rem pos items p : chain l os al m a rem pos items (EndLast p) ->
    exists pre, items = pre ++ [(p, a + (p - pos) + os, drop (p - pos + os) rem)] /\
      pchain a rem pos pre p /\ aligned (a + (p - pos)) (ialign l) = true /\ p - pos + os <= blen rem.
  Proof.
    intros H. remember (EndLast p) as e eqn:He. revert p He.
    induction H as [a rem pos Ha Hs Hr|a rem pos Ha Hs Hr Hm0 Hom Hor
                   |a rem pos next items e Ha Hs Hr Hn0 Hnm Hon Hmod Hnr Hc IHc]; intros p He.
    - discriminate.
    - injection He as <-. exists []. rewrite N.sub_diag, N.add_0_r, N.add_0_l. cbn [app].
      repeat split; auto. constructor.
    - destruct (IHc p He) as (pre & Hitems & Hpc & Hal & Hroom).
      pose proof (pchain_ge _ _ _ _ _ Hpc) as [Hge _]. rewrite blen_drop in Hroom.
      exists ((pos, a + os, drop os (take next rem)) :: pre). split; [|split; [|split]].
      + cbn [app]. rewrite Hitems, drop_drop.
        replace (a + next + (p - (pos + next)) + os) with (a + (p - pos) + os) by lia.
        replace (next + (p - (pos + next) + os)) with (p - pos + os) by lia. reflexivity.
      + apply pc_next; auto.
      + replace (a + (p - pos)) with (a + next + (p - (pos + next))) by lia. exact Hal.
      + lia.
  Qed.

  (* a partial chain only depends on the bytes before the slot it leads to *)
  Lemma pchain_local a rem pos items p : isize l <= os -> pchain a rem pos items p ->
    forall rem', agree (p - pos) rem rem' -> pchain a rem' pos items p.
  Proof.
    intros Hlos.
    induction 1 as [a rem pos|a rem pos next items p Ha Hs Hr Hn0 Hnm Hon Hmod Hnr Hc IHc]; intros rem' Hag.
    - constructor.
    - pose proof (pchain_ge _ _ _ _ _ Hc) as [Hge _].
      pose proof Hag as (_ & Hn' & _).
      assert (Hnn : next <= p - pos) by lia.
      assert (Hr' : read_len l rem' = Ok next)
        by (rewrite (agree_read_len l (p - pos) rem rem' Hag) by lia; exact Hr).
      rewrite <- (agree_take (p - pos) next rem rem' Hag Hnn).
      apply pc_next; auto; try lia.
      apply IHc. replace (p - (pos + next)) with (p - pos - next) by lia. apply agree_drop; auto.
  Qed.
End PChain.

(* ---------- 1. the chain as the iterator of the operations sees it ---------- *)

Definition item_pl (x : flex_item) : N * N := (item_pos x, blen (snd x)).

Definition item_cb : list (N * N) -> N -> N -> bytes -> res (list (N * N)) :=
  fun acc pos _ payload => Ok ((pos, blen payload) :: acc).

Lemma fold_item_cb items : forall acc, fold_items item_cb acc items = Ok (rev (map item_pl items) ++ acc).
Proof.
  induction items as [|[[p pa] pl] r IH]; intros acc; [reflexivity|].
  cbn [fold_items]. unfold item_cb at 1. cbn [bind]. rewrite IH. cbn [map rev].
  unfold item_pl at 2. cbn [item_pos fst snd]. rewrite <- app_assoc. reflexivity.
Qed.

Lemma same_item_pl items items0 : Forall2 same_item items items0 -> map item_pl items0 = map item_pl items.
Proof.
  induction 1 as [|x y r r' [Hp Hs] Hr IH]; [reflexivity|].
  cbn [map]. rewrite IH. unfold item_pl. rewrite Hp, Hs. reflexivity.
Qed.

Lemma flex_chain_unfold l os al data : flex_chain l os al data =
  (do r <- flex_fold l os al item_cb (flex_fuel data) [] 0 data 0; Ok (rev (fst r), snd r)).
Proof. reflexivity. Qed.

(* flex_chain lists (slot position, payload length) of exactly the items of the chain, in order *)
Theorem flex_chain_spec t l a bs items e : wf (TFlex t l) = true ->
  chain l (flex_offset_size t l) (align (TFlex t l)) (flex_max l) a (flex_data t l bs) 0 items e ->
  (nomax l -> items = []) ->
  flex_chain l (flex_offset_size t l) (align (TFlex t l)) (flex_data t l bs) = Ok (map item_pl items, e).
Proof.
  intros Hw Hc Hn. pose proof (flex_consts t l Hw) as (_ & _ & _ & _ & Hos & _).
  destruct (chain_at_zero t l a _ items e Hw Hc) as (items0 & Hc0 & Hsame).
  assert (Hn0 : nomax l -> items0 = []).
  { intros Hx. rewrite (Hn Hx) in Hsame. apply same_item_nil_l. exact Hsame. }
  rewrite flex_chain_unfold.
  rewrite (chain_flex_fold l _ _ item_cb _ [] 0 _ 0 _ e items0 Hos (flex_fuel_ok _) Hc0 Hn0 (fold_item_cb items0 [])).
  cbn [bind fst snd]. rewrite app_nil_r, rev_involutive, (same_item_pl _ _ Hsame). reflexivity.
Qed.

(* on a valid image *)
Theorem flex_chain_valid t l a bs : wf (TFlex t l) = true -> validate (TFlex t l) a bs = Ok tt ->
  exists items e,
    chain l (flex_offset_size t l) (align (TFlex t l)) (flex_max l) a (flex_data t l bs) 0 items e /\
    Forall (item_ok t) items /\
    flex_chain l (flex_offset_size t l) (align (TFlex t l)) (flex_data t l bs) = Ok (map item_pl items, e).
Proof.
  intros Hw Hv. destruct (validate_inv _ _ _ Hv) as (_ & _ & Hu).
  destruct (flex_valid_chain t l a bs Hw Hu) as (items & e & Hc & Hok & Hn).
  exists items, e. repeat split; auto. apply (flex_chain_spec t l a bs items e Hw Hc Hn).
Qed.

(* ---------- chains after a write ---------- *)

Section ChainOps.
  Variables (l : intty) (os al m : N).
  Hypothesis Hlos : isize l <= os.

  Lemma chain_any_head a rem pos items e : chain l os al m a rem pos items e ->
    aligned a (ialign l) = true /\ isize l <= blen rem.
  Proof. intros H. inversion H; subst; split; auto. Qed.

  (* a zero written into the slot of an item ends the chain in front of it *)
  Lemma chain_truncate pre x suf a rem pos e :
    chain l os al m a rem pos (pre ++ x :: suf) e ->
    pos <= item_pos x /\ item_pos x - pos + isize l <= blen rem /\
    chain l os al m a (write_int_at l (item_pos x - pos) 0 rem) pos pre (EndZero (item_pos x)).
  Proof.
    intros H. destruct (chain_split l os al m pre x suf a rem pos e H) as (Hpc & Hsuf).
    destruct (chain_any_head _ _ _ _ _ Hsuf) as (Hal & Hsz). rewrite blen_drop in Hsz.
    destruct (pchain_ge _ _ _ _ _ _ _ _ _ Hpc) as (Hge & Hle).
    set (q := item_pos x - pos) in *.
    assert (Hq : q + isize l <= blen rem) by lia.
    split; [exact Hge|]. split; [exact Hq|].
    rewrite <- (app_nil_r pre). apply (pchain_chain l os al m a _ pos pre (item_pos x)).
    - apply (pchain_local l os al m a rem pos pre (item_pos x) Hlos Hpc). fold q.
      apply agree_of_take_eq; [lia|rewrite write_int_at_blen by exact Hq; lia|].
      apply write_int_at_before; [exact Hq|lia].
    - fold q. rewrite write_int_at_here by lia. apply ch_zero; auto.
      + rewrite blen_app, tb_blen. lia.
      + apply read_len_zero.
  Qed.
End ChainOps.

Lemma chain_item_le l os al m pre x suf a rem pos e :
  chain l os al m a rem pos (pre ++ x :: suf) e -> item_pos x <= end_pos e.
Proof.
  intros H. destruct (chain_split l os al m pre x suf a rem pos e H) as (_ & Hsuf).
  destruct (chain_ge _ _ _ _ _ _ _ _ _ Hsuf) as (_ & Hge & _). exact Hge.
Qed.

Lemma map_item_pos items : map item_pos items = map fst (map item_pl items).
Proof. rewrite map_map. apply map_ext. intros x. reflexivity. Qed.

Lemma nth_error_map_opt {A B} (f : A -> B) xs : forall n, nth_error (map f xs) n = option_map f (nth_error xs n).
Proof. induction xs as [|x r IH]; intros [|n]; cbn [map nth_error option_map]; auto. Qed.

(* ---------- a chain after the payload of one item is replaced ---------- *)

Lemma drop_all n (bs : bytes) : blen bs <= n -> drop n bs = [].
Proof. intros H. unfold drop, blen in *. apply skipn_all2. lia. Qed.

Lemma drop_app_at n (a b : bytes) : blen a = n -> drop n (a ++ b) = b.
Proof. intros <-. apply drop_app_exact. Qed.

Lemma take_app_at n (a b : bytes) : blen a = n -> take n (a ++ b) = a.
Proof. intros <-. apply take_app_exact. Qed.

Lemma take_add x y (bs : bytes) : x <= blen bs -> take (x + y) bs = take x bs ++ take y (drop x bs).
Proof.
  intros H. rewrite <- (take_drop x bs) at 1.
  rewrite take_app_ge by (rewrite blen_take_le by exact H; lia).
  rewrite blen_take_le by exact H. replace (x + y - x) with y by lia. reflexivity.
Qed.

Lemma read_len_take_app l os rem x : isize l <= os -> os <= blen rem ->
  read_len l (take os rem ++ x) = read_len l rem.
Proof.
  intros Hl Ho. assert (Hb : isize l <= blen (take os rem)) by (rewrite blen_take_le by exact Ho; exact Hl).
  rewrite (ext_read_len l (take os rem) (take os rem ++ x) (ext_app _ _) Hb).
  symmetry. rewrite <- (take_drop os rem) at 1. apply (ext_read_len l (take os rem) _ (ext_app _ _) Hb).
Qed.

Section ChainEdit.
  Variables (l : intty) (os al m : N).
  Hypothesis Hlos : isize l <= os.

  Lemma chain_edit_head a rem pos p pa pl suf e np :
    chain l os al m a rem pos ((p, pa, pl) :: suf) e -> blen np = blen pl ->
    p = pos /\ pa = a + os /\ os + blen pl <= blen rem /\ pl = take (blen pl) (drop os rem) /\
    chain l os al m a (take os rem ++ np ++ drop (os + blen pl) rem) pos ((p, pa, np) :: suf) e.
  Proof.
    intros H Hnp.
    assert (Hp : p = pos) by (destruct (chain_head l os al m _ _ _ _ _ _ H) as (Hp & _); exact Hp).
    subst p.
    inversion H as [|a0 rem0 pos0 Ha Hs Hr Hm0 Hom Hor
                    |a0 rem0 pos0 next items0 e0 Ha Hs Hr Hn0 Hnm Hon Hmod Hnr Hc]; subst.
    - (* the marked last item: its payload is the rest of the data *)
      rewrite blen_drop in *.
      split; [reflexivity|]. split; [reflexivity|]. split; [lia|].
      split; [symmetry; apply take_all; rewrite blen_drop; lia|].
      rewrite (drop_all (os + (blen rem - os)) rem) by lia. rewrite app_nil_r.
      assert (Htk : blen (take os rem) = os) by (apply blen_take_le; exact Hor).
      assert (Hx : chain l os al m a (take os rem ++ np) pos
                     [(pos, a + os, drop os (take os rem ++ np))] (EndLast pos)).
      { apply ch_last; auto.
        - rewrite blen_app, Htk. lia.
        - rewrite read_len_take_app by assumption. exact Hr.
        - rewrite blen_app, Htk. lia. }
      rewrite (drop_app_at os _ np Htk) in Hx. exact Hx.
    - (* an inner item: its payload ends at the next slot *)
      assert (Hpl : blen (drop os (take next rem)) = next - os)
        by (rewrite blen_drop, blen_take_le by exact Hnr; reflexivity).
      rewrite Hpl in *. replace (os + (next - os)) with next by lia.
      split; [reflexivity|]. split; [reflexivity|]. split; [lia|].
      split; [rewrite take_drop_comm; replace (os + (next - os)) with next by lia; reflexivity|].
      assert (Htk : blen (take os rem) = os) by (apply blen_take_le; lia).
      assert (Hhd : blen (take os rem ++ np) = next) by (rewrite blen_app, Htk, Hnp; lia).
      set (rem' := take os rem ++ np ++ drop next rem).
      assert (Ht' : take next rem' = take os rem ++ np)
        by (unfold rem'; rewrite app_assoc; apply take_app_at; exact Hhd).
      assert (Hd' : drop next rem' = drop next rem)
        by (unfold rem'; rewrite app_assoc; apply drop_app_at; exact Hhd).
      assert (Hb' : blen rem' = blen rem).
      { unfold rem'. rewrite app_assoc, blen_app, Hhd, blen_drop. lia. }
      assert (Hx : chain l os al m a rem' pos
                     ((pos, a + os, drop os (take next rem')) :: suf) e).
      { apply ch_next; auto; try lia.
        - unfold rem'. rewrite read_len_take_app by (auto; lia). exact Hr.
        - rewrite Hd'. exact Hc. }
      rewrite Ht', (drop_app_at os _ np Htk) in Hx. exact Hx.
  Qed.

  Lemma chain_edit pre p pa pl suf a rem pos e np :
    chain l os al m a rem pos (pre ++ (p, pa, pl) :: suf) e -> blen np = blen pl ->
    pos <= p /\ pa = a + (p - pos) + os /\ p - pos + os + blen pl <= blen rem /\
    pl = take (blen pl) (drop (p - pos + os) rem) /\
    chain l os al m a (take (p - pos + os) rem ++ np ++ drop (p - pos + os + blen pl) rem) pos
      (pre ++ (p, pa, np) :: suf) e.
  Proof.
    intros H Hnp. destruct (chain_split l os al m pre _ suf a rem pos e H) as (Hpc & Hsuf).
    change (item_pos (p, pa, pl)) with p in *.
    destruct (pchain_ge _ _ _ _ _ _ _ _ _ Hpc) as (Hge & Hle).
    set (q := p - pos) in *. assert (Hq : q <= blen rem) by lia.
    destruct (chain_edit_head (a + q) _ p p pa pl suf e np Hsuf Hnp) as (_ & Hpa & Hroom & Hpl & Hch').
    rewrite blen_drop in Hroom. rewrite drop_drop in Hpl.
    split; [exact Hge|]. split; [exact Hpa|]. split; [lia|]. split; [exact Hpl|].
    set (rem' := take (q + os) rem ++ np ++ drop (q + os + blen pl) rem).
    assert (Htq : blen (take q rem) = q) by (apply blen_take_le; exact Hq).
    assert (Hrem' : rem' = take q rem ++ (take os (drop q rem) ++ np ++ drop (os + blen pl) (drop q rem))).
    { unfold rem'. rewrite (take_add q os rem Hq), drop_drop, <- app_assoc.
      replace (q + (os + blen pl)) with (q + os + blen pl) by lia. reflexivity. }
    assert (Hdq : drop q rem' = take os (drop q rem) ++ np ++ drop (os + blen pl) (drop q rem))
      by (rewrite Hrem'; apply drop_app_at; exact Htq).
    assert (Htk : take q rem' = take q rem) by (rewrite Hrem'; apply take_app_at; exact Htq).
    apply (pchain_chain l os al m a rem' pos pre p).
    - apply (pchain_local l os al m a rem pos pre p Hlos Hpc). fold q.
      apply agree_of_take_eq; [lia| |exact Htk].
      rewrite Hrem', blen_app, Htq. lia.
    - fold q. rewrite Hdq. exact Hch'.
  Qed.
End ChainEdit.

Lemma seg_take x n k (bs : bytes) : x + n <= k -> take n (drop x (take k bs)) = take n (drop x bs).
Proof. intros H. rewrite !take_drop_comm. rewrite take_take by lia. reflexivity. Qed.

Lemma seg_app_l x n (a b : bytes) : x + n <= blen a -> take n (drop x (a ++ b)) = take n (drop x a).
Proof. intros H. rewrite !take_drop_comm. rewrite take_app_le by lia. reflexivity. Qed.

Section ChainPush.
  Variables (l : intty) (os al m : N).
  Hypothesis Hlos : isize l <= os.
  Hypothesis Hm0 : m <> 0.
  Hypothesis Hosm : os <= m.
  Hypothesis Hmenc : forall rest, read_len l (to_bytes (ibe l) (isize l) m ++ rest) = Ok m.

  (* the chain ends in a zero slot at p: that slot is marked and the new payload follows it *)
  Lemma chain_push_zero a rem pos items p payload' :
    chain l os al m a rem pos items (EndZero p) ->
    p - pos + os <= blen rem ->
    let q := p - pos in
    let rem' := write_int_at l q m (take (q + os) rem ++ payload') in
    chain l os al m a rem' pos (items ++ [(p, a + q + os, payload')]) (EndLast p) /\
    blen rem' = q + os + blen payload' /\ take q rem' = take q rem /\
    take (os - isize l) (drop (q + isize l) rem') = take (os - isize l) (drop (q + isize l) rem).
  Proof.
    intros Hch Hroom q rem'.
    destruct (chain_zero_split l os al m a rem pos items p Hch) as (Hpc & Hz).
    destruct (chain_any_head _ _ _ _ _ _ _ _ _ Hz) as (Hal & _). fold q in Hal.
    set (d1 := take (q + os) rem ++ payload') in *.
    assert (Htk : blen (take (q + os) rem) = q + os) by (apply blen_take_le; exact Hroom).
    assert (Hd1 : blen d1 = q + os + blen payload') by (unfold d1; rewrite blen_app, Htk; reflexivity).
    assert (Hq1 : q + isize l <= blen d1) by lia.
    assert (Hb : blen rem' = blen d1) by (apply write_int_at_blen; exact Hq1).
    assert (Htq : take q rem' = take q rem).
    { unfold rem'. rewrite write_int_at_before by (auto; lia). unfold d1.
      rewrite take_app_le by lia. apply take_take. lia. }
    assert (Hhere : drop q rem' = to_bytes (ibe l) (isize l) m ++ drop (q + isize l) d1)
      by (apply write_int_at_here; lia).
    assert (Hpl : drop os (drop q rem') = payload').
    { rewrite drop_drop. unfold rem'. rewrite write_int_at_after by (auto; lia).
      unfold d1. apply drop_app_at. exact Htk. }
    assert (Hlast : chain l os al m (a + q) (drop q rem') p [(p, a + q + os, drop os (drop q rem'))] (EndLast p)).
    { apply ch_last; auto.
      - rewrite blen_drop. lia.
      - rewrite Hhere. apply Hmenc.
      - rewrite blen_drop. lia. }
    rewrite Hpl in Hlast.
    split; [|split; [lia|split; [exact Htq|]]].
    - apply (pchain_chain l os al m a rem' pos items p); [|exact Hlast].
      apply (pchain_local l os al m a rem pos items p Hlos Hpc). fold q.
      apply agree_of_take_eq; [lia|lia|exact Htq].
    - replace (drop (q + isize l) rem') with (drop (q + isize l) d1)
        by (symmetry; apply write_int_at_after; auto; lia).
      unfold d1. rewrite seg_app_l by lia. apply seg_take. lia.
  Qed.

  (* the chain ends in a marked item at p: it is sealed with the offset lo, the next slot is marked
     and the new payload follows it *)
  Lemma chain_push_last a rem pos items p lo payload' :
    0 < al -> 0 < ialign l -> al mod ialign l = 0 ->
    chain l os al m a rem pos items (EndLast p) ->
    lo <> 0 -> lo <> m -> os <= lo -> lo mod al = 0 ->
    (forall rest, read_len l (to_bytes (ibe l) (isize l) lo ++ rest) = Ok lo) ->
    p - pos + lo + os <= blen rem ->
    let q := p - pos in
    let rem' := write_int_at l q lo (write_int_at l (q + lo) m (take (q + lo + os) rem ++ payload')) in
    (exists pre, items = pre ++ [(p, a + q + os, drop (q + os) rem)] /\
       chain l os al m a rem' pos
         (pre ++ [(p, a + q + os, take (lo - os) (drop (q + os) rem)); (p + lo, a + q + lo + os, payload')])
         (EndLast (p + lo))) /\
    blen rem' = q + lo + os + blen payload' /\ take q rem' = take q rem /\
    take (lo - isize l) (drop (q + isize l) rem') = take (lo - isize l) (drop (q + isize l) rem).
  Proof.
    intros Hal0 Hil Hdiv Hch Hlo0 Hlom Holo Hlomod Hloenc Hroom q rem'.
    destruct (chain_last_split l os al m a rem pos items p Hch) as (pre & Hitems & Hpc & Hal & _).
    fold q in Hitems, Hal.
    set (d1 := take (q + lo + os) rem ++ payload') in *.
    set (r2 := write_int_at l (q + lo) m d1) in *.
    assert (Htk : blen (take (q + lo + os) rem) = q + lo + os) by (apply blen_take_le; exact Hroom).
    assert (Hd1 : blen d1 = q + lo + os + blen payload') by (unfold d1; rewrite blen_app, Htk; reflexivity).
    assert (Hq2 : q + lo + isize l <= blen d1) by lia.
    assert (Hb2 : blen r2 = blen d1) by (apply write_int_at_blen; exact Hq2).
    assert (Hq3 : q + isize l <= blen r2) by lia.
    assert (Hb : blen rem' = blen r2) by (apply write_int_at_blen; exact Hq3).
    assert (Htq : take q rem' = take q rem).
    { unfold rem'. rewrite write_int_at_before by (auto; lia). unfold r2.
      rewrite write_int_at_before by (auto; lia). unfold d1.
      rewrite take_app_le by lia. apply take_take. lia. }
    assert (Hhere : drop q rem' = to_bytes (ibe l) (isize l) lo ++ drop (q + isize l) r2)
      by (apply write_int_at_here; lia).
    assert (Hafter : forall k, q + isize l <= k -> drop k rem' = drop k r2)
      by (intros k Hk; apply write_int_at_after; auto).
    assert (Hhere2 : drop (q + lo) rem' = to_bytes (ibe l) (isize l) m ++ drop (q + lo + isize l) d1).
    { rewrite Hafter by lia. apply write_int_at_here. lia. }
    assert (Hpl : drop (q + lo + os) rem' = payload').
    { rewrite Hafter by lia. unfold r2. rewrite write_int_at_after by (auto; lia).
      unfold d1. apply drop_app_at. exact Htk. }
    assert (Hseg : forall x n, q + isize l <= x -> x + n <= q + lo ->
              take n (drop x rem') = take n (drop x rem)).
    { intros x n Hx Hn. rewrite Hafter by lia. unfold r2.
      rewrite write_int_at_seg_before by (auto; lia). unfold d1.
      rewrite seg_app_l by lia. apply seg_take. lia. }
    assert (Hold : drop os (take lo (drop q rem')) = take (lo - os) (drop (q + os) rem)).
    { rewrite <- (Hseg (q + os) (lo - os)) by lia.
      rewrite <- (drop_drop os q rem'). rewrite (take_drop_comm (lo - os) os (drop q rem')).
      replace (os + (lo - os)) with lo by lia. reflexivity. }
    assert (Hal2 : aligned (a + q + lo) (ialign l) = true).
    { unfold aligned in *. rewrite N.eqb_eq in *. apply mod_add_mult; auto.
      apply mod_trans with (m := al); auto. }
    assert (Hlast : chain l os al m (a + q + lo) (drop (q + lo) rem') (p + lo)
              [(p + lo, a + q + lo + os, drop os (drop (q + lo) rem'))] (EndLast (p + lo))).
    { apply ch_last; auto.
      - rewrite blen_drop. lia.
      - rewrite Hhere2. apply Hmenc.
      - rewrite blen_drop. lia. }
    rewrite (drop_drop os (q + lo) rem'), Hpl in Hlast.
    split; [|split; [lia|split; [exact Htq|]]].
    - exists pre. split; [exact Hitems|].
      apply (pchain_chain l os al m a rem' pos pre p).
      + apply (pchain_local l os al m a rem pos pre p Hlos Hpc). fold q.
        apply agree_of_take_eq; [lia|lia|exact Htq].
      + fold q. rewrite <- Hold. apply ch_next; auto.
        * rewrite blen_drop. lia.
        * rewrite Hhere. apply Hloenc.
        * rewrite blen_drop. lia.
        * rewrite (drop_drop lo q rem'). exact Hlast.
    - apply Hseg; lia.
  Qed.
End ChainPush.

(* ---------- the state of a valid image ---------- *)

Lemma firstn_app_exact {A} (xs ys : list A) : firstn (length xs) (xs ++ ys) = xs.
Proof. rewrite firstn_app, firstn_all, Nat.sub_diag. cbn [firstn]. apply app_nil_r. Qed.

Lemma Forall2_len {A B} (R : A -> B -> Prop) xs ys : Forall2 R xs ys -> length xs = length ys.
Proof. induction 1 as [|x y r r' Hxy Hr IH]; [reflexivity|]. cbn [length]. rewrite IH. reflexivity. Qed.

Lemma skipn_app_exact {A} (xs : list A) y ys : skipn (S (length xs)) (xs ++ y :: ys) = ys.
Proof. induction xs as [|x r IH]; [reflexivity|]. cbn [length app]. exact IH. Qed.

(* the list with its element number j replaced *)
Definition splice {A} (j : nat) (x : A) (xs : list A) : list A := firstn j xs ++ x :: skipn (S j) xs.

Lemma nth_error_splice {A} j (x : A) : forall xs k, (j < length xs)%nat ->
  nth_error (splice j x xs) k = if Nat.eqb k j then Some x else nth_error xs k.
Proof.
  induction j as [|j IH]; intros [|y ys] k Hlt; cbn [length] in Hlt; try lia.
  - destruct k; reflexivity.
  - change (splice (S j) x (y :: ys)) with (y :: splice j x ys).
    destruct k as [|k]; [reflexivity|]. cbn [nth_error Nat.eqb]. apply IH. lia.
Qed.

Section FlexOps.
  Variables (pv : option N) (et : ty) (l : intty) (a : N).
  Hypothesis Hw : wf (TFlex et l) = true.
  Hypothesis Hnar : narrow l = true.
  Local Notation t := (TFlex et l).
  Local Notation os := (flex_offset_size et l).
  Local Notation al := (align (TFlex et l)).
  Local Notation mx := (flex_max l).
  Local Notation views := (Forall2 (fun (x : flex_item) v => view et (snd x) = Ok v)).

  Lemma flex_max_eq : flex_max l = int_max l.
  Proof. unfold flex_max. rewrite to_usize_ok by (apply int_max_lt_two64; exact Hnar). reflexivity. Qed.

  Lemma not_nomax : nomax l -> False.
  Proof. intros [c Hc]. rewrite to_usize_ok in Hc by (apply int_max_lt_two64; exact Hnar). discriminate. Qed.

  Lemma not_nomax_items (items : list flex_item) : nomax l -> items = [].
  Proof. intros H. destruct (not_nomax H). Qed.

  (* the chain of a valid image, its items, their values *)
  Definition fstate (bs : bytes) (items : list flex_item) (e : flex_end) (vs : list value) : Prop :=
    chain l os al mx a (flex_data et l bs) 0 items e /\ Forall (item_ok et) items /\
    views items vs /\ check_align_min t a bs = Ok tt.

  Lemma valid_unpack bs : validate t a bs = Ok tt -> exists items e vs, fstate bs items e vs.
  Proof.
    intros Hv. destruct (validate_inv _ _ _ Hv) as (Hc & _ & Hu).
    destruct (flex_valid_chain et l a bs Hw Hu) as (items & e & Hch & Hok & _).
    pose proof Hw as Hw0. apply wf_flex_inv in Hw0. destruct Hw0 as [Hwt _].
    destruct (items_views et items (T1_of_wf et Hwt) Hok) as (vs & Hvs & _).
    exists items, e, vs. repeat split; auto.
  Qed.

  Lemma fstate_facts bs items e vs : fstate bs items e vs ->
    validate t a bs = Ok tt /\ view t bs = Ok (VNode 0 vs) /\
    size_m t bs = flex_size_spec et os al items e /\
    flex_chain l os al (flex_data et l bs) = Ok (map item_pl items, e).
  Proof.
    intros (Hch & Hok & Hvs & Hc). repeat split.
    - unfold validate. rewrite Hc. cbn [bind].
      apply (chain_flex_valid et l a bs items e Hw Hch Hok (not_nomax_items items)).
    - apply (flex_view_chain et l a bs items e vs Hw Hch (not_nomax_items items) Hvs).
    - apply (flex_size_chain et l a bs items e Hw Hch (not_nomax_items items)).
    - apply (flex_chain_spec et l a bs items e Hw Hch (not_nomax_items items)).
  Qed.

  (* the operations work on the floored data and put the rest back *)
  Lemma back_facts bs d' : check_align_min t a bs = Ok tt -> blen d' = blen (flex_data et l bs) ->
    let bs' := d' ++ drop (floor_mul (blen bs) al) bs in
    blen bs' = blen bs /\ flex_data et l bs' = d' /\ check_align_min t a bs' = Ok tt.
  Proof.
    intros Hc Hd bs'. destruct (flex_data_blen et l bs Hw) as (HF & HFle & _).
    assert (Hb : blen bs' = blen bs) by (unfold bs'; rewrite blen_app, blen_drop; lia).
    split; [exact Hb|]. split.
    - unfold flex_data. rewrite Hb, <- HF, <- Hd. apply take_app_exact.
    - apply (check_align_min_resize t a bs bs' Hc). rewrite Hb. eapply check_align_min_ok; eauto.
  Qed.

  Lemma fstate_back bs d' items' e' vs' : check_align_min t a bs = Ok tt -> blen d' = blen (flex_data et l bs) ->
    chain l os al mx a d' 0 items' e' -> Forall (item_ok et) items' -> views items' vs' ->
    fstate (d' ++ drop (floor_mul (blen bs) al) bs) items' e' vs'.
  Proof.
    intros Hc Hd Hch Hok Hvs. destruct (back_facts bs d' Hc Hd) as (_ & Hfd & Hc').
    unfold fstate. rewrite Hfd. auto.
  Qed.

  Lemma back_same bs : flex_data et l bs ++ drop (floor_mul (blen bs) al) bs = bs.
  Proof. apply take_drop. Qed.

  Lemma views_fun items vs vs' : views items vs -> views items vs' -> vs = vs'.
  Proof.
    intros H. revert vs'. induction H as [|x v r vs Hv Hr IH]; intros vs' H'; inversion H'; subst; [reflexivity|].
    f_equal; [congruence|]. apply IH. assumption.
  Qed.

  (* ---------- 2. truncate, clear, pop ---------- *)

  Lemma flex_truncate_eval k data items e :
    chain l os al mx a data 0 items e -> flex_chain l os al data = Ok (map item_pl items, e) ->
    flex_truncate l os al k data =
    (match nth_error items (N.to_nat k) with Some x => write_int_at l (item_pos x) 0 data | None => data end, ODone).
  Proof.
    intros Hch Hfc. unfold flex_truncate. destruct (N.eqb_spec k 0) as [Hk|Hk].
    - subst k. change (N.to_nat 0) with O. destruct items as [|x r]; cbn [nth_error].
      + destruct (chain_nil_head _ _ _ _ _ _ _ _ Hch) as (_ & _ & Hs & Hr).
        rewrite (read_len_zero_inv l data Hr Hs). reflexivity.
      + destruct (chain_head _ _ _ _ _ _ _ _ _ _ Hch) as (Hp & _). rewrite Hp. reflexivity.
    - rewrite Hfc. destruct (nth_error items (N.to_nat k)) as [x|] eqn:Hnth.
      + rewrite (map_nth_error item_pl _ _ Hnth). reflexivity.
      + apply nth_error_None in Hnth.
        assert (Hnone : nth_error (map item_pl items) (N.to_nat k) = None)
          by (apply nth_error_None; rewrite map_length; exact Hnth).
        rewrite Hnone. reflexivity.
  Qed.

  Lemma flex_op_truncate_eq k bs its fin : flex_chain l os al (flex_data et l bs) = Ok (its, fin) ->
    flex_op pv t a (FTruncate k) bs =
    (fst (flex_truncate l os al k (flex_data et l bs)) ++ drop (floor_mul (blen bs) al) bs,
     snd (flex_truncate l os al k (flex_data et l bs))).
  Proof. intros H. unfold flex_data in *. unfold flex_op. cbv zeta. rewrite H. reflexivity. Qed.

  Lemma truncate_state k bs items e vs : fstate bs items e vs ->
    let r := flex_op pv t a (FTruncate k) bs in
    snd r = ODone /\ blen (fst r) = blen bs /\
    (exists e', fstate (fst r) (firstn (N.to_nat k) items) e' (firstn (N.to_nat k) vs)) /\
    (N.of_nat (length vs) <= k -> fst r = bs) /\
    (fst r = bs \/
     exists p, p + isize l <= blen bs /\ fst r = write_int_at l p 0 bs /\ size_m t (fst r) = Ok (p + os)).
  Proof.
    intros Hst r. pose proof Hst as (Hch & Hok & Hvs & Hc).
    destruct (fstate_facts _ _ _ _ Hst) as (_ & _ & _ & Hfc).
    pose proof (flex_consts et l Hw) as (Hal & Hlos & _).
    destruct (flex_data_blen et l bs Hw) as (HF & HFle & _).
    pose proof (Forall2_len _ _ _ Hvs) as Hlen.
    unfold r. rewrite (flex_op_truncate_eq k bs _ _ Hfc).
    rewrite (flex_truncate_eval k _ items e Hch Hfc). cbn [fst snd].
    destruct (nth_error items (N.to_nat k)) as [x|] eqn:Hnth.
    - (* the slot of item k becomes the terminator *)
      destruct (nth_error_split _ _ Hnth) as (pre & suf & Hitems & Hpre).
      rewrite Hitems in Hch.
      destruct (chain_truncate l os al mx Hlos pre x suf a _ 0 e Hch) as (_ & Hq & Hch').
      rewrite N.sub_0_r in Hq, Hch'.
      set (d' := write_int_at l (item_pos x) 0 (flex_data et l bs)) in *.
      assert (Hd' : blen d' = blen (flex_data et l bs)) by (apply write_int_at_blen; exact Hq).
      destruct (back_facts bs d' Hc Hd') as (Hb & _ & _).
      rewrite Hitems in Hvs. apply Forall2_app_inv_l in Hvs. destruct Hvs as (vs1 & vs2 & Hvs1 & Hvs2 & Hvseq).
      assert (Hf1 : firstn (N.to_nat k) items = pre) by (rewrite Hitems, <- Hpre; apply firstn_app_exact).
      assert (Hf2 : firstn (N.to_nat k) vs = vs1).
      { rewrite Hvseq, <- Hpre, (Forall2_len _ _ _ Hvs1). apply firstn_app_exact. }
      rewrite Hf1, Hf2.
      assert (Hokpre : Forall (item_ok et) pre).
      { rewrite Hitems in Hok. apply Forall_app in Hok. tauto. }
      pose proof (fstate_back bs d' pre (EndZero (item_pos x)) vs1 Hc Hd' Hch' Hokpre Hvs1) as Hst'.
      split; [reflexivity|]. split; [exact Hb|]. split; [eauto|]. split.
      + intros Hk. exfalso.
        assert (Hlt : (N.to_nat k < length items)%nat) by (apply nth_error_Some; congruence). lia.
      + right. exists (item_pos x). split; [lia|]. split.
        * unfold d'. rewrite write_int_at_app by exact Hq. rewrite back_same. reflexivity.
        * destruct (fstate_facts _ _ _ _ Hst') as (_ & _ & Hsz & _). exact Hsz.
    - (* no such item: nothing is written *)
      apply nth_error_None in Hnth. rewrite back_same.
      rewrite (firstn_all2 items) by exact Hnth. rewrite (firstn_all2 vs) by lia.
      repeat split; eauto.
  Qed.

  (* FlexVec::truncate(k): the slot of item k (0-based) becomes the terminator; items 0..k-1 and
     their bytes stay; with k >= len nothing is written *)
  Theorem flex_truncate_ok k bs vs : validate t a bs = Ok tt -> view t bs = Ok (VNode 0 vs) ->
    let r := flex_op pv t a (FTruncate k) bs in
    snd r = ODone /\ blen (fst r) = blen bs /\ validate t a (fst r) = Ok tt /\
    view t (fst r) = Ok (VNode 0 (firstn (N.to_nat k) vs)) /\
    (N.of_nat (length vs) <= k -> fst r = bs) /\
    (fst r = bs \/
     exists p, p + isize l <= blen bs /\ fst r = write_int_at l p 0 bs /\ size_m t (fst r) = Ok (p + os)).
  Proof.
    intros Hv Hview r. destruct (valid_unpack bs Hv) as (items & e & vs0 & Hst).
    destruct (fstate_facts _ _ _ _ Hst) as (_ & Hview0 & _). rewrite Hview in Hview0. injection Hview0 as <-.
    destruct (truncate_state k bs items e vs Hst) as (Ho & Hb & (e' & Hst') & Hsame & Hframe).
    destruct (fstate_facts _ _ _ _ Hst') as (Hv' & Hview' & _).
    repeat split; auto.
  Qed.

  (* FlexVec::clear() = truncate(0): a zero is written into the first slot *)
  Theorem flex_clear_ok bs : validate t a bs = Ok tt ->
    let r := flex_op pv t a FClear bs in
    snd r = ODone /\ blen (fst r) = blen bs /\ validate t a (fst r) = Ok tt /\
    view t (fst r) = Ok (VNode 0 []) /\ size_m t (fst r) = Ok os /\
    fst r = write_int_at l 0 0 bs.
  Proof.
    intros Hv r. destruct (valid_unpack bs Hv) as (items & e & vs & Hst).
    destruct (fstate_facts _ _ _ _ Hst) as (_ & _ & _ & Hfc).
    destruct (truncate_state 0 bs items e vs Hst) as (Ho & Hb & (e' & Hst') & _ & _).
    destruct (fstate_facts _ _ _ _ Hst') as (Hv' & Hview' & Hsz' & _).
    change (flex_op pv t a (FTruncate 0) bs) with r in *.
    change (N.to_nat 0) with O in *. cbn [firstn] in *.
    pose proof Hst as (Hch & _). destruct (chain_any_head _ _ _ _ _ _ _ _ _ Hch) as (_ & Hs).
    pose proof Hst' as (Hch' & _). apply chain_nil_end in Hch'. subst e'.
    repeat split; auto.
    unfold r. change (flex_op pv t a FClear bs) with (flex_op pv t a (FTruncate 0) bs).
    rewrite (flex_op_truncate_eq 0 bs _ _ Hfc). cbn [fst snd].
    change (flex_truncate l os al 0 (flex_data et l bs)) with (write_int_at l 0 0 (flex_data et l bs), ODone).
    cbn [fst]. rewrite write_int_at_app by (rewrite N.add_0_l; exact Hs). rewrite back_same. reflexivity.
  Qed.

  Lemma flex_op_pop_eq bs its fin : flex_chain l os al (flex_data et l bs) = Ok (its, fin) ->
    flex_op pv t a FPop bs =
    if N.of_nat (length its) =? 0 then (bs, ORefused)
    else flex_op pv t a (FTruncate (N.of_nat (length its) - 1)) bs.
  Proof. intros H. unfold flex_data in *. unfold flex_op. cbv zeta. rewrite H. reflexivity. Qed.

  (* FlexVec::pop(): refused exactly on the empty vector (nothing changes); otherwise the last item
     is cut off by a zero written into its slot *)
  Theorem flex_pop_ok bs vs : validate t a bs = Ok tt -> view t bs = Ok (VNode 0 vs) ->
    let r := flex_op pv t a FPop bs in
    (vs = [] -> snd r = ORefused /\ fst r = bs) /\ (vs <> [] -> snd r = ODone) /\
    blen (fst r) = blen bs /\ validate t a (fst r) = Ok tt /\
    view t (fst r) = Ok (VNode 0 (removelast vs)) /\
    (fst r = bs \/
     exists p, p + isize l <= blen bs /\ fst r = write_int_at l p 0 bs /\ size_m t (fst r) = Ok (p + os)).
  Proof.
    intros Hv Hview r. destruct (valid_unpack bs Hv) as (items & e & vs0 & Hst).
    destruct (fstate_facts _ _ _ _ Hst) as (_ & Hview0 & _ & Hfc). rewrite Hview in Hview0. injection Hview0 as <-.
    pose proof Hst as (_ & _ & Hvs & _). pose proof (Forall2_len _ _ _ Hvs) as Hlen.
    unfold r. rewrite (flex_op_pop_eq bs _ _ Hfc). rewrite map_length, Hlen.
    destruct (N.eqb_spec (N.of_nat (length vs)) 0) as [Hz|Hz].
    - assert (vs = []) by (destruct vs; [reflexivity|cbn [length] in Hz; lia]). subst vs.
      cbn [fst snd removelast]. repeat split; auto. intros H; congruence.
    - destruct (flex_truncate_ok (N.of_nat (length vs) - 1) bs vs Hv Hview) as (Ho & Hb & Hv' & Hview' & _ & Hframe).
      replace (N.to_nat (N.of_nat (length vs) - 1)) with (Nat.pred (length vs)) in Hview' by lia.
      rewrite <- removelast_firstn_len in Hview'.
      split; [intros ->; cbn [length] in Hz; lia|]. repeat split; auto.
  Qed.

  (* ---------- 3. push ---------- *)

  Lemma mx_facts : mx <> 0 /\ os <= mx /\ mx < two64 /\ mx = 256 ^ isize l - 1 /\
    (forall v rest, v <= mx -> read_len l (to_bytes (ibe l) (isize l) v ++ rest) = Ok v).
  Proof.
    pose proof Hw as Hw0. apply wf_flex_inv in Hw0. destruct Hw0 as [Hwt Hl].
    pose proof (wf_int_P16 _ Hl) as [Hs _]. pose proof (align_P16 _ Hwt) as Hat.
    pose proof (wf_int_ialign_le _ Hl) as (_ & Hpos & _).
    assert (Hos16 : os <= 16).
    { assert (H : P16 os) by (apply P16_umax; auto). unfold P16 in H. lia. }
    assert (H256 : 256 ^ 1 <= 256 ^ isize l) by (apply pow256_mono; lia).
    rewrite N.pow_1_r in H256.
    pose proof (int_max_lt_two64 l Hnar) as Hlt.
    rewrite flex_max_eq. unfold int_max in *. repeat split; try lia.
    intros v rest Hv. unfold read_len. rewrite read_int_written by lia. cbn [bind].
    apply to_usize_ok. lia.
  Qed.

  Lemma back_take k bs d' : k <= blen d' -> blen d' = blen (flex_data et l bs) ->
    take k d' = take k (flex_data et l bs) ->
    take k (d' ++ drop (floor_mul (blen bs) al) bs) = take k bs.
  Proof.
    intros Hk Hb Heq. rewrite take_app_le by exact Hk. rewrite Heq.
    rewrite <- (back_same bs) at 2. rewrite take_app_le by lia. reflexivity.
  Qed.

  Lemma back_seg x n bs d' : x + n <= blen d' -> blen d' = blen (flex_data et l bs) ->
    take n (drop x d') = take n (drop x (flex_data et l bs)) ->
    take n (drop x (d' ++ drop (floor_mul (blen bs) al) bs)) = take n (drop x bs).
  Proof.
    intros Hk Hb Heq. rewrite seg_app_l by exact Hk. rewrite Heq.
    rewrite <- (back_same bs) at 2. rewrite seg_app_l by lia. reflexivity.
  Qed.

  Section Push.
    (* the emplacement theorems for the item type (C03 / C15), proved elsewhere; [okinit] is the
       class of emplacer expressions they are available for (everything: fun _ => True; every
       expression whose string literals are UTF-8: Proofs/FlexAllFacts.v) *)
    Variable okinit : init -> Prop.
    Hypothesis Hitem : forall i pa payload payload', okinit i -> init_ok et i = true ->
      emplace pv et i pa payload = (payload', Ok tt) ->
      blen payload' = blen payload /\ validate et pa payload' = Ok tt /\
      (exists v, view et payload' = Ok v /\ spec_value et i = Some (strip v)).
    Hypothesis Hitem_len : forall i pa payload, okinit i -> init_ok et i = true ->
      is_crash (snd (emplace pv et i pa payload)) = false ->
      blen (fst (emplace pv et i pa payload)) = blen payload.
    Hypothesis Hitem_nocrash : forall i pa payload, okinit i -> init_ok et i = true ->
      is_crash (snd (emplace pv et i pa payload)) = false.

    (* what the result of a push looks like, relative to the old state *)
    Definition push_post (i : init) (bs : bytes) (vs : list value) (k : N) (r : bytes * oout) : Prop :=
      blen (fst r) = blen bs /\
      match snd r with
      | ODone =>
          exists items' e' vs' v,
            fstate (fst r) items' e' (vs' ++ [v]) /\
            map strip vs' = map strip vs /\ removelast vs' = removelast vs /\
            spec_value et i = Some (strip v) /\
            exists p, p + isize l <= k /\ take p (fst r) = take p bs /\
              take (k - (p + isize l)) (drop (p + isize l) (fst r)) =
              take (k - (p + isize l)) (drop (p + isize l) bs)
      | OErr kd =>
          take k (fst r) = take k bs /\
          ((kd = InsufficientSize /\ fst r = bs) \/
           exists pa payload p, snd (emplace pv et i pa payload) = Err kd p)
      | _ => False
      end.

    (* the item emplacer ran on the payload behind the new slot at tp and failed or crashed *)
    Lemma push_emplace_err i bs vs k tp payload' kd p :
      okinit i -> init_ok et i = true -> k <= tp + os -> tp + os <= blen (flex_data et l bs) ->
      emplace pv et i (a + tp + os) (drop (tp + os) (flex_data et l bs)) = (payload', Err kd p) ->
      push_post i bs vs k
        ((take (tp + os) (flex_data et l bs) ++ payload') ++ drop (floor_mul (blen bs) al) bs, OErr kd).
    Proof.
      intros Hoki Hi Hk Hroom Hem. unfold push_post. cbn [fst snd].
      pose proof (Hitem_len i (a + tp + os) (drop (tp + os) (flex_data et l bs)) Hoki Hi (Hitem_nocrash _ _ _ Hoki Hi)) as Hlen.
      rewrite Hem in Hlen. cbn [fst] in Hlen. rewrite blen_drop in Hlen.
      destruct (flex_data_blen et l bs Hw) as (HF & HFle & _).
      assert (Htk : blen (take (tp + os) (flex_data et l bs)) = tp + os) by (apply blen_take_le; exact Hroom).
      assert (Hd : blen (take (tp + os) (flex_data et l bs) ++ payload') = blen (flex_data et l bs))
        by (rewrite blen_app, Htk, Hlen; lia).
      split; [|split].
      - rewrite blen_app, Hd, blen_drop. lia.
      - apply back_take; [lia|exact Hd|]. rewrite take_app_le by lia. apply take_take. exact Hk.
      - right. exists (a + tp + os), (drop (tp + os) (flex_data et l bs)), p. rewrite Hem. reflexivity.
    Qed.

    Lemma push_state i bs items e vs k : okinit i -> init_ok et i = true -> fstate bs items e vs -> size_m t bs = Ok k ->
      push_post i bs vs k (flex_op pv t a (FPush i) bs).
    Proof.
      intros Hoki Hi Hst Hk. pose proof Hst as (Hch & Hok & Hvs & Hc).
      destruct (fstate_facts _ _ _ _ Hst) as (Hv & Hview & Hsz & Hfc).
      pose proof (flex_consts et l Hw) as (Hal & Hlos & Hosm & Hdiv & Hos & Hil & Halt).
      destruct (flex_data_blen et l bs Hw) as (HF & HFle & HFmod).
      destruct mx_facts as (Hm0 & Hosmx & Hmx64 & Hmxeq & Henc).
      pose proof Hw as Hw0. apply wf_flex_inv in Hw0. destruct Hw0 as [Hwt Hl].
      destruct (valid_size_view t a bs Hw Hv) as (k0 & v0 & Hk0 & Hkb & Hkmod & Hkmin & _).
      rewrite Hk in Hk0. injection Hk0 as <-.
      assert (Hkn : k <= blen (flex_data et l bs)) by (rewrite HF; apply floor_mul_ge_mult; auto).
      rewrite Hk in Hsz.
      unfold flex_data in Hfc. unfold flex_op. cbv zeta. rewrite Hfc.
      change (take (floor_mul (blen bs) al) bs) with (flex_data et l bs).
      rewrite <- flex_max_eq.
      destruct e as [tp|pos]; cbv beta iota.
      - (* the chain ends in a zero slot at tp: the new slot goes there *)
        unfold flex_size_spec in Hsz. injection Hsz as Hsz.
        destruct (N.ltb_spec (floor_mul (blen bs) al) tp) as [Hx|_]; [lia|].
        destruct (N.ltb_spec (floor_mul (blen bs) al - tp) os) as [Hx|_]; [lia|].
        assert (Hroom : tp + os <= blen (flex_data et l bs)) by lia.
        destruct (emplace pv et i (a + tp + os) (drop (tp + os) (flex_data et l bs))) as [payload' [[]|kd p|c]] eqn:Hem.
        + (* emplaced *)
          cbn [fst snd].
          destruct (Hitem i _ _ _ Hoki Hi Hem) as (Hplen & Hpv & v & Hpview & Hspec).
          rewrite blen_drop in Hplen.
          destruct (chain_push_zero l os al mx Hlos Hm0 Hosmx (fun rest => Henc mx rest (N.le_refl _))
                      a (flex_data et l bs) 0 items tp payload' Hch) as (Hch' & Hb' & Htq & Hfr).
          { rewrite N.sub_0_r. exact Hroom. }
          rewrite N.sub_0_r in Hch', Hb', Htq, Hfr.
          set (d3 := write_int_at l tp mx (take (tp + os) (flex_data et l bs) ++ payload')) in *.
          assert (Hd3 : blen d3 = blen (flex_data et l bs)) by lia.
          destruct (validate_inv _ _ _ Hpv) as (Hpc & _ & Hpu).
          assert (Hok' : Forall (item_ok et) (items ++ [(tp, a + tp + os, payload')])).
          { apply Forall_app. split; [exact Hok|]. constructor; [|constructor]. split; assumption. }
          assert (Hvs' : views (items ++ [(tp, a + tp + os, payload')]) (vs ++ [v]))
            by (apply Forall2_views_app; assumption).
          pose proof (fstate_back bs d3 _ _ _ Hc Hd3 Hch' Hok' Hvs') as Hst'.
          destruct (back_facts bs d3 Hc Hd3) as (Hbb & _ & _).
          unfold push_post. cbn [fst snd]. split; [exact Hbb|].
          exists (items ++ [(tp, a + tp + os, payload')]), (EndLast tp), vs, v.
          split; [exact Hst'|]. split; [reflexivity|]. split; [reflexivity|]. split; [exact Hspec|].
          exists tp. split; [lia|]. split.
          * apply back_take; [lia|exact Hd3|exact Htq].
          * replace (k - (tp + isize l)) with (os - isize l) by lia.
            apply back_seg; [lia|exact Hd3|exact Hfr].
        + (* the item emplacer failed *)
          cbn [fst snd]. apply (push_emplace_err i bs vs k tp payload' kd p Hoki Hi); auto. lia.
        + pose proof (Hitem_nocrash i (a + tp + os) (drop (tp + os) (flex_data et l bs)) Hoki Hi) as Hnc.
          rewrite Hem in Hnc. discriminate.
      - (* the chain ends in a marked item at pos: it is sealed, the new slot follows its content *)
        assert (Hrefuse : push_post i bs vs k (bs, OErr InsufficientSize)).
        { unfold push_post. cbn [fst snd]. split; [reflexivity|]. split; [reflexivity|]. left. auto. }
        destruct (chain_last_split l os al mx a _ 0 items pos Hch) as (pre & Hitems & _ & _ & Hroom0).
        rewrite N.sub_0_r in Hitems, Hroom0.
        set (oldp := drop (pos + os) (flex_data et l bs)) in *.
        unfold flex_size_spec in Hsz. rewrite Hitems, last_last in Hsz. cbn [snd] in Hsz.
        symmetry in Hsz. apply bind_ok_inv in Hsz. destruct Hsz as (sz & Hszp & Hsz). injection Hsz as Hsz.
        change (umax (ialign l) (align et)) with al in Hsz.
        rewrite Hszp. set (lo := os + ceil_mul sz al) in *.
        assert (Hlo : lo = os + ceil_mul sz al) by reflexivity.
        unfold from_usize. rewrite <- flex_max_eq.
        destruct (N.leb_spec lo mx) as [Hle|_]; [|exact Hrefuse].
        destruct (N.ltb_spec lo mx) as [Hlt|_]; [|exact Hrefuse].
        cbv beta iota.
        destruct (N.ltb_spec (floor_mul (blen bs) al) (pos + lo)) as [Hx|_]; [lia|].
        destruct (N.ltb_spec (floor_mul (blen bs) al - (pos + lo)) os) as [_|Hge]; [exact Hrefuse|].
        assert (Hroom : pos + lo + os <= blen (flex_data et l bs)) by lia.
        destruct (emplace pv et i (a + (pos + lo) + os) (drop (pos + lo + os) (flex_data et l bs)))
          as [payload' [[]|kd p|c]] eqn:Hem.
        + (* emplaced *)
          cbn [fst snd].
          destruct (Hitem i _ _ _ Hoki Hi Hem) as (Hplen & Hpv & v & Hpview & Hspec).
          rewrite blen_drop in Hplen.
          replace (a + (pos + lo) + os) with (a + pos + lo + os) in Hpv by lia.
          assert (Hlomod : lo mod al = 0) by (apply mod_add_mult; auto; apply ceil_mul_mod; auto).
          destruct (chain_push_last l os al mx Hlos Hm0 Hosmx (fun rest => Henc mx rest (N.le_refl _))
                      a (flex_data et l bs) 0 items pos lo payload' Hal Hil Hdiv Hch)
            as ((pre' & Hitems' & Hch') & Hb' & Htq & Hfr); try lia.
          { intros rest. apply Henc. lia. }
          rewrite N.sub_0_r in Hitems', Hch', Hb', Htq, Hfr. fold oldp in Hitems', Hch'.
          rewrite Hitems in Hitems'. apply app_inj_tail in Hitems'. destruct Hitems' as [<- _].
          set (d3 := write_int_at l pos lo (write_int_at l (pos + lo) mx
                       (take (pos + lo + os) (flex_data et l bs) ++ payload'))) in *.
          assert (Hd3 : blen d3 = blen (flex_data et l bs)) by lia.
          (* the old last item on its shortened payload *)
          rewrite Hitems in Hok. apply Forall_app in Hok. destruct Hok as [Hokpre Hoklast].
          inversion Hoklast as [|x r' [Hcl Hvl] _]; subst x r'. cbn [fst snd] in Hcl, Hvl.
          pose proof (check_align_min_ok _ _ _ Hcl) as Hml.
          destruct (T1_size et _ oldp sz Hwt Hml Hvl Hszp) as (Hszb & _ & Hszmin).
          pose proof (ceil_mul_ge sz al Hal) as Hceil.
          assert (Hcb : lo - os <= blen oldp) by (unfold oldp; rewrite blen_drop; lia).
          destruct (valid_local_u et (a + pos + os) oldp (take (lo - os) oldp) sz Hwt Hml Hvl Hszp)
            as (Hvl' & _ & vo & vo' & Hvo & Hvo' & Hstrip).
          { rewrite blen_take_le by exact Hcb. lia. }
          { apply take_take. lia. }
          destruct (validate_inv _ _ _ Hpv) as (Hpc & _ & Hpu).
          assert (Hok' : Forall (item_ok et)
                    (pre ++ [(pos, a + pos + os, take (lo - os) oldp); (pos + lo, a + pos + lo + os, payload')])).
          { apply Forall_app. split; [exact Hokpre|]. constructor; [|constructor; [|constructor]].
            - split; cbn [fst snd]; [|exact Hvl'].
              apply (check_align_min_resize et _ oldp _ Hcl). rewrite blen_take_le by exact Hcb. lia.
            - split; assumption. }
          rewrite Hitems in Hvs. apply Forall2_app_inv_l in Hvs. destruct Hvs as (vs1 & vs2 & Hvs1 & Hvs2 & Hvseq).
          inversion Hvs2 as [|x y r r' Hxy Hr]; subst x r vs2. inversion Hr; subst r'. cbn [snd] in Hxy.
          rewrite Hvo in Hxy. injection Hxy as <-.
          assert (Hvs' : views (pre ++ [(pos, a + pos + os, take (lo - os) oldp); (pos + lo, a + pos + lo + os, payload')])
                           ((vs1 ++ [vo']) ++ [v])).
          { rewrite <- app_assoc. cbn [app]. apply Forall2_app; [exact Hvs1|].
            constructor; [exact Hvo'|]. constructor; [exact Hpview|constructor]. }
          pose proof (fstate_back bs d3 _ _ _ Hc Hd3 Hch' Hok' Hvs') as Hst'.
          destruct (back_facts bs d3 Hc Hd3) as (Hbb & _ & _).
          unfold push_post. cbn [fst snd]. split; [exact Hbb|].
          eexists _, (EndLast (pos + lo)), (vs1 ++ [vo']), v.
          split; [exact Hst'|]. split; [|split; [|split; [exact Hspec|]]].
          * rewrite Hvseq, !map_app. cbn [map]. rewrite Hstrip. reflexivity.
          * rewrite Hvseq, !removelast_last. reflexivity.
          * exists pos. split; [lia|]. split.
            -- apply back_take; [lia|exact Hd3|exact Htq].
            -- replace (k - (pos + isize l)) with (lo - isize l) by lia.
               apply back_seg; [lia|exact Hd3|exact Hfr].
        + (* the item emplacer failed *)
          cbn [fst snd]. replace (a + (pos + lo) + os) with (a + (pos + lo) + os) in Hem by lia.
          apply (push_emplace_err i bs vs k (pos + lo) payload' kd p Hoki Hi); auto. lia.
        + pose proof (Hitem_nocrash i (a + (pos + lo) + os) (drop (pos + lo + os) (flex_data et l bs)) Hoki Hi) as Hnc.
          rewrite Hem in Hnc. discriminate.
    Qed.

    (* FlexVec::push(i) on a valid image.  Never a panic.  Either it succeeds: the result is valid,
       its items are the old ones (the previous last item now reports the capacity of its shortened
       room, hence equality of contents) followed by the specified new one, and of the first size()
       bytes only the slot the old chain ended in is rewritten.  Or it reports an error (no room for
       the slot, offset not representable, or the item emplacer's own error): the result is valid
       with the same size(), the same contents and the same first size() bytes. *)
    Theorem flex_push_ok_g i bs vs k : okinit i -> init_ok et i = true ->
      validate t a bs = Ok tt -> view t bs = Ok (VNode 0 vs) -> size_m t bs = Ok k ->
      let r := flex_op pv t a (FPush i) bs in
      blen (fst r) = blen bs /\ validate t a (fst r) = Ok tt /\
      ((snd r = ODone /\
        exists vs' v, view t (fst r) = Ok (VNode 0 (vs' ++ [v])) /\
          map strip vs' = map strip vs /\ removelast vs' = removelast vs /\
          spec_value et i = Some (strip v) /\
          exists p, p + isize l <= k /\ take p (fst r) = take p bs /\
            take (k - (p + isize l)) (drop (p + isize l) (fst r)) =
            take (k - (p + isize l)) (drop (p + isize l) bs))
       \/
       (exists kd, snd r = OErr kd /\
          ((kd = InsufficientSize /\ fst r = bs) \/
           exists pa payload p, snd (emplace pv et i pa payload) = Err kd p) /\
          take k (fst r) = take k bs /\ size_m t (fst r) = Ok k /\
          exists vs', view t (fst r) = Ok (VNode 0 vs') /\ map strip vs' = map strip vs)).
    Proof.
      intros Hoki Hi Hv Hview Hk r. destruct (valid_unpack bs Hv) as (items & e & vs0 & Hst).
      destruct (fstate_facts _ _ _ _ Hst) as (_ & Hview0 & _). rewrite Hview in Hview0. injection Hview0 as <-.
      pose proof (push_state i bs items e vs k Hoki Hi Hst Hk) as Hpost. fold r in Hpost.
      destruct Hpost as (Hb & Hpost). split; [exact Hb|].
      destruct (snd r) as [| |kd| |] eqn:Ho; try contradiction.
      - destruct Hpost as (items' & e' & vs' & v & Hst' & Hstrip & Hrl & Hspec & Hframe).
        destruct (fstate_facts _ _ _ _ Hst') as (Hv' & Hview' & _).
        split; [exact Hv'|]. left. split; [reflexivity|]. exists vs', v. auto.
      - destruct Hpost as (Htk & Hwhy).
        destruct (valid_size_view t a bs Hw Hv) as (k0 & v0 & Hk0 & Hkb & _).
        rewrite Hk in Hk0. injection Hk0 as <-.
        destruct (valid_local t a bs (fst r) k Hw Hv Hk ltac:(lia) Htk) as (Hv' & Hk' & v1 & v1' & Hv1 & Hv1' & Hstrip).
        split; [exact Hv'|]. right. exists kd. split; [reflexivity|]. split; [exact Hwhy|].
        split; [exact Htk|]. split; [exact Hk'|].
        destruct (valid_unpack (fst r) Hv') as (items' & e' & vs' & Hst').
        destruct (fstate_facts _ _ _ _ Hst') as (_ & Hview' & _).
        exists vs'. split; [exact Hview'|].
        rewrite Hview in Hv1. injection Hv1 as <-. rewrite Hview' in Hv1'. injection Hv1' as <-.
        cbn [strip] in Hstrip. injection Hstrip as Hstrip. exact Hstrip.
    Qed.

    (* ---------- 4. histories of push / pop / truncate / clear ---------- *)

    Definition simple_op (op : fop) : Prop :=
      match op with
      | FPush i => init_ok et i = true
      | FPop | FTruncate _ | FClear => True
      | _ => False
      end.

    (* the same, every pushed expression in the class [okinit] *)
    Definition simple_op_g (op : fop) : Prop :=
      simple_op op /\ match op with FPush i => okinit i | _ => True end.

    (* the list operation on the contents; a push appends the specified content exactly when the
       implementation reports success and leaves the list as it is when it reports an error *)
    Definition flex_spec_step (xs : list value) (op : fop) (o : oout) : list value :=
      match op with
      | FPop => removelast xs
      | FTruncate n => firstn (N.to_nat n) xs
      | FClear => []
      | FPush i => match o, spec_value et i with ODone, Some v => xs ++ [v] | _, _ => xs end
      | _ => xs
      end.

    (* the outcomes the list model allows *)
    Definition flex_spec_out (xs : list value) (op : fop) (o : oout) : Prop :=
      match op with
      | FPop => o = match xs with [] => ORefused | _ :: _ => ODone end
      | FTruncate _ | FClear => o = ODone
      | FPush _ => o = ODone \/ exists kd, o = OErr kd
      | _ => True
      end.

    Fixpoint flex_run (ops : list fop) (bs : bytes) : bytes * list oout :=
      match ops with
      | [] => (bs, [])
      | op :: r =>
          let s := flex_op pv t a op bs in
          let s' := flex_run r (fst s) in (fst s', snd s :: snd s')
      end.

    Fixpoint flex_spec_run (ops : list fop) (outs : list oout) (xs : list value) : list value :=
      match ops, outs with
      | op :: r, o :: outs' => flex_spec_run r outs' (flex_spec_step xs op o)
      | _, _ => xs
      end.

    Fixpoint flex_spec_outs (ops : list fop) (outs : list oout) (xs : list value) : Prop :=
      match ops, outs with
      | op :: r, o :: outs' => flex_spec_out xs op o /\ flex_spec_outs r outs' (flex_spec_step xs op o)
      | [], [] => True
      | _, _ => False
      end.

    Lemma map_removelast {A B} (f : A -> B) xs : map f (removelast xs) = removelast (map f xs).
    Proof.
      induction xs as [|x r IH]; [reflexivity|]. destruct r as [|y r']; [reflexivity|].
      cbn [removelast map] in *. rewrite IH. reflexivity.
    Qed.

    Lemma flex_op_step_g op bs vs : simple_op_g op ->
      validate t a bs = Ok tt -> view t bs = Ok (VNode 0 vs) ->
      let r := flex_op pv t a op bs in
      blen (fst r) = blen bs /\ validate t a (fst r) = Ok tt /\
      exists vs', view t (fst r) = Ok (VNode 0 vs') /\
        map strip vs' = flex_spec_step (map strip vs) op (snd r) /\
        flex_spec_out (map strip vs) op (snd r).
    Proof.
      intros [Hop Hoki] Hv Hview r. destruct op as [i| |n| |j vo|j x]; cbn [simple_op] in Hop; try contradiction.
      - destruct (valid_size_view t a bs Hw Hv) as (k & v0 & Hk & _).
        destruct (flex_push_ok_g i bs vs k Hoki Hop Hv Hview Hk) as (Hb & Hv' & Hcases). fold r in Hb, Hv', Hcases.
        split; [exact Hb|]. split; [exact Hv'|].
        destruct Hcases as [(Ho & vs' & v & Hview' & Hstrip & _ & Hspec & _)|(kd & Ho & _ & _ & _ & vs' & Hview' & Hstrip)].
        + exists (vs' ++ [v]). split; [exact Hview'|]. rewrite Ho. cbn [flex_spec_step flex_spec_out].
          rewrite Hspec, map_app, Hstrip. cbn [map]. auto.
        + exists vs'. split; [exact Hview'|]. rewrite Ho. cbn [flex_spec_step flex_spec_out]. split; [exact Hstrip|eauto].
      - destruct (flex_pop_ok bs vs Hv Hview) as (He & Hne & Hb & Hv' & Hview' & _). fold r in He, Hne, Hb, Hv', Hview'.
        split; [exact Hb|]. split; [exact Hv'|]. exists (removelast vs). split; [exact Hview'|].
        cbn [flex_spec_step flex_spec_out]. split; [apply map_removelast|].
        destruct vs as [|v vs0]; cbn [map]; [apply He; reflexivity|apply Hne; discriminate].
      - destruct (flex_truncate_ok n bs vs Hv Hview) as (Ho & Hb & Hv' & Hview' & _). fold r in Ho, Hb, Hv', Hview'.
        split; [exact Hb|]. split; [exact Hv'|]. exists (firstn (N.to_nat n) vs). split; [exact Hview'|].
        cbn [flex_spec_step flex_spec_out]. split; [symmetry; apply firstn_map|exact Ho].
      - destruct (flex_clear_ok bs Hv) as (Ho & Hb & Hv' & Hview' & _). fold r in Ho, Hb, Hv', Hview'.
        split; [exact Hb|]. split; [exact Hv'|]. exists []. split; [exact Hview'|].
        cbn [flex_spec_step flex_spec_out map]. auto.
    Qed.

    (* every finite history of push / pop / truncate / clear from a valid image: the image stays
       valid and keeps its length, its contents are those of the list model, the reported outcomes
       are those the list model allows *)
    Theorem flex_op_history_g ops : forall bs vs, Forall simple_op_g ops ->
      validate t a bs = Ok tt -> view t bs = Ok (VNode 0 vs) ->
      let r := flex_run ops bs in
      blen (fst r) = blen bs /\ validate t a (fst r) = Ok tt /\
      exists vs', view t (fst r) = Ok (VNode 0 vs') /\
        map strip vs' = flex_spec_run ops (snd r) (map strip vs) /\
        flex_spec_outs ops (snd r) (map strip vs).
    Proof.
      induction ops as [|op ops IH]; intros bs vs Hops Hv Hview.
      - cbn [flex_run flex_spec_run flex_spec_outs fst snd]. repeat split; auto. exists vs. auto.
      - inversion Hops as [|x r' Hop Hops']; subst x r'.
        destruct (flex_op_step_g op bs vs Hop Hv Hview) as (Hb & Hv' & vs' & Hview' & Hstrip & Hout).
        destruct (IH _ vs' Hops' Hv' Hview') as (Hb2 & Hv2 & vs2 & Hview2 & Hstrip2 & Houts2).
        cbn [flex_run]. cbv zeta. cbn [fst snd flex_spec_run flex_spec_outs].
        split; [lia|]. split; [exact Hv2|]. exists vs2. split; [exact Hview2|].
        rewrite <- Hstrip. split; [exact Hstrip2|]. split; [exact Hout|exact Houts2].
    Qed.
  End Push.

  (* the same with the premises available for every well-typed expression *)
  Section PushPlain.
    Hypothesis Hitem : forall i pa payload payload', init_ok et i = true ->
      emplace pv et i pa payload = (payload', Ok tt) ->
      blen payload' = blen payload /\ validate et pa payload' = Ok tt /\
      (exists v, view et payload' = Ok v /\ spec_value et i = Some (strip v)).
    Hypothesis Hitem_len : forall i pa payload, init_ok et i = true ->
      is_crash (snd (emplace pv et i pa payload)) = false ->
      blen (fst (emplace pv et i pa payload)) = blen payload.
    Hypothesis Hitem_nocrash : forall i pa payload, init_ok et i = true ->
      is_crash (snd (emplace pv et i pa payload)) = false.

    Theorem flex_push_ok i bs vs k : init_ok et i = true ->
      validate t a bs = Ok tt -> view t bs = Ok (VNode 0 vs) -> size_m t bs = Ok k ->
      let r := flex_op pv t a (FPush i) bs in
      blen (fst r) = blen bs /\ validate t a (fst r) = Ok tt /\
      ((snd r = ODone /\
        exists vs' v, view t (fst r) = Ok (VNode 0 (vs' ++ [v])) /\
          map strip vs' = map strip vs /\ removelast vs' = removelast vs /\
          spec_value et i = Some (strip v) /\
          exists p, p + isize l <= k /\ take p (fst r) = take p bs /\
            take (k - (p + isize l)) (drop (p + isize l) (fst r)) =
            take (k - (p + isize l)) (drop (p + isize l) bs))
       \/
       (exists kd, snd r = OErr kd /\
          ((kd = InsufficientSize /\ fst r = bs) \/
           exists pa payload p, snd (emplace pv et i pa payload) = Err kd p) /\
          take k (fst r) = take k bs /\ size_m t (fst r) = Ok k /\
          exists vs', view t (fst r) = Ok (VNode 0 vs') /\ map strip vs' = map strip vs)).
    Proof.
      intros Hi. apply (flex_push_ok_g (fun _ => True)); auto.
    Qed.

    Theorem flex_op_history ops : forall bs vs, Forall simple_op ops ->
      validate t a bs = Ok tt -> view t bs = Ok (VNode 0 vs) ->
      let r := flex_run ops bs in
      blen (fst r) = blen bs /\ validate t a (fst r) = Ok tt /\
      exists vs', view t (fst r) = Ok (VNode 0 vs') /\
        map strip vs' = flex_spec_run ops (snd r) (map strip vs) /\
        flex_spec_outs ops (snd r) (map strip vs).
    Proof.
      intros bs vs Hops. apply (flex_op_history_g (fun _ => True)); auto.
      apply Forall_forall. intros op Hin. rewrite Forall_forall in Hops. split; [apply Hops; exact Hin|].
      destruct op; exact I.
    Qed.
  End PushPlain.

  (* ---------- 5. editing one item in place ---------- *)

  Lemma edit_state j bs items e vs p pa pl :
    fstate bs items e vs -> nth_error items j = Some (p, pa, pl) ->
    pa = a + p + os /\ p + os + blen pl <= blen (flex_data et l bs) /\
    pl = take (blen pl) (drop (p + os) (flex_data et l bs)) /\
    (exists v, nth_error vs j = Some v /\ view et pl = Ok v) /\ validate et pa pl = Ok tt /\
    forall np v', blen np = blen pl -> validate et pa np = Ok tt -> view et np = Ok v' ->
      let bs' := (take (p + os) (flex_data et l bs) ++ np ++ drop (p + os + blen pl) (flex_data et l bs))
                 ++ drop (floor_mul (blen bs) al) bs in
      blen bs' = blen bs /\ fstate bs' (splice j (p, pa, np) items) e (splice j v' vs).
  Proof.
    intros (Hch & Hok & Hvs & Hc) Hnth.
    pose proof (flex_consts et l Hw) as (Hal & Hlos & _).
    destruct (nth_error_split _ _ Hnth) as (pre & suf & Hitems & Hpre).
    rewrite Hitems in Hch, Hok, Hvs.
    destruct (chain_edit l os al mx Hlos pre p pa pl suf a _ 0 e pl Hch eq_refl) as (_ & Hpa & Hroom & Hpl & _).
    rewrite N.sub_0_r in Hpa, Hroom, Hpl.
    apply Forall_app in Hok. destruct Hok as [Hokpre Hoksuf].
    inversion Hoksuf as [|x r' [Hcl Hvl] Hoksuf']; subst x r'. cbn [fst snd] in Hcl, Hvl.
    apply Forall2_app_inv_l in Hvs. destruct Hvs as (vs1 & vs2 & Hvs1 & Hvs2 & Hvseq).
    inversion Hvs2 as [|x v r vs3 Hxv Hvs3]; subst x r vs2. cbn [snd] in Hxv.
    pose proof (Forall2_len _ _ _ Hvs1) as Hlen1.
    split; [exact Hpa|]. split; [exact Hroom|]. split; [exact Hpl|]. split; [|split].
    - exists v. split; [|exact Hxv]. rewrite Hvseq, nth_error_app2 by lia.
      replace (j - length vs1)%nat with O by lia. reflexivity.
    - unfold validate. rewrite Hcl. cbn [bind]. exact Hvl.
    - intros np v' Hnp Hvnp Hview' bs'.
      destruct (chain_edit l os al mx Hlos pre p pa pl suf a _ 0 e np Hch Hnp) as (_ & _ & _ & _ & Hch').
      rewrite N.sub_0_r in Hch'.
      set (d' := take (p + os) (flex_data et l bs) ++ np ++ drop (p + os + blen pl) (flex_data et l bs)) in *.
      assert (Hd' : blen d' = blen (flex_data et l bs)).
      { unfold d'. rewrite !blen_app, blen_take_le, blen_drop, Hnp by lia. lia. }
      destruct (validate_inv _ _ _ Hvnp) as (Hnc & _ & Hnu).
      assert (Hs1 : splice j (p, pa, np) items = pre ++ (p, pa, np) :: suf).
      { unfold splice. rewrite Hitems, <- Hpre, firstn_app_exact, skipn_app_exact. reflexivity. }
      assert (Hs2 : splice j v' vs = vs1 ++ v' :: vs3).
      { unfold splice. rewrite Hvseq, <- Hpre, Hlen1, firstn_app_exact, skipn_app_exact. reflexivity. }
      rewrite Hs1, Hs2. destruct (back_facts bs d' Hc Hd') as (Hbb & _ & _).
      split; [exact Hbb|]. apply fstate_back; auto.
      + apply Forall_app. split; [exact Hokpre|]. constructor; [split; assumption|exact Hoksuf'].
      + apply Forall2_app; [exact Hvs1|]. constructor; [exact Hview'|exact Hvs3].
  Qed.

  Section Edit.
    (* the item-level operation: from the payload's address and bytes to the new bytes and the
       reported outcome; how flex_op runs it on item j *)
    Variables (f : N -> bytes -> bytes * oout) (op : fop) (j : N).
    Hypothesis Hop : forall bs its fin, flex_chain l os al (flex_data et l bs) = Ok (its, fin) ->
      flex_op pv t a op bs =
      match nth_error its (N.to_nat j) with
      | Some (pos, plen) =>
          let r := f (a + pos + os) (take plen (drop (pos + os) (flex_data et l bs))) in
          ((take (pos + os) (flex_data et l bs) ++ fst r ++ drop (pos + os + plen) (flex_data et l bs))
             ++ drop (floor_mul (blen bs) al) bs, snd r)
      | None => (bs, OPanic)
      end.
    (* it maps a valid payload to a valid payload of the same length *)
    Hypothesis Hf : forall pa pl, validate et pa pl = Ok tt ->
      blen (fst (f pa pl)) = blen pl /\ validate et pa (fst (f pa pl)) = Ok tt.

    Theorem flex_edit_ok bs vs : validate t a bs = Ok tt -> view t bs = Ok (VNode 0 vs) ->
      let r := flex_op pv t a op bs in
      (nth_error vs (N.to_nat j) = None -> r = (bs, OPanic)) /\
      (forall v, nth_error vs (N.to_nat j) = Some v ->
         exists pa pl v', validate et pa pl = Ok tt /\ view et pl = Ok v /\
           snd r = snd (f pa pl) /\ view et (fst (f pa pl)) = Ok v' /\
           blen (fst r) = blen bs /\ validate t a (fst r) = Ok tt /\
           view t (fst r) = Ok (VNode 0 (splice (N.to_nat j) v' vs))).
    Proof.
      intros Hv Hview r. destruct (valid_unpack bs Hv) as (items & e & vs0 & Hst).
      destruct (fstate_facts _ _ _ _ Hst) as (_ & Hview0 & _ & Hfc). rewrite Hview in Hview0. injection Hview0 as <-.
      pose proof Hst as (_ & _ & Hvs & _). pose proof (Forall2_len _ _ _ Hvs) as Hlen.
      pose proof Hw as Hw0. apply wf_flex_inv in Hw0. destruct Hw0 as [Hwt _].
      unfold r. rewrite (Hop bs _ _ Hfc). split.
      - intros Hnone. apply nth_error_None in Hnone.
        assert (Hn2 : nth_error (map item_pl items) (N.to_nat j) = None)
          by (apply nth_error_None; rewrite map_length; lia).
        rewrite Hn2. reflexivity.
      - intros v Hsome.
        destruct (nth_error items (N.to_nat j)) as [[[p pa] pl]|] eqn:Hnth.
        2:{ apply nth_error_None in Hnth. assert (Hs : nth_error vs (N.to_nat j) <> None) by congruence.
            apply nth_error_Some in Hs. lia. }
        rewrite (map_nth_error item_pl _ _ Hnth). unfold item_pl. cbn [item_pos fst snd]. cbv zeta.
        destruct (edit_state _ bs items e vs p pa pl Hst Hnth) as (Hpa & Hroom & Hpl & (v1 & Hv1 & Hviewpl) & Hvpl & Hnew).
        rewrite Hsome in Hv1. injection Hv1 as <-.
        rewrite <- Hpl, <- Hpa.
        destruct (Hf pa pl Hvpl) as (Hfl & Hfv).
        destruct (valid_size_view et pa _ Hwt Hfv) as (k' & v' & _ & _ & _ & _ & Hview' & _).
        destruct (Hnew _ v' Hfl Hfv Hview') as (Hbb & Hst').
        destruct (fstate_facts _ _ _ _ Hst') as (Hv2 & Hview2 & _).
        exists pa, pl, v'. cbn [fst snd]. repeat split; auto.
    Qed.
  End Edit.

  (* the same when the item-level operation keeps the payload valid only for the outcomes in [good]
     (e.g. a successful assignment): the slice always keeps its length and reports the item-level
     outcome; validity and the new contents are claimed for the good outcomes *)
  Section EditG.
    Variables (f : N -> bytes -> bytes * oout) (op : fop) (j : N) (good : oout -> Prop).
    Hypothesis Hop : forall bs its fin, flex_chain l os al (flex_data et l bs) = Ok (its, fin) ->
      flex_op pv t a op bs =
      match nth_error its (N.to_nat j) with
      | Some (pos, plen) =>
          let r := f (a + pos + os) (take plen (drop (pos + os) (flex_data et l bs))) in
          ((take (pos + os) (flex_data et l bs) ++ fst r ++ drop (pos + os + plen) (flex_data et l bs))
             ++ drop (floor_mul (blen bs) al) bs, snd r)
      | None => (bs, OPanic)
      end.
    Hypothesis Hf : forall pa pl, validate et pa pl = Ok tt ->
      blen (fst (f pa pl)) = blen pl /\ (good (snd (f pa pl)) -> validate et pa (fst (f pa pl)) = Ok tt).

    Theorem flex_edit_ok_g bs vs : validate t a bs = Ok tt -> view t bs = Ok (VNode 0 vs) ->
      let r := flex_op pv t a op bs in
      (nth_error vs (N.to_nat j) = None -> r = (bs, OPanic)) /\
      (forall v, nth_error vs (N.to_nat j) = Some v ->
         exists pa pl, validate et pa pl = Ok tt /\ view et pl = Ok v /\
           snd r = snd (f pa pl) /\ blen (fst r) = blen bs /\
           (good (snd (f pa pl)) ->
            exists v', view et (fst (f pa pl)) = Ok v' /\ validate t a (fst r) = Ok tt /\
              view t (fst r) = Ok (VNode 0 (splice (N.to_nat j) v' vs)))).
    Proof.
      intros Hv Hview r. destruct (valid_unpack bs Hv) as (items & e & vs0 & Hst).
      destruct (fstate_facts _ _ _ _ Hst) as (_ & Hview0 & _ & Hfc). rewrite Hview in Hview0. injection Hview0 as <-.
      pose proof Hst as (_ & _ & Hvs & Hc). pose proof (Forall2_len _ _ _ Hvs) as Hlen.
      pose proof Hw as Hw0. apply wf_flex_inv in Hw0. destruct Hw0 as [Hwt _].
      unfold r. rewrite (Hop bs _ _ Hfc). split.
      - intros Hnone. apply nth_error_None in Hnone.
        assert (Hn2 : nth_error (map item_pl items) (N.to_nat j) = None)
          by (apply nth_error_None; rewrite map_length; lia).
        rewrite Hn2. reflexivity.
      - intros v Hsome.
        destruct (nth_error items (N.to_nat j)) as [[[p pa] pl]|] eqn:Hnth.
        2:{ apply nth_error_None in Hnth. assert (Hs : nth_error vs (N.to_nat j) <> None) by congruence.
            apply nth_error_Some in Hs. lia. }
        rewrite (map_nth_error item_pl _ _ Hnth). unfold item_pl. cbn [item_pos fst snd]. cbv zeta.
        destruct (edit_state _ bs items e vs p pa pl Hst Hnth) as (Hpa & Hroom & Hpl & (v1 & Hv1 & Hviewpl) & Hvpl & Hnew).
        rewrite Hsome in Hv1. injection Hv1 as <-.
        rewrite <- Hpl, <- Hpa.
        destruct (Hf pa pl Hvpl) as (Hfl & Hfv).
        exists pa, pl. cbn [fst snd]. split; [exact Hvpl|]. split; [exact Hviewpl|]. split; [reflexivity|]. split.
        + set (d' := take (p + os) (flex_data et l bs) ++ fst (f pa pl) ++ drop (p + os + blen pl) (flex_data et l bs)).
          assert (Hd' : blen d' = blen (flex_data et l bs)).
          { unfold d'. rewrite !blen_app, blen_take_le, blen_drop, Hfl by lia. lia. }
          exact (proj1 (back_facts bs d' Hc Hd')).
        + intros Hg. specialize (Hfv Hg).
          destruct (valid_size_view et pa _ Hwt Hfv) as (k' & v' & _ & _ & _ & _ & Hview' & _).
          destruct (Hnew _ v' Hfl Hfv Hview') as (Hbb & Hst').
          destruct (fstate_facts _ _ _ _ Hst') as (Hv2 & Hview2 & _).
          exists v'. auto.
    Qed.
  End EditG.

  (* iter_mut().nth(j) then a FlatVec / FlatString operation on the item *)
  Theorem flex_edit_vec_ok j vo bs vs :
    (forall pa pl, validate et pa pl = Ok tt ->
       blen (fst (vec_op pv et vo pl)) = blen pl /\ validate et pa (fst (vec_op pv et vo pl)) = Ok tt) ->
    validate t a bs = Ok tt -> view t bs = Ok (VNode 0 vs) ->
    let r := flex_op pv t a (FEditVec j vo) bs in
    (nth_error vs (N.to_nat j) = None -> r = (bs, OPanic)) /\
    (forall v, nth_error vs (N.to_nat j) = Some v ->
       exists pa pl v', validate et pa pl = Ok tt /\ view et pl = Ok v /\
         snd r = snd (vec_op pv et vo pl) /\ view et (fst (vec_op pv et vo pl)) = Ok v' /\
         blen (fst r) = blen bs /\ validate t a (fst r) = Ok tt /\
         view t (fst r) = Ok (VNode 0 (splice (N.to_nat j) v' vs))).
  Proof.
    intros Hf. apply (flex_edit_ok (fun _ pl => vec_op pv et vo pl) (FEditVec j vo) j); [|exact Hf].
    intros bs0 its fin H. unfold flex_data in *. unfold flex_op. cbv zeta. rewrite H.
    destruct (nth_error its (N.to_nat j)) as [[pos plen]|]; reflexivity.
  Qed.

  Definition assign_out (r : eres) : oout :=
    match snd r with Ok _ => ODone | Err k _ => OErr k | Crash _ => OPanic end.

  (* iter_mut().nth(j) then assign_in_place on the item *)
  Theorem flex_edit_assign_ok j x bs vs :
    (forall pa pl, validate et pa pl = Ok tt ->
       blen (fst (assign_in_place pv et x pa pl)) = blen pl /\
       validate et pa (fst (assign_in_place pv et x pa pl)) = Ok tt) ->
    validate t a bs = Ok tt -> view t bs = Ok (VNode 0 vs) ->
    let r := flex_op pv t a (FEditAssign j x) bs in
    (nth_error vs (N.to_nat j) = None -> r = (bs, OPanic)) /\
    (forall v, nth_error vs (N.to_nat j) = Some v ->
       exists pa pl v', validate et pa pl = Ok tt /\ view et pl = Ok v /\
         snd r = assign_out (assign_in_place pv et x pa pl) /\
         view et (fst (assign_in_place pv et x pa pl)) = Ok v' /\
         blen (fst r) = blen bs /\ validate t a (fst r) = Ok tt /\
         view t (fst r) = Ok (VNode 0 (splice (N.to_nat j) v' vs))).
  Proof.
    intros Hf.
    apply (flex_edit_ok (fun pa pl => (fst (assign_in_place pv et x pa pl), assign_out (assign_in_place pv et x pa pl)))
             (FEditAssign j x) j); [|exact Hf].
    intros bs0 its fin H. unfold flex_data in *. unfold flex_op. cbv zeta. rewrite H.
    destruct (nth_error its (N.to_nat j)) as [[pos plen]|]; reflexivity.
  Qed.

  (* iter_mut().nth(j) then assign_in_place on the item, the premise only for the assignment that
     succeeds: a failed assignment still keeps the slice length and is reported *)
  Theorem flex_edit_assign_done j x bs vs :
    (forall pa pl, validate et pa pl = Ok tt ->
       blen (fst (assign_in_place pv et x pa pl)) = blen pl /\
       (snd (assign_in_place pv et x pa pl) = Ok tt ->
        validate et pa (fst (assign_in_place pv et x pa pl)) = Ok tt)) ->
    validate t a bs = Ok tt -> view t bs = Ok (VNode 0 vs) ->
    let r := flex_op pv t a (FEditAssign j x) bs in
    (nth_error vs (N.to_nat j) = None -> r = (bs, OPanic)) /\
    (forall v, nth_error vs (N.to_nat j) = Some v ->
       exists pa pl, validate et pa pl = Ok tt /\ view et pl = Ok v /\
         snd r = assign_out (assign_in_place pv et x pa pl) /\ blen (fst r) = blen bs /\
         (snd (assign_in_place pv et x pa pl) = Ok tt ->
          exists v', view et (fst (assign_in_place pv et x pa pl)) = Ok v' /\
            validate t a (fst r) = Ok tt /\
            view t (fst r) = Ok (VNode 0 (splice (N.to_nat j) v' vs)))).
  Proof.
    intros Hf Hv Hview r.
    assert (Hout : forall rr : eres, assign_out rr = ODone <-> snd rr = Ok tt).
    { intros [b [[]|k p|c]]; unfold assign_out; cbn [snd]; split; intros H; try reflexivity; discriminate. }
    set (f := fun pa pl => (fst (assign_in_place pv et x pa pl), assign_out (assign_in_place pv et x pa pl))).
    assert (Hop' : forall bs0 its fin, flex_chain l os al (flex_data et l bs0) = Ok (its, fin) ->
      flex_op pv t a (FEditAssign j x) bs0 =
      match nth_error its (N.to_nat j) with
      | Some (pos, plen) =>
          let r := f (a + pos + os) (take plen (drop (pos + os) (flex_data et l bs0))) in
          ((take (pos + os) (flex_data et l bs0) ++ fst r ++ drop (pos + os + plen) (flex_data et l bs0))
             ++ drop (floor_mul (blen bs0) al) bs0, snd r)
      | None => (bs0, OPanic)
      end).
    { intros bs0 its fin H. unfold flex_data in *. unfold flex_op. cbv zeta. rewrite H.
      destruct (nth_error its (N.to_nat j)) as [[pos plen]|]; reflexivity. }
    assert (Hf' : forall pa pl, validate et pa pl = Ok tt ->
      blen (fst (f pa pl)) = blen pl /\ (snd (f pa pl) = ODone -> validate et pa (fst (f pa pl)) = Ok tt)).
    { intros pa pl Hvp. unfold f. cbn [fst snd]. destruct (Hf pa pl Hvp) as [A B].
      split; [exact A|]. intros Hg. apply B. apply Hout. exact Hg. }
    destruct (flex_edit_ok_g f (FEditAssign j x) j (fun o => o = ODone) Hop' Hf' bs vs Hv Hview) as [H1 H2].
    split; [exact H1|]. intros v Hs. destruct (H2 v Hs) as (pa & pl & A & B & C & D & E).
    exists pa, pl. unfold f in C, E. cbn [fst snd] in C, E.
    split; [exact A|]. split; [exact B|]. split; [exact C|]. split; [exact D|].
    intros Hok. apply E. apply Hout. exact Hok.
  Qed.

  (* ---------- C13: two valid images that agree on their first size() bytes ---------- *)

  (* where truncate writes *)
  Lemma truncate_where n bs items e vs : fstate bs items e vs ->
    let r := flex_op pv t a (FTruncate n) bs in
    match nth_error items (N.to_nat n) with
    | Some x =>
        item_pos x + isize l <= blen bs /\ fst r = write_int_at l (item_pos x) 0 bs /\
        size_m t (fst r) = Ok (item_pos x + os) /\
        (forall k0, size_m t bs = Ok k0 -> item_pos x + os <= k0)
    | None => fst r = bs
    end.
  Proof.
    intros Hst r. pose proof Hst as (Hch & Hok & Hvs & Hc).
    destruct (fstate_facts _ _ _ _ Hst) as (_ & _ & Hsz & Hfc).
    pose proof (flex_consts et l Hw) as (Hal & Hlos & _).
    destruct (flex_data_blen et l bs Hw) as (HF & HFle & _).
    unfold r. rewrite (flex_op_truncate_eq n bs _ _ Hfc).
    rewrite (flex_truncate_eval n _ items e Hch Hfc). cbn [fst snd].
    destruct (nth_error items (N.to_nat n)) as [x|] eqn:Hnth; [|apply back_same].
    destruct (nth_error_split _ _ Hnth) as (pre & suf & Hitems & Hpre).
    rewrite Hitems in Hch.
    destruct (chain_truncate l os al mx Hlos pre x suf a _ 0 e Hch) as (_ & Hq & Hch').
    pose proof (chain_item_le _ _ _ _ _ _ _ _ _ _ _ Hch) as Hle.
    rewrite N.sub_0_r in Hq, Hch'.
    set (d' := write_int_at l (item_pos x) 0 (flex_data et l bs)) in *.
    assert (Hd' : blen d' = blen (flex_data et l bs)) by (apply write_int_at_blen; exact Hq).
    rewrite Hitems in Hvs. apply Forall2_app_inv_l in Hvs. destruct Hvs as (vs1 & vs2 & Hvs1 & Hvs2 & Hvseq).
    assert (Hokpre : Forall (item_ok et) pre).
    { rewrite Hitems in Hok. apply Forall_app in Hok. tauto. }
    pose proof (fstate_back bs d' pre (EndZero (item_pos x)) vs1 Hc Hd' Hch' Hokpre Hvs1) as Hst'.
    split; [lia|]. split; [|split].
    - unfold d'. rewrite write_int_at_app by exact Hq. rewrite back_same. reflexivity.
    - destruct (fstate_facts _ _ _ _ Hst') as (_ & _ & Hsz' & _). exact Hsz'.
    - intros k0 Hk0. rewrite Hk0 in Hsz. destruct e as [pe|pe]; cbn [end_pos] in Hle; unfold flex_size_spec in Hsz.
      + injection Hsz as ->. lia.
      + symmetry in Hsz. apply bind_ok_inv in Hsz. destruct Hsz as (sz & _ & Hsz). injection Hsz as <-. lia.
  Qed.

  Definition frel (k : N) (bs1 bs2 : bytes) : Prop :=
    validate t a bs1 = Ok tt /\ size_m t bs1 = Ok k /\ blen bs2 = blen bs1 /\ take k bs2 = take k bs1.

  Lemma frel_valid k bs1 bs2 : frel k bs1 bs2 ->
    validate t a bs2 = Ok tt /\ size_m t bs2 = Ok k /\ k <= blen bs1 /\ k mod al = 0 /\
    exists vs1 vs2, view t bs1 = Ok (VNode 0 vs1) /\ view t bs2 = Ok (VNode 0 vs2) /\
      map strip vs2 = map strip vs1.
  Proof.
    intros (Hv & Hk & Hb & Htk).
    destruct (valid_size_view t a bs1 Hw Hv) as (k0 & v0 & Hk0 & Hkb & Hkmod & _).
    rewrite Hk in Hk0. injection Hk0 as <-.
    destruct (valid_local t a bs1 bs2 k Hw Hv Hk ltac:(lia) Htk) as (Hv2 & Hk2 & v1 & v2 & Hv1 & Hv2' & Hstrip).
    split; [exact Hv2|]. split; [exact Hk2|]. split; [exact Hkb|]. split; [exact Hkmod|].
    destruct (valid_unpack bs1 Hv) as (i1 & e1 & vs1 & Hst1).
    destruct (valid_unpack bs2 Hv2) as (i2 & e2 & vs2 & Hst2).
    destruct (fstate_facts _ _ _ _ Hst1) as (_ & Hview1 & _).
    destruct (fstate_facts _ _ _ _ Hst2) as (_ & Hview2 & _).
    exists vs1, vs2. split; [exact Hview1|]. split; [exact Hview2|].
    rewrite Hview1 in Hv1. injection Hv1 as <-. rewrite Hview2 in Hv2'. injection Hv2' as <-.
    cbn [strip] in Hstrip. injection Hstrip as Hstrip. exact Hstrip.
  Qed.

  (* the two chains have their slots at the same positions *)
  Lemma frel_pos k bs1 bs2 items1 e1 vs1 items2 e2 vs2 : frel k bs1 bs2 ->
    fstate bs1 items1 e1 vs1 -> fstate bs2 items2 e2 vs2 ->
    e2 = e1 /\ map item_pos items2 = map item_pos items1.
  Proof.
    intros Hrel Hst1 Hst2. destruct (frel_valid _ _ _ Hrel) as (_ & _ & Hkb & Hkmod & _).
    destruct Hrel as (Hv & Hk & Hb & Htk).
    pose proof (flex_consts et l Hw) as (Hal & Hlos & _).
    pose proof Hst1 as (Hch1 & _). pose proof Hst2 as (Hch2 & _).
    destruct (fstate_facts _ _ _ _ Hst1) as (_ & _ & Hsz1 & _).
    destruct (fstate_facts _ _ _ _ Hst2) as (_ & _ & _ & Hfc2).
    rewrite Hk in Hsz1.
    assert (Hag : agree k (flex_data et l bs1) (flex_data et l bs2)).
    { apply flex_data_agree; auto. apply agree_of_take_eq; [lia|lia|exact Htk]. }
    pose proof (chain_local l os al mx a _ 0 items1 e1 Hlos Hch1 _ k Hag) as Hloc.
    destruct e1 as [p|p]; cbn [end_pos end_slot] in Hloc; unfold flex_size_spec in Hsz1.
    - injection Hsz1 as Hsz1. specialize (Hloc ltac:(lia)).
      rewrite (flex_chain_spec et l a bs2 items1 (EndZero p) Hw Hloc (not_nomax_items items1)) in Hfc2.
      injection Hfc2 as Hits He. split; [auto|].
      rewrite !map_item_pos, Hits. reflexivity.
    - symmetry in Hsz1. apply bind_ok_inv in Hsz1. destruct Hsz1 as (sz & _ & Hsz1). injection Hsz1 as Hsz1.
      specialize (Hloc ltac:(lia)). destruct Hloc as (pre & pa & Hitems1 & Hloc).
      rewrite (flex_chain_spec et l a bs2 _ (EndLast p) Hw Hloc (not_nomax_items _)) in Hfc2.
      injection Hfc2 as Hits He. split; [auto|].
      rewrite (map_item_pos items2), <- Hits, <- map_item_pos.
      rewrite Hitems1, !map_app. reflexivity.
  Qed.

  Lemma write_zero_take k' p bs : p + isize l <= k' -> k' <= blen bs ->
    take k' (write_int_at l p 0 bs) = write_int_at l p 0 (take k' bs).
  Proof.
    intros Hp Hk. assert (Hb : blen (take k' bs) = k') by (apply blen_take_le; exact Hk).
    rewrite <- (take_drop k' bs) at 1. rewrite <- write_int_at_app by lia.
    apply take_app_at. rewrite write_int_at_blen by lia. exact Hb.
  Qed.

  Lemma truncate_same n k bs1 bs2 : frel k bs1 bs2 ->
    let r1 := flex_op pv t a (FTruncate n) bs1 in
    let r2 := flex_op pv t a (FTruncate n) bs2 in
    snd r2 = snd r1 /\ exists k', frel k' (fst r1) (fst r2).
  Proof.
    intros Hrel r1 r2. destruct (frel_valid _ _ _ Hrel) as (Hv2 & Hk2 & Hkb & _ & _).
    pose proof Hrel as (Hv1 & Hk1 & Hb & Htk).
    pose proof (flex_consts et l Hw) as (Hal & Hlos & _).
    destruct (valid_unpack bs1 Hv1) as (items1 & e1 & vs1 & Hst1).
    destruct (valid_unpack bs2 Hv2) as (items2 & e2 & vs2 & Hst2).
    destruct (frel_pos _ _ _ _ _ _ _ _ _ Hrel Hst1 Hst2) as (_ & Hpos).
    destruct (truncate_state n bs1 items1 e1 vs1 Hst1) as (Ho1 & Hb1 & (e1' & Hst1') & _ & _).
    destruct (truncate_state n bs2 items2 e2 vs2 Hst2) as (Ho2 & Hb2 & _ & _ & _).
    fold r1 in Ho1, Hb1, Hst1'. fold r2 in Ho2, Hb2.
    split; [rewrite Ho1, Ho2; reflexivity|].
    pose proof (truncate_where n bs1 items1 e1 vs1 Hst1) as Hw1.
    pose proof (truncate_where n bs2 items2 e2 vs2 Hst2) as Hw2.
    fold r1 in Hw1. fold r2 in Hw2.
    pose proof (f_equal (fun xs => nth_error xs (N.to_nat n)) Hpos) as Hnth. cbv beta in Hnth.
    rewrite !nth_error_map_opt in Hnth.
    destruct (fstate_facts _ _ _ _ Hst1') as (Hv1' & _).
    destruct (nth_error items1 (N.to_nat n)) as [x1|]; destruct (nth_error items2 (N.to_nat n)) as [x2|];
      cbn [option_map] in Hnth; try discriminate.
    - injection Hnth as Hp. destruct Hw1 as (Hq1 & Hr1 & Hs1 & Hle1). destruct Hw2 as (Hq2 & Hr2 & _ & _).
      specialize (Hle1 k Hk1). rewrite Hp in *.
      exists (item_pos x1 + os). split; [exact Hv1'|]. split; [exact Hs1|]. split; [lia|].
      rewrite Hr1, Hr2. rewrite !write_zero_take by lia.
      rewrite <- (take_take (item_pos x1 + os) k bs2), <- (take_take (item_pos x1 + os) k bs1) by lia.
      rewrite Htk. reflexivity.
    - exists k. rewrite Hw1, Hw2. exact Hrel.
  Qed.

  Definition shrink_op (op : fop) : Prop :=
    match op with FPop | FTruncate _ | FClear => True | _ => False end.

  Lemma shrink_same op k bs1 bs2 : shrink_op op -> frel k bs1 bs2 ->
    snd (flex_op pv t a op bs2) = snd (flex_op pv t a op bs1) /\
    exists k', frel k' (fst (flex_op pv t a op bs1)) (fst (flex_op pv t a op bs2)).
  Proof.
    intros Hop Hrel. destruct op as [i| |n| |j vo|j x]; cbn [shrink_op] in Hop; try contradiction.
    - (* pop *)
      destruct (frel_valid _ _ _ Hrel) as (Hv2 & _). pose proof Hrel as (Hv1 & _).
      destruct (valid_unpack bs1 Hv1) as (items1 & e1 & vs1 & Hst1).
      destruct (valid_unpack bs2 Hv2) as (items2 & e2 & vs2 & Hst2).
      destruct (frel_pos _ _ _ _ _ _ _ _ _ Hrel Hst1 Hst2) as (_ & Hpos).
      destruct (fstate_facts _ _ _ _ Hst1) as (_ & _ & _ & Hfc1).
      destruct (fstate_facts _ _ _ _ Hst2) as (_ & _ & _ & Hfc2).
      rewrite (flex_op_pop_eq bs1 _ _ Hfc1), (flex_op_pop_eq bs2 _ _ Hfc2). rewrite !map_length.
      assert (Hlen : length items2 = length items1).
      { rewrite <- (map_length item_pos items2), Hpos. apply map_length. }
      rewrite Hlen. destruct (N.of_nat (length items1) =? 0).
      + cbn [fst snd]. split; [reflexivity|]. exists k. exact Hrel.
      + apply (truncate_same _ k bs1 bs2 Hrel).
    - apply (truncate_same _ k bs1 bs2 Hrel).
    - change (flex_op pv t a FClear bs1) with (flex_op pv t a (FTruncate 0) bs1).
      change (flex_op pv t a FClear bs2) with (flex_op pv t a (FTruncate 0) bs2).
      apply (truncate_same _ k bs1 bs2 Hrel).
  Qed.

  (* the outcomes of pop / truncate / clear are functions of the first size() bytes (and the length
     of the slice): from two valid images that agree there, every history of these operations
     reports the same outcomes and ends in two images that again agree on their first size() bytes *)
  Theorem flex_then_same ops : forall k bs1 bs2, Forall shrink_op ops -> frel k bs1 bs2 ->
    snd (flex_run ops bs2) = snd (flex_run ops bs1) /\
    exists k', frel k' (fst (flex_run ops bs1)) (fst (flex_run ops bs2)).
  Proof.
    induction ops as [|op ops IH]; intros k bs1 bs2 Hops Hrel.
    - cbn [flex_run fst snd]. split; [reflexivity|]. exists k. exact Hrel.
    - inversion Hops as [|x r' Hop Hops']; subst x r'.
      destruct (shrink_same op k bs1 bs2 Hop Hrel) as (Ho & k1 & Hrel1).
      destruct (IH k1 _ _ Hops' Hrel1) as (Hos & k2 & Hrel2).
      cbn [flex_run]. cbv zeta. cbn [fst snd]. rewrite Ho, Hos. split; [reflexivity|]. exists k2. exact Hrel2.
  Qed.
End FlexOps.

(* ---------- the hypotheses on the item emplacer hold for every sized item type ---------- *)

Section SizedItems.
  Variables (pv : option N) (et : ty).
  Hypothesis Hwt : wf et = true.
  Hypothesis Hsz : sized et = true.

  Lemma sized_item_cases i pa payload : init_ok et i = true ->
    emplace pv et i pa payload = (payload, Err BadAlign 0) \/
    emplace pv et i pa payload = (payload, Err InsufficientSize 0) \/
    (snd (emplace pv et i pa payload) = Ok tt /\ validate et pa (fst (emplace pv et i pa payload)) = Ok tt /\
     (exists v, view et (fst (emplace pv et i pa payload)) = Ok v /\ spec_value et i = Some (strip v)) /\
     blen (fst (emplace pv et i pa payload)) = blen payload).
  Proof.
    intros Hi. destruct (sized_emplace_ok et i Hwt Hsz Hi pv pa payload) as (H1 & H2 & H3).
    destruct (aligned pa (align et)) eqn:Ha.
    - destruct (N.ltb_spec (blen payload) (ssize et)) as [Hlt|Hge].
      + right. left. apply H2; auto.
      + right. right. destruct (H3 eq_refl Hge) as (A & B & C & D & _). auto.
    - left. apply H1. reflexivity.
  Qed.

  Lemma sized_item_ok : forall i pa payload payload', init_ok et i = true ->
    emplace pv et i pa payload = (payload', Ok tt) ->
    blen payload' = blen payload /\ validate et pa payload' = Ok tt /\
    (exists v, view et payload' = Ok v /\ spec_value et i = Some (strip v)).
  Proof.
    intros i pa payload payload' Hi Hem.
    destruct (sized_item_cases i pa payload Hi) as [H|[H|(A & B & C & D)]]; try (rewrite H in Hem; discriminate).
    rewrite Hem in *. cbn [fst snd] in *. auto.
  Qed.

  Lemma sized_item_len : forall i pa payload, init_ok et i = true ->
    is_crash (snd (emplace pv et i pa payload)) = false ->
    blen (fst (emplace pv et i pa payload)) = blen payload.
  Proof.
    intros i pa payload Hi _.
    destruct (sized_item_cases i pa payload Hi) as [H|[H|(A & B & C & D)]]; try (rewrite H; reflexivity). exact D.
  Qed.

  Lemma sized_item_nocrash : forall i pa payload, init_ok et i = true ->
    is_crash (snd (emplace pv et i pa payload)) = false.
  Proof.
    intros i pa payload Hi.
    destruct (sized_item_cases i pa payload Hi) as [H|[H|(A & B & C & D)]]; try (rewrite H; reflexivity).
    rewrite A. reflexivity.
  Qed.
End SizedItems.

(* ---------- C13 for FlexVec::push ---------- *)

Section PushRejected.
  Variables (pv : option N) (et : ty) (l : intty) (a : N).
  Hypothesis Hw : wf (TFlex et l) = true.
  Hypothesis Hnar : narrow l = true.
  Variable okinit : init -> Prop.
  Hypothesis Hitem : forall i pa payload payload', okinit i -> init_ok et i = true ->
    emplace pv et i pa payload = (payload', Ok tt) ->
    blen payload' = blen payload /\ validate et pa payload' = Ok tt /\
    (exists v, view et payload' = Ok v /\ spec_value et i = Some (strip v)).
  Hypothesis Hitem_len : forall i pa payload, okinit i -> init_ok et i = true ->
    is_crash (snd (emplace pv et i pa payload)) = false ->
    blen (fst (emplace pv et i pa payload)) = blen payload.
  Hypothesis Hitem_nocrash : forall i pa payload, okinit i -> init_ok et i = true ->
    is_crash (snd (emplace pv et i pa payload)) = false.
  Local Notation t := (TFlex et l).

  (* a push that reports an error leaves validity, contents, len(), size(), the length of the slice
     and the first size() bytes as they were *)
  Theorem flex_push_rejected_g i bs vs k kd : okinit i -> init_ok et i = true ->
    validate t a bs = Ok tt -> view t bs = Ok (VNode 0 vs) -> size_m t bs = Ok k ->
    snd (flex_op pv t a (FPush i) bs) = OErr kd ->
    let bs' := fst (flex_op pv t a (FPush i) bs) in
    blen bs' = blen bs /\ validate t a bs' = Ok tt /\ size_m t bs' = Ok k /\ take k bs' = take k bs /\
    exists vs', view t bs' = Ok (VNode 0 vs') /\ map strip vs' = map strip vs /\ length vs' = length vs.
  Proof.
    intros Hoki Hi Hv Hview Hk Ho bs'.
    destruct (flex_push_ok_g pv et l a Hw Hnar okinit Hitem Hitem_len Hitem_nocrash i bs vs k Hoki Hi Hv Hview Hk)
      as (Hb & Hv' & [(Ho' & _)|(kd' & _ & _ & Htk & Hk' & vs' & Hview' & Hstrip)]).
    - rewrite Ho in Ho'. discriminate.
    - fold bs' in Hb, Hv', Htk, Hk', Hview'. repeat split; auto. exists vs'. repeat split; auto.
      rewrite <- (map_length strip vs'), Hstrip. apply map_length.
  Qed.

  (* a push reports completion or an error, nothing else *)
  Theorem flex_push_outcomes_g i bs : okinit i -> init_ok et i = true -> validate t a bs = Ok tt ->
    snd (flex_op pv t a (FPush i) bs) = ODone \/ exists kd, snd (flex_op pv t a (FPush i) bs) = OErr kd.
  Proof.
    intros Hoki Hi Hv. destruct (valid_size_view t a bs Hw Hv) as (k & v0 & Hk & _).
    destruct (valid_unpack et l a Hw bs Hv) as (items & e & vs & Hst).
    destruct (fstate_facts et l a Hw Hnar _ _ _ _ Hst) as (_ & Hview & _).
    destruct (flex_push_ok_g pv et l a Hw Hnar okinit Hitem Hitem_len Hitem_nocrash i bs vs k Hoki Hi Hv Hview Hk)
      as (_ & _ & [(Ho' & _)|(kd' & Ho' & _)]); eauto.
  Qed.

  (* after a push that reported an error every later history of pop / truncate / clear reports what
     it would have reported had the push not been attempted, and ends in a state with the same
     validity, size() and contents *)
  Theorem flex_push_rejected_then_same_g i bs kd ops : okinit i -> init_ok et i = true ->
    validate t a bs = Ok tt -> snd (flex_op pv t a (FPush i) bs) = OErr kd ->
    Forall shrink_op ops ->
    let bs' := fst (flex_op pv t a (FPush i) bs) in
    let r := flex_run pv et l a ops bs in
    let r' := flex_run pv et l a ops bs' in
    snd r' = snd r /\ blen (fst r') = blen (fst r) /\
    validate t a (fst r) = Ok tt /\ validate t a (fst r') = Ok tt /\
    size_m t (fst r') = size_m t (fst r) /\
    exists vs1 vs2, view t (fst r) = Ok (VNode 0 vs1) /\ view t (fst r') = Ok (VNode 0 vs2) /\
      map strip vs2 = map strip vs1.
  Proof.
    intros Hoki Hi Hv Ho Hops bs' r r'.
    destruct (valid_size_view t a bs Hw Hv) as (k & v0 & Hk & _).
    destruct (valid_unpack et l a Hw bs Hv) as (items & e & vs & Hst).
    destruct (fstate_facts et l a Hw Hnar _ _ _ _ Hst) as (_ & Hview & _).
    destruct (flex_push_rejected_g i bs vs k kd Hoki Hi Hv Hview Hk Ho) as (Hb & _ & _ & Htk & _). fold bs' in Hb, Htk.
    assert (Hrel : frel et l a k bs bs') by (repeat split; auto).
    destruct (flex_then_same pv et l a Hw Hnar ops k bs bs' Hops Hrel) as (Hos & k' & Hrel').
    fold r in Hos, Hrel'. fold r' in Hos, Hrel'.
    destruct (frel_valid et l a Hw Hnar _ _ _ Hrel') as (Hv2 & Hk2 & _ & _ & Hviews).
    destruct Hrel' as (Hv1 & Hk1 & Hb' & _).
    split; [exact Hos|]. split; [exact Hb'|]. split; [exact Hv1|]. split; [exact Hv2|].
    split; [rewrite Hk1, Hk2; reflexivity|exact Hviews].
  Qed.
End PushRejected.

(* the same with the premises available for every well-typed expression *)
Section PushRejectedPlain.
  Variables (pv : option N) (et : ty) (l : intty) (a : N).
  Hypothesis Hw : wf (TFlex et l) = true.
  Hypothesis Hnar : narrow l = true.
  Hypothesis Hitem : forall i pa payload payload', init_ok et i = true ->
    emplace pv et i pa payload = (payload', Ok tt) ->
    blen payload' = blen payload /\ validate et pa payload' = Ok tt /\
    (exists v, view et payload' = Ok v /\ spec_value et i = Some (strip v)).
  Hypothesis Hitem_len : forall i pa payload, init_ok et i = true ->
    is_crash (snd (emplace pv et i pa payload)) = false ->
    blen (fst (emplace pv et i pa payload)) = blen payload.
  Hypothesis Hitem_nocrash : forall i pa payload, init_ok et i = true ->
    is_crash (snd (emplace pv et i pa payload)) = false.
  Local Notation t := (TFlex et l).

  Theorem flex_push_rejected i bs vs k kd : init_ok et i = true ->
    validate t a bs = Ok tt -> view t bs = Ok (VNode 0 vs) -> size_m t bs = Ok k ->
    snd (flex_op pv t a (FPush i) bs) = OErr kd ->
    let bs' := fst (flex_op pv t a (FPush i) bs) in
    blen bs' = blen bs /\ validate t a bs' = Ok tt /\ size_m t bs' = Ok k /\ take k bs' = take k bs /\
    exists vs', view t bs' = Ok (VNode 0 vs') /\ map strip vs' = map strip vs /\ length vs' = length vs.
  Proof.
    intros Hi. apply (flex_push_rejected_g pv et l a Hw Hnar (fun _ => True)); auto.
  Qed.

  Theorem flex_push_outcomes i bs : init_ok et i = true -> validate t a bs = Ok tt ->
    snd (flex_op pv t a (FPush i) bs) = ODone \/ exists kd, snd (flex_op pv t a (FPush i) bs) = OErr kd.
  Proof.
    intros Hi. apply (flex_push_outcomes_g pv et l a Hw Hnar (fun _ => True)); auto.
  Qed.

  Theorem flex_push_rejected_then_same i bs kd ops : init_ok et i = true ->
    validate t a bs = Ok tt -> snd (flex_op pv t a (FPush i) bs) = OErr kd ->
    Forall shrink_op ops ->
    let bs' := fst (flex_op pv t a (FPush i) bs) in
    let r := flex_run pv et l a ops bs in
    let r' := flex_run pv et l a ops bs' in
    snd r' = snd r /\ blen (fst r') = blen (fst r) /\
    validate t a (fst r) = Ok tt /\ validate t a (fst r') = Ok tt /\
    size_m t (fst r') = size_m t (fst r) /\
    exists vs1 vs2, view t (fst r) = Ok (VNode 0 vs1) /\ view t (fst r') = Ok (VNode 0 vs2) /\
      map strip vs2 = map strip vs1.
  Proof.
    intros Hi. apply (flex_push_rejected_then_same_g pv et l a Hw Hnar (fun _ => True)); auto.
  Qed.
End PushRejectedPlain.
