(* IoSendFacts.v — the send side of Model/Io.v: write_loop, send_blocking, send_one, send_many,
   asend_poll.  Faults surface as errors within a bounded number of pipe calls, the sink only ever
   holds whole messages followed by at most one proper prefix, partial writes and Pending are
   transparent. *)
From Coq Require Import List NArith Bool Lia ZArith ZifyN ZifyBool ZifyNat.
From Flatty.Model Require Import Base Io.
From Flatty.Proofs Require Import ArithFacts BytesFacts.
Import ListNotations.
Open Scope N_scope.

(* ---------- small list facts ---------- *)

Lemma take_plus n m (l : bytes) : take (n + m) l = take n l ++ take m (drop n l).
Proof.
  unfold take, drop. rewrite N2Nat.inj_add.
  generalize (N.to_nat n) as a. generalize (N.to_nat m) as b. intros b a. revert l.
  induction a as [|a IH]; intros l; [reflexivity|].
  destruct l as [|x l]; [cbn [Nat.add firstn skipn app]; rewrite firstn_nil; reflexivity|].
  cbn [Nat.add firstn skipn app]. f_equal. apply IH.
Qed.

Lemma take_0 (l : bytes) : take 0 l = [].
Proof. reflexivity. Qed.

Lemma hd_tl_split {X} (l : list X) : l = firstn 1 l ++ tl l.
Proof. destruct l as [|x l]; reflexivity. Qed.

Lemma in_tl {X} (x : X) l : In x (tl l) -> In x l.
Proof. destruct l as [|y l]; [intros H; exact H|intros H; right; exact H]. Qed.

(* ---------- vocabulary ---------- *)

Definition is_sio (o : sout) : bool := match o with SIo _ => true | _ => false end.
Definition is_wev (e : wev) : bool :=
  match e with EvW _ | EvWZ | EvWE | EvWP => true | _ => false end.
Definition is_fev (e : wev) : bool :=
  match e with EvFO | EvFP | EvFE => true | _ => false end.
(* bytes accepted according to an event list *)
Fixpoint ev_bytes (l : list wev) : N :=
  match l with [] => 0 | EvW n :: r => n + ev_bytes r | _ :: r => ev_bytes r end.

Lemma ev_bytes_app a b : ev_bytes (a ++ b) = ev_bytes a + ev_bytes b.
Proof.
  induction a as [|e a IH]; [reflexivity|]. cbn [app ev_bytes]. destruct e; rewrite IH; lia.
Qed.

(* the message part offered to the pipe at position pos *)
Definition offered_of (pos count : N) (sd : sender) : bytes :=
  take (count - pos) (drop pos (occupied (sbuf sd))).
(* the directive that answers the next pipe write *)
Definition wdir_of (k : sink) (offered : bytes) : wdir :=
  match wscript k with [] => WA (blen offered + 1) | d :: _ => d end.
Definition sink_fault (k : sink) : sink :=
  {| sunk := sunk k; wscript := tl (wscript k); fscript := fscript k; wcalls := wcalls k + 1 |}.
Definition sink_acc (k : sink) (add : bytes) : sink :=
  {| sunk := sunk k ++ add; wscript := tl (wscript k); fscript := fscript k; wcalls := wcalls k + 1 |}.
Definition sink_hang (k : sink) : sink :=
  {| sunk := sunk k; wscript := wscript k; fscript := fscript k; wcalls := wcalls k + 1 |}.
Definition poison_at (pos : N) (sd : sender) : sender :=
  {| sbuf := sbuf sd; poisoned := negb (pos =? 0) || poisoned sd |}.

Lemma write_loop_S fuel limit pos count sd k evs :
  write_loop (S fuel) limit pos count sd k evs =
  if pos <? count then
    if limit <? wcalls k + 1 then (sd, sink_hang k, pos, evs, SHang)
    else
      match wdir_of k (offered_of pos count sd) with
      | WA n0 =>
          if umin n0 (blen (offered_of pos count sd)) =? 0
          then (poison_at pos sd, sink_fault k, pos, EvWZ :: evs, SIo BrokenPipe)
          else write_loop fuel limit (pos + umin n0 (blen (offered_of pos count sd))) count sd
                 (sink_acc k (take (umin n0 (blen (offered_of pos count sd))) (offered_of pos count sd)))
                 (EvW (umin n0 (blen (offered_of pos count sd))) :: evs)
      | WZ => (poison_at pos sd, sink_fault k, pos, EvWZ :: evs, SIo BrokenPipe)
      | WE e => (poison_at pos sd, sink_fault k, pos, EvWE :: evs, SIo e)
      | WP => (sd, sink_fault k, pos, EvWP :: evs, SPending)
      end
  else (sd, k, pos, evs, SOk).
Proof. reflexivity. Qed.

Lemma blen_offered pos count sd :
  blen (offered_of pos count sd) = N.min (count - pos) (blen (occupied (sbuf sd)) - pos).
Proof. unfold offered_of. rewrite blen_take, blen_drop. reflexivity. Qed.

Lemma take_offered n pos count sd : n <= blen (offered_of pos count sd) ->
  take n (offered_of pos count sd) = take n (drop pos (occupied (sbuf sd))).
Proof.
  intros H. rewrite blen_offered in H. unfold offered_of. apply take_take. lia.
Qed.

(* appending the next chunk keeps "the sink gained take (pos' - pos) of the rest" *)
Lemma sunk_step (s occ : bytes) pos n pos' :
  pos + n <= pos' ->
  (s ++ take n (drop pos occ)) ++ take (pos' - (pos + n)) (drop (pos + n) occ)
  = s ++ take (pos' - pos) (drop pos occ).
Proof.
  intros H. replace (pos' - pos) with (n + (pos' - (pos + n))) by lia.
  rewrite take_plus, drop_drop, app_assoc. reflexivity.
Qed.

Lemma wdir_of_in k off d : wdir_of k off = d -> (forall n, d <> WA n) -> In d (wscript k).
Proof.
  unfold wdir_of. destruct (wscript k) as [|d0 t]; intros H Hn.
  - exfalso. apply (Hn (blen off + 1)). symmetry. exact H.
  - left. exact H.
Qed.

(* ---------- the loop invariant: every script, every fuel, every limit ---------- *)

Definition wl_post (pos count : N) (sd : sender) (k : sink) (evs : list wev)
    (sd' : sender) (k' : sink) (pos' : N) (evs' : list wev) (o : sout) : Prop :=
  sbuf sd' = sbuf sd
  /\ pos <= pos'
  /\ (pos <= count -> pos' <= count)
  /\ sunk k' = sunk k ++ take (pos' - pos) (drop pos (occupied (sbuf sd)))
  /\ poisoned sd' = poisoned sd || (is_sio o && negb (pos' =? 0))
  /\ (is_sio o = false -> sd' = sd)
  /\ (exists pre, wscript k = pre ++ wscript k')
  /\ fscript k' = fscript k
  /\ wcalls k <= wcalls k'
  /\ (exists wr, evs' = wr ++ evs /\ forallb is_wev wr = true /\ ev_bytes wr = pos' - pos)
  /\ (pos <= count -> o = SOk -> pos' = count)
  /\ (pos' = count -> o = SOk \/ o = SHang)
  /\ (o = SOk \/ (exists e, o = SIo e) \/ o = SPending \/ o = SHang)
  /\ (o = SPending -> In WP (wscript k))
  /\ (forall e, o = SIo e -> pos' < count).

Lemma wl_post_here pos count sd k evs o :
  (o = SOk \/ o = SHang) -> (o = SOk -> count <= pos) ->
  forall k', sunk k' = sunk k -> wscript k' = wscript k -> fscript k' = fscript k ->
  wcalls k <= wcalls k' ->
  wl_post pos count sd k evs sd k' pos evs o.
Proof.
  intros Ho Hc k' Hs Hw Hf Hcalls. unfold wl_post.
  assert (Hio : is_sio o = false) by (destruct Ho as [Ho|Ho]; subst o; reflexivity).
  repeat split.
  - lia.
  - intros H; exact H.
  - rewrite N.sub_diag, take_0, app_nil_r. exact Hs.
  - rewrite Hio. cbn [andb]. rewrite orb_false_r. reflexivity.
  - exists []. rewrite Hw. reflexivity.
  - exact Hf.
  - exact Hcalls.
  - exists []. repeat split. rewrite N.sub_diag. reflexivity.
  - intros Hp Hok. specialize (Hc Hok). lia.
  - intros _. exact Ho.
  - destruct Ho as [Ho|Ho]; [left; exact Ho|right; right; right; exact Ho].
  - intros Hp. destruct Ho as [Ho|Ho]; subst o; discriminate Hp.
  - intros e He. destruct Ho as [Ho|Ho]; subst o; discriminate He.
Qed.

Lemma wl_post_fault pos count sd k evs ev o :
  pos < count -> (ev = EvWZ \/ ev = EvWE) -> (exists e, o = SIo e) ->
  wl_post pos count sd k evs (poison_at pos sd) (sink_fault k) pos (ev :: evs) o.
Proof.
  intros Hlt Hev [e He]. subst o. unfold wl_post. cbn [poison_at sink_fault sbuf poisoned sunk wscript fscript wcalls is_sio andb].
  repeat split.
  - lia.
  - intros H; exact H.
  - rewrite N.sub_diag, take_0, app_nil_r. reflexivity.
  - apply orb_comm.
  - intros H; discriminate H.
  - exists (firstn 1 (wscript k)). apply hd_tl_split.
  - lia.
  - exists [ev]. repeat split.
    + destruct Hev as [Hev|Hev]; subst ev; reflexivity.
    + rewrite N.sub_diag. destruct Hev as [Hev|Hev]; subst ev; reflexivity.
  - intros _ H; discriminate H.
  - intros H. lia.
  - right; left. exists e. reflexivity.
  - intros H; discriminate H.
  - intros e0 _. exact Hlt.
Qed.

Lemma write_loop_inv : forall fuel limit count sd pos k evs sd' k' pos' evs' o,
  write_loop fuel limit pos count sd k evs = (sd', k', pos', evs', o) ->
  wl_post pos count sd k evs sd' k' pos' evs' o.
Proof.
  induction fuel as [|fuel IH]; intros limit count sd pos k evs sd' k' pos' evs' o H.
  - cbn [write_loop] in H. inversion H; subst; clear H.
    apply wl_post_here; [right; reflexivity|intros H; discriminate H|reflexivity|reflexivity|reflexivity|lia].
  - rewrite write_loop_S in H.
    destruct (N.ltb_spec pos count) as [Hlt|Hge].
    2:{ inversion H; subst; clear H.
        apply wl_post_here; [left; reflexivity|intros _; exact Hge|reflexivity|reflexivity|reflexivity|lia]. }
    destruct (N.ltb_spec limit (wcalls k + 1)) as [Hl|Hl].
    { inversion H; subst; clear H.
      apply wl_post_here; [right; reflexivity|intros H; discriminate H|reflexivity|reflexivity|reflexivity|cbn [sink_hang wcalls]; lia]. }
    destruct (wdir_of k (offered_of pos count sd)) as [n0| |e|] eqn:Hd.
    + set (n := umin n0 (blen (offered_of pos count sd))) in H.
      assert (Hn : n <= blen (offered_of pos count sd)) by (unfold n; rewrite umin_spec; lia).
      destruct (N.eqb_spec n 0) as [Hz|Hnz].
      { inversion H; subst sd' k' pos' evs' o; clear H.
        apply wl_post_fault; [exact Hlt|left; reflexivity|exists BrokenPipe; reflexivity]. }
      apply IH in H. destruct H as (I1 & I2 & I3 & I4 & I5 & I6 & I7 & I8 & I9 & I10 & I11 & I12 & I13 & I14 & I15).
      pose proof (blen_offered pos count sd) as Hbo.
      unfold wl_post. repeat split.
      * exact I1.
      * lia.
      * intros _. apply I3. lia.
      * rewrite I4. cbn [sink_acc sunk]. rewrite (take_offered n pos count sd Hn). apply sunk_step. exact I2.
      * exact I5.
      * exact I6.
      * destruct I7 as [pre I7]. cbn [sink_acc wscript] in I7.
        exists (firstn 1 (wscript k) ++ pre). rewrite <- app_assoc, <- I7. apply hd_tl_split.
      * exact I8.
      * cbn [sink_acc wcalls] in I9. lia.
      * destruct I10 as (wr & Ha & Hb & Hc). exists (wr ++ [EvW n]). repeat split.
        -- rewrite Ha, <- app_assoc. reflexivity.
        -- rewrite forallb_app, Hb. reflexivity.
        -- rewrite ev_bytes_app, Hc. cbn [ev_bytes]. lia.
      * intros _ Hok. apply I11; [lia|exact Hok].
      * exact I12.
      * exact I13.
      * intros Hp. apply in_tl. apply (I14 Hp).
      * exact I15.
    + inversion H; subst sd' k' pos' evs' o; clear H.
      apply wl_post_fault; [exact Hlt|left; reflexivity|exists BrokenPipe; reflexivity].
    + inversion H; subst sd' k' pos' evs' o; clear H.
      apply wl_post_fault; [exact Hlt|right; reflexivity|exists e; reflexivity].
    + inversion H; subst sd' k' pos' evs' o; clear H.
      unfold wl_post. cbn [sink_fault sunk wscript fscript wcalls is_sio andb].
      repeat split.
      * lia.
      * intros H; exact H.
      * rewrite N.sub_diag, take_0, app_nil_r. reflexivity.
      * rewrite orb_false_r. reflexivity.
      * exists (firstn 1 (wscript k)). apply hd_tl_split.
      * lia.
      * exists [EvWP]. repeat split. rewrite N.sub_diag. reflexivity.
      * intros _ H; discriminate H.
      * intros H. lia.
      * right; right; left. reflexivity.
      * intros _. apply (wdir_of_in k _ WP Hd). intros n H; discriminate H.
      * intros e H; discriminate H.
Qed.

(* ---------- item 3: what the sink gains, when the sender is poisoned ---------- *)

Theorem write_loop_sunk : forall fuel limit count sd pos k evs sd' k' pos' evs' o,
  write_loop fuel limit pos count sd k evs = (sd', k', pos', evs', o) ->
  pos <= count ->
  sunk k' = sunk k ++ take (pos' - pos) (drop pos (occupied (sbuf sd)))
  /\ pos <= pos' /\ pos' <= count
  /\ (o <> SHang -> (o = SOk <-> pos' = count))
  /\ sbuf sd' = sbuf sd
  /\ poisoned sd' = poisoned sd || (is_sio o && negb (pos' =? 0))
  /\ (o = SOk \/ (exists e, o = SIo e) \/ o = SPending \/ o = SHang).
Proof.
  intros fuel limit count sd pos k evs sd' k' pos' evs' o H Hp.
  apply write_loop_inv in H.
  destruct H as (I1 & I2 & I3 & I4 & I5 & I6 & I7 & I8 & I9 & I10 & I11 & I12 & I13 & I14 & I15).
  repeat split; try assumption.
  - apply I3. exact Hp.
  - intros Hok. apply I11; assumption.
  - intros Hc. destruct (I12 Hc) as [Ho|Ho]; [exact Ho|contradiction].
Qed.

(* ---------- item 1: bounded number of pipe calls, no hang ---------- *)

Theorem write_loop_bounded : forall fuel limit count sd pos k evs sd' k' pos' evs' o,
  write_loop fuel limit pos count sd k evs = (sd', k', pos', evs', o) ->
  pos <= count -> (N.to_nat (count - pos) < fuel)%nat -> wcalls k + (count - pos) <= limit ->
  o <> SHang
  /\ wcalls k <= wcalls k'
  /\ wcalls k' - wcalls k <= count - pos
  /\ (pos <> count -> 1 <= wcalls k' - wcalls k).
Proof.
  induction fuel as [|fuel IH]; intros limit count sd pos k evs sd' k' pos' evs' o H Hp Hfu Hl; [lia|].
  rewrite write_loop_S in H.
  destruct (N.ltb_spec pos count) as [Hlt|Hge].
  2:{ inversion H; subst; clear H. repeat split; try lia. intros D; discriminate D. }
  destruct (N.ltb_spec limit (wcalls k + 1)) as [Hl1|Hl1]; [lia|].
  assert (Hfault : forall ev e, (sd', k', pos', evs', o) = (poison_at pos sd, sink_fault k, pos, ev :: evs, SIo e) ->
     o <> SHang /\ wcalls k <= wcalls k' /\ wcalls k' - wcalls k <= count - pos
     /\ (pos <> count -> 1 <= wcalls k' - wcalls k)).
  { intros ev e E. inversion E; subst. cbn [sink_fault wcalls]. repeat split; try lia. intros D; discriminate D. }
  destruct (wdir_of k (offered_of pos count sd)) as [n0| |e|] eqn:Hd.
  - set (n := umin n0 (blen (offered_of pos count sd))) in H.
    assert (Hn : n <= blen (offered_of pos count sd)) by (unfold n; rewrite umin_spec; lia).
    rewrite blen_offered in Hn.
    destruct (N.eqb_spec n 0) as [Hz|Hnz].
    + symmetry in H. apply (Hfault _ _ H).
    + apply IH in H; [|lia|lia|cbn [sink_acc wcalls]; lia].
      cbn [sink_acc wcalls] in H. destruct H as (H1 & H2 & H3 & H4).
      repeat split; try lia. exact H1.
  - symmetry in H. apply (Hfault _ _ H).
  - symmetry in H. apply (Hfault _ _ H).
  - inversion H; subst. cbn [sink_fault wcalls]. repeat split; try lia. intros D; discriminate D.
Qed.

(* with enough fuel and calls the outcome is SOk exactly when the whole message went through *)
Lemma write_loop_ok_iff : forall fuel limit count sd pos k evs sd' k' pos' evs' o,
  write_loop fuel limit pos count sd k evs = (sd', k', pos', evs', o) ->
  pos <= count -> (N.to_nat (count - pos) < fuel)%nat -> wcalls k + (count - pos) <= limit ->
  (o = SOk <-> pos' = count).
Proof.
  intros fuel limit count sd pos k evs sd' k' pos' evs' o H Hp Hfu Hl.
  destruct (write_loop_bounded _ _ _ _ _ _ _ _ _ _ _ _ H Hp Hfu Hl) as (Hh & _).
  destruct (write_loop_sunk _ _ _ _ _ _ _ _ _ _ _ _ H Hp) as (_ & _ & _ & Hiff & _).
  apply Hiff. exact Hh.
Qed.

(* the fuel used by send_blocking and asend_poll is enough *)
Lemma write_loop_model_fuel : forall limit count sd pos k evs sd' k' pos' evs' o,
  write_loop (S (N.to_nat count)) limit pos count sd k evs = (sd', k', pos', evs', o) ->
  pos <= count -> wcalls k + (count - pos) <= limit ->
  o <> SHang /\ wcalls k <= wcalls k' /\ wcalls k' - wcalls k <= count - pos
  /\ (pos <> count -> 1 <= wcalls k' - wcalls k) /\ (o = SOk <-> pos' = count).
Proof.
  intros limit count sd pos k evs sd' k' pos' evs' o H Hp Hl.
  assert (Hfu : (N.to_nat (count - pos) < S (N.to_nat count))%nat) by lia.
  destruct (write_loop_bounded _ _ _ _ _ _ _ _ _ _ _ _ H Hp Hfu Hl) as (H1 & H2 & H3 & H4).
  repeat split; try assumption; apply (write_loop_ok_iff _ _ _ _ _ _ _ _ _ _ _ _ H Hp Hfu Hl).
Qed.

(* ---------- item 2: the first fault ends the loop ---------- *)

Definition is_fault (d : wdir) : bool := match d with WZ | WE _ | WA 0 => true | _ => false end.
Definition fault_err (d : wdir) : iokind := match d with WE e => e | _ => BrokenPipe end.
Definition fault_ev (d : wdir) : wev := match d with WE _ => EvWE | _ => EvWZ end.
(* the amounts really accepted for a run of accept directives starting at pos *)
Fixpoint chunks (pos count : N) (pre : list N) : list N :=
  match pre with
  | [] => []
  | n0 :: r => umin n0 (count - pos) :: chunks (pos + umin n0 (count - pos)) count r
  end.
Fixpoint nsum (l : list N) : N := match l with [] => 0 | x :: r => x + nsum r end.

Lemma wres_eq (sd1 sd2 : sender) su1 su2 ws1 ws2 fs1 fs2 wc1 wc2 (p1 p2 : N)
    (ev1 ev2 : list wev) (o1 o2 : sout) :
  sd1 = sd2 -> su1 = su2 -> ws1 = ws2 -> fs1 = fs2 -> wc1 = wc2 -> p1 = p2 -> ev1 = ev2 -> o1 = o2 ->
  (sd1, {| sunk := su1; wscript := ws1; fscript := fs1; wcalls := wc1 |}, p1, ev1, o1) =
  (sd2, {| sunk := su2; wscript := ws2; fscript := fs2; wcalls := wc2 |}, p2, ev2, o2).
Proof. intros; subst; reflexivity. Qed.

Lemma blen_offered_le pos count sd : count <= blen (occupied (sbuf sd)) ->
  blen (offered_of pos count sd) = count - pos.
Proof. intros H. rewrite blen_offered. lia. Qed.

Theorem write_loop_first_fault : forall pre fuel limit count sd pos k evs d rest,
  wscript k = map WA pre ++ d :: rest -> Forall (fun n => 1 <= n) pre -> is_fault d = true ->
  count <= blen (occupied (sbuf sd)) -> pos <= count ->
  (N.to_nat (count - pos) < fuel)%nat -> wcalls k + (count - pos) <= limit ->
  pos + nsum (chunks pos count pre) < count ->
  write_loop fuel limit pos count sd k evs =
    (poison_at (pos + nsum (chunks pos count pre)) sd,
     {| sunk := sunk k ++ take (pos + nsum (chunks pos count pre) - pos) (drop pos (occupied (sbuf sd)));
        wscript := rest; fscript := fscript k;
        wcalls := wcalls k + N.of_nat (length pre) + 1 |},
     pos + nsum (chunks pos count pre),
     fault_ev d :: map EvW (rev (chunks pos count pre)) ++ evs,
     SIo (fault_err d)).
Proof.
  induction pre as [|n0 pre IH]; intros fuel limit count sd pos k evs d rest Hs Hall Hf Hc Hp Hfu Hl Hlt.
  - cbn [chunks nsum map app length rev N.of_nat] in *. rewrite N.add_0_r in Hlt.
    destruct fuel as [|fuel]; [lia|]. rewrite write_loop_S.
    destruct (N.ltb_spec pos count) as [_|Hge]; [|lia].
    destruct (N.ltb_spec limit (wcalls k + 1)) as [Hl1|_]; [lia|].
    assert (Hd : wdir_of k (offered_of pos count sd) = d) by (unfold wdir_of; rewrite Hs; reflexivity).
    rewrite Hd. unfold sink_fault. rewrite Hs. cbn [tl].
    assert (Hsu : sunk k = sunk k ++ take (pos + 0 - pos) (drop pos (occupied (sbuf sd)))).
    { replace (pos + 0 - pos) with 0 by lia. rewrite take_0, app_nil_r. reflexivity. }
    destruct d as [n| |e|]; try discriminate Hf.
    + destruct n as [|p]; [|discriminate Hf]. rewrite umin_spec, N.min_0_l. cbn [N.eqb].
      apply wres_eq; try reflexivity; try lia; [f_equal; lia|exact Hsu].
    + apply wres_eq; try reflexivity; try lia; [f_equal; lia|exact Hsu].
    + apply wres_eq; try reflexivity; try lia; [f_equal; lia|exact Hsu].
  - cbn [chunks nsum] in *. set (n := umin n0 (count - pos)) in *.
    set (s := nsum (chunks (pos + n) count pre)) in *.
    inversion Hall as [|x l Hn0 Hall']; subst x l.
    assert (Hlt0 : pos < count) by lia.
    assert (Hn : n = N.min n0 (count - pos)) by (unfold n; apply umin_spec).
    destruct fuel as [|fuel]; [lia|]. rewrite write_loop_S.
    destruct (N.ltb_spec pos count) as [_|Hge]; [|lia].
    destruct (N.ltb_spec limit (wcalls k + 1)) as [Hl1|_]; [lia|].
    assert (Hd : wdir_of k (offered_of pos count sd) = WA n0) by (unfold wdir_of; rewrite Hs; reflexivity).
    rewrite Hd. rewrite (blen_offered_le pos count sd Hc). fold n.
    destruct (N.eqb_spec n 0) as [Hz|Hnz]; [lia|].
    rewrite (IH fuel limit count sd (pos + n) (sink_acc k (take n (offered_of pos count sd))) (EvW n :: evs) d rest).
    + fold s. apply wres_eq; try reflexivity.
      * f_equal. lia.
      * cbn [sink_acc sunk]. rewrite take_offered by (rewrite (blen_offered_le pos count sd Hc); lia).
        replace (pos + (n + s) - pos) with (pos + n + s - pos) by lia.
        apply sunk_step. lia.
      * cbn [sink_acc wcalls length]. lia.
      * lia.
      * cbn [rev]. rewrite map_app, <- app_assoc. reflexivity.
    + cbn [sink_acc wscript]. rewrite Hs. reflexivity.
    + exact Hall'.
    + exact Hf.
    + exact Hc.
    + lia.
    + lia.
    + cbn [sink_acc wcalls]. lia.
    + fold s. lia.
Qed.

(* if the accept entries before the fault already cover the message, the fault is never met *)
Theorem write_loop_fault_not_reached : forall pre fuel limit count sd pos k evs d rest,
  wscript k = map WA pre ++ d :: rest -> Forall (fun n => 1 <= n) pre ->
  count <= blen (occupied (sbuf sd)) -> pos <= count ->
  (N.to_nat (count - pos) < fuel)%nat -> wcalls k + (count - pos) <= limit ->
  count <= pos + nsum (chunks pos count pre) ->
  exists sd' k' evs' rest',
    write_loop fuel limit pos count sd k evs = (sd', k', count, evs', SOk)
    /\ wscript k' = rest' ++ d :: rest.
Proof.
  induction pre as [|n0 pre IH]; intros fuel limit count sd pos k evs d rest Hs Hall Hc Hp Hfu Hl Hge.
  - cbn [chunks nsum] in Hge. assert (pos = count) by lia. subst pos.
    destruct fuel as [|fuel]; [lia|]. rewrite write_loop_S. rewrite N.ltb_irrefl.
    exists sd, k, evs, []. split; [reflexivity|exact Hs].
  - destruct fuel as [|fuel]; [lia|]. rewrite write_loop_S.
    destruct (N.ltb_spec pos count) as [Hlt|Hge0].
    2:{ assert (pos = count) by lia. subst pos. exists sd, k, evs, (map WA (n0 :: pre)). split; [reflexivity|exact Hs]. }
    cbn [chunks nsum] in Hge. set (n := umin n0 (count - pos)) in *.
    inversion Hall as [|x l Hn0 Hall']; subst x l.
    assert (Hn : n = N.min n0 (count - pos)) by (unfold n; apply umin_spec).
    destruct (N.ltb_spec limit (wcalls k + 1)) as [Hl1|_]; [lia|].
    assert (Hd : wdir_of k (offered_of pos count sd) = WA n0) by (unfold wdir_of; rewrite Hs; reflexivity).
    rewrite Hd. rewrite (blen_offered_le pos count sd Hc). fold n.
    destruct (N.eqb_spec n 0) as [Hz|Hnz]; [lia|].
    apply IH.
    + cbn [sink_acc wscript]. rewrite Hs. reflexivity.
    + exact Hall'.
    + exact Hc.
    + lia.
    + lia.
    + cbn [sink_acc wcalls]. lia.
    + lia.
Qed.

(* ---------- accept-only scripts: no fault, whatever the chunk sizes ---------- *)

Definition accepts (w : wdir) : Prop := exists n, w = WA n /\ 1 <= n.

Lemma Forall_tl {X} (P : X -> Prop) l : Forall P l -> Forall P (tl l).
Proof. intros H. destruct l as [|x l]; [exact H|]. inversion H; assumption. Qed.

Lemma wdir_of_accepts k off : Forall accepts (wscript k) -> accepts (wdir_of k off).
Proof.
  unfold wdir_of. intros H. destruct (wscript k) as [|d t].
  - exists (blen off + 1). split; [reflexivity|lia].
  - inversion H; assumption.
Qed.

Lemma write_loop_all_accept : forall fuel limit count sd pos k evs sd' k' pos' evs' o,
  write_loop fuel limit pos count sd k evs = (sd', k', pos', evs', o) ->
  Forall accepts (wscript k) ->
  count <= blen (occupied (sbuf sd)) -> pos <= count ->
  (N.to_nat (count - pos) < fuel)%nat -> wcalls k + (count - pos) <= limit ->
  o = SOk /\ pos' = count /\ sd' = sd /\ Forall accepts (wscript k').
Proof.
  induction fuel as [|fuel IH]; intros limit count sd pos k evs sd' k' pos' evs' o H Hall Hc Hp Hfu Hl; [lia|].
  rewrite write_loop_S in H.
  destruct (N.ltb_spec pos count) as [Hlt|Hge].
  2:{ inversion H; subst; clear H. repeat split; [lia|exact Hall]. }
  destruct (N.ltb_spec limit (wcalls k + 1)) as [Hl1|_]; [lia|].
  destruct (wdir_of_accepts k (offered_of pos count sd) Hall) as (n0 & Hd & Hn0).
  rewrite Hd in H. rewrite (blen_offered_le pos count sd Hc) in H.
  set (n := umin n0 (count - pos)) in H.
  assert (Hn : n = N.min n0 (count - pos)) by (unfold n; apply umin_spec).
  destruct (N.eqb_spec n 0) as [Hz|Hnz]; [lia|].
  apply IH in H; [exact H| | | | |].
  - cbn [sink_acc wscript]. apply Forall_tl. exact Hall.
  - exact Hc.
  - lia.
  - lia.
  - cbn [sink_acc wcalls]. lia.
Qed.

(* a hang with enough fuel is a watchdog hang: the message is not complete *)
Lemma write_loop_hang_lt : forall fuel limit count sd pos k evs sd' k' pos' evs' o,
  write_loop fuel limit pos count sd k evs = (sd', k', pos', evs', o) ->
  pos <= count -> (N.to_nat (count - pos) < fuel)%nat -> o = SHang -> pos' < count.
Proof.
  induction fuel as [|fuel IH]; intros limit count sd pos k evs sd' k' pos' evs' o H Hp Hfu Ho; [lia|].
  rewrite write_loop_S in H.
  destruct (N.ltb_spec pos count) as [Hlt|Hge].
  2:{ inversion H; subst; discriminate. }
  destruct (N.ltb_spec limit (wcalls k + 1)) as [Hl1|_].
  { inversion H; subst. exact Hlt. }
  destruct (wdir_of k (offered_of pos count sd)) as [n0| |e|] eqn:Hd; try (inversion H; subst; discriminate).
  set (n := umin n0 (blen (offered_of pos count sd))) in H.
  assert (Hn : n <= blen (offered_of pos count sd)) by (unfold n; rewrite umin_spec; lia).
  rewrite blen_offered in Hn.
  destruct (N.eqb_spec n 0) as [Hz|Hnz]; [inversion H; subst; discriminate|].
  apply IH in H; [exact H|lia|lia|exact Ho].
Qed.

Lemma drop_all n (bs : bytes) : blen bs <= n -> drop n bs = [].
Proof. unfold drop, blen. intros H. apply skipn_all2. lia. Qed.

(* ---------- send_blocking / send_one / send_many ---------- *)

Lemma alloc_ready CAP b : st b = 0 -> en b <= CAP -> blen (data b) = CAP ->
  alloc b = Ok {| data := data b; st := 0; en := CAP |}.
Proof.
  intros Hs He Hc. unfold alloc, vacant_len, advance, cap. destruct b as [d s e]. cbn [data st en] in *. subst s.
  destruct (N.ltb_spec 0 (blen d - e)) as [Hv|Hv].
  - destruct (N.ltb_spec (blen d) (e + (blen d - e))) as [Hx|Hx]; [lia|].
    f_equal. f_equal. lia.
  - f_equal. f_equal. lia.
Qed.

(* Of the message-type arguments of Model/Io.v Section Msg the send side uses only size_f, I and
   emplace_f (alignment, minimum size and validate belong to the receive side). *)
Section SendMsg.
  Variable size_f : bytes -> res N.

  (* item 4: a poisoned sender refuses: no pipe call, no byte *)
  Theorem send_blocking_poisoned_refuses : forall limit sd k,
    poisoned sd = true -> send_blocking size_f limit sd k = (sd, k, SPanic).
  Proof. intros limit sd k H. unfold send_blocking. rewrite H. reflexivity. Qed.

  Definition sout_io (o : sout) : Prop :=
    o = SOk \/ (exists e, o = SIo e) \/ o = SPending \/ o = SHang.

  Definition cleared (sd : sender) : sender := {| sbuf := clear (sbuf sd); poisoned := false |}.

  (* one blocking send of a sender that is not poisoned *)
  Lemma send_blocking_spec : forall limit sd k count sd1 k1 o,
    poisoned sd = false -> size_f (occupied (sbuf sd)) = Ok count ->
    send_blocking size_f limit sd k = (sd1, k1, o) ->
    exists p, p <= count
      /\ sunk k1 = sunk k ++ take p (occupied (sbuf sd))
      /\ (o = SOk <-> p = count)
      /\ (o = SOk -> sd1 = cleared sd)
      /\ (o <> SOk -> sbuf sd1 = sbuf sd)
      /\ poisoned sd1 = is_sio o && negb (p =? 0)
      /\ sout_io o
      /\ (o = SPending -> In WP (wscript k))
      /\ (exists pre, wscript k = pre ++ wscript k1)
      /\ fscript k1 = fscript k
      /\ wcalls k <= wcalls k1.
  Proof.
    intros limit sd k count sd1 k1 o Hpo Hsz H. unfold send_blocking in H. rewrite Hpo, Hsz in H.
    destruct (write_loop (S (N.to_nat count)) limit 0 count sd k []) as [[[[sd' k'] pos'] evs'] o'] eqn:Hw.
    assert (Hfu : (N.to_nat (count - 0) < S (N.to_nat count))%nat) by lia.
    assert (H0 : 0 <= count) by lia.
    pose proof (write_loop_hang_lt _ _ _ _ _ _ _ _ _ _ _ _ Hw H0 Hfu) as Hh.
    apply write_loop_inv in Hw.
    destruct Hw as (I1 & I2 & I3 & I4 & I5 & I6 & I7 & I8 & I9 & I10 & I11 & I12 & I13 & I14 & I15).
    rewrite N.sub_0_r, drop_0 in I4. rewrite Hpo in I5. cbn [orb] in I5.
    assert (Hiff : o' = SOk <-> pos' = count).
    { split; [intros E; apply I11; [lia|exact E]|].
      intros E. destruct (I12 E) as [E'|E']; [exact E'|]. specialize (Hh E'). lia. }
    assert (Hrest : o' <> SOk -> (sd1, k1, o) = (sd', k', o') ->
      exists p, p <= count
      /\ sunk k1 = sunk k ++ take p (occupied (sbuf sd))
      /\ (o = SOk <-> p = count)
      /\ (o = SOk -> sd1 = cleared sd)
      /\ (o <> SOk -> sbuf sd1 = sbuf sd)
      /\ poisoned sd1 = is_sio o && negb (p =? 0)
      /\ sout_io o
      /\ (o = SPending -> In WP (wscript k))
      /\ (exists pre, wscript k = pre ++ wscript k1)
      /\ fscript k1 = fscript k
      /\ wcalls k <= wcalls k1).
    { intros Hne E. inversion E; subst sd1 k1 o. exists pos'.
      split; [apply I3; lia|]. split; [exact I4|]. split; [exact Hiff|].
      split; [intros E'; contradiction|]. split; [intros _; exact I1|].
      split; [exact I5|]. split; [exact I13|]. split; [exact I14|]. split; [exact I7|].
      split; [exact I8|exact I9]. }
    destruct o'; try (symmetry in H; apply Hrest; [intros D; discriminate D|exact H]).
    inversion H; subst sd1 k1 o. exists pos'.
    split; [apply I3; lia|]. split; [exact I4|]. split; [exact Hiff|].
    split.
    { intros _. unfold cleared. rewrite (I6 eq_refl). rewrite Hpo. reflexivity. }
    split; [intros D; contradiction|]. split; [cbn [poisoned is_sio andb]; rewrite I5; reflexivity|].
    split; [exact I13|]. split; [exact I14|]. split; [exact I7|]. split; [exact I8|exact I9].
  Qed.

  (* send_blocking never hangs when the watchdog allows one call per byte *)
  Theorem send_blocking_no_hang : forall limit sd k count sd1 k1 o,
    size_f (occupied (sbuf sd)) = Ok count -> wcalls k + count <= limit ->
    send_blocking size_f limit sd k = (sd1, k1, o) ->
    o <> SHang /\ wcalls k <= wcalls k1 /\ wcalls k1 - wcalls k <= count.
  Proof.
    intros limit sd k count sd1 k1 o Hsz Hl H. unfold send_blocking in H.
    destruct (poisoned sd).
    { inversion H; subst. repeat split; try lia. intros D; discriminate D. }
    rewrite Hsz in H.
    destruct (write_loop (S (N.to_nat count)) limit 0 count sd k []) as [[[[sd' k'] pos'] evs'] o'] eqn:Hw.
    apply write_loop_model_fuel in Hw; [|lia|lia].
    destruct Hw as (H1 & H2 & H3 & _). rewrite N.sub_0_r in H3.
    destruct o'; inversion H; subst; repeat split; try assumption; intros D; discriminate D.
  Qed.

  (* --- the sender between messages, the emplacer --- *)

  Variable I : Type.
  Variable emplace_f : I -> N -> bytes -> bytes * res unit.

  Definition sd_ready (CAP : N) (sd : sender) : Prop :=
    st (sbuf sd) = 0 /\ en (sbuf sd) <= CAP /\ blen (data (sbuf sd)) = CAP.

  (* emplacing i into a whole buffer of CAP bytes succeeds and yields a message of n bytes, 0 < n <= CAP *)
  Definition emplace_good (CAP : N) (i : I) : Prop :=
    forall buf, blen buf = CAP ->
      exists buf' n, emplace_f i 0 buf = (buf', Ok tt) /\ blen buf' = CAP
        /\ size_f buf' = Ok n /\ 0 < n /\ n <= CAP.

  Definition msg_buf (i : I) (buf : bytes) : bytes := fst (emplace_f i 0 buf).
  Definition msg_bytes (i : I) (buf : bytes) : bytes :=
    match size_f (msg_buf i buf) with Ok n => take n (msg_buf i buf) | _ => [] end.
  (* the messages of a run: every emplacement works on the bytes the previous one left *)
  Fixpoint msgs (is : list I) (buf : bytes) : list bytes :=
    match is with [] => [] | i :: r => msg_bytes i buf :: msgs r (msg_buf i buf) end.

  Lemma send_one_shape CAP limit i sd k : sd_ready CAP sd -> emplace_good CAP i ->
    send_one size_f I emplace_f limit i sd k =
    send_blocking size_f limit
      {| sbuf := {| data := msg_buf i (data (sbuf sd)); st := 0; en := CAP |}; poisoned := poisoned sd |} k.
  Proof.
    intros (Hs & He & Hc) Hg. unfold send_one. rewrite (alloc_ready CAP (sbuf sd) Hs He Hc).
    cbn [st en data]. unfold occupied at 1. cbn [st en data]. rewrite N.sub_0_r, drop_0.
    rewrite (take_all CAP (data (sbuf sd))) by lia.
    destruct (Hg (data (sbuf sd)) Hc) as (buf' & n & He1 & Hb & _).
    unfold msg_buf. rewrite He1. cbn [fst]. rewrite take_0. cbn [app].
    rewrite (drop_all CAP (data (sbuf sd))) by lia. rewrite app_nil_r. reflexivity.
  Qed.

  (* one message, sender not poisoned: the sink gains a prefix of the message; the whole message
     exactly when the outcome is SOk; the sender is poisoned exactly by an error after the first byte *)
  Theorem send_one_spec : forall CAP limit i sd k sd1 k1 o,
    sd_ready CAP sd -> emplace_good CAP i -> poisoned sd = false ->
    send_one size_f I emplace_f limit i sd k = (sd1, k1, o) ->
    sd_ready CAP sd1 /\ data (sbuf sd1) = msg_buf i (data (sbuf sd))
    /\ exists p, p <= blen (msg_bytes i (data (sbuf sd)))
      /\ sunk k1 = sunk k ++ take p (msg_bytes i (data (sbuf sd)))
      /\ (o = SOk <-> p = blen (msg_bytes i (data (sbuf sd))))
      /\ poisoned sd1 = is_sio o && negb (p =? 0)
      /\ sout_io o
      /\ (o = SPending -> In WP (wscript k))
      /\ (exists pre, wscript k = pre ++ wscript k1)
      /\ fscript k1 = fscript k
      /\ wcalls k <= wcalls k1.
  Proof.
    intros CAP limit i sd k sd1 k1 o Hr Hg Hpo H.
    rewrite (send_one_shape CAP limit i sd k Hr Hg) in H.
    destruct Hr as (Hs & He & Hc).
    destruct (Hg (data (sbuf sd)) Hc) as (buf' & n & He1 & Hb & Hsz & Hn0 & Hn).
    assert (Hmb : msg_buf i (data (sbuf sd)) = buf') by (unfold msg_buf; rewrite He1; reflexivity).
    assert (Hm : msg_bytes i (data (sbuf sd)) = take n buf') by (unfold msg_bytes; rewrite Hmb, Hsz; reflexivity).
    rewrite Hmb in *. rewrite Hm.
    set (sd2 := {| sbuf := {| data := buf'; st := 0; en := CAP |}; poisoned := poisoned sd |}) in H.
    assert (Hocc : occupied (sbuf sd2) = buf').
    { unfold sd2, occupied. cbn [sbuf st en data]. rewrite N.sub_0_r, drop_0. apply take_all. lia. }
    assert (Hpo2 : poisoned sd2 = false) by exact Hpo.
    assert (Hsz2 : size_f (occupied (sbuf sd2)) = Ok n) by (rewrite Hocc; exact Hsz).
    destruct (send_blocking_spec limit sd2 k n sd1 k1 o Hpo2 Hsz2 H)
      as (p & Hp & S2 & S3 & S4 & S5 & S6 & S7 & S8 & S9 & S10 & S11).
    rewrite Hocc in S2.
    assert (Hbm : blen (take n buf') = n) by (apply blen_take_le; lia).
    assert (Hsd1 : sbuf sd1 = clear (sbuf sd2) \/ sbuf sd1 = sbuf sd2).
    { destruct o; try (right; apply S5; intros D; discriminate D). left. rewrite (S4 eq_refl). reflexivity. }
    split.
    { unfold sd_ready. destruct Hsd1 as [E|E]; rewrite E; unfold sd2; cbn [clear sbuf st en data]; repeat split; lia. }
    split.
    { destruct Hsd1 as [E|E]; rewrite E; reflexivity. }
    exists p. rewrite Hbm. split; [exact Hp|]. split; [rewrite take_take by exact Hp; exact S2|].
    split; [exact S3|]. split; [exact S6|]. split; [exact S7|]. split; [exact S8|].
    split; [exact S9|]. split; [exact S10|exact S11].
  Qed.

  (* a poisoned sender: the emplacement still happens, nothing reaches the pipe *)
  Lemma send_one_poisoned : forall CAP limit i sd k,
    sd_ready CAP sd -> emplace_good CAP i -> poisoned sd = true ->
    exists sd1, send_one size_f I emplace_f limit i sd k = (sd1, k, SPanic)
      /\ sd_ready CAP sd1 /\ poisoned sd1 = true /\ data (sbuf sd1) = msg_buf i (data (sbuf sd)).
  Proof.
    intros CAP limit i sd k Hr Hg Hpo. rewrite (send_one_shape CAP limit i sd k Hr Hg).
    rewrite send_blocking_poisoned_refuses by exact Hpo.
    eexists. split; [reflexivity|]. cbn [sbuf poisoned data].
    destruct Hr as (Hs & He & Hc).
    destruct (Hg (data (sbuf sd)) Hc) as (buf' & n & He1 & Hb & _).
    unfold msg_buf. rewrite He1. cbn [fst]. unfold sd_ready. cbn [sbuf st en data].
    repeat split; try lia; try exact Hpo.
  Qed.

  Theorem send_many_poisoned : forall CAP limit is sd k,
    sd_ready CAP sd -> Forall (emplace_good CAP) is -> poisoned sd = true ->
    send_many size_f I emplace_f limit is sd k = (map (fun _ => SPanic) is, k).
  Proof.
    intros CAP limit is. induction is as [|i r IH]; intros sd k Hr Hall Hpo; [reflexivity|].
    inversion Hall as [|x l Hg Hall']; subst x l.
    destruct (send_one_poisoned CAP limit i sd k Hr Hg Hpo) as (sd1 & E & Hr1 & Hpo1 & _).
    cbn [send_many map]. rewrite E. rewrite (IH sd1 k Hr1 Hall' Hpo1). reflexivity.
  Qed.

  (* --- item 6: accept-only scripts: the sink receives the concatenation of the messages --- *)

  Lemma blen_msg_bytes CAP i buf : emplace_good CAP i -> blen buf = CAP ->
    0 < blen (msg_bytes i buf) /\ blen (msg_bytes i buf) <= CAP /\ blen (msg_buf i buf) = CAP
    /\ size_f (msg_buf i buf) = Ok (blen (msg_bytes i buf)).
  Proof.
    intros Hg Hc. destruct (Hg buf Hc) as (buf' & n & He1 & Hb & Hsz & Hn0 & Hn).
    unfold msg_bytes, msg_buf. rewrite He1. cbn [fst]. rewrite Hsz.
    rewrite blen_take_le by lia. repeat split; try lia; try exact Hb; try exact Hsz.
  Qed.

  Theorem send_one_accept : forall CAP limit i sd k sd1 k1 o,
    sd_ready CAP sd -> emplace_good CAP i -> poisoned sd = false ->
    Forall accepts (wscript k) ->
    wcalls k + blen (msg_bytes i (data (sbuf sd))) <= limit ->
    send_one size_f I emplace_f limit i sd k = (sd1, k1, o) ->
    o = SOk /\ sunk k1 = sunk k ++ msg_bytes i (data (sbuf sd))
    /\ sd_ready CAP sd1 /\ poisoned sd1 = false /\ data (sbuf sd1) = msg_buf i (data (sbuf sd))
    /\ Forall accepts (wscript k1)
    /\ wcalls k1 <= wcalls k + blen (msg_bytes i (data (sbuf sd))).
  Proof.
    intros CAP limit i sd k sd1 k1 o Hr Hg Hpo Hall Hl H.
    pose proof (send_one_spec CAP limit i sd k sd1 k1 o Hr Hg Hpo H) as (R1 & R2 & p & P1 & P2 & P3 & P4 & _).
    rewrite (send_one_shape CAP limit i sd k Hr Hg) in H.
    destruct Hr as (Hs & He & Hc).
    destruct (blen_msg_bytes CAP i (data (sbuf sd)) Hg Hc) as (B1 & B2 & B3 & B4).
    set (m := msg_bytes i (data (sbuf sd))) in *.
    set (sd2 := {| sbuf := {| data := msg_buf i (data (sbuf sd)); st := 0; en := CAP |}; poisoned := poisoned sd |}) in H.
    assert (Hocc : occupied (sbuf sd2) = msg_buf i (data (sbuf sd))).
    { unfold sd2, occupied. cbn [sbuf st en data]. rewrite N.sub_0_r, drop_0. apply take_all. lia. }
    unfold send_blocking in H. replace (poisoned sd2) with false in H by (symmetry; exact Hpo).
    rewrite Hocc, B4 in H.
    destruct (write_loop (S (N.to_nat (blen m))) limit 0 (blen m) sd2 k []) as [[[[sd' k'] pos'] evs'] o'] eqn:Hw.
    assert (Hfu : (N.to_nat (blen m - 0) < S (N.to_nat (blen m)))%nat) by lia.
    assert (H0 : 0 <= blen m) by lia.
    assert (Hcb : blen m <= blen (occupied (sbuf sd2))) by (rewrite Hocc; lia).
    assert (Hl0 : wcalls k + (blen m - 0) <= limit) by lia.
    destruct (write_loop_all_accept _ _ _ _ _ _ _ _ _ _ _ _ Hw Hall Hcb H0 Hfu Hl0) as (A1 & A2 & A3 & A4).
    destruct (write_loop_bounded _ _ _ _ _ _ _ _ _ _ _ _ Hw H0 Hfu Hl0) as (_ & C2 & C3 & _).
    subst o'. inversion H; subst sd1 k1 o.
    assert (Hp : p = blen m) by (apply P3; reflexivity). subst p.
    rewrite (take_all (blen m) m) in P2 by lia.
    split; [reflexivity|]. split; [exact P2|]. split; [exact R1|].
    split; [rewrite P4; reflexivity|]. split; [exact R2|]. split; [exact A4|lia].
  Qed.

  Theorem send_many_stream : forall CAP limit is sd k outs k',
    sd_ready CAP sd -> Forall (emplace_good CAP) is -> poisoned sd = false ->
    Forall accepts (wscript k) ->
    wcalls k + blen (concat (msgs is (data (sbuf sd)))) <= limit ->
    send_many size_f I emplace_f limit is sd k = (outs, k') ->
    outs = map (fun _ => SOk) is
    /\ sunk k' = sunk k ++ concat (msgs is (data (sbuf sd)))
    /\ Forall accepts (wscript k').
  Proof.
    intros CAP limit is. induction is as [|i r IH]; intros sd k outs k' Hr Hall Hpo Hacc Hl H.
    - cbn [send_many] in H. inversion H; subst. cbn [msgs concat map]. rewrite app_nil_r.
      repeat split. exact Hacc.
    - inversion Hall as [|x l Hg Hall']; subst x l.
      cbn [send_many] in H. cbn [msgs concat] in Hl |- *. rewrite blen_app in Hl.
      destruct (send_one size_f I emplace_f limit i sd k) as [[sd1 k1] o] eqn:E.
      assert (Hl1 : wcalls k + blen (msg_bytes i (data (sbuf sd))) <= limit) by lia.
      destruct (send_one_accept CAP limit i sd k sd1 k1 o Hr Hg Hpo Hacc Hl1 E)
        as (O1 & O2 & O3 & O4 & O5 & O6 & O7).
      subst o.
      destruct (send_many size_f I emplace_f limit r sd1 k1) as [outs1 k2] eqn:E2.
      cbn [fst snd] in H. inversion H; subst outs k'.
      rewrite <- O5 in *.
      assert (Hl2 : wcalls k1 + blen (concat (msgs r (data (sbuf sd1)))) <= limit) by lia.
      destruct (IH sd1 k1 outs1 k2 O3 Hall' O4 O6 Hl2 E2) as (J1 & J2 & J3).
      split; [cbn [map]; rewrite J1; reflexivity|].
      split; [rewrite J2, O2, <- app_assoc; reflexivity|exact J3].
  Qed.

  (* --- item 5: any blocking script: whole messages, then at most one proper prefix, then nothing --- *)

  (* the messages whose send returned SOk *)
  Fixpoint oks (outs : list sout) (ms : list bytes) : list bytes :=
    match outs, ms with
    | o :: outs', m :: ms' => match o with SOk => m :: oks outs' ms' | _ => oks outs' ms' end
    | _, _ => []
    end.

  Lemma oks_panic : forall (r : list I) ms, oks (map (fun _ => SPanic) r) ms = [].
  Proof. induction r as [|i r IH]; intros ms; [reflexivity|]. destruct ms as [|m ms]; [reflexivity|]. cbn [map oks]. apply IH. Qed.

  Lemma in_map_const {X} (r : list X) (c o : sout) : In o (map (fun _ => c) r) -> o = c.
  Proof. induction r as [|x r IH]; cbn [map In]; [intros []|intros [H|H]; [symmetry; exact H|apply IH; exact H]]. Qed.

  Definition framed (ms : list bytes) (outs : list sout) (gain : bytes) : Prop :=
    exists partial, gain = concat (oks outs ms) ++ partial
      /\ (partial = [] \/
          exists j m p, nth_error ms j = Some m /\ partial = take p m /\ 0 < p /\ p < blen m
            /\ (forall o, nth_error outs j = Some o -> (exists e, o = SIo e) \/ o = SHang)
            /\ (forall o, In o (skipn (S j) outs) -> o = SPanic)
            /\ oks outs ms = oks (firstn j outs) ms).

  Lemma framed_cons_ok m ms outs gain : framed ms outs gain -> framed (m :: ms) (SOk :: outs) (m ++ gain).
  Proof.
    intros (partial & Hg & Hp). exists partial. split.
    - cbn [oks concat]. rewrite Hg, app_assoc. reflexivity.
    - destruct Hp as [Hp|(j & m' & p & H1 & H2 & H3 & H4 & H5 & H6 & H7)]; [left; exact Hp|right].
      exists (S j), m', p. cbn [nth_error skipn firstn oks]. repeat split; try assumption.
      rewrite H7. reflexivity.
  Qed.

  Lemma framed_cons_skip m ms outs gain o : o <> SOk -> framed ms outs gain -> framed (m :: ms) (o :: outs) gain.
  Proof.
    intros Ho (partial & Hg & Hp).
    assert (Hoks : forall l, oks (o :: l) (m :: ms) = oks l ms) by (intros l; destruct o; try reflexivity; contradiction).
    exists partial. split.
    - rewrite Hoks. exact Hg.
    - destruct Hp as [Hp|(j & m' & p & H1 & H2 & H3 & H4 & H5 & H6 & H7)]; [left; exact Hp|right].
      exists (S j), m', p. cbn [nth_error skipn firstn]. rewrite !Hoks. repeat split; assumption.
  Qed.

  Theorem send_many_sink_framed : forall CAP limit is sd k outs k',
    sd_ready CAP sd -> Forall (emplace_good CAP) is -> poisoned sd = false ->
    ~ In WP (wscript k) ->
    send_many size_f I emplace_f limit is sd k = (outs, k') ->
    exists gain, sunk k' = sunk k ++ gain /\ framed (msgs is (data (sbuf sd))) outs gain.
  Proof.
    intros CAP limit is. induction is as [|i r IH]; intros sd k outs k' Hr Hall Hpo Hwp H.
    - cbn [send_many] in H. inversion H; subst. exists []. split; [rewrite app_nil_r; reflexivity|].
      exists []. split; [reflexivity|left; reflexivity].
    - inversion Hall as [|x l Hg Hall']; subst x l.
      cbn [send_many] in H. cbn [msgs].
      destruct (send_one size_f I emplace_f limit i sd k) as [[sd1 k1] o] eqn:E.
      destruct (send_one_spec CAP limit i sd k sd1 k1 o Hr Hg Hpo E)
        as (R1 & R2 & p & P1 & P2 & P3 & P4 & P5 & P6 & (pre & P7) & _).
      set (m := msg_bytes i (data (sbuf sd))) in *.
      assert (Hwp1 : ~ In WP (wscript k1)).
      { intros Hin. apply Hwp. rewrite P7. apply in_or_app. right. exact Hin. }
      rewrite <- R2.
      (* the cases where the run goes on with sender sd1 *)
      assert (Hgo : forall outs1 k2, send_many size_f I emplace_f limit r sd1 k1 = (outs1, k2) ->
                o <> SOk -> o <> SHang -> (outs, k') = (o :: outs1, k2) ->
                exists gain, sunk k' = sunk k ++ gain /\ framed (m :: msgs r (data (sbuf sd1))) outs gain).
      { intros outs1 k2 E2 Hno Hnh Eo. inversion Eo; subst outs k'.
        assert (Hpne : p <> blen m) by (intros D; apply Hno; apply P3; exact D).
        assert (Hio : is_sio o = true).
        { destruct P5 as [D|[[e D]|[D|D]]]; subst o; try reflexivity; try contradiction.
          exfalso. apply Hwp. apply P6. reflexivity. }
        rewrite Hio in P4. cbn [andb] in P4.
        destruct (N.eqb_spec p 0) as [Hp0|Hp0]; cbn [negb] in P4.
        - subst p. rewrite take_0, app_nil_r in P2.
          destruct (IH sd1 k1 outs1 k2 R1 Hall' P4 Hwp1 E2) as (gain & G1 & G2).
          exists gain. split; [rewrite G1, P2; reflexivity|]. apply framed_cons_skip; assumption.
        - rewrite (send_many_poisoned CAP limit r sd1 k1 R1 Hall' P4) in E2. inversion E2; subst outs1 k2.
          exists (take p m). split; [exact P2|].
          assert (Hoks : oks (o :: map (fun _ => SPanic) r) (m :: msgs r (data (sbuf sd1))) = []).
          { destruct o; try (cbn [oks]; apply oks_panic). contradiction. }
          exists (take p m). split; [rewrite Hoks; reflexivity|]. right.
          exists 0%nat, m, p. cbn [nth_error skipn firstn]. repeat split; try lia.
          + intros o0 Ho0. inversion Ho0; subst o0. destruct o; try discriminate Hio. left. exists e. reflexivity.
          + intros o0 Ho0. apply (in_map_const r SPanic o0 Ho0).
          + rewrite Hoks. reflexivity. }
      destruct (send_many size_f I emplace_f limit r sd1 k1) as [outs1 k2] eqn:E2.
      cbn [fst snd] in H.
      destruct o.
      + (* SOk *)
        inversion H; subst outs k'.
        assert (Hp : p = blen m) by (apply P3; reflexivity). subst p.
        rewrite (take_all (blen m) m) in P2 by lia. rewrite orb_false_r in P4 || cbn [is_sio andb] in P4.
        destruct (IH sd1 k1 outs1 k2 R1 Hall' P4 Hwp1 E2) as (gain & G1 & G2).
        exists (m ++ gain). split; [rewrite G1, P2, <- app_assoc; reflexivity|].
        apply framed_cons_ok. exact G2.
      + symmetry in H. apply (Hgo outs1 k2 eq_refl); [intros D; discriminate D|intros D; discriminate D|exact H].
      + symmetry in H. apply (Hgo outs1 k2 eq_refl); [intros D; discriminate D|intros D; discriminate D|exact H].
      + symmetry in H. apply (Hgo outs1 k2 eq_refl); [intros D; discriminate D|intros D; discriminate D|exact H].
      + (* SHang: the run stops *)
        inversion H; subst outs k'.
        assert (Hpne : p <> blen m) by (intros D; apply P3 in D; discriminate D).
        exists (take p m). split; [exact P2|].
        exists (take p m). split; [reflexivity|].
        destruct (N.eqb_spec p 0) as [Hp0|Hp0]; [left; subst p; reflexivity|right].
        exists 0%nat, m, p. cbn [nth_error skipn firstn]. repeat split; try lia.
        * intros o0 Ho0. inversion Ho0; subst o0. right. reflexivity.
        * intros o0 [].
      + symmetry in H. apply (Hgo outs1 k2 eq_refl); [intros D; discriminate D|intros D; discriminate D|exact H].
  Qed.
End SendMsg.

(* ---------- async send: asend_poll ---------- *)

Definition fdir_of (k : sink) : fdir := match fscript k with [] => FO | d :: _ => d end.
Definition sink_flushed (k : sink) : sink :=
  {| sunk := sunk k; wscript := wscript k; fscript := tl (fscript k); wcalls := wcalls k |}.
Definition is_fp (e : wev) : bool := match e with EvFP => true | _ => false end.

Lemma asend_poll_S fuel limit polls pos count sd k evs :
  asend_poll (S fuel) limit polls pos count sd k evs =
  if limit <=? polls then (sd, k, polls, evs, SHang)
  else if poisoned sd then (sd, k, polls + 1, evs, SPanic)
  else
    match write_loop (S (N.to_nat count)) limit pos count sd k evs with
    | (sd1, k1, pos1, evs1, SOk) =>
        match fdir_of k1 with
        | FO => ({| sbuf := clear (sbuf sd1); poisoned := poisoned sd1 |}, sink_flushed k1, polls + 1, EvFO :: evs1, SOk)
        | FE e => (sd1, sink_flushed k1, polls + 1, EvFE :: evs1, SIo e)
        | FP => asend_poll fuel limit (polls + 1) pos1 count sd1 (sink_flushed k1) (EvFP :: evs1)
        end
    | (sd1, k1, pos1, evs1, SPending) => asend_poll fuel limit (polls + 1) pos1 count sd1 k1 evs1
    | (sd1, k1, pos1, evs1, o) => (sd1, k1, polls + 1, evs1, o)
    end.
Proof. reflexivity. Qed.

Lemma write_loop_done fuel limit pos count sd k evs : count <= pos ->
  write_loop (S fuel) limit pos count sd k evs = (sd, k, pos, evs, SOk).
Proof. intros H. rewrite write_loop_S. destruct (N.ltb_spec pos count) as [Hlt|_]; [lia|reflexivity]. Qed.

Lemma sunk_join (s occ : bytes) pos pos1 b :
  pos <= pos1 ->
  (s ++ take (pos1 - pos) (drop pos occ)) ++ take b (drop pos1 occ)
  = s ++ take (b + (pos1 - pos)) (drop pos occ).
Proof.
  intros H. rewrite (N.add_comm b), take_plus, drop_drop, app_assoc.
  replace (pos + (pos1 - pos)) with pos1 by lia. reflexivity.
Qed.

(* the shape of every async run: write events (newest first), then flush events; the sink gains
   exactly the bytes of the write events, consecutively from pos; a flush is only ever issued when
   the whole message has been handed over; SOk only after a successful flush *)
Definition ap_post (pos count : N) (sd : sender) (k : sink) (evs : list wev) (polls : N)
    (sd' : sender) (k' : sink) (polls' : N) (evs' : list wev) (o : sout) : Prop :=
  exists fl wr,
    evs' = fl ++ wr ++ evs
    /\ forallb is_wev wr = true /\ forallb is_fev fl = true
    /\ pos + ev_bytes wr <= count
    /\ sunk k' = sunk k ++ take (ev_bytes wr) (drop pos (occupied (sbuf sd)))
    /\ (pos = count -> wr = [])
    /\ (fl <> [] -> pos + ev_bytes wr = count)
    /\ (o = SOk -> (exists fl', fl = EvFO :: fl' /\ forallb is_fp fl' = true)
                   /\ sbuf sd' = clear (sbuf sd) /\ poisoned sd' = poisoned sd)
    /\ (forall fl', fl = EvFE :: fl' -> exists e, o = SIo e /\ In (FE e) (fscript k))
    /\ polls <= polls'.

Lemma ap_post_here pos count sd k evs polls polls' o :
  pos <= count -> o <> SOk -> polls <= polls' -> ap_post pos count sd k evs polls sd k polls' evs o.
Proof.
  intros Hpc Ho Hp. exists [], []. cbn [app forallb ev_bytes]. rewrite N.add_0_r, take_0, app_nil_r.
  repeat split; try assumption; try contradiction; try (intros; reflexivity).
  intros fl' D; discriminate D.
Qed.

Lemma asend_poll_shape : forall fuel limit polls count sd pos k evs sd' k' polls' evs' o,
  asend_poll fuel limit polls pos count sd k evs = (sd', k', polls', evs', o) ->
  pos <= count ->
  ap_post pos count sd k evs polls sd' k' polls' evs' o.
Proof.
  induction fuel as [|fuel IH]; intros limit polls count sd pos k evs sd' k' polls' evs' o H Hp.
  - cbn [asend_poll] in H. inversion H; subst. apply ap_post_here; [exact Hp|intros D; discriminate D|lia].
  - rewrite asend_poll_S in H.
    destruct (N.leb_spec limit polls) as [Hl|Hl].
    { inversion H; subst. apply ap_post_here; [exact Hp|intros D; discriminate D|lia]. }
    destruct (poisoned sd) eqn:Hpo.
    { inversion H; subst. apply ap_post_here; [exact Hp|intros D; discriminate D|lia]. }
    destruct (write_loop (S (N.to_nat count)) limit pos count sd k evs) as [[[[sd1 k1] pos1] evs1] o1] eqn:Hw.
    assert (Hdone : pos = count -> evs1 = evs /\ o1 = SOk).
    { intros E. rewrite write_loop_done in Hw by lia. inversion Hw; subst. split; reflexivity. }
    apply write_loop_inv in Hw.
    destruct Hw as (I1 & I2 & I3 & I4 & I5 & I6 & I7 & I8 & I9 & (wr1 & W1 & W2 & W3) & I11 & I12 & I13 & I14 & I15).
    specialize (I3 Hp).
    assert (Hwr1 : pos = count -> wr1 = []).
    { intros E. destruct (Hdone E) as [E1 _]. rewrite E1 in W1.
      apply (app_inv_tail evs wr1 []). symmetry. exact W1. }
    (* outcomes that end the poll without a flush *)
    assert (Hend : o1 <> SOk -> o1 <> SPending -> (sd', k', polls', evs', o) = (sd1, k1, polls + 1, evs1, o1) ->
                   ap_post pos count sd k evs polls sd' k' polls' evs' o).
    { intros N1 N2 E. inversion E; subst sd' k' polls' evs' o.
      exists [], wr1. cbn [app forallb]. rewrite W3.
      split; [exact W1|]. split; [exact W2|]. split; [reflexivity|]. split; [lia|].
      split; [exact I4|]. split; [exact Hwr1|].
      split; [intros D; exfalso; apply D; reflexivity|].
      split; [intros D; contradiction|].
      split; [intros fl' D; discriminate D|lia]. }
    destruct o1; try (symmetry in H; apply Hend; [intros D; discriminate D|intros D; discriminate D|exact H]).
    + (* the write phase is complete: flush *)
      assert (Hc : pos1 = count) by (apply I11; [exact Hp|reflexivity]). subst pos1.
      assert (Hsd : sd1 = sd) by (apply I6; reflexivity). subst sd1.
      assert (Hfo : (sd', k', polls', evs', o) =
                    ({| sbuf := clear (sbuf sd); poisoned := poisoned sd |}, sink_flushed k1, polls + 1, EvFO :: evs1, SOk) ->
                    ap_post pos count sd k evs polls sd' k' polls' evs' o).
      { intros E. inversion E; subst sd' k' polls' evs' o. exists [EvFO], wr1.
        cbn [app forallb is_fev sink_flushed sunk sbuf poisoned andb]. rewrite W3.
        split; [rewrite W1; reflexivity|]. split; [exact W2|]. split; [reflexivity|]. split; [lia|].
        split; [exact I4|]. split; [exact Hwr1|]. split; [intros _; lia|].
        split. { intros _. split; [exists []; split; reflexivity|split; reflexivity]. }
        split; [intros fl' D; discriminate D|lia]. }
      unfold fdir_of in H. rewrite I8 in H.
      destruct (fscript k) as [|d t] eqn:Hf.
      { apply Hfo. symmetry. exact H. }
      destruct d as [|e|].
      * apply Hfo. symmetry. exact H.
      * inversion H; subst sd' k' polls' evs' o. exists [EvFE], wr1.
        cbn [app forallb is_fev sink_flushed sunk andb]. rewrite W3.
        split; [rewrite W1; reflexivity|]. split; [exact W2|]. split; [reflexivity|]. split; [lia|].
        split; [exact I4|]. split; [exact Hwr1|]. split; [intros _; lia|].
        split; [intros D; discriminate D|].
        split; [intros fl' D; exists e; split; [reflexivity|rewrite Hf; left; reflexivity]|lia].
      * apply IH in H; [|lia].
        destruct H as (fl2 & wr2 & A1 & A2 & A3 & A4 & A5 & A6 & A7 & A8 & A9 & A10).
        rewrite (A6 eq_refl) in *. cbn [app ev_bytes] in *. rewrite take_0, app_nil_r in A5. cbn [sink_flushed sunk] in A5.
        exists (fl2 ++ [EvFP]), wr1. rewrite W3.
        split; [rewrite A1, W1, <- app_assoc; reflexivity|].
        split; [exact W2|]. split; [rewrite forallb_app, A3; reflexivity|].
        split; [lia|]. split; [rewrite A5; exact I4|]. split; [exact Hwr1|].
        split; [intros _; lia|].
        split.
        { intros Ho. destruct (A8 Ho) as ((fl' & F1 & F2) & F3 & F4). split.
          - exists (fl' ++ [EvFP]). split; [rewrite F1; reflexivity|rewrite forallb_app, F2; reflexivity].
          - split; assumption. }
        split.
        { intros fl' E. destruct fl2 as [|x fl2]; [discriminate E|]. cbn [app] in E. inversion E; subst x.
          destruct (A9 fl2 eq_refl) as (e & E1 & E2). exists e. split; [exact E1|].
          cbn [sink_flushed fscript] in E2. rewrite I8 in E2. cbn [tl] in E2. rewrite Hf. right. exact E2. }
        lia.
    + (* Pending in the write phase: the next poll resumes at pos1 *)
      assert (Hsd : sd1 = sd) by (apply I6; reflexivity). subst sd1.
      assert (Hne : pos <> count) by (intros E; destruct (Hdone E) as [_ D]; discriminate D).
      apply IH in H; [|exact I3].
      destruct H as (fl2 & wr2 & A1 & A2 & A3 & A4 & A5 & A6 & A7 & A8 & A9 & A10).
      exists fl2, (wr2 ++ wr1). rewrite ev_bytes_app, W3.
      split; [rewrite A1, W1, <- app_assoc; reflexivity|].
      split; [rewrite forallb_app, A2, W2; reflexivity|]. split; [exact A3|].
      split; [lia|]. split; [rewrite A5, I4; apply sunk_join; exact I2|].
      split; [intros E; contradiction|]. split; [intros F; specialize (A7 F); lia|].
      split; [exact A8|].
      split; [intros fl' E; destruct (A9 fl' E) as (e & E1 & E2); exists e; split; [exact E1|rewrite <- I8; exact E2]|].
      lia.
Qed.

(* item 7 (a): whatever happened so far, the sink holds a prefix of the message *)
Theorem asend_poll_prefix : forall fuel limit polls count sd pos k evs sd' k' polls' evs' o,
  asend_poll fuel limit polls pos count sd k evs = (sd', k', polls', evs', o) ->
  pos <= count ->
  exists pos', pos <= pos' /\ pos' <= count
    /\ sunk k' = sunk k ++ take (pos' - pos) (drop pos (occupied (sbuf sd)))
    /\ (o = SOk -> pos' = count) /\ polls <= polls'.
Proof.
  intros fuel limit polls count sd pos k evs sd' k' polls' evs' o H Hp.
  destruct (asend_poll_shape _ _ _ _ _ _ _ _ _ _ _ _ _ H Hp)
    as (fl & wr & A1 & A2 & A3 & A4 & A5 & A6 & A7 & A8 & A9 & A10).
  exists (pos + ev_bytes wr). replace (pos + ev_bytes wr - pos) with (ev_bytes wr) by lia.
  split; [lia|]. split; [exact A4|]. split; [exact A5|]. split; [|exact A10].
  intros Ho. apply A7. destruct (A8 Ho) as ((fl' & F1 & _) & _). rewrite F1. intros D; discriminate D.
Qed.

(* item 7 (b): completion: the whole message is in the sink; the newest event is the successful
   flush, before it only pending flushes, before those the write events, which account for every
   byte of the message; the buffer is cleared *)
Theorem asend_flush_last : forall fuel limit polls count sd pos k evs sd' k' polls' evs',
  asend_poll fuel limit polls pos count sd k evs = (sd', k', polls', evs', SOk) ->
  pos <= count ->
  sunk k' = sunk k ++ take (count - pos) (drop pos (occupied (sbuf sd)))
  /\ (exists fl wr, evs' = EvFO :: fl ++ wr ++ evs
        /\ forallb is_fp fl = true /\ forallb is_wev wr = true /\ ev_bytes wr = count - pos)
  /\ sbuf sd' = clear (sbuf sd) /\ poisoned sd' = poisoned sd.
Proof.
  intros fuel limit polls count sd pos k evs sd' k' polls' evs' H Hp.
  destruct (asend_poll_shape _ _ _ _ _ _ _ _ _ _ _ _ _ H Hp)
    as (fl & wr & A1 & A2 & A3 & A4 & A5 & A6 & A7 & A8 & A9 & A10).
  destruct (A8 eq_refl) as ((fl' & F1 & F2) & F3 & F4).
  assert (Hb : pos + ev_bytes wr = count) by (apply A7; rewrite F1; intros D; discriminate D).
  assert (Hb' : ev_bytes wr = count - pos) by lia.
  split; [rewrite A5, Hb'; reflexivity|].
  split; [|split; assumption].
  exists fl', wr. split; [rewrite A1, F1; reflexivity|]. split; [exact F2|]. split; [exact A2|exact Hb'].
Qed.

(* item 8, by the events: if the newest event is a failed flush, the outcome is that error and the
   sink holds the whole message *)
Theorem asend_flush_error_events : forall fuel limit polls count sd pos k evs sd' k' polls' evs' o fl wr,
  asend_poll fuel limit polls pos count sd k evs = (sd', k', polls', evs', o) ->
  pos <= count ->
  evs' = EvFE :: fl ++ wr ++ evs -> forallb is_fev fl = true -> forallb is_wev wr = true ->
  (exists e, o = SIo e /\ In (FE e) (fscript k))
  /\ sunk k' = sunk k ++ take (count - pos) (drop pos (occupied (sbuf sd))).
Proof.
  intros fuel limit polls count sd pos k evs sd' k' polls' evs' o fl wr H Hp He Hfl Hwr.
  destruct (asend_poll_shape _ _ _ _ _ _ _ _ _ _ _ _ _ H Hp)
    as (fl2 & wr2 & A1 & A2 & A3 & A4 & A5 & A6 & A7 & A8 & A9 & A10).
  (* the decomposition into flush events and write events is unique *)
  assert (Hhd : exists fl2', fl2 = EvFE :: fl2').
  { rewrite A1 in He. destruct fl2 as [|x fl2].
    - exfalso. cbn [app] in He. destruct wr2 as [|y wr2].
      + cbn [app] in He. apply (f_equal (@length wev)) in He. cbn [length] in He.
        rewrite !app_length in He. lia.
      + cbn [app] in He. inversion He; subst y. cbn [forallb is_wev andb] in A2. discriminate A2.
    - cbn [app] in He. inversion He; subst x. exists fl2. reflexivity. }
  destruct Hhd as (fl2' & F). split; [apply (A9 fl2' F)|].
  assert (Hb : pos + ev_bytes wr2 = count) by (apply A7; rewrite F; intros D; discriminate D).
  rewrite A5. f_equal. f_equal. lia.
Qed.

(* scripts without write faults: accept (>= 1 byte) or Pending *)
Definition accepts_or_pending (w : wdir) : Prop := accepts w \/ w = WP.

Lemma write_loop_no_fault : forall fuel limit count sd pos k evs sd' k' pos' evs' o,
  write_loop fuel limit pos count sd k evs = (sd', k', pos', evs', o) ->
  Forall accepts_or_pending (wscript k) ->
  count <= blen (occupied (sbuf sd)) ->
  is_sio o = false /\ Forall accepts_or_pending (wscript k').
Proof.
  induction fuel as [|fuel IH]; intros limit count sd pos k evs sd' k' pos' evs' o H Hall Hc.
  { cbn [write_loop] in H. inversion H; subst. split; [reflexivity|exact Hall]. }
  rewrite write_loop_S in H.
  destruct (N.ltb_spec pos count) as [Hlt|Hge].
  2:{ inversion H; subst. split; [reflexivity|exact Hall]. }
  destruct (N.ltb_spec limit (wcalls k + 1)) as [Hl1|_].
  { inversion H; subst. split; [reflexivity|exact Hall]. }
  assert (Hd : accepts_or_pending (wdir_of k (offered_of pos count sd))).
  { unfold wdir_of. destruct (wscript k) as [|d t].
    - left. exists (blen (offered_of pos count sd) + 1). split; [reflexivity|lia].
    - inversion Hall; assumption. }
  destruct Hd as [(n0 & Hd & Hn0)|Hd]; rewrite Hd in H.
  - rewrite (blen_offered_le pos count sd Hc) in H.
    set (n := umin n0 (count - pos)) in H.
    assert (Hn : n = N.min n0 (count - pos)) by (unfold n; apply umin_spec).
    destruct (N.eqb_spec n 0) as [Hz|Hnz]; [lia|].
    apply IH in H; [exact H| |exact Hc].
    cbn [sink_acc wscript]. apply Forall_tl. exact Hall.
  - inversion H; subst. split; [reflexivity|]. cbn [sink_fault wscript]. apply Forall_tl. exact Hall.
Qed.

(* item 8, by the scripts: no write fault, the flush script answers Pending j times and then FE e:
   unless the watchdog fires, the outcome is SIo e, the sink holds the whole message, the buffer
   is not cleared and the sender is not poisoned *)
Theorem asend_flush_error : forall fuel j limit polls count sd pos k evs e rest sd' k' polls' evs' o,
  asend_poll fuel limit polls pos count sd k evs = (sd', k', polls', evs', o) ->
  poisoned sd = false -> pos <= count -> count <= blen (occupied (sbuf sd)) ->
  Forall accepts_or_pending (wscript k) ->
  fscript k = repeat FP j ++ FE e :: rest ->
  o <> SHang ->
  o = SIo e
  /\ sunk k' = sunk k ++ take (count - pos) (drop pos (occupied (sbuf sd)))
  /\ fscript k' = rest /\ sd' = sd
  /\ exists evs'', evs' = EvFE :: evs''.
Proof.
  induction fuel as [|fuel IH]; intros j limit polls count sd pos k evs e rest sd' k' polls' evs' o H Hpo Hp Hc Hall Hf Hnh.
  { cbn [asend_poll] in H. inversion H; subst. contradiction. }
  rewrite asend_poll_S in H.
  destruct (N.leb_spec limit polls) as [Hl|Hl].
  { inversion H; subst. contradiction. }
  rewrite Hpo in H.
  destruct (write_loop (S (N.to_nat count)) limit pos count sd k evs) as [[[[sd1 k1] pos1] evs1] o1] eqn:Hw.
  destruct (write_loop_no_fault _ _ _ _ _ _ _ _ _ _ _ _ Hw Hall Hc) as (Hnf & Hall1).
  apply write_loop_inv in Hw.
  destruct Hw as (I1 & I2 & I3 & I4 & I5 & I6 & I7 & I8 & I9 & I10 & I11 & I12 & I13 & I14 & I15).
  specialize (I3 Hp). specialize (I6 Hnf). subst sd1.
  destruct o1; try discriminate Hnf.
  - (* write phase complete *)
    assert (Hc1 : pos1 = count) by (apply I11; [exact Hp|reflexivity]). subst pos1.
    unfold fdir_of in H. rewrite I8, Hf in H.
    destruct j as [|j]; cbn [repeat app] in H.
    + inversion H; subst sd' k' polls' evs' o.
      split; [reflexivity|]. split; [exact I4|]. split; [cbn [sink_flushed fscript]; rewrite I8, Hf; reflexivity|].
      split; [reflexivity|]. exists evs1. reflexivity.
    + apply (IH j) with (e := e) (rest := rest) in H; try assumption; try lia.
      * destruct H as (H1 & H2 & H3 & H4 & H5). split; [exact H1|].
        split; [|split; [exact H3|split; [exact H4|exact H5]]].
        rewrite H2. cbn [sink_flushed sunk]. rewrite N.sub_diag, take_0, app_nil_r. exact I4.
      * cbn [sink_flushed fscript]. rewrite I8, Hf. reflexivity.
  - (* SEmplace: not an outcome of the loop *)
    exfalso. destruct I13 as [D|[[e0 D]|[D|D]]]; discriminate D.
  - exfalso. destruct I13 as [D|[[e0 D]|[D|D]]]; discriminate D.
  - inversion H; subst. contradiction.
  - (* Pending *)
    apply (IH j) with (e := e) (rest := rest) in H; try assumption.
    + destruct H as (H1 & H2 & H3 & H4 & H5). split; [exact H1|].
      split; [|split; [exact H3|split; [exact H4|exact H5]]].
      rewrite H2, I4. rewrite sunk_join by exact I2. f_equal. f_equal. lia.
    + rewrite I8. exact Hf.
Qed.

(* the one-step lemmas: a Pending write and a Pending flush change nothing but the poll count,
   the script position and the event list *)
Lemma write_loop_WP_step fuel limit pos count sd k evs t :
  wscript k = WP :: t -> pos < count -> wcalls k + 1 <= limit ->
  write_loop (S fuel) limit pos count sd k evs = (sd, sink_fault k, pos, EvWP :: evs, SPending).
Proof.
  intros Hs Hlt Hl. rewrite write_loop_S.
  destruct (N.ltb_spec pos count) as [_|Hge]; [|lia].
  destruct (N.ltb_spec limit (wcalls k + 1)) as [Hl1|_]; [lia|].
  unfold wdir_of. rewrite Hs. reflexivity.
Qed.

Theorem asend_poll_WP_step fuel limit polls pos count sd k evs t :
  wscript k = WP :: t -> pos < count -> wcalls k + 1 <= limit -> polls < limit -> poisoned sd = false ->
  asend_poll (S fuel) limit polls pos count sd k evs =
  asend_poll fuel limit (polls + 1) pos count sd (sink_fault k) (EvWP :: evs).
Proof.
  intros Hs Hlt Hl Hpl Hpo. rewrite asend_poll_S.
  destruct (N.leb_spec limit polls) as [Hl1|_]; [lia|]. rewrite Hpo.
  rewrite (write_loop_WP_step _ limit pos count sd k evs t Hs Hlt Hl). reflexivity.
Qed.

Theorem asend_poll_FP_step fuel limit polls count sd k evs t :
  fscript k = FP :: t -> polls < limit -> poisoned sd = false ->
  asend_poll (S fuel) limit polls count count sd k evs =
  asend_poll fuel limit (polls + 1) count count sd (sink_flushed k) (EvFP :: evs).
Proof.
  intros Hs Hpl Hpo. rewrite asend_poll_S.
  destruct (N.leb_spec limit polls) as [Hl1|_]; [lia|]. rewrite Hpo.
  rewrite write_loop_done by lia. unfold fdir_of. rewrite Hs. reflexivity.
Qed.

(* ---------- item 7 (c): Pending directives are transparent ---------- *)

Lemma write_loop_fuel : forall f1 f2 limit count sd pos k evs,
  (N.to_nat (count - pos) < f1)%nat -> (N.to_nat (count - pos) < f2)%nat ->
  write_loop f1 limit pos count sd k evs = write_loop f2 limit pos count sd k evs.
Proof.
  induction f1 as [|f1 IH]; intros f2 limit count sd pos k evs H1 H2; [lia|].
  destruct f2 as [|f2]; [lia|]. rewrite !write_loop_S.
  destruct (N.ltb_spec pos count) as [Hlt|Hge]; [|reflexivity].
  destruct (N.ltb_spec limit (wcalls k + 1)) as [Hl1|_]; [reflexivity|].
  destruct (wdir_of k (offered_of pos count sd)) as [n0| |e|]; try reflexivity.
  destruct (N.eqb_spec (umin n0 (blen (offered_of pos count sd))) 0) as [Hz|Hnz]; [reflexivity|].
  apply IH; lia.
Qed.

Definition not_wp (d : wdir) : bool := match d with WP => false | _ => true end.
Definition not_fp (d : fdir) : bool := match d with FP => false | _ => true end.
(* the same sink with the Pending directives removed *)
Definition strip_pending (k : sink) : sink :=
  {| sunk := sunk k; wscript := filter not_wp (wscript k); fscript := filter not_fp (fscript k);
     wcalls := wcalls k |}.
Definition sink_sim (k kc : sink) : Prop :=
  sunk kc = sunk k /\ wscript kc = filter not_wp (wscript k)
  /\ fscript kc = filter not_fp (fscript k) /\ wcalls kc <= wcalls k.

Lemma wdir_of_sim k kc off d : sink_sim k kc -> wdir_of k off = d -> not_wp d = true ->
  wdir_of kc off = d /\ tl (wscript kc) = filter not_wp (tl (wscript k)).
Proof.
  intros (_ & Hw & _) Hd Hn. unfold wdir_of in *. rewrite Hw.
  destruct (wscript k) as [|d0 t]; [split; [exact Hd|reflexivity]|].
  subst d0. cbn [filter]. rewrite Hn. split; reflexivity.
Qed.

Lemma sim_fault k kc off : sink_sim k kc -> not_wp (wdir_of k off) = true ->
  sink_sim (sink_fault k) (sink_fault kc).
Proof.
  intros Hs Hn. destruct (wdir_of_sim k kc off _ Hs eq_refl Hn) as (_ & Ht).
  destruct Hs as (S1 & S2 & S3 & S4). unfold sink_sim. cbn [sink_fault sunk wscript fscript wcalls].
  repeat split; try assumption. lia.
Qed.

Lemma sim_acc k kc off add : sink_sim k kc -> not_wp (wdir_of k off) = true ->
  sink_sim (sink_acc k add) (sink_acc kc add).
Proof.
  intros Hs Hn. destruct (wdir_of_sim k kc off _ Hs eq_refl Hn) as (_ & Ht).
  destruct Hs as (S1 & S2 & S3 & S4). unfold sink_sim. cbn [sink_acc sunk wscript fscript wcalls].
  repeat split; try assumption; [rewrite S1; reflexivity|lia].
Qed.

(* one write phase on the stripped sink: it reaches the same final result, or — when the original
   stopped at a Pending — it is where the original will resume *)
Lemma wl_sim : forall f limit count sd pos k evs sd1 k1 pos1 evs1 o,
  write_loop f limit pos count sd k evs = (sd1, k1, pos1, evs1, o) -> o <> SHang ->
  forall fc kc evsc, sink_sim k kc -> (N.to_nat (count - pos) < fc)%nat ->
  exists kc1 evsc1, sink_sim k1 kc1 /\
    match o with
    | SPending => write_loop fc limit pos count sd kc evsc = write_loop fc limit pos1 count sd kc1 evsc1
    | _ => write_loop fc limit pos count sd kc evsc = (sd1, kc1, pos1, evsc1, o)
    end.
Proof.
  induction f as [|f IH]; intros limit count sd pos k evs sd1 k1 pos1 evs1 o H Hnh fc kc evsc Hs Hfc.
  { cbn [write_loop] in H. inversion H; subst. contradiction. }
  destruct fc as [|fc]; [lia|].
  rewrite write_loop_S in H. rewrite write_loop_S.
  destruct (N.ltb_spec pos count) as [Hlt|Hge].
  2:{ inversion H; subst. exists kc, evsc. split; [exact Hs|reflexivity]. }
  destruct (N.ltb_spec limit (wcalls k + 1)) as [Hl1|Hl1].
  { inversion H; subst. contradiction. }
  assert (Hcalls : wcalls kc <= wcalls k) by (destruct Hs as (_ & _ & _ & S4); exact S4).
  destruct (N.ltb_spec limit (wcalls kc + 1)) as [Hl2|_]; [lia|].
  destruct (wdir_of k (offered_of pos count sd)) as [n0| |e|] eqn:Hd.
  - destruct (wdir_of_sim k kc _ _ Hs Hd eq_refl) as (Hdc & _). rewrite Hdc.
    assert (Hnw : not_wp (wdir_of k (offered_of pos count sd)) = true) by (rewrite Hd; reflexivity).
    set (n := umin n0 (blen (offered_of pos count sd))) in *.
    destruct (N.eqb_spec n 0) as [Hz|Hnz].
    + inversion H; subst. exists (sink_fault kc), (EvWZ :: evsc).
      split; [apply (sim_fault k kc _ Hs Hnw)|reflexivity].
    + pose proof (write_loop_inv _ _ _ _ _ _ _ _ _ _ _ _ H) as (_ & J2 & _).
      assert (Hn : n <= blen (offered_of pos count sd)) by (unfold n; rewrite umin_spec; lia).
      rewrite blen_offered in Hn.
      destruct (IH _ _ _ _ _ _ _ _ _ _ _ H Hnh fc (sink_acc kc (take n (offered_of pos count sd))) (EvW n :: evsc)
                  (sim_acc k kc _ _ Hs Hnw)) as (kc1 & evsc1 & T1 & T2); [lia|].
      exists kc1, evsc1. split; [exact T1|].
      destruct o; try exact T2.
      rewrite T2. apply write_loop_fuel; lia.
  - destruct (wdir_of_sim k kc _ _ Hs Hd eq_refl) as (Hdc & _). rewrite Hdc.
    assert (Hnw : not_wp (wdir_of k (offered_of pos count sd)) = true) by (rewrite Hd; reflexivity).
    inversion H; subst. exists (sink_fault kc), (EvWZ :: evsc).
    split; [apply (sim_fault k kc _ Hs Hnw)|reflexivity].
  - destruct (wdir_of_sim k kc _ _ Hs Hd eq_refl) as (Hdc & _). rewrite Hdc.
    assert (Hnw : not_wp (wdir_of k (offered_of pos count sd)) = true) by (rewrite Hd; reflexivity).
    inversion H; subst. exists (sink_fault kc), (EvWE :: evsc).
    split; [apply (sim_fault k kc _ Hs Hnw)|reflexivity].
  - inversion H; subst sd1 k1 pos1 evs1 o. exists kc, evsc. split.
    + destruct Hs as (S1 & S2 & S3 & S4). unfold sink_sim. cbn [sink_fault sunk wscript fscript wcalls].
      assert (Hws : exists t, wscript k = WP :: t).
      { unfold wdir_of in Hd. destruct (wscript k) as [|d0 t]; [discriminate Hd|]. subst d0. exists t. reflexivity. }
      destruct Hws as (t & Hws). rewrite Hws in S2. cbn [filter not_wp] in S2. rewrite Hws. cbn [tl].
      repeat split; try assumption. lia.
    + symmetry. rewrite write_loop_S.
      destruct (N.ltb_spec pos count) as [_|D]; [|lia].
      destruct (N.ltb_spec limit (wcalls kc + 1)) as [D|_]; [lia|]. reflexivity.
Qed.

Lemma asend_sim : forall fuel limit polls count sd pos k evs sd' k' polls' evs' o,
  asend_poll fuel limit polls pos count sd k evs = (sd', k', polls', evs', o) ->
  o <> SHang -> pos <= count ->
  forall fuelc pollsc kc evsc, sink_sim k kc -> pollsc <= polls ->
  exists kc' pollsc' evsc',
    asend_poll (S fuelc) limit pollsc pos count sd kc evsc = (sd', kc', pollsc', evsc', o)
    /\ sink_sim k' kc' /\ pollsc' <= polls'.
Proof.
  induction fuel as [|fuel IH]; intros limit polls count sd pos k evs sd' k' polls' evs' o H Hnh Hp fuelc pollsc kc evsc Hs Hpl.
  { cbn [asend_poll] in H. inversion H; subst. contradiction. }
  rewrite asend_poll_S in H.
  destruct (N.leb_spec limit polls) as [Hl|Hl].
  { inversion H; subst. contradiction. }
  assert (Hlc : (limit <=? pollsc) = false) by (apply N.leb_gt; lia).
  destruct (poisoned sd) eqn:Hpo.
  { inversion H; subst. exists kc, (pollsc + 1), evsc. rewrite asend_poll_S, Hlc, Hpo.
    split; [reflexivity|]. split; [exact Hs|lia]. }
  destruct (write_loop (S (N.to_nat count)) limit pos count sd k evs) as [[[[sd1 k1] pos1] evs1] o1] eqn:Hw.
  assert (Hnh1 : o1 <> SHang).
  { intros D. subst o1. inversion H; subst. contradiction. }
  assert (Hfc : (N.to_nat (count - pos) < S (N.to_nat count))%nat) by lia.
  destruct (wl_sim _ _ _ _ _ _ _ _ _ _ _ _ Hw Hnh1 (S (N.to_nat count)) kc evsc Hs Hfc) as (kc1 & evsc1 & T1 & T2).
  pose proof (write_loop_inv _ _ _ _ _ _ _ _ _ _ _ _ Hw)
    as (I1 & I2 & I3 & I4 & I5 & I6 & I7 & I8 & I9 & I10 & I11 & I12 & I13 & I14 & I15).
  specialize (I3 Hp).
  (* outcomes that end the poll *)
  assert (Hend : o1 <> SOk -> o1 <> SPending ->
     write_loop (S (N.to_nat count)) limit pos count sd kc evsc = (sd1, kc1, pos1, evsc1, o1) ->
     (sd', k', polls', evs', o) = (sd1, k1, polls + 1, evs1, o1) ->
     exists kc' pollsc' evsc',
       asend_poll (S fuelc) limit pollsc pos count sd kc evsc = (sd', kc', pollsc', evsc', o)
       /\ sink_sim k' kc' /\ pollsc' <= polls').
  { intros N1 N2 Hc E. inversion E; subst sd' k' polls' evs' o.
    exists kc1, (pollsc + 1), evsc1. rewrite asend_poll_S, Hlc, Hpo, Hc.
    split; [destruct o1; try reflexivity; contradiction|]. split; [exact T1|lia]. }
  destruct o1; try (symmetry in H; apply (Hend ltac:(intros D; discriminate D) ltac:(intros D; discriminate D) T2 H)).
  - (* write phase complete: flush *)
    assert (Hc1 : pos1 = count) by (apply I11; [exact Hp|reflexivity]). subst pos1.
    assert (Hsd : sd1 = sd) by (apply I6; reflexivity). subst sd1.
    destruct T1 as (S1 & S2 & S3 & S4).
    unfold fdir_of in H.
    destruct (fscript k1) as [|d t] eqn:Hf.
    { inversion H; subst sd' k' polls' evs' o.
      exists (sink_flushed kc1), (pollsc + 1), (EvFO :: evsc1). rewrite asend_poll_S, Hlc, Hpo, T2.
      unfold fdir_of. rewrite S3. cbn [filter]. split; [rewrite ?Hpo; reflexivity|]. split; [|lia].
      unfold sink_sim. cbn [sink_flushed sunk wscript fscript wcalls]. rewrite Hf, S3. cbn [filter tl].
      repeat split; assumption. }
    destruct d as [|e|].
    + inversion H; subst sd' k' polls' evs' o.
      exists (sink_flushed kc1), (pollsc + 1), (EvFO :: evsc1). rewrite asend_poll_S, Hlc, Hpo, T2.
      unfold fdir_of. rewrite S3. cbn [filter not_fp]. split; [rewrite ?Hpo; reflexivity|]. split; [|lia].
      unfold sink_sim. cbn [sink_flushed sunk wscript fscript wcalls]. rewrite Hf, S3. cbn [filter not_fp tl].
      repeat split; assumption.
    + inversion H; subst sd' k' polls' evs' o.
      exists (sink_flushed kc1), (pollsc + 1), (EvFE :: evsc1). rewrite asend_poll_S, Hlc, Hpo, T2.
      unfold fdir_of. rewrite S3. cbn [filter not_fp]. split; [rewrite ?Hpo; reflexivity|]. split; [|lia].
      unfold sink_sim. cbn [sink_flushed sunk wscript fscript wcalls]. rewrite Hf, S3. cbn [filter not_fp tl].
      repeat split; assumption.
    + (* Pending flush: the stripped run is already where the original resumes *)
      assert (Hs2 : sink_sim (sink_flushed k1) kc1).
      { unfold sink_sim. cbn [sink_flushed sunk wscript fscript wcalls]. rewrite Hf. cbn [tl].
        rewrite S3. cbn [filter not_fp]. repeat split; assumption. }
      assert (Hpl2 : pollsc <= polls + 1) by lia.
      destruct (IH _ _ _ _ _ _ _ _ _ _ _ _ H Hnh (N.le_refl count) fuelc pollsc kc1 evsc1 Hs2 Hpl2)
        as (kc' & pollsc' & evsc' & E & E1 & E2).
      exists kc', pollsc', evsc'. split; [|split; assumption].
      rewrite asend_poll_S, Hlc, Hpo, write_loop_done in E by lia.
      rewrite asend_poll_S, Hlc, Hpo, T2. exact E.
  - (* Pending write *)
    assert (Hsd : sd1 = sd) by (apply I6; reflexivity). subst sd1.
    assert (Hpl2 : pollsc <= polls + 1) by lia.
    destruct (IH _ _ _ _ _ _ _ _ _ _ _ _ H Hnh I3 fuelc pollsc kc1 evsc1 T1 Hpl2)
      as (kc' & pollsc' & evsc' & E & E1 & E2).
    exists kc', pollsc', evsc'. split; [|split; assumption].
    rewrite asend_poll_S, Hlc, Hpo in E.
    rewrite asend_poll_S, Hlc, Hpo, T2. exact E.
Qed.

(* removing every WP from the write script and every FP from the flush script changes neither the
   outcome, nor the final sender, nor the bytes in the sink; only fewer polls and pipe calls *)
Theorem asend_poll_pending_transparent : forall fuel limit polls count sd pos k evs sd' k' polls' evs' o,
  asend_poll fuel limit polls pos count sd k evs = (sd', k', polls', evs', o) ->
  o <> SHang -> pos <= count ->
  exists kc' pollsc' evsc',
    asend_poll fuel limit polls pos count sd (strip_pending k) evs = (sd', kc', pollsc', evsc', o)
    /\ sunk kc' = sunk k' /\ pollsc' <= polls' /\ wcalls kc' <= wcalls k'
    /\ wscript kc' = filter not_wp (wscript k') /\ fscript kc' = filter not_fp (fscript k').
Proof.
  intros fuel limit polls count sd pos k evs sd' k' polls' evs' o H Hnh Hp.
  destruct fuel as [|fuel].
  { cbn [asend_poll] in H. inversion H; subst. contradiction. }
  assert (Hs : sink_sim k (strip_pending k)).
  { unfold sink_sim, strip_pending. cbn [sunk wscript fscript wcalls]. repeat split. lia. }
  destruct (asend_sim _ _ _ _ _ _ _ _ _ _ _ _ _ H Hnh Hp fuel polls (strip_pending k) evs Hs (N.le_refl polls))
    as (kc' & pollsc' & evsc' & E & (S1 & S2 & S3 & S4) & E2).
  exists kc', pollsc', evsc'. repeat split; assumption.
Qed.

(* ---------- a toy message type, to show the hypotheses can be met ---------- *)

(* a message is a length byte followed by that many payload bytes *)
Definition toy_size (buf : bytes) : res N :=
  match buf with [] => Err InsufficientSize 0 | l :: _ => Ok (1 + l) end.
Definition toy_emplace (i : bytes) (a : N) (buf : bytes) : bytes * res unit :=
  if 1 + blen i <=? blen buf then (blen i :: i ++ drop (1 + blen i) buf, Ok tt)
  else (buf, Err InsufficientSize 0).

Lemma toy_good CAP (i : bytes) : 1 + blen i <= CAP -> emplace_good toy_size bytes toy_emplace CAP i.
Proof.
  intros H buf Hb. exists (blen i :: i ++ drop (1 + blen i) buf), (1 + blen i).
  unfold toy_emplace. destruct (N.leb_spec (1 + blen i) (blen buf)) as [_|D]; [|lia].
  split; [reflexivity|]. split; [rewrite blen_cons, blen_app, blen_drop; lia|].
  split; [reflexivity|]. lia.
Qed.

(* ---------- the async run does not hang when fuel and watchdog are large enough ---------- *)

(* pipe calls still possible: one per remaining byte and one per remaining script entry *)
Definition wl_pot (count pos : N) (k : sink) : N :=
  wcalls k + (count - pos) + N.of_nat (length (wscript k)).

Lemma length_tl {X} (l : list X) : (length (tl l) <= length l)%nat.
Proof. destruct l; cbn [tl length]; lia. Qed.

Lemma write_loop_potential : forall fuel limit count sd pos k evs sd' k' pos' evs' o,
  write_loop fuel limit pos count sd k evs = (sd', k', pos', evs', o) ->
  pos <= count -> (N.to_nat (count - pos) < fuel)%nat -> wl_pot count pos k <= limit ->
  o <> SHang
  /\ (o = SOk \/ o = SPending ->
      wl_pot count pos' k' <= wl_pot count pos k /\ (length (wscript k') <= length (wscript k))%nat)
  /\ (o = SPending -> (length (wscript k') < length (wscript k))%nat).
Proof.
  induction fuel as [|fuel IH]; intros limit count sd pos k evs sd' k' pos' evs' o H Hp Hfu Hl; [lia|].
  rewrite write_loop_S in H.
  destruct (N.ltb_spec pos count) as [Hlt|Hge].
  2:{ inversion H; subst. split; [intros D; discriminate D|]. split; [intros _; split; lia|intros D; discriminate D]. }
  unfold wl_pot in Hl.
  destruct (N.ltb_spec limit (wcalls k + 1)) as [Hl1|_]; [lia|].
  assert (Hfault : forall sdx kx px ex e, (sd', k', pos', evs', o) = (sdx, kx, px, ex, SIo e) ->
     o <> SHang
     /\ (o = SOk \/ o = SPending ->
         wl_pot count pos' k' <= wl_pot count pos k /\ (length (wscript k') <= length (wscript k))%nat)
     /\ (o = SPending -> (length (wscript k') < length (wscript k))%nat)).
  { intros sdx kx px ex e E. inversion E; subst. split; [intros D; discriminate D|].
    split; [intros [D|D]; discriminate D|intros D; discriminate D]. }
  destruct (wdir_of k (offered_of pos count sd)) as [n0| |e|] eqn:Hd.
  - set (n := umin n0 (blen (offered_of pos count sd))) in H.
    assert (Hn : n <= blen (offered_of pos count sd)) by (unfold n; rewrite umin_spec; lia).
    rewrite blen_offered in Hn.
    destruct (N.eqb_spec n 0) as [Hz|Hnz]; [symmetry in H; apply (Hfault _ _ _ _ _ H)|].
    pose proof (length_tl (wscript k)) as Ht.
    apply IH in H; [|lia|lia|unfold wl_pot; cbn [sink_acc wcalls wscript]; lia].
    destruct H as (H1 & H2 & H3). split; [exact H1|]. split.
    + intros Ho. destruct (H2 Ho) as (P1 & P2). unfold wl_pot in *. cbn [sink_acc wcalls wscript] in *. split; lia.
    + intros Ho. specialize (H3 Ho). cbn [sink_acc wscript] in H3. lia.
  - symmetry in H. apply (Hfault _ _ _ _ _ H).
  - symmetry in H. apply (Hfault _ _ _ _ _ H).
  - inversion H; subst.
    assert (Hws : exists t, wscript k = WP :: t).
    { unfold wdir_of in Hd. destruct (wscript k) as [|d0 t]; [discriminate Hd|]. subst d0. exists t. reflexivity. }
    destruct Hws as (t & Hws). unfold wl_pot. cbn [sink_fault wcalls wscript]. rewrite Hws. cbn [tl length].
    split; [intros D; discriminate D|]. split; [intros _; split; lia|intros _; lia].
Qed.

Theorem asend_poll_no_hang : forall fuel limit polls count sd pos k evs sd' k' polls' evs' o,
  asend_poll fuel limit polls pos count sd k evs = (sd', k', polls', evs', o) ->
  pos <= count ->
  (length (wscript k) + length (fscript k) < fuel)%nat ->
  polls + N.of_nat (length (wscript k) + length (fscript k)) < limit ->
  wcalls k + (count - pos) + N.of_nat (length (wscript k)) <= limit ->
  o <> SHang.
Proof.
  induction fuel as [|fuel IH]; intros limit polls count sd pos k evs sd' k' polls' evs' o H Hp Hfu Hpl Hl; [lia|].
  rewrite asend_poll_S in H.
  destruct (N.leb_spec limit polls) as [Hl1|_]; [lia|].
  destruct (poisoned sd).
  { inversion H; subst. intros D; discriminate D. }
  destruct (write_loop (S (N.to_nat count)) limit pos count sd k evs) as [[[[sd1 k1] pos1] evs1] o1] eqn:Hw.
  assert (Hfc : (N.to_nat (count - pos) < S (N.to_nat count))%nat) by lia.
  destruct (write_loop_potential _ _ _ _ _ _ _ _ _ _ _ _ Hw Hp Hfc Hl) as (Q1 & Q2 & Q3).
  apply write_loop_inv in Hw.
  destruct Hw as (I1 & I2 & I3 & I4 & I5 & I6 & I7 & I8 & I9 & I10 & I11 & I12 & I13 & I14 & I15).
  specialize (I3 Hp).
  destruct o1; try (inversion H; subst; intros D; discriminate D).
  - assert (Hc1 : pos1 = count) by (apply I11; [exact Hp|reflexivity]). subst pos1.
    destruct (Q2 (or_introl eq_refl)) as (P1 & P2). unfold wl_pot in P1.
    unfold fdir_of in H. rewrite I8 in H.
    destruct (fscript k) as [|d t] eqn:Hf.
    { inversion H; subst. intros D; discriminate D. }
    destruct d as [|e|]; try (inversion H; subst; intros D; discriminate D).
    cbn [length] in *.
    apply IH in H; [exact H|lia| | |]; cbn [sink_flushed wscript fscript wcalls]; rewrite ?I8, ?Hf; cbn [tl]; lia.
  - contradiction.
  - destruct (Q2 (or_intror eq_refl)) as (P1 & P2). specialize (Q3 eq_refl). unfold wl_pot in P1.
    apply IH in H; [exact H|exact I3| | |]; rewrite ?I8; lia.
Qed.

(* ---------- asend_one: alloc, emplacement, then asend_poll on the message ---------- *)

Section AsyncMsg.
  Variable size_f : bytes -> res N.
  Variable I : Type.
  Variable emplace_f : I -> N -> bytes -> bytes * res unit.

  Definition msg_sender (CAP : N) (i : I) (sd : sender) : sender :=
    {| sbuf := {| data := msg_buf I emplace_f i (data (sbuf sd)); st := 0; en := CAP |};
       poisoned := poisoned sd |}.

  Lemma asend_one_shape CAP fuel limit polls i sd k :
    sd_ready CAP sd -> emplace_good size_f I emplace_f CAP i -> polls < limit ->
    asend_one size_f I emplace_f fuel limit polls i sd k =
    asend_poll fuel limit (polls + 1) 0 (blen (msg_bytes size_f I emplace_f i (data (sbuf sd))))
      (msg_sender CAP i sd) k []
    /\ take (blen (msg_bytes size_f I emplace_f i (data (sbuf sd)))) (occupied (sbuf (msg_sender CAP i sd)))
       = msg_bytes size_f I emplace_f i (data (sbuf sd)).
  Proof.
    intros (Hs & He & Hc) Hg Hpl.
    destruct (blen_msg_bytes size_f I emplace_f CAP i (data (sbuf sd)) Hg Hc) as (B1 & B2 & B3 & B4).
    assert (Hocc : occupied (sbuf (msg_sender CAP i sd)) = msg_buf I emplace_f i (data (sbuf sd))).
    { unfold msg_sender, occupied. cbn [sbuf st en data]. rewrite N.sub_0_r, drop_0. apply take_all. lia. }
    split.
    - unfold asend_one. destruct (N.leb_spec limit polls) as [D|_]; [lia|].
      rewrite (alloc_ready CAP (sbuf sd) Hs He Hc).
      cbn [st en data]. unfold occupied at 1. cbn [st en data]. rewrite N.sub_0_r, drop_0.
      rewrite (take_all CAP (data (sbuf sd))) by lia.
      destruct (Hg (data (sbuf sd)) Hc) as (buf' & n & He1 & Hb & _).
      assert (Hmb : msg_buf I emplace_f i (data (sbuf sd)) = buf') by (unfold msg_buf; rewrite He1; reflexivity).
      rewrite He1. rewrite take_0. cbn [app].
      rewrite (drop_all CAP (data (sbuf sd))) by lia. rewrite app_nil_r.
      unfold msg_sender in Hocc. rewrite Hmb in Hocc. cbn [sbuf] in Hocc. rewrite Hocc.
      rewrite <- Hmb, B4. unfold msg_sender. reflexivity.
    - rewrite Hocc. unfold msg_bytes at 2. rewrite B4. reflexivity.
  Qed.

  (* a completed async send has put exactly the message into the sink, flush last *)
  Theorem asend_one_ok : forall CAP fuel limit polls i sd k sd' k' polls' evs',
    sd_ready CAP sd -> emplace_good size_f I emplace_f CAP i ->
    asend_one size_f I emplace_f fuel limit polls i sd k = (sd', k', polls', evs', SOk) ->
    sunk k' = sunk k ++ msg_bytes size_f I emplace_f i (data (sbuf sd))
    /\ (exists fl wr, evs' = EvFO :: fl ++ wr
          /\ forallb is_fp fl = true /\ forallb is_wev wr = true
          /\ ev_bytes wr = blen (msg_bytes size_f I emplace_f i (data (sbuf sd))))
    /\ sd_ready CAP sd' /\ poisoned sd' = poisoned sd.
  Proof.
    intros CAP fuel limit polls i sd k sd' k' polls' evs' Hr Hg H.
    destruct (N.leb_spec limit polls) as [D|D].
    { unfold asend_one in H. destruct (N.leb_spec limit polls) as [_|D']; [discriminate H|lia]. }
    destruct (asend_one_shape CAP fuel limit polls i sd k Hr Hg D) as (E & Hm). rewrite E in H.
    destruct (asend_flush_last _ _ _ _ _ _ _ _ _ _ _ _ H (N.le_0_l _)) as (F1 & (fl & wr & F2 & F3 & F4 & F5) & F6 & F7).
    rewrite N.sub_0_r, drop_0 in F1. rewrite Hm in F1. rewrite N.sub_0_r in F5.
    split; [exact F1|]. split.
    { exists fl, wr. rewrite app_nil_r in F2. repeat split; assumption. }
    destruct Hr as (Hs & He & Hc).
    destruct (blen_msg_bytes size_f I emplace_f CAP i (data (sbuf sd)) Hg Hc) as (B1 & B2 & B3 & B4).
    split; [|exact F7].
    unfold sd_ready. rewrite F6. unfold msg_sender. cbn [clear sbuf st en data]. repeat split; lia.
  Qed.
End AsyncMsg.
